(* Trie/CommitTrace.v — the opTracer of every reachable session, unconditionally:
   deletes = node paths of the ground trie at trie.New that are no node paths of
   the current ground trie, inserts = the converse.  (Event consistency of
   trie.go's insert/delete is Trie/CommitEvents.v.) *)
From GV Require Import Lib.Tactics Lib.Bytes Rlp.Codec Trie.Hex Trie.Node Trie.Ops Trie.Hash.
From GV Require Import Trie.OpsProofs Trie.Canon Trie.Proof Trie.ProofProofs.
From GV Require Import Trie.Commit Trie.CommitProofs Trie.CommitTracer Trie.CommitReads Trie.CommitSim Trie.CommitSimDel Trie.CommitHist Trie.CommitEvents.
Local Open Scope N_scope.

(* node positions are decidable *)
Lemma gpos_dec G : forall p q, gpos p G q \/ ~ gpos p G q.
Proof.
  induction G as [|v|k c IH|cs IH|h] using node_ind'; intros p q;
    try (right; intro X; apply gpos_sf in X; discriminate).
  - destruct (list_eq_dec N.eq_dec q p) as [->|NE]; [left; apply gpos_here; reflexivity|].
    destruct (IH (p ++ k) q) as [X|X]; [left; apply gpos_short; exact X|right].
    rewrite gpos_short_iff. tauto.
  - destruct (list_eq_dec N.eq_dec q p) as [->|NE]; [left; apply gpos_here; reflexivity|].
    assert (D : forall l i, Forall (fun c => forall p q, gpos p c q \/ ~ gpos p c q) l ->
              (exists j c, nth_error l j = Some c /\ gpos (p ++ [N.of_nat (i + j)]) c q) \/
              ~ (exists j c, nth_error l j = Some c /\ gpos (p ++ [N.of_nat (i + j)]) c q)).
    { induction l as [|c l IHl]; intros i F.
      - right. intros (j & c & X & _). destruct j; discriminate.
      - inversion F as [|x y Fc Fl]; subst.
        destruct (Fc (p ++ [N.of_nat i]) q) as [X|X].
        + left. exists 0%nat, c. rewrite Nat.add_0_r. auto.
        + destruct (IHl (Datatypes.S i) Fl) as [(j & d & Y1 & Y2)|Y].
          * left. exists (Datatypes.S j), d. replace (i + Datatypes.S j)%nat with (Datatypes.S i + j)%nat by lia. auto.
          * right. intros ([|j] & d & Y1 & Y2).
            -- cbn in Y1. inversion Y1; subst. rewrite Nat.add_0_r in Y2. contradiction.
            -- apply Y. exists j, d. replace (Datatypes.S i + j)%nat with (i + Datatypes.S j)%nat by lia. auto. }
    destruct (D cs 0%nat IH) as [(j & c & X1 & X2)|X].
    + left. eapply gpos_full; [exact X1|exact X2].
    + right. rewrite gpos_full_iff. intros [Y|(j & c & Y1 & Y2)]; [contradiction|]. apply X. eauto.
Qed.

(* ---------------- the tracer invariant, in Prop ---------------- *)
Definition ti (start pres : list N -> Prop) (tr : tracer) : Prop :=
  forall q, (am_has q (tr_del tr) = true <-> start q /\ ~ pres q) /\
            (am_has q (tr_ins tr) = true <-> ~ start q /\ pres q).

Lemma ti_ext start a b tr : peq a b -> ti start a tr -> ti start b tr.
Proof. intros E T q. destruct (T q) as [X Y]. rewrite <- (E q). auto. Qed.

Lemma ti_empty start : ti start start tr_empty.
Proof. intro q. cbn. split; split; try discriminate; tauto. Qed.

Lemma bool_true_iff_false (b : bool) (P : Prop) : (b = true <-> P) -> b = false -> ~ P.
Proof. intros E F X. apply E in X. congruence. Qed.

Lemma ti_step start pres tr e :
  (forall q, start q \/ ~ start q) ->
  ti start pres tr -> pguard pres e -> ti start (pstep pres e) (trace_ev tr e).
Proof.
  intros SD T G q. destruct (T q) as [TD TI].
  destruct e as [q0|q0|q0 b0]; cbn [trace_ev pstep]; [| |exact (conj TD TI)].
  - (* onInsert at a free path *)
    cbn in G. unfold on_insert. destruct (T q0) as [QD QI].
    destruct (am_has q0 (tr_del tr)) eqn:HD; cbn [tr_del tr_ins].
    + rewrite am_has_del. destruct (bytes_eqb q q0) eqn:QQ.
      * apply bytes_eqb_eq in QQ. subst q. cbn. destruct (proj1 QD eq_refl) as [S0 _].
        split; split; try discriminate; try tauto; intro X; apply TI in X; tauto.
      * assert (q <> q0) by (intro X; subst; rewrite (proj2 (bytes_eqb_eq q0 q0) eq_refl) in QQ; discriminate).
        cbn. rewrite TD, TI. tauto.
    + rewrite am_has_put. destruct (bytes_eqb q q0) eqn:QQ.
      * apply bytes_eqb_eq in QQ. subst q. cbn.
        assert (NS : ~ start q0) by (intro X; apply (bool_true_iff_false _ _ QD eq_refl); tauto).
        split; split; try tauto; intro X; apply TD in X; tauto.
      * assert (q <> q0) by (intro X; subst; rewrite (proj2 (bytes_eqb_eq q0 q0) eq_refl) in QQ; discriminate).
        cbn. rewrite TD, TI. tauto.
  - (* onDelete at an occupied path *)
    cbn in G. unfold on_delete. destruct (T q0) as [QD QI].
    destruct (am_has q0 (tr_ins tr)) eqn:HI; cbn [tr_del tr_ins].
    + rewrite am_has_del. destruct (bytes_eqb q q0) eqn:QQ.
      * apply bytes_eqb_eq in QQ. subst q. cbn. destruct (proj1 QI eq_refl) as [S0 _].
        split; split; try discriminate; try tauto; intro X; apply TD in X; tauto.
      * assert (q <> q0) by (intro X; subst; rewrite (proj2 (bytes_eqb_eq q0 q0) eq_refl) in QQ; discriminate).
        cbn. rewrite TD, TI. tauto.
    + rewrite am_has_put. destruct (bytes_eqb q q0) eqn:QQ.
      * apply bytes_eqb_eq in QQ. subst q. cbn.
        assert (S0 : start q0).
        { destruct (SD q0) as [X|X]; [exact X|]. exfalso. apply (bool_true_iff_false _ _ QI eq_refl). tauto. }
        split; split; try tauto; intro X; apply TI in X; tauto.
      * assert (q <> q0) by (intro X; subst; rewrite (proj2 (bytes_eqb_eq q0 q0) eq_refl) in QQ; discriminate).
        cbn. rewrite TD, TI. tauto.
Qed.

Lemma ti_steps start (SD : forall q, start q \/ ~ start q) ev : forall pres tr,
  ti start pres tr -> pcons pres ev -> ti start (pafter pres ev) (trace_evs tr ev).
Proof.
  induction ev as [|e ev IH]; intros pres tr T C; [exact T|].
  destruct C as [G C]. cbn [pafter trace_evs fold_left].
  change (fold_left trace_ev ev (trace_ev tr e)) with (trace_evs (trace_ev tr e) ev).
  apply IH; [apply ti_step; assumption|exact C].
Qed.

Lemma pcons_only_res ev : only_res ev -> forall P, pcons P ev /\ peq (pafter P ev) P.
Proof.
  induction 1 as [|e ev He _ IH]; intro P; cbn; [split; [exact I|intro q; tauto]|].
  destruct e as [q|q|q b]; try contradiction. destruct (IH (pstep P (TRes q b))) as [X Y].
  split; [split; [exact I|exact X]|]. intro x. rewrite (Y x). cbn. tauto.
Qed.

Lemma trace_evs_only_res_ins ev : only_res ev -> forall tr, tr_ins (trace_evs tr ev) = tr_ins tr.
Proof.
  induction 1 as [|e ev He _ IH]; intro tr; [reflexivity|].
  cbn [trace_evs fold_left]. change (fold_left trace_ev ev (trace_ev tr e)) with (trace_evs (trace_ev tr e) ev).
  rewrite IH. destruct e; try contradiction. reflexivity.
Qed.

Lemma ti_same_sets start pres tr tr' :
  tr_del tr' = tr_del tr -> tr_ins tr' = tr_ins tr -> ti start pres tr -> ti start pres tr'.
Proof. intros D I T q. rewrite D, I. apply T. Qed.

Section TraceSess.
  Variable H : list N -> list N.
  Hypothesis H_len : forall x, length (H x) = 32%nat.
  Hypothesis H_inj_empty : forall e, H e = H empty_root_preimage -> e = empty_root_preimage.

  (* the session invariant with the tracer: [F0] = ground trie at trie.New *)
  Definition sinv2 (S : store) (ss : sess) (F0 F : node) : Prop :=
    sinv H S ss F /\ gsizes F /\ ti (gpos [] F0) (gpos [] F) (s_tr ss).

  Lemma wfpos_ground F key : gok F -> forallb byteb key = true -> wfpos F (keybytes_to_hex key).
  Proof.
    intros GO BK. right. split; [apply keybytes_to_hex_valid; exact BK|].
    destruct GO as [->|[Cn _]]; [constructor|apply can_wfn; exact Cn].
  Qed.

  Lemma ti_after start (SD : forall q, start q \/ ~ start q) F F' tr ev ev' :
    ti start (gpos [] F) tr -> econs [] F F' ev' -> nores ev' = nores ev ->
    ti start (gpos [] F') (trace_evs tr ev).
  Proof.
    intros T (_ & PC & PA) NE.
    assert (PC2 : pcons (gpos [] F) ev).
    { apply pcons_nores. rewrite <- NE. apply pcons_nores. exact PC. }
    eapply ti_ext; [|apply (ti_steps start SD ev _ _ T PC2)].
    intro q. rewrite <- (pafter_nores ev (gpos [] F) q), <- NE, (pafter_nores ev' (gpos [] F) q). apply PA.
  Qed.

  Theorem sess_update_sinv2 S ss F0 F key v ss' :
    sinv2 S ss F0 F -> op_ok key v ->
    sess_update H PathScheme S ss key v = TOk ss' ->
    exists F', sinv2 S ss' F0 F' /\
               lk F' (keybytes_to_hex key) = vopt v /\
               (forall hk, hk <> keybytes_to_hex key -> lk F' hk = lk F hk).
  Proof.
    intros (SI & Sz & T) (BK & SK & SV) E. pose proof SI as [GO Rp].
    set (k := keybytes_to_hex key) in *.
    assert (Vk : valid_key k) by (apply keybytes_to_hex_valid; exact BK).
    assert (Wp : wfpos F k) by (apply wfpos_ground; assumption).
    assert (Cp : canpos F k).
    { right. split; [exact Vk|]. destruct GO as [->|[Cn _]]; [left; reflexivity|right; exact Cn]. }
    assert (FIN : forall F', canpos F' k -> gsizes F' -> gok F').
    { intros F' [[X _]|[_ [->|Cn]]] Sz'; [subst k; rewrite X in Vk; inversion Vk|left; reflexivity|].
      right. split; [exact Cn|apply can_sizes_pwf; assumption]. }
    destruct v as [|x v].
    - destruct (sess_delete_rep H H_len S ss F key ss' SI BK E) as (F' & d & evm & TR & Rp' & GR & _). fold k in GR.
      destruct (delete_spec (resolve_of H PathScheme S) (ops_fuel k) F [] k (ops_fuel_ok k) Wp)
        as (d0 & n0 & ev0 & DE0 & PO).
      destruct (GR (ops_fuel k) (ops_fuel_ok k)) as (ev' & DE' & NE). rewrite DE0 in DE'. inversion DE'; subst d0 n0 ev0.
      destruct (delete_econs _ _ _ _ _ _ _ _ DE0 Wp (ops_fuel_ok k)) as [EC _].
      destruct PO as (_ & L1 & L2 & _ & _ & CP & _).
      assert (Sz' : gsizes F').
      { intros k' v' L'. destruct (list_eq_dec N.eq_dec k' k) as [->|NEk]; [congruence|].
        rewrite (L2 k' NEk) in L'. apply Sz. exact L'. }
      exists F'. split; [|split; [exact L1|exact L2]].
      split; [split; [apply FIN; [apply CP; exact Cp|exact Sz']|exact Rp']|]. split; [exact Sz'|].
      rewrite TR. eapply ti_after; [apply gpos_dec|exact T|exact EC|exact NE].
    - destruct (sess_insert_rep H H_len S ss F key x v ss' SI BK E) as (F' & d & evm & TR & Rp' & GR & _). fold k in GR.
      destruct (insert_spec (resolve_of H PathScheme S) (ops_fuel k) F [] k (x :: v) (ops_fuel_ok k) Wp)
        as (d0 & n0 & ev0 & DE0 & PO).
      destruct (GR (ops_fuel k) (ops_fuel_ok k)) as (ev' & DE' & NE). rewrite DE0 in DE'. inversion DE'; subst d0 n0 ev0.
      destruct (insert_econs _ _ _ _ _ _ _ _ _ DE0 Wp) as [EC _].
      destruct PO as (_ & _ & L1 & L2 & _ & _ & CP & _).
      assert (Sz' : gsizes F').
      { intros k' v' L'. destruct (list_eq_dec N.eq_dec k' k) as [->|NEk].
        - rewrite L1 in L'. inversion L'; subst v'. split; [exact SK|]. split; [discriminate|exact SV].
        - rewrite (L2 k' NEk) in L'. apply Sz. exact L'. }
      exists F'. split; [|split; [exact L1|exact L2]].
      split; [split; [apply FIN; [apply CP; exact Cp|exact Sz']|exact Rp']|]. split; [exact Sz'|].
      rewrite TR. eapply ti_after; [apply gpos_dec|exact T|exact EC|exact NE].
  Qed.

  Lemma sess_get_tr S ss F key v ss' :
    sinv H S ss F -> forallb byteb key = true -> sess_get H PathScheme S ss key = TOk (v, ss') ->
    tr_del (s_tr ss') = tr_del (s_tr ss) /\ tr_ins (s_tr ss') = tr_ins (s_tr ss).
  Proof.
    intros [GO Rp] BK E. unfold sess_get in E.
    destruct (trie_get (resolve_of H PathScheme S) (s_root ss) key) as [[[[v1 n1] d1] ev1]|er] eqn:G; [|discriminate].
    inversion E; subst. unfold trie_get in G.
    destruct (get_rep_node H H_len _ _ _ _ _ _ _ _ _ _ _ _ _ Rp (wfpos_ground F key GO BK) G) as [_ OR].
    cbn [s_tr]. split; [apply trace_evs_only_res_del|apply trace_evs_only_res_ins]; exact OR.
  Qed.

  Lemma sess_getnode_tr S ss F path g ss' :
    sinv H S ss F -> sess_getnode H PathScheme S ss path = (g, ss') ->
    tr_del (s_tr ss') = tr_del (s_tr ss) /\ tr_ins (s_tr ss') = tr_ins (s_tr ss).
  Proof.
    intros [GO Rp] E. unfold sess_getnode, sess_getnode_with in E.
    destruct (getnode H (2 * length path + 4) PathScheme S (dirty_at ss) (s_root ss) [] path)
      as [[[g1 n1] r1] ev1] eqn:GE.
    inversion E; subst.
    destruct (getnode_rep H H_len PathScheme S _ _ _ _ _ _ _ _ _ _ _ _ _ GE Rp) as [OR _].
    cbn [s_tr]. split; [apply trace_evs_only_res_del|apply trace_evs_only_res_ins]; exact OR.
  Qed.

  Lemma open_tr S root ss : open_trie H PathScheme S root = TOk ss ->
    tr_del (s_tr ss) = [] /\ tr_ins (s_tr ss) = [].
  Proof.
    unfold open_trie. destruct (bytes_eqb root (H empty_root_preimage)); [intro E; inversion E; subst; auto|].
    destruct (resolve_of H PathScheme S root []) as [[n b]|]; intro E; inversion E; subst. auto.
  Qed.

  Lemma ti_open start tr : tr_del tr = [] -> tr_ins tr = [] -> ti start start tr.
  Proof. intros D I q. rewrite D, I. cbn. split; split; try discriminate; tauto. Qed.

End TraceSess.
