(* Trie/OpsProofs.v — proofs about Trie/Ops.v (get / insert / delete) on in-memory
   tries (no hash nodes), for an arbitrary [resolve] (it is never called).

   Specification vocabulary defined here (used by Trie/Canon.v and Properties/C06.v):
     valid_key k   hex key = nibbles (< 16) followed by exactly one terminator 16
     lk n k        the pure structural lookup (first component of [get])
     wfn n         well-formed in-memory node in an interior position (no hash
                   node, every full node has 17 children, values only at the end
                   of terminated paths)
     can n         canonical non-empty node (what insert/delete maintain)
     wfpos / canpos  the same, indexed by the key that remains to be consumed
                   ([] = we are standing on a value slot)

   Main results: get_lk, insert_spec, delete_spec (no EFuel / EPanic, lookup
   refinement, dirty flags, preservation of wfn and can). *)
From GV Require Import Lib.Tactics Trie.Hex Trie.HexProofs Trie.Node Trie.Ops.
Local Open Scope N_scope.

(* ------------------------------------------------------------------ lists *)

Lemma set_nth_some {A} i (v : A) l : (i < length l)%nat -> exists l', set_nth i v l = Some l'.
Proof.
  revert i; induction l as [|x l IH]; intros i Hi; simpl in Hi. { lia. }
  destruct i; simpl; [eauto|]. destruct (IH i) as [l' ->]; [lia|]. eauto.
Qed.

Lemma set_nth_spec {A} i (v : A) l l' : set_nth i v l = Some l' ->
  length l' = length l /\
  forall j, nth_error l' j = if Nat.eqb j i then Some v else nth_error l j.
Proof.
  revert i l'; induction l as [|x l IH]; intros i l' H. { destruct i; discriminate. }
  destruct i; simpl in H.
  - inversion H; subst. split; [reflexivity|]. intros [|j]; reflexivity.
  - destruct (set_nth i v l) as [r|] eqn:E; [|discriminate]. inversion H; subst.
    destruct (IH _ _ E) as [L Hn]. split; [simpl; lia|]. intros [|j]; simpl; [reflexivity|]. apply Hn.
Qed.

Lemma set_nth_same {A} i (v : A) l : nth_error l i = Some v -> set_nth i v l = Some l.
Proof.
  revert i; induction l as [|x l IH]; intros [|i] H; simpl in *; try discriminate.
  - inversion H; reflexivity.
  - rewrite (IH _ H). reflexivity.
Qed.

Lemma nth_error_ext {A} (l l' : list A) : (forall i, nth_error l i = nth_error l' i) -> l = l'.
Proof.
  revert l'; induction l as [|x l IH]; intros [|y l'] H; auto.
  - specialize (H O); discriminate.
  - specialize (H O); discriminate.
  - f_equal. { specialize (H O). simpl in H. congruence. }
    apply IH. intros i. apply (H (S i)).
Qed.

Lemma bytes_eqb_eq a b : bytes_eqb a b = true <-> a = b.
Proof.
  revert b; induction a as [|x a IH]; intros [|y b]; simpl; split; intros H; try congruence.
  - apply andb_true_iff in H as [H1 H2]. apply N.eqb_eq in H1. apply IH in H2. congruence.
  - inversion H; subst. rewrite N.eqb_refl. simpl. apply IH. reflexivity.
Qed.

Lemma bytes_eqb_refl a : bytes_eqb a a = true.
Proof. apply bytes_eqb_eq. reflexivity. Qed.

(* the common prefix computed by prefixLen, as a decomposition *)
Lemma prefix_len_split a b : exists p a' b',
  a = p ++ a' /\ b = p ++ b' /\ prefix_len a b = length p /\
  match a', b' with x :: _, y :: _ => x <> y | _, _ => True end.
Proof.
  revert b; induction a as [|x a IH]; intros b.
  - exists [], [], b. simpl. auto.
  - destruct b as [|y b].
    + exists [], (x :: a), []. simpl. auto.
    + simpl. destruct (N.eqb_spec x y) as [->|Ne].
      * destruct (IH b) as (p & a' & b' & -> & -> & E & D).
        exists (y :: p), a', b'. simpl. rewrite E. auto.
      * exists [], (x :: a), (y :: b). simpl. auto.
Qed.

Lemma firstn_app_exact {A} (p l : list A) : firstn (length p) (p ++ l) = p.
Proof. induction p; simpl; [destruct l; reflexivity|]. f_equal. assumption. Qed.

Lemma skipn_app_exact {A} (p l : list A) : skipn (length p) (p ++ l) = l.
Proof. induction p; simpl; auto. Qed.

Lemma nth_error_app_exact {A} (p l : list A) : nth_error (p ++ l) (length p) = hd_error l.
Proof. induction p; simpl; auto. Qed.

Lemma firstn_app_succ {A} (p : list A) x l : firstn (length p + 1) (p ++ x :: l) = p ++ [x].
Proof. induction p; simpl; [reflexivity|]. f_equal. assumption. Qed.

Lemma skipn_app_succ {A} (p : list A) x l : skipn (length p + 1) (p ++ x :: l) = l.
Proof. induction p; simpl; auto. Qed.

(* ------------------------------------------------------------------ strip *)

(* remove the prefix [p] from [l] *)
Fixpoint strip (p l : list N) : option (list N) :=
  match p, l with
  | [], _ => Some l
  | x :: p', y :: l' => if N.eqb x y then strip p' l' else None
  | _ :: _, [] => None
  end.

Lemma strip_some p l r : strip p l = Some r <-> l = p ++ r.
Proof.
  revert l; induction p as [|x p IH]; intros l; simpl.
  - split; congruence.
  - destruct l as [|y l]; [split; discriminate|].
    destruct (N.eqb_spec x y) as [->|Ne].
    + rewrite IH. split; congruence.
    + split; [discriminate|]. intros H; inversion H; congruence.
Qed.

Lemma strip_app_same p l : strip p (p ++ l) = Some l.
Proof. apply strip_some. reflexivity. Qed.

Lemma strip_self p : strip p p = Some [].
Proof. apply strip_some. rewrite app_nil_r. reflexivity. Qed.

Lemma strip_app p q l :
  strip (p ++ q) l = match strip p l with Some r => strip q r | None => None end.
Proof.
  revert l; induction p as [|x p IH]; intros l; simpl; [reflexivity|].
  destruct l as [|y l]; [reflexivity|]. destruct (N.eqb x y); [apply IH|reflexivity].
Qed.

Lemma strip_cons_neq a b l r : a <> b -> strip (a :: l) (b :: r) = None.
Proof. intros H. simpl. destruct (N.eqb_spec a b); congruence. Qed.

Lemma is_prefix_strip p l :
  match strip p l with
  | Some r => is_prefix_of p l = true /\ skipn (length p) l = r
  | None => is_prefix_of p l = false
  end.
Proof.
  unfold is_prefix_of. revert l; induction p as [|x p IH]; intros l; simpl.
  - auto.
  - destruct l as [|y l]; simpl; [reflexivity|].
    destruct (N.eqb x y); simpl; [|reflexivity]. apply IH.
Qed.

(* ------------------------------------------------------------------ keys *)

Definition nibbles (p : list N) : Prop := Forall (fun x => x < 16) p.

Fixpoint valid_key (k : list N) : Prop :=
  match k with
  | [] => False
  | x :: r => match r with [] => x = 16 | _ :: _ => x < 16 /\ valid_key r end
  end.

Lemma valid_key_cons x r :
  valid_key (x :: r) <-> (x = 16 /\ r = []) \/ (x < 16 /\ valid_key r).
Proof.
  destruct r as [|y r]; simpl.
  - split; [auto|]. intros [[? _]|[_ []]]; assumption.
  - split; [auto|]. intros [[_ ?]|?]; [discriminate|assumption].
Qed.

Lemma valid_key_app p : nibbles p -> valid_key (p ++ [16]).
Proof.
  induction 1 as [|x p Hx Hp IH]; simpl; [reflexivity|].
  destruct (p ++ [16]) eqn:E; [destruct p; discriminate|]. auto.
Qed.

Lemma valid_key_nib_app p k : nibbles p -> valid_key k -> valid_key (p ++ k).
Proof.
  induction 1 as [|x p Hx Hp IH]; intros Hk; simpl; [assumption|].
  specialize (IH Hk). destruct (p ++ k) eqn:E; [destruct IH|]. auto.
Qed.

(* a valid key is not a proper prefix of a valid key, and has no nibble-only form *)
Lemma valid_key_app_inv p k : valid_key (p ++ k) -> k <> [] -> nibbles p /\ valid_key k.
Proof.
  induction p as [|x p IH]; intros H Hk; simpl in *.
  - split; [constructor|assumption].
  - apply valid_key_cons in H as [[-> E]|[Hx H]].
    + destruct p; destruct k; try discriminate; congruence.
    + destruct (IH H Hk) as [? ?]. split; [constructor|]; assumption.
Qed.

Lemma valid_key_prefix_end p k : valid_key p -> valid_key (p ++ k) -> k = [].
Proof.
  induction p as [|x p IH]; intros Hp H; [destruct Hp|].
  simpl in H. apply valid_key_cons in Hp as [[-> ->]|[Hx Hp]].
  - simpl in H. apply valid_key_cons in H as [[_ ?]|[? _]]; [assumption|lia].
  - apply valid_key_cons in H as [[-> E]|[_ H]]; [lia|]. auto.
Qed.

Lemma valid_key_not_nibbles p : valid_key p -> nibbles p -> False.
Proof.
  induction p as [|x p IH]; intros Hp Hn; [destruct Hp|].
  inversion Hn; subst. apply valid_key_cons in Hp as [[-> _]|[_ Hp]]; [lia|auto].
Qed.

Lemma valid_key_nonempty k : valid_key k -> k <> [].
Proof. destruct k; [intros []|discriminate]. Qed.

Lemma nibbles_app p q : nibbles (p ++ q) <-> nibbles p /\ nibbles q.
Proof. apply Forall_app. Qed.

Lemma nibbles_of_nibbles bs : forallb byteb bs = true -> nibbles (nibbles_of bs).
Proof.
  intros H. apply nibbles_of_nib in H. unfold nibbles. apply Forall_forall.
  intros x Hx. rewrite forallb_forall in H. specialize (H x Hx). unfold nibbleb in H. lia.
Qed.

(* keybytesToHex of a byte key is a valid hex key *)
Lemma keybytes_to_hex_valid k : forallb byteb k = true -> valid_key (keybytes_to_hex k).
Proof. intros H. apply valid_key_app. apply nibbles_of_nibbles. exact H. Qed.

(* ------------------------------------------------------------------ lookup *)

(* the structural lookup: the value stored under hex key [k] *)
Fixpoint lk (n : node) (k : list N) {struct n} : option (list N) :=
  match n with
  | NEmpty | NHash _ => None
  | NValue v => match k with [] => Some v | _ :: _ => None end
  | NShort nk c => match strip nk k with Some r => lk c r | None => None end
  | NFull cs =>
      match k with
      | [] => None
      | k0 :: kr =>
          (fix go (l : list node) (i : nat) {struct l} : option (list N) :=
             match l with
             | [] => None
             | c :: l' => match i with O => lk c kr | S i' => go l' i' end
             end) cs (N.to_nat k0)
      end
  end.

Lemma lk_full cs k0 kr :
  lk (NFull cs) (k0 :: kr) =
  match nth_error cs (N.to_nat k0) with Some c => lk c kr | None => None end.
Proof.
  simpl. generalize (N.to_nat k0). induction cs as [|c cs IH]; intros [|i]; simpl; auto.
Qed.

Lemma lk_full_nil cs : lk (NFull cs) [] = None.
Proof. reflexivity. Qed.

Lemma lk_short nk c k :
  lk (NShort nk c) k = match strip nk k with Some r => lk c r | None => None end.
Proof. reflexivity. Qed.

Lemma lk_value v k : lk (NValue v) k = match k with [] => Some v | _ :: _ => None end.
Proof. reflexivity. Qed.

Lemma lk_empty k : lk NEmpty k = None.
Proof. reflexivity. Qed.

Lemma lk_leaf nk v k : lk (NShort nk (NValue v)) k = if bytes_eqb k nk then Some v else None.
Proof.
  rewrite lk_short. destruct (strip nk k) as [r|] eqn:E.
  - apply strip_some in E. subst k. destruct r as [|x r]; simpl.
    + rewrite app_nil_r, bytes_eqb_refl. reflexivity.
    + destruct (bytes_eqb (nk ++ x :: r) nk) eqn:B; [|reflexivity].
      apply bytes_eqb_eq in B. apply (f_equal (@length N)) in B. rewrite app_length in B. simpl in B. lia.
  - destruct (bytes_eqb k nk) eqn:B; [|reflexivity]. apply bytes_eqb_eq in B. subst.
    rewrite strip_self in E. discriminate.
Qed.

Global Opaque lk.

(* ------------------------------------------------------------------ shapes *)

Definition vslot (n : node) : Prop := n = NEmpty \/ exists v, n = NValue v.

Inductive wfn : node -> Prop :=
| wfn_empty : wfn NEmpty
| wfn_leaf k v : valid_key k -> wfn (NShort k (NValue v))
| wfn_ext k c : nibbles k -> k <> [] -> wfn c -> wfn (NShort k c)
| wfn_full cs :
    length cs = 17%nat ->
    (forall i c, nth_error cs i = Some c -> (i < 16)%nat -> wfn c) ->
    (forall c, nth_error cs 16 = Some c -> vslot c) ->
    wfn (NFull cs).

Definition count (cs : list node) : nat := length (filter (fun c => negb (is_empty c)) cs).

Inductive can : node -> Prop :=
| can_leaf k v : valid_key k -> can (NShort k (NValue v))
| can_ext k cs : nibbles k -> k <> [] -> can (NFull cs) -> can (NShort k (NFull cs))
| can_full cs :
    length cs = 17%nat ->
    (forall i c, nth_error cs i = Some c -> (i < 16)%nat -> c = NEmpty \/ can c) ->
    (forall c, nth_error cs 16 = Some c -> vslot c) ->
    (2 <= count cs)%nat ->
    can (NFull cs).

(* [n] sits where [key] remains to be consumed *)
Definition wfpos (n : node) (key : list N) : Prop :=
  (key = [] /\ vslot n) \/ (valid_key key /\ wfn n).
Definition canpos (n : node) (key : list N) : Prop :=
  (key = [] /\ vslot n) \/ (valid_key key /\ (n = NEmpty \/ can n)).

Lemma can_wfn n : can n -> wfn n.
Proof.
  induction n as [| |k c IH|cs IH|] using node_ind'; intros H; inversion H; subst.
  - apply wfn_leaf. assumption.
  - apply wfn_ext; auto.
  - apply wfn_full; auto. intros i c Hc Hi.
    rewrite Forall_forall in IH. specialize (IH c (nth_error_In _ _ Hc)).
    destruct (H2 i c Hc Hi) as [->|Hcan]; [constructor|auto].
Qed.

Lemma canpos_wfpos n k : canpos n k -> wfpos n k.
Proof.
  intros [H|[Hk [->|H]]]; [left; exact H|right|right]; split; auto using wfn_empty, can_wfn.
Qed.

Lemma wfn_not_value v : wfn (NValue v) -> False.
Proof. inversion 1. Qed.

(* the child of a short node, and the position it sits in *)
Lemma wfn_short_child nk c r :
  wfn (NShort nk c) -> valid_key (nk ++ r) -> wfpos c r /\ nk <> [] /\ (r <> [] -> nibbles nk).
Proof.
  intros Hw Hk. inversion Hw; subst.
  - pose proof (valid_key_prefix_end _ _ H0 Hk) as ->.
    split; [left; split; [reflexivity|right; eauto]|]. split; [apply valid_key_nonempty; assumption|congruence].
  - assert (r <> []).
    { intros ->. rewrite app_nil_r in Hk. exact (valid_key_not_nibbles _ Hk H1). }
    destruct (valid_key_app_inv _ _ Hk H) as [_ Hr]. split; [right; auto|auto].
Qed.

Lemma wfn_short_rebuild nk c c' r :
  wfn (NShort nk c) -> valid_key (nk ++ r) -> wfpos c' r -> c' <> NEmpty -> wfn (NShort nk c').
Proof.
  intros Hw Hk Hp Hne. destruct Hp as [[-> [->|[v ->]]]|[Hr Hc']]; [congruence| |].
  - rewrite app_nil_r in Hk. apply wfn_leaf. assumption.
  - destruct (wfn_short_child _ _ _ Hw Hk) as (_ & Hne' & Hn).
    apply wfn_ext; auto. apply Hn. apply valid_key_nonempty. assumption.
Qed.

(* dropping a nibble prefix from the key of a short node *)
Lemma wfn_short_drop p rest c :
  wfn (NShort (p ++ rest) c) -> rest <> [] -> nibbles p /\ wfn (NShort rest c).
Proof.
  intros Hw Hr. inversion Hw; subst.
  - destruct (valid_key_app_inv _ _ H0 Hr). split; [assumption|]. apply wfn_leaf. assumption.
  - apply nibbles_app in H1 as [? ?]. split; [assumption|]. apply wfn_ext; assumption.
Qed.

Lemma wfn_short_prepend p k c : nibbles p -> wfn (NShort k c) -> wfn (NShort (p ++ k) c).
Proof.
  intros Hp Hw. inversion Hw; subst.
  - apply wfn_leaf. apply valid_key_nib_app; assumption.
  - apply wfn_ext; auto. { apply nibbles_app; auto. } destruct p; [assumption|discriminate].
Qed.

Lemma can_short_prepend p k c : nibbles p -> can (NShort k c) -> can (NShort (p ++ k) c).
Proof.
  intros Hp Hw. inversion Hw; subst.
  - apply can_leaf. apply valid_key_nib_app; assumption.
  - apply can_ext; auto. { apply nibbles_app; auto. } destruct p; [assumption|discriminate].
Qed.

Lemma can_short_drop p rest c :
  can (NShort (p ++ rest) c) -> rest <> [] -> nibbles p /\ can (NShort rest c).
Proof.
  intros Hw Hr. inversion Hw; subst.
  - destruct (valid_key_app_inv _ _ H0 Hr). split; [assumption|]. apply can_leaf. assumption.
  - apply nibbles_app in H1 as [? ?]. split; [assumption|]. apply can_ext; assumption.
Qed.

(* children of a full node *)
Lemma wfn_full_child cs k0 kr :
  wfn (NFull cs) -> valid_key (k0 :: kr) ->
  exists c, nth_error cs (N.to_nat k0) = Some c /\ wfpos c kr.
Proof.
  intros Hw Hk. inversion Hw; subst.
  destruct (nth_error cs (N.to_nat k0)) as [c|] eqn:E.
  2:{ apply nth_error_None in E. apply valid_key_cons in Hk as [[-> _]|[? _]]; lia. }
  exists c. split; [reflexivity|].
  apply valid_key_cons in Hk as [[-> ->]|[Hx Hk]].
  - left. split; [reflexivity|]. apply H2. exact E.
  - right. split; [assumption|]. apply (H1 _ _ E). lia.
Qed.

Lemma can_full_child cs k0 kr c :
  can (NFull cs) -> valid_key (k0 :: kr) -> nth_error cs (N.to_nat k0) = Some c -> canpos c kr.
Proof.
  intros Hw Hk E. inversion Hw; subst.
  apply valid_key_cons in Hk as [[-> ->]|[Hx Hk]].
  - left. split; [reflexivity|]. apply H2. exact E.
  - right. split; [assumption|]. apply (H1 _ _ E). lia.
Qed.

Lemma wfn_full_set cs k0 kr c' cs' :
  wfn (NFull cs) -> valid_key (k0 :: kr) -> wfpos c' kr ->
  set_nth (N.to_nat k0) c' cs = Some cs' -> wfn (NFull cs').
Proof.
  intros Hw Hk Hp Hs. inversion Hw; subst. destruct (set_nth_spec _ _ _ _ Hs) as [L Hn].
  apply valid_key_cons in Hk as [[-> ->]|[Hx Hk]].
  - apply wfn_full; [lia| |].
    + intros i c Hc Hi. rewrite Hn in Hc. destruct (Nat.eqb_spec i (N.to_nat 16)); [lia|]. eauto.
    + intros c Hc. rewrite Hn in Hc. change (N.to_nat 16) with 16%nat in Hc. simpl in Hc.
      inversion Hc; subst. destruct Hp as [[_ ?]|[[] _]]. assumption.
  - apply wfn_full; [lia| |].
    + intros i c Hc Hi. rewrite Hn in Hc. destruct (Nat.eqb_spec i (N.to_nat k0)); [|eauto].
      inversion Hc; subst. destruct Hp as [[-> _]|[_ ?]]; [destruct Hk|assumption].
    + intros c Hc. rewrite Hn in Hc. destruct (Nat.eqb_spec 16 (N.to_nat k0)); [lia|]. auto.
Qed.

Lemma lk_full_set cs k0 c' cs' x r :
  set_nth (N.to_nat k0) c' cs = Some cs' ->
  lk (NFull cs') (x :: r) = if N.eqb x k0 then lk c' r else lk (NFull cs) (x :: r).
Proof.
  intros Hs. destruct (set_nth_spec _ _ _ _ Hs) as [_ Hn]. rewrite !lk_full, Hn.
  destruct (N.eqb_spec x k0) as [->|Ne].
  - rewrite Nat.eqb_refl. reflexivity.
  - destruct (Nat.eqb_spec (N.to_nat x) (N.to_nat k0)); [lia|reflexivity].
Qed.

(* ------------------------------------------------------------------ count *)

Lemma count_cons c cs : count (c :: cs) = ((if is_empty c then 0 else 1) + count cs)%nat.
Proof. unfold count. simpl. destruct (is_empty c); reflexivity. Qed.

Lemma count_set_nth i c' cs cs' c :
  set_nth i c' cs = Some cs' -> nth_error cs i = Some c ->
  (count cs' + (if is_empty c then 0 else 1) = count cs + (if is_empty c' then 0 else 1))%nat.
Proof.
  revert i cs'; induction cs as [|x cs IH]; intros [|i] cs' Hs Hc; simpl in *; try discriminate.
  - inversion Hs; inversion Hc; subst. rewrite !count_cons. lia.
  - destruct (set_nth i c' cs) as [r|] eqn:E; [|discriminate]. inversion Hs; subst.
    rewrite !count_cons. specialize (IH _ _ E Hc). lia.
Qed.

(* what the scan in delete finds *)
Lemma single_child_from_spec cs : forall i,
  match single_child_from i cs with
  | None => count cs = 0%nat
  | Some None => (2 <= count cs)%nat
  | Some (Some p) =>
      count cs = 1%nat /\
      exists j c, p = i + N.of_nat j /\ nth_error cs j = Some c /\ c <> NEmpty /\
                  forall j' c', nth_error cs j' = Some c' -> j' <> j -> c' = NEmpty
  end.
Proof.
  induction cs as [|c cs IH]; intros i; simpl; [reflexivity|].
  rewrite count_cons. specialize (IH (i + 1)).
  destruct (is_empty c) eqn:Ec.
  - destruct c; try discriminate.
    destruct (single_child_from (i + 1) cs) as [[p|]|]; auto.
    destruct IH as [Hc (j & c & -> & Hj & Hne & Ho)]. split; [assumption|].
    exists (S j), c. split; [lia|]. split; [assumption|]. split; [assumption|].
    intros [|j'] c' Hc' Hd; simpl in Hc'; [congruence|]. apply (Ho j'); auto.
  - destruct (single_child_from (i + 1) cs) as [[p|]|].
    + destruct IH as [Hc _]. lia.
    + lia.
    + split; [lia|]. exists O, c. split; [lia|]. split; [reflexivity|].
      split; [intros ->; discriminate|].
      intros [|j'] c' Hc' Hd; [congruence|]. simpl in Hc'.
      clear -IH Hc'. revert j' Hc'. induction cs as [|y cs IHc]; intros [|j'] H; simpl in H; try discriminate.
      * inversion H; subst. rewrite count_cons in IH. destruct c'; simpl in IH; try lia. reflexivity.
      * rewrite count_cons in IH. apply (IHc ltac:(lia) j' H).
Qed.

Lemma count_ge_2_ex cs : (2 <= count cs)%nat ->
  exists i j ci cj, i <> j /\ nth_error cs i = Some ci /\ ci <> NEmpty /\
                    nth_error cs j = Some cj /\ cj <> NEmpty.
Proof.
  induction cs as [|c cs IH]; intros H; [unfold count in H; simpl in H; lia|].
  rewrite count_cons in H. destruct (is_empty c) eqn:Ec.
  - destruct (IH ltac:(lia)) as (i & j & ci & cj & Hd & Hi & Hci & Hj & Hcj).
    exists (S i), (S j), ci, cj. repeat split; auto.
  - assert (Hex : exists j cj, nth_error cs j = Some cj /\ cj <> NEmpty).
    { assert (H1 : (1 <= count cs)%nat) by lia. clear -H1.
      induction cs as [|y cs IHc]; [unfold count in H1; simpl in H1; lia|].
      rewrite count_cons in H1. destruct (is_empty y) eqn:Ey.
      - destruct (IHc ltac:(lia)) as (j & cj & ? & ?). exists (S j), cj. auto.
      - exists O, y. split; [reflexivity|]. intros ->; discriminate. }
    destruct Hex as (j & cj & Hj & Hcj).
    exists O, (S j), c, cj. repeat split; auto. intros ->; discriminate.
Qed.

Lemma count_empty17 : count empty17 = 0%nat.
Proof. reflexivity. Qed.
