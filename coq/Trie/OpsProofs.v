(* Trie/OpsProofs.v — proofs about Trie/Ops.v (get / insert / delete) on in-memory
   tries (no hash nodes), for an arbitrary [resolve] (it is never called).

   Specification vocabulary defined here (used by Trie/Canon.v and Properties/C06.v):
     valid_key k   hex key = nibbles (< 16) followed by exactly one terminator 16
     lk n k        the pure structural lookup (first component of [get])
     wfn n         well-formed in-memory node in an interior position (no hash
                   node, every full node has 17 children, values only at the end
                   of terminated paths)
     can n         canonical non-empty node (what insert/delete maintain)
     wfpos / canpos  the same, indexed by the key that remains to be consumed
                   ([] = we are standing on a value slot)

   Main results: get_lk, insert_spec, delete_spec (no EFuel / EPanic, lookup
   refinement, dirty flags, preservation of wfn and can). *)
From GV Require Import Lib.Tactics Trie.Hex Trie.HexProofs Trie.Node Trie.Ops.
Local Open Scope N_scope.

(* ------------------------------------------------------------------ lists *)

Lemma set_nth_some {A} i (v : A) l : (i < length l)%nat -> exists l', set_nth i v l = Some l'.
Proof.
  revert i; induction l as [|x l IH]; intros i Hi; simpl in Hi. { lia. }
  destruct i; simpl; [eauto|]. destruct (IH i) as [l' ->]; [lia|]. eauto.
Qed.

Lemma set_nth_spec {A} i (v : A) l l' : set_nth i v l = Some l' ->
  length l' = length l /\
  forall j, nth_error l' j = if Nat.eqb j i then Some v else nth_error l j.
Proof.
  revert i l'; induction l as [|x l IH]; intros i l' H. { destruct i; discriminate. }
  destruct i; simpl in H.
  - inversion H; subst. split; [reflexivity|]. intros [|j]; reflexivity.
  - destruct (set_nth i v l) as [r|] eqn:E; [|discriminate]. inversion H; subst.
    destruct (IH _ _ E) as [L Hn]. split; [simpl; lia|]. intros [|j]; simpl; [reflexivity|]. apply Hn.
Qed.

Lemma set_nth_same {A} i (v : A) l : nth_error l i = Some v -> set_nth i v l = Some l.
Proof.
  revert i; induction l as [|x l IH]; intros [|i] H; simpl in *; try discriminate.
  - inversion H; reflexivity.
  - rewrite (IH _ H). reflexivity.
Qed.

Lemma nth_error_ext {A} (l l' : list A) : (forall i, nth_error l i = nth_error l' i) -> l = l'.
Proof.
  revert l'; induction l as [|x l IH]; intros [|y l'] H; auto.
  - specialize (H O); discriminate.
  - specialize (H O); discriminate.
  - f_equal. { specialize (H O). simpl in H. congruence. }
    apply IH. intros i. apply (H (S i)).
Qed.

Lemma bytes_eqb_eq a b : bytes_eqb a b = true <-> a = b.
Proof.
  revert b; induction a as [|x a IH]; intros [|y b]; simpl; split; intros H; try congruence.
  - apply andb_true_iff in H as [H1 H2]. apply N.eqb_eq in H1. apply IH in H2. congruence.
  - inversion H; subst. rewrite N.eqb_refl. simpl. apply IH. reflexivity.
Qed.

Lemma bytes_eqb_refl a : bytes_eqb a a = true.
Proof. apply bytes_eqb_eq. reflexivity. Qed.

(* the common prefix computed by prefixLen, as a decomposition *)
Lemma prefix_len_split a b : exists p a' b',
  a = p ++ a' /\ b = p ++ b' /\ prefix_len a b = length p /\
  match a', b' with x :: _, y :: _ => x <> y | _, _ => True end.
Proof.
  revert b; induction a as [|x a IH]; intros b.
  - exists [], [], b. simpl. auto.
  - destruct b as [|y b].
    + exists [], (x :: a), []. simpl. auto.
    + simpl. destruct (N.eqb_spec x y) as [->|Ne].
      * destruct (IH b) as (p & a' & b' & -> & -> & E & D).
        exists (y :: p), a', b'. simpl. rewrite E. auto.
      * exists [], (x :: a), (y :: b). simpl. auto.
Qed.

Lemma firstn_app_exact {A} (p l : list A) : firstn (length p) (p ++ l) = p.
Proof. induction p; simpl; [destruct l; reflexivity|]. f_equal. assumption. Qed.

Lemma skipn_app_exact {A} (p l : list A) : skipn (length p) (p ++ l) = l.
Proof. induction p; simpl; auto. Qed.

Lemma nth_error_app_exact {A} (p l : list A) : nth_error (p ++ l) (length p) = hd_error l.
Proof. induction p; simpl; auto. Qed.

Lemma firstn_app_succ {A} (p : list A) x l : firstn (length p + 1) (p ++ x :: l) = p ++ [x].
Proof. induction p; simpl; [reflexivity|]. f_equal. assumption. Qed.

Lemma skipn_app_succ {A} (p : list A) x l : skipn (length p + 1) (p ++ x :: l) = l.
Proof. induction p; simpl; auto. Qed.

(* ------------------------------------------------------------------ strip *)

(* remove the prefix [p] from [l] *)
Fixpoint strip (p l : list N) : option (list N) :=
  match p, l with
  | [], _ => Some l
  | x :: p', y :: l' => if N.eqb x y then strip p' l' else None
  | _ :: _, [] => None
  end.

Lemma strip_some p l r : strip p l = Some r <-> l = p ++ r.
Proof.
  revert l; induction p as [|x p IH]; intros l; simpl.
  - split; congruence.
  - destruct l as [|y l]; [split; discriminate|].
    destruct (N.eqb_spec x y) as [->|Ne].
    + rewrite IH. split; congruence.
    + split; [discriminate|]. intros H; inversion H; congruence.
Qed.

Lemma strip_app_same p l : strip p (p ++ l) = Some l.
Proof. apply strip_some. reflexivity. Qed.

Lemma strip_self p : strip p p = Some [].
Proof. apply strip_some. rewrite app_nil_r. reflexivity. Qed.

Lemma strip_app p q l :
  strip (p ++ q) l = match strip p l with Some r => strip q r | None => None end.
Proof.
  revert l; induction p as [|x p IH]; intros l; simpl; [reflexivity|].
  destruct l as [|y l]; [reflexivity|]. destruct (N.eqb x y); [apply IH|reflexivity].
Qed.

Lemma strip_cons_neq a b l r : a <> b -> strip (a :: l) (b :: r) = None.
Proof. intros H. simpl. destruct (N.eqb_spec a b); congruence. Qed.

Lemma is_prefix_strip p l :
  match strip p l with
  | Some r => is_prefix_of p l = true /\ skipn (length p) l = r
  | None => is_prefix_of p l = false
  end.
Proof.
  unfold is_prefix_of. revert l; induction p as [|x p IH]; intros l; simpl.
  - auto.
  - destruct l as [|y l]; simpl; [reflexivity|].
    destruct (N.eqb x y); simpl; [|reflexivity]. apply IH.
Qed.

(* ------------------------------------------------------------------ keys *)

Definition nibbles (p : list N) : Prop := Forall (fun x => x < 16) p.

Fixpoint valid_key (k : list N) : Prop :=
  match k with
  | [] => False
  | x :: r => match r with [] => x = 16 | _ :: _ => x < 16 /\ valid_key r end
  end.

Lemma valid_key_cons x r :
  valid_key (x :: r) <-> (x = 16 /\ r = []) \/ (x < 16 /\ valid_key r).
Proof.
  destruct r as [|y r]; simpl.
  - split; [auto|]. intros [[? _]|[_ []]]; assumption.
  - split; [auto|]. intros [[_ ?]|?]; [discriminate|assumption].
Qed.

Lemma valid_key_app p : nibbles p -> valid_key (p ++ [16]).
Proof.
  induction 1 as [|x p Hx Hp IH]; simpl; [reflexivity|].
  destruct (p ++ [16]) eqn:E; [destruct p; discriminate|]. auto.
Qed.

Lemma valid_key_nib_app p k : nibbles p -> valid_key k -> valid_key (p ++ k).
Proof.
  induction 1 as [|x p Hx Hp IH]; intros Hk; simpl; [assumption|].
  specialize (IH Hk). destruct (p ++ k) eqn:E; [destruct IH|]. auto.
Qed.

(* a valid key is not a proper prefix of a valid key, and has no nibble-only form *)
Lemma valid_key_app_inv p k : valid_key (p ++ k) -> k <> [] -> nibbles p /\ valid_key k.
Proof.
  induction p as [|x p IH]; intros H Hk; simpl in *.
  - split; [constructor|assumption].
  - apply valid_key_cons in H as [[-> E]|[Hx H]].
    + destruct p; destruct k; try discriminate; congruence.
    + destruct (IH H Hk) as [? ?]. split; [constructor|]; assumption.
Qed.

Lemma valid_key_prefix_end p k : valid_key p -> valid_key (p ++ k) -> k = [].
Proof.
  induction p as [|x p IH]; intros Hp H; [destruct Hp|].
  simpl in H. apply valid_key_cons in Hp as [[-> ->]|[Hx Hp]].
  - simpl in H. apply valid_key_cons in H as [[_ ?]|[? _]]; [assumption|lia].
  - apply valid_key_cons in H as [[-> E]|[_ H]]; [lia|]. auto.
Qed.

Lemma valid_key_not_nibbles p : valid_key p -> nibbles p -> False.
Proof.
  induction p as [|x p IH]; intros Hp Hn; [destruct Hp|].
  inversion Hn; subst. apply valid_key_cons in Hp as [[-> _]|[_ Hp]]; [lia|auto].
Qed.

Lemma valid_key_nonempty k : valid_key k -> k <> [].
Proof. destruct k; [intros []|discriminate]. Qed.

Lemma nibbles_app p q : nibbles (p ++ q) <-> nibbles p /\ nibbles q.
Proof. apply Forall_app. Qed.

Lemma nibbles_of_nibbles bs : forallb byteb bs = true -> nibbles (nibbles_of bs).
Proof.
  intros H. apply nibbles_of_nib in H. unfold nibbles. apply Forall_forall.
  intros x Hx. rewrite forallb_forall in H. specialize (H x Hx). unfold nibbleb in H. lia.
Qed.

(* keybytesToHex of a byte key is a valid hex key *)
Lemma keybytes_to_hex_valid k : forallb byteb k = true -> valid_key (keybytes_to_hex k).
Proof. intros H. apply valid_key_app. apply nibbles_of_nibbles. exact H. Qed.

(* ------------------------------------------------------------------ lookup *)

(* the structural lookup: the value stored under hex key [k] *)
Fixpoint lk (n : node) (k : list N) {struct n} : option (list N) :=
  match n with
  | NEmpty | NHash _ => None
  | NValue v => match k with [] => Some v | _ :: _ => None end
  | NShort nk c => match strip nk k with Some r => lk c r | None => None end
  | NFull cs =>
      match k with
      | [] => None
      | k0 :: kr =>
          (fix go (l : list node) (i : nat) {struct l} : option (list N) :=
             match l with
             | [] => None
             | c :: l' => match i with O => lk c kr | S i' => go l' i' end
             end) cs (N.to_nat k0)
      end
  end.

Lemma lk_full cs k0 kr :
  lk (NFull cs) (k0 :: kr) =
  match nth_error cs (N.to_nat k0) with Some c => lk c kr | None => None end.
Proof.
  simpl. generalize (N.to_nat k0). induction cs as [|c cs IH]; intros [|i]; simpl; auto.
Qed.

Lemma lk_full_nil cs : lk (NFull cs) [] = None.
Proof. reflexivity. Qed.

Lemma lk_short nk c k :
  lk (NShort nk c) k = match strip nk k with Some r => lk c r | None => None end.
Proof. reflexivity. Qed.

Lemma lk_value v k : lk (NValue v) k = match k with [] => Some v | _ :: _ => None end.
Proof. reflexivity. Qed.

Lemma lk_empty k : lk NEmpty k = None.
Proof. reflexivity. Qed.

Lemma lk_leaf nk v k : lk (NShort nk (NValue v)) k = if bytes_eqb k nk then Some v else None.
Proof.
  rewrite lk_short. destruct (strip nk k) as [r|] eqn:E.
  - apply strip_some in E. subst k. destruct r as [|x r]; simpl.
    + rewrite app_nil_r, bytes_eqb_refl. reflexivity.
    + destruct (bytes_eqb (nk ++ x :: r) nk) eqn:B; [|reflexivity].
      apply bytes_eqb_eq in B. apply (f_equal (@length N)) in B. rewrite app_length in B. simpl in B. lia.
  - destruct (bytes_eqb k nk) eqn:B; [|reflexivity]. apply bytes_eqb_eq in B. subst.
    rewrite strip_self in E. discriminate.
Qed.

Global Opaque lk.

(* ------------------------------------------------------------------ shapes *)

Definition vslot (n : node) : Prop := n = NEmpty \/ exists v, n = NValue v.
Lemma vslot_value v : vslot (NValue v).
Proof. right. eexists. reflexivity. Qed.
Lemma vslot_empty : vslot NEmpty.
Proof. left. reflexivity. Qed.

Inductive wfn : node -> Prop :=
| wfn_empty : wfn NEmpty
| wfn_leaf k v : valid_key k -> wfn (NShort k (NValue v))
| wfn_ext k c : nibbles k -> k <> [] -> wfn c -> wfn (NShort k c)
| wfn_full cs :
    length cs = 17%nat ->
    (forall i c, nth_error cs i = Some c -> (i < 16)%nat -> wfn c) ->
    (forall c, nth_error cs 16 = Some c -> vslot c) ->
    wfn (NFull cs).

Definition count (cs : list node) : nat := length (filter (fun c => negb (is_empty c)) cs).

Inductive can : node -> Prop :=
| can_leaf k v : valid_key k -> can (NShort k (NValue v))
| can_ext k cs : nibbles k -> k <> [] -> can (NFull cs) -> can (NShort k (NFull cs))
| can_full cs :
    length cs = 17%nat ->
    (forall i c, nth_error cs i = Some c -> (i < 16)%nat -> c = NEmpty \/ can c) ->
    (forall c, nth_error cs 16 = Some c -> vslot c) ->
    (2 <= count cs)%nat ->
    can (NFull cs).

(* [n] sits where [key] remains to be consumed *)
Definition wfpos (n : node) (key : list N) : Prop :=
  (key = [] /\ vslot n) \/ (valid_key key /\ wfn n).
Definition canpos (n : node) (key : list N) : Prop :=
  (key = [] /\ vslot n) \/ (valid_key key /\ (n = NEmpty \/ can n)).

Lemma can_wfn n : can n -> wfn n.
Proof.
  induction n as [| |k c IH|cs IH|] using node_ind'; intros H; inversion H; subst.
  - apply wfn_leaf. assumption.
  - apply wfn_ext; auto.
  - apply wfn_full; auto. intros i c Hc Hi.
    rewrite Forall_forall in IH. specialize (IH c (nth_error_In _ _ Hc)).
    destruct (H2 i c Hc Hi) as [->|Hcan]; [constructor|auto].
Qed.

Lemma canpos_wfpos n k : canpos n k -> wfpos n k.
Proof.
  intros [H|[Hk [->|H]]]; [left; exact H|right|right]; split; auto using wfn_empty, can_wfn.
Qed.

Lemma wfn_not_value v : wfn (NValue v) -> False.
Proof. inversion 1. Qed.

(* the child of a short node, and the position it sits in *)
Lemma wfn_short_child nk c r :
  wfn (NShort nk c) -> valid_key (nk ++ r) -> wfpos c r /\ nk <> [] /\ (r <> [] -> nibbles nk).
Proof.
  intros Hw Hk. inversion Hw; subst.
  - pose proof (valid_key_prefix_end _ _ H0 Hk) as ->.
    split; [left; split; [reflexivity|apply vslot_value]|]. split; [apply valid_key_nonempty; assumption|congruence].
  - assert (r <> []).
    { intros ->. rewrite app_nil_r in Hk. exact (valid_key_not_nibbles _ Hk H1). }
    destruct (valid_key_app_inv _ _ Hk H) as [_ Hr]. split; [right; auto|auto].
Qed.

Lemma wfn_short_rebuild nk c c' r :
  wfn (NShort nk c) -> valid_key (nk ++ r) -> wfpos c' r -> c' <> NEmpty -> wfn (NShort nk c').
Proof.
  intros Hw Hk Hp Hne. destruct Hp as [[-> [->|[v ->]]]|[Hr Hc']]; [congruence| |].
  - rewrite app_nil_r in Hk. apply wfn_leaf. assumption.
  - destruct (wfn_short_child _ _ _ Hw Hk) as (_ & Hne' & Hn).
    apply wfn_ext; auto. apply Hn. apply valid_key_nonempty. assumption.
Qed.

(* dropping a nibble prefix from the key of a short node *)
Lemma wfn_short_drop p rest c :
  wfn (NShort (p ++ rest) c) -> rest <> [] -> nibbles p /\ wfn (NShort rest c).
Proof.
  intros Hw Hr. inversion Hw; subst.
  - destruct (valid_key_app_inv _ _ H0 Hr). split; [assumption|]. apply wfn_leaf. assumption.
  - apply nibbles_app in H1 as [? ?]. split; [assumption|]. apply wfn_ext; assumption.
Qed.

Lemma wfn_short_prepend p k c : nibbles p -> wfn (NShort k c) -> wfn (NShort (p ++ k) c).
Proof.
  intros Hp Hw. inversion Hw; subst.
  - apply wfn_leaf. apply valid_key_nib_app; assumption.
  - apply wfn_ext; auto. { apply nibbles_app; auto. } destruct p; [assumption|discriminate].
Qed.

Lemma can_short_prepend p k c : nibbles p -> can (NShort k c) -> can (NShort (p ++ k) c).
Proof.
  intros Hp Hw. inversion Hw; subst.
  - apply can_leaf. apply valid_key_nib_app; assumption.
  - apply can_ext; auto. { apply nibbles_app; auto. } destruct p; [assumption|discriminate].
Qed.

Lemma can_short_drop p rest c :
  can (NShort (p ++ rest) c) -> rest <> [] -> nibbles p /\ can (NShort rest c).
Proof.
  intros Hw Hr. inversion Hw; subst.
  - destruct (valid_key_app_inv _ _ H0 Hr). split; [assumption|]. apply can_leaf. assumption.
  - apply nibbles_app in H1 as [? ?]. split; [assumption|]. apply can_ext; assumption.
Qed.

(* children of a full node *)
Lemma wfn_full_child cs k0 kr :
  wfn (NFull cs) -> valid_key (k0 :: kr) ->
  exists c, nth_error cs (N.to_nat k0) = Some c /\ wfpos c kr.
Proof.
  intros Hw Hk. inversion Hw; subst.
  destruct (nth_error cs (N.to_nat k0)) as [c|] eqn:E.
  2:{ apply nth_error_None in E. apply valid_key_cons in Hk as [[-> _]|[? _]]; lia. }
  exists c. split; [reflexivity|].
  apply valid_key_cons in Hk as [[-> ->]|[Hx Hk]].
  - left. split; [reflexivity|]. apply H2. exact E.
  - right. split; [assumption|]. apply (H1 _ _ E). lia.
Qed.

Lemma can_full_child cs k0 kr c :
  can (NFull cs) -> valid_key (k0 :: kr) -> nth_error cs (N.to_nat k0) = Some c -> canpos c kr.
Proof.
  intros Hw Hk E. inversion Hw; subst.
  apply valid_key_cons in Hk as [[-> ->]|[Hx Hk]].
  - left. split; [reflexivity|]. apply H2. exact E.
  - right. split; [assumption|]. apply (H1 _ _ E). lia.
Qed.

Lemma wfn_full_set cs k0 kr c' cs' :
  wfn (NFull cs) -> valid_key (k0 :: kr) -> wfpos c' kr ->
  set_nth (N.to_nat k0) c' cs = Some cs' -> wfn (NFull cs').
Proof.
  intros Hw Hk Hp Hs. inversion Hw; subst. destruct (set_nth_spec _ _ _ _ Hs) as [L Hn].
  apply valid_key_cons in Hk as [[-> ->]|[Hx Hk]].
  - apply wfn_full; [lia| |].
    + intros i c Hc Hi. rewrite Hn in Hc. destruct (Nat.eqb_spec i (N.to_nat 16)); [lia|]. eauto.
    + intros c Hc. rewrite Hn in Hc. change (N.to_nat 16) with 16%nat in Hc. simpl in Hc.
      inversion Hc; subst. destruct Hp as [[_ ?]|[[] _]]. assumption.
  - apply wfn_full; [lia| |].
    + intros i c Hc Hi. rewrite Hn in Hc. destruct (Nat.eqb_spec i (N.to_nat k0)); [|eauto].
      inversion Hc; subst. destruct Hp as [[-> _]|[_ ?]]; [destruct Hk|assumption].
    + intros c Hc. rewrite Hn in Hc. destruct (Nat.eqb_spec 16 (N.to_nat k0)); [lia|]. auto.
Qed.

Lemma lk_full_set cs k0 c' cs' x r :
  set_nth (N.to_nat k0) c' cs = Some cs' ->
  lk (NFull cs') (x :: r) = if N.eqb x k0 then lk c' r else lk (NFull cs) (x :: r).
Proof.
  intros Hs. destruct (set_nth_spec _ _ _ _ Hs) as [_ Hn]. rewrite !lk_full, Hn.
  destruct (N.eqb_spec x k0) as [->|Ne].
  - rewrite Nat.eqb_refl. reflexivity.
  - destruct (Nat.eqb_spec (N.to_nat x) (N.to_nat k0)); [lia|reflexivity].
Qed.

(* ------------------------------------------------------------------ count *)

Lemma count_cons c cs : count (c :: cs) = ((if is_empty c then 0 else 1) + count cs)%nat.
Proof. unfold count. simpl. destruct (is_empty c); reflexivity. Qed.

Lemma count_set_nth i c' cs cs' c :
  set_nth i c' cs = Some cs' -> nth_error cs i = Some c ->
  (count cs' + (if is_empty c then 0 else 1) = count cs + (if is_empty c' then 0 else 1))%nat.
Proof.
  revert i cs'; induction cs as [|x cs IH]; intros [|i] cs' Hs Hc; simpl in *; try discriminate.
  - inversion Hs; inversion Hc; subst. rewrite !count_cons. lia.
  - destruct (set_nth i c' cs) as [r|] eqn:E; [|discriminate]. inversion Hs; subst.
    rewrite !count_cons. specialize (IH _ _ E Hc). lia.
Qed.

(* what the scan in delete finds *)
Lemma single_child_from_spec cs : forall i,
  match single_child_from i cs with
  | None => count cs = 0%nat
  | Some None => (2 <= count cs)%nat
  | Some (Some p) =>
      count cs = 1%nat /\
      exists j c, p = i + N.of_nat j /\ nth_error cs j = Some c /\ c <> NEmpty /\
                  forall j' c', nth_error cs j' = Some c' -> j' <> j -> c' = NEmpty
  end.
Proof.
  induction cs as [|c cs IH]; intros i; simpl; [reflexivity|].
  rewrite count_cons. specialize (IH (i + 1)).
  destruct (is_empty c) eqn:Ec.
  - destruct c; try discriminate.
    destruct (single_child_from (i + 1) cs) as [[p|]|]; auto.
    destruct IH as [Hc (j & c & -> & Hj & Hne & Ho)]. split; [assumption|].
    exists (S j), c. split; [lia|]. split; [assumption|]. split; [assumption|].
    intros [|j'] c' Hc' Hd; simpl in Hc'; [congruence|]. apply (Ho j'); auto.
  - destruct (single_child_from (i + 1) cs) as [[p|]|].
    + destruct IH as [Hc _]. lia.
    + lia.
    + split; [lia|]. exists O, c. split; [lia|]. split; [reflexivity|].
      split; [intros ->; discriminate|].
      intros [|j'] c' Hc' Hd; [congruence|]. simpl in Hc'.
      clear -IH Hc'. revert j' Hc'. induction cs as [|y cs IHc]; intros [|j'] H; simpl in H; try discriminate.
      * inversion H; subst. rewrite count_cons in IH. destruct c'; simpl in IH; try lia. reflexivity.
      * rewrite count_cons in IH. apply (IHc ltac:(lia) j' H).
Qed.

Lemma count_ge_2_ex cs : (2 <= count cs)%nat ->
  exists i j ci cj, i <> j /\ nth_error cs i = Some ci /\ ci <> NEmpty /\
                    nth_error cs j = Some cj /\ cj <> NEmpty.
Proof.
  induction cs as [|c cs IH]; intros H; [unfold count in H; simpl in H; lia|].
  rewrite count_cons in H. destruct (is_empty c) eqn:Ec.
  - destruct (IH ltac:(lia)) as (i & j & ci & cj & Hd & Hi & Hci & Hj & Hcj).
    exists (S i), (S j), ci, cj. repeat split; auto.
  - assert (Hex : exists j cj, nth_error cs j = Some cj /\ cj <> NEmpty).
    { assert (H1 : (1 <= count cs)%nat) by lia. clear -H1.
      induction cs as [|y cs IHc]; [unfold count in H1; simpl in H1; lia|].
      rewrite count_cons in H1. destruct (is_empty y) eqn:Ey.
      - destruct (IHc ltac:(lia)) as (j & cj & ? & ?). exists (S j), cj. auto.
      - exists O, y. split; [reflexivity|]. intros ->; discriminate. }
    destruct Hex as (j & cj & Hj & Hcj).
    exists O, (S j), c, cj. repeat split; auto. intros ->; discriminate.
Qed.

Lemma count_empty17 : count empty17 = 0%nat.
Proof. reflexivity. Qed.

(* ------------------------------------------------------------------ helpers for the branch built by insert *)

(* node component of insert(nil, prefix, key, value) *)
Definition inil (k : list N) (c : node) : node :=
  match k with [] => c | _ :: _ => NShort k c end.

Lemma insert_nil_fst pre k c : fst (insert_nil pre k c) = inil k c.
Proof. destruct k; reflexivity. Qed.

Definition wrap (p : list N) (n : node) : node :=
  match p with [] => n | _ :: _ => NShort p n end.

Lemma lk_wrap p n k : lk (wrap p n) k = match strip p k with Some r => lk n r | None => None end.
Proof. destruct p; [reflexivity|apply lk_short]. Qed.

Lemma lk_inil k c r : lk (inil k c) r = lk (NShort k c) r.
Proof. destruct k; [rewrite lk_short; reflexivity|reflexivity]. Qed.

Lemma nth_error_empty17 i c : nth_error empty17 i = Some c -> c = NEmpty.
Proof. intros H. apply nth_error_In in H. apply repeat_spec in H. exact H. Qed.

Lemma lk_empty17 k : lk (NFull empty17) k = None.
Proof.
  destruct k as [|x r]; [reflexivity|]. rewrite lk_full.
  destruct (nth_error empty17 (N.to_nat x)) as [c|] eqn:E; [|reflexivity].
  apply nth_error_empty17 in E. subst. apply lk_empty.
Qed.

Lemma wfn_empty17 : wfn (NFull empty17).
Proof.
  apply wfn_full; [reflexivity| |].
  - intros i c H _. apply nth_error_empty17 in H. subst. constructor.
  - intros c H. apply nth_error_empty17 in H. left. exact H.
Qed.

Lemma short_as_slot a n2 nv :
  wfn (NShort (a :: n2) nv) -> exists kr, valid_key (a :: kr) /\ wfpos (inil n2 nv) kr.
Proof.
  intros Hw. inversion Hw; subst.
  - exists n2. split; [assumption|]. apply valid_key_cons in H0 as [[-> ->]|[Ha Hn]].
    + left. split; [reflexivity|apply vslot_value].
    + right. split; [assumption|]. destruct n2; [destruct Hn|]. apply wfn_leaf. assumption.
  - inversion H1; subst. exists (n2 ++ [16]). split.
    + apply valid_key_cons. right. split; [assumption|apply valid_key_app; assumption].
    + right. split; [apply valid_key_app; assumption|].
      destruct n2; [assumption|]. apply wfn_ext; [assumption|discriminate|assumption].
Qed.

Lemma can_short_as_slot a n2 nv :
  can (NShort (a :: n2) nv) ->
  inil n2 nv <> NEmpty /\
  ((a = 16 /\ vslot (inil n2 nv)) \/ (a < 16 /\ can (inil n2 nv))).
Proof.
  intros Hw. inversion Hw; subst.
  - apply valid_key_cons in H0 as [[-> ->]|[Ha Hn]].
    + split; [discriminate|]. left. split; [reflexivity|apply vslot_value].
    + destruct n2; [destruct Hn|]. split; [discriminate|]. right. split; [assumption|]. apply can_leaf. assumption.
  - inversion H1; subst. destruct n2; (split; [discriminate|]); right; (split; [assumption|]); [assumption|].
    apply can_ext; [assumption|discriminate|assumption].
Qed.

Definition ins_post (n : node) (key v : list N) (d : bool) (n' : node) : Prop :=
  wfpos n' key /\ n' <> NEmpty /\ lk n' key = Some v /\
  (forall k', k' <> key -> lk n' k' = lk n k') /\
  (d = false <-> lk n key = Some v) /\ (d = false -> n' = n) /\
  (canpos n key -> canpos n' key) /\
  (forall cs, n = NFull cs -> exists cs', n' = NFull cs').

Lemma ins_post_unchanged n key v :
  wfpos n key -> lk n key = Some v -> ins_post n key v false n.
Proof.
  intros Hp Hl. repeat split; auto.
  - intros ->. rewrite lk_empty in Hl. discriminate.
  - eauto.
Qed.

Lemma to_nat_lt17 x : x <= 16 -> (N.to_nat x < length empty17)%nat.
Proof. intros H. change (length empty17) with 17%nat. lia. Qed.

Lemma valid_key_hd_le x r : valid_key (x :: r) -> x <= 16.
Proof. intros H. apply valid_key_cons in H as [[-> _]|[? _]]; lia. Qed.

Lemma branch_post p a n2 nv b k2 v :
  wfn (NShort (p ++ a :: n2) nv) -> valid_key (p ++ b :: k2) -> a <> b ->
  exists cs1 cs2,
    set_child empty17 a (inil n2 nv) = Some cs1 /\
    set_child cs1 b (inil k2 (NValue v)) = Some cs2 /\
    ins_post (NShort (p ++ a :: n2) nv) (p ++ b :: k2) v true (wrap p (NFull cs2)).
Proof.
  intros Hw Hk Hab. unfold set_child.
  destruct (wfn_short_drop p (a :: n2) nv Hw ltac:(discriminate)) as [Hp Hw1].
  destruct (valid_key_app_inv p (b :: k2) Hk ltac:(discriminate)) as [_ Hk1].
  destruct (short_as_slot _ _ _ Hw1) as (kra & Hka & Hsa).
  destruct (set_nth_some (N.to_nat a) (inil n2 nv) empty17) as [cs1 Hs1].
  { apply to_nat_lt17. apply (valid_key_hd_le _ _ Hka). }
  destruct (set_nth_spec _ _ _ _ Hs1) as [L1 Hn1].
  destruct (set_nth_some (N.to_nat b) (inil k2 (NValue v)) cs1) as [cs2 Hs2].
  { rewrite L1. apply to_nat_lt17. apply (valid_key_hd_le _ _ Hk1). }
  destruct (set_nth_spec _ _ _ _ Hs2) as [L2 Hn2].
  exists cs1, cs2. split; [assumption|]. split; [assumption|].
  assert (Hwc2 : wfpos (inil k2 (NValue v)) k2).
  { apply valid_key_cons in Hk1 as [[_ ->]|[_ Hk2]].
    - left. split; [reflexivity|apply vslot_value].
    - right. split; [assumption|]. destruct k2; [destruct Hk2|]. apply wfn_leaf. assumption. }
  assert (Hw1' : wfn (NFull cs1)) by (eapply wfn_full_set; [apply wfn_empty17|exact Hka|exact Hsa|exact Hs1]).
  assert (Hw2 : wfn (NFull cs2)) by (eapply wfn_full_set; [exact Hw1'|exact Hk1|exact Hwc2|exact Hs2]).
  assert (Hlk : forall x r, lk (NFull cs2) (x :: r) =
            if N.eqb x b then lk (NShort k2 (NValue v)) r
            else if N.eqb x a then lk (NShort n2 nv) r else None).
  { intros x r. rewrite (lk_full_set _ _ _ _ x r Hs2), (lk_full_set _ _ _ _ x r Hs1), !lk_inil, lk_empty17.
    reflexivity. }
  assert (Hold : forall k, lk (NShort (p ++ a :: n2) nv) k =
            match strip p k with
            | Some (x :: r) => if N.eqb x a then lk (NShort n2 nv) r else None
            | _ => None
            end).
  { intros k. rewrite !lk_short, strip_app. destruct (strip p k) as [[|x r]|]; try reflexivity.
    simpl. rewrite (N.eqb_sym a x). destruct (N.eqb x a); reflexivity. }
  assert (Hnew : forall k, lk (wrap p (NFull cs2)) k =
            match strip p k with
            | Some (x :: r) => lk (NFull cs2) (x :: r)
            | _ => None
            end).
  { intros k. rewrite lk_wrap. destruct (strip p k) as [[|x r]|]; reflexivity. }
  assert (Hba : N.eqb b a = false) by (apply N.eqb_neq; congruence).
  unfold ins_post. repeat split.
  - right. split; [assumption|]. destruct p; [exact Hw2|]. simpl.
    apply wfn_ext; [assumption|discriminate|assumption].
  - destruct p; discriminate.
  - rewrite Hnew, strip_app_same, Hlk, N.eqb_refl, lk_leaf, bytes_eqb_refl. reflexivity.
  - intros k' Hne. rewrite Hnew, Hold. destruct (strip p k') as [[|x r]|] eqn:E; try reflexivity.
    rewrite Hlk. destruct (N.eqb_spec x b) as [->|Nb]; [|reflexivity].
    rewrite Hba, lk_leaf. destruct (bytes_eqb r k2) eqn:B; [|reflexivity].
    apply bytes_eqb_eq in B. apply strip_some in E. congruence.
  - discriminate.
  - rewrite Hold, strip_app_same, Hba. discriminate.
  - discriminate.
  - intros [[E _]|[_ [E|Hcan]]]; [destruct p; discriminate|discriminate|].
    right. split; [assumption|]. right.
    destruct (can_short_drop p (a :: n2) nv Hcan ltac:(discriminate)) as [_ Hcan1].
    destruct (can_short_as_slot _ _ _ Hcan1) as [Hne1 Hslot1].
    assert (Hcf : can (NFull cs2)).
    { inversion Hw2; subst. apply can_full; [assumption| |assumption|].
      - intros i c Hc Hi. rewrite Hn2 in Hc. destruct (Nat.eqb_spec i (N.to_nat b)) as [->|Nb].
        + inversion Hc; subst. apply valid_key_cons in Hk1 as [[-> _]|[_ Hk2]]; [lia|].
          destruct k2; [destruct Hk2|]. right. apply can_leaf. assumption.
        + rewrite Hn1 in Hc. destruct (Nat.eqb_spec i (N.to_nat a)) as [->|Na].
          * inversion Hc; subst. destruct Hslot1 as [[-> _]|[_ ?]]; [lia|auto].
          * left. eapply nth_error_empty17; eassumption.
      - assert (Ea : nth_error empty17 (N.to_nat a) = Some NEmpty).
        { destruct (nth_error empty17 (N.to_nat a)) eqn:E.
          - f_equal. eapply nth_error_empty17; eassumption.
          - apply nth_error_None in E. pose proof (to_nat_lt17 a (valid_key_hd_le _ _ Hka)). lia. }
        assert (Eb : nth_error cs1 (N.to_nat b) = Some NEmpty).
        { rewrite Hn1. destruct (Nat.eqb_spec (N.to_nat b) (N.to_nat a)); [lia|].
          destruct (nth_error empty17 (N.to_nat b)) eqn:E.
          - f_equal. eapply nth_error_empty17; eassumption.
          - apply nth_error_None in E. pose proof (to_nat_lt17 b (valid_key_hd_le _ _ Hk1)). lia. }
        pose proof (count_set_nth _ _ _ _ _ Hs1 Ea) as C1.
        pose proof (count_set_nth _ _ _ _ _ Hs2 Eb) as C2.
        rewrite count_empty17 in C1. simpl in C1, C2.
        assert (Ie1 : is_empty (inil n2 nv) = false) by (destruct (inil n2 nv); simpl; congruence).
        assert (Ie2 : is_empty (inil k2 (NValue v)) = false) by (destruct k2; reflexivity).
        rewrite Ie1 in C1. rewrite Ie2 in C2. lia. }
    destruct p; [exact Hcf|]. simpl. inversion Hcf; subst.
    apply can_ext; [assumption|discriminate|assumption].
  - intros cs E. discriminate.
Qed.

(* ------------------------------------------------------------------ get / insert *)

Section OpsProofs.
  Variable resolve : list N -> list N -> option (node * list N).

  (* (a)+(b) for get: no error, nothing changes, the value is [lk] *)
  Lemma get_lk : forall fuel n path key,
    (length key < fuel)%nat -> wfpos n key ->
    get resolve fuel n path key = TOk (lk n key, n, false, []).
  Proof.
    induction fuel as [|f IH]; intros n path key Hf Hp; [lia|].
    destruct Hp as [[-> [->|[v ->]]]|[Hk Hw]]; try reflexivity.
    destruct n as [|v|nk c|cs|h].
    - reflexivity.
    - inversion Hw.
    - cbn [get]. pose proof (is_prefix_strip nk key) as P. rewrite lk_short.
      destruct (strip nk key) as [r|] eqn:E.
      + destruct P as [P1 P2]. rewrite P1, P2. cbn [negb].
        apply strip_some in E. subst key.
        destruct (wfn_short_child _ _ _ Hw Hk) as (Hc & Hne & _).
        rewrite (IH c (path ++ nk) r); [reflexivity| |assumption].
        rewrite app_length in Hf. destruct nk; [congruence|]. simpl in Hf. lia.
      + rewrite P. reflexivity.
    - destruct key as [|k0 kr]; [destruct Hk|].
      destruct (wfn_full_child _ _ _ Hw Hk) as (c & Hc & Hpc).
      cbn [get]. unfold child. rewrite Hc.
      rewrite (IH c _ kr); [|simpl in Hf; lia|assumption].
      rewrite lk_full, Hc. reflexivity.
    - inversion Hw.
  Qed.

  Lemma insert_short_unfold f nk nv prefix key value : key <> [] ->
    insert resolve (S f) (NShort nk nv) prefix key value =
      let m := prefix_len key nk in
      if Nat.eqb m (length nk) then
        match insert resolve f nv (prefix ++ firstn m key) (skipn m key) value with
        | TOk (true, nn, ev) => TOk (true, NShort nk nn, ev)
        | TOk (false, _, ev) => TOk (false, NShort nk nv, ev)
        | TErr e => TErr e
        end
      else
        match nth_error nk m, nth_error key m with
        | Some a, Some b =>
            let '(c1, ev1) := insert_nil (prefix ++ firstn (m + 1) nk) (skipn (m + 1) nk) nv in
            let '(c2, ev2) := insert_nil (prefix ++ firstn (m + 1) key) (skipn (m + 1) key) value in
            match set_child empty17 a c1 with
            | None => TErr EPanic
            | Some cs1 =>
                match set_child cs1 b c2 with
                | None => TErr EPanic
                | Some cs2 =>
                    if Nat.eqb m 0 then TOk (true, NFull cs2, ev1 ++ ev2)
                    else TOk (true, NShort (firstn m key) (NFull cs2),
                              ev1 ++ ev2 ++ [TIns (prefix ++ firstn m key)])
                end
            end
        | _, _ => TErr EPanic
        end.
  Proof. intros H. destruct key; [congruence|reflexivity]. Qed.

  (* (a)+(b)+(c) for insert *)
  Lemma insert_spec : forall fuel n prefix key v,
    (length key < fuel)%nat -> wfpos n key ->
    exists d n' ev,
      insert resolve fuel n prefix key (NValue v) = TOk (d, n', ev) /\ ins_post n key v d n'.
  Proof.
    induction fuel as [|f IH]; intros n prefix key v Hf Hp; [lia|].
    destruct Hp as [[-> [->|[v0 ->]]]|[Hk Hw]].
    - (* empty value slot *)
      exists true, (NValue v), []. split; [reflexivity|]. unfold ins_post. repeat split; try discriminate.
      + left. split; [reflexivity|apply vslot_value].
      + intros k' Hne. rewrite lk_value, lk_empty. destruct k'; congruence.
      + intros _. left. split; [reflexivity|apply vslot_value].
    - (* occupied value slot *)
      exists (negb (bytes_eqb v0 v)), (NValue v), []. split; [reflexivity|].
      unfold ins_post. repeat split; try discriminate.
      + left. split; [reflexivity|apply vslot_value].
      + intros k' Hne. rewrite !lk_value. destruct k'; congruence.
      + intros H. apply negb_false_iff, bytes_eqb_eq in H. subst. reflexivity.
      + intros H. rewrite lk_value in H. inversion H; subst. rewrite bytes_eqb_refl. reflexivity.
      + intros H. apply negb_false_iff, bytes_eqb_eq in H. subst. reflexivity.
      + intros _. left. split; [reflexivity|apply vslot_value].
    - pose proof (valid_key_nonempty _ Hk) as Hne.
      destruct n as [|v0|nk nv|cs|h].
      + (* nil *)
        exists true, (NShort key (NValue v)), [TIns prefix].
        split; [destruct key; [congruence|reflexivity]|]. unfold ins_post. repeat split; try discriminate.
        * right. split; [assumption|apply wfn_leaf; assumption].
        * rewrite lk_leaf, bytes_eqb_refl. reflexivity.
        * intros k' Hn. rewrite lk_leaf, lk_empty. destruct (bytes_eqb k' key) eqn:B; [|reflexivity].
          apply bytes_eqb_eq in B. congruence.
        * intros _. right. split; [assumption|right; apply can_leaf; assumption].
      + inversion Hw.
      + (* short node *)
        rewrite insert_short_unfold by assumption. cbv zeta.
        destruct (prefix_len_split key nk) as (p & k' & n' & Hkey & Hnk & Hm & Hd).
        rewrite Hm. subst key nk. destruct n' as [|a n2].
        * (* whole node key matches *)
          rewrite app_nil_r in *. rewrite Nat.eqb_refl, firstn_app_exact, skipn_app_exact.
          destruct (wfn_short_child p nv k' Hw Hk) as (Hc & Hnp & Hnib).
          destruct (IH nv (prefix ++ p) k' v) as (d & nn & ev & E & P1 & P2 & P3 & P4 & P5 & P6 & P7 & P8);
            [rewrite app_length in Hf; destruct p; [congruence|simpl in Hf; lia]|exact Hc|].
          rewrite E. destruct d.
          -- exists true, (NShort p nn), ev. split; [reflexivity|]. unfold ins_post. repeat split; try discriminate.
             ++ right. split; [assumption|]. eapply wfn_short_rebuild; eassumption.
             ++ rewrite lk_short, strip_app_same. exact P3.
             ++ intros k0 Hn. rewrite !lk_short. destruct (strip p k0) as [r|] eqn:S; [|reflexivity].
                apply P4. intros ->. apply strip_some in S. congruence.
             ++ rewrite lk_short, strip_app_same. apply P5.
             ++ intros [[E0 _]|[_ [E0|Hcan]]]; [congruence|discriminate|].
                right. split; [assumption|]. right. inversion Hcan; subst.
                ** pose proof (valid_key_prefix_end _ _ H0 Hk) as ->.
                   destruct P1 as [[_ [->|[v1 ->]]]|[[] _]]; [congruence|].
                   apply can_leaf. assumption.
                ** assert (Hk' : valid_key k').
                   { destruct Hc as [[-> [?|[? ?]]]|[? _]]; [discriminate|discriminate|assumption]. }
                   destruct (P8 _ eq_refl) as [cs' ->].
                   destruct P7 as [[-> _]|[_ [?|?]]]; [right; auto|destruct Hk'|discriminate|].
                   apply can_ext; assumption.
          -- rewrite (P6 eq_refl) in *. exists false, (NShort p nv), ev. split; [reflexivity|].
             apply ins_post_unchanged; [right; auto|].
             rewrite lk_short, strip_app_same. exact P3.
        * (* branch out *)
          assert (Hk2 : exists b k2, k' = b :: k2 /\ a <> b).
          { destruct k' as [|b k2]; [|eauto]. exfalso. rewrite app_nil_r in Hk. inversion Hw; subst.
            - pose proof (valid_key_prefix_end _ _ Hk H0). discriminate.
            - apply nibbles_app in H1 as [H1 _]. exact (valid_key_not_nibbles _ Hk H1). }
          destruct Hk2 as (b & k2 & -> & Hab).
          rewrite app_length. simpl length.
          replace (Nat.eqb (length p) (length p + S (length n2))) with false
            by (symmetry; apply Nat.eqb_neq; lia).
          rewrite !nth_error_app_exact. simpl hd_error. cbv iota.
          rewrite !firstn_app_succ, !skipn_app_succ, firstn_app_exact.
          destruct (insert_nil (prefix ++ p ++ [a]) n2 nv) as [c1 ev1] eqn:E1.
          destruct (insert_nil (prefix ++ p ++ [b]) k2 (NValue v)) as [c2 ev2] eqn:E2.
          assert (c1 = inil n2 nv) by (rewrite <- (insert_nil_fst (prefix ++ p ++ [a])), E1; reflexivity).
          assert (c2 = inil k2 (NValue v)) by (rewrite <- (insert_nil_fst (prefix ++ p ++ [b])), E2; reflexivity).
          subst c1 c2.
          destruct (branch_post p a n2 nv b k2 v Hw Hk Hab) as (cs1 & cs2 & S1 & S2 & Post).
          rewrite S1, S2. destruct p as [|p0 p]; simpl Nat.eqb; cbv iota; eauto.
      + (* full node *)
        destruct key as [|k0 kr]; [congruence|].
        destruct (wfn_full_child _ _ _ Hw Hk) as (c & Hc & Hpc).
        cbn [insert]. unfold child. rewrite Hc.
        destruct (IH c (prefix ++ [k0]) kr v) as (d & nn & ev & E & P1 & P2 & P3 & P4 & P5 & P6 & P7 & P8);
          [simpl in Hf; lia|exact Hpc|].
        rewrite E. destruct d.
        * unfold set_child. destruct (set_nth_some (N.to_nat k0) nn cs) as [cs' Hs].
          { apply nth_error_Some. congruence. }
          rewrite Hs. exists true, (NFull cs'), ev. split; [reflexivity|].
          pose proof (wfn_full_set _ _ _ _ _ Hw Hk P1 Hs) as Hw'.
          unfold ins_post. repeat split; try discriminate.
          -- right. split; assumption.
          -- rewrite (lk_full_set _ _ _ _ k0 kr Hs), N.eqb_refl. exact P3.
          -- intros k1 Hn. destruct k1 as [|x r]; [reflexivity|].
             rewrite (lk_full_set _ _ _ _ x r Hs). destruct (N.eqb_spec x k0) as [->|Nx]; [|reflexivity].
             rewrite lk_full, Hc. apply P4. congruence.
          -- rewrite lk_full, Hc. apply P5.
          -- intros [[E0 _]|[_ [E0|Hcan]]]; [discriminate|discriminate|].
             right. split; [assumption|]. right.
             pose proof (can_full_child _ _ _ _ Hcan Hk Hc) as Hcc. specialize (P7 Hcc).
             destruct (set_nth_spec _ _ _ _ Hs) as [L Hn].
             inversion Hcan; subst. inversion Hw'; subst. apply can_full; [assumption| |assumption|].
             ++ intros i c0 Hc0 Hi. rewrite Hn in Hc0.
                destruct (Nat.eqb_spec i (N.to_nat k0)) as [->|Ni]; [|eauto].
                inversion Hc0; subst. destruct P7 as [[-> _]|[_ ?]]; [|assumption].
                apply valid_key_cons in Hk as [[-> _]|[_ []]]. lia.
             ++ pose proof (count_set_nth _ _ _ _ _ Hs Hc) as C.
                assert (Ie : is_empty nn = false) by (destruct nn; simpl; congruence).
                rewrite Ie in C. destruct (is_empty c); lia.
          -- eauto.
        * rewrite (P6 eq_refl) in *. exists false, (NFull cs), ev. split; [reflexivity|].
          apply ins_post_unchanged; [right; auto|]. rewrite lk_full, Hc. exact P3.
      + inversion Hw.
  Qed.

  (* ---------------------------------------------------------------- delete *)

  Definition del_post (n : node) (key : list N) (d : bool) (n' : node) : Prop :=
    wfpos n' key /\ lk n' key = None /\
    (forall k', k' <> key -> lk n' k' = lk n k') /\
    (d = false <-> lk n key = None) /\ (d = false -> n' = n) /\
    (canpos n key -> canpos n' key) /\
    (forall cs, n = NFull cs -> n' <> NEmpty).

  Lemma del_post_unchanged n key :
    wfpos n key -> lk n key = None -> del_post n key false n.
  Proof. intros Hp Hl. unfold del_post. repeat split; auto. intros cs ->. discriminate. Qed.

  Lemma lk_short_merge p ck cv k : lk (NShort (p ++ ck) cv) k = lk (NShort p (NShort ck cv)) k.
  Proof. rewrite !lk_short, strip_app. destruct (strip p k); [rewrite lk_short|]; reflexivity. Qed.

  (* the reduction of a full node with a single remaining child *)
  Lemma collapse_post cs' j crem prefix ev :
    wfn (NFull cs') -> nth_error cs' j = Some crem -> crem <> NEmpty ->
    (forall j' c', nth_error cs' j' = Some c' -> j' <> j -> c' = NEmpty) ->
    exists R ev',
      (match child cs' (N.of_nat j) with
       | None => TErr EPanic
       | Some rem =>
           if negb (N.eqb (N.of_nat j) 16) then
             let r := match rem with
                      | NHash h =>
                          match resolve h (prefix ++ [N.of_nat j]) with
                          | None => None
                          | Some (rn, blob) => Some (rn, [TRes (prefix ++ [N.of_nat j]) blob])
                          end
                      | _ => Some (rem, [])
                      end in
             match r with
             | None => TErr EMissing
             | Some (NShort ck cv, ev1) =>
                 TOk (true, NShort (N.of_nat j :: ck) cv,
                      ev ++ ev1 ++ [TDel (prefix ++ [N.of_nat j])])
             | Some (_, ev1) => TOk (true, NShort [N.of_nat j] rem, ev ++ ev1)
             end
           else TOk (true, NShort [N.of_nat j] rem, ev)
       end) = TOk (true, R, ev') /\
      wfn R /\ R <> NEmpty /\ (forall k, lk R k = lk (NFull cs') k) /\
      (((j < 16)%nat -> can crem) -> can R).
  Proof.
    intros Hw Hc Hne Hoth.
    assert (HL : forall k, lk (NShort [N.of_nat j] crem) k = lk (NFull cs') k).
    { intros [|x r]; [reflexivity|]. rewrite lk_short, lk_full. simpl strip.
      destruct (N.eqb_spec (N.of_nat j) x) as [<-|Nx].
      - rewrite Nat2N.id, Hc. reflexivity.
      - destruct (nth_error cs' (N.to_nat x)) as [c'|] eqn:E; [|reflexivity].
        rewrite (Hoth _ _ E); [rewrite lk_empty; reflexivity|lia]. }
    assert (Hj : (j < 17)%nat).
    { inversion Hw; subst. rewrite <- H0. apply nth_error_Some. congruence. }
    unfold child. rewrite Nat2N.id, Hc. inversion Hw; subst.
    destruct (N.eqb_spec (N.of_nat j) 16) as [E16|N16]; cbn [negb].
    - assert (j = 16%nat) by lia. subst j. destruct (H2 _ Hc) as [->|[v0 ->]]; [congruence|].
      exists (NShort [N.of_nat 16] (NValue v0)), ev. split; [reflexivity|].
      split; [apply wfn_leaf; reflexivity|]. split; [discriminate|]. split; [exact HL|].
      intros _. apply can_leaf. reflexivity.
    - assert (Hj16 : (j < 16)%nat) by lia. pose proof (H1 _ _ Hc Hj16) as Hwc.
      assert (Hnib : nibbles [N.of_nat j]) by (constructor; [lia|constructor]).
      destruct crem as [|v0|ck cv|l|h]; [congruence|inversion Hwc| | |inversion Hwc].
      + exists (NShort (N.of_nat j :: ck) cv), (ev ++ [] ++ [TDel (prefix ++ [N.of_nat j])]).
        split; [reflexivity|]. split; [apply (wfn_short_prepend [N.of_nat j]); assumption|].
        split; [discriminate|]. split.
        * intros k. rewrite <- HL. apply (lk_short_merge [N.of_nat j]).
        * intros Hcan. apply (can_short_prepend [N.of_nat j]); auto.
      + exists (NShort [N.of_nat j] (NFull l)), (ev ++ []).
        split; [reflexivity|]. split; [apply wfn_ext; [assumption|discriminate|assumption]|].
        split; [discriminate|]. split; [exact HL|].
        intros Hcan. apply can_ext; [assumption|discriminate|auto].
  Qed.

  Lemma delete_spec : forall fuel n prefix key,
    (length key < fuel)%nat -> wfpos n key ->
    exists d n' ev,
      delete resolve fuel n prefix key = TOk (d, n', ev) /\ del_post n key d n'.
  Proof.
    induction fuel as [|f IH]; intros n prefix key Hf Hp; [lia|].
    destruct Hp as [[-> [->|[v0 ->]]]|[Hk Hw]].
    - exists false, NEmpty, []. split; [reflexivity|].
      apply del_post_unchanged; [left; split; [reflexivity|apply vslot_empty]|reflexivity].
    - exists true, NEmpty, []. split; [reflexivity|]. unfold del_post. repeat split; try discriminate.
      + left. split; [reflexivity|apply vslot_empty].
      + intros k' Hn. rewrite lk_value, lk_empty. destruct k'; congruence.
      + intros _. left. split; [reflexivity|apply vslot_empty].
    - pose proof (valid_key_nonempty _ Hk) as Hne.
      destruct n as [|v0|nk nv|cs|h].
      + exists false, NEmpty, []. split; [reflexivity|].
        apply del_post_unchanged; [right; auto|reflexivity].
      + inversion Hw.
      + (* short node *)
        cbn [delete].
        destruct (prefix_len_split key nk) as (p & k' & n' & Hkey & Hnk & Hm & Hd).
        rewrite Hm. subst key nk. destruct n' as [|a n2].
        * rewrite app_nil_r in *. rewrite Nat.ltb_irrefl, firstn_app_exact, skipn_app_exact.
          destruct k' as [|b k2].
          -- (* the leaf itself *)
             rewrite app_nil_r in *. rewrite Nat.eqb_refl.
             assert (exists v0, nv = NValue v0) as [v0 ->].
             { inversion Hw; subst; [eauto|]. exfalso. exact (valid_key_not_nibbles _ Hk H1). }
             exists true, NEmpty, [TDel prefix]. split; [reflexivity|].
             unfold del_post. repeat split; try discriminate.
             ++ right. split; [assumption|constructor].
             ++ intros k' Hn. rewrite lk_leaf, lk_empty. destruct (bytes_eqb k' p) eqn:B; [|reflexivity].
                apply bytes_eqb_eq in B. congruence.
             ++ rewrite lk_leaf, bytes_eqb_refl. discriminate.
             ++ intros _. right. split; [assumption|left; reflexivity].
          -- (* descend *)
             rewrite app_length. simpl length.
             replace (Nat.eqb (length p) (length p + S (length k2))) with false
               by (symmetry; apply Nat.eqb_neq; lia).
             destruct (wfn_short_child p nv (b :: k2) Hw Hk) as (Hc & Hnp & Hnib).
             specialize (Hnib ltac:(discriminate)).
             destruct (IH nv (prefix ++ p) (b :: k2)) as (d & nn & ev & E & Q1 & Q2 & Q3 & Q4 & Q5 & Q6 & Q7);
               [rewrite app_length in Hf; destruct p; [congruence|simpl in Hf; simpl; lia]|exact Hc|].
             rewrite E. destruct d.
             ++ assert (Hwn : wfn nn) by (destruct Q1 as [[? _]|[_ ?]]; [discriminate|assumption]).
                (* facts about NShort p nn, shared by the merged and the plain result *)
                assert (G2 : lk (NShort p nn) (p ++ b :: k2) = None)
                  by (rewrite lk_short, strip_app_same; exact Q2).
                assert (G3 : forall k0, k0 <> p ++ b :: k2 -> lk (NShort p nn) k0 = lk (NShort p nv) k0).
                { intros k0 Hn. rewrite !lk_short. destruct (strip p k0) as [r|] eqn:S; [|reflexivity].
                  apply Q3. intros ->. apply strip_some in S. congruence. }
                assert (G4 : true = false <-> lk (NShort p nv) (p ++ b :: k2) = None)
                  by (rewrite lk_short, strip_app_same; exact Q4).
                assert (G6 : canpos (NShort p nv) (p ++ b :: k2) -> can nn /\ exists cs, nv = NFull cs).
                { intros [[E0 _]|[_ [E0|Hcan]]]; [destruct p; discriminate|discriminate|].
                  inversion Hcan; subst; [exfalso; exact (valid_key_not_nibbles _ H0 Hnib)|].
                  split; [|eauto]. specialize (Q7 _ eq_refl).
                  destruct Q6 as [[E0 _]|[_ [?|?]]]; [|discriminate|congruence|assumption].
                  right. split; [|right; assumption]. destruct Hc as [[? _]|[? _]]; [discriminate|assumption]. }
                destruct nn as [|v1|ck cv|l|h].
                ** exists true, (NShort p NEmpty), ev. split; [reflexivity|].
                   unfold del_post. repeat split; try discriminate; auto.
                   --- right. split; [assumption|]. apply wfn_ext; assumption.
                   --- apply G4.
                   --- intros Hcp. destruct (G6 Hcp) as [Hcn _]. inversion Hcn.
                ** inversion Hwn.
                ** exists true, (NShort (p ++ ck) cv), (ev ++ [TDel (prefix ++ p)]). split; [reflexivity|].
                   unfold del_post. repeat split; try discriminate.
                   --- right. split; [assumption|]. apply wfn_short_prepend; assumption.
                   --- rewrite lk_short_merge. exact G2.
                   --- intros k0 Hn. rewrite lk_short_merge. apply G3. exact Hn.
                   --- apply G4.
                   --- intros Hcp. destruct (G6 Hcp) as [Hcn _]. right. split; [assumption|]. right.
                       apply can_short_prepend; assumption.
                ** exists true, (NShort p (NFull l)), ev. split; [reflexivity|].
                   unfold del_post. repeat split; try discriminate; auto.
                   --- right. split; [assumption|]. apply wfn_ext; assumption.
                   --- apply G4.
                   --- intros Hcp. destruct (G6 Hcp) as [Hcn _]. right. split; [assumption|]. right.
                       apply can_ext; assumption.
                ** inversion Hwn.
             ++ rewrite (Q5 eq_refl) in *. exists false, (NShort p nv), ev. split; [reflexivity|].
                apply del_post_unchanged; [right; auto|]. rewrite lk_short, strip_app_same. exact Q2.
        * (* key mismatch: nothing to delete *)
          rewrite app_length. simpl length.
          replace (Nat.ltb (length p) (length p + S (length n2))) with true
            by (symmetry; apply Nat.ltb_lt; lia).
          exists false, (NShort (p ++ a :: n2) nv), []. split; [reflexivity|].
          apply del_post_unchanged; [right; auto|].
          rewrite lk_short, strip_app, strip_app_same. destruct k' as [|b k2]; [reflexivity|].
          rewrite strip_cons_neq; [reflexivity|congruence].
      + (* full node *)
        destruct key as [|k0 kr]; [congruence|].
        destruct (wfn_full_child _ _ _ Hw Hk) as (c & Hc & Hpc).
        cbn [delete]. unfold child at 1. rewrite Hc.
        destruct (IH c (prefix ++ [k0]) kr) as (d & nn & ev & E & Q1 & Q2 & Q3 & Q4 & Q5 & Q6 & Q7);
          [simpl in Hf; lia|exact Hpc|].
        rewrite E. destruct d.
        2:{ rewrite (Q5 eq_refl) in *. exists false, (NFull cs), ev. split; [reflexivity|].
            apply del_post_unchanged; [right; auto|]. rewrite lk_full, Hc. exact Q2. }
        unfold set_child. destruct (set_nth_some (N.to_nat k0) nn cs) as [cs' Hs].
        { apply nth_error_Some. congruence. }
        rewrite Hs. destruct (set_nth_spec _ _ _ _ Hs) as [L Hn].
        pose proof (wfn_full_set _ _ _ _ _ Hw Hk Q1 Hs) as Hw'.
        assert (A1 : lk (NFull cs') (k0 :: kr) = None)
          by (rewrite (lk_full_set _ _ _ _ k0 kr Hs), N.eqb_refl; exact Q2).
        assert (A2 : forall k1, k1 <> k0 :: kr -> lk (NFull cs') k1 = lk (NFull cs) k1).
        { intros k1 Hn1. destruct k1 as [|x r]; [reflexivity|].
          rewrite (lk_full_set _ _ _ _ x r Hs). destruct (N.eqb_spec x k0) as [->|Nx]; [|reflexivity].
          rewrite lk_full, Hc. apply Q3. congruence. }
        assert (A4 : true = false <-> lk (NFull cs) (k0 :: kr) = None)
          by (rewrite lk_full, Hc; exact Q4).
        assert (Hcne : is_empty c = false).
        { destruct c; try reflexivity. rewrite lk_empty in Q4. destruct Q4 as [_ Q4]. specialize (Q4 eq_refl). discriminate. }
        pose proof (count_set_nth _ _ _ _ _ Hs Hc) as Cnt. rewrite Hcne in Cnt.
        (* the plain result NFull cs' *)
        assert (HF : (can (NFull cs) -> (2 <= count cs')%nat) -> del_post (NFull cs) (k0 :: kr) true (NFull cs')).
        { intros Hcount. unfold del_post. repeat split; try discriminate; auto.
          - right. split; assumption.
          - apply A4.
          - intros [[E0 _]|[_ [E0|Hcan]]]; [discriminate|discriminate|].
            right. split; [assumption|]. right.
            pose proof (can_full_child _ _ _ _ Hcan Hk Hc) as Hcc. specialize (Q6 Hcc).
            specialize (Hcount Hcan).
            inversion Hcan; subst. inversion Hw'; subst. apply can_full; [assumption| |assumption|assumption].
            intros i c0 Hc0 Hi. rewrite Hn in Hc0.
            destruct (Nat.eqb_spec i (N.to_nat k0)) as [->|Ni]; [|eauto].
            inversion Hc0; subst. destruct Q6 as [[-> _]|[_ ?]]; [|assumption].
            apply valid_key_cons in Hk as [[-> _]|[_ []]]. lia. }
        destruct (is_empty nn) eqn:En; cbn [negb].
        * destruct nn; try discriminate. simpl in Cnt.
          pose proof (single_child_from_spec cs' 0) as SC. unfold single_child.
          destruct (single_child_from 0 cs') as [[pos|]|].
          -- destruct SC as [C1 (j & crem & -> & Hj & Hjne & Hoth)]. rewrite N.add_0_l.
             destruct (collapse_post cs' j crem prefix ev Hw' Hj Hjne Hoth)
               as (R & ev' & ER & R1 & R2 & R3 & R4).
             exists true, R, ev'. split; [exact ER|].
             unfold del_post. repeat split; try discriminate; auto.
             ++ right. split; assumption.
             ++ rewrite R3. exact A1.
             ++ intros k1 Hn1. rewrite R3. apply A2. exact Hn1.
             ++ apply A4.
             ++ intros [[E0 _]|[_ [E0|Hcan]]]; [discriminate|discriminate|].
                right. split; [assumption|]. right. apply R4. intros Hj16.
                assert (Hjk : j <> N.to_nat k0).
                { intros ->. rewrite Hn, Nat.eqb_refl in Hj. congruence. }
                rewrite Hn in Hj. destruct (Nat.eqb_spec j (N.to_nat k0)); [congruence|].
                inversion Hcan; subst. destruct (H1 _ _ Hj Hj16); [congruence|assumption].
          -- exists true, (NFull cs'), ev. split; [reflexivity|]. apply HF. intros _. exact SC.
          -- exists true, (NFull cs'), ev. split; [reflexivity|]. apply HF. intros Hcan.
             inversion Hcan; subst. lia.
        * exists true, (NFull cs'), ev. split; [reflexivity|]. apply HF. intros Hcan.
          inversion Hcan; subst. lia.
      + inversion Hw.
  Qed.
End OpsProofs.
