(* Trie/SyncPathComplete.v — completeness of the sync in the PATH scheme, with the account
   callback, for a destination without stale nodes (every trie node it holds is a target
   node at its own (owner, path)): availability is keyed by (owner, path); under the tree
   shape of the target's paths no deletion is ever issued, and when nothing is pending
   Commit leaves every target node at its own key. *)
From Coq Require Import ZArith Lia.
From GV Require Import Lib.Tactics Lib.Bytes Trie.Hex Trie.Node Trie.Hash Storage.KV Storage.KVProofs.
From GV Require Import Trie.Sync Trie.SyncProofs Trie.SyncInv Trie.SyncComplete Trie.SyncCallback Trie.SyncPath.
Local Open Scope N_scope.

Lemma app_inv_len {A} (a a' b b' : list A) : length a = length a' -> a ++ b = a' ++ b' -> a = a' /\ b = b'.
Proof.
  revert a'. induction a as [|x a IH]; intros [|x' a'] L E; simpl in *; try discriminate; [auto|].
  inversion E; subst. destruct (IH a' ltac:(lia) H1) as [-> ->]. auto.
Qed.

Lemma bth_len b : length (bytes_to_hash b) = 32%nat.
Proof.
  unfold bytes_to_hash. destruct (Nat.ltb 32 (length b)) eqn:E.
  - apply Nat.ltb_lt in E. rewrite skipn_length. lia.
  - apply Nat.ltb_ge in E. rewrite app_length, repeat_length. lia.
Qed.

Lemma resolve_owner_len q o i : resolve_path q = Some (o, i) -> length o = 32%nat.
Proof.
  unfold resolve_path. destruct (Nat.leb 64 (length q)).
  - destruct (hex_to_keybytes (firstn 64 q)); [|discriminate]. intros X; inversion X; subst. apply bth_len.
  - intros X; inversion X; subst. reflexivity.
Qed.

Lemma node_key_inj o i o' i' : length o = 32%nat -> length o' = 32%nat ->
  node_key o i = node_key o' i' -> o = o' /\ i = i'.
Proof.
  intros L L' E. unfold node_key, acct_key, stor_key in E.
  destruct (beq o zero32) eqn:Z; destruct (beq o' zero32) eqn:Z'; try discriminate.
  - apply beq_eq in Z. apply beq_eq in Z'. inversion E. subst. auto.
  - inversion E. apply app_inv_len in H0; [exact H0|congruence].
Qed.

Lemma cntc_aput_newP q h c (m : amap creq) :
  (cntc q (aput h c m) <= cntc q m + occ q (cr_parents c))%nat.
Proof. unfold aput. rewrite cntc_cons. pose proof (cntc_adel_le q h m). lia. Qed.
Lemma cntc_aput_oldP q h old c (m : amap creq) p :
  aget h m = Some old -> cr_parents c = cr_parents old ++ [p] ->
  (cntc q (aput h c m) <= cntc q m + (if beq p q then 1 else 0))%nat.
Proof.
  intros E Hp. unfold aput. rewrite cntc_cons, Hp, occ_app. pose proof (cntc_adel_found q h m old E).
  simpl. lia.
Qed.

Lemma node_key_not_code o i h : node_key o i <> code_key h.
Proof. unfold node_key, acct_key, stor_key, code_key. destruct (beq o zero32); discriminate. Qed.

Lemma apply_ops_pathP : forall ops d d',
  apply_ops true d ops = Some d' ->
  (forall o p, ~ In (OpDel o p) ops) ->
  (forall o i b h o' i' b' h', In (OpWrite o i b h) ops -> In (OpWrite o' i' b' h') ops ->
     node_key o i = node_key o' i' -> b = b') ->
  (forall k v o i b h, get k d = Some v -> In (OpWrite o i b h) ops -> k = node_key o i -> v = b) ->
  (forall k v, get k d = Some v -> get k d' = Some v) /\
  (forall o i b h, In (OpWrite o i b h) ops -> get (node_key o i) d' = Some b) /\
  (forall k v, get k d' = Some v -> get k d = Some v \/ exists o i h, In (OpWrite o i v h) ops /\ k = node_key o i).
Proof.
  induction ops as [|op ops IH]; simpl; intros d d' E Hn P1 P2.
  - inversion E; subst. split; [auto|]. split; [intros ? ? ? ? []|auto].
  - destruct (apply_op true d op) as [d1|] eqn:E1; [|discriminate].
    destruct op as [ow pa|ow pa blob hash]; [exfalso; eapply Hn; left; reflexivity|].
    simpl in E1. destruct blob as [|b0 bl]; [discriminate|]. inversion E1; subst d1.
    set (k0 := node_key ow pa) in *. set (b00 := b0 :: bl) in *.
    destruct (IH (put k0 b00 d) d' E) as (A & B & C).
    + intros o p Hin. eapply Hn. right. exact Hin.
    + intros; eapply P1; try (right; eassumption); assumption.
    + intros k v o i b h. rewrite get_put. destruct (beq k k0) eqn:Ek.
      * apply beq_eq in Ek. subst k. intros X Hin Hk; inversion X; subst v.
        eapply (P1 ow pa b00 hash o i b h); [left; reflexivity|right; exact Hin|exact Hk].
      * intros X Hin Hk. eapply P2; eauto.
    + split; [|split].
      * intros k v Ek. apply A. rewrite get_put. destruct (beq k k0) eqn:Eb; [|exact Ek].
        apply beq_eq in Eb. subst k. f_equal. symmetry. eapply (P2 k0 v ow pa b00 hash); auto.
      * intros o i b h [X|X]; [inversion X; subst; apply A; rewrite get_put, beq_refl; reflexivity|eapply B; eauto].
      * intros k v Ek. destruct (C k v Ek) as [X|(o & i & h & X1 & X2)]; [|right; exists o, i, h; auto].
        rewrite get_put in X. destruct (beq k k0) eqn:Eb; [|left; exact X].
        apply beq_eq in Eb. inversion X; subst. right. exists ow, pa, hash. auto.
Qed.

Lemma write_codes_getP : forall codes d k,
  (get k (write_codes d codes) = get k d \/ exists c v, In (c, v) codes /\ k = code_key c) /\
  (forall v, get k d = Some v -> (forall c, k <> code_key c) -> get k (write_codes d codes) = Some v).
Proof.
  unfold write_codes. induction codes as [|[h c] rest IH]; simpl; intros d k; [split; auto|].
  destruct (IH (put (code_key h) c d) k) as [A B]. split.
  - destruct A as [A|(c0 & v & X & Y)]; [|right; exists c0, v; auto].
    rewrite A, get_put. destruct (beq k (code_key h)) eqn:E; [|left; reflexivity].
    apply beq_eq in E. right. exists h, c. auto.
  - intros v Ev Hn. apply B; [|exact Hn]. rewrite get_put. destruct (beq k (code_key h)) eqn:E; [|exact Ev].
    apply beq_eq in E. exfalso. eapply Hn; eauto.
Qed.
Lemma write_codes_hasP : forall codes d k,
  (has k d = true -> has k (write_codes d codes) = true) /\
  ((exists c v, In (c, v) codes /\ k = code_key c) -> has k (write_codes d codes) = true).
Proof.
  unfold write_codes. induction codes as [|[h c] rest IH]; simpl; intros d k; [split; [auto|intros (? & ? & [] & _)]|].
  destruct (IH (put (code_key h) c d) k) as [A B].
  assert (Hput : has k d = true -> has k (put (code_key h) c d) = true).
  { intros Hk. apply has_true in Hk. destruct Hk as [v Hk]. apply has_true. rewrite get_put. destruct (beq k (code_key h)); eauto. }
  split; [intros X; apply A; apply Hput; exact X|].
  intros (c0 & v & [X|X] & Y); [|apply B; eauto].
  inversion X; subst. apply A. apply has_true. exists v. rewrite get_put, beq_refl. reflexivity.
Qed.

Section PathComplete.
  Variable H : list N -> list N.
  Variable T CD : list N -> option (list N).
  Variable root : list N.
  Variable cb0 : cbkind.
  Variable db0 : kv.
  Notation RN := (RN H T root cb0).
  Notation RC := (RC H T root cb0).
  Notation soundP := (soundP H T CD root cb0 db0 true).
  Notation reqT := (reqT H T root cb0).
  Notation tnode_at := (tnode_at H T root cb0).

  (* ---- hypotheses on the target: a tree of (owner, path) locations ---- *)
  (* one node per location *)
  Hypothesis LOC : forall q h cb q' h' cb' o i, RN q h cb -> RN q' h' cb' ->
    resolve_path q = Some (o, i) -> resolve_path q' = Some (o, i) -> q = q' /\ h = h' /\ cb = cb'.
  (* no target node strictly inside the key of a short node over a hash child *)
  Hypothesis NSPAN : forall o p h, dangling_at H T root cb0 o p -> ~ tnode_at o p h.
  (* the serving side's database is keyed by hash; no target hash is the hash of the empty string or zero *)
  Hypothesis TK : forall h b, T h = Some b -> H b = h.
  Hypothesis HNE : forall p h cb, RN p h cb -> h <> H [].
  Hypothesis Hnz : forall p h cb, RN p h cb -> h <> zero32.
  (* the destination holds no stale node: every trie node in it is a target node at its own location *)
  Hypothesis D0T : forall o i v, get (node_key o i) db0 = Some v -> exists h, tnode_at o i h /\ T h = Some v.

  (* ---- availability keyed by location ---- *)
  Definition loc_has (s : sync) (o i h : list N) : Prop :=
    (exists b, get (node_key o i) (sc_db s) = Some b /\ H b = h /\ b <> []) \/
    (exists b, In (OpWrite o i b h) (mb_nodes s) /\ b <> []).
  Definition availP (s : sync) (cp h : list N) : Prop :=
    exists o i, resolve_path cp = Some (o, i) /\ loc_has s o i h.

  Definition kid_okP (s : sync) (p : list N) (cb : cbkind) (cp : list N) (cn : node) : Prop :=
    match cn with
    | NHash ch => availP s cp ch \/ pend_node s p cp ch
    | NValue v =>
        cb = CbAccount -> forall sroot chash, dec_account v = Some (sroot, chash) ->
          (sroot = empty_root H \/ availP s cp sroot \/ pend_node s p cp sroot) /\
          (bytes_to_hash chash = empty_code H \/ availc s (bytes_to_hash chash) \/
           pend_code s p (bytes_to_hash chash))
    | _ => True
    end.
  Definition kid_availP (s : sync) (cb : cbkind) (cp : list N) (cn : node) : Prop :=
    match cn with
    | NHash ch => availP s cp ch
    | NValue v =>
        cb = CbAccount -> forall sroot chash, dec_account v = Some (sroot, chash) ->
          (sroot = empty_root H \/ availP s cp sroot) /\
          (bytes_to_hash chash = empty_code H \/ availc s (bytes_to_hash chash))
    | _ => True
    end.
  Definition LqP (s : sync) (q : list N) : Prop :=
    forall r b n cl, aget q (nreqs s) = Some r -> nr_data r = Some b -> decode_node b = DOk n ->
      child_list q n = Some cl -> forall cp cn, In (cp, cn) cl -> kid_okP s q (nr_cb r) cp cn.

  Record invP (e : option (list N)) (s : sync) : Prop := {
    ip_sc : sc_path s = true;
    ip_nd : forall p r b, aget p (nreqs s) = Some r -> nr_data r = Some b -> b <> [];
    ip_ne : forall o p b h, In (OpWrite o p b h) (mb_nodes s) -> b <> [];
    ip_nodel : forall o p, ~ In (OpDel o p) (mb_nodes s);
    ip_z : forall p r, aget p (nreqs s) = Some r -> nr_data r = None -> (nr_deps r <= 0)%Z;
    ip_par : forall k rc q, In (k, rc) (nreqs s) -> nr_parent rc = Some q -> has_data s q;
    ip_cpar : forall h c q, In (h, c) (creqs s) -> In q (cr_parents c) -> has_data s q;
    ip_L : forall q, Some q <> e -> LqP s q;
    ip_C : forall p h cb b n cl, RN p h cb -> availP s p h -> T h = Some b -> decode_node b = DOk n ->
      child_list p n = Some cl -> forall cp cn, In (cp, cn) cl -> kid_availP s cb cp cn;
    ip_Rt : root = empty_root H \/ availP s [] root \/
            exists r, aget [] (nreqs s) = Some r /\ nr_hash r = root }.

  Lemma kid_okP_mono s s' p cb cp cn :
    (forall c h, availP s c h -> availP s' c h) -> (forall h, availc s h -> availc s' h) ->
    (forall ch, pend_node s p cp ch -> availP s' cp ch \/ pend_node s' p cp ch) ->
    (forall h, pend_code s p h -> availc s' h \/ pend_code s' p h) ->
    kid_okP s p cb cp cn -> kid_okP s' p cb cp cn.
  Proof.
    intros An Ac Pn Pc. destruct cn; simpl; auto.
    - intros K Hcb sroot chash Hd. destruct (K Hcb _ _ Hd) as [K1 K2]. split.
      + destruct K1 as [X|[X|X]]; [auto|auto|]. destruct (Pn _ X); auto.
      + destruct K2 as [X|[X|X]]; [auto|auto|]. destruct (Pc _ X); auto.
    - intros [K|K]; [auto|]. destruct (Pn _ K); auto.
  Qed.
  Lemma kid_availP_mono s s' cb cp cn :
    (forall c h, availP s c h -> availP s' c h) -> (forall h, availc s h -> availc s' h) ->
    kid_availP s cb cp cn -> kid_availP s' cb cp cn.
  Proof.
    intros An Ac. destruct cn; simpl; auto.
    intros K Hcb sroot chash Hd. destruct (K Hcb _ _ Hd) as [K1 K2]. split.
    - destruct K1; auto.
    - destruct K2; auto.
  Qed.

  Lemma availP_ss s s' c h : same_store s s' -> availP s c h -> availP s' c h.
  Proof.
    intros (_ & E1 & E2 & _) (o & i & R & L). exists o, i. split; [exact R|].
    unfold loc_has in *. rewrite E1, E2. exact L.
  Qed.
  Lemma availc_ssP s s' h : same_store s s' -> availc s h -> availc s' h.
  Proof. intros (_ & E1 & _ & E3). unfold availc. rewrite E1, E3. auto. Qed.

  (* a generic transfer: same store, every old pending child still pending, requests changed
     only in ways the clauses below describe *)
  Lemma invP_reqs e e' s s' :
    invP e s -> same_store s s' ->
    (forall p r b, aget p (nreqs s') = Some r -> nr_data r = Some b -> b <> []) ->
    (forall p r, aget p (nreqs s') = Some r -> nr_data r = None -> (nr_deps r <= 0)%Z) ->
    (forall k rc q, In (k, rc) (nreqs s') -> nr_parent rc = Some q -> has_data s' q) ->
    (forall h c q, In (h, c) (creqs s') -> In q (cr_parents c) -> has_data s' q) ->
    (forall q cp ch, pend_node s q cp ch -> pend_node s' q cp ch) ->
    (forall q h, pend_code s q h -> pend_code s' q h) ->
    (forall q, Some q <> e' -> forall r', aget q (nreqs s') = Some r' -> nr_data r' <> None ->
       Some q <> e /\ exists r, aget q (nreqs s) = Some r /\ nr_data r = nr_data r' /\ nr_cb r = nr_cb r') ->
    (forall r, aget [] (nreqs s) = Some r -> exists r', aget [] (nreqs s') = Some r' /\ nr_hash r' = nr_hash r) ->
    invP e' s'.
  Proof.
    intros [S0 ND NE NDL Z PA CP L C RT] SS ND' Z' PA' CP' PN PC LK RK.
    assert (AN : forall c h, availP s c h -> availP s' c h) by (intros; eapply availP_ss; eauto).
    assert (AC : forall h, availc s h -> availc s' h) by (intros; eapply availc_ssP; eauto).
    assert (ANi : forall c h, availP s' c h -> availP s c h).
    { intros c h A. eapply availP_ss; [|exact A]. destruct SS as (A1 & A2 & A3 & A4). repeat split; congruence. }
    destruct SS as (E0 & E1 & E2 & E3).
    constructor; auto.
    - rewrite E0. exact S0.
    - rewrite E2. exact NE.
    - rewrite E2. exact NDL.
    - intros q Hq r' b n cl E D1 D2 D3 cp cn Hin.
      destruct (LK q Hq r' E ltac:(congruence)) as (Hqe & r & Er & Dr & Cr).
      rewrite <- Cr. eapply kid_okP_mono; [exact AN|exact AC| | |eapply (L q Hqe r b n cl); eauto; congruence].
      + intros ch P. right. apply PN. exact P.
      + intros h P. right. apply PC. exact P.
    - intros p h cb b n cl R A Th D Cl cp cn Hin.
      eapply kid_availP_mono; [exact AN|exact AC|]. eapply C; eauto.
    - destruct RT as [X|[X|(r & E & Hh)]]; [auto|right; left; apply AN; exact X|].
      right. right. destruct (RK r E) as (r' & E' & Hh'). exists r'. split; [exact E'|congruence].
  Qed.

  Lemma has_data_keep s s' :
    (forall q x, aget q (nreqs s) = Some x -> nr_data x <> None ->
       exists x', aget q (nreqs s') = Some x' /\ nr_data x' <> None) ->
    forall q, has_data s q -> has_data s' q.
  Proof.
    intros K q (rq & d & E1 & E2). destruct (K q rq E1 ltac:(congruence)) as (x' & A & B).
    destruct (nr_data x') as [d'|] eqn:D; [|congruence]. exists x', d'. auto.
  Qed.

  Lemma inv_updP e s k r r' :
    invP e s -> aget k (nreqs s) = Some r ->
    nr_hash r' = nr_hash r -> nr_parent r' = nr_parent r -> nr_cb r' = nr_cb r -> nr_data r' = nr_data r ->
    (nr_data r = None -> (nr_deps r' <= 0)%Z) ->
    invP e (set_nreqs s (aput k r' (nreqs s))).
  Proof.
    intros I Hk Hh Hp Hc Hd Hz. pose proof I as [S0 ND NE NDL Z PA CP L C RT].
    set (s' := set_nreqs s (aput k r' (nreqs s))).
    assert (HD : forall q, has_data s q -> has_data s' q).
    { apply has_data_keep. intros q x E Dx. unfold s'; ssimpl. rewrite aget_aput.
      destruct (beq q k) eqn:Eq; [|eauto]. apply beq_eq in Eq. subst q. rewrite Hk in E. inversion E; subst x.
      exists r'. split; [reflexivity|congruence]. }
    apply (invP_reqs e e s s' I); [repeat split| | | | | | | |]; unfold s'; ssimpl.
    - intros p x b. rewrite aget_aput. destruct (beq p k); [|apply ND]. intros X; inversion X; subst x. rewrite Hd. apply (ND _ _ _ Hk).
    - intros p x. rewrite aget_aput. destruct (beq p k); [|apply Z]. intros X; inversion X; subst x. rewrite Hd. exact Hz.
    - intros k1 rc q Hin Hq. apply HD. apply In_aput in Hin. destruct Hin as [X|[X _]].
      + inversion X; subst. rewrite Hp in Hq. eapply PA; [apply aget_In; exact Hk|exact Hq].
      + eapply PA; eauto.
    - intros h c q Hin Hq. apply HD. eapply CP; eauto.
    - intros q cp ch (rc & E1 & E2 & E3). unfold pend_node; ssimpl. rewrite aget_aput.
      destruct (beq cp k) eqn:Eq; [|eauto]. apply beq_eq in Eq. subst cp.
      rewrite Hk in E1. inversion E1; subst rc. exists r'. repeat split; congruence.
    - intros q h P. exact P.
    - intros q Hq x. rewrite aget_aput. destruct (beq q k) eqn:Eq.
      + apply beq_eq in Eq. subst q. intros X Dx; inversion X; subst x. split; [exact Hq|]. exists r. auto.
      + intros X Dx. split; [exact Hq|]. exists x. auto.
    - intros x E. rewrite aget_aput. destruct (beq [] k) eqn:Eq; [|eauto].
      apply beq_eq in Eq. subst k. rewrite Hk in E. inversion E; subst x. exists r'. auto.
  Qed.

  Lemma inv_setdataP s k r d :
    invP None s -> aget k (nreqs s) = Some r -> nr_data r = None -> d <> [] ->
    invP (Some k) (set_nreqs s (aput k (mkNreq (nr_hash r) (Some d) (nr_parent r) (nr_deps r) (nr_cb r)) (nreqs s))).
  Proof.
    intros I Hk Hn Hd. pose proof I as [S0 ND NE NDL Z PA CP L C RT].
    set (r' := mkNreq (nr_hash r) (Some d) (nr_parent r) (nr_deps r) (nr_cb r)).
    set (s' := set_nreqs s (aput k r' (nreqs s))).
    assert (HD : forall q, has_data s q -> has_data s' q).
    { apply has_data_keep. intros q x E Dx. unfold s'; ssimpl. rewrite aget_aput.
      destruct (beq q k) eqn:Eq; [|eauto]. exists r'. split; [reflexivity|discriminate]. }
    apply (invP_reqs None (Some k) s s' I); [repeat split| | | | | | | |]; unfold s'; ssimpl.
    - intros p x b. rewrite aget_aput. destruct (beq p k); [|apply ND]. intros X Y; inversion X; subst x. inversion Y; subst. exact Hd.
    - intros p x. rewrite aget_aput. destruct (beq p k); [|apply Z]. intros X; inversion X; subst x. discriminate.
    - intros k1 rc q Hin Hq. apply HD. apply In_aput in Hin. destruct Hin as [X|[X _]].
      + inversion X; subst. simpl in Hq. eapply PA; [apply aget_In; exact Hk|exact Hq].
      + eapply PA; eauto.
    - intros h c q Hin Hq. apply HD. eapply CP; eauto.
    - intros q cp ch (rc & E1 & E2 & E3). unfold pend_node; ssimpl. rewrite aget_aput.
      destruct (beq cp k) eqn:Eq; [|eauto]. apply beq_eq in Eq. subst cp.
      rewrite Hk in E1. inversion E1; subst rc. exists r'. repeat split; assumption.
    - intros q h P. exact P.
    - intros q Hq x. rewrite aget_aput. destruct (beq q k) eqn:Eq.
      + apply beq_eq in Eq. subst q. contradiction Hq. reflexivity.
      + intros X Dx. split; [discriminate|]. exists x. auto.
    - intros x E. rewrite aget_aput. destruct (beq [] k) eqn:Eq; [|eauto].
      apply beq_eq in Eq. subst k. rewrite Hk in E. inversion E; subst x. exists r'. auto.
  Qed.

  Lemma inv_schedP e s cp r p :
    invP e s -> aget cp (nreqs s) = None -> nr_data r = None -> nr_deps r = 0%Z ->
    nr_parent r = Some p -> has_data s p -> invP e (schedule_node s cp r).
  Proof.
    intros I Hf Hn Hz Hp Hpd. pose proof I as [S0 ND NE NDL Z PA CP L C RT]. unfold schedule_node.
    set (s' := set_queue (set_nreqs s (aput cp r (nreqs s))) _).
    assert (AG : forall q x, aget q (nreqs s) = Some x -> aget q (nreqs s') = Some x).
    { intros q x E. unfold s'; ssimpl. rewrite aget_aput. destruct (beq q cp) eqn:Eq; [|exact E].
      apply beq_eq in Eq. subst q. congruence. }
    assert (HD : forall q, has_data s q -> has_data s' q).
    { intros q (rq & d0 & E1 & E2). exists rq, d0. split; [apply AG; exact E1|exact E2]. }
    apply (invP_reqs e e s s' I); [repeat split| | | | | | | |]; unfold s'; ssimpl.
    - intros q x b. rewrite aget_aput. destruct (beq q cp); [|apply ND]. intros X; inversion X; subst x. congruence.
    - intros q x. rewrite aget_aput. destruct (beq q cp); [|apply Z]. intros X; inversion X; subst x. lia.
    - intros k1 rc q Hin Hq. apply HD. apply In_aput in Hin. destruct Hin as [X|[X _]].
      + inversion X; subst. congruence.
      + eapply PA; eauto.
    - intros h c q Hin Hq. apply HD. eapply CP; eauto.
    - intros q c0 ch (rc & E1 & E2 & E3). exists rc. split; [apply (AG _ _ E1)|auto].
    - intros q h P. exact P.
    - intros q Hq x. rewrite aget_aput. destruct (beq q cp) eqn:Eq.
      + intros X Dx; inversion X; subst x. congruence.
      + intros X Dx. split; [exact Hq|]. exists x. auto.
    - intros x E. exists x. split; [apply (AG _ _ E)|reflexivity].
  Qed.

  Lemma cnt_freshP e s cp : invP e s -> aget cp (nreqs s) = None ->
    cntn cp (nreqs s) = O /\ cntc cp (creqs s) = O.
  Proof.
    intros I Hf. split.
    - apply cntn_zero_of. intros k rc Hin Hp. destruct (ip_par e s I _ _ _ Hin Hp) as (rq & d & E & _). congruence.
    - apply cntc_zero_of. intros h c Hin Hp. destruct (ip_cpar e s I _ _ _ Hin Hp) as (rq & d & E & _). congruence.
  Qed.

  Lemma slack_schedP e s p n cp r :
    invP e s -> slack s (fp p (S n)) -> aget cp (nreqs s) = None -> has_data s p ->
    nr_deps r = 0%Z -> nr_parent r = Some p -> slack (schedule_node s cp r) (fp p n).
  Proof.
    intros I SL Hf (rp & dp & Hrp & _) Hz Hp q rq. unfold schedule_node; ssimpl. rewrite aget_aput.
    pose proof (cntn_aput_le q cp r (nreqs s)) as Le.
    destruct (cnt_freshP e s cp I Hf) as [Z1 Z2].
    assert (Hne : beq cp p = false).
    { destruct (beq cp p) eqn:E; [|reflexivity]. apply beq_eq in E. subst. congruence. }
    destruct (beq q cp) eqn:Eq.
    - apply beq_eq in Eq. subst q. intros X; inversion X; subst rq.
      assert (Hip : is_par cp r = false) by (unfold is_par; rewrite Hp, beq_sym; exact Hne).
      rewrite Hip in Le. unfold fp. rewrite Hne. lia.
    - intros X. specialize (SL q rq X). unfold is_par in Le. rewrite Hp in Le. unfold fp in *.
      rewrite (beq_sym p q) in Le. destruct (beq q p); lia.
  Qed.

  Lemma inv_sched_codeP e s h p path :
    invP e s -> has_data s p -> invP e (schedule_code s h (mkCreq path None [p])).
  Proof.
    intros I HD. pose proof I as [S0 ND NE NDL Z PA CP L C RT].
    set (s' := schedule_code s h (mkCreq path None [p])).
    assert (N' : nreqs s' = nreqs s) by (unfold s', schedule_code; destruct (aget h (creqs s)); reflexivity).
    assert (SS : same_store s s') by (unfold s', schedule_code; destruct (aget h (creqs s)); repeat split).
    assert (PCd : forall q h0, pend_code s q h0 -> pend_code s' q h0) by (apply (proj1 (proj2 (proj2 (ext_sched_code p s h _))))).
    apply (invP_reqs e e s s' I SS); rewrite ?N'; auto.
    - intros q rc q0 Hin Hq. destruct (PA _ _ _ Hin Hq) as (rq & d & E1 & E2). exists rq, d. rewrite N'. auto.
    - intros h' c' q Hin Hq.
      assert (G : has_data s q).
      { unfold s', schedule_code in Hin. destruct (aget h (creqs s)) as [old|] eqn:Eo; cbn [creqs set_creqs set_queue] in Hin;
          apply In_aput in Hin; destruct Hin as [X|[X _]]; try (eapply CP; eauto; fail);
          inversion X; subst; simpl in Hq.
        - apply in_app_iff in Hq. destruct Hq as [Hq|[X0|[]]]; [|subst q; exact HD]. eapply CP; [apply aget_In; exact Eo|exact Hq].
        - destruct Hq as [X0|[]]. subst q. exact HD. }
      destruct G as (rq & d & E1 & E2). exists rq, d. rewrite N'. auto.
    - intros q cp ch (rc & E1 & E2 & E3). exists rc. rewrite N'. auto.
    - intros q Hq x E Dx. split; [exact Hq|]. exists x. auto.
    - intros x E. exists x. auto.
  Qed.

  Lemma inv_removeP s x r b f owner inner fe :
    invP None s -> slack s f -> RN x (nr_hash r) (nr_cb r) -> T (nr_hash r) = Some b ->
    aget x (nreqs s) = Some r -> nr_data r = Some b -> (nr_deps r = 0)%Z ->
    resolve_path x = Some (owner, inner) ->
    let s1 := mb_add_node s owner inner b (nr_hash r) in
    let s2 := set_fetches (set_nreqs s1 (adel x (nreqs s1))) fe in
    invP None s2 /\
    slack s2 (fun q => (f q + match nr_parent r with Some pp => if beq pp q then 1 else 0 | None => 0 end)%nat).
  Proof.
    intros I SL Rx Tx Hx Hd Hz Hrp s1 s2.
    pose proof I as [S0 ND NE NDL Z PA CP L C RT].
    assert (Hc0 : cntn x (nreqs s) = O /\ cntc x (creqs s) = O) by (specialize (SL x r Hx); lia).
    destruct Hc0 as [Cn Cc].
    assert (AN : forall c h, availP s c h -> availP s2 c h).
    { intros c h (o & i & R & [A|(b0 & A & B)]); exists o, i; (split; [exact R|]);
        [left; exact A|right; exists b0; split; [right; exact A|exact B]]. }
    assert (AC : forall h, availc s h -> availc s2 h) by (intros h A; exact A).
    assert (AX : availP s2 x (nr_hash r)).
    { exists owner, inner. split; [exact Hrp|]. right. exists b. split; [left; reflexivity|eapply ND; eauto]. }
    assert (AG : forall q y, q <> x -> aget q (nreqs s) = Some y -> aget q (nreqs s2) = Some y).
    { intros q y Hq E. unfold s2, s1, mb_add_node; ssimpl. rewrite aget_adel.
      destruct (beq q x) eqn:Eq; [apply beq_eq in Eq; congruence|exact E]. }
    assert (AG' : forall q y, aget q (nreqs s2) = Some y -> q <> x /\ aget q (nreqs s) = Some y).
    { intros q y. unfold s2, s1, mb_add_node; ssimpl. rewrite aget_adel.
      destruct (beq q x) eqn:Eq; [discriminate|]. intros E. split; [|exact E].
      intros ->. rewrite beq_refl in Eq. discriminate. }
    assert (HD : forall q, q <> x -> has_data s q -> has_data s2 q).
    { intros q Hq (rq & d & E1 & E2). exists rq, d. split; [apply AG; assumption|exact E2]. }
    assert (PN : forall p cp ch, pend_node s p cp ch -> availP s2 cp ch \/ pend_node s2 p cp ch).
    { intros p cp ch (rc & E1 & E2 & E3). destruct (beq cp x) eqn:Eq.
      - apply beq_eq in Eq. subst cp. rewrite Hx in E1. inversion E1; subst rc. left. rewrite <- E2. exact AX.
      - right. exists rc. repeat split; auto. apply AG; [|exact E1]. intros ->. rewrite beq_refl in Eq. discriminate. }
    assert (PC : forall p h, pend_code s p h -> availc s2 h \/ pend_code s2 p h) by (intros p h A; right; exact A).
    split.
    - constructor; unfold s2, s1, mb_add_node; ssimpl; auto.
      + intros p y b0. rewrite aget_adel. destruct (beq p x); [discriminate|]. apply ND.
      + intros o p b0 h [X|X]; [inversion X; subst; eapply ND; eauto|eapply NE; eauto].
      + intros o p [X|X]; [discriminate|eapply NDL; eauto].
      + intros p y. rewrite aget_adel. destruct (beq p x); [discriminate|]. apply Z.
      + intros k rc q Hin Hq. apply In_adel in Hin. destruct Hin as [Hin Hne].
        apply HD; [|eapply PA; eauto]. intros ->. exact (cntn_zero_In _ _ _ _ Cn Hin Hq).
      + intros h c q Hin Hq. apply HD; [|eapply CP; eauto]. intros ->. exact (cntc_zero_In _ _ _ _ Cc Hin Hq).
      + intros q _. unfold LqP. intros y b0 n cl E D1 D2 D3 cp cn Hin.
        change (aget q (nreqs s2) = Some y) in E. destruct (AG' _ _ E) as [Hq E0].
        eapply kid_okP_mono; [exact AN|exact AC|apply PN|apply PC|].
        eapply (L q); eauto; discriminate.
      + intros p h cb b0 n cl R1 A1 T1 D1 C1 cp cn Hin.
        change (availP s2 p h) in A1.
        assert (Hcase : availP s p h \/ (p = x /\ h = nr_hash r /\ cb = nr_cb r)).
        { destruct A1 as (o & i & Rp & [A|(b1 & [X|X] & B)]).
          - left. exists o, i. split; [exact Rp|left; exact A].
          - inversion X; subst. right. eapply LOC; eauto.
          - left. exists o, i. split; [exact Rp|right; eauto]. }
        destruct Hcase as [A0|(-> & -> & ->)].
        * eapply kid_availP_mono; [exact AN|exact AC|]. eapply C; eauto.
        * rewrite Tx in T1. inversion T1; subst b0.
          pose proof (L x ltac:(discriminate) r b n cl Hx Hd D1 C1 cp cn Hin) as K.
          destruct cn; simpl in *; auto.
          -- intros Hcb sroot chash Hda. destruct (K Hcb _ _ Hda) as [K1 K2]. split.
             ++ destruct K1 as [?|[?|(rc & E1 & E2 & E3)]]; auto.
                exfalso. exact (cntn_zero_In _ _ _ _ Cn (aget_In _ _ _ E1) E3).
             ++ destruct K2 as [?|[?|(c & E1 & E2)]]; auto.
                exfalso. exact (cntc_zero_In _ _ _ _ Cc (aget_In _ _ _ E1) E2).
          -- destruct K as [?|(rc & E1 & E2 & E3)]; auto.
             exfalso. exact (cntn_zero_In _ _ _ _ Cn (aget_In _ _ _ E1) E3).
      + destruct RT as [?|[A|(y & E1 & E2)]]; auto. destruct (beq [] x) eqn:Eq.
        * apply beq_eq in Eq. subst x. rewrite Hx in E1. inversion E1; subst y. right. left. rewrite <- E2. exact AX.
        * right. right. exists y. split; [|exact E2]. rewrite aget_adel, Eq. exact E1.
    - intros q rq E. change (aget q (nreqs s2) = Some rq) in E. destruct (AG' _ _ E) as [Hq E0].
      specialize (SL q rq E0). unfold s2, s1, mb_add_node; ssimpl.
      pose proof (cntn_adel_found q x (nreqs s) r Hx) as Le. unfold is_par in Le.
      destruct (nr_parent r) as [pp|]; [|lia]. destruct (beq pp q); lia.
  Qed.

  Lemma inv_cnrP : forall fuel s x f r b,
    invP None s -> slack s f -> reqT s ->
    aget x (nreqs s) = Some r -> nr_data r = Some b -> (nr_deps r = 0)%Z ->
    invP None (fst (commit_node_request fuel s x)) /\
    slack (fst (commit_node_request fuel s x)) f /\
    reqT (fst (commit_node_request fuel s x)).
  Proof.
    induction fuel as [|fu IH]; intros s x f r b I SL RT Hx Hd Hz; [auto|].
    cbn [commit_node_request]. rewrite Hx.
    destruct (resolve_path x) as [[owner inner]|] eqn:Erp; [|auto].
    rewrite Hd.
    set (s1 := mb_add_node s owner inner b (nr_hash r)).
    set (s2 := set_fetches _ _).
    destruct (RT _ _ Hx) as [Rx Tx].
    destruct (inv_removeP s x r b f owner inner (fadd (Z.of_nat (length x)) (-1) (fetches s1)) I SL Rx (Tx _ Hd) Hx Hd Hz Erp)
      as [I2 SL2]. fold s1 in I2, SL2. fold s2 in I2, SL2.
    assert (RT2 : reqT s2).
    { intros p y. unfold s2, s1, mb_add_node; ssimpl. rewrite aget_adel. destruct (beq p x); [discriminate|]. apply RT. }
    destruct (nr_parent r) as [pp|] eqn:Ep.
    - destruct (aget pp (nreqs s2)) as [rp|] eqn:Epp.
      + set (rp' := mkNreq (nr_hash rp) (nr_data rp) (nr_parent rp) (nr_deps rp - 1) (nr_cb rp)).
        set (s3 := set_nreqs s2 (aput pp rp' (nreqs s2))).
        assert (Hrp : has_data s pp) by (eapply (ip_par None s I); [apply aget_In; exact Hx|exact Ep]).
        assert (Hdp : exists dp, nr_data rp = Some dp).
        { destruct Hrp as (rq & d & E1 & E2). revert Epp. unfold s2, s1, mb_add_node; ssimpl. rewrite aget_adel.
          destruct (beq pp x); [discriminate|]. rewrite E1. intros X; inversion X; subst. eauto. }
        destruct Hdp as [dp Hdp].
        assert (I3 : invP None s3).
        { unfold s3. apply (inv_updP None s2 pp rp rp'); [exact I2|exact Epp|reflexivity|reflexivity|reflexivity|reflexivity|].
          intros X. congruence. }
        assert (SL3 : slack s3 f).
        { intros q rq. unfold s3; ssimpl. rewrite aget_aput.
          pose proof (cntn_aput_same q pp rp rp' (nreqs s2) Epp eq_refl) as Le.
          destruct (beq q pp) eqn:Eq.
          - apply beq_eq in Eq. subst q. intros X; inversion X; subst rq. unfold rp' in *; cbn [nr_deps].
            specialize (SL2 pp rp Epp). cbn beta in SL2. rewrite beq_refl in SL2. lia.
          - intros X. specialize (SL2 q rq X). cbn beta in SL2.
            destruct (beq pp q) eqn:E2; [apply beq_eq in E2; subst; rewrite beq_refl in Eq; discriminate|]. lia. }
        assert (RT3 : reqT s3).
        { intros p y. unfold s3; ssimpl. rewrite aget_aput. destruct (beq p pp) eqn:Eq; [|apply RT2].
          apply beq_eq in Eq. subst p. intros X; inversion X; subst y. simpl. apply (RT2 _ _ Epp). }
        fold rp'. fold s3.
        destruct (Z.eqb (nr_deps rp - 1) 0) eqn:Ed; [|auto].
        apply Z.eqb_eq in Ed.
        eapply (IH s3 pp f rp' dp); auto.
        unfold s3; ssimpl. rewrite aget_aput, beq_refl. reflexivity.
      + cbn [fst]. split; [exact I2|split; [|exact RT2]].
        intros q rq E. specialize (SL2 q rq E). cbn beta in SL2. destruct (beq pp q); lia.
    - cbn [fst]. split; [exact I2|split; [|exact RT2]].
      intros q rq E. specialize (SL2 q rq E). cbn beta in SL2. lia.
  Qed.

  Lemma inv_closeP p s : invP (Some p) s -> LqP s p -> invP None s.
  Proof.
    intros [S0 ND NE NDL Z PA CP L C RT] Lp. constructor; auto.
    intros q _. destruct (list_eq_dec N.eq_dec q p) as [->|Hne]; [exact Lp|]. apply L. congruence.
  Qed.

  (* every trie node stored in the destination is a target node at its own location *)
  Lemma dbt s o i v : soundP s -> length o = 32%nat -> get (node_key o i) (sc_db s) = Some v ->
    exists h, tnode_at o i h /\ T h = Some v.
  Proof.
    intros SO Lo E. destruct (sp_db _ _ _ _ _ _ _ s SO _ _ E) as [X|[(o2 & p2 & h & Ek & Tn & Tv)|(h & Ek & _)]].
    - apply D0T. exact X.
    - destruct Tn as (q & cb & R & Rp). pose proof (resolve_owner_len _ _ _ Rp) as L2.
      destruct (node_key_inj _ _ _ _ Lo L2 Ek) as [-> ->]. exists h. split; [exists q, cb; auto|exact Tv].
    - exfalso. exact (node_key_not_code _ _ _ Ek).
  Qed.

  Definition DBT (s : sync) : Prop :=
    forall o i v, length o = 32%nat -> get (node_key o i) (sc_db s) = Some v -> exists h, tnode_at o i h /\ T h = Some v.
  Lemma DBT_of s : soundP s -> DBT s.
  Proof. intros SO o i v Lo E. eapply dbt; eauto. Qed.
  Lemma DBT_ss s s' : same_store s s' -> DBT s -> DBT s'.
  Proof. intros (_ & E & _) D o i v Lo Eg. rewrite E in Eg. eapply D; eauto. Qed.

  Lemma has_node_path s cp o i h cb :
    sc_path s = true -> DBT s -> resolve_path cp = Some (o, i) -> RN cp h cb ->
    snd (has_node H s o i h) = false /\ (fst (has_node H s o i h) = true -> availP s cp h).
  Proof.
    intros I SO Rp R. unfold has_node. rewrite I.
    pose proof (resolve_owner_len _ _ _ Rp) as Lo.
    destruct (get (node_key o i) (sc_db s)) as [b|] eqn:Eg; cbn [fst snd].
    - destruct (beq h (H b)) eqn:Eb.
      + split; [reflexivity|]. intros _. apply beq_eq in Eb. exists o, i. split; [exact Rp|]. left. exists b.
        split; [exact Eg|split; [auto|]]. intros ->. eapply HNE; eauto.
      + split; [|discriminate]. destruct b as [|b0 bl]; [reflexivity|exfalso].
        destruct (SO o i _ Lo Eg) as (h' & (q' & cb' & R' & Rp') & Tv).
        destruct (LOC _ _ _ _ _ _ _ _ R R' Rp Rp') as (_ & <- & _).
        rewrite (TK _ _ Tv), beq_refl in Eb. discriminate.
    - destruct (beq h (H [])) eqn:Eb; [apply beq_eq in Eb; exfalso; eapply HNE; eauto|].
      split; [reflexivity|discriminate].
  Qed.

  Lemma dangling_id q h cb b k ch owner inner :
    RN q h cb -> T h = Some b -> decode_node b = DOk (NShort k (NHash ch)) ->
    resolve_path q = Some (owner, inner) ->
    forall n s j, DBT s -> (1 <= j)%nat -> (n = 0 \/ j + n <= length (short_key k))%nat ->
    dangling s owner inner (short_key k) j n = s.
  Proof.
    intros R Th Dn Rp. induction n as [|n IH]; intros s j SO Hj Hn; cbn [dangling]; [reflexivity|].
    assert (Hb : (j + S n <= length (short_key k))%nat) by (destruct Hn as [X|X]; [discriminate|exact X]).
    destruct (has (node_key owner (inner ++ firstn j (short_key k))) (sc_db s)) eqn:Eh.
    - exfalso. apply has_true in Eh. destruct Eh as [v Ev].
      destruct (SO owner _ v (resolve_owner_len _ _ _ Rp) Ev) as (h' & Tn & _).
      eapply NSPAN; [|exact Tn]. exists q, h, cb, b, k, ch, inner, j.
      split; [exact R|]. split; [exact Th|]. split; [exact Dn|]. split; [exact Rp|]. split; [reflexivity|]. lia.
    - apply IH; [exact SO|lia|lia].
  Qed.

  Lemma availP_ext p s s' c h : ext p s s' -> availP s c h -> availP s' c h.
  Proof. intros (SS & _) A. eapply availP_ss; eauto. Qed.
  Lemma availc_extP p s s' h : ext p s s' -> availc s h -> availc s' h.
  Proof. intros (SS & _) A. eapply availc_ssP; eauto. Qed.
  Lemma kid_okP_ext p s s' cb cp cn : ext p s s' -> kid_okP s p cb cp cn -> kid_okP s' p cb cp cn.
  Proof.
    intros X. apply kid_okP_mono.
    - intros c h. apply (availP_ext p); exact X.
    - intros h. apply (availc_extP p); exact X.
    - intros ch P. right. apply (proj1 (proj2 X)). exact P.
    - intros h P. right. apply (proj1 (proj2 (proj2 X))). exact P.
  Qed.

  Lemma inv_bumpP p s :
    invP (Some p) s -> slack s zero -> reqT s -> has_data s p ->
    exists s2, bump_deps s p 1 = Some s2 /\ invP (Some p) s2 /\ slack s2 (fp p 1) /\ reqT s2 /\
               ext p s s2 /\ has_data s2 p /\ creqs s2 = creqs s /\ same_store s s2.
  Proof.
    intros I SL RT (rp & d & Ep & Dp). unfold bump_deps. rewrite Ep.
    set (rp' := mkNreq (nr_hash rp) (nr_data rp) (nr_parent rp) (nr_deps rp + 1) (nr_cb rp)).
    set (s2 := set_nreqs s (aput p rp' (nreqs s))).
    exists s2. split; [reflexivity|].
    assert (E2 : aget p (nreqs s2) = Some rp') by (unfold s2; ssimpl; rewrite aget_aput, beq_refl; reflexivity).
    split; [unfold s2; apply (inv_updP _ s p rp rp'); auto; intros X; congruence|].
    split.
    { intros q rq. unfold s2; ssimpl. rewrite aget_aput.
      pose proof (cntn_aput_same q p rp rp' (nreqs s) Ep eq_refl) as Le. unfold fp.
      destruct (beq q p) eqn:Eq.
      - apply beq_eq in Eq. subst q. intros Y; inversion Y; subst rq. unfold rp' in *; cbn [nr_deps].
        specialize (SL _ _ Ep). unfold zero in SL. lia.
      - intros Y. specialize (SL _ _ Y). unfold zero in SL. lia. }
    split.
    { intros q y. unfold s2; ssimpl. rewrite aget_aput. destruct (beq q p) eqn:Eq; [|apply RT].
      apply beq_eq in Eq. subst q. intros Y; inversion Y; subst y. apply (RT _ _ Ep). }
    split; [unfold s2; apply (ext_upd p s p rp rp' Ep); reflexivity|].
    split; [exists rp', d; split; [exact E2|exact Dp]|]. split; [reflexivity|repeat split].
  Qed.

  Lemma inv_add_sub_trieP p s rt cpath parent cb :
    invP (Some p) s -> slack s zero -> reqT s -> DBT s -> has_data s p -> parent <> zero32 ->
    (rt <> empty_root H -> RN cpath rt cb) ->
    match add_sub_trie H s rt cpath parent p cb with
    | inl _ => True
    | inr s' => invP (Some p) s' /\ slack s' zero /\ reqT s' /\ ext p s s' /\ has_data s' p /\
                (rt = empty_root H \/ availP s' cpath rt \/ pend_node s' p cpath rt)
    end.
  Proof.
    intros I SL RT DB HD Hpar Hrn. unfold add_sub_trie.
    destruct (beq rt (empty_root H)) eqn:Er.
    { apply beq_eq in Er. split; [exact I|split; [exact SL|split; [exact RT|split; [apply ext_refl|split; [exact HD|left; exact Er]]]]]. }
    assert (Hne : rt <> empty_root H) by (intros X; rewrite X, beq_refl in Er; discriminate).
    destruct (resolve_path cpath) as [[owner inner]|] eqn:Erp; [|exact Logic.I].
    destruct (has_node_path s cpath owner inner rt cb (ip_sc _ _ I) DB Erp (Hrn Hne)) as [Hinc Hex].
    destruct (has_node H s owner inner rt) as [ex inc]. cbn [fst snd] in Hinc, Hex. subst inc.
    destruct ex.
    { split; [exact I|split; [exact SL|split; [exact RT|split; [apply ext_refl|split; [exact HD|right; left; auto]]]]]. }
    cbv iota.
    destruct (aget cpath (nreqs s)) eqn:Ef; [exact Logic.I|].
    assert (Ez : negb (beq parent zero32) = true).
    { destruct (beq parent zero32) eqn:E; [apply beq_eq in E; contradiction|reflexivity]. }
    rewrite Ez. destruct (inv_bumpP p s I SL RT HD) as (s2 & Eb & I2 & SL2 & RT2 & X2 & HD2 & Ec & SS2).
    rewrite Eb.
    set (r := mkNreq rt None (Some p) 0 cb).
    assert (Ef2 : aget cpath (nreqs s2) = None).
    { unfold bump_deps in Eb. destruct (aget p (nreqs s)) eqn:Ep; [|discriminate]. inversion Eb; subst s2. ssimpl.
      rewrite aget_aput. destruct (beq cpath p) eqn:Eq; [apply beq_eq in Eq; subst; congruence|exact Ef]. }
    assert (I3 : invP (Some p) (schedule_node s2 cpath r)).
    { apply (inv_schedP _ _ _ _ p); [exact I2|exact Ef2|reflexivity|reflexivity|reflexivity|exact HD2]. }
    assert (SL3 : slack (schedule_node s2 cpath r) zero).
    { intros q rq E. pose proof (slack_schedP _ s2 p 0 cpath r I2 SL2 Ef2 HD2 eq_refl eq_refl q rq E) as X.
      unfold fp, zero in *. destruct (beq q p); lia. }
    assert (X3 : ext p s (schedule_node s2 cpath r)) by (eapply ext_trans; [exact X2|apply ext_sched; exact Ef2]).
    split; [exact I3|]. split; [exact SL3|]. split.
    { intros q y. unfold schedule_node; ssimpl. rewrite aget_aput. destruct (beq q cpath) eqn:Eq; [|apply RT2].
      apply beq_eq in Eq. subst q. intros Y; inversion Y; subst y. simpl. split; [auto|discriminate]. }
    split; [exact X3|]. split.
    { destruct HD as (rp & d & Ep & Dp). destruct (proj2 (proj2 (proj2 X3)) _ Ep) as (rp2 & A & B & _). exists rp2, d. split; [exact A|congruence]. }
    right. right. exists r. split; [|split; reflexivity].
    unfold schedule_node; ssimpl. rewrite aget_aput, beq_refl. reflexivity.
  Qed.

  Lemma inv_add_code_entryP p s h cpath parent :
    invP (Some p) s -> slack s zero -> reqT s -> has_data s p -> parent <> zero32 ->
    match add_code_entry H s h cpath parent p with
    | inl _ => True
    | inr s' => invP (Some p) s' /\ slack s' zero /\ reqT s' /\ ext p s s' /\ has_data s' p /\
                (h = empty_code H \/ availc s' h \/ pend_code s' p h)
    end.
  Proof.
    intros I SL RT HD Hpar. unfold add_code_entry.
    destruct (beq h (empty_code H)) eqn:Er.
    { apply beq_eq in Er. split; [exact I|split; [exact SL|split; [exact RT|split; [apply ext_refl|split; [exact HD|left; exact Er]]]]]. }
    destruct (has h (mb_codes s)) eqn:Em.
    { split; [exact I|split; [exact SL|split; [exact RT|split; [apply ext_refl|split; [exact HD|right; left; right; exact Em]]]]]. }
    destruct (has (code_key h) (sc_db s)) eqn:Ed.
    { split; [exact I|split; [exact SL|split; [exact RT|split; [apply ext_refl|split; [exact HD|right; left; left; exact Ed]]]]]. }
    assert (Ez : negb (beq parent zero32) = true).
    { destruct (beq parent zero32) eqn:E; [apply beq_eq in E; contradiction|reflexivity]. }
    rewrite Ez. destruct (inv_bumpP p s I SL RT HD) as (s2 & Eb & I2 & SL2 & RT2 & X2 & HD2 & Ec & SS2).
    rewrite Eb.
    set (s3 := schedule_code s2 h (mkCreq cpath None [p])).
    assert (N3 : nreqs s3 = nreqs s2) by (unfold s3, schedule_code; destruct (aget h (creqs s2)); reflexivity).
    split; [apply inv_sched_codeP; assumption|].
    split.
    { intros q rq E. unfold s3 in *.
      assert (SLc : slack (schedule_code s2 h (mkCreq cpath None [p])) (fp p 0)).
      { intros q0 rq0. unfold schedule_code. destruct (aget h (creqs s2)) as [old|] eqn:Eo; ssimpl; cbn [cr_parents cr_path cr_data]; intros E0.
        - specialize (SL2 q0 rq0 E0). pose proof (cntc_aput_oldP q0 h old (mkCreq (cr_path old) (cr_data old) (cr_parents old ++ [p])) (creqs s2) p Eo eq_refl) as Le.
          unfold fp in *. rewrite (beq_sym p q0) in Le. destruct (beq q0 p); lia.
        - specialize (SL2 q0 rq0 E0). pose proof (cntc_aput_newP q0 h (mkCreq cpath None [p]) (creqs s2)) as Le. cbn [cr_parents occ] in Le.
          unfold fp in *. rewrite (beq_sym p q0) in Le. destruct (beq q0 p); lia. }
      specialize (SLc q rq E). unfold fp, zero in *. destruct (beq q p); lia. }
    split; [intros q y; rewrite N3; apply RT2|].
    split; [eapply ext_trans; [exact X2|apply ext_sched_code]|].
    split; [destruct HD2 as (r2 & d2 & A & B); exists r2, d2; rewrite N3; auto|].
    right. right. unfold pend_code, s3, schedule_code.
    destruct (aget h (creqs s2)) as [old|] eqn:Eo; ssimpl; rewrite aget_aput, beq_refl; eexists; (split; [reflexivity|]); simpl.
    - apply in_app_iff. right. left. reflexivity.
    - left. reflexivity.
  Qed.

  Lemma inv_on_accountP p s cpath leaf hp :
    invP (Some p) s -> slack s zero -> reqT s -> DBT s -> has_data s p -> hp <> zero32 ->
    (forall sroot ch, dec_account leaf = Some (sroot, ch) -> sroot <> empty_root H -> RN cpath sroot CbNone) ->
    snd (on_account H s cpath leaf hp p) = ROk ->
    let s' := fst (on_account H s cpath leaf hp p) in
    invP (Some p) s' /\ slack s' zero /\ reqT s' /\ ext p s s' /\ has_data s' p /\
    kid_okP s' p CbAccount cpath (NValue leaf).
  Proof.
    intros I SL RT DB HD Hz Hrn. unfold on_account.
    destruct (dec_account leaf) as [[sroot ch]|] eqn:Ed; [|discriminate].
    pose proof (inv_add_sub_trieP p s sroot cpath hp CbNone I SL RT DB HD Hz (Hrn _ _ eq_refl)) as A.
    destruct (add_sub_trie H s sroot cpath hp p CbNone) as [s1|s1]; [discriminate|].
    destruct A as (I1 & SL1 & RT1 & X1 & HD1 & K1).
    pose proof (inv_add_code_entryP p s1 (bytes_to_hash ch) cpath hp I1 SL1 RT1 HD1 Hz) as B.
    destruct (add_code_entry H s1 (bytes_to_hash ch) cpath hp p) as [s2|s2]; [discriminate|].
    destruct B as (I2 & SL2 & RT2 & X2 & HD2 & K2). intros _. cbn [fst].
    split; [exact I2|]. split; [exact SL2|]. split; [exact RT2|].
    split; [eapply ext_trans; eauto|]. split; [exact HD2|].
    simpl. intros _ sroot' ch' Ed'. rewrite Ed in Ed'. inversion Ed'; subst sroot' ch'. split; [|exact K2].
    destruct K1 as [?|[A|P]]; [auto|right; left; eapply availP_ext; eauto|right; right; apply (proj1 (proj2 X2)); exact P].
  Qed.

  Definition kid_okAP (s : sync) (acc : list (list N * nreq)) (p : list N) (cb : cbkind) (cp : list N) (cn : node) : Prop :=
    match cn with
    | NHash ch => availP s cp ch \/ In (cp, mkNreq ch None (Some p) 0 cb) acc
    | _ => kid_okP s p cb cp cn
    end.
  Definition kidreqP (p : list N) (cb : cbkind) (cl : list (list N * node)) (x : list N * nreq) : Prop :=
    exists cp h, x = (cp, mkNreq h None (Some p) 0 cb) /\ In (cp, NHash h) cl.

  Lemma inv_children_loopP p hp cbp b n cl0 : forall cl s acc,
    invP (Some p) s -> slack s zero -> reqT s -> DBT s -> has_data s p ->
    RN p hp cbp -> T hp = Some b -> decode_node b = DOk n -> child_list p n = Some cl0 -> incl cl cl0 ->
    hp <> zero32 ->
    snd (children_loop H s p hp cbp cl acc) = ROk ->
    let s' := fst (fst (children_loop H s p hp cbp cl acc)) in
    let acc' := snd (fst (children_loop H s p hp cbp cl acc)) in
    invP (Some p) s' /\ slack s' zero /\ reqT s' /\ ext p s s' /\ has_data s' p /\
    (forall cp cn, In (cp, cn) cl -> kid_okAP s' acc' p cbp cp cn) /\
    (forall x, In x acc -> In x acc') /\
    (forall x, In x acc' -> In x acc \/ kidreqP p cbp cl x).
  Proof.
    induction cl as [|[cpath cn] rest IH]; intros s acc I SL RT DB HD Rp Tp Dn Cl Hin Hz; cbn [children_loop].
    { intros _. cbn [fst snd]. split; [exact I|]. split; [exact SL|]. split; [exact RT|].
      split; [apply ext_refl|]. split; [exact HD|]. split; [intros ? ? []|split; auto]. }
    assert (Hin' : incl rest cl0) by (intros x Hx; apply Hin; right; exact Hx).
    assert (Hhd : In (cpath, cn) cl0) by (apply Hin; left; reflexivity).
    set (cbres := match cbp with
                  | CbNone => (s, ROk)
                  | CbAccount => match cn with
                                 | NValue v => if callback_paths_ok cpath then on_account H s cpath v hp p else (s, RPanic)
                                 | _ => (s, ROk)
                                 end
                  end).
    assert (CB : snd cbres = ROk ->
              invP (Some p) (fst cbres) /\ slack (fst cbres) zero /\ reqT (fst cbres) /\ ext p s (fst cbres) /\
              has_data (fst cbres) p /\ ((forall h, cn <> NHash h) -> kid_okP (fst cbres) p cbp cpath cn)).
    { assert (Triv : invP (Some p) s /\ slack s zero /\ reqT s /\ ext p s s /\ has_data s p).
      { split; [exact I|split; [exact SL|split; [exact RT|split; [apply ext_refl|exact HD]]]]. }
      unfold cbres. destruct cbp.
      - intros _. cbn [fst]. destruct Triv as (A1 & A2 & A3 & A4 & A5). repeat (split; [assumption|]).
        intros Hn. destruct cn; simpl; auto; [discriminate|exfalso; eapply Hn; reflexivity].
      - destruct cn; try (intros _; cbn [fst]; destruct Triv as (A1 & A2 & A3 & A4 & A5); repeat (split; [assumption|]);
                          intros Hn; simpl; auto; exfalso; eapply Hn; reflexivity).
        destruct (callback_paths_ok cpath); [|discriminate].
        intros Hok.
        destruct (inv_on_accountP p s cpath v hp I SL RT DB HD Hz) as (B1 & B2 & B3 & B4 & B5 & B6); auto.
        { intros sroot ch Ed Hne. eapply RN_stor; eauto. }
        repeat (split; [assumption|]). intros _. exact B6. }
    destruct cbres as [s1 rc]. cbn [fst snd] in CB.
    destruct rc; try (cbn [snd]; discriminate).
    destruct (CB eq_refl) as (I1 & SL1 & RT1 & X1 & HD1 & K1). clear CB.
    assert (DB1 : DBT s1) by (eapply DBT_ss; [exact (proj1 X1)|exact DB]).
    assert (Cont : forall acc1,
      (forall x, In x acc -> In x acc1) ->
      (forall x, In x acc1 -> In x acc \/ kidreqP p cbp ((cpath, cn) :: rest) x) ->
      (forall s' acc', ext p s1 s' -> (forall x, In x acc1 -> In x acc') -> kid_okAP s' acc' p cbp cpath cn) ->
      snd (children_loop H s1 p hp cbp rest acc1) = ROk ->
      let s' := fst (fst (children_loop H s1 p hp cbp rest acc1)) in
      let acc' := snd (fst (children_loop H s1 p hp cbp rest acc1)) in
      invP (Some p) s' /\ slack s' zero /\ reqT s' /\ ext p s s' /\ has_data s' p /\
      (forall cp cn0, In (cp, cn0) ((cpath, cn) :: rest) -> kid_okAP s' acc' p cbp cp cn0) /\
      (forall x, In x acc -> In x acc') /\
      (forall x, In x acc' -> In x acc \/ kidreqP p cbp ((cpath, cn) :: rest) x)).
    { intros acc1 F1 F2 Khead Hrc.
      destruct (IH s1 acc1 I1 SL1 RT1 DB1 HD1 Rp Tp Dn Cl Hin' Hz Hrc) as (A1 & A2 & A3 & A4 & A5 & A6 & A7 & A8).
      split; [exact A1|]. split; [exact A2|]. split; [exact A3|].
      split; [eapply ext_trans; eauto|]. split; [exact A5|]. split; [|split].
      - intros cp cn0 [E|E]; [inversion E; subst; apply Khead; assumption|apply A6; exact E].
      - intros x Hx. apply A7. apply F1. exact Hx.
      - intros x Hx. destruct (A8 x Hx) as [Y|(cp & h & E1 & E2)]; [apply F2; exact Y|].
        right. exists cp, h. split; [exact E1|right; exact E2]. }
    destruct cn as [| v | k c | cs | h].
    - apply (Cont acc); auto. intros s' acc' X _. exact Logic.I.
    - apply (Cont acc); auto. intros s' acc' X _. apply (kid_okP_ext p s1); [exact X|]. apply K1. intros; discriminate.
    - apply (Cont acc); auto. intros s' acc' X _. exact Logic.I.
    - apply (Cont acc); auto. intros s' acc' X _. exact Logic.I.
    - assert (Rc : RN cpath h cbp) by (eapply RN_child; eauto).
      destruct (resolve_path cpath) as [[owner inner]|] eqn:Erp; [|cbn [snd]; discriminate].
      destruct (has_node_path s1 cpath owner inner h cbp (ip_sc _ _ I1) DB1 Erp Rc) as [Hinc Hex].
      destruct (has_node H s1 owner inner h) as [ex inc]. cbn [fst snd] in Hinc, Hex. subst inc.
      destruct ex.
      + apply (Cont acc); auto. intros s' acc' X _. left. apply (availP_ext p s1); [exact X|]. auto.
      + cbv iota. apply (Cont ((cpath, mkNreq h None (Some p) 0 cbp) :: acc)).
        * intros x Hx. right. exact Hx.
        * intros x [Hx|Hx]; [|left; exact Hx]. right. exists cpath, h. split; [auto|left; reflexivity].
        * intros s' acc' _ F. right. apply F. left. reflexivity.
  Qed.

  Lemma inv_schedule_allP p cb cl0 : forall reqs s s',
    invP (Some p) s -> slack s (fp p (length reqs)) -> reqT s -> has_data s p ->
    (forall cp h, In (cp, NHash h) cl0 -> RN cp h cb) ->
    (forall x, In x reqs -> kidreqP p cb cl0 x) ->
    schedule_all s reqs = Some s' ->
    invP (Some p) s' /\ slack s' zero /\ reqT s' /\ same_store s s' /\
    (forall cp r, In (cp, r) reqs -> aget cp (nreqs s') = Some r) /\
    (forall q y, aget q (nreqs s) = Some y -> aget q (nreqs s') = Some y).
  Proof.
    induction reqs as [|[cp r] rest IH]; intros s s' I SL RT HD Hrn Hk E; cbn [schedule_all] in E.
    - inversion E; subst. split; [exact I|]. split.
      { intros q rq X. specialize (SL q rq X). unfold fp, zero in *. simpl in SL. destruct (beq q p); lia. }
      split; [exact RT|]. split; [repeat split|]. split; [intros ? ? []|auto].
    - destruct (aget cp (nreqs s)) eqn:Ef; [discriminate|].
      destruct (Hk (cp, r) (or_introl eq_refl)) as (cp' & h & X & Hin). inversion X; subst cp' r.
      set (r := mkNreq h None (Some p) 0 cb) in *.
      assert (AG : forall q y, aget q (nreqs s) = Some y -> aget q (nreqs (schedule_node s cp r)) = Some y).
      { intros q y Eq. unfold schedule_node; ssimpl. rewrite aget_aput. destruct (beq q cp) eqn:Eb; [|exact Eq].
        apply beq_eq in Eb. subst q. congruence. }
      assert (I1 : invP (Some p) (schedule_node s cp r)).
      { apply (inv_schedP _ _ _ _ p); [exact I|exact Ef|reflexivity|reflexivity|reflexivity|exact HD]. }
      assert (SL1 : slack (schedule_node s cp r) (fp p (length rest))).
      { eapply slack_schedP; [exact I|exact SL|exact Ef|exact HD|reflexivity|reflexivity]. }
      assert (RT1 : reqT (schedule_node s cp r)).
      { intros q y. unfold schedule_node; ssimpl. rewrite aget_aput. destruct (beq q cp) eqn:Eb; [|apply RT].
        apply beq_eq in Eb. subst q. intros Y; inversion Y; subst y. simpl. split; [apply Hrn; exact Hin|discriminate]. }
      assert (HD1 : has_data (schedule_node s cp r) p).
      { destruct HD as (rq & d & E1 & E2). exists rq, d. split; [apply AG; exact E1|exact E2]. }
      destruct (IH _ _ I1 SL1 RT1 HD1 Hrn (fun x Hx => Hk x (or_intror Hx)) E) as (A & B & C & D & F & G).
      split; [exact A|]. split; [exact B|]. split; [exact C|]. split.
      { destruct D as (D1 & D2 & D3 & D4). repeat split; assumption. }
      split.
      + intros cp1 r1 [Y|Y]; [|apply F; exact Y]. inversion Y; subst. apply G.
        unfold schedule_node; ssimpl. rewrite aget_aput, beq_refl. reflexivity.
      + intros q y Eq. apply G. apply AG. exact Eq.
  Qed.

  Lemma schedule_all_creqsP : forall reqs s s', schedule_all s reqs = Some s' -> creqs s' = creqs s.
  Proof.
    induction reqs as [|[p r] rest IH]; intros s s' E; cbn [schedule_all] in E; [inversion E; reflexivity|].
    destruct (aget p (nreqs s)); [discriminate|]. rewrite (IH _ _ E). reflexivity.
  Qed.

  Lemma children_loop_rcP : forall cl s p hp cb acc,
    In (snd (children_loop H s p hp cb cl acc)) [ROk; RCallback; RPanic].
  Proof.
    induction cl as [|[cpath cn] rest IH]; intros s p hp cb acc; cbn [children_loop]; [simpl; auto|].
    set (cbres := match cb with
                  | CbNone => (s, ROk)
                  | CbAccount => match cn with
                                 | NValue v => if callback_paths_ok cpath then on_account H s cpath v hp p else (s, RPanic)
                                 | _ => (s, ROk)
                                 end
                  end).
    assert (R : In (snd cbres) [ROk; RCallback; RPanic]).
    { unfold cbres. destruct cb; [simpl; auto|]. destruct cn; try (simpl; auto; fail).
      destruct (callback_paths_ok cpath); [|simpl; auto].
      unfold on_account. destruct (dec_account v) as [[sr ch]|]; [|simpl; auto].
      destruct (add_sub_trie H s sr cpath hp p CbNone); [simpl; auto|].
      destruct (add_code_entry H s0 (bytes_to_hash ch) cpath hp p); simpl; auto. }
    destruct cbres as [s1 rc]. cbn [snd] in R.
    destruct rc; try (cbn [snd]; exact R); try (simpl in R; repeat destruct R as [R|R]; try discriminate R; contradiction).
    destruct cn; try apply IH.
    destruct (resolve_path cpath) as [[owner inner]|]; [|simpl; auto].
    destruct (has_node H s1 owner inner h) as [ex inc]. destruct ex; apply IH.
  Qed.

  (* Sync.ProcessNode, path scheme *)
  Lemma inv_process_nodeP s path data :
    invP None s -> slack s zero -> reqT s -> DBT s ->
    (forall r, aget path (nreqs s) = Some r -> T (nr_hash r) = Some data) ->
    In (snd (process_node H s path data)) [ROk; RNotRequested; RAlreadyProcessed; RDecode] ->
    invP None (fst (process_node H s path data)) /\ slack (fst (process_node H s path data)) zero /\
    reqT (fst (process_node H s path data)).
  Proof.
    intros I SL RT DB Hd. unfold process_node.
    destruct (aget path (nreqs s)) as [r|] eqn:Er; [|auto].
    destruct (nr_data r) eqn:Edata; [auto|].
    destruct (decode_node data) as [n|] eqn:Edec; [|auto].
    set (r1 := mkNreq (nr_hash r) (Some data) (nr_parent r) (nr_deps r) (nr_cb r)).
    set (s1 := set_nreqs s (aput path r1 (nreqs s))).
    destruct (RT _ _ Er) as [Rr _].
    assert (I1 : invP (Some path) s1) by (apply inv_setdataP; [exact I|exact Er|exact Edata|eapply decode_nonempty; eauto]).
    assert (E1 : aget path (nreqs s1) = Some r1) by (unfold s1; ssimpl; rewrite aget_aput, beq_refl; reflexivity).
    assert (SL1 : slack s1 zero).
    { unfold s1. eapply (slack_upd H T CD); eauto. specialize (SL _ _ Er). exact SL. }
    assert (RT1 : reqT s1).
    { intros q y. unfold s1; ssimpl. rewrite aget_aput. destruct (beq q path) eqn:Eq; [|apply RT].
      apply beq_eq in Eq. subst q. intros Y; inversion Y; subst y. simpl. split; [exact Rr|].
      intros b Yb; inversion Yb; subst. apply Hd. reflexivity. }
    assert (HD1 : has_data s1 path) by (exists r1, data; split; [exact E1|reflexivity]).
    assert (DB1 : DBT s1) by (eapply DBT_ss; [|exact DB]; repeat split).
    clearbody s1.
    unfold children.
    destruct (child_list path n) as [cl|] eqn:Ecl; [|simpl; intros [X|[X|[X|[X|[]]]]]; discriminate X].
    rewrite (ip_sc _ _ I1).
    set (s1o := match n with
                | NShort k (NHash _) =>
                    match resolve_path path with
                    | Some (owner, inner) => Some (dangling s1 owner inner (short_key k) 1 (length (short_key k) - 1))
                    | None => None
                    end
                | _ => Some s1
                end).
    assert (S1o : s1o = Some s1 \/ s1o = None).
    { unfold s1o. destruct n; auto. destruct n; auto.
      destruct (resolve_path path) as [[owner inner]|] eqn:Erp; [|auto]. left. f_equal.
      eapply (dangling_id path (nr_hash r) (nr_cb r) data k h owner inner); eauto; lia. }
    destruct S1o as [-> | ->]; [|simpl; intros [X|[X|[X|[X|[]]]]]; discriminate X].
    pose proof (inv_children_loopP path (nr_hash r) (nr_cb r) data n cl cl s1 [] I1 SL1 RT1 DB1 HD1 Rr
                  (Hd _ eq_refl) Edec Ecl (incl_refl _) (Hnz _ _ _ Rr)) as CL.
    pose proof (children_loop_rcP cl s1 path (nr_hash r) (nr_cb r) []) as RCL.
    destruct (children_loop H s1 path (nr_hash r) (nr_cb r) cl []) as [[s2 reqs] rc]. cbn [fst snd] in CL, RCL.
    destruct rc; try (simpl; intros [X|[X|[X|[X|[]]]]]; discriminate X);
      try (exfalso; simpl in RCL; repeat destruct RCL as [RCL|RCL]; try discriminate RCL; contradiction).
    destruct (CL eq_refl) as (I2 & SL2 & RT2 & X12 & HD2 & Kids & _ & Sp3). clear CL.
    destruct (proj2 (proj2 (proj2 X12)) _ E1) as (r2 & E2 & D2 & H2 & C2). cbn [nr_data nr_hash nr_cb] in D2, H2, C2.
    rewrite E2.
    assert (Hrn : forall cp h, In (cp, NHash h) cl -> RN cp h (nr_cb r)).
    { intros cp h Hin. eapply RN_child; eauto. }
    assert (Lclose : forall s' r', aget path (nreqs s') = Some r' ->
              nr_data r' = Some data -> nr_cb r' = nr_cb r ->
              (forall cp cn, In (cp, cn) cl -> kid_okP s' path (nr_cb r) cp cn) -> LqP s' path).
    { intros s' r' Er' Dr' Cr' Hk r0 b0 n0 cl0 E0 D0 N0 C0 cp cn Hin.
      rewrite Er' in E0. inversion E0; subst r0. rewrite Dr' in D0. inversion D0; subst b0.
      rewrite Edec in N0. inversion N0; subst n0. rewrite Ecl in C0. inversion C0; subst cl0.
      rewrite Cr'. apply Hk. exact Hin. }
    destruct (Nat.eqb (length reqs) 0 && Z.eqb (nr_deps r2) 0) eqn:Ecase.
    - apply andb_prop in Ecase. destruct Ecase as [El Ez]. apply Nat.eqb_eq in El. apply Z.eqb_eq in Ez.
      destruct reqs; [|discriminate]. intros _.
      assert (I2' : invP None s2).
      { eapply inv_closeP; [exact I2|]. apply (Lclose s2 r2 E2 D2 C2).
        intros cp cn Hin. pose proof (Kids _ _ Hin) as K. destruct cn; simpl in K |- *; auto.
        destruct K as [K|[]]. left. exact K. }
      eapply (inv_cnrP (cnr_fuel s2) s2 path zero r2 data); auto.
    - set (r3 := mkNreq (nr_hash r2) (nr_data r2) (nr_parent r2) (nr_deps r2 + Z.of_nat (length reqs)) (nr_cb r2)).
      set (s3 := set_nreqs s2 (aput path r3 (nreqs s2))).
      destruct (schedule_all s3 (rev reqs)) as [s4|] eqn:Esa; [|simpl; intros [X|[X|[X|[X|[]]]]]; discriminate X].
      cbn [fst snd]. intros _.
      assert (I3 : invP (Some path) s3).
      { unfold s3. apply (inv_updP _ s2 path r2 r3); [exact I2|exact E2|reflexivity|reflexivity|reflexivity|reflexivity|intros X; rewrite D2 in X; discriminate]. }
      assert (E3 : aget path (nreqs s3) = Some r3) by (unfold s3; ssimpl; rewrite aget_aput, beq_refl; reflexivity).
      assert (X23 : ext path s2 s3) by (unfold s3; apply (ext_upd path s2 path r2 r3 E2); reflexivity).
      assert (SL3 : slack s3 (fp path (length (rev reqs)))).
      { rewrite rev_length. intros q rq. unfold s3; ssimpl. rewrite aget_aput.
        pose proof (cntn_aput_same q path r2 r3 (nreqs s2) E2 eq_refl) as Le. unfold fp.
        destruct (beq q path) eqn:Eq.
        - apply beq_eq in Eq. subst q. intros Y; inversion Y; subst rq. unfold r3 in *; cbn [nr_deps].
          specialize (SL2 _ _ E2). unfold zero in SL2. lia.
        - intros Y. specialize (SL2 _ _ Y). unfold zero in SL2. lia. }
      assert (RT3 : reqT s3).
      { intros q y. unfold s3; ssimpl. rewrite aget_aput. destruct (beq q path) eqn:Eq; [|apply RT2].
        apply beq_eq in Eq. subst q. intros Y; inversion Y; subst y. apply (RT2 _ _ E2). }
      assert (HD3 : has_data s3 path) by (exists r3, data; split; [exact E3|exact D2]).
      assert (Hkr : forall x, In x (rev reqs) -> kidreqP path (nr_cb r) cl x).
      { intros x Hx. apply in_rev in Hx. destruct (Sp3 x Hx) as [[]|X]. exact X. }
      destruct (inv_schedule_allP path (nr_cb r) cl (rev reqs) s3 s4 I3 SL3 RT3 HD3 Hrn Hkr Esa)
        as (A & B & C & D & F & G).
      pose proof (schedule_all_creqsP _ _ _ Esa) as Ecr.
      split; [|split; [exact B|exact C]].
      eapply inv_closeP; [exact A|].
      apply (Lclose s4 r3 (G _ _ E3) D2 C2).
      intros cp cn Hin. pose proof (Kids _ _ Hin) as K.
      assert (AN : forall c h, availP s2 c h -> availP s4 c h).
      { intros c h A0. eapply availP_ss; [exact D|]. eapply availP_ext; eauto. }
      assert (AC : forall h, availc s2 h -> availc s4 h).
      { intros h A0. eapply availc_ssP; [exact D|]. eapply availc_extP; eauto. }
      assert (PN : forall ch, pend_node s2 path cp ch -> pend_node s4 path cp ch).
      { intros ch P. apply (proj1 (proj2 X23)) in P. destruct P as (rc & P1 & P2 & P3). exists rc. split; [apply G; exact P1|auto]. }
      assert (PC : forall h, pend_code s2 path h -> pend_code s4 path h).
      { intros h (c & P1 & P2). exists c. rewrite Ecr. auto. }
      destruct cn; simpl in K |- *; auto.
      + intros Hcb sroot chash Hda. destruct (K Hcb _ _ Hda) as [K1 K2]. split.
        * destruct K1 as [?|[?|?]]; auto.
        * destruct K2 as [?|[?|?]]; auto.
      + destruct K as [K|K]; [left; auto|].
        right. exists (mkNreq h None (Some path) 0 (nr_cb r)). split; [|split; reflexivity].
        apply F. apply -> in_rev. exact K.
  Qed.

  Lemma inv_remove_codeP s h c data f fe :
    invP None s -> slack s f -> aget h (creqs s) = Some c ->
    let s1 := mb_add_code s h data in
    let s2 := set_fetches (set_creqs s1 (adel h (creqs s1))) fe in
    invP None s2 /\ slack s2 (fun q => (f q + occ q (cr_parents c))%nat).
  Proof.
    intros I SL Hc s1 s2. pose proof I as [S0 ND NE NDL Z PA CP L C RT].
    assert (AN : forall x y, availP s x y -> availP s2 x y) by (intros x y A; exact A).
    assert (AC : forall x, availc s x -> availc s2 x).
    { intros x [A|A]; [left; exact A|right]. unfold s2, s1, mb_add_code; ssimpl.
      apply has_true in A. destruct A as [v A]. apply has_true. rewrite get_put. destruct (beq x h); eauto. }
    assert (AH : availc s2 h).
    { right. unfold s2, s1, mb_add_code; ssimpl. apply has_true. exists data. rewrite get_put, beq_refl. reflexivity. }
    split.
    - constructor; unfold s2, s1, mb_add_code; ssimpl; auto.
      + intros h' c' q Hin Hq. apply In_adel in Hin. destruct Hin as [Hin _]. eapply CP; eauto.
      + intros q Hq r b n cl E D1 D2 D3 cp cn Hin.
        eapply kid_okP_mono; [exact AN|exact AC| | |eapply (L q Hq); eauto].
        * intros ch P. right. exact P.
        * intros h' (c' & E1 & E2). destruct (beq h' h) eqn:Eq.
          -- apply beq_eq in Eq. subst h'. left. exact AH.
          -- right. exists c'. split; [|exact E2]. unfold s2, s1, mb_add_code; ssimpl. rewrite aget_adel, Eq. exact E1.
      + intros p h' cb b n cl R A. intros Th D Cl cp cn Hin.
        eapply kid_availP_mono; [exact AN|exact AC|]. eapply C; eauto.
    - intros q rq E. change (aget q (nreqs s) = Some rq) in E. specialize (SL q rq E).
      unfold s2, s1, mb_add_code; ssimpl. pose proof (cntc_adel_found q h (creqs s) c Hc). lia.
  Qed.

  Lemma inv_ccpP : forall parents s f,
    invP None s -> slack s (fun q => (f q + occ q parents)%nat) -> reqT s ->
    invP None (fst (commit_code_parents s parents)) /\ slack (fst (commit_code_parents s parents)) f /\
    reqT (fst (commit_code_parents s parents)).
  Proof.
    induction parents as [|pp rest IH]; intros s f I SL RT; cbn [commit_code_parents].
    - cbn [fst]. split; [exact I|split; [|exact RT]]. intros q rq E. specialize (SL q rq E). cbn [occ] in SL. lia.
    - assert (Weak : slack s f).
      { intros q rq E. specialize (SL q rq E). cbn beta in SL. lia. }
      destruct (aget pp (nreqs s)) as [rp|] eqn:Ep; [|cbn [fst]; auto].
      set (rp' := mkNreq (nr_hash rp) (nr_data rp) (nr_parent rp) (nr_deps rp - 1) (nr_cb rp)).
      set (s1 := set_nreqs s (aput pp rp' (nreqs s))).
      assert (I1 : invP None s1).
      { unfold s1. apply (inv_updP _ s pp rp rp'); [exact I|exact Ep|reflexivity|reflexivity|reflexivity|reflexivity|].
        intros Dn. pose proof (ip_z _ _ I _ _ Ep Dn). unfold rp'; cbn [nr_deps]. lia. }
      assert (SL1 : slack s1 (fun q => (f q + occ q rest)%nat)).
      { intros q rq. unfold s1; ssimpl. rewrite aget_aput.
        pose proof (cntn_aput_same q pp rp rp' (nreqs s) Ep eq_refl) as Le.
        destruct (beq q pp) eqn:Eq.
        - apply beq_eq in Eq. subst q. intros Y; inversion Y; subst rq. unfold rp' in *; cbn [nr_deps].
          specialize (SL _ _ Ep). cbn [occ] in SL. rewrite beq_refl in SL. lia.
        - intros Y. specialize (SL _ _ Y). cbn [occ] in SL. lia. }
      assert (RT1 : reqT s1).
      { intros q y. unfold s1; ssimpl. rewrite aget_aput. destruct (beq q pp) eqn:Eq; [|apply RT].
        apply beq_eq in Eq. subst q. intros Y; inversion Y; subst y. apply (RT _ _ Ep). }
      fold rp'. fold s1.
      destruct (Z.eqb (nr_deps rp - 1) 0) eqn:Ed; [|apply IH; assumption].
      apply Z.eqb_eq in Ed.
      assert (Hdp : exists dp, nr_data rp = Some dp).
      { destruct (nr_data rp) eqn:Dn; [eauto|]. pose proof (ip_z _ _ I _ _ Ep Dn). lia. }
      destruct Hdp as [dp Hdp].
      assert (E1 : aget pp (nreqs s1) = Some rp') by (unfold s1; ssimpl; rewrite aget_aput, beq_refl; reflexivity).
      destruct (inv_cnrP (cnr_fuel s1) s1 pp _ rp' dp I1 SL1 RT1 E1 Hdp Ed) as (A & B & C).
      destruct (commit_node_request (cnr_fuel s1) s1 pp) as [s2 rc]. cbn [fst] in A, B, C.
      destruct rc; try (cbn [fst]; split; [exact A|split; [|exact C]];
                        intros q rq E; specialize (B q rq E); cbn beta in B; lia).
      apply IH; assumption.
  Qed.

  Lemma inv_process_codeP s h data :
    invP None s -> slack s zero -> reqT s ->
    invP None (fst (process_code s h data)) /\ slack (fst (process_code s h data)) zero /\
    reqT (fst (process_code s h data)).
  Proof.
    intros I SL RT. unfold process_code.
    destruct (aget h (creqs s)) as [c|] eqn:Ec; [|auto].
    destruct (cr_data c); [auto|].
    destruct (inv_remove_codeP s h c data zero (fadd (Z.of_nat (length (cr_path c))) (-1) (fetches (mb_add_code s h data))) I SL Ec)
      as [I2 SL2].
    apply inv_ccpP; [exact I2|exact SL2|].
    intros q y E. apply RT. exact E.
  Qed.

  (* ---- Commit ---- *)
  Lemma commit_factsP s s' :
    invP None s -> soundP s -> commit s = Some s' ->
    mb_nodes s' = [] /\ mb_codes s' = [] /\ nreqs s' = nreqs s /\ creqs s' = creqs s /\ sc_path s' = true /\
    (forall c h, availP s c h -> availP s' c h) /\
    (forall h, availc s h -> availc s' h) /\
    (forall c h cb, RN c h cb -> availP s' c h -> availP s c h).
  Proof.
    intros I SO Ec. unfold commit in Ec. rewrite (ip_sc _ _ I) in Ec.
    destruct (apply_ops true (sc_db s) (rev (mb_nodes s))) as [d|] eqn:Ea; [|discriminate].
    inversion Ec; subst s'. clear Ec. ssimpl.
    assert (Hw : forall o i b h, In (OpWrite o i b h) (rev (mb_nodes s)) -> tnode_at o i h /\ T h = Some b /\ b <> []).
    { intros o i b h Hin. apply in_rev in Hin. pose proof (ip_ne _ _ I _ _ _ _ Hin) as Nb.
      destruct (sp_mb _ _ _ _ _ _ _ s SO _ _ _ _ Hin) as [X|[X Y]]; [contradiction|auto]. }
    assert (Hloc : forall o i h o' i' h', tnode_at o i h -> tnode_at o' i' h' -> node_key o i = node_key o' i' ->
                   o = o' /\ i = i' /\ h = h').
    { intros o i h o' i' h' (q & cb & R & Rp) (q' & cb' & R' & Rp') Ek.
      destruct (node_key_inj _ _ _ _ (resolve_owner_len _ _ _ Rp) (resolve_owner_len _ _ _ Rp') Ek) as [-> ->].
      destruct (LOC _ _ _ _ _ _ _ _ R R' Rp Rp') as (_ & -> & _). auto. }
    destruct (apply_ops_pathP _ _ _ Ea) as (A & B & C).
    { intros o q Hin. apply in_rev in Hin. exact (ip_nodel _ _ I o q Hin). }
    { intros o i b h o' i' b' h' H1 H2 Ek. destruct (Hw _ _ _ _ H1) as (T1 & V1 & _). destruct (Hw _ _ _ _ H2) as (T2 & V2 & _).
      destruct (Hloc _ _ _ _ _ _ T1 T2 Ek) as (_ & _ & ->). congruence. }
    { intros k v o i b h Ek Hin ->. destruct (Hw _ _ _ _ Hin) as (T1 & V1 & _).
      destruct T1 as (q & cb & R & Rp).
      destruct (dbt s o i v SO (resolve_owner_len _ _ _ Rp) Ek) as (h' & T2 & V2).
      destruct (Hloc _ _ _ _ _ _ (ex_intro _ q (ex_intro _ cb (conj R Rp))) T2 eq_refl) as (_ & _ & ->). congruence. }
    assert (NK : forall o i, get (node_key o i) (write_codes d (mb_codes s)) = get (node_key o i) d).
    { intros o i. destruct (get (node_key o i) d) as [v|] eqn:Eg.
      - apply (proj2 (write_codes_getP (mb_codes s) d (node_key o i)) v Eg). intros c X. exact (node_key_not_code _ _ _ X).
      - destruct (proj1 (write_codes_getP (mb_codes s) d (node_key o i))) as [X|(c & v & _ & X)]; [congruence|].
        exfalso. exact (node_key_not_code _ _ _ X). }
    do 4 (split; [reflexivity|]). split; [exact (ip_sc _ _ I)|].
    split; [|split].
    - intros c h (o & i & Rp & [(b & Eg & Hb & Nb)|(b & Hin & Nb)]); exists o, i; (split; [exact Rp|]); left; exists b.
      + split; [rewrite NK; apply A; exact Eg|auto].
      + assert (Hin' : In (OpWrite o i b h) (rev (mb_nodes s))) by (apply -> in_rev; exact Hin).
        split; [rewrite NK; eapply B; eauto|]. destruct (Hw _ _ _ _ Hin') as (_ & V & _). split; [apply TK; exact V|exact Nb].
    - intros h [X|X]; left.
      + apply (proj1 (write_codes_hasP (mb_codes s) d (code_key h))). apply has_true in X. destruct X as [v X]. apply has_true. exists v. apply A. exact X.
      + apply (proj2 (write_codes_hasP (mb_codes s) d (code_key h))). apply has_true in X. destruct X as [v X].
        exists h, v. split; [apply get_In; exact X|reflexivity].
    - intros c h cb R (o & i & Rp & [(b & Eg & Hb & Nb)|(b & [] & _)]). exists o, i. split; [exact Rp|].
      rewrite NK in Eg. destruct (C _ _ Eg) as [X|(o' & i' & h' & Hin & Ek)].
      + left. exists b. auto.
      + right. destruct (Hw _ _ _ _ Hin) as (T1 & V1 & _).
        assert (T0 : tnode_at o i h) by (exists c, cb; auto).
        destruct (Hloc _ _ _ _ _ _ T0 T1 Ek) as (-> & -> & ->).
        exists b. split; [apply in_rev; exact Hin|exact Nb].
  Qed.

  Lemma inv_commitP s s' :
    invP None s -> slack s zero -> reqT s -> soundP s -> commit s = Some s' ->
    invP None s' /\ slack s' zero /\ reqT s'.
  Proof.
    intros I SL RT SO Ec.
    destruct (commit_factsP s s' I SO Ec) as (M1 & M2 & N1 & N2 & S1 & AN & AC & ANi).
    pose proof I as [S0 ND NE NDL Z PA CP L C RTT].
    split; [|split].
    - constructor.
      + exact S1.
      + intros p r b. rewrite N1. apply ND.
      + intros o p b h. rewrite M1. intros [].
      + intros o p. rewrite M1. intros [].
      + intros p r. rewrite N1. apply Z.
      + intros k rc q. rewrite N1. intros Hin Hq. destruct (PA _ _ _ Hin Hq) as (rq & d & E1 & E2). exists rq, d. rewrite N1. auto.
      + intros h c q. rewrite N2. intros Hin Hq. destruct (CP _ _ _ Hin Hq) as (rq & d & E1 & E2). exists rq, d. rewrite N1. auto.
      + intros q Hq r b n cl E D1 D2 D3 cp cn Hin. rewrite N1 in E.
        eapply kid_okP_mono; [exact AN|exact AC| | |eapply (L q Hq); eauto].
        * intros ch (rc & P1 & P2). right. exists rc. rewrite N1. auto.
        * intros h (c & P1 & P2). right. exists c. rewrite N2. auto.
      + intros p h cb b n cl R A Th D Cl cp cn Hin.
        eapply kid_availP_mono; [exact AN|exact AC|]. eapply C; eauto.
      + destruct RTT as [?|[A|(r & E & Hh)]]; auto. right. right. exists r. rewrite N1. auto.
    - intros q rq E. rewrite N1 in E. rewrite N1, N2. apply SL. exact E.
    - intros q rq E. rewrite N1 in E. apply RT. exact E.
  Qed.

  (* ---- all histories ---- *)
  Definition InvPA (s : sync) : Prop := invP None s /\ slack s zero /\ reqT s /\ soundP s.

  Lemma invP_same6 e s s' : same6 s s' -> invP e s -> invP e s'.
  Proof.
    intros (E1 & E2 & E3 & E4 & E5 & E6).
    destruct s, s'; simpl in *; subst.
    intros [S0 ND NE NDL Z PA CP L C RT].
    unfold LqP, kid_okP, kid_availP, availP, loc_has, availc, pend_node, pend_code, has_data in *; simpl in *.
    constructor; unfold LqP, kid_okP, kid_availP, availP, loc_has, availc, pend_node, pend_code, has_data; simpl; assumption.
  Qed.

  Lemma InvPA_step s o : op_wf4 H T CD s o -> InvPA s -> InvPA (step H s o).
  Proof.
    intros W (I & SL & RT & SO).
    assert (SO' : soundP (step H s o)).
    { apply (soundP_step H T CD root cb0 db0 true); [|exact SO].
      destruct o; simpl in *; auto. destruct W as [W _]. exact W. }
    destruct o as [k|p h b|h b|]; simpl in *.
    - pose proof (missing_go_same max_fetches_per_depth (queue s) k 0 s [] []) as Sm. unfold missing, missing_b in *.
      split; [eapply invP_same6; eauto|split; [eapply slack_same; eauto|split; [eapply reqT_same; eauto|exact SO']]].
    - destruct W as (W1 & W2). unfold deliver_node in *.
      destruct (beq (H b) h) eqn:E; [|split; [exact I|split; [exact SL|split; [exact RT|exact SO]]]].
      apply beq_eq in E.
      destruct (inv_process_nodeP s p b I SL RT (DBT_of s SO)) as (A & B & C).
      + intros r Hr. destruct (W1 r Hr) as [-> Ht]. apply Ht. exact E.
      + apply W2. exact E.
      + split; [exact A|split; [exact B|split; [exact C|exact SO']]].
    - unfold deliver_code in *. destruct (beq (H b) h) eqn:E; [|split; [exact I|split; [exact SL|split; [exact RT|exact SO]]]].
      destruct (inv_process_codeP s h b I SL RT) as (A & B & C).
      split; [exact A|split; [exact B|split; [exact C|exact SO']]].
    - destruct (commit s) as [s'|] eqn:E; [|split; [exact I|split; [exact SL|split; [exact RT|exact SO]]]].
      destruct (inv_commitP s s' I SL RT SO E) as (A & B & C).
      split; [exact A|split; [exact B|split; [exact C|exact SO']]].
  Qed.

  Lemma InvPA_run : forall ops s, run_wf4 H T CD s ops -> InvPA s -> InvPA (run H s ops).
  Proof.
    induction ops as [|o r IH]; intros s W I; simpl; [exact I|].
    destruct W as [W1 W2]. apply IH; [exact W2|]. apply InvPA_step; assumption.
  Qed.

  (* the destination is closed under children where it already holds target nodes *)
  Definition locdb0 (c h : list N) : Prop :=
    exists o i b, resolve_path c = Some (o, i) /\ get (node_key o i) db0 = Some b /\ H b = h /\ b <> [].
  Definition closedP : Prop :=
    forall p h cb b n cl cp cn, RN p h cb -> locdb0 p h -> T h = Some b ->
      decode_node b = DOk n -> child_list p n = Some cl -> In (cp, cn) cl ->
      match cn with
      | NHash ch => locdb0 cp ch
      | NValue v => cb = CbAccount -> forall sroot chash, dec_account v = Some (sroot, chash) ->
          (sroot = empty_root H \/ locdb0 cp sroot) /\
          (bytes_to_hash chash = empty_code H \/ has (code_key (bytes_to_hash chash)) db0 = true)
      | _ => True
      end.

  Lemma InvPA_new_sync : closedP -> InvPA (unsum (new_sync H true db0 root cb0)).
  Proof.
    intros C0.
    assert (G : forall s, sc_path s = true -> sc_db s = db0 -> mb_nodes s = [] -> mb_codes s = [] -> creqs s = [] ->
      (forall k r, In (k, r) (nreqs s) ->
         nr_data r = None /\ nr_parent r = None /\ nr_deps r = 0%Z /\ RN k (nr_hash r) (nr_cb r)) ->
      (root = empty_root H \/ availP s [] root \/ exists r, aget [] (nreqs s) = Some r /\ nr_hash r = root) ->
      invP None s /\ slack s zero /\ reqT s).
    { intros s S0 E1 E2 E4 E3 Hreq RT.
      assert (Hr : forall k r, aget k (nreqs s) = Some r ->
         nr_data r = None /\ nr_parent r = None /\ nr_deps r = 0%Z /\ RN k (nr_hash r) (nr_cb r)).
      { intros k r E. apply Hreq. apply aget_In. exact E. }
      assert (AV : forall c h, availP s c h <-> locdb0 c h).
      { intros c h. unfold availP, loc_has, locdb0. rewrite E1, E2. split.
        - intros (o & i & Rp & [(b & X)|(b & [] & _)]). exists o, i, b. tauto.
        - intros (o & i & b & Rp & X). exists o, i. split; [exact Rp|left; exists b; exact X]. }
      split; [|split].
      - constructor; auto.
        + intros p r b E D. destruct (Hr _ _ E) as (X & _). congruence.
        + intros o p b h Hin. rewrite E2 in Hin. destruct Hin.
        + intros o p Hin. rewrite E2 in Hin. destruct Hin.
        + intros p r E _. destruct (Hr _ _ E) as (_ & _ & X & _). lia.
        + intros k rc q Hin Hq. destruct (Hreq _ _ Hin) as (_ & X & _). congruence.
        + intros h c q Hin. rewrite E3 in Hin. destruct Hin.
        + intros q _ r b n cl E D. destruct (Hr _ _ E) as (X & _). congruence.
        + intros p h cb b n cl R A Th D Cl cp cn Hin.
          pose proof (C0 p h cb b n cl cp cn R (proj1 (AV _ _) A) Th D Cl Hin) as K.
          destruct cn; simpl; auto.
          * intros Hcb sroot chash Hd. destruct (K Hcb _ _ Hd) as [K1 K2]. split.
            -- destruct K1 as [?|X]; [auto|]. right. apply AV. exact X.
            -- destruct K2 as [?|X]; [auto|]. right. left. rewrite E1. exact X.
          * apply AV. exact K.
      - intros q rq E. destruct (Hr _ _ E) as (_ & _ & X & _). rewrite X, E3.
        rewrite cntn_zero_of; [simpl; unfold zero; lia|].
        intros k rc Hin. destruct (Hreq _ _ Hin) as (_ & Y & _). congruence.
      - intros q rq E. destruct (Hr _ _ E) as (X & _ & _ & R). split; [exact R|]. intros b Y. congruence. }
    assert (Main : invP None (unsum (new_sync H true db0 root cb0)) /\ slack (unsum (new_sync H true db0 root cb0)) zero /\
                   reqT (unsum (new_sync H true db0 root cb0))).
    { unfold new_sync, add_sub_trie.
      destruct (beq root (empty_root H)) eqn:Er;
        [apply beq_eq in Er; apply G; [reflexivity|reflexivity|reflexivity|reflexivity|reflexivity|intros k r []|left; exact Er]|].
      assert (Hne : root <> empty_root H) by (intros X; rewrite X, beq_refl in Er; discriminate).
      change (resolve_path []) with (Some (zero32, @nil N)). cbv iota beta.
      set (e0 := mkSync true db0 [] [] 0 [] [] [] []).
      assert (DB0 : DBT e0) by (intros o i v _ E; apply D0T; exact E).
      destruct (has_node_path e0 [] zero32 [] root cb0 eq_refl DB0 eq_refl (RN_root _ _ _ _ Hne)) as [Hinc Hex].
      destruct (has_node H e0 zero32 [] root) as [ex inc]. cbn [fst snd] in Hinc, Hex. subst inc.
      destruct ex; [apply G; [reflexivity|reflexivity|reflexivity|reflexivity|reflexivity|intros k r []|right; left; apply Hex; reflexivity]|].
      cbv iota. cbn [nreqs e0 aget]. rewrite beq_refl. cbn [negb unsum]. unfold schedule_node.
      apply G; ssimpl; [reflexivity|reflexivity|reflexivity|reflexivity|reflexivity| |].
      - intros k r [X|[]]. inversion X; subst. simpl. repeat split; auto. apply RN_root. exact Hne.
      - right. right. eexists. split; reflexivity. }
    destruct Main as (A & B & C). split; [exact A|split; [exact B|split; [exact C|]]].
    apply (soundP_new_sync H T CD root cb0 db0 true).
  Qed.

  Lemma all_availPA s : invP None s -> nreqs s = [] ->
    (forall p h cb, RN p h cb -> availP s p h) /\ (forall c, RC c -> availc s c).
  Proof.
    intros I En.
    assert (A : forall p h cb, RN p h cb -> availP s p h).
    { intros p h cb R. induction R.
      - destruct (ip_Rt _ _ I) as [X|[X|(r & E & _)]]; [contradiction|exact X|].
        rewrite En in E. discriminate.
      - exact (ip_C _ _ I _ _ _ _ _ _ R IHR H0 H1 H2 _ _ H3).
      - pose proof (ip_C _ _ I _ _ _ _ _ _ R IHR H0 H1 H2 _ _ H3) as K. simpl in K.
        destruct (K eq_refl _ _ H4) as [[X|X] _]; [contradiction|exact X]. }
    split; [exact A|]. intros c R. destruct R.
    pose proof (ip_C _ _ I _ _ _ _ _ _ H0 (A _ _ _ H0) H1 H2 H3 _ _ H4) as K. simpl in K.
    destruct (K eq_refl _ _ H5) as [_ [X|X]]; [contradiction|exact X].
  Qed.

  (* COMPLETENESS, PATH scheme: when nothing is pending, after Commit every target node is
     stored at its own (owner, path) with the serving side's bytes, every target code under
     its code key, and every entry of the store is initial content, a target node at its
     own key, or a target code *)
  Theorem sync_complete_path ops s' :
    closedP ->
    let s0 := unsum (new_sync H true db0 root cb0) in
    run_wf4 H T CD s0 ops ->
    pending (run H s0 ops) = O -> commit (run H s0 ops) = Some s' ->
    (forall p h cb, RN p h cb ->
       exists o i b, resolve_path p = Some (o, i) /\ get (node_key o i) (sc_db s') = Some b /\ T h = Some b) /\
    (forall c, RC c -> has (code_key c) (sc_db s') = true) /\
    (forall k v, get k (sc_db s') = Some v -> entry_ok H T CD root cb0 db0 true k v) /\
    (forall o p, ~ In (OpDel o p) (mb_nodes (run H s0 ops))).
  Proof.
    intros C0 s0 W Hp Ec.
    destruct (InvPA_run ops s0 W (InvPA_new_sync C0)) as (I & SL & RT & SO).
    assert (En : nreqs (run H s0 ops) = []).
    { unfold pending in Hp. destruct (nreqs (run H s0 ops)); [reflexivity|simpl in Hp; discriminate]. }
    destruct (all_availPA _ I En) as [AN AC].
    destruct (commit_factsP _ _ I SO Ec) as (M1 & M2 & _ & _ & _ & ANc & ACc & _).
    pose proof (soundP_commit H T CD root cb0 db0 true _ _ SO Ec) as SO'.
    split; [|split; [|split]].
    - intros p h cb R. destruct (ANc _ _ (AN p h cb R)) as (o & i & Rp & [(b & Eg & Hb & Nb)|(b & X & _)]);
        [|rewrite M1 in X; destruct X].
      exists o, i, b. split; [exact Rp|split; [exact Eg|]].
      destruct (dbt s' o i b SO' (resolve_owner_len _ _ _ Rp) Eg) as (h' & (q' & cb' & R' & Rp') & Tv).
      destruct (LOC _ _ _ _ _ _ _ _ R R' Rp Rp') as (_ & <- & _). exact Tv.
    - intros c R. destruct (ACc _ (AC c R)) as [X|X]; [exact X|rewrite M2 in X; discriminate].
    - exact (sp_db _ _ _ _ _ _ _ s' SO').
    - exact (ip_nodel _ _ I).
  Qed.
End PathComplete.

(* ---------- a concrete instance of the hypotheses of sync_complete_path ---------- *)
From GV Require Import Trie.SyncQueue.

Definition ex5_s0 : sync := unsum (new_sync toyH true [] q_root CbNone).
Definition ex5_check : bool :=
  run_wf4b ex5_s0 ex4_ops && Nat.eqb (pending (run toyH ex5_s0 ex4_ops)) 0
  && match commit (run toyH ex5_s0 ex4_ops) with Some s' => Nat.eqb (length (sc_db s')) 4 | None => false end.

Lemma ex5_RN_enum : forall p h cb, RN toyH ex_T q_root CbNone p h cb ->
  cb = CbNone /\ In (p, h) [([], q_root); ([1], toyH (q_leaf 1)); ([2], toyH (q_leaf 2)); ([5], toyH (q_leaf 3))].
Proof.
  intros p h cb R. induction R.
  - split; [reflexivity|left; reflexivity].
  - destruct IHR as [-> Hin]. split; [reflexivity|].
    simpl in Hin. destruct Hin as [X|[X|[X|[X|[]]]]]; inversion X; subst p h; clear X;
      vm_compute in H; inversion H; subst b; vm_compute in H0; inversion H0; subst n;
      simpl in H1; inversion H1; subst cl; simpl in H2;
      repeat (destruct H2 as [H2|H2]; [inversion H2; subst; simpl; auto 6|]); try contradiction.
  - destruct IHR as [X _]. discriminate.
Qed.

Lemma ex5_hyps :
  (forall q h cb q' h' cb' o i, RN toyH ex_T q_root CbNone q h cb -> RN toyH ex_T q_root CbNone q' h' cb' ->
     resolve_path q = Some (o, i) -> resolve_path q' = Some (o, i) -> q = q' /\ h = h' /\ cb = cb') /\
  (forall o p h, dangling_at toyH ex_T q_root CbNone o p -> ~ tnode_at toyH ex_T q_root CbNone o p h) /\
  (forall h b, ex_T h = Some b -> toyH b = h) /\
  (forall p h cb, RN toyH ex_T q_root CbNone p h cb -> h <> toyH []) /\
  (forall p h cb, RN toyH ex_T q_root CbNone p h cb -> h <> zero32) /\
  (forall o i v, get (node_key o i) [] = Some v -> exists h, tnode_at toyH ex_T q_root CbNone o i h /\ ex_T h = Some v) /\
  closedP toyH ex_T q_root CbNone [] /\
  run_wf4 toyH ex_T ex_CD ex5_s0 ex4_ops /\
  pending (run toyH ex5_s0 ex4_ops) = O /\
  (exists s', commit (run toyH ex5_s0 ex4_ops) = Some s' /\ length (sc_db s') = 4%nat).
Proof.
  assert (Ck : ex5_check = true) by (vm_compute; reflexivity).
  unfold ex5_check in Ck. apply andb_prop in Ck. destruct Ck as [Ck C3]. apply andb_prop in Ck. destruct Ck as [C1 C2].
  assert (Fun : forall p h h', In (p, h) [([], q_root); ([1], toyH (q_leaf 1)); ([2], toyH (q_leaf 2)); ([5], toyH (q_leaf 3))] ->
                In (p, h') [([], q_root); ([1], toyH (q_leaf 1)); ([2], toyH (q_leaf 2)); ([5], toyH (q_leaf 3))] -> h = h').
  { intros p h h' A B. simpl in A, B.
    destruct A as [A|[A|[A|[A|[]]]]]; inversion A; subst; destruct B as [B|[B|[B|[B|[]]]]]; inversion B; subst; reflexivity. }
  assert (Res : forall p h, In (p, h) [([], q_root); ([1], toyH (q_leaf 1)); ([2], toyH (q_leaf 2)); ([5], toyH (q_leaf 3))] ->
                resolve_path p = Some (zero32, p)).
  { intros p h A. simpl in A. destruct A as [A|[A|[A|[A|[]]]]]; inversion A; subst; reflexivity. }
  split; [|split; [|split; [|split; [|split; [|split; [|split; [|split; [|split]]]]]]]].
  - intros q h cb q' h' cb' o i R1 R2 E1 E2.
    destruct (ex5_RN_enum _ _ _ R1) as [-> I1]. destruct (ex5_RN_enum _ _ _ R2) as [-> I2].
    rewrite (Res _ _ I1) in E1. rewrite (Res _ _ I2) in E2. inversion E1; inversion E2; subst.
    split; [reflexivity|split; [eapply Fun; eauto|reflexivity]].
  - intros o p h (q & h0 & cb & b & k & ch & inner & i & R & Th & Dn & _) _.
    destruct (ex5_RN_enum _ _ _ R) as [_ I1]. simpl in I1.
    destruct I1 as [X|[X|[X|[X|[]]]]]; inversion X; subst; vm_compute in Th; inversion Th; subst b;
      vm_compute in Dn; discriminate Dn.
  - intros h b E. unfold ex_T in E. apply find_some in E. destruct E as [_ E]. apply beq_eq in E. exact E.
  - intros p h cb R E. destruct (ex5_RN_enum _ _ _ R) as [_ I1]. subst h. simpl in I1.
    destruct I1 as [X|[X|[X|[X|[]]]]]; inversion X as [[X1 X2]]; vm_compute in X2; discriminate X2.
  - intros p h cb R E. destruct (ex5_RN_enum _ _ _ R) as [_ I1]. subst h. simpl in I1.
    destruct I1 as [X|[X|[X|[X|[]]]]]; inversion X as [[X1 X2]]; vm_compute in X2; discriminate X2.
  - intros o i v E. discriminate E.
  - intros p h cb b n cl cp cn R (o & i & b0 & _ & E & _). discriminate E.
  - apply run_wf4b_sound. exact C1.
  - apply Nat.eqb_eq. exact C2.
  - destruct (commit (run toyH ex5_s0 ex4_ops)) as [s'|]; [|discriminate]. exists s'. split; [reflexivity|].
    apply Nat.eqb_eq. exact C3.
Qed.
