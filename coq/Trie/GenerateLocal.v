(* Trie/GenerateLocal.v — a partition reads only its own slice (C11): the result
   of generate_partition p is a function of the accounts whose first nibble is p
   and of the storage entries whose account part has first nibble p.  Hence it
   is the same on every database that differs from the initial one by writes of
   OTHER partitions — which of their writes have already reached the database
   when partition p's iterators are (re)opened cannot matter. *)
From GV Require Import Lib.Tactics Lib.Bytes Rlp.Codec Trie.Hex Trie.HexProofs Trie.Node Trie.Ops Trie.Hash Trie.OpsProofs Trie.Canon Trie.Stack Trie.StackProofs Trie.Commit Trie.CommitProofs Trie.CommitTracer Trie.Generate Trie.GenerateProofs Trie.GenerateWalk Trie.GenerateWalk2 Trie.GenerateWalk3 Trie.GenerateKeys Trie.GenerateSched Trie.GenerateRoot Trie.GenerateRoot2 Trie.GenerateFlat Trie.GenerateFlat2.
Local Open Scope N_scope.

(* the storage entries the walk can look at: up to the first one beyond the range end *)
Fixpoint trunc (p : N) (ss : amap (list N)) : amap (list N) :=
  match ss with
  | [] => []
  | (k, v) :: r => if bytes_gtb (firstn 32 k) (range_end p) then [] else (k, v) :: trunc p r
  end.

Section Local.
  Variable H : list N -> list N.

  Definition trunc_res (p : N) (x : gres (amap (list N) * stack * list wop * N)) :=
    match x with
    | GOk (rest, st', ws, nd) => GOk (trunc p rest, st', ws, nd)
    | GErr e => GErr e
    end.

  Lemma stor_loop_trunc sc p h : bytes_gtb h (range_end p) = false -> forall ss st,
    stor_loop H sc h (trunc p ss) st = trunc_res p (stor_loop H sc h ss st).
  Proof.
    intros Gh. induction ss as [|[k v] ss IH]; intros st; [reflexivity|].
    cbn [trunc]. destruct (bytes_gtb (firstn 32 k) (range_end p)) eqn:G.
    - cbn [stor_loop].
      assert (C : bytes_cmp (firstn 32 k) h = Gt).
      { unfold bytes_gtb in *. apply bcmp_gt_lt. apply (bcmp_le_lt h (range_end p) (firstn 32 k)).
        - destruct (bytes_cmp h (range_end p)); congruence.
        - apply bcmp_gt_lt. destruct (bytes_cmp (firstn 32 k) (range_end p)); congruence. }
      rewrite C. cbn [trunc_res trunc]. rewrite G. reflexivity.
    - cbn [stor_loop]. destruct (bytes_cmp (firstn 32 k) h).
      + destruct (st_update_e H st (skipn 32 k) v) as [[c|[st1 em]]|e]; try reflexivity.
        rewrite IH. destruct (stor_loop H sc h ss st1) as [[[[rest st'] ws] nd]|e]; reflexivity.
      + rewrite IH. destruct (stor_loop H sc h ss st) as [[[[rest st'] ws] nd]|e]; reflexivity.
      + cbn [trunc_res trunc]. rewrite G. reflexivity.
  Qed.

  Definition trunc_pacc (p : N) (x : gres pacc) : gres pacc :=
    match x with
    | GOk r => GOk (mkPacc (trunc p (p_stor r)) (p_trie r) (p_ws r) (p_em r) (p_scanned r) (p_updated r) (p_deleted r))
    | GErr e => GErr e
    end.

  Lemma acct_loop_trunc sc p : forall accs ss pt,
    acct_loop H sc p accs (trunc p ss) pt = trunc_pacc p (acct_loop H sc p accs ss pt).
  Proof.
    induction accs as [|[h slim] accs IH]; intros ss pt; [reflexivity|]. cbn [acct_loop].
    destruct (bytes_gtb h (range_end p)) eqn:G; [reflexivity|].
    destruct (full_account H slim) as [acc|]; [|reflexivity].
    rewrite (stor_loop_trunc sc p h G).
    destruct (stor_loop H sc h ss stack_new) as [[[[ss1 sst] ws1] nd]|e]; [|reflexivity]. cbn [trunc_res].
    destruct (st_root_e H sst) as [[computed em]|e]; [|reflexivity]. cbv zeta.
    destruct (pst_update_e H p pt h _) as [[c|[pt' em']]|e]; try reflexivity.
    rewrite IH. destruct (acct_loop H sc p accs ss1 pt') as [r'|e]; reflexivity.
  Qed.

  Lemma tail_trunc p : forall ss, tail_loop p (trunc p ss) = tail_loop p ss.
  Proof.
    induction ss as [|[k v] ss IH]; [reflexivity|]. cbn [trunc tail_loop].
    destruct (bytes_gtb (firstn 32 k) (range_end p)) eqn:G; [reflexivity|]. cbn [tail_loop]. rewrite G, IH. reflexivity.
  Qed.

  Lemma acct_loop_take sc p : forall accs ss pt,
    acct_loop H sc p (take_le p accs) ss pt = acct_loop H sc p accs ss pt.
  Proof.
    induction accs as [|[h slim] accs IH]; intros ss pt; [reflexivity|]. cbn [take_le acct_loop].
    destruct (bytes_gtb h (range_end p)) eqn:G; [reflexivity|]. cbn [acct_loop]. rewrite G.
    destruct (full_account H slim) as [acc|]; [|reflexivity].
    destruct (stor_loop H sc h ss stack_new) as [[[[ss1 sst] ws1] nd]|e]; [|reflexivity].
    destruct (st_root_e H sst) as [[computed em]|e]; [|reflexivity]. cbv zeta.
    destruct (pst_update_e H p pt h _) as [[c|[pt' em']]|e]; try reflexivity.
    rewrite IH. reflexivity.
  Qed.

  (* generate_partition as a function of the two slices *)
  Definition gp_core (sc : scheme) (p : N) (A S : amap (list N)) : gres pres :=
    match acct_loop H sc p A S stack_new with
    | GErr e => GErr e
    | GOk r =>
        let '(wt, nt) := tail_loop p (p_stor r) in
        match st_root_e H (p_trie r) with
        | TErr e => GErr (GPanic e)
        | TOk (_, em) =>
            GOk (mkPres (find_root (prefix_em p (p_em r ++ em)))
                   (p_ws r ++ wt ++ node_writes H sc zero_hash (prefix_em p em))
                   (p_scanned r) (p_updated r) (p_deleted r + nt))
        end
    end.

  Lemma gp_local sc p db :
    generate_partition H sc p db =
    gp_core sc p (take_le p (seek (range_start p) (g_accts db))) (trunc p (seek (range_start p) (g_stor db))).
  Proof.
    unfold generate_partition, gp_core. rewrite acct_loop_take, acct_loop_trunc.
    destruct (acct_loop H sc p _ _ stack_new) as [r|e]; [|reflexivity]. cbn [trunc_pacc p_stor p_trie p_ws p_em p_scanned p_updated p_deleted].
    rewrite tail_trunc. reflexivity.
  Qed.
End Local.
