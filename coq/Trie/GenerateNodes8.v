(* Trie/GenerateNodes8.v — the trie-node writes of a successful partition against
   the whole flat state (C11, gen_nodes_path). *)
From Coq Require Import Permutation.
From GV Require Import Lib.Tactics Lib.Bytes Rlp.Codec Trie.Hex Trie.HexProofs Trie.HexInPlace Trie.Node Trie.Ops Trie.Hash Trie.OpsProofs Trie.Canon Trie.Stack Trie.StackProofs Trie.Commit Trie.CommitProofs Trie.CommitTracer Trie.Generate Trie.GenerateProofs Trie.GenerateWalk Trie.GenerateWalk2 Trie.GenerateWalk3 Trie.GenerateKeys Trie.GenerateAssemble2 Trie.GenerateRoot Trie.GenerateNodes Trie.GenerateNodes2 Trie.GenerateNodes3 Trie.GenerateNodes4 Trie.GenerateNodes5 Trie.GenerateNodes6 Trie.GenerateNodes7.
Local Open Scope N_scope.

Section Nodes8.
  Variable H : list N -> list N.
  Hypothesis H_len : forall x, length (H x) = 32%nat.

  Lemma stor_trie_whole p db h : wf_db db -> key32 h -> nib0 h = p ->
    stor_trie (seek (range_start p) (g_stor db)) h = stor_trie (g_stor db) h.
  Proof. intros Hwf Hk Hn. unfold stor_trie, byte_slots. rewrite (filter_eq_seek H H_len p h db Hwf Hk Hn). reflexivity. Qed.

  Theorem partition_nodes sc p db r t : wf_db db -> generate_partition H sc p db = GOk r -> pspec H db p r t ->
    Permutation (nws (r_ws r))
      (flat_map (snodes H sc (g_stor db)) (part p db) ++ nk H sc zero_hash (prefix_em p (nodes_of H [] t))).
  Proof.
    intros Hwf E (Hct & Lt & _). unfold generate_partition in E.
    set (accs := seek (range_start p) (g_accts db)) in *.
    set (ss := seek (range_start p) (g_stor db)) in *.
    destruct (acct_loop H sc p accs ss stack_new) as [r0|e] eqn:Ea; [|discriminate].
    destruct (tail_loop p (p_stor r0)) as [wt nt] eqn:Et.
    destruct (st_root_e H (p_trie r0)) as [[hh em]|e] eqn:Er; [|discriminate].
    inversion E; subst r. clear E. cbn [r_ws].
    pose proof Hwf as [Hsa Hss Hka Hks].
    destruct (acct_loop_nodes H H_len sc p accs ss stack_new NEmpty r0 [])
      as (t' & EA & Hr' & Hc' & L' & HE' & _ & PN);
      [apply sorted_seek; exact Hsa|apply Forall_seek; exact Hka|apply sorted_ndsa, sorted_seek; exact Hss
      |apply Forall_seek; exact Hks|apply sroot_new|left; reflexivity|apply Permutation_refl|exact Ea|].
    assert (Htk : take_le p accs = part p db) by (apply part_accs; exact Hwf).
    assert (Hfed : fed H p accs ss = pleaves H db p).
    { unfold fed, pleaves. rewrite Htk. apply map_ext_in. intros kv Hin. f_equal.
      destruct (part_key p db kv Hwf Hin) as (Hk & Hn & _). apply (leaf_whole H H_len); assumption. }
    assert (Ett : t' = t).
    { apply canon_unique; [exact Hc'|exact Hct|]. intros k _. rewrite L', Lt, Hfed. apply apply_ops_ext. intros k'. apply lk_empty. }
    subst t'.
    pose proof (root_emits H H_len (p_trie r0) t 63 ([] ++ EA) hh em Hr' HE' Er) as PR. cbn [app] in PR.
    assert (Ewt : nws wt = []) by (replace wt with (fst (tail_loop p (p_stor r0))) by (rewrite Et; reflexivity); apply nws_tail).
    rewrite !nws_app, Ewt, nws_nodes. cbn [app].
    assert (HF : flat_map (snodes H sc ss) (take_le p accs) = flat_map (snodes H sc (g_stor db)) (part p db)).
    { rewrite Htk, !flat_map_concat_map. f_equal. apply map_ext_in. intros kv Hkv. unfold snodes.
      destruct (part_key p db kv Hwf Hkv) as (Hk & Hn & _). unfold ss. rewrite stor_trie_whole; [reflexivity|assumption..]. }
    rewrite HF in PN.
    eapply Permutation_trans; [apply Permutation_app_tail; exact PN|]. rewrite <- app_assoc. apply Permutation_app_head.
    rewrite <- nk_app. unfold nk. apply Permutation_map.
    assert (Epre : prefix_em p EA ++ prefix_em p em = prefix_em p (EA ++ em)) by (unfold prefix_em; symmetry; apply map_app).
    rewrite Epre. unfold prefix_em. apply Permutation_map. exact PR.
  Qed.
End Nodes8.
