(* Trie/Sync.v — the trie synchronisation scheduler (/repo/trie/sync.go), the
   account-leaf callback of state sync (/repo/core/state/sync.go NewStateSync with
   onLeaf = nil) and the delivery layer that hash-checks responses before they
   reach the scheduler (/repo/eth/protocols/snap/sync.go OnTrieNodes,
   onHealByteCodes, processTrienodeHealResponse, processBytecodeHealResponse,
   commitHealer).  Executable model only; proofs are in Trie/SyncProofs.v.

   Representation choices (each is a transcription decision, not an idealisation):
   * Go pointers *nodeRequest (nodeRequest.parent, codeRequest.parents) are the
     PATH of the request: a request stays in s.nodeReqs under its path from
     scheduleNodeRequest until commitNodeRequest deletes it, and a parent cannot be
     committed before its children.  A dangling reference (cannot happen, proved
     under the invariant) is reported as [RInternal], never hidden.
   * the destination database is the byte-keyed store of Storage/KV.v with the real
     rawdb key layout (legacy: hash; "A"+path; "O"+owner+path; "c"+hash).
   * prque: a max-priority queue.  Ties between equal priorities are resolved by the
     heap layout AND by the completion order of the goroutines in Sync.children, so
     they are unspecified in Go; the model pops equal priorities first-in-first-out.
     No theorem depends on the order; the correspondence check only cuts the queue
     at priority-class boundaries ([missing_closed]).
   * the goroutines of Sync.children only read s.database and append deletions of
     pairwise different paths, so they are run in child order.
   * membatch.nodes is kept newest-first and reversed by [commit]. *)
From Coq Require Import ZArith.
From GV Require Import Lib.Bytes Rlp.Item Rlp.Raw Rlp.Codec Trie.Hex Trie.Node Trie.Hash Storage.KV.
Local Open Scope N_scope.

(* ---------- small maps ---------- *)
Definition amap (V : Type) := list (list N * V).

Fixpoint aget {V} (k : list N) (m : amap V) : option V :=
  match m with
  | [] => None
  | (k', v) :: r => if beq k k' then Some v else aget k r
  end.
Definition adel {V} (k : list N) (m : amap V) : amap V :=
  filter (fun kv => negb (beq k (fst kv))) m.
Definition aput {V} (k : list N) (v : V) (m : amap V) : amap V := (k, v) :: adel k m.

(* map[int]int with default 0 *)
Fixpoint fget (d : Z) (f : list (Z * Z)) : Z :=
  match f with
  | [] => 0%Z
  | (d', v) :: r => if Z.eqb d d' then v else fget d r
  end.
Definition fadd (d delta : Z) (f : list (Z * Z)) : list (Z * Z) :=
  (d, (fget d f + delta)%Z) :: filter (fun dv => negb (Z.eqb d (fst dv))) f.

(* ---------- types ---------- *)
Inductive cbkind : Type :=
| CbNone          (* nil LeafCallback (storage tries: onSlot = nil when onLeaf = nil) *)
| CbAccount.      (* state.NewStateSync's onAccount *)

(* trie.nodeRequest (path is the map key) *)
Record nreq : Type := mkNreq {
  nr_hash : list N;
  nr_data : option (list N);
  nr_parent : option (list N);
  nr_deps : Z;
  nr_cb : cbkind }.

(* trie.codeRequest (hash is the map key) *)
Record creq : Type := mkCreq {
  cr_path : list N;
  cr_data : option (list N);
  cr_parents : list (list N) }.

(* trie.nodeOp *)
Inductive nodeop : Type :=
| OpDel (owner path : list N)
| OpWrite (owner path blob hash : list N).

Inductive qitem : Type :=
| QNode (path : list N)      (* string(req.path) *)
| QCode (hash : list N).     (* common.Hash *)

(* trie.Sync with its syncMemBatch inlined *)
Record sync : Type := mkSync {
  sc_path : bool;                 (* scheme == rawdb.PathScheme *)
  sc_db : kv;                     (* database *)
  mb_nodes : list nodeop;         (* membatch.nodes, newest first *)
  mb_codes : kv;                  (* membatch.codes *)
  mb_size : N;                    (* membatch.size *)
  nreqs : amap nreq;              (* nodeReqs *)
  creqs : amap creq;              (* codeReqs *)
  queue : list (Z * qitem);       (* queue, highest priority first *)
  fetches : list (Z * Z) }.       (* fetches *)

Definition set_db (s : sync) (d : kv) : sync :=
  mkSync (sc_path s) d (mb_nodes s) (mb_codes s) (mb_size s) (nreqs s) (creqs s) (queue s) (fetches s).
Definition set_mb (s : sync) (n : list nodeop) (c : kv) (z : N) : sync :=
  mkSync (sc_path s) (sc_db s) n c z (nreqs s) (creqs s) (queue s) (fetches s).
Definition set_nreqs (s : sync) (m : amap nreq) : sync :=
  mkSync (sc_path s) (sc_db s) (mb_nodes s) (mb_codes s) (mb_size s) m (creqs s) (queue s) (fetches s).
Definition set_creqs (s : sync) (m : amap creq) : sync :=
  mkSync (sc_path s) (sc_db s) (mb_nodes s) (mb_codes s) (mb_size s) (nreqs s) m (queue s) (fetches s).
Definition set_queue (s : sync) (q : list (Z * qitem)) : sync :=
  mkSync (sc_path s) (sc_db s) (mb_nodes s) (mb_codes s) (mb_size s) (nreqs s) (creqs s) q (fetches s).
Definition set_fetches (s : sync) (f : list (Z * Z)) : sync :=
  mkSync (sc_path s) (sc_db s) (mb_nodes s) (mb_codes s) (mb_size s) (nreqs s) (creqs s) (queue s) f.

(* result classes of ProcessNode / ProcessCode and of the delivery layer *)
Inductive rclass : Type :=
| ROk
| RNotRequested        (* trie.ErrNotRequested *)
| RAlreadyProcessed    (* trie.ErrAlreadyProcessed *)
| RDecode              (* decodeNode failed *)
| RCallback            (* the leaf callback returned an error (account RLP) *)
| RPanic               (* the Go code panics (hexToKeybytes on an odd path, ancestor not found, unknown node) *)
| RInternal            (* model only: dangling parent reference; proved unreachable under the invariant *)
| RRejected.           (* delivery layer: Keccak(blob) differs from the requested hash *)

Definition two64 : N := 18446744073709551616.
Definition wrap64 (v : N) : N := if v <? two64 then v else v mod two64.

Definition zero32 : list N := repeat 0 32.

(* common.BytesToHash: crop from the left / left-pad to 32 bytes *)
Definition bytes_to_hash (b : list N) : list N :=
  if Nat.ltb 32 (length b) then skipn (length b - 32) b
  else repeat 0 (32 - length b)%nat ++ b.

(* rawdb/schema.go: accountTrieNodeKey, storageTrieNodeKey, codeKey *)
Definition acct_key (path : list N) : list N := 65 :: path.
Definition stor_key (owner path : list N) : list N := 79 :: owner ++ path.
Definition code_key (h : list N) : list N := 99 :: h.
Definition node_key (owner path : list N) : list N :=
  if beq owner zero32 then acct_key path else stor_key owner path.

(* trie.ResolvePath; None = hexToKeybytes panics *)
Definition resolve_path (path : list N) : option (list N * list N) :=
  if Nat.leb 64 (length path) then
    match hex_to_keybytes (firstn 64 path) with
    | Some kb => Some (bytes_to_hash kb, skipn 64 path)
    | None => None
    end
  else Some (zero32, path).

(* the priority computed by scheduleNodeRequest / scheduleCodeRequest:
   int64(len(path)) << 56 | OR_{i<14} int64(15-path[i]) << (52-4i), as the uint64 bit
   pattern reinterpreted as int64.  15-path[i] is byte arithmetic. *)
Fixpoint prio_bits (i : nat) (shift : N) (path : list N) : N :=
  match i, path with
  | O, _ => 0
  | _, [] => 0
  | S i', x :: r =>
      N.lor (N.shiftl ((15 + 256 - x mod 256) mod 256) shift) (prio_bits i' (shift - 4) r)
  end.
Definition prio (path : list N) : Z :=
  let u := N.lor (wrap64 (N.shiftl (lenN path) 56)) (prio_bits 14 52 path) in
  if u <? 9223372036854775808 then Z.of_N u else (Z.of_N u - Z.of_N two64)%Z.
(* depth := int(prio >> 56) *)
Definition prio_depth (p : Z) : Z := Z.shiftr p 56.

(* prque.Push *)
Fixpoint qpush (p : Z) (it : qitem) (q : list (Z * qitem)) : list (Z * qitem) :=
  match q with
  | [] => [(p, it)]
  | (p', it') :: r => if Z.ltb p' p then (p, it) :: q else (p', it') :: qpush p it r
  end.

Section Sync.
  Variable H : list N -> list N.

  Definition empty_root : list N := H [128].     (* types.EmptyRootHash *)
  Definition empty_code : list N := H [].        (* types.EmptyCodeHash *)

  (* ---- syncMemBatch ---- *)
  (* addNode *)
  Definition mb_add_node (s : sync) (owner path blob hash : list N) : sync :=
    let sz :=
      if sc_path s then
        if beq owner zero32 then lenN path + lenN blob else 32 + (lenN path + lenN blob)
      else 32 + lenN blob in
    set_mb s (OpWrite owner path blob hash :: mb_nodes s) (mb_codes s) (wrap64 (mb_size s + sz)).
  (* delNode: refused (log.Error) in the hash scheme *)
  Definition mb_del_node (s : sync) (owner path : list N) : sync :=
    if sc_path s then
      let sz := if beq owner zero32 then lenN path else 32 + lenN path in
      set_mb s (OpDel owner path :: mb_nodes s) (mb_codes s) (wrap64 (mb_size s + sz))
    else s.
  (* addCode *)
  Definition mb_add_code (s : sync) (hash code : list N) : sync :=
    set_mb s (mb_nodes s) (put hash code (mb_codes s)) (wrap64 (mb_size s + (32 + lenN code))).

  (* Sync.hasNode -> (exists, inconsistent) *)
  Definition has_node (s : sync) (owner path hash : list N) : bool * bool :=
    if sc_path s then
      let blob := match get (node_key owner path) (sc_db s) with Some b => b | None => [] end in
      let ex := beq hash (H blob) in
      (ex, negb ex && negb (Nat.eqb (length blob) 0))
    else (has hash (sc_db s), false).

  (* scheduleNodeRequest: unconditional overwrite of nodeReqs[path] + queue push *)
  Definition schedule_node (s : sync) (path : list N) (r : nreq) : sync :=
    set_queue (set_nreqs s (aput path r (nreqs s))) (qpush (prio path) (QNode path) (queue s)).

  (* scheduleCodeRequest *)
  Definition schedule_code (s : sync) (hash : list N) (r : creq) : sync :=
    match aget hash (creqs s) with
    | Some old =>
        set_creqs s (aput hash (mkCreq (cr_path old) (cr_data old) (cr_parents old ++ cr_parents r)) (creqs s))
    | None =>
        set_queue (set_creqs s (aput hash r (creqs s))) (qpush (prio (cr_path r)) (QCode hash) (queue s))
    end.

  Definition bump_deps (s : sync) (path : list N) (d : Z) : option sync :=
    match aget path (nreqs s) with
    | Some a => Some (set_nreqs s (aput path (mkNreq (nr_hash a) (nr_data a) (nr_parent a) (nr_deps a + d) (nr_cb a)) (nreqs s)))
    | None => None
    end.

  (* Sync.AddSubTrie; inl = state when the Go code panics *)
  Definition add_sub_trie (s : sync) (root path parent parent_path : list N) (cb : cbkind) : sync + sync :=
    if beq root empty_root then inr s
    else
      match resolve_path path with
      | None => inl s
      | Some (owner, inner) =>
          let '(ex, inc) := has_node s owner inner root in
          if ex then inr s
          else
            let s1 := if inc then mb_del_node s owner inner else s in
            match aget path (nreqs s1) with
            | Some _ => inl s1     (* MODEL LIMIT: a live request already has this path (see below) *)
            | None =>
                if negb (beq parent zero32) then
                  match bump_deps s1 parent_path 1 with
                  | None => inl s1                               (* panic: sub-trie ancestor not found *)
                  | Some s2 => inr (schedule_node s2 path (mkNreq root None (Some parent_path) 0 cb))
                  end
                else inr (schedule_node s1 path (mkNreq root None None 0 cb))
            end
      end.

  (* Sync.AddCodeEntry *)
  Definition add_code_entry (s : sync) (hash path parent parent_path : list N) : sync + sync :=
    if beq hash empty_code then inr s
    else if has hash (mb_codes s) then inr s
    else if has (code_key hash) (sc_db s) then inr s
    else
      if negb (beq parent zero32) then
        match bump_deps s parent_path 1 with
        | None => inl s                                          (* panic: raw-entry ancestor not found *)
        | Some s1 => inr (schedule_code s1 hash (mkCreq path None [parent_path]))
        end
      else inr (schedule_code s hash (mkCreq path None [])).

  (* rlp.DecodeBytes(leaf, &types.StateAccount{Nonce uint64, Balance *uint256.Int,
     Root common.Hash, CodeHash []byte}) -> (Root, CodeHash); None = error *)
  Definition dec_account (leaf : list N) : option (list N * list N) :=
    match dec_exact leaf with
    | Ok (Lst [Str nonce; Str bal; Str root; Str ch]) =>
        if Nat.leb (length nonce) 8 && no_lead0 nonce
           && Nat.leb (length bal) 32 && no_lead0 bal
           && Nat.eqb (length root) 32
        then Some (root, ch) else None
    | _ => None
    end.

  (* the children gathered by Sync.children: (path, node) *)
  Fixpoint full_children (path : list N) (i : N) (cs : list node) : list (list N * node) :=
    match cs with
    | [] => []
    | c :: r =>
        let rest := full_children path (i + 1) r in
        match c with NEmpty => rest | _ => (path ++ [i], c) :: rest end
    end.
  Definition short_key (k : list N) : list N := if has_term k then removelast k else k.
  Definition child_list (path : list N) (n : node) : option (list (list N * node)) :=
    match n with
    | NShort k v => Some [(path ++ short_key k, v)]
    | NFull cs => Some (full_children path 0 (firstn 17 cs))
    | _ => None                                                  (* panic: unknown node *)
    end.

  (* the dangling-node loop of Sync.children (path scheme, shortNode over a hashNode):
     for i := 1; i < len(key); i++ *)
  Fixpoint dangling (s : sync) (owner inner key : list N) (i n : nat) : sync :=
    match n with
    | O => s
    | S n' =>
        let p := inner ++ firstn i key in
        let s1 := if has (node_key owner p) (sc_db s) then mb_del_node s owner p else s in
        dangling s1 owner inner key (S i) n'
    end.

  (* the `paths` argument built for the callback: hexToKeybytes panics on an odd key *)
  Definition callback_paths_ok (cpath : list N) : bool :=
    if Nat.eqb (length cpath) 64 then
      match hex_to_keybytes cpath with Some _ => true | None => false end
    else if Nat.eqb (length cpath) 128 then
      match hex_to_keybytes (firstn 64 cpath), hex_to_keybytes (skipn 64 cpath) with
      | Some _, Some _ => true
      | _, _ => false
      end
    else true.

  (* onAccount of state.NewStateSync (onLeaf = nil) *)
  Definition on_account (s : sync) (cpath leaf parent parent_path : list N) : sync * rclass :=
    match dec_account leaf with
    | None => (s, RCallback)
    | Some (root, ch) =>
        match add_sub_trie s root cpath parent parent_path CbNone with
        | inl s1 => (s1, RPanic)
        | inr s1 =>
            match add_code_entry s1 (bytes_to_hash ch) cpath parent parent_path with
            | inl s2 => (s2, RPanic)
            | inr s2 => (s2, ROk)
            end
        end
    end.

  (* the second loop of Sync.children over the gathered children: callback on value
     nodes, existence test + request on hash nodes.  Requests are returned (newest
     first), not yet scheduled. *)
  Fixpoint children_loop (s : sync) (path hash : list N) (cb : cbkind)
           (cl : list (list N * node)) (acc : list (list N * nreq))
    : sync * list (list N * nreq) * rclass :=
    match cl with
    | [] => (s, acc, ROk)
    | (cpath, cn) :: rest =>
        let '(s1, rc) :=
          match cb, cn with
          | CbAccount, NValue v =>
              if callback_paths_ok cpath then on_account s cpath v hash path else (s, RPanic)
          | _, _ => (s, ROk)
          end in
        match rc with
        | ROk =>
            match cn with
            | NHash h =>
                match resolve_path cpath with
                | None => (s1, acc, RPanic)
                | Some (owner, inner) =>
                    let '(ex, inc) := has_node s1 owner inner h in
                    if ex then children_loop s1 path hash cb rest acc
                    else
                      let s2 := if inc then mb_del_node s1 owner inner else s1 in
                      children_loop s2 path hash cb rest ((cpath, mkNreq h None (Some path) 0 cb) :: acc)
                end
            | _ => children_loop s1 path hash cb rest acc
            end
        | _ => (s1, acc, rc)
        end
    end.

  (* Sync.children *)
  Definition children (s : sync) (path hash : list N) (cb : cbkind) (n : node)
    : sync * list (list N * nreq) * rclass :=
    match child_list path n with
    | None => (s, [], RPanic)
    | Some cl =>
        let s1 :=
          match n with
          | NShort k (NHash _) =>
              if sc_path s then
                match resolve_path path with
                | Some (owner, inner) =>
                    Some (dangling s owner inner (short_key k) 1 (length (short_key k) - 1))
                | None => None
                end
              else Some s
          | _ => Some s
          end in
        match s1 with
        | None => (s, [], RPanic)
        | Some s1 => children_loop s1 path hash cb cl []
        end
    end.

  (* Sync.commitNodeRequest; fuel = number of pending node requests + 1 (every level
     deletes one) *)
  Fixpoint commit_node_request (fuel : nat) (s : sync) (path : list N) : sync * rclass :=
    match fuel with
    | O => (s, RInternal)
    | S f =>
        match aget path (nreqs s) with
        | None => (s, RInternal)
        | Some r =>
            match resolve_path path with
            | None => (s, RPanic)
            | Some (owner, inner) =>
                let blob := match nr_data r with Some b => b | None => [] end in
                let s1 := mb_add_node s owner inner blob (nr_hash r) in
                let s2 := set_fetches (set_nreqs s1 (adel path (nreqs s1)))
                                      (fadd (Z.of_nat (length path)) (-1) (fetches s1)) in
                match nr_parent r with
                | None => (s2, ROk)
                | Some pp =>
                    match aget pp (nreqs s2) with
                    | None => (s2, RInternal)
                    | Some p =>
                        let d := (nr_deps p - 1)%Z in
                        let s3 := set_nreqs s2 (aput pp (mkNreq (nr_hash p) (nr_data p) (nr_parent p) d (nr_cb p)) (nreqs s2)) in
                        if Z.eqb d 0 then commit_node_request f s3 pp else (s3, ROk)
                    end
                end
            end
        end
    end.

  Definition cnr_fuel (s : sync) : nat := S (length (nreqs s)).

  (* the parents loop of Sync.commitCodeRequest *)
  Fixpoint commit_code_parents (s : sync) (parents : list (list N)) : sync * rclass :=
    match parents with
    | [] => (s, ROk)
    | pp :: rest =>
        match aget pp (nreqs s) with
        | None => (s, RInternal)
        | Some p =>
            let d := (nr_deps p - 1)%Z in
            let s1 := set_nreqs s (aput pp (mkNreq (nr_hash p) (nr_data p) (nr_parent p) d (nr_cb p)) (nreqs s)) in
            if Z.eqb d 0 then
              match commit_node_request (cnr_fuel s1) s1 pp with
              | (s2, ROk) => commit_code_parents s2 rest
              | (s2, e) => (s2, e)
              end
            else commit_code_parents s1 rest
        end
    end.

  (* Sync.ProcessCode *)
  Definition process_code (s : sync) (hash data : list N) : sync * rclass :=
    match aget hash (creqs s) with
    | None => (s, RNotRequested)
    | Some r =>
        match cr_data r with
        | Some _ => (s, RAlreadyProcessed)
        | None =>
            (* commitCodeRequest *)
            let s1 := mb_add_code s hash data in
            let s2 := set_fetches (set_creqs s1 (adel hash (creqs s1)))
                                  (fadd (Z.of_nat (length (cr_path r))) (-1) (fetches s1)) in
            commit_code_parents s2 (cr_parents r)
        end
    end.

  (* MODEL LIMIT.  Go's scheduleNodeRequest overwrites nodeReqs[path] silently, and the
     children of the overwritten request keep their POINTER to it.  With requests
     identified by their path this cannot be represented, so the model stops with
     [RInternal] / the panic class when a path that is already pending is scheduled
     again.  This is exactly the account-leaf-node / storage-root clash at depth 64
     acknowledged in trie.NewSyncPath; it cannot happen for a target that is a tree
     of paths (every path has one parent). *)
  Fixpoint schedule_all (s : sync) (reqs : list (list N * nreq)) : option sync :=
    match reqs with
    | [] => Some s
    | (p, r) :: rest =>
        match aget p (nreqs s) with
        | Some _ => None
        | None => schedule_all (schedule_node s p r) rest
        end
    end.

  (* Sync.ProcessNode *)
  Definition process_node (s : sync) (path data : list N) : sync * rclass :=
    match aget path (nreqs s) with
    | None => (s, RNotRequested)
    | Some r =>
        match nr_data r with
        | Some _ => (s, RAlreadyProcessed)
        | None =>
            match decode_node data with
            | DErr _ => (s, RDecode)
            | DOk n =>
                let s1 := set_nreqs s (aput path (mkNreq (nr_hash r) (Some data) (nr_parent r) (nr_deps r) (nr_cb r)) (nreqs s)) in
                match children s1 path (nr_hash r) (nr_cb r) n with
                | (s2, reqs, ROk) =>
                    match aget path (nreqs s2) with
                    | None => (s2, RInternal)
                    | Some r2 =>
                        if Nat.eqb (length reqs) 0 && Z.eqb (nr_deps r2) 0 then
                          commit_node_request (cnr_fuel s2) s2 path
                        else
                          let r3 := mkNreq (nr_hash r2) (nr_data r2) (nr_parent r2)
                                           (nr_deps r2 + Z.of_nat (length reqs)) (nr_cb r2) in
                          match schedule_all (set_nreqs s2 (aput path r3 (nreqs s2))) (rev reqs) with
                          | Some s3 => (s3, ROk)
                          | None => (s2, RInternal)
                          end
                    end
                | (s2, _, e) => (s2, e)
                end
            end
        end
    end.

  (* NewSync + the initial AddSubTrie(root, nil, common.Hash{}, nil, callback) *)
  Definition new_sync (path_scheme : bool) (db : kv) (root : list N) (cb : cbkind) : sync + sync :=
    add_sub_trie (mkSync path_scheme db [] [] 0 [] [] [] []) root [] zero32 [] cb.

  (* ---- Sync.Commit followed by batch.Write(); None = "invalid op" ---- *)
  Definition apply_op (path_scheme : bool) (d : kv) (op : nodeop) : option kv :=
    match op with
    | OpDel owner path => Some (delete (node_key owner path) d)
    | OpWrite owner path blob hash =>
        match blob with
        | [] => None
        | _ => Some (if path_scheme then put (node_key owner path) blob d else put hash blob d)
        end
    end.
  Fixpoint apply_ops (path_scheme : bool) (d : kv) (ops : list nodeop) : option kv :=
    match ops with
    | [] => Some d
    | op :: r => match apply_op path_scheme d op with
                 | Some d' => apply_ops path_scheme d' r
                 | None => None
                 end
    end.
  Definition write_codes (d : kv) (codes : kv) : kv :=
    fold_left (fun d hc => put (code_key (fst hc)) (snd hc) d) codes d.
  Definition commit (s : sync) : option sync :=
    match apply_ops (sc_path s) (sc_db s) (rev (mb_nodes s)) with
    | None => None
    | Some d => Some (set_mb (set_db s (write_codes d (mb_codes s))) [] [] 0)
    end.

  Definition pending (s : sync) : nat := (length (nreqs s) + length (creqs s))%nat.

  (* ---- Sync.Missing ---- *)
  Definition max_fetches_per_depth : Z := 16384.

  (* returns (state, node paths+hashes in pop order, code hashes in pop order) *)
  Fixpoint missing_go (mfd : Z) (q : list (Z * qitem)) (max count : N) (s : sync)
           (ns : list (list N * list N)) (cs : list (list N))
    : sync * list (list N * list N) * list (list N) :=
    match q with
    | [] => (set_queue s [], rev ns, rev cs)
    | (p, it) :: rest =>
        if negb (max =? 0) && negb (count <? max) then (set_queue s q, rev ns, rev cs)
        else
          let depth := prio_depth p in
          if Z.ltb mfd (fget depth (fetches s)) then (set_queue s q, rev ns, rev cs)
          else
            let s1 := set_fetches s (fadd depth 1 (fetches s)) in
            match it with
            | QCode h => missing_go mfd rest max (count + 1) s1 ns (h :: cs)
            | QNode path =>
                match aget path (nreqs s1) with
                | None => missing_go mfd rest max count s1 ns cs            (* log.Error, continue *)
                | Some r => missing_go mfd rest max (count + 1) s1 ((path, nr_hash r) :: ns) cs
                end
            end
    end.
  (* Missing with the per-depth bound as a parameter (the Go constant maxFetchesPerDepth);
     the item is PEEKED, the throttle test may leave it in the queue, and only then popped *)
  Definition missing_b (mfd : Z) (s : sync) (max : N) := missing_go mfd (queue s) max 0 s [] [].
  Definition missing (s : sync) (max : N) := missing_b max_fetches_per_depth s max.

  (* ---- the delivery layer (eth/protocols/snap/sync.go) ---- *)

  (* the cross-referencing loop of OnTrieNodes / onHealByteCodes: response i is
     matched with the next requested hash equal to Keccak(response i); None = a
     response matched no remaining hash ("unexpected healing trienode") *)
  Fixpoint fill_one (h b : list N) (hashes : list (list N)) : option (list (option (list N)) * list (list N)) :=
    match hashes with
    | [] => None
    | h' :: r =>
        if beq h h' then Some ([Some b], r)
        else match fill_one h b r with
             | Some (f, r') => Some (None :: f, r')
             | None => None
             end
    end.
  Fixpoint match_fill (hashes : list (list N)) (blobs : list (list N)) : option (list (option (list N))) :=
    match blobs with
    | [] => Some (map (fun _ => None) hashes)
    | b :: bs =>
        match fill_one (H b) b hashes with
        | None => None
        | Some (f, r) =>
            match match_fill r bs with
            | Some f' => Some (f ++ f')
            | None => None
            end
        end
    end.

  (* per-response counters: trienodeHealSynced / Dups / Nops deltas and the number of
     "Invalid trienode processed" log lines *)
  Record dstat : Type := mkDstat { ds_fills : N; ds_dups : N; ds_nops : N; ds_bad : N }.
  Definition dstat0 : dstat := mkDstat 0 0 0 0.
  Definition dstat_add (d : dstat) (rc : rclass) : dstat :=
    match rc with
    | ROk => mkDstat (ds_fills d + 1) (ds_dups d) (ds_nops d) (ds_bad d)
    | RAlreadyProcessed => mkDstat (ds_fills d + 1) (ds_dups d + 1) (ds_nops d) (ds_bad d)
    | RNotRequested => mkDstat (ds_fills d + 1) (ds_dups d) (ds_nops d + 1) (ds_bad d)
    | _ => mkDstat (ds_fills d + 1) (ds_dups d) (ds_nops d) (ds_bad d + 1)
    end.
  Definition is_panic (rc : rclass) : bool :=
    match rc with RPanic | RInternal => true | _ => false end.

  (* processTrienodeHealResponse: ProcessNode on every filled slot.  A panic stops
     everything (third component). *)
  Fixpoint heal_nodes (s : sync) (paths : list (list N)) (nodes : list (option (list N))) (d : dstat)
    : sync * dstat * bool :=
    match paths, nodes with
    | p :: ps, None :: ns => heal_nodes s ps ns d
    | p :: ps, Some b :: ns =>
        let '(s1, rc) := process_node s p b in
        if is_panic rc then (s1, dstat_add d rc, true) else heal_nodes s1 ps ns (dstat_add d rc)
    | _, _ => (s, d, false)
    end.
  Fixpoint heal_codes (s : sync) (hashes : list (list N)) (codes : list (option (list N))) (d : dstat)
    : sync * dstat * bool :=
    match hashes, codes with
    | h :: hs, None :: ns => heal_codes s hs ns d
    | h :: hs, Some b :: ns =>
        let '(s1, rc) := process_code s h b in
        if is_panic rc then (s1, dstat_add d rc, true) else heal_codes s1 hs ns (dstat_add d rc)
    | _, _ => (s, d, false)
    end.

  (* commitHealer(false): flush when MemSize() >= ethdb.IdealBatchSize *)
  Definition ideal_batch_size : N := 102400.
  Definition commit_healer (s : sync) : option sync :=
    if mb_size s <? ideal_batch_size then Some s else commit s.

  (* outcome of one response *)
  Inductive rresp : Type :=
  | DEmptyResp                 (* len(response) == 0: "peer rejected request", nothing processed *)
  | DUnexpected                (* a blob matched no requested hash: the whole response is rejected *)
  | DDone (d : dstat)          (* validated and processed *)
  | DPanicked (d : dstat)      (* a panic inside ProcessNode/ProcessCode *)
  | DCommitFailed (d : dstat). (* Commit returned "invalid op" (log.Crit) *)

  (* OnTrieNodes, then processTrienodeHealResponse on the delivered response *)
  Definition on_trie_nodes (s : sync) (paths hashes blobs : list (list N)) : sync * rresp :=
    match blobs with
    | [] => (s, DEmptyResp)
    | _ =>
        match match_fill hashes blobs with
        | None => (s, DUnexpected)
        | Some nodes =>
            match heal_nodes s paths nodes dstat0 with
            | (s1, d, true) => (s1, DPanicked d)
            | (s1, d, false) =>
                match commit_healer s1 with
                | Some s2 => (s2, DDone d)
                | None => (s1, DCommitFailed d)
                end
            end
        end
    end.

  (* onHealByteCodes, then processBytecodeHealResponse *)
  Definition on_byte_codes (s : sync) (hashes blobs : list (list N)) : sync * rresp :=
    match blobs with
    | [] => (s, DEmptyResp)
    | _ =>
        match match_fill hashes blobs with
        | None => (s, DUnexpected)
        | Some codes =>
            match heal_codes s hashes codes dstat0 with
            | (s1, d, true) => (s1, DPanicked d)
            | (s1, d, false) =>
                match commit_healer s1 with
                | Some s2 => (s2, DDone d)
                | None => (s1, DCommitFailed d)
                end
            end
        end
    end.

  (* the single-item composition the theorems are stated on: hash check against the
     hash the request was issued for, then ProcessNode / ProcessCode *)
  Definition deliver_node (s : sync) (path h blob : list N) : sync * rclass :=
    if beq (H blob) h then process_node s path blob else (s, RRejected).
  Definition deliver_code (s : sync) (h blob : list N) : sync * rclass :=
    if beq (H blob) h then process_code s h blob else (s, RRejected).
End Sync.
