(* Trie/Ops.v — executable model of /repo/trie/trie.go get / insert / delete /
   update / UpdateBatch, transcribed branch by branch (switch order kept).

   * Nodes are immutable values; the Go code mutates fullNode children in place
     and deep-copies on Trie.Copy — observationally the same for one trie.
   * Hash nodes are resolved through the Section variable [resolve] (the node
     reader + decodeNode; None = MissingNodeError).  Every resolution emits a
     [TRes path blob] event (prevalueTracer.Put), insertions/deletions of nodes
     emit [TIns]/[TDel] (opTracer), in program order.
   * Index-out-of-range, failed type assertions and "invalid node" panics are
     the explicit error [EPanic]; fuel exhaustion is [EFuel].  Both are proved
     unreachable for well-formed tries and valid keys in Trie/OpsProofs.v.

   Names other families rely on (keep stable):
     get insert delete update trie_get trie_update update_seq update_batch
     group_by_nibble ops_fuel *)
From GV Require Import Trie.Hex Trie.Node.
Local Open Scope N_scope.

Section Ops.
  (* reader.Node(prefix, hash) followed by decodeNodeUnsafe: the decoded node
     and the blob it was decoded from *)
  Variable resolve : list N -> list N -> option (node * list N).

  Definition is_prefix_of (p l : list N) : bool :=
    bytes_eqb p (firstn (length p) l) && Nat.leb (length p) (length l).

  (* trie.go:get — returns (value, newnode, didResolve).  [key] is the part of
     the hex key still to be consumed (Go: key[pos:]), [path] the part already
     consumed (Go: key[:pos]). *)
  Fixpoint get (fuel : nat) (n : node) (path key : list N)
    : tres (option (list N) * node * bool * list tev) :=
    match fuel with
    | O => TErr EFuel
    | S f =>
        match n with
        | NEmpty => TOk (None, NEmpty, false, [])
        | NValue v => TOk (Some v, n, false, [])
        | NShort nk nv =>
            if negb (is_prefix_of nk key) then TOk (None, n, false, [])
            else
              match get f nv (path ++ nk) (skipn (length nk) key) with
              | TOk (v, nn, true, ev) => TOk (v, NShort nk nn, true, ev)
              | TOk (v, _, false, ev) => TOk (v, n, false, ev)
              | TErr e => TErr e
              end
        | NFull cs =>
            match key with
            | [] => TErr EPanic                       (* key[pos]: index out of range *)
            | k0 :: krest =>
                match child cs k0 with
                | None => TErr EPanic
                | Some c =>
                    match get f c (path ++ [k0]) krest with
                    | TOk (v, nn, true, ev) =>
                        match set_child cs k0 nn with
                        | Some cs' => TOk (v, NFull cs', true, ev)
                        | None => TErr EPanic
                        end
                    | TOk (v, _, false, ev) => TOk (v, n, false, ev)
                    | TErr e => TErr e
                    end
                end
            end
        | NHash h =>
            match resolve h path with
            | None => TErr EMissing
            | Some (rn, blob) =>
                match get f rn path key with
                | TOk (v, nn, _, ev) => TOk (v, nn, true, TRes path blob :: ev)
                | TErr e => TErr e
                end
            end
        end
    end.

  (* insert(nil, prefix, key, value): the two calls that build the children of a
     fresh branch never recurse further *)
  Definition insert_nil (prefix key : list N) (value : node) : node * list tev :=
    match key with
    | [] => (value, [])
    | _ => (NShort key value, [TIns prefix])
    end.

  (* trie.go:insert — returns (dirty, node, events) *)
  Fixpoint insert (fuel : nat) (n : node) (prefix key : list N) (value : node)
    : tres (bool * node * list tev) :=
    match fuel with
    | O => TErr EFuel
    | S f =>
        match key with
        | [] =>
            match n, value with
            | NValue v, NValue v' => TOk (negb (bytes_eqb v v'), value, [])
            | NValue _, _ => TErr EPanic              (* value.(valueNode) assertion *)
            | _, _ => TOk (true, value, [])
            end
        | k0 :: krest =>
            match n with
            | NShort nk nv =>
                let m := prefix_len key nk in
                if Nat.eqb m (length nk) then
                  match insert f nv (prefix ++ firstn m key) (skipn m key) value with
                  | TOk (true, nn, ev) => TOk (true, NShort nk nn, ev)
                  | TOk (false, _, ev) => TOk (false, n, ev)
                  | TErr e => TErr e
                  end
                else
                  match nth_error nk m, nth_error key m with
                  | Some a, Some b =>
                      let '(c1, ev1) := insert_nil (prefix ++ firstn (m + 1) nk) (skipn (m + 1) nk) nv in
                      let '(c2, ev2) := insert_nil (prefix ++ firstn (m + 1) key) (skipn (m + 1) key) value in
                      match set_child empty17 a c1 with
                      | None => TErr EPanic
                      | Some cs1 =>
                          match set_child cs1 b c2 with
                          | None => TErr EPanic
                          | Some cs2 =>
                              if Nat.eqb m 0 then TOk (true, NFull cs2, ev1 ++ ev2)
                              else TOk (true, NShort (firstn m key) (NFull cs2),
                                        ev1 ++ ev2 ++ [TIns (prefix ++ firstn m key)])
                          end
                      end
                  | _, _ => TErr EPanic               (* n.Key[matchlen] / key[matchlen] out of range *)
                  end
            | NFull cs =>
                match child cs k0 with
                | None => TErr EPanic
                | Some c =>
                    match insert f c (prefix ++ [k0]) krest value with
                    | TOk (true, nn, ev) =>
                        match set_child cs k0 nn with
                        | Some cs' => TOk (true, NFull cs', ev)
                        | None => TErr EPanic
                        end
                    | TOk (false, _, ev) => TOk (false, n, ev)
                    | TErr e => TErr e
                    end
                end
            | NEmpty => TOk (true, NShort key value, [TIns prefix])
            | NHash h =>
                match resolve h prefix with
                | None => TErr EMissing
                | Some (rn, blob) =>
                    match insert f rn prefix key value with
                    | TOk (true, nn, ev) => TOk (true, nn, TRes prefix blob :: ev)
                    | TOk (false, _, ev) => TOk (false, rn, TRes prefix blob :: ev)
                    | TErr e => TErr e
                    end
                end
            | NValue _ => TErr EPanic                 (* default: invalid node *)
            end
        end
    end.

  (* the scan over n.Children in delete: Some (Some i) = exactly one non-nil
     entry at i (pos >= 0), Some None = at least two (pos = -2), None = no
     entry at all (pos = -1) *)
  Fixpoint single_child_from (i : N) (cs : list node) : option (option N) :=
    match cs with
    | [] => None
    | c :: r =>
        if is_empty c then single_child_from (i + 1) r
        else match single_child_from (i + 1) r with
             | None => Some (Some i)
             | Some _ => Some None
             end
    end.
  Definition single_child (cs : list node) : option (option N) := single_child_from 0 cs.

  (* trie.go:delete — returns (dirty, node, events) *)
  Fixpoint delete (fuel : nat) (n : node) (prefix key : list N)
    : tres (bool * node * list tev) :=
    match fuel with
    | O => TErr EFuel
    | S f =>
        match n with
        | NShort nk nv =>
            let m := prefix_len key nk in
            if Nat.ltb m (length nk) then TOk (false, n, [])
            else if Nat.eqb m (length key) then TOk (true, NEmpty, [TDel prefix])
            else
              match delete f nv (prefix ++ firstn (length nk) key) (skipn (length nk) key) with
              | TOk (false, _, ev) => TOk (false, n, ev)
              | TOk (true, NShort ck cv, ev) =>
                  TOk (true, NShort (nk ++ ck) cv, ev ++ [TDel (prefix ++ nk)])
              | TOk (true, c, ev) => TOk (true, NShort nk c, ev)
              | TErr e => TErr e
              end
        | NFull cs =>
            match key with
            | [] => TErr EPanic
            | k0 :: krest =>
                match child cs k0 with
                | None => TErr EPanic
                | Some c =>
                    match delete f c (prefix ++ [k0]) krest with
                    | TOk (false, _, ev) => TOk (false, n, ev)
                    | TErr e => TErr e
                    | TOk (true, nn, ev) =>
                        match set_child cs k0 nn with
                        | None => TErr EPanic
                        | Some cs' =>
                            if negb (is_empty nn) then TOk (true, NFull cs', ev)
                            else
                              match single_child cs' with
                              | Some (Some pos) =>
                                  match child cs' pos with
                                  | None => TErr EPanic
                                  | Some rem =>
                                      if negb (N.eqb pos 16) then
                                        (* t.resolve(n.Children[pos], prefix+pos) *)
                                        let r := match rem with
                                                 | NHash h =>
                                                     match resolve h (prefix ++ [pos]) with
                                                     | None => None
                                                     | Some (rn, blob) => Some (rn, [TRes (prefix ++ [pos]) blob])
                                                     end
                                                 | _ => Some (rem, [])
                                                 end in
                                        match r with
                                        | None => TErr EMissing
                                        | Some (NShort ck cv, ev') =>
                                            TOk (true, NShort (pos :: ck) cv,
                                                 ev ++ ev' ++ [TDel (prefix ++ [pos])])
                                        | Some (_, ev') =>
                                            TOk (true, NShort [pos] rem, ev ++ ev')
                                        end
                                      else TOk (true, NShort [pos] rem, ev)
                                  end
                              | _ => TOk (true, NFull cs', ev)
                              end
                        end
                    end
                end
            end
        | NValue _ => TOk (true, NEmpty, [])
        | NEmpty => TOk (false, NEmpty, [])
        | NHash h =>
            match resolve h prefix with
            | None => TErr EMissing
            | Some (rn, blob) =>
                match delete f rn prefix key with
                | TOk (true, nn, ev) => TOk (true, nn, TRes prefix blob :: ev)
                | TOk (false, _, ev) => TOk (false, rn, TRes prefix blob :: ev)
                | TErr e => TErr e
                end
            end
        end
    end.

  (* every recursive call consumes at least one key element or replaces a hash
     node by its (non-hash) resolution, so this fuel is never exhausted *)
  Definition ops_fuel (key : list N) : nat := 2 * length key + 4.

  (* Trie.Get on a byte key *)
  Definition trie_get (root : node) (key : list N) :=
    let k := keybytes_to_hex key in get (ops_fuel k) root [] k.

  (* Trie.update (Update / Delete): empty value = deletion; returns the new
     root and the tracer events *)
  Definition update (root : node) (key value : list N) : tres (node * list tev) :=
    let k := keybytes_to_hex key in
    match value with
    | [] =>
        match delete (ops_fuel k) root [] k with
        | TOk (_, n, ev) => TOk (n, ev)
        | TErr e => TErr e
        end
    | _ =>
        match insert (ops_fuel k) root [] k (NValue value) with
        | TOk (_, n, ev) => TOk (n, ev)
        | TErr e => TErr e
        end
    end.

  (* updateSequential *)
  Fixpoint update_seq (root : node) (kvs : list (list N * list N)) : tres (node * list tev) :=
    match kvs with
    | [] => TOk (root, [])
    | (k, v) :: r =>
        match update root k v with
        | TErr e => TErr e
        | TOk (root', ev) =>
            match update_seq root' r with
            | TErr e => TErr e
            | TOk (root'', ev') => TOk (root'', ev ++ ev')
            end
        end
    end.

  (* one goroutine of UpdateBatch: the entries of one first-nibble group applied
     in order to child [pos] of the root *)
  Fixpoint apply_group (c : node) (pos : N) (kvs : list (list N * list N)) : tres (node * list tev) :=
    match kvs with
    | [] => TOk (c, [])
    | (hk, v) :: r =>
        let k1 := tl hk in
        let step :=
          match v with
          | [] => delete (ops_fuel hk) c [pos] k1
          | _ => insert (ops_fuel hk) c [pos] k1 (NValue v)
          end in
        match step with
        | TErr e => TErr e
        | TOk (_, c', ev) =>
            match apply_group c' pos r with
            | TErr e => TErr e
            | TOk (c'', ev') => TOk (c'', ev ++ ev')
            end
        end
    end.

  (* entries (as hex keys) whose first nibble is [pos], in batch order *)
  Definition group_by_nibble (pos : N) (kvs : list (list N * list N)) : list (list N * list N) :=
    filter (fun kv => match fst kv with k0 :: _ => N.eqb k0 pos | [] => false end) kvs.

  Definition parallel_update_threshold : nat := 4.

  (* UpdateBatch; [order] = the order in which the goroutines' effects are
     applied to the root's children (any permutation of the populated nibbles;
     Trie/OpsProofs.v shows the result does not depend on it) *)
  Definition update_batch (order : list N) (root : node) (kvs : list (list N * list N))
    : tres (node * list tev) :=
    match root with
    | NFull cs =>
        if Nat.ltb (length kvs) parallel_update_threshold then update_seq root kvs
        else
          let hkvs := map (fun kv => (keybytes_to_hex (fst kv), snd kv)) kvs in
          let deleted (i : N) :=
            existsb (fun kv => match fst kv, snd kv with
                               | k0 :: _, [] => N.eqb k0 i | _, _ => false end) hkvs in
          let survivors :=
            length (filter (fun ic => negb (is_empty (snd ic)) && negb (deleted (fst ic)))
                           (combine (map N.of_nat (seq 0 17)) cs)) in
          if Nat.ltb survivors 2 then update_seq root kvs
          else
            fold_left
              (fun acc pos =>
                 match acc with
                 | TErr e => TErr e
                 | TOk (NFull cs0, ev0) =>
                     match child cs0 pos with
                     | None => TErr EPanic
                     | Some c =>
                         match apply_group c pos (group_by_nibble pos hkvs) with
                         | TErr e => TErr e
                         | TOk (c', ev) =>
                             match set_child cs0 pos c' with
                             | Some cs1 => TOk (NFull cs1, ev0 ++ ev)
                             | None => TErr EPanic
                             end
                         end
                     end
                 | TOk (_, _) => TErr EPanic
                 end)
              order (TOk (root, []))
    | _ => update_seq root kvs
    end.
End Ops.
