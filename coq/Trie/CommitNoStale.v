(* Trie/X/CommitNoStale.v — the no-stale half of commit_exact_path: after applying
   the committed node set, the path store holds nothing but hashed nodes of the
   ground trie of the session. *)
From GV Require Import Lib.Tactics Lib.Bytes Rlp.Codec Trie.Hex Trie.Node Trie.Ops Trie.Hash.
From GV Require Import Trie.OpsProofs Trie.Canon Trie.Proof Trie.ProofProofs.
From GV Require Import Trie.Commit Trie.CommitProofs Trie.CommitTracer Trie.CommitReads Trie.CommitSim Trie.CommitSimDel Trie.CommitHist Trie.CommitExact Trie.CommitEvents Trie.CommitTrace Trie.CommitPv Trie.CommitInv3.
Local Open Scope N_scope.

Section Mono.
  Variable H : list N -> list N.

  (* entries of the node set never disappear during the commit *)
  Definition keeps (ns ns' : nodeset) : Prop := forall q, am_get q ns <> None -> am_get q ns' <> None.

  Lemma keeps_refl ns : keeps ns ns.
  Proof. intros q X. exact X. Qed.
  Lemma keeps_trans a b c : keeps a b -> keeps b c -> keeps a c.
  Proof. intros X Y q Z. apply Y. apply X. exact Z. Qed.
  Lemma keeps_put p e ns : keeps ns (am_put p e ns).
  Proof. intros q X. rewrite am_get_put. destruct (bytes_eqb q p); [discriminate|exact X]. Qed.

  Lemma store_node_keeps tr f p n ns n' ns' :
    store_node H tr f p n ns = Some (n', ns') -> keeps ns ns'.
  Proof.
    unfold store_node. intro E. destruct (node_enc H n); [|discriminate].
    destruct (hashedb f l); [inversion E; subst; apply keeps_put|].
    destruct (pv_get p tr); inversion E; subst; [apply keeps_refl|apply keeps_put].
  Qed.

  Lemma commit_children_keeps rec path :
    (forall p c ns c' ns', rec p c ns = Some (c', ns') -> keeps ns ns') ->
    forall l i ns l' ns', commit_children rec path i l ns = Some (l', ns') -> keeps ns ns'.
  Proof.
    intros R. induction l as [|c r IH]; intros i ns l' ns' E.
    - inversion E; subst. apply keeps_refl.
    - rewrite commit_children_cons in E.
      destruct (child_step rec path i c ns) as [[c' ns1]|] eqn:CS; [|discriminate].
      destruct (commit_children rec path (i + 1) r ns1) as [[r' ns'']|] eqn:CC; [|discriminate].
      inversion E; subst. eapply keeps_trans; [|eapply IH; exact CC].
      apply child_step_cases in CS. destruct CS as [(_ & -> & _)|(_ & RC)]; [apply keeps_refl|].
      eapply R; eassumption.
  Qed.

  Lemma commit_node_keeps : forall f dirty tr force path n ns n' ns',
    commit_node H f dirty tr force path n ns = Some (n', ns') -> keeps ns ns'.
  Proof.
    induction f as [|f IH]; intros dirty tr force path n ns n' ns' E; cbn [commit_node] in E; [discriminate|].
    destruct (clean_hashed H dirty force path n) as [h|].
    - inversion E; subst. apply keeps_refl.
    - destruct n as [|v|k c|cs|hh]; try discriminate.
      + assert (X : exists c' ns1, keeps ns ns1 /\
                    store_node H tr force path (NShort k c') ns1 = Some (n', ns')).
        { destruct c as [|v|k0 cc|cs|h]; try (eexists _, ns; split; [|exact E]; apply keeps_refl).
          destruct (commit_node H f dirty tr false (path ++ k) (NFull cs) ns) as [[c' ns1]|] eqn:RC;
            [|discriminate].
          exists c', ns1. split; [|exact E]. eapply IH; eassumption. }
        destruct X as (c' & ns1 & O1 & ST). eapply keeps_trans; [exact O1|eapply store_node_keeps; exact ST].
      + destruct (commit_children (commit_node H f dirty tr false) path 0 cs ns) as [[cs' ns1]|] eqn:CC;
          [|discriminate].
        eapply keeps_trans; [|eapply store_node_keeps; exact E].
        eapply commit_children_keeps; [|exact CC]. intros; eapply IH; eassumption.
      + inversion E; subst. apply keeps_refl.
  Qed.

  Lemma add_deletions_has tr q : In q (deleted_nodes tr) -> am_get q (add_deletions tr []) <> None.
  Proof.
    unfold add_deletions. generalize (deleted_nodes tr). intro l.
    assert (X : forall l ns, (In q l \/ am_get q ns <> None) ->
              am_get q (fold_left (fun ns1 p => am_put p (Del (pv_get p tr)) ns1) l ns) <> None).
    { induction l0 as [|p l0 IH]; intros ns [I|I]; cbn [fold_left]; try (destruct I; fail); try exact I.
      - apply IH. destruct I as [->|I]; [right; rewrite am_get_put_same; discriminate|left; exact I].
      - apply IH. right. apply keeps_put. exact I. }
    intro I. apply X. left. exact I.
  Qed.
End Mono.

Section NoStale.
  Variable H : list N -> list N.
  Hypothesis H_len : forall x, length (H x) = 32%nat.

  Section Visit.
    Variable dirty : list N -> bool.
    Variable tr : tracer.

    (* the in-memory node paths committer.commit visits (not below a clean hashed node) *)
    Inductive vis : bool -> list N -> node -> list N -> Prop :=
    | vis_here f p n : is_sf n = true -> clean_hashed H dirty f p n = None -> vis f p n p
    | vis_short f p k cs q :
        clean_hashed H dirty f p (NShort k (NFull cs)) = None ->
        vis false (p ++ k) (NFull cs) q -> vis f p (NShort k (NFull cs)) q
    | vis_full f p cs i c q :
        clean_hashed H dirty f p (NFull cs) = None ->
        nth_error cs i = Some c -> (i < 16)%nat ->
        vis false (p ++ [N.of_nat i]) c q -> vis f p (NFull cs) q.

    Lemma vis_gpos f p n q : vis f p n q -> gpos p n q.
    Proof.
      induction 1; [apply gpos_here; assumption|apply gpos_short; assumption|eapply gpos_full; eassumption].
    Qed.

    Lemma store_node_entry f p n ns n' ns' :
      store_node H tr f p n ns = Some (n', ns') -> pv_get p tr <> [] -> am_get p ns' <> None.
    Proof.
      unfold store_node. intros E PV. destruct (node_enc H n); [|discriminate].
      destruct (hashedb f l); [inversion E; subst; rewrite am_get_put_same; discriminate|].
      destruct (pv_get p tr) eqn:X; [congruence|]. inversion E; subst. rewrite am_get_put_same. discriminate.
    Qed.

    Lemma children_entry fu p q :
      (forall f p n ns n' ns', commit_node H fu dirty tr f p n ns = Some (n', ns') ->
          vis f p n q -> am_get q ns' <> None) ->
      forall l i ns l' ns',
        commit_children (commit_node H fu dirty tr false) p (N.of_nat i) l ns = Some (l', ns') ->
        forall j c, nth_error l j = Some c -> (i + j < 16)%nat ->
          vis false (p ++ [N.of_nat (i + j)]) c q -> am_get q ns' <> None.
    Proof.
      intros IHcn. induction l as [|c0 l IHl]; intros i ns l' ns' E j c Ej J V; [destruct j; discriminate|].
      rewrite commit_children_cons in E.
      destruct (child_step (commit_node H fu dirty tr false) p (N.of_nat i) c0 ns) as [[c2 ns1]|] eqn:CS; [|discriminate].
      replace (N.of_nat i + 1) with (N.of_nat (Datatypes.S i)) in E by lia.
      destruct (commit_children (commit_node H fu dirty tr false) p (N.of_nat (Datatypes.S i)) l ns1)
        as [[r' ns2]|] eqn:CC; [|discriminate].
      inversion E; subst l' ns'.
      destruct j as [|j].
      - cbn in Ej. inversion Ej; subst c0. rewrite Nat.add_0_r in *.
        apply (commit_children_keeps (commit_node H fu dirty tr false) p
                 (fun _ _ _ _ _ X => commit_node_keeps H _ _ _ _ _ _ _ _ _ X) _ _ _ _ _ CC).
        apply child_step_cases in CS. destruct CS as [(-> & -> & Y)|(I & RC)].
        + exfalso. destruct Y as [Y|[->|[h ->]]]; [lia| |]; inversion V; discriminate.
        + eapply IHcn; eassumption.
      - cbn in Ej. replace (i + Datatypes.S j)%nat with (Datatypes.S i + j)%nat in * by lia.
        eapply IHl; [exact CC|exact Ej|lia|exact V].
    Qed.

    Lemma commit_node_entry q : forall fuel f p n ns n' ns',
      commit_node H fuel dirty tr f p n ns = Some (n', ns') ->
      vis f p n q -> pv_get q tr <> [] -> am_get q ns' <> None.
    Proof.
      induction fuel as [|fu IH]; intros f p n ns n' ns' E V PV; [discriminate|].
      inversion V as [f0 p0 n0 SF CH|f0 p0 k cs q0 CH Vc|f0 p0 cs i c q0 CH Ei I Vc]; subst.
      - destruct n as [|v|k c|cs|hh]; try discriminate.
        + destruct (commit_short_inv H H_len _ _ _ _ _ _ _ _ _ _ E CH) as (c2 & ns1 & _ & _ & ST).
          eapply store_node_entry; eassumption.
        + destruct (commit_full_inv H H_len _ _ _ _ _ _ _ _ _ E CH) as (cs2 & ns1 & _ & _ & ST).
          eapply store_node_entry; eassumption.
      - destruct (commit_short_inv H H_len _ _ _ _ _ _ _ _ _ _ E CH) as (c2 & ns1 & CR & _ & ST).
        apply (store_node_keeps H _ _ _ _ _ _ _ ST). eapply IH; [exact CR|exact Vc|exact PV].
      - destruct (commit_full_inv H H_len _ _ _ _ _ _ _ _ _ E CH) as (cs2 & ns1 & CC & _ & ST).
        apply (store_node_keeps H _ _ _ _ _ _ _ ST).
        eapply (children_entry fu p q (fun f p n ns n' ns' X Y => IH f p n ns n' ns' X Y PV) cs 0%nat);
          [exact CC|exact Ei|exact I|exact Vc].
    Qed.
  End Visit.

  Section Classify.
    Variable R : list N -> list N -> option (node * list N).
    Variable dirty : list N -> bool.
    Variable delp : list N -> Prop.

    Lemma clean_hashed_dirty f p n h : clean_hashed H dirty f p n = Some h -> dirty p = false.
    Proof. unfold clean_hashed. destruct n; try discriminate; destruct (dirty p); try discriminate; reflexivity. Qed.

    (* a stored node path of the ground trie lies in a region the store already
       holds correctly, or at an in-memory node the committer visits *)
    Lemma classify f p n G : rep H R dirty delp f p n G -> (is_sf G = true -> can G) ->
      forall q, gpos p G q -> stored R q ->
        (exists Gq, gsub H f p G q Gq) \/ vis dirty f p n q.
    Proof.
      induction 1 as [f p|f p v|f p h G e SF W E Hh HB C U|f p k c c' Rc IH CO|f p cs cs' HL Rcs IH CO];
        intros Cn q GP St.
      - exfalso. eapply gpos_empty. exact GP.
      - exfalso. eapply gpos_value. exact GP.
      - left. exact (proj2 C q (gpos_ple _ _ _ GP) St).
      - destruct (clean_hashed H dirty f p (NShort k c)) as [h|] eqn:CH.
        { left. destruct (CO (clean_hashed_dirty _ _ _ _ CH)) as [_ C]. exact (proj2 C q (gpos_ple _ _ _ GP) St). }
        apply gpos_short_iff in GP. destruct GP as [->|GP]; [right; apply vis_here; [reflexivity|exact CH]|].
        pose proof (Cn eq_refl) as CG.
        destruct (can_short_inv k c' CG) as [[_ [v ->]]|(_ & _ & cs' & -> & CanC)];
          [exfalso; eapply gpos_value; exact GP|].
        destruct (IH (fun _ => CanC) q GP St) as [(Gq & X)|X].
        + left. exists Gq. apply gsub_short. exact X.
        + right. inversion Rc; subst; try (inversion X; discriminate). apply vis_short; assumption.
      - destruct (clean_hashed H dirty f p (NFull cs)) as [h|] eqn:CH.
        { left. destruct (CO (clean_hashed_dirty _ _ _ _ CH)) as [_ C]. exact (proj2 C q (gpos_ple _ _ _ GP) St). }
        apply gpos_full_iff in GP. destruct GP as [->|(i & c' & Ei' & GP)]; [right; apply vis_here; [reflexivity|exact CH]|].
        pose proof (Cn eq_refl) as CG. destruct (can_full_inv cs' CG) as (L17 & Hch & H16 & _).
        assert (I : (i < 16)%nat).
        { destruct (Nat.lt_ge_cases i 16) as [I|I]; [exact I|exfalso].
          assert (i = 16%nat) by (assert (i < length cs')%nat by (apply nth_error_Some; congruence); lia). subst i.
          destruct (H16 c' Ei') as [->|[v ->]]; [eapply gpos_empty|eapply gpos_value]; exact GP. }
        assert (Ei : exists c, nth_error cs i = Some c).
        { destruct (nth_error cs i) eqn:X; [eauto|]. apply nth_error_None in X.
          assert (i < length cs')%nat by (apply nth_error_Some; congruence). lia. }
        destruct Ei as [c Ei].
        assert (CC : is_sf c' = true -> can c').
        { intro SF. destruct (Hch i c' Ei' I) as [->|Z]; [discriminate|exact Z]. }
        destruct (IH i c c' Ei Ei' CC q GP St) as [(Gq & X)|X].
        + left. exists Gq. eapply gsub_full; eassumption.
        + right. eapply vis_full; eassumption.
    Qed.
  End Classify.
End NoStale.

Section NoStaleTop.
  Variable H : list N -> list N.
  Hypothesis H_len : forall x, length (H x) = 32%nat.
  Hypothesis H_inj_empty : forall e, H e = H empty_root_preimage -> e = empty_root_preimage.

  Lemma commit_ns_shape ss r ns : commit H ss = Some (r, Some ns) ->
    (s_root ss = NEmpty /\ ns = add_deletions (s_tr ss) []) \/
    (exists n0, commit_node H commit_fuel (dirty_at ss) (s_tr ss) true [] (s_root ss)
                  (add_deletions (s_tr ss) []) = Some (n0, ns)).
  Proof.
    unfold commit. intro C. destruct (s_root ss) as [|v|k c|cs|h] eqn:RT.
    - left. destruct (deleted_nodes (s_tr ss)); inversion C; subst. auto.
    - right; repeat (dmatch C; try discriminate); inversion C; subst; eauto.
    - right; repeat (dmatch C; try discriminate); inversion C; subst; eauto.
    - right; repeat (dmatch C; try discriminate); inversion C; subst; eauto.
    - right; repeat (dmatch C; try discriminate); inversion C; subst; eauto.
  Qed.

  (* C07 no stale node: whatever the updated store holds is a hashed node of the
     ground trie of the committed session *)
  Theorem commit_no_stale S ss F0 F root0 r ns :
    sinv3 H S ss F0 F -> store_ok H S root0 F0 -> pv_ne (s_tr ss) ->
    commit H ss = Some (r, Some ns) ->
    exactb H (resolve_of H PathScheme (apply_nodeset PathScheme ns S)) true [] F.
  Proof.
    intros ((SI & Sz & T) & J & PV) (GO0 & XB0 & _) NE C q _ (h & n & b & RS2).
    pose proof RS2 as RB. apply resolve_of_blob in RB. destruct RB as (BN & Q & HB). specialize (HB eq_refl).
    destruct (commit_exact_path_sinv H H_len S ss F r ns SI C q b Q) as [(Gq & GS & _)|[NQ SQ]]; [exists Gq; exact GS|].
    assert (D : decode_node b = DOk n).
    { unfold resolve_of in RS2. rewrite Q in RS2. subst h. rewrite beqb_refl in RS2.
      destruct (decode_node b); inversion RS2; subst; reflexivity. }
    assert (St1 : stored (resolve_of H PathScheme S) q).
    { exists (H b), n, b. unfold resolve_of. rewrite SQ, beqb_refl, D. reflexivity. }
    assert (GP0 : gpos [] F0 q).
    { destruct (XB0 q (ex_intro _ q (app_nil_l q)) St1) as [Gq GS]. eapply gsub_gpos. exact GS. }
    assert (ENTRY : pvd (s_tr ss) q -> pv_get q (s_tr ss) <> []).
    { intro X. apply am_has_true in X. destruct X as [b0 X]. unfold pv_get. rewrite X. eapply NE. exact X. }
    destruct SI as [GO Rp].
    destruct (commit_ns_shape ss r ns C) as [[RT ->]|[n0 CN]].
    - (* everything was deleted *)
      assert (F = NEmpty) by (rewrite RT in Rp; inversion Rp; subst; reflexivity).
      subst F. exfalso.
      assert (DQ : In q (deleted_nodes (s_tr ss))).
      { destruct (T q) as [TD _]. assert (X : am_has q (tr_del (s_tr ss)) = true) by (apply TD; split; [exact GP0|apply gpos_empty]).
        apply am_has_true in X. destruct X as [[] X]. apply am_get_in in X.
        unfold deleted_nodes. apply in_map_iff. exists (q, tt). split; [reflexivity|].
        apply filter_In. split; [exact X|]. apply PV; [exact St1|apply gpos_empty]. }
      exact (add_deletions_has (s_tr ss) q DQ NQ).
    - destruct (gpos_dec F [] q) as [GF|GF].
      + assert (Cn : is_sf F = true -> can F) by (intro SF; destruct GO as [->|[X _]]; [discriminate|exact X]).
        destruct (classify H H_len _ _ _ _ _ _ _ Rp Cn q GF St1) as [(Gq & GS)|V].
        * exists Gq. exact GS.
        * exfalso. apply (commit_node_entry H H_len _ _ q _ _ _ _ _ _ _ CN V); [|exact NQ].
          apply ENTRY. apply J; [exact St1|eapply vis_gpos; exact V].
      + exfalso. assert (DQ : In q (deleted_nodes (s_tr ss))).
        { destruct (T q) as [TD _]. assert (X : am_has q (tr_del (s_tr ss)) = true) by (apply TD; split; assumption).
          apply am_has_true in X. destruct X as [[] X]. apply am_get_in in X.
          unfold deleted_nodes. apply in_map_iff. exists (q, tt). split; [reflexivity|].
          apply filter_In. split; [exact X|]. apply PV; assumption. }
        apply (commit_node_keeps H _ _ _ _ _ _ _ _ _ CN q (add_deletions_has (s_tr ss) q DQ)). exact NQ.
  Qed.
End NoStaleTop.
