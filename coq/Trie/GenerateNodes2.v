(* Trie/GenerateNodes2.v — nodes_of = done + rem; updating one slot of a branch (C11). *)
From Coq Require Import Permutation.
From GV Require Import Lib.Tactics Lib.Bytes Rlp.Codec Trie.Hex Trie.HexProofs Trie.HexInPlace Trie.Node Trie.Ops Trie.Hash Trie.OpsProofs Trie.Canon Trie.Stack Trie.StackProofs Trie.Commit Trie.Generate Trie.GenerateProofs Trie.GenerateWalk3 Trie.GenerateNodes.
Local Open Scope N_scope.

Lemma perm_4 {A} (a b c d : list A) : Permutation ((a ++ b) ++ (c ++ d)) ((a ++ c) ++ (b ++ d)).
Proof.
  rewrite <- !app_assoc. apply Permutation_app_head. rewrite !app_assoc. apply Permutation_app_tail. apply Permutation_app_comm.
Qed.

Lemma perm_swap_tail {A} (a b x : list A) : Permutation ((a ++ x) ++ b) ((a ++ b) ++ x).
Proof. rewrite <- !app_assoc. apply Permutation_app_head. apply Permutation_app_comm. Qed.

Lemma set_nth_same {A} : forall j (l : list A) x, nth_error l j = Some x -> set_nth j x l = Some l.
Proof.
  induction j as [|j IH]; intros [|y l] x E; simpl in *; try discriminate.
  - inversion E; reflexivity.
  - rewrite (IH l x E). reflexivity.
Qed.

Section Nodes2.
  Variable H : list N -> list N.
  Hypothesis H_len : forall x, length (H x) = 32%nat.

  Lemma go2_cons rec path i c r n nr :
    go2 rec path i (c :: r) (n :: nr) = rec (path ++ [N.of_nat i]) c n ++ go2 rec path (S i) r nr.
  Proof. reflexivity. Qed.

  Lemma go_nodes_cons rec path i c r : go_nodes rec path i (c :: r) = rec (path ++ [N.of_nat i]) c ++ go_nodes rec path (S i) r.
  Proof. reflexivity. Qed.

  (* nodes_of = done + rem *)
  Lemma nodes_split : forall st n path, R H st n ->
    Permutation (nodes_of H path n) (done H path st n ++ rem H path st n).
  Proof.
    induction st as [| |scs IH|k c IH|k v0|hv] using stnode_ind'; intros n path HR; pose proof HR as HR0; apply R_inv in HR; try solve [destruct HR].
    - destruct HR as (cs & -> & H1 & H2 & H3 & H4).
      rewrite nodes_of_full, rem_branch, done_branch, app_assoc. apply Permutation_app_tail.
      assert (G : forall l ns i, Forall (fun st => forall n path, R H st n -> Permutation (nodes_of H path n) (done H path st n ++ rem H path st n)) l ->
                length ns = Datatypes.S (length l) -> nth_error ns (length l) = Some NEmpty ->
                (forall j c, nth_error l j = Some c -> exists n, nth_error ns j = Some n /\
                   ((c = StNil /\ n = NEmpty) \/ (c <> StNil /\ inner n /\ R H c n))) ->
                Permutation (go_nodes (nodes_of H) path i ns) (go2 (done H) path i l ns ++ go2 (rem H) path i l ns)).
      { induction l as [|c l IHl]; intros ns i HF Hlen H16 Hch.
        - destruct ns as [|n0 ns]; [discriminate|]. destruct ns; [|discriminate]. simpl in H16. inversion H16; subst. constructor.
        - destruct ns as [|n0 ns]; [discriminate|]. inversion HF as [|? ? Hc HF']; subst. simpl in Hlen, H16.
          destruct (Hch O c eq_refl) as (n & En & Hcn). simpl in En. inversion En; subst n0.
          rewrite go_nodes_cons, !go2_cons.
          eapply Permutation_trans; [|apply perm_4]. apply Permutation_app.
          + destruct Hcn as [[-> ->]|(_ & _ & HRc)]; [constructor|apply Hc, HRc].
          + apply IHl; [exact HF'|lia|exact H16|]. intros j c0 Hj. apply (Hch (Datatypes.S j) c0 Hj). }
      apply (G scs cs O IH ltac:(lia) ltac:(rewrite H1; exact H3) H4).
    - destruct HR as (cs & -> & H2 & H4 & H5).
      rewrite nodes_of_short. cbn [done rem]. rewrite app_assoc. apply Permutation_app_tail. apply IH, H5.
    - destruct HR as [-> Hk]. rewrite nodes_of_short. cbn [done rem nodes_of app]. apply Permutation_refl.
    - cbn [done rem]. rewrite app_nil_r. apply Permutation_refl.
  Qed.

  (* replacing slot j on both sides *)
  Lemma go2_set (rec : list N -> stnode -> node -> ems) path : forall j i l ns c' n' l' ns' c n X,
    set_nth j c' l = Some l' -> set_nth j n' ns = Some ns' ->
    nth_error l j = Some c -> nth_error ns j = Some n ->
    Permutation (rec (path ++ [N.of_nat (i + j)]) c' n') (rec (path ++ [N.of_nat (i + j)]) c n ++ X) ->
    Permutation (go2 rec path i l' ns') (go2 rec path i l ns ++ X).
  Proof.
    induction j as [|j IH]; intros i l ns c' n' l' ns' c n X S1 S2 E1 E2 HP.
    - destruct l as [|c0 l]; [discriminate|]. destruct ns as [|n0 ns]; [discriminate|]. simpl in *.
      inversion S1; inversion S2; inversion E1; inversion E2; subst. rewrite !go2_cons. rewrite Nat.add_0_r in HP.
      eapply Permutation_trans; [apply Permutation_app_tail; exact HP|]. apply perm_swap_tail.
    - destruct l as [|c0 l]; [discriminate|]. destruct ns as [|n0 ns]; [discriminate|]. simpl in S1, S2, E1, E2.
      destruct (set_nth j c' l) as [l1|] eqn:T1; [|discriminate]. destruct (set_nth j n' ns) as [ns1|] eqn:T2; [|discriminate].
      inversion S1; inversion S2; subst. rewrite !go2_cons, <- app_assoc. apply Permutation_app_head.
      apply (IH (Datatypes.S i) l ns c' n' l1 ns1 c n X T1 T2 E1 E2).
      replace (Datatypes.S i + j)%nat with (i + Datatypes.S j)%nat by lia. exact HP.
  Qed.

  Lemma go2_empty (rec : list N -> stnode -> node -> ems) path :
    (forall p n, rec p StNil n = []) -> forall m i ns, go2 rec path i (repeat StNil m) ns = [].
  Proof.
    intros Hr. induction m as [|m IH]; intros i ns; [destruct ns; reflexivity|]. destruct ns as [|n ns]; [reflexivity|].
    cbn [repeat]. rewrite go2_cons, Hr, IH. reflexivity.
  Qed.

  (* the fresh two-child branch *)
  Lemma branch2_done q a c1 n1 b c2 n2 s1 s2 cs1 cs2 : a <> b ->
    set_nth (N.to_nat a) c1 st_empty16 = Some s1 -> set_nth (N.to_nat b) c2 s1 = Some s2 ->
    set_nth (N.to_nat a) n1 empty17 = Some cs1 -> set_nth (N.to_nat b) n2 cs1 = Some cs2 ->
    Permutation (go2 (done H) q O s2 cs2) (done H (q ++ [a]) c1 n1 ++ done H (q ++ [b]) c2 n2).
  Proof.
    intros Hab S1 S2 T1 T2.
    pose proof (set_nth_lt _ _ _ _ S1) as La. pose proof (set_nth_lt _ _ _ _ S2) as Lb.
    destruct (set_nth_spec _ _ _ _ S1) as [L1 N1]. destruct (set_nth_spec _ _ _ _ T1) as [M1 P1].
    change (length st_empty16) with 16%nat in *. rewrite L1 in Lb.
    assert (E0 : go2 (done H) q O st_empty16 empty17 = []) by (apply (go2_empty (done H) q (fun _ _ => eq_refl) 16)).
    assert (Ea : nth_error st_empty16 (N.to_nat a) = Some StNil).
    { destruct (nth_error st_empty16 (N.to_nat a)) eqn:E; [f_equal; eapply nth_error_st_empty16; eassumption|].
      apply nth_error_None in E. change (length st_empty16) with 16%nat in E. lia. }
    assert (Ea' : nth_error empty17 (N.to_nat a) = Some NEmpty).
    { destruct (nth_error empty17 (N.to_nat a)) eqn:E; [f_equal; eapply nth_error_empty17; eassumption|].
      apply nth_error_None in E. change (length empty17) with 17%nat in E. lia. }
    assert (Hne : N.to_nat b <> N.to_nat a) by (intros E; apply Hab; apply N2Nat.inj; congruence).
    assert (Eb : nth_error s1 (N.to_nat b) = Some StNil).
    { rewrite N1. destruct (Nat.eqb_spec (N.to_nat b) (N.to_nat a)); [congruence|].
      destruct (nth_error st_empty16 (N.to_nat b)) eqn:E; [f_equal; eapply nth_error_st_empty16; eassumption|].
      apply nth_error_None in E. change (length st_empty16) with 16%nat in E. lia. }
    assert (Eb' : nth_error cs1 (N.to_nat b) = Some NEmpty).
    { rewrite P1. destruct (Nat.eqb_spec (N.to_nat b) (N.to_nat a)); [congruence|].
      destruct (nth_error empty17 (N.to_nat b)) eqn:E; [f_equal; eapply nth_error_empty17; eassumption|].
      apply nth_error_None in E. change (length empty17) with 17%nat in E. lia. }
    pose proof (go2_set (done H) q (N.to_nat a) O st_empty16 empty17 c1 n1 s1 cs1 StNil NEmpty (done H (q ++ [a]) c1 n1) S1 T1 Ea Ea') as Pa.
    cbn [Nat.add] in Pa. rewrite N2Nat.id in Pa. specialize (Pa (Permutation_refl _)). rewrite E0 in Pa. cbn [app] in Pa.
    pose proof (go2_set (done H) q (N.to_nat b) O s1 cs1 c2 n2 s2 cs2 StNil NEmpty (done H (q ++ [b]) c2 n2) S2 T2 Eb Eb') as Pb.
    cbn [Nat.add] in Pb. rewrite N2Nat.id in Pb. specialize (Pb (Permutation_refl _)).
    eapply Permutation_trans; [exact Pb|]. apply Permutation_app_tail. exact Pa.
  Qed.
End Nodes2.
