(* Trie/SyncQueue.v — nothing is ever lost from the scheduler's queue.

   [qinv fl s]: every node request that is still undelivered and every code request
   is either in the priority queue or has been handed out by some Missing call
   (fl = everything Missing has returned so far).  Preserved by Missing for EVERY
   per-depth bound (the throttle leaves the peeked item in the queue), by
   ProcessNode / ProcessCode (through children, the account callback, the commit
   cascade) and by Commit, in both schemes, over all histories. *)
From Coq Require Import ZArith Lia.
From GV Require Import Lib.Tactics Lib.Bytes Trie.Node Trie.Hash Storage.KV Storage.KVProofs Trie.Sync Trie.SyncProofs.
Local Open Scope N_scope.

Definition items (q : list (Z * qitem)) : list qitem := map snd q.

Lemma items_qpush p it q x : In x (items (qpush p it q)) <-> x = it \/ In x (items q).
Proof.
  unfold items. induction q as [|[p' it'] r IH]; simpl; [intuition|].
  destruct (Z.ltb p' p); simpl; [intuition|]. rewrite IH. intuition.
Qed.

Definition qinv (fl : list qitem) (s : sync) : Prop :=
  (forall p r, aget p (nreqs s) = Some r -> nr_data r = None ->
     In (QNode p) (items (queue s)) \/ In (QNode p) fl) /\
  (forall h c, aget h (creqs s) = Some c ->
     In (QCode h) (items (queue s)) \/ In (QCode h) fl).

(* s' keeps every queue item of s, and every undelivered request of s' was already an
   undelivered request of s or sits in the queue of s' *)
Definition qle (s s' : sync) : Prop :=
  (forall x, In x (items (queue s)) -> In x (items (queue s'))) /\
  (forall p r', aget p (nreqs s') = Some r' -> nr_data r' = None ->
     (exists r, aget p (nreqs s) = Some r /\ nr_data r = None) \/ In (QNode p) (items (queue s'))) /\
  (forall h c', aget h (creqs s') = Some c' ->
     (exists c, aget h (creqs s) = Some c) \/ In (QCode h) (items (queue s'))).

Lemma qle_refl s : qle s s.
Proof. split; [auto|split]; intros; left; eauto. Qed.

Lemma qle_trans a b c : qle a b -> qle b c -> qle a c.
Proof.
  intros (A1 & A2 & A3) (B1 & B2 & B3). split; [auto|split].
  - intros p r' E D. destruct (B2 _ _ E D) as [(r & E1 & D1)|X]; [|auto].
    destruct (A2 _ _ E1 D1) as [X|X]; auto.
  - intros h c' E. destruct (B3 _ _ E) as [(c0 & E1)|X]; [|auto].
    destruct (A3 _ _ E1) as [X|X]; auto.
Qed.

Lemma qinv_qle fl s s' : qinv fl s -> qle s s' -> qinv fl s'.
Proof.
  intros (I1 & I2) (A1 & A2 & A3). split.
  - intros p r E D. destruct (A2 _ _ E D) as [(r0 & E0 & D0)|X]; [|auto].
    destruct (I1 _ _ E0 D0); auto.
  - intros h c E. destruct (A3 _ _ E) as [(c0 & E0)|X]; [|auto].
    destruct (I2 _ _ E0); auto.
Qed.

(* same requests and queue *)
Lemma qle_sameq s s' :
  nreqs s' = nreqs s -> creqs s' = creqs s -> queue s' = queue s -> qle s s'.
Proof.
  intros E1 E2 E3. unfold qle. rewrite E1, E2, E3. split; [auto|split]; intros; left; eauto.
Qed.

(* only the node requests change: in place, or by removal *)
Lemma qle_nreqs s m :
  (forall p r', aget p m = Some r' -> nr_data r' = None ->
     exists r, aget p (nreqs s) = Some r /\ nr_data r = None) ->
  qle s (set_nreqs s m).
Proof. intros Hm. split; [auto|split]; ssimpl; intros; left; eauto. Qed.

Lemma qle_upd s k r r' :
  aget k (nreqs s) = Some r -> (nr_data r' = None -> nr_data r = None) ->
  qle s (set_nreqs s (aput k r' (nreqs s))).
Proof.
  intros Hk Hd. apply qle_nreqs. intros p x. rewrite aget_aput. destruct (beq p k) eqn:E; [|eauto].
  apply beq_eq in E. subst p. intros X D; inversion X; subst x. eauto.
Qed.

Lemma qle_mb_del s o p : qle s (mb_del_node s o p).
Proof. unfold mb_del_node. destruct (sc_path s); [apply qle_sameq; reflexivity|apply qle_refl]. Qed.

Lemma qle_bump s s' path d : bump_deps s path d = Some s' -> qle s s'.
Proof.
  unfold bump_deps. destruct (aget path (nreqs s)) as [a|] eqn:E; [|discriminate].
  intros X; inversion X; subst. eapply qle_upd; eauto.
Qed.

Lemma qle_sched_node s path r : qle s (schedule_node s path r).
Proof.
  unfold schedule_node. split; [|split]; ssimpl.
  - intros x Hx. apply items_qpush. auto.
  - intros p r'. rewrite aget_aput. destruct (beq p path) eqn:E.
    + apply beq_eq in E. subst p. intros _ _. right. apply items_qpush. auto.
    + intros X D. left. eauto.
  - intros h c' X. left. eauto.
Qed.

Lemma qle_sched_code s h r : qle s (schedule_code s h r).
Proof.
  unfold schedule_code. destruct (aget h (creqs s)) as [old|] eqn:Eo; (split; [|split]); ssimpl; auto.
  - intros p r' X D. left. eauto.
  - intros h' c'. rewrite aget_aput. destruct (beq h' h) eqn:E; [|intros X; left; eauto].
    apply beq_eq in E. subst h'. intros _. left. eauto.
  - intros x Hx. apply items_qpush. auto.
  - intros p r' X D. left. eauto.
  - intros h' c'. rewrite aget_aput. destruct (beq h' h) eqn:E; [|intros X; left; eauto].
    apply beq_eq in E. subst h'. intros _. right. apply items_qpush. auto.
Qed.

Section Queue.
  Variable H : list N -> list N.

  Lemma qle_add_sub_trie s rt path parent pp cb :
    qle s (match add_sub_trie H s rt path parent pp cb with inl x => x | inr x => x end).
  Proof.
    unfold add_sub_trie. destruct (beq rt (empty_root H)); [apply qle_refl|].
    destruct (resolve_path path) as [[owner inner]|]; [|apply qle_refl].
    destruct (has_node H s owner inner rt) as [ex inc]. destruct ex; [apply qle_refl|].
    set (s1 := if inc then mb_del_node s owner inner else s).
    assert (Q1 : qle s s1) by (unfold s1; destruct inc; [apply qle_mb_del|apply qle_refl]).
    destruct (aget path (nreqs s1)); [exact Q1|].
    destruct (negb (beq parent zero32)).
    - destruct (bump_deps s1 pp 1) as [s2|] eqn:Eb; [|exact Q1].
      eapply qle_trans; [exact Q1|]. eapply qle_trans; [eapply qle_bump; eauto|apply qle_sched_node].
    - eapply qle_trans; [exact Q1|apply qle_sched_node].
  Qed.

  Lemma qle_add_code_entry s h path parent pp :
    qle s (match add_code_entry H s h path parent pp with inl x => x | inr x => x end).
  Proof.
    unfold add_code_entry. destruct (beq h (empty_code H)); [apply qle_refl|].
    destruct (has h (mb_codes s)); [apply qle_refl|].
    destruct (has (code_key h) (sc_db s)); [apply qle_refl|].
    destruct (negb (beq parent zero32)).
    - destruct (bump_deps s pp 1) as [s1|] eqn:Eb; [|apply qle_refl].
      eapply qle_trans; [eapply qle_bump; eauto|apply qle_sched_code].
    - apply qle_sched_code.
  Qed.

  Lemma qle_on_account s cpath leaf parent pp : qle s (fst (on_account H s cpath leaf parent pp)).
  Proof.
    unfold on_account. destruct (dec_account leaf) as [[sroot ch]|]; [|apply qle_refl].
    pose proof (qle_add_sub_trie s sroot cpath parent pp CbNone) as Q1.
    destruct (add_sub_trie H s sroot cpath parent pp CbNone) as [s1|s1]; [exact Q1|].
    pose proof (qle_add_code_entry s1 (bytes_to_hash ch) cpath parent pp) as Q2.
    destruct (add_code_entry H s1 (bytes_to_hash ch) cpath parent pp) as [s2|s2];
      (eapply qle_trans; [exact Q1|exact Q2]).
  Qed.

  Lemma qle_children_loop : forall cl s path hash cb acc,
    qle s (fst (fst (children_loop H s path hash cb cl acc))).
  Proof.
    induction cl as [|[cpath cn] rest IH]; intros s path hash cb acc; cbn [children_loop]; [apply qle_refl|].
    set (cbres := match cb with
                  | CbNone => (s, ROk)
                  | CbAccount => match cn with
                                 | NValue v => if callback_paths_ok cpath then on_account H s cpath v hash path else (s, RPanic)
                                 | _ => (s, ROk)
                                 end
                  end).
    assert (Q1 : qle s (fst cbres)).
    { unfold cbres. destruct cb; [apply qle_refl|]. destruct cn; try apply qle_refl.
      destruct (callback_paths_ok cpath); [apply qle_on_account|apply qle_refl]. }
    destruct cbres as [s1 rc]. cbn [fst] in Q1.
    destruct rc; try exact Q1.
    destruct cn; try (eapply qle_trans; [exact Q1|apply IH]).
    destruct (resolve_path cpath) as [[owner inner]|]; [|exact Q1].
    destruct (has_node H s1 owner inner h) as [ex inc].
    destruct ex; [eapply qle_trans; [exact Q1|apply IH]|].
    eapply qle_trans; [exact Q1|]. eapply qle_trans; [|apply IH].
    destruct inc; [apply qle_mb_del|apply qle_refl].
  Qed.

  Lemma qle_dangling : forall n s owner inner key i, qle s (dangling s owner inner key i n).
  Proof.
    induction n as [|n IH]; intros s owner inner key i; cbn [dangling]; [apply qle_refl|].
    eapply qle_trans; [|apply IH]. destruct (has _ (sc_db s)); [apply qle_mb_del|apply qle_refl].
  Qed.

  Lemma qle_children s path hash cb n : qle s (fst (fst (children H s path hash cb n))).
  Proof.
    unfold children. destruct (child_list path n) as [cl|]; [|apply qle_refl].
    set (s1 := match n with
               | NShort k (NHash _) =>
                   if sc_path s then
                     match resolve_path path with
                     | Some (owner, inner) => Some (dangling s owner inner (short_key k) 1 (length (short_key k) - 1))
                     | None => None
                     end
                   else Some s
               | _ => Some s
               end).
    assert (Q1 : match s1 with Some x => qle s x | None => True end).
    { unfold s1. destruct n; try apply qle_refl. destruct n; try apply qle_refl.
      destruct (sc_path s); [|apply qle_refl].
      destruct (resolve_path path) as [[owner inner]|]; [apply qle_dangling|exact Logic.I]. }
    destruct s1 as [x|]; [|apply qle_refl].
    eapply qle_trans; [exact Q1|apply qle_children_loop].
  Qed.

  Lemma qle_commit_node_request : forall fuel s path, qle s (fst (commit_node_request fuel s path)).
  Proof.
    induction fuel as [|f IH]; intros s path; [apply qle_refl|]. cbn [commit_node_request].
    destruct (aget path (nreqs s)) as [r|] eqn:Er; [|apply qle_refl].
    destruct (resolve_path path) as [[owner inner]|]; [|apply qle_refl].
    set (s2 := set_fetches _ _).
    assert (Q2 : qle s s2).
    { unfold s2, mb_add_node. split; [|split]; ssimpl; auto.
      - intros p r'. rewrite aget_adel. destruct (beq p path); [discriminate|]. intros X D. left. eauto.
      - intros h c' X. left. eauto. }
    destruct (nr_parent r) as [pp|]; [|exact Q2].
    destruct (aget pp (nreqs s2)) as [p|] eqn:Ep; [|exact Q2].
    set (s3 := set_nreqs s2 _).
    assert (Q3 : qle s s3) by (eapply qle_trans; [exact Q2|eapply qle_upd; eauto]).
    destruct (Z.eqb (nr_deps p - 1) 0); [eapply qle_trans; [exact Q3|apply IH]|exact Q3].
  Qed.

  Lemma qle_commit_code_parents : forall parents s, qle s (fst (commit_code_parents s parents)).
  Proof.
    induction parents as [|pp rest IH]; intros s; cbn [commit_code_parents]; [apply qle_refl|].
    destruct (aget pp (nreqs s)) as [p|] eqn:Ep; [|apply qle_refl].
    set (s1 := set_nreqs s _).
    assert (Q1 : qle s s1) by (eapply qle_upd; eauto).
    destruct (Z.eqb (nr_deps p - 1) 0); [|eapply qle_trans; [exact Q1|apply IH]].
    pose proof (qle_commit_node_request (cnr_fuel s1) s1 pp) as Q2.
    destruct (commit_node_request (cnr_fuel s1) s1 pp) as [s2 rc]. cbn [fst] in Q2.
    assert (Q12 : qle s s2) by (eapply qle_trans; eauto).
    destruct rc; try exact Q12. eapply qle_trans; [exact Q12|apply IH].
  Qed.

  Lemma qle_process_code s h data : qle s (fst (process_code s h data)).
  Proof.
    unfold process_code. destruct (aget h (creqs s)) as [r|]; [|apply qle_refl].
    destruct (cr_data r); [apply qle_refl|].
    eapply qle_trans; [|apply qle_commit_code_parents].
    unfold mb_add_code. split; [|split]; ssimpl; auto.
    - intros p r' X D. left. eauto.
    - intros h' c'. rewrite aget_adel. destruct (beq h' h); [discriminate|]. intros X. left. eauto.
  Qed.

  Lemma qle_schedule_all : forall reqs s s', schedule_all s reqs = Some s' -> qle s s'.
  Proof.
    induction reqs as [|[p r] rest IH]; intros s s' E; cbn [schedule_all] in E.
    - inversion E; subst. apply qle_refl.
    - destruct (aget p (nreqs s)); [discriminate|].
      eapply qle_trans; [apply qle_sched_node|apply IH; exact E].
  Qed.

  Lemma qle_process_node s path data : qle s (fst (process_node H s path data)).
  Proof.
    unfold process_node. destruct (aget path (nreqs s)) as [r|] eqn:Er; [|apply qle_refl].
    destruct (nr_data r) eqn:Ed; [apply qle_refl|].
    destruct (decode_node data) as [n|]; [|apply qle_refl].
    set (s1 := set_nreqs s _).
    assert (Q1 : qle s s1) by (eapply qle_upd; eauto; discriminate).
    pose proof (qle_children s1 path (nr_hash r) (nr_cb r) n) as Q2.
    destruct (children H s1 path (nr_hash r) (nr_cb r) n) as [[s2 reqs] rc]. cbn [fst] in Q2.
    assert (Q12 : qle s s2) by (eapply qle_trans; eauto).
    destruct rc; try exact Q12.
    destruct (aget path (nreqs s2)) as [r2|] eqn:Er2; [|exact Q12].
    destruct (Nat.eqb (length reqs) 0 && Z.eqb (nr_deps r2) 0).
    - eapply qle_trans; [exact Q12|apply qle_commit_node_request].
    - match goal with |- context [schedule_all ?a ?b] => destruct (schedule_all a b) as [s3|] eqn:Esa end; [|exact Q12].
      cbn [fst]. eapply qle_trans; [exact Q12|].
      eapply qle_trans; [|eapply qle_schedule_all; exact Esa].
      apply (qle_upd _ _ r2 _ Er2). cbn [nr_data]. auto.
  Qed.

  Lemma qle_commit s s' : commit s = Some s' -> qle s s'.
  Proof.
    unfold commit. destruct (apply_ops (sc_path s) (sc_db s) (rev (mb_nodes s))); [|discriminate].
    intros X; inversion X; subst. apply qle_sameq; reflexivity.
  Qed.

  (* ---- Missing, for every per-depth bound ---- *)
  Definition handed (ns : list (list N * list N)) (cs : list (list N)) : list qitem :=
    map (fun ph => QNode (fst ph)) ns ++ map QCode cs.

  Lemma handed_cons_n y path h ns cs :
    In y (handed (rev ns) (rev cs)) \/ y = QNode path -> In y (handed (rev ((path, h) :: ns)) (rev cs)).
  Proof.
    unfold handed. simpl. rewrite map_app, !in_app_iff. simpl.
    intros [[X|X]|X]; subst; auto 6.
  Qed.
  Lemma handed_cons_c y h ns cs :
    In y (handed (rev ns) (rev cs)) \/ y = QCode h -> In y (handed (rev ns) (rev (h :: cs))).
  Proof.
    unfold handed. simpl. rewrite (map_app QCode), !in_app_iff. simpl.
    intros [[X|X]|X]; subst; auto 6.
  Qed.

  Lemma missing_go_handed mfd : forall q max count s ns cs y,
    In y (handed (rev ns) (rev cs)) ->
    let '(s', ns', cs') := missing_go mfd q max count s ns cs in In y (handed ns' cs').
  Proof.
    induction q as [|[p it] rest IH]; intros max count s ns cs y Hy; cbn [missing_go]; [exact Hy|].
    destruct (negb (max =? 0) && negb (count <? max)); [exact Hy|].
    destruct (Z.ltb mfd (fget (prio_depth p) (fetches s))); [exact Hy|].
    destruct it as [path|h].
    - destruct (aget path (nreqs (set_fetches s (fadd (prio_depth p) 1 (fetches s))))); apply IH; [|exact Hy].
      apply handed_cons_n. left. exact Hy.
    - apply IH. apply handed_cons_c. left. exact Hy.
  Qed.

  (* every item of the queue is still queued, or handed out, or a stale path *)
  Lemma missing_go_keeps mfd : forall q max count s ns cs x,
    In x (items q) ->
    let '(s', ns', cs') := missing_go mfd q max count s ns cs in
    In x (items (queue s')) \/ In x (handed ns' cs') \/
    (exists p, x = QNode p /\ aget p (nreqs s) = None).
  Proof.
    induction q as [|[p it] rest IH]; intros max count s ns cs x Hx; cbn [missing_go]; [destruct Hx|].
    destruct (negb (max =? 0) && negb (count <? max)); [left; exact Hx|].
    destruct (Z.ltb mfd (fget (prio_depth p) (fetches s))); [left; exact Hx|].
    set (s1 := set_fetches s (fadd (prio_depth p) 1 (fetches s))).
    change (nreqs s1) with (nreqs s).
    simpl in Hx. destruct Hx as [Hx|Hx].
    - subst x. destruct it as [path|h].
      + destruct (aget path (nreqs s)) as [r|] eqn:Er.
        * pose proof (missing_go_handed mfd rest max (count + 1) s1 ((path, nr_hash r) :: ns) cs (QNode path)) as G.
          destruct (missing_go mfd rest max (count + 1) s1 ((path, nr_hash r) :: ns) cs) as [[s' ns'] cs'].
          right. left. apply G. apply handed_cons_n. right. reflexivity.
        * destruct (missing_go mfd rest max count s1 ns cs) as [[s' ns'] cs'].
          right. right. exists path. auto.
      + pose proof (missing_go_handed mfd rest max (count + 1) s1 ns (h :: cs) (QCode h)) as G.
        destruct (missing_go mfd rest max (count + 1) s1 ns (h :: cs)) as [[s' ns'] cs'].
        right. left. apply G. apply handed_cons_c. right. reflexivity.
    - destruct it as [path|h].
      + destruct (aget path (nreqs s)) as [r|].
        * apply (IH max (count + 1) s1 ((path, nr_hash r) :: ns) cs x Hx).
        * apply (IH max count s1 ns cs x Hx).
      + apply (IH max (count + 1) s1 ns (h :: cs) x Hx).
  Qed.

  Lemma missing_go_reqs mfd : forall q max count s ns cs,
    nreqs (fst (fst (missing_go mfd q max count s ns cs))) = nreqs s /\
    creqs (fst (fst (missing_go mfd q max count s ns cs))) = creqs s.
  Proof.
    induction q as [|[p it] rest IH]; intros max count s ns cs; cbn [missing_go]; [split; reflexivity|].
    destruct (negb (max =? 0) && negb (count <? max)); [split; reflexivity|].
    destruct (Z.ltb mfd (fget (prio_depth p) (fetches s))); [split; reflexivity|].
    set (s1 := set_fetches s (fadd (prio_depth p) 1 (fetches s))).
    change (nreqs s) with (nreqs s1). change (creqs s) with (creqs s1).
    destruct it as [path|h]; [destruct (aget path (nreqs s1))|]; apply IH.
  Qed.

  (* Missing with any bound: the invariant holds with what was handed out added to fl *)
  Lemma qinv_missing mfd fl s k :
    qinv fl s ->
    let '(s', ns, cs) := missing_b mfd s k in qinv (fl ++ handed ns cs) s'.
  Proof.
    intros (I1 & I2). unfold missing_b.
    pose proof (missing_go_keeps mfd (queue s) k 0 s [] []) as K.
    pose proof (missing_go_reqs mfd (queue s) k 0 s [] []) as R.
    destruct (missing_go mfd (queue s) k 0 s [] []) as [[s' ns] cs]. cbn [fst] in R. destruct R as [R1 R2].
    split.
    - intros p r E D. rewrite R1 in E. destruct (I1 _ _ E D) as [X|X].
      + destruct (K _ X) as [Y|[Y|(p0 & Y1 & Y2)]]; [auto|right; apply in_or_app; auto|].
        inversion Y1; subst p0. congruence.
      + right. apply in_or_app. auto.
    - intros h c E. rewrite R2 in E. destruct (I2 _ _ E) as [X|X].
      + destruct (K _ X) as [Y|[Y|(p0 & Y1 & Y2)]]; [auto|right; apply in_or_app; auto|discriminate].
      + right. apply in_or_app. auto.
  Qed.

  (* ---- all histories, every bound ---- *)
  Inductive op3 : Type :=
  | O3Missing (mfd : Z) (k : N)
  | O3Node (path h blob : list N)
  | O3Code (h blob : list N)
  | O3Commit.

  (* state + everything Missing has handed out so far *)
  Definition step3 (st : sync * list qitem) (o : op3) : sync * list qitem :=
    let '(s, fl) := st in
    match o with
    | O3Missing mfd k => let '(s', ns, cs) := missing_b mfd s k in (s', fl ++ handed ns cs)
    | O3Node p h b => (fst (deliver_node H s p h b), fl)
    | O3Code h b => (fst (deliver_code H s h b), fl)
    | O3Commit => (match commit s with Some s' => s' | None => s end, fl)
    end.
  Definition run3 (st : sync * list qitem) (ops : list op3) := fold_left step3 ops st.

  Lemma qinv_step3 st o : qinv (snd st) (fst st) -> qinv (snd (step3 st o)) (fst (step3 st o)).
  Proof.
    destruct st as [s fl]. cbn [fst snd]. intros I. destruct o as [mfd k|p h b|h b|]; cbn [step3].
    - pose proof (qinv_missing mfd fl s k I) as X. destruct (missing_b mfd s k) as [[s' ns] cs]. exact X.
    - cbn [fst snd]. unfold deliver_node. destruct (beq (H b) h); [|exact I].
      eapply qinv_qle; [exact I|apply qle_process_node].
    - cbn [fst snd]. unfold deliver_code. destruct (beq (H b) h); [|exact I].
      eapply qinv_qle; [exact I|apply qle_process_code].
    - cbn [fst snd]. destruct (commit s) as [s'|] eqn:E; [|exact I].
      eapply qinv_qle; [exact I|apply qle_commit; exact E].
  Qed.

  Lemma qinv_run3 : forall ops st, qinv (snd st) (fst st) -> qinv (snd (run3 st ops)) (fst (run3 st ops)).
  Proof.
    induction ops as [|o r IH]; intros st I; simpl; [exact I|]. apply IH. apply qinv_step3. exact I.
  Qed.

  Lemma qinv_new_sync ps db root cb :
    qinv [] (match new_sync H ps db root cb with inl x => x | inr x => x end).
  Proof.
    unfold new_sync. eapply qinv_qle; [|apply qle_add_sub_trie].
    split; ssimpl; intros; discriminate.
  Qed.
End Queue.

(* ---------- the model run with small per-depth bounds ---------- *)
(* three leaves under one branch node, toy hash *)
Definition q_leaf (v : N) : list N := [199; 130; 32; 18; 131; 97; 98; v].
Definition q_ref (b : list N) : list N := 160 :: toyH b.
Definition q_root_blob : list N :=
  [248; 113] ++ [128] ++ q_ref (q_leaf 1) ++ q_ref (q_leaf 2) ++ [128; 128] ++ q_ref (q_leaf 3)
             ++ repeat 128 10 ++ [128].
Definition q_root : list N := toyH q_root_blob.
Definition q_s0 : sync := match new_sync toyH false [] q_root CbNone with inl x => x | inr x => x end.

(* boolean form of [qinv] *)
Definition qitem_eqb (a b : qitem) : bool :=
  match a, b with
  | QNode x, QNode y => beq x y
  | QCode x, QCode y => beq x y
  | _, _ => false
  end.
Definition qinvb (fl : list qitem) (s : sync) : bool :=
  forallb (fun kr => match nr_data (snd kr) with
                     | Some _ => true
                     | None => existsb (qitem_eqb (QNode (fst kr))) (items (queue s) ++ fl)
                     end) (nreqs s)
  && forallb (fun kc => existsb (qitem_eqb (QCode (fst kc))) (items (queue s) ++ fl)) (creqs s).

(* drive: Missing with bound [mfd] and batch k, deliver everything handed out (honest blobs
   looked up in [src]), until nothing is pending; returns (rounds, final state, invariant held
   after every Missing, number of Missing calls that stopped with a non-empty queue) *)
Definition q_src : list (list N) := [q_root_blob; q_leaf 1; q_leaf 2; q_leaf 3].
Definition q_blob (h : list N) : list N :=
  match find (fun b => beq (toyH b) h) q_src with Some b => b | None => [] end.

Fixpoint q_drive (missf : sync -> sync * list (list N * list N) * list (list N))
         (fuel : nat) (s : sync) (fl : list qitem) (okacc : bool) (thr : nat)
  : nat * sync * bool * nat :=
  match fuel with
  | O => (O, s, okacc, thr)
  | S f =>
      if Nat.eqb (pending s) 0 then (fuel, s, okacc, thr)
      else
        let '(s1, ns, cs) := missf s in
        let fl1 := fl ++ map (fun ph => QNode (fst ph)) ns ++ map QCode cs in
        let thr1 := if Nat.eqb (length (queue s1)) 0 then thr else S thr in
        let s2 := fold_left (fun st ph => fst (deliver_node toyH st (fst ph) (snd ph) (q_blob (snd ph)))) ns s1 in
        q_drive missf f s2 fl1 (okacc && qinvb fl1 s1) thr1
  end.

Definition q_result (mfd : Z) (k : N) :=
  let '(lft, s, ok, thr) := q_drive (fun s => missing_b mfd s k) 12 q_s0 [] true 0 in
  (Nat.ltb 0 lft, pending s, ok, Nat.ltb 0 thr,
   match commit s with Some s' => length (sc_db s') | None => O end).

(* bound 0 and bound 1 throttle at depth 1 (three leaves), bound 16384 does not; in all
   cases the sync finishes, the invariant held after every Missing, 4 nodes stored *)
Definition q_check : bool :=
  match q_result 0 0, q_result 1 0, q_result 0 2, q_result 16384 0 with
  | (true, O, true, true, 4%nat), (true, O, true, true, 4%nat),
    (true, O, true, true, 4%nat), (true, O, true, false, 4%nat) => true
  | _, _, _, _ => false
  end.

(* the seeded variant: Pop() first, then the throttle test, which drops the popped item *)
Fixpoint missing_go_popfirst (mfd : Z) (q : list (Z * qitem)) (max count : N) (s : sync)
         (ns : list (list N * list N)) (cs : list (list N)) :=
  match q with
  | [] => (set_queue s [], rev ns, rev cs)
  | (p, it) :: rest =>
      if negb (max =? 0) && negb (count <? max) then (set_queue s q, rev ns, rev cs)
      else
        if Z.ltb mfd (fget (prio_depth p) (fetches s)) then (set_queue s rest, rev ns, rev cs)
        else
          let s1 := set_fetches s (fadd (prio_depth p) 1 (fetches s)) in
          match it with
          | QCode h => missing_go_popfirst mfd rest max (count + 1) s1 ns (h :: cs)
          | QNode path =>
              match aget path (nreqs s1) with
              | None => missing_go_popfirst mfd rest max count s1 ns cs
              | Some r => missing_go_popfirst mfd rest max (count + 1) s1 ((path, nr_hash r) :: ns) cs
              end
          end
  end.
Definition q_result_bad (mfd : Z) (k : N) :=
  let '(lft, s, ok, thr) := q_drive (fun s => missing_go_popfirst mfd (queue s) k 0 s [] []) 12 q_s0 [] true 0 in
  (Nat.ltb 0 lft, pending s, ok).
(* with the pop-first variant and bound 0 the drive runs out of rounds with requests
   pending and the invariant broken: requests were lost *)
Definition q_check_bad : bool :=
  match q_result_bad 0 0 with
  | (false, S _, false) => true
  | _ => false
  end.
