(* Trie/CommitTracer.v — what the opTracer insert/delete sets mean
   (trie/tracer.go, cancel-out rule), proved over ALL event lists.

   [pres] is the set of paths at which the trie has a node.  An event list is
   [consistent] with it when onInsert(p) is only emitted where no node is and
   onDelete(p) only where a node is (what trie.go's insert/delete do: a short
   node is created at a free path / an existing short node disappears).  Then,
   whatever the interleaving of insertions, deletions and re-insertions:
     deletes = present at the start and absent now,
     inserts = absent at the start and present now. *)
From GV Require Import Lib.Tactics Trie.Node Trie.Ops Trie.Hash Trie.Commit Trie.CommitProofs.
Local Open Scope N_scope.

Lemma am_has_put {A} k k' (v : A) m : am_has k (am_put k' v m) = bytes_eqb k k' || am_has k m.
Proof. unfold am_has. rewrite am_get_put. destruct (bytes_eqb k k'); reflexivity. Qed.

Lemma am_has_del {A} k k' (m : amap A) : am_has k (am_del k' m) = negb (bytes_eqb k k') && am_has k m.
Proof. unfold am_has. rewrite am_get_del. destruct (bytes_eqb k k'); reflexivity. Qed.

(* node presence at path [p] after one event *)
Definition toggle (p : list N) (e : tev) (b : bool) : bool :=
  match e with
  | TIns q => if bytes_eqb p q then true else b
  | TDel q => if bytes_eqb p q then false else b
  | TRes _ _ => b
  end.

Fixpoint consistent (pres : list N -> bool) (ev : list tev) : Prop :=
  match ev with
  | [] => True
  | e :: r =>
      match e with
      | TIns q => pres q = false
      | TDel q => pres q = true
      | TRes _ _ => True
      end /\ consistent (fun p => toggle p e (pres p)) r
  end.

Definition pres_after (pres : list N -> bool) (ev : list tev) (p : list N) : bool :=
  fold_left (fun b e => toggle p e b) ev (pres p).

(* the invariant: [start] = presence when the session began, [pres] = now *)
Definition tracer_inv (start pres : list N -> bool) (tr : tracer) : Prop :=
  forall p, am_has p (tr_del tr) = start p && negb (pres p) /\
            am_has p (tr_ins tr) = negb (start p) && pres p.

Lemma tracer_inv_step start pres tr e :
  tracer_inv start pres tr ->
  match e with TIns q => pres q = false | TDel q => pres q = true | TRes _ _ => True end ->
  tracer_inv start (fun p => toggle p e (pres p)) (trace_ev tr e).
Proof.
  intros I C p. destruct (I p) as [ID II].
  destruct e as [q|q|q b]; cbn [trace_ev toggle].
  - unfold on_insert. destruct (I q) as [QD QI]. rewrite C in QD, QI.
    destruct (am_has q (tr_del tr)) eqn:HD; cbn [tr_del tr_ins].
    + rewrite am_has_del. destruct (bytes_eqb p q) eqn:PQ.
      * apply beqb_eq in PQ. subst p. cbn. rewrite II, C. rewrite andb_true_r in QD.
        rewrite <- QD. split; [rewrite andb_false_r; reflexivity|reflexivity].
      * cbn. tauto.
    + rewrite am_has_put. destruct (bytes_eqb p q) eqn:PQ.
      * apply beqb_eq in PQ. subst p. cbn. rewrite ID, C. rewrite andb_true_r in QD.
        rewrite <- QD. split; reflexivity.
      * cbn. tauto.
  - unfold on_delete. destruct (I q) as [QD QI]. rewrite C in QD, QI.
    destruct (am_has q (tr_ins tr)) eqn:HI; cbn [tr_del tr_ins].
    + rewrite am_has_del. destruct (bytes_eqb p q) eqn:PQ.
      * apply beqb_eq in PQ. subst p. cbn. rewrite ID, C. rewrite andb_true_r in QI.
        destruct (start q); [discriminate|]. split; reflexivity.
      * cbn. tauto.
    + rewrite am_has_put. destruct (bytes_eqb p q) eqn:PQ.
      * apply beqb_eq in PQ. subst p. cbn. rewrite II, C. rewrite andb_true_r in QI.
        destruct (start q); [|discriminate]. split; reflexivity.
      * cbn. tauto.
  - cbn. tauto.
Qed.

Lemma tracer_inv_steps start ev : forall pres tr,
  tracer_inv start pres tr -> consistent pres ev ->
  tracer_inv start (pres_after pres ev) (trace_evs tr ev).
Proof.
  induction ev as [|e ev IH]; intros pres tr I C.
  - exact I.
  - destruct C as [C1 C2]. cbn [trace_evs fold_left].
    pose proof (IH _ _ (tracer_inv_step _ _ _ e I C1) C2) as X.
    intro p. destruct (X p) as [XD XI]. unfold pres_after in *. cbn [fold_left]. split; assumption.
Qed.

Lemma tracer_inv_empty start : tracer_inv start start tr_empty.
Proof. intro p. cbn. destruct (start p); split; reflexivity. Qed.

(* the opTracer after ANY consistent event list *)
Theorem tracer_spec pres ev p :
  consistent pres ev ->
  am_has p (tr_del (trace_evs tr_empty ev)) = pres p && negb (pres_after pres ev p) /\
  am_has p (tr_ins (trace_evs tr_empty ev)) = negb (pres p) && pres_after pres ev p.
Proof. intro C. exact (tracer_inv_steps pres ev pres tr_empty (tracer_inv_empty pres) C p). Qed.

(* pre-values only grow, and only by TRes events: tr_pv is untouched by the cancel-out rule *)
Lemma trace_ev_pv_mono tr e p b :
  am_get p (tr_pv tr) = Some b ->
  exists b', am_get p (tr_pv (trace_ev tr e)) = Some b'.
Proof.
  destruct e as [q|q|q c]; cbn [trace_ev].
  - unfold on_insert. destruct (am_has q (tr_del tr)); cbn; eauto.
  - unfold on_delete. destruct (am_has q (tr_ins tr)); cbn; eauto.
  - cbn. rewrite am_get_put. destruct (bytes_eqb p q); eauto.
Qed.

(* Trie.deletedNodes = present at the start, absent now, and read from the store *)
Theorem deleted_nodes_spec pres ev p :
  consistent pres ev ->
  let tr := trace_evs tr_empty ev in
  (In p (deleted_nodes tr) <->
   pres p = true /\ pres_after pres ev p = false /\ am_has p (tr_pv tr) = true).
Proof.
  intros C tr. destruct (tracer_spec pres ev p C) as [D _]. fold tr in D.
  unfold deleted_nodes. split.
  - intro I. apply in_map_iff in I. destruct I as ([q u] & <- & I). cbn [fst] in *.
    apply filter_In in I. destruct I as [I F]. cbn [fst] in F.
    assert (Hq : am_has q (tr_del tr) = true).
    { destruct (am_in_get _ _ _ I) as [v' G]. unfold am_has. rewrite G. reflexivity. }
    rewrite D in Hq. apply andb_true_iff in Hq. destruct Hq as [P1 P2].
    apply negb_true_iff in P2. auto.
  - intros (P1 & P2 & P3).
    assert (Hq : am_has p (tr_del tr) = true) by (rewrite D, P1, P2; reflexivity).
    apply am_has_true in Hq. destruct Hq as [[] G]. apply am_get_in in G.
    apply in_map_iff. exists (p, tt). split; [reflexivity|].
    apply filter_In. split; [exact G|exact P3].
Qed.

(* ------------------------------------------------------------------ *)
(* node sets are maps: am_put keeps the list strictly sorted, hence     *)
(* duplicate-free, and applying a set to a path store is a pointwise    *)
(* override                                                             *)
(* ------------------------------------------------------------------ *)
Lemma bcmp_antisym a : forall b, bytes_cmp b a = CompOpp (bytes_cmp a b).
Proof.
  induction a as [|x a IH]; intros [|y b]; cbn; try reflexivity.
  rewrite (N.compare_antisym x y). destruct (N.compare x y); cbn; try reflexivity. apply IH.
Qed.

Lemma bcmp_lt_trans a : forall b c, bytes_cmp a b = Lt -> bytes_cmp b c = Lt -> bytes_cmp a c = Lt.
Proof.
  induction a as [|x a IH]; intros [|y b] [|z c]; cbn; try congruence.
  destruct (N.compare x y) eqn:XY; try discriminate; destruct (N.compare y z) eqn:YZ; try discriminate;
    intros A B.
  - apply N.compare_eq in XY. apply N.compare_eq in YZ. subst. rewrite N.compare_refl. eapply IH; eassumption.
  - apply N.compare_eq in XY. subst. rewrite YZ. reflexivity.
  - apply N.compare_eq in YZ. subst. rewrite XY. reflexivity.
  - apply N.compare_lt_iff in XY. apply N.compare_lt_iff in YZ.
    assert (X : (x ?= z) = Lt) by (apply N.compare_lt_iff; eapply N.lt_trans; eassumption). rewrite X. reflexivity.
Qed.

Section Sorted.
  Context {A : Type}.

  (* every key of [m] is greater than [k] *)
  Definition above (k : list N) (m : amap A) : Prop := Forall (fun kv => bytes_cmp k (fst kv) = Lt) m.

  Inductive sorted : amap A -> Prop :=
  | sorted_nil : sorted []
  | sorted_cons k v m : above k m -> sorted m -> sorted ((k, v) :: m).

  Lemma above_put k k' (v : A) m : bytes_cmp k k' = Lt -> above k m -> above k (am_put k' v m).
  Proof.
    intros L. induction m as [|[k0 v0] r IH]; intro Ab; cbn.
    - constructor; [exact L|constructor].
    - inversion Ab; subst. destruct (bytes_cmp k' k0).
      + constructor; [exact L|assumption].
      + constructor; [exact L|]. constructor; assumption.
      + constructor; [assumption|]. apply IH. assumption.
  Qed.

  Lemma above_weaken k k' (m : amap A) : bytes_cmp k k' = Lt -> above k' m -> above k m.
  Proof.
    intros L Ab. unfold above in *. rewrite Forall_forall in *. intros kv I.
    eapply bcmp_lt_trans; [exact L|]. apply Ab. exact I.
  Qed.

  Lemma sorted_put k (v : A) m : sorted m -> sorted (am_put k v m).
  Proof.
    induction 1 as [|k0 v0 r Ab So IH]; cbn.
    - constructor; constructor.
    - destruct (bytes_cmp k k0) eqn:C.
      + apply bcmp_eq in C. subst. constructor; assumption.
      + constructor; [|constructor; assumption].
        constructor; [exact C|]. eapply above_weaken; eassumption.
      + constructor; [|exact IH]. apply above_put; [|exact Ab].
        rewrite bcmp_antisym, C. reflexivity.
  Qed.

  Lemma above_get k (m : amap A) : above k m -> am_get k m = None.
  Proof.
    induction 1 as [|[k0 v0] r L _ IH]; cbn; [reflexivity|].
    cbn in L. rewrite beqb_neq; [exact IH|].
    intro E. subst. assert (X : bytes_cmp k0 k0 = Eq) by (apply bcmp_eq; reflexivity). congruence.
  Qed.
End Sorted.

(* node sets built by the commit are sorted *)
Lemma store_node_sorted H tr force path n ns n' ns' :
  store_node H tr force path n ns = Some (n', ns') -> sorted ns -> sorted ns'.
Proof.
  unfold store_node. intros E So. destruct (node_enc H n); [|discriminate].
  destruct (hashedb force l); [inversion E; subst; apply sorted_put; exact So|].
  destruct (pv_get path tr); inversion E; subst; [exact So|apply sorted_put; exact So].
Qed.

Lemma commit_children_sorted rec path :
  (forall p c ns c' ns', rec p c ns = Some (c', ns') -> sorted ns -> sorted ns') ->
  forall l i ns l' ns', commit_children rec path i l ns = Some (l', ns') -> sorted ns -> sorted ns'.
Proof.
  intros R. induction l as [|c r IH]; intros i ns l' ns' E O.
  - inversion E; subst. exact O.
  - rewrite commit_children_cons in E.
    destruct (child_step rec path i c ns) as [[c' ns1]|] eqn:CS; [|discriminate].
    destruct (commit_children rec path (i + 1) r ns1) as [[r' ns'']|] eqn:CC; [|discriminate].
    inversion E; subst. eapply IH; [exact CC|].
    apply child_step_cases in CS. destruct CS as [(_ & -> & _)|(_ & RC)]; [exact O|].
    eapply R; eassumption.
Qed.

Lemma commit_node_sorted H : forall f dirty tr force path n ns n' ns',
  commit_node H f dirty tr force path n ns = Some (n', ns') -> sorted ns -> sorted ns'.
Proof.
  induction f as [|f IH]; intros dirty tr force path n ns n' ns' E O; cbn [commit_node] in E; [discriminate|].
  destruct (clean_hashed H dirty force path n) as [h|].
  - inversion E; subst. exact O.
  - destruct n as [|v|k c|cs|hh]; try discriminate.
    + assert (X : exists c' ns1, sorted ns1 /\
                  store_node H tr force path (NShort k c') ns1 = Some (n', ns')).
      { destruct c as [|v|k0 cc|cs|h]; try (eexists _, ns; split; [|exact E]; exact O).
        destruct (commit_node H f dirty tr false (path ++ k) (NFull cs) ns) as [[c' ns1]|] eqn:RC;
          [|discriminate].
        exists c', ns1. split; [|exact E]. eapply IH; eassumption. }
      destruct X as (c' & ns1 & O1 & ST). eapply store_node_sorted; eassumption.
    + destruct (commit_children (commit_node H f dirty tr false) path 0 cs ns) as [[cs' ns1]|] eqn:CC;
        [|discriminate].
      eapply store_node_sorted; [exact E|].
      eapply commit_children_sorted; [|exact CC|exact O].
      intros; eapply IH; eassumption.
    + inversion E; subst. exact O.
Qed.

Lemma add_deletions_sorted tr ns : sorted ns -> sorted (add_deletions tr ns).
Proof.
  unfold add_deletions. generalize (deleted_nodes tr). intro l. revert ns.
  induction l as [|p l IH]; intros ns So; cbn; [exact So|]. apply IH. apply sorted_put. exact So.
Qed.

Lemma commit_sorted H ss r ns : commit H ss = Some (r, Some ns) -> sorted ns.
Proof.
  unfold commit. intro E.
  destruct (s_root ss) as [|v|k c|cs|h] eqn:RT.
  1: { destruct (deleted_nodes (s_tr ss)) eqn:D; inversion E; subst.
       apply add_deletions_sorted. constructor. }
  all: repeat (dmatch E; try discriminate); inversion E; subst;
    (eapply commit_node_sorted; [eassumption|]); apply add_deletions_sorted; constructor.
Qed.

(* applying a (sorted) node set to a path store is a pointwise override:
   written paths hold the written blob, deleted paths hold nothing, every other
   path is untouched *)
Theorem apply_nodeset_path (ns : nodeset) : sorted ns -> forall S p,
  am_get p (apply_nodeset PathScheme ns S) =
  match am_get p ns with
  | Some (Upd _ blob _) => Some blob
  | Some (Del _) => None
  | None => am_get p S
  end.
Proof.
  unfold apply_nodeset. induction 1 as [|k e m Ab So IH]; intros S p; cbn [fold_left am_get]; [reflexivity|].
  cbn [fst snd]. destruct (bytes_eqb p k) eqn:PK.
  - apply beqb_eq in PK. subst p. rewrite IH, (above_get k m Ab).
    destruct e; [rewrite am_get_put_same|rewrite am_get_del, beqb_refl]; reflexivity.
  - rewrite IH. destruct (am_get p m) as [[]|]; try reflexivity.
    destruct e; [rewrite am_get_put|rewrite am_get_del]; rewrite PK; reflexivity.
Qed.

(* ------------------------------------------------------------------ *)
(* the store after applying a committed set (path scheme)              *)
(* ------------------------------------------------------------------ *)
(* proved part of commit_exact_path: the applied store holds the written blob
   (with its hash) at every written path, nothing at every deleted path — and
   each deletion/previous value is what the store held there — and is untouched
   everywhere else *)
Theorem commit_applied_path H S ss r ns :
  reach H PathScheme S ss -> commit H ss = Some (r, Some ns) ->
  forall p,
    match am_get p ns with
    | Some (Upd h b prev) =>
        am_get p (apply_nodeset PathScheme ns S) = Some b /\ h = H b /\
        (prev = [] \/ am_get p S = Some prev)
    | Some (Del prev) =>
        am_get p (apply_nodeset PathScheme ns S) = None /\ prev <> [] /\ am_get p S = Some prev
    | None => am_get p (apply_nodeset PathScheme ns S) = am_get p S
    end.
Proof.
  intros R C p. rewrite (apply_nodeset_path ns (commit_sorted H ss r ns C)).
  destruct (am_get p ns) as [[h b prev|prev]|] eqn:G.
  - split; [reflexivity|]. eapply updates_carry_prev_path; eassumption.
  - split; [reflexivity|]. eapply deletions_carry_prev_path; eassumption.
  - reflexivity.
Qed.

(* proved part of commit_reads_back: after applying, the store holds at the empty
   path the encoding of the in-memory new root, and its hash is the returned
   root — so trie.New(root') finds the root node it asks for *)
Theorem commit_root_readable H (H_len : forall x, length (H x) = 32%nat) S ss r ns :
  commit H ss = Some (r, Some ns) -> is_sf (s_root ss) = true ->
  exists e, am_get [] (apply_nodeset PathScheme ns S) = Some e /\ H e = r /\
            node_enc H (s_root ss) = Some e /\ hash_root H (s_root ss) = Some r.
Proof.
  intros C SF. destruct (commit_root_eq_hash H H_len ss r (Some ns) C) as [HR X].
  destruct (X ns eq_refl SF) as (e & EN & HE & G & _).
  exists e. rewrite (apply_nodeset_path ns (commit_sorted H ss r ns C)), G. auto.
Qed.

(* ------------------------------------------------------------------ *)
(* non-vacuity: the events of the example session are consistent with   *)
(* the node presence of the stored trie                                 *)
(* ------------------------------------------------------------------ *)
Fixpoint consistentb (pres : list N -> bool) (ev : list tev) : bool :=
  match ev with
  | [] => true
  | e :: r =>
      match e with
      | TIns q => negb (pres q)
      | TDel q => pres q
      | TRes _ _ => true
      end && consistentb (fun p => toggle p e (pres p)) r
  end.

(* generation 2 of the example (delete key 0x13 from the stored three-key trie):
   its events contain two deletions and are consistent with the stored positions;
   afterwards deletes = {[1;2]; [1;3]} *)
Definition ex_tracer_ok : bool :=
  match open_trie toyH PathScheme ex_S1 ex_root1 with
  | TOk s0 =>
      let k := Hex.keybytes_to_hex [19] in
      match delete (resolve_of toyH PathScheme ex_S1) (ops_fuel k) (s_root s0) [] k with
      | TOk (true, _, ev) =>
          consistentb (fun p => am_has p ex_S1) ev &&
          Nat.eqb (length (filter (fun e => match e with TDel _ => true | _ => false end) ev)) 2 &&
          Nat.eqb (length (deleted_nodes (trace_evs (s_tr s0) ev))) 2
      | _ => false
      end
  | TErr _ => false
  end.
