(* Trie/CommitProofs.v — lemmas about Trie/Commit.v (model of trie.Commit,
   committer, tracers, node sets and the hash/path node stores). *)
From GV Require Import Lib.Tactics Lib.Bytes Rlp.Codec Trie.Hex Trie.Node Trie.Ops Trie.Hash Trie.Commit.
Local Open Scope N_scope.

(* ------------------------------------------------------------------ *)
(* byte strings and association maps                                   *)
(* ------------------------------------------------------------------ *)
Lemma beqb_eq a : forall b, bytes_eqb a b = true <-> a = b.
Proof.
  induction a as [|x a IH]; intros [|y b]; cbn; split; intro E; try congruence; try discriminate.
  - apply andb_true_iff in E. destruct E as [E1 E2]. apply N.eqb_eq in E1. apply IH in E2. congruence.
  - inversion E; subst. rewrite N.eqb_refl. cbn. apply IH. reflexivity.
Qed.

Lemma beqb_refl a : bytes_eqb a a = true.
Proof. apply beqb_eq. reflexivity. Qed.

Lemma beqb_neq a b : a <> b -> bytes_eqb a b = false.
Proof. intro E. destruct (bytes_eqb a b) eqn:B; [|reflexivity]. apply beqb_eq in B. contradiction. Qed.

Lemma beqb_sym a b : bytes_eqb a b = bytes_eqb b a.
Proof.
  destruct (bytes_eqb a b) eqn:E.
  - apply beqb_eq in E. subst. symmetry. apply beqb_refl.
  - destruct (bytes_eqb b a) eqn:E'; [|reflexivity]. apply beqb_eq in E'. subst.
    rewrite beqb_refl in E. discriminate.
Qed.

Lemma bcmp_eq a : forall b, bytes_cmp a b = Eq <-> a = b.
Proof.
  induction a as [|x a IH]; intros [|y b]; cbn; split; intro E; try congruence; try discriminate.
  - destruct (N.compare x y) eqn:C; try discriminate.
    apply N.compare_eq in C. apply IH in E. congruence.
  - inversion E; subst. rewrite N.compare_refl. apply IH. reflexivity.
Qed.

(* destruct the scrutinee of the outermost match of hypothesis E *)
Ltac dmatch E :=
  match type of E with
  | match ?X with _ => _ end = _ => destruct X eqn:?
  end.

Section AMap.
  Context {A : Type}.
  Implicit Types m : amap A.

  Lemma am_get_put k k' (v : A) m :
    am_get k (am_put k' v m) = if bytes_eqb k k' then Some v else am_get k m.
  Proof.
    induction m as [|[k0 v0] r IH]; cbn.
    - destruct (bytes_eqb k k'); reflexivity.
    - destruct (bytes_cmp k' k0) eqn:C; cbn.
      + apply bcmp_eq in C. subst k0. destruct (bytes_eqb k k'); reflexivity.
      + destruct (bytes_eqb k k'); reflexivity.
      + rewrite IH. destruct (bytes_eqb k k0) eqn:E0; [|reflexivity].
        destruct (bytes_eqb k k') eqn:E1; [|reflexivity].
        apply beqb_eq in E0. apply beqb_eq in E1. subst.
        assert (X : bytes_cmp k0 k0 = Eq) by (apply bcmp_eq; reflexivity). congruence.
  Qed.

  Lemma am_get_put_same k (v : A) m : am_get k (am_put k v m) = Some v.
  Proof. rewrite am_get_put, beqb_refl. reflexivity. Qed.

  Lemma am_get_put_other k k' (v : A) m : k <> k' -> am_get k (am_put k' v m) = am_get k m.
  Proof. intro E. rewrite am_get_put, beqb_neq by assumption. reflexivity. Qed.

  Lemma am_get_del k k' m :
    am_get k (am_del k' m) = if bytes_eqb k k' then None else am_get k m.
  Proof.
    induction m as [|[k0 v0] r IH]; cbn.
    - destruct (bytes_eqb k k'); reflexivity.
    - destruct (bytes_eqb k' k0) eqn:E0; cbn.
      + rewrite IH. apply beqb_eq in E0. subst k0.
        destruct (bytes_eqb k k'); reflexivity.
      + rewrite IH. destruct (bytes_eqb k k0) eqn:E1; [|reflexivity].
        apply beqb_eq in E1. subst k0. rewrite beqb_sym, E0. reflexivity.
  Qed.

  Lemma am_get_in k (v : A) m : am_get k m = Some v -> In (k, v) m.
  Proof.
    induction m as [|[k0 v0] r IH]; cbn; [discriminate|].
    destruct (bytes_eqb k k0) eqn:E.
    - apply beqb_eq in E. intro X. inversion X; subst. left. reflexivity.
    - intro X. right. apply IH. exact X.
  Qed.

  Lemma am_in_get k (v : A) m : In (k, v) m -> exists v', am_get k m = Some v'.
  Proof.
    induction m as [|[k0 v0] r IH]; cbn; [tauto|].
    intros [E|I].
    - inversion E; subst. rewrite beqb_refl. eauto.
    - destruct (bytes_eqb k k0); eauto.
  Qed.
End AMap.

Lemma am_has_true {A} k (m : amap A) : am_has k m = true <-> exists v, am_get k m = Some v.
Proof.
  unfold am_has. destruct (am_get k m); split; intro X; eauto; try discriminate.
  destruct X as [v X]. discriminate.
Qed.

(* ------------------------------------------------------------------ *)
(* pre-values come from the store                                      *)
(* ------------------------------------------------------------------ *)
Section Events.
  Variable resolve : list N -> list N -> option (node * list N).

  (* every blob recorded by a TRes event was returned by [resolve] at that path *)
  Definition ev_ok (e : tev) : Prop :=
    match e with
    | TRes p b => exists h n, resolve h p = Some (n, b)
    | _ => True
    end.
  Definition evs_ok (ev : list tev) : Prop := Forall ev_ok ev.

  Lemma evs_ok_app a b : evs_ok a -> evs_ok b -> evs_ok (a ++ b).
  Proof. intros. apply Forall_app. split; assumption. Qed.
  Lemma evs_ok_nil : evs_ok [].
  Proof. constructor. Qed.
  Lemma evs_ok_cons_res h p n b ev : resolve h p = Some (n, b) -> evs_ok ev -> evs_ok (TRes p b :: ev).
  Proof. intros R E. constructor; [exists h, n; exact R|exact E]. Qed.
  Lemma evs_ok_one e : ev_ok e -> evs_ok [e].
  Proof. intro. constructor; [assumption|constructor]. Qed.
  Hint Resolve evs_ok_app evs_ok_nil evs_ok_cons_res evs_ok_one : evs.

  Lemma get_evs_ok : forall f n path key v n' d ev,
    get resolve f n path key = TOk (v, n', d, ev) -> evs_ok ev.
  Proof.
    induction f as [|f IH]; intros n path key v n' d ev E; cbn in E; [discriminate|].
    destruct n as [|val|nk nv|cs|h].
    - inversion E; subst. constructor.
    - inversion E; subst. constructor.
    - destruct (negb (is_prefix_of nk key)); [inversion E; subst; constructor|].
      destruct (get resolve f nv (path ++ nk) (skipn (length nk) key)) as [[[[v0 n0] [|]] ev0]|e] eqn:G;
        inversion E; subst; eapply IH; exact G.
    - destruct key as [|k0 kr]; [discriminate|].
      destruct (child cs k0) as [c|]; [|discriminate].
      destruct (get resolve f c (path ++ [k0]) kr) as [[[[v0 n0] [|]] ev0]|e] eqn:G; try discriminate.
      + destruct (set_child cs k0 n0); inversion E; subst. eapply IH; exact G.
      + inversion E; subst. eapply IH; exact G.
    - destruct (resolve h path) as [[rn blob]|] eqn:R; [|discriminate].
      destruct (get resolve f rn path key) as [[[[v0 n0] d0] ev0]|e] eqn:G; [|discriminate].
      inversion E; subst. eapply evs_ok_cons_res; [exact R|]. eapply IH; exact G.
  Qed.

  Lemma insert_nil_evs p k c : evs_ok (snd (insert_nil p k c)).
  Proof. unfold insert_nil. destruct k; cbn; repeat constructor. Qed.

  Lemma insert_evs_ok : forall f n prefix key value d n' ev,
    insert resolve f n prefix key value = TOk (d, n', ev) -> evs_ok ev.
  Proof.
    induction f as [|f IH]; intros n prefix key value d n' ev E; cbn in E; [discriminate|].
    destruct key as [|k0 kr].
    - destruct n, value; try discriminate; inversion E; subst; constructor.
    - destruct n as [|val|nk nv|cs|h].
      + inversion E; subst. repeat constructor.
      + discriminate.
      + destruct (Nat.eqb (prefix_len (k0 :: kr) nk) (length nk)).
        * match type of E with match ?X with _ => _ end = _ => destruct X as [[[[|] n0] ev0]|e] eqn:G end;
            inversion E; subst; eapply IH; exact G.
        * destruct (nth_error nk (prefix_len (k0 :: kr) nk)); [|discriminate].
          destruct (nth_error (k0 :: kr) (prefix_len (k0 :: kr) nk)); [|discriminate].
          match type of E with context [insert_nil ?a ?b ?c] =>
            pose proof (insert_nil_evs a b c) as X1; destruct (insert_nil a b c) as [c1 ev1] end.
          match type of E with context [insert_nil ?a ?b ?c] =>
            pose proof (insert_nil_evs a b c) as X2; destruct (insert_nil a b c) as [c2 ev2] end.
          cbn in X1, X2.
          dmatch E; [|discriminate]. dmatch E; [|discriminate].
          destruct (Nat.eqb (prefix_len (k0 :: kr) nk) 0); inversion E; subst.
          -- apply evs_ok_app; assumption.
          -- apply evs_ok_app; [assumption|]. apply evs_ok_app; [assumption|]. repeat constructor.
      + destruct (child cs k0) as [c|]; [|discriminate].
        destruct (insert resolve f c (prefix ++ [k0]) kr value) as [[[[|] n0] ev0]|e] eqn:G; try discriminate.
        * destruct (set_child cs k0 n0); inversion E; subst. eapply IH; exact G.
        * inversion E; subst. eapply IH; exact G.
      + destruct (resolve h prefix) as [[rn blob]|] eqn:R; [|discriminate].
        destruct (insert resolve f rn prefix (k0 :: kr) value) as [[[[|] n0] ev0]|e] eqn:G; try discriminate;
          inversion E; subst; (eapply evs_ok_cons_res; [exact R|]); eapply IH; exact G.
  Qed.

  Lemma delete_evs_ok : forall f n prefix key d n' ev,
    delete resolve f n prefix key = TOk (d, n', ev) -> evs_ok ev.
  Proof.
    induction f as [|f IH]; intros n prefix key d n' ev E; cbn [delete] in E; [discriminate|].
    destruct n as [|val|nk nv|cs|h].
    - inversion E; subst. constructor.
    - inversion E; subst. constructor.
    - dmatch E; [inversion E; subst; constructor|].
      dmatch E; [inversion E; subst; repeat constructor|].
      match type of E with match ?X with _ => _ end = _ => destruct X as [[[[|] n0] ev0]|e] eqn:G end;
        try discriminate.
      + apply IH in G. destruct n0; inversion E; subst; try assumption.
        apply evs_ok_app; [assumption|repeat constructor].
      + inversion E; subst. eapply IH; exact G.
    - destruct key as [|k0 kr]; [discriminate|].
      destruct (child cs k0) as [c|]; [|discriminate].
      destruct (delete resolve f c (prefix ++ [k0]) kr) as [[[[|] nn] ev0]|e] eqn:G; try discriminate.
      + apply IH in G.
        destruct (set_child cs k0 nn) as [cs'|]; [|discriminate].
        dmatch E; [inversion E; subst; assumption|].
        destruct (single_child cs') as [[pos|]|]; try (inversion E; subst; assumption).
        destruct (child cs' pos) as [rem|]; [|discriminate].
        dmatch E; [|inversion E; subst; assumption].
        destruct rem as [|rv|rk rc|rcs|rh]; try (inversion E; subst; try rewrite app_nil_r; try assumption;
          repeat (apply evs_ok_app; try assumption); repeat constructor).
        destruct (resolve rh (prefix ++ [pos])) as [[rn blob]|] eqn:R; [|discriminate].
        assert (X : evs_ok [TRes (prefix ++ [pos]) blob]).
        { apply evs_ok_one. exists rh, rn. exact R. }
        assert (Y : ev_ok (TRes (prefix ++ [pos]) blob)) by (exists rh, rn; exact R).
        destruct rn; inversion E; subst; repeat (apply evs_ok_app; try assumption);
          repeat (constructor; try assumption); cbn; auto.
      + inversion E; subst. eapply IH; exact G.
    - destruct (resolve h prefix) as [[rn blob]|] eqn:R; [|discriminate].
      destruct (delete resolve f rn prefix key) as [[[[|] n0] ev0]|e] eqn:G; try discriminate;
        inversion E; subst; (eapply evs_ok_cons_res; [exact R|]); eapply IH; exact G.
  Qed.

  (* the pre-value map holds only blobs that [resolve] returned at that path *)
  Definition pv_ok (tr : tracer) : Prop :=
    forall p b, am_get p (tr_pv tr) = Some b -> exists h n, resolve h p = Some (n, b).

  Lemma pv_ok_empty : pv_ok tr_empty.
  Proof. intros p b E. discriminate. Qed.

  Lemma pv_ok_put p b tr h n : resolve h p = Some (n, b) -> pv_ok tr -> pv_ok (pv_put p b tr).
  Proof.
    intros R O q c E. cbn in E. rewrite am_get_put in E.
    destruct (bytes_eqb q p) eqn:Q.
    - apply beqb_eq in Q. inversion E; subst. eauto.
    - apply O. exact E.
  Qed.

  Lemma trace_ev_pv_ok tr e : ev_ok e -> pv_ok tr -> pv_ok (trace_ev tr e).
  Proof.
    destruct e as [p|p|p b]; cbn; intros Ee O.
    - unfold on_insert. destruct (am_has p (tr_del tr)); exact O.
    - unfold on_delete. destruct (am_has p (tr_ins tr)); exact O.
    - destruct Ee as (h & n & R). eapply pv_ok_put; eassumption.
  Qed.

  Lemma trace_evs_pv_ok ev : forall tr, evs_ok ev -> pv_ok tr -> pv_ok (trace_evs tr ev).
  Proof.
    induction ev as [|e ev IH]; intros tr E O; cbn; [exact O|].
    inversion E; subst. apply IH; [assumption|]. apply trace_ev_pv_ok; assumption.
  Qed.
End Events.

(* ------------------------------------------------------------------ *)
(* node encoding with a top-level children loop                        *)
(* ------------------------------------------------------------------ *)
Section Enc.
  Variable H : list N -> list N.

  Definition child_enc (i : nat) (c : node) : option (list N) :=
    match c with
    | NEmpty => Some [128]
    | _ =>
        if Nat.eqb i 16 then
          match c with
          | NValue [] => Some [128]
          | NValue v => Some (enc_str v)
          | _ => None
          end
        else
          match c with
          | NHash [] => Some [128]
          | NHash h => Some (write_ref h)
          | NShort _ _ | NFull _ =>
              match node_enc H c with
              | Some e => Some (write_ref (ref_of_enc H e))
              | None => None
              end
          | _ => None
          end
    end.

  Fixpoint children_enc (i : nat) (l : list node) : option (list N) :=
    match l with
    | [] => Some []
    | c :: r =>
        match child_enc i c, children_enc (S i) r with
        | Some a, Some b => Some (a ++ b)
        | _, _ => None
        end
    end.

  Lemma node_enc_full cs :
    node_enc H (NFull cs) =
    match children_enc 0 cs with Some p => Some (list_wrap p) | None => None end.
  Proof.
    cbn [node_enc].
    match goal with |- context [?F 0%nat cs] => set (g := F) end.
    assert (X : forall l i, g i l = children_enc i l).
    { induction l as [|c r IH]; intro i; [reflexivity|].
      unfold g. simpl. fold g. rewrite IH.
      unfold child_enc.
      destruct c as [|[|]| | |[|]]; try reflexivity; destruct (Nat.eqb i 16); reflexivity. }
    rewrite X. reflexivity.
  Qed.

  (* body of a short node: how its child is written *)
  Definition short_body (k : list N) (c : node) : option (list N) :=
    if has_term k then
      match c with NValue v => Some (enc_str v) | _ => None end
    else
      match c with
      | NHash h => Some (write_ref h)
      | NShort _ _ | NFull _ =>
          match node_enc H c with
          | Some e => Some (write_ref (ref_of_enc H e))
          | None => None
          end
      | _ => None
      end.

  Lemma node_enc_short k c :
    node_enc H (NShort k c) =
    match hex_to_compact k with
    | None => None
    | Some ck => match short_body k c with
                 | Some b => Some (list_wrap (enc_str ck ++ b))
                 | None => None
                 end
    end.
  Proof. reflexivity. Qed.
End Enc.

(* ------------------------------------------------------------------ *)
(* committing collapses nodes without changing any encoding            *)
(* ------------------------------------------------------------------ *)
Section Collapse.
  Variable H : list N -> list N.
  Hypothesis H_len : forall x, length (H x) = 32%nat.

  Definition is_sf (n : node) : bool :=
    match n with NShort _ _ | NFull _ => true | _ => false end.

  (* what committer.commit returns for [n], as seen by the parent of [n] *)
  Definition collapse_spec (force : bool) (n n' : node) : Prop :=
    match n with
    | NShort _ _ | NFull _ =>
        exists e, node_enc H n = Some e /\
          ((hashedb force e = true /\ n' = NHash (H e)) \/
           (hashedb force e = false /\ node_enc H n' = Some e /\ is_sf n' = true))
    | NHash _ => n' = n
    | _ => False
    end.

  Lemma hashed_ref e : hashedb false e = true -> ref_of_enc H e = H e.
  Proof.
    unfold hashedb, ref_of_enc. cbn [orb]. intro L. apply Nat.leb_le in L.
    destruct (Nat.ltb (length e) 32) eqn:X; [|reflexivity]. apply Nat.ltb_lt in X. lia.
  Qed.

  Lemma H_cons e : exists x r, H e = x :: r.
  Proof. pose proof (H_len e) as L. destruct (H e); [discriminate|eauto]. Qed.

  Lemma collapse_child_enc c c' i :
    collapse_spec false c c' -> i <> 16%nat -> child_enc H i c' = child_enc H i c.
  Proof.
    intros S I. apply Nat.eqb_neq in I.
    destruct c as [|v|k cc|cs|h]; unfold collapse_spec in S; try contradiction.
    - destruct S as (e & E & [[Hh ->]|(Hh & E' & SF)]).
      + unfold child_enc. rewrite I, E, hashed_ref by exact Hh.
        destruct (H_cons e) as (x & r & X). rewrite X. reflexivity.
      + unfold child_enc. rewrite I, E. destruct c'; try discriminate; rewrite E'; reflexivity.
    - destruct S as (e & E & [[Hh ->]|(Hh & E' & SF)]).
      + unfold child_enc. rewrite I, E, hashed_ref by exact Hh.
        destruct (H_cons e) as (x & r & X). rewrite X. reflexivity.
      + unfold child_enc. rewrite I, E. destruct c'; try discriminate; rewrite E'; reflexivity.
    - subst. reflexivity.
  Qed.

  Lemma collapse_short_body c c' k :
    collapse_spec false c c' -> short_body H k c' = short_body H k c.
  Proof.
    intros S.
    destruct c as [|v|k0 cc|cs|h]; unfold collapse_spec in S; try contradiction.
    - destruct S as (e & E & [[Hh ->]|(Hh & E' & SF)]); unfold short_body; destruct (has_term k).
      + reflexivity.
      + rewrite E, hashed_ref by exact Hh. reflexivity.
      + destruct c'; try discriminate; reflexivity.
      + rewrite E. destruct c'; try discriminate; rewrite E'; reflexivity.
    - destruct S as (e & E & [[Hh ->]|(Hh & E' & SF)]); unfold short_body; destruct (has_term k).
      + reflexivity.
      + rewrite E, hashed_ref by exact Hh. reflexivity.
      + destruct c'; try discriminate; reflexivity.
      + rewrite E. destruct c'; try discriminate; rewrite E'; reflexivity.
    - subst. reflexivity.
  Qed.

  (* one iteration of the commitChildren loop *)
  Definition child_step (rec : list N -> node -> nodeset -> option (node * nodeset))
             (path : list N) (i : N) (c : node) (ns : nodeset) : option (node * nodeset) :=
    if N.eqb i 16 then Some (c, ns)
    else match c with
         | NEmpty | NHash _ => Some (c, ns)
         | _ => rec (path ++ [i]) c ns
         end.

  Lemma commit_children_cons rec path i c r ns :
    commit_children rec path i (c :: r) ns =
    match child_step rec path i c ns with
    | None => None
    | Some (c', ns') =>
        match commit_children rec path (i + 1) r ns' with
        | None => None
        | Some (r', ns'') => Some (c' :: r', ns'')
        end
    end.
  Proof. reflexivity. Qed.

  Lemma child_step_cases rec path i c ns c' ns' :
    child_step rec path i c ns = Some (c', ns') ->
    (c' = c /\ ns' = ns /\ (i = 16 \/ c = NEmpty \/ exists h, c = NHash h)) \/
    (i <> 16 /\ rec (path ++ [i]) c ns = Some (c', ns')).
  Proof.
    unfold child_step. destruct (N.eqb i 16) eqn:I.
    - apply N.eqb_eq in I. intro E. inversion E; subst. left. auto.
    - apply N.eqb_neq in I.
      destruct c; intro E; try (right; split; [exact I|exact E]);
        inversion E; subst; left; eauto 6.
  Qed.

  Lemma commit_children_enc rec path :
    (forall p c ns c' ns', rec p c ns = Some (c', ns') -> collapse_spec false c c') ->
    forall l i ns l' ns', commit_children rec path i l ns = Some (l', ns') ->
    children_enc H (N.to_nat i) l' = children_enc H (N.to_nat i) l.
  Proof.
    intros R. induction l as [|c r IH]; intros i ns l' ns' E.
    - inversion E; subst. reflexivity.
    - rewrite commit_children_cons in E.
      destruct (child_step rec path i c ns) as [[c' ns1]|] eqn:CS; [|discriminate].
      destruct (commit_children rec path (i + 1) r ns1) as [[r' ns'']|] eqn:CC; [|discriminate].
      inversion E; subst. cbn [children_enc].
      apply IH in CC. replace (N.to_nat (i + 1)) with (Datatypes.S (N.to_nat i)) in CC by lia.
      rewrite CC.
      apply child_step_cases in CS. destruct CS as [(-> & _ & _)|(I & RC)]; [reflexivity|].
      rewrite (collapse_child_enc c c'); [reflexivity|eapply R; exact RC|lia].
  Qed.

  Lemma store_node_collapse tr force path n0 n ns n' ns' :
    is_sf n = true -> is_sf n0 = true -> node_enc H n = node_enc H n0 ->
    store_node H tr force path n ns = Some (n', ns') -> collapse_spec force n0 n'.
  Proof.
    intros SF SF0 EQ E. unfold store_node in E. rewrite EQ in E.
    destruct (node_enc H n0) as [e|] eqn:EN; [|discriminate].
    assert (G : exists e, node_enc H n0 = Some e /\
          ((hashedb force e = true /\ n' = NHash (H e)) \/
           (hashedb force e = false /\ node_enc H n' = Some e /\ is_sf n' = true))).
    { exists e. split; [exact EN|].
      destruct (hashedb force e) eqn:Hh.
      - inversion E; subst. left. split; reflexivity.
      - right. split; [reflexivity|].
        destruct (pv_get path tr); inversion E; subst; split; assumption. }
    destruct n0; try discriminate; exact G.
  Qed.

  Lemma commit_node_collapse : forall f dirty tr force path n ns n' ns',
    commit_node H f dirty tr force path n ns = Some (n', ns') -> collapse_spec force n n'.
  Proof.
    induction f as [|f IH]; intros dirty tr force path n ns n' ns' E; cbn [commit_node] in E; [discriminate|].
    destruct (clean_hashed H dirty force path n) as [h|] eqn:CH.
    - inversion E; subst. unfold clean_hashed in CH.
      destruct n as [|v|k c|cs|hh]; try discriminate;
        destruct (dirty path); try discriminate;
        match type of CH with match ?X with _ => _ end = _ => destruct X as [e|] eqn:EN end; try discriminate;
        destruct (hashedb force e) eqn:Hh; try discriminate; inversion CH; subst;
        exists e; (split; [exact EN|]); left; (split; [exact Hh|reflexivity]).
    - destruct n as [|v|k c|cs|hh]; try discriminate.
      + assert (X : exists c' ns1, short_body H k c' = short_body H k c /\
                    store_node H tr force path (NShort k c') ns1 = Some (n', ns')).
        { destruct c as [|v|k0 cc|cs|h]; try (eexists _, ns; split; [|exact E]; reflexivity).
          destruct (commit_node H f dirty tr false (path ++ k) (NFull cs) ns) as [[c' ns1]|] eqn:RC;
            [|discriminate].
          exists c', ns1. split; [|exact E]. apply collapse_short_body. eapply IH. exact RC. }
        destruct X as (c' & ns1 & SB & ST).
        eapply store_node_collapse; [| |
          |exact ST]; try reflexivity.
        rewrite !node_enc_short, SB. reflexivity.
      + destruct (commit_children (commit_node H f dirty tr false) path 0 cs ns) as [[cs' ns1]|] eqn:CC;
          [|discriminate].
        eapply store_node_collapse; [| | |exact E]; try reflexivity.
        rewrite !node_enc_full.
        eapply commit_children_enc in CC; [|intros; eapply IH; eassumption].
        cbn in CC. rewrite CC. reflexivity.
      + inversion E; subst. reflexivity.
  Qed.

  (* a node that is not skipped as clean is rebuilt from its committed children
     (same encoding) and handed to committer.store *)
  Lemma commit_node_store f dirty tr force path n ns n' ns' :
    commit_node H (Datatypes.S f) dirty tr force path n ns = Some (n', ns') ->
    clean_hashed H dirty force path n = None -> is_sf n = true ->
    exists n2 ns1, node_enc H n2 = node_enc H n /\ is_sf n2 = true /\ store_node H tr force path n2 ns1 = Some (n', ns').
  Proof.
    intros E CH SF. cbn [commit_node] in E. rewrite CH in E.
    destruct n as [|v|k c|cs|hh]; try discriminate.
    - assert (X : exists c' ns1, short_body H k c' = short_body H k c /\
                  store_node H tr force path (NShort k c') ns1 = Some (n', ns')).
      { destruct c as [|v|k0 cc|cs|h]; try (eexists _, ns; split; [|exact E]; reflexivity).
        destruct (commit_node H f dirty tr false (path ++ k) (NFull cs) ns) as [[c' ns1]|] eqn:RC;
          [|discriminate].
        exists c', ns1. split; [|exact E]. apply collapse_short_body. eapply commit_node_collapse. exact RC. }
      destruct X as (c' & ns1 & SB & ST).
      exists (NShort k c'), ns1. split; [|split; [reflexivity|exact ST]].
      rewrite !node_enc_short, SB. reflexivity.
    - destruct (commit_children (commit_node H f dirty tr false) path 0 cs ns) as [[cs' ns1]|] eqn:CC;
        [|discriminate].
      exists (NFull cs'), ns1. split; [|split; [reflexivity|exact E]].
      rewrite !node_enc_full.
      eapply commit_children_enc in CC; [|intros; eapply commit_node_collapse; eassumption].
      cbn in CC. rewrite CC. reflexivity.
  Qed.
End Collapse.

(* ------------------------------------------------------------------ *)
(* node-set entries carry the recorded pre-value                       *)
(* ------------------------------------------------------------------ *)
Section Entries.
  Variable H : list N -> list N.

  Definition entry_ok (tr : tracer) (p : list N) (e : nentry) : Prop :=
    match e with
    | Del prev => prev <> [] /\ am_get p (tr_pv tr) = Some prev
    | Upd h blob prev => h = H blob /\ prev = pv_get p tr
    end.
  Definition ns_ok (tr : tracer) (ns : nodeset) : Prop :=
    forall p e, am_get p ns = Some e -> entry_ok tr p e.

  (* recorded pre-values are never empty *)
  Definition pv_ne (tr : tracer) : Prop := forall p b, am_get p (tr_pv tr) = Some b -> b <> [].

  Lemma ns_ok_nil tr : ns_ok tr [].
  Proof. intros p e E. discriminate. Qed.

  Lemma ns_ok_put tr p e ns : entry_ok tr p e -> ns_ok tr ns -> ns_ok tr (am_put p e ns).
  Proof.
    intros Oe O q e' E. rewrite am_get_put in E. destruct (bytes_eqb q p) eqn:Q.
    - apply beqb_eq in Q. inversion E; subst. exact Oe.
    - apply O. exact E.
  Qed.

  Lemma store_node_ns_ok tr force path n ns n' ns' :
    store_node H tr force path n ns = Some (n', ns') -> ns_ok tr ns -> ns_ok tr ns'.
  Proof.
    unfold store_node. intros E O. destruct (node_enc H n) as [e|]; [|discriminate].
    destruct (hashedb force e).
    - inversion E; subst. apply ns_ok_put; [|exact O]. split; reflexivity.
    - destruct (pv_get path tr) as [|x r] eqn:PV; inversion E; subst; [exact O|].
      apply ns_ok_put; [|exact O]. split; [discriminate|].
      unfold pv_get in PV. destruct (am_get path (tr_pv tr)); [congruence|discriminate].
  Qed.

  Lemma commit_children_ns_ok tr rec path :
    (forall p c ns c' ns', rec p c ns = Some (c', ns') -> ns_ok tr ns -> ns_ok tr ns') ->
    forall l i ns l' ns', commit_children rec path i l ns = Some (l', ns') -> ns_ok tr ns -> ns_ok tr ns'.
  Proof.
    intros R. induction l as [|c r IH]; intros i ns l' ns' E O.
    - inversion E; subst. exact O.
    - rewrite commit_children_cons in E.
      destruct (child_step rec path i c ns) as [[c' ns1]|] eqn:CS; [|discriminate].
      destruct (commit_children rec path (i + 1) r ns1) as [[r' ns'']|] eqn:CC; [|discriminate].
      inversion E; subst. eapply IH; [exact CC|].
      apply child_step_cases in CS. destruct CS as [(_ & -> & _)|(_ & RC)]; [exact O|].
      eapply R; eassumption.
  Qed.

  Lemma commit_node_ns_ok : forall f dirty tr force path n ns n' ns',
    commit_node H f dirty tr force path n ns = Some (n', ns') -> ns_ok tr ns -> ns_ok tr ns'.
  Proof.
    induction f as [|f IH]; intros dirty tr force path n ns n' ns' E O; cbn [commit_node] in E; [discriminate|].
    destruct (clean_hashed H dirty force path n) as [h|].
    - inversion E; subst. exact O.
    - destruct n as [|v|k c|cs|hh]; try discriminate.
      + assert (X : exists c' ns1, ns_ok tr ns1 /\
                    store_node H tr force path (NShort k c') ns1 = Some (n', ns')).
        { destruct c as [|v|k0 cc|cs|h]; try (eexists _, ns; split; [|exact E]; exact O).
          destruct (commit_node H f dirty tr false (path ++ k) (NFull cs) ns) as [[c' ns1]|] eqn:RC;
            [|discriminate].
          exists c', ns1. split; [|exact E]. eapply IH; eassumption. }
        destruct X as (c' & ns1 & O1 & ST). eapply store_node_ns_ok; eassumption.
      + destruct (commit_children (commit_node H f dirty tr false) path 0 cs ns) as [[cs' ns1]|] eqn:CC;
          [|discriminate].
        eapply store_node_ns_ok; [exact E|].
        eapply commit_children_ns_ok; [|exact CC|exact O].
        intros; eapply IH; eassumption.
      + inversion E; subst. exact O.
  Qed.

  Lemma deleted_nodes_has tr p : In p (deleted_nodes tr) -> am_has p (tr_pv tr) = true.
  Proof.
    unfold deleted_nodes. intro I. apply in_map_iff in I. destruct I as ([q u] & <- & I).
    apply filter_In in I. exact (proj2 I).
  Qed.

  Lemma add_deletions_ns_ok tr ns : pv_ne tr -> ns_ok tr ns -> ns_ok tr (add_deletions tr ns).
  Proof.
    intros NE. unfold add_deletions.
    assert (X : forall l ns0, (forall p, In p l -> am_has p (tr_pv tr) = true) -> ns_ok tr ns0 ->
              ns_ok tr (fold_left (fun ns1 p => am_put p (Del (pv_get p tr)) ns1) l ns0)).
    { induction l as [|p l IH]; intros ns0 A O; cbn; [exact O|].
      apply IH; [intros q I; apply A; right; exact I|].
      apply ns_ok_put; [|exact O].
      assert (Hp : am_has p (tr_pv tr) = true) by (apply A; left; reflexivity).
      apply am_has_true in Hp. destruct Hp as [b Hb].
      unfold pv_get. rewrite Hb. split; [eapply NE; exact Hb|exact Hb]. }
    intro O. apply X; [|exact O]. intros p I. apply deleted_nodes_has. exact I.
  Qed.

  Lemma commit_ns_ok ss r ns :
    commit H ss = Some (r, Some ns) -> pv_ne (s_tr ss) -> ns_ok (s_tr ss) ns.
  Proof.
    unfold commit. intros E NE.
    destruct (s_root ss) as [|v|k c|cs|h] eqn:RT.
    1: { destruct (deleted_nodes (s_tr ss)) eqn:D; inversion E; subst.
         apply add_deletions_ns_ok; [exact NE|apply ns_ok_nil]. }
    all: repeat (dmatch E; try discriminate); inversion E; subst;
      (eapply commit_node_ns_ok; [eassumption|]);
      (apply add_deletions_ns_ok; [exact NE|apply ns_ok_nil]).
  Qed.
End Entries.

(* ------------------------------------------------------------------ *)
(* sessions: every history of Update/Delete/Get on an opened trie      *)
(* ------------------------------------------------------------------ *)
Section Sessions.
  Variable H : list N -> list N.
  Hypothesis H_len : forall x, length (H x) = 32%nat.
  Variable sc : scheme.
  Variable S : store.

  Lemma getnode_evs_ok dirty : forall f n done rest g n' r ev,
    getnode H f sc S dirty n done rest = (g, n', r, ev) -> evs_ok (resolve_of H sc S) ev.
  Proof.
    induction f as [|f IH]; intros n done rest g n' r ev E; cbn [getnode] in E.
    - inversion E; subst. constructor.
    - destruct n as [|v|k c|cs|h]; [inversion E; subst; constructor| | | |].
      + destruct rest; [|inversion E; subst; constructor].
        inversion E; subst; constructor.
      + destruct rest as [|r0 rr].
        * repeat (dmatch E; try (inversion E; subst; constructor)).
        * dmatch E; [inversion E; subst; constructor|].
          destruct (getnode H f sc S dirty c (done ++ k) (skipn (length k) (r0 :: rr))) as [[[g1 c1] r1] ev1] eqn:G.
          inversion E; subst. eapply IH; exact G.
      + destruct rest as [|r0 rr].
        * repeat (dmatch E; try (inversion E; subst; constructor)).
        * destruct (child cs r0) as [c|]; [|inversion E; subst; constructor].
          destruct (getnode H f sc S dirty c (done ++ [r0]) rr) as [[[g1 c1] r1] ev1] eqn:G.
          apply IH in G.
          destruct (gres_ok g1 && r1); [destruct (set_child cs r0 c1)|]; inversion E; subst; exact G.
      + destruct rest as [|r0 rr].
        * repeat (dmatch E; try (inversion E; subst; constructor)).
        * destruct (resolve_of H sc S h done) as [[rn blob]|] eqn:RS; [|inversion E; subst; constructor].
          destruct (getnode H f sc S dirty rn done (r0 :: rr)) as [[[g1 c1] r1] ev1] eqn:G.
          inversion E; subst. constructor; [exists h, rn; exact RS|eapply IH; exact G].
  Qed.

  (* the states a trie session can reach: trie.New, then any operations *)
  Inductive reach : sess -> Prop :=
  | reach_open root ss : open_trie H sc S root = TOk ss -> reach ss
  | reach_update ss k v ss' : reach ss -> sess_update H sc S ss k v = TOk ss' -> reach ss'
  | reach_get ss k v ss' : reach ss -> sess_get H sc S ss k = TOk (v, ss') -> reach ss'
  | reach_getnode ss path g ss' : reach ss -> sess_getnode H sc S ss path = (g, ss') -> reach ss'.

  Lemma reach_pv_ok ss : reach ss -> pv_ok (resolve_of H sc S) (s_tr ss).
  Proof.
    induction 1 as [root ss O|ss k v ss' R IH U|ss k v ss' R IH G|ss path g ss' R IH G].
    - unfold open_trie in O. destruct (bytes_eqb root (H empty_root_preimage)).
      + inversion O; subst. apply pv_ok_empty.
      + destruct (resolve_of H sc S root []) as [[n blob]|] eqn:RS; inversion O; subst.
        cbn. eapply pv_ok_put; [exact RS|apply pv_ok_empty].
    - unfold sess_update in U.
      destruct v as [|v0 vr].
      + destruct (delete (resolve_of H sc S) (ops_fuel (keybytes_to_hex k)) (s_root ss) [] (keybytes_to_hex k))
          as [[[d n] ev]|e] eqn:D; inversion U; subst. cbn.
        apply trace_evs_pv_ok; [eapply delete_evs_ok; exact D|exact IH].
      + destruct (insert (resolve_of H sc S) (ops_fuel (keybytes_to_hex k)) (s_root ss) [] (keybytes_to_hex k)
                         (NValue (v0 :: vr))) as [[[d n] ev]|e] eqn:D; inversion U; subst. cbn.
        apply trace_evs_pv_ok; [eapply insert_evs_ok; exact D|exact IH].
    - unfold sess_get, trie_get in G.
      destruct (get (resolve_of H sc S) (ops_fuel (keybytes_to_hex k)) (s_root ss) [] (keybytes_to_hex k))
        as [[[[v1 n] d] ev]|e] eqn:D; inversion G; subst. cbn.
      apply trace_evs_pv_ok; [eapply get_evs_ok; exact D|exact IH].
    - unfold sess_getnode, sess_getnode_with in G.
      destruct (getnode H (2 * length path + 4) sc S (dirty_at ss) (s_root ss) [] path) as [[[g1 n1] r1] ev1] eqn:D.
      inversion G; subst. cbn [s_tr].
      apply trace_evs_pv_ok; [eapply getnode_evs_ok; exact D|exact IH].
  Qed.

  Lemma resolve_of_blob h p n b :
    resolve_of H sc S h p = Some (n, b) ->
    b <> [] /\ am_get (match sc with PathScheme => p | HashScheme => h end) S = Some b /\
    (sc = PathScheme -> H b = h).
  Proof.
    unfold resolve_of. intro E.
    assert (X : exists b0, (match sc with
                            | HashScheme => am_get h S
                            | PathScheme => match am_get p S with
                                            | Some b => if bytes_eqb (H b) h then Some b else None
                                            | None => None
                                            end
                            end) = Some b0 /\ decode_node b0 = DOk n /\ b0 = b).
    { dmatch E; [|discriminate]. exists l. split; [reflexivity|].
      destruct (decode_node l) eqn:D; inversion E; subst. split; reflexivity. }
    destruct X as (b0 & L & D & <-).
    split; [intro Z; subst; cbn in D; discriminate|].
    destruct sc.
    - split; [exact L|discriminate].
    - destruct (am_get p S) as [b1|]; [|discriminate].
      destruct (bytes_eqb (H b1) h) eqn:HB; inversion L; subst.
      split; [reflexivity|]. intros _. apply beqb_eq. exact HB.
  Qed.

  Lemma reach_pv_ne ss : reach ss -> pv_ne (s_tr ss).
  Proof.
    intros R p b E. apply reach_pv_ok in R. destruct (R p b E) as (h & n & RS).
    apply resolve_of_blob in RS. tauto.
  Qed.

  (* C07 deletions_carry_prev: every deletion of the committed node set carries a
     non-empty previous value, and it is the blob the session read at that path *)
  Theorem deletions_carry_prev ss r ns p prev :
    reach ss -> commit H ss = Some (r, Some ns) -> am_get p ns = Some (Del prev) ->
    prev <> [] /\
    exists h n, resolve_of H sc S h p = Some (n, prev).
  Proof.
    intros R C G. pose proof (commit_ns_ok H ss r ns C (reach_pv_ne ss R) p _ G) as [NE PV].
    split; [exact NE|]. exact (reach_pv_ok ss R p prev PV).
  Qed.

  (* written nodes carry their hash, and as previous value either nothing or the
     blob the session read at that path *)
  Theorem updates_carry_prev ss r ns p h blob prev :
    reach ss -> commit H ss = Some (r, Some ns) -> am_get p ns = Some (Upd h blob prev) ->
    h = H blob /\ (prev = [] \/ exists h' n, resolve_of H sc S h' p = Some (n, prev)).
  Proof.
    intros R C G. pose proof (commit_ns_ok H ss r ns C (reach_pv_ne ss R) p _ G) as [HH PV].
    split; [exact HH|]. unfold pv_get in PV.
    destruct (am_get p (tr_pv (s_tr ss))) as [b|] eqn:E; [|left; exact PV].
    right. subst prev. exact (reach_pv_ok ss R p b E).
  Qed.
End Sessions.

(* under the path scheme "the blob read at that path" is the blob stored at that path *)
Theorem deletions_carry_prev_path H S ss r ns p prev :
  reach H PathScheme S ss -> commit H ss = Some (r, Some ns) -> am_get p ns = Some (Del prev) ->
  prev <> [] /\ am_get p S = Some prev.
Proof.
  intros R C G. destruct (deletions_carry_prev H PathScheme S ss r ns p prev R C G) as (NE & h & n & RS).
  split; [exact NE|]. apply resolve_of_blob in RS. tauto.
Qed.

Theorem updates_carry_prev_path H S ss r ns p h blob prev :
  reach H PathScheme S ss -> commit H ss = Some (r, Some ns) -> am_get p ns = Some (Upd h blob prev) ->
  h = H blob /\ (prev = [] \/ am_get p S = Some prev).
Proof.
  intros R C G. destruct (updates_carry_prev H PathScheme S ss r ns p h blob prev R C G) as (HH & [E|(h' & n & RS)]).
  - split; [exact HH|left; exact E].
  - split; [exact HH|right]. apply resolve_of_blob in RS. tauto.
Qed.

(* ------------------------------------------------------------------ *)
(* the committed root                                                  *)
(* ------------------------------------------------------------------ *)
Section Root.
  Variable H : list N -> list N.
  Hypothesis H_len : forall x, length (H x) = 32%nat.

  Lemma commit_root_entry dirty tr n ns n' ns' :
    commit_node H commit_fuel dirty tr true [] n ns = Some (n', ns') ->
    dirty [] = true -> is_sf n = true ->
    exists e, node_enc H n = Some e /\ n' = NHash (H e) /\
              am_get [] ns' = Some (Upd (H e) e (pv_get [] tr)).
  Proof.
    intros E D SF. unfold commit_fuel in E.
    apply (commit_node_store H H_len) in E; [|destruct n; try discriminate; unfold clean_hashed; rewrite D; reflexivity|exact SF].
    destruct E as (n2 & ns1 & EN & _ & ST). unfold store_node in ST. rewrite EN in ST.
    destruct (node_enc H n) as [e|]; [|discriminate]. cbn [hashedb orb] in ST.
    inversion ST; subst. exists e. split; [reflexivity|]. split; [reflexivity|].
    apply am_get_put_same.
  Qed.

  Lemma hash_root_sf n e : is_sf n = true -> node_enc H n = Some e -> hash_root H n = Some (H e).
  Proof.
    intros SF EN. destruct n; try discriminate; cbn [hash_root node_ref]; rewrite EN, andb_false_r; reflexivity.
  Qed.

  (* C07 commit_root_eq_hash: the returned root is Trie.Hash() of the in-memory
     trie; when a node set is returned for a non-empty trie, the committer
     collapsed the root to exactly that hash node, and the set's entry at the
     empty path is the encoding of the in-memory root, hashing to the root *)
  Theorem commit_root_eq_hash ss r ons :
    commit H ss = Some (r, ons) ->
    hash_root H (s_root ss) = Some r /\
    forall ns, ons = Some ns -> is_sf (s_root ss) = true ->
      exists e, node_enc H (s_root ss) = Some e /\ H e = r /\
                am_get [] ns = Some (Upd r e (pv_get [] (s_tr ss))) /\
                exists ns0, commit_node H commit_fuel (dirty_at ss) (s_tr ss) true []
                                        (s_root ss) ns0 = Some (NHash r, ns).
  Proof.
    unfold commit. intro E.
    destruct (s_root ss) as [|v|k c|cs|h] eqn:RT.
    - split; [|intros ns _ X; discriminate].
      destruct (deleted_nodes (s_tr ss)); inversion E; subst; reflexivity.
    - cbn in E. discriminate.
    - destruct (hash_root H (NShort k c)) as [rh|] eqn:HR; [|discriminate].
      destruct (negb (dirty_at ss [])) eqn:DR; [inversion E; subst; split; [reflexivity|discriminate]|].
      apply negb_false_iff in DR.
      dmatch E; [|discriminate]. destruct p as [[| | | |h'] ns1]; try discriminate.
      inversion E; subst. split; [reflexivity|]. intros ns X _. inversion X; subst.
      destruct (commit_root_entry _ _ _ _ _ _ Heqo DR eq_refl) as (e & EN & HN & G).
      inversion HN; subst. rewrite (hash_root_sf _ _ (eq_refl : is_sf (NShort k c) = true) EN) in HR. inversion HR; subst.
      exists e. split; [exact EN|]. split; [reflexivity|]. split; [exact G|]. eexists. exact Heqo.
    - destruct (hash_root H (NFull cs)) as [rh|] eqn:HR; [|discriminate].
      destruct (negb (dirty_at ss [])) eqn:DR; [inversion E; subst; split; [reflexivity|discriminate]|].
      apply negb_false_iff in DR.
      dmatch E; [|discriminate]. destruct p as [[| | | |h'] ns1]; try discriminate.
      inversion E; subst. split; [reflexivity|]. intros ns X _. inversion X; subst.
      destruct (commit_root_entry _ _ _ _ _ _ Heqo DR eq_refl) as (e & EN & HN & G).
      inversion HN; subst. rewrite (hash_root_sf _ _ (eq_refl : is_sf (NFull cs) = true) EN) in HR. inversion HR; subst.
      exists e. split; [exact EN|]. split; [reflexivity|]. split; [exact G|]. eexists. exact Heqo.
    - (* the root is an unresolved hash node: cannot happen after trie.New, which
         resolves the root; the model then returns the node unchanged *)
      cbn [hash_root node_ref] in E. cbn [negb] in E. cbn [commit_node commit_fuel clean_hashed] in E.
      inversion E; subst. split; [reflexivity|]. intros ns X Y. discriminate.
  Qed.
End Root.

(* ------------------------------------------------------------------ *)
(* a concrete two-generation history (for the non-vacuity examples);    *)
(* the toy hash keeps the first 32 bytes (zero padded)                  *)
(* ------------------------------------------------------------------ *)
Definition toyH (x : list N) : list N := firstn 32 (x ++ repeat 0 32).
Lemma toyH_len x : length (toyH x) = 32%nat.
Proof. unfold toyH. rewrite firstn_length, app_length, repeat_length. lia. Qed.

Definition ex_v (b : N) : list N := repeat b 40.
Definition ex_updates (sc : scheme) (S : store) (ss : sess) (kvs : list (list N * list N)) : option sess :=
  fold_left (fun o kv => match o with
                         | Some s => match sess_update toyH sc S s (fst kv) (snd kv) with
                                     | TOk s' => Some s' | TErr _ => None end
                         | None => None end) kvs (Some ss).
(* generation 1: three keys with 40-byte values into the empty path-scheme store *)
Definition ex_gen1 : option (list N * store) :=
  match open_trie toyH PathScheme [] (toyH empty_root_preimage) with
  | TOk s0 =>
      match ex_updates PathScheme [] s0 [([18], ex_v 1); ([19], ex_v 2); ([36], ex_v 3)] with
      | Some s1 => match commit toyH s1 with
                   | Some (r, Some ns) => Some (r, apply_nodeset PathScheme ns [])
                   | _ => None
                   end
      | None => None
      end
  | TErr _ => None
  end.
Definition ex_root1 : list N := Eval vm_compute in match ex_gen1 with Some (r, _) => r | None => [] end.
Definition ex_S1 : store := Eval vm_compute in match ex_gen1 with Some (_, s) => s | None => [] end.
(* generation 2: delete key 0x13 — the branch at path [1] collapses into a leaf *)
Definition ex_ss2 : option sess :=
  match open_trie toyH PathScheme ex_S1 ex_root1 with
  | TOk s0 => ex_updates PathScheme ex_S1 s0 [([19], [])]
  | TErr _ => None
  end.

(* generation 2 commits a set with an updated root, an updated node at [1] and
   deletions at [1;2] and [1;3] carrying the blobs stored there *)
Definition c07_example_ok : bool :=
  match ex_ss2 with
  | Some ss =>
      match commit toyH ss with
      | Some (r, Some ns) =>
          is_sf (s_root ss) &&
          match am_get [1; 2] ns, am_get [1; 2] ex_S1, am_get [1; 3] ns, am_get [1] ns, am_get [] ns with
          | Some (Del p1), Some b1, Some (Del p2), Some (Upd _ _ _), Some (Upd h _ _) =>
              bytes_eqb p1 b1 && negb (bytes_eqb p1 []) && negb (bytes_eqb p2 []) && bytes_eqb h r
          | _, _, _, _, _ => false
          end
      | _ => false
      end
  | None => false
  end.

Lemma ex_ss2_reach ss : ex_ss2 = Some ss -> reach toyH PathScheme ex_S1 ss.
Proof.
  unfold ex_ss2. destruct (open_trie toyH PathScheme ex_S1 ex_root1) as [s0|e] eqn:O; [|discriminate].
  unfold ex_updates. cbn [fold_left fst snd].
  destruct (sess_update toyH PathScheme ex_S1 s0 [19] []) as [s1|e] eqn:U; [|discriminate].
  intro E. inversion E; subst. eapply reach_update; [eapply reach_open; exact O|exact U].
Qed.
