(* Trie/CommitProofs.v — lemmas about Trie/Commit.v (model of trie.Commit,
   committer, tracers, node sets and the hash/path node stores). *)
From GV Require Import Lib.Tactics Lib.Bytes Rlp.Codec Trie.Hex Trie.Node Trie.Ops Trie.Hash Trie.Commit.
Local Open Scope N_scope.

(* ------------------------------------------------------------------ *)
(* byte strings and association maps                                   *)
(* ------------------------------------------------------------------ *)
Lemma beqb_eq a : forall b, bytes_eqb a b = true <-> a = b.
Proof.
  induction a as [|x a IH]; intros [|y b]; cbn; split; intro E; try congruence; try discriminate.
  - apply andb_true_iff in E. destruct E as [E1 E2]. apply N.eqb_eq in E1. apply IH in E2. congruence.
  - inversion E; subst. rewrite N.eqb_refl. cbn. apply IH. reflexivity.
Qed.

Lemma beqb_refl a : bytes_eqb a a = true.
Proof. apply beqb_eq. reflexivity. Qed.

Lemma beqb_neq a b : a <> b -> bytes_eqb a b = false.
Proof. intro E. destruct (bytes_eqb a b) eqn:B; [|reflexivity]. apply beqb_eq in B. contradiction. Qed.

Lemma beqb_sym a b : bytes_eqb a b = bytes_eqb b a.
Proof.
  destruct (bytes_eqb a b) eqn:E.
  - apply beqb_eq in E. subst. symmetry. apply beqb_refl.
  - destruct (bytes_eqb b a) eqn:E'; [|reflexivity]. apply beqb_eq in E'. subst.
    rewrite beqb_refl in E. discriminate.
Qed.

Lemma bcmp_eq a : forall b, bytes_cmp a b = Eq <-> a = b.
Proof.
  induction a as [|x a IH]; intros [|y b]; cbn; split; intro E; try congruence; try discriminate.
  - destruct (N.compare x y) eqn:C; try discriminate.
    apply N.compare_eq in C. apply IH in E. congruence.
  - inversion E; subst. rewrite N.compare_refl. apply IH. reflexivity.
Qed.

(* destruct the scrutinee of the outermost match of hypothesis E *)
Ltac dmatch E :=
  match type of E with
  | match ?X with _ => _ end = _ => destruct X eqn:?
  end.

Section AMap.
  Context {A : Type}.
  Implicit Types m : amap A.

  Lemma am_get_put k k' (v : A) m :
    am_get k (am_put k' v m) = if bytes_eqb k k' then Some v else am_get k m.
  Proof.
    induction m as [|[k0 v0] r IH]; cbn.
    - destruct (bytes_eqb k k'); reflexivity.
    - destruct (bytes_cmp k' k0) eqn:C; cbn.
      + apply bcmp_eq in C. subst k0. destruct (bytes_eqb k k'); reflexivity.
      + destruct (bytes_eqb k k'); reflexivity.
      + rewrite IH. destruct (bytes_eqb k k0) eqn:E0; [|reflexivity].
        destruct (bytes_eqb k k') eqn:E1; [|reflexivity].
        apply beqb_eq in E0. apply beqb_eq in E1. subst.
        assert (X : bytes_cmp k0 k0 = Eq) by (apply bcmp_eq; reflexivity). congruence.
  Qed.

  Lemma am_get_put_same k (v : A) m : am_get k (am_put k v m) = Some v.
  Proof. rewrite am_get_put, beqb_refl. reflexivity. Qed.

  Lemma am_get_put_other k k' (v : A) m : k <> k' -> am_get k (am_put k' v m) = am_get k m.
  Proof. intro E. rewrite am_get_put, beqb_neq by assumption. reflexivity. Qed.

  Lemma am_get_del k k' m :
    am_get k (am_del k' m) = if bytes_eqb k k' then None else am_get k m.
  Proof.
    induction m as [|[k0 v0] r IH]; cbn.
    - destruct (bytes_eqb k k'); reflexivity.
    - destruct (bytes_eqb k' k0) eqn:E0; cbn.
      + rewrite IH. apply beqb_eq in E0. subst k0.
        destruct (bytes_eqb k k'); reflexivity.
      + rewrite IH. destruct (bytes_eqb k k0) eqn:E1; [|reflexivity].
        apply beqb_eq in E1. subst k0. rewrite beqb_sym, E0. reflexivity.
  Qed.

  Lemma am_get_in k (v : A) m : am_get k m = Some v -> In (k, v) m.
  Proof.
    induction m as [|[k0 v0] r IH]; cbn; [discriminate|].
    destruct (bytes_eqb k k0) eqn:E.
    - apply beqb_eq in E. intro X. inversion X; subst. left. reflexivity.
    - intro X. right. apply IH. exact X.
  Qed.

  Lemma am_in_get k (v : A) m : In (k, v) m -> exists v', am_get k m = Some v'.
  Proof.
    induction m as [|[k0 v0] r IH]; cbn; [tauto|].
    intros [E|I].
    - inversion E; subst. rewrite beqb_refl. eauto.
    - destruct (bytes_eqb k k0); eauto.
  Qed.
End AMap.

Lemma am_has_true {A} k (m : amap A) : am_has k m = true <-> exists v, am_get k m = Some v.
Proof.
  unfold am_has. destruct (am_get k m); split; intro X; eauto; try discriminate.
  destruct X as [v X]. discriminate.
Qed.

(* ------------------------------------------------------------------ *)
(* pre-values come from the store                                      *)
(* ------------------------------------------------------------------ *)
Section Events.
  Variable resolve : list N -> list N -> option (node * list N).

  (* every blob recorded by a TRes event was returned by [resolve] at that path *)
  Definition ev_ok (e : tev) : Prop :=
    match e with
    | TRes p b => exists h n, resolve h p = Some (n, b)
    | _ => True
    end.
  Definition evs_ok (ev : list tev) : Prop := Forall ev_ok ev.

  Lemma evs_ok_app a b : evs_ok a -> evs_ok b -> evs_ok (a ++ b).
  Proof. intros. apply Forall_app. split; assumption. Qed.
  Lemma evs_ok_nil : evs_ok [].
  Proof. constructor. Qed.
  Lemma evs_ok_cons_res h p n b ev : resolve h p = Some (n, b) -> evs_ok ev -> evs_ok (TRes p b :: ev).
  Proof. intros R E. constructor; [exists h, n; exact R|exact E]. Qed.
  Lemma evs_ok_one e : ev_ok e -> evs_ok [e].
  Proof. intro. constructor; [assumption|constructor]. Qed.
  Hint Resolve evs_ok_app evs_ok_nil evs_ok_cons_res evs_ok_one : evs.

  Lemma get_evs_ok : forall f n path key v n' d ev,
    get resolve f n path key = TOk (v, n', d, ev) -> evs_ok ev.
  Proof.
    induction f as [|f IH]; intros n path key v n' d ev E; cbn in E; [discriminate|].
    destruct n as [|val|nk nv|cs|h].
    - inversion E; subst. constructor.
    - inversion E; subst. constructor.
    - destruct (negb (is_prefix_of nk key)); [inversion E; subst; constructor|].
      destruct (get resolve f nv (path ++ nk) (skipn (length nk) key)) as [[[[v0 n0] [|]] ev0]|e] eqn:G;
        inversion E; subst; eapply IH; exact G.
    - destruct key as [|k0 kr]; [discriminate|].
      destruct (child cs k0) as [c|]; [|discriminate].
      destruct (get resolve f c (path ++ [k0]) kr) as [[[[v0 n0] [|]] ev0]|e] eqn:G; try discriminate.
      + destruct (set_child cs k0 n0); inversion E; subst. eapply IH; exact G.
      + inversion E; subst. eapply IH; exact G.
    - destruct (resolve h path) as [[rn blob]|] eqn:R; [|discriminate].
      destruct (get resolve f rn path key) as [[[[v0 n0] d0] ev0]|e] eqn:G; [|discriminate].
      inversion E; subst. eapply evs_ok_cons_res; [exact R|]. eapply IH; exact G.
  Qed.

  Lemma insert_nil_evs p k c : evs_ok (snd (insert_nil p k c)).
  Proof. unfold insert_nil. destruct k; cbn; repeat constructor. Qed.

  Lemma insert_evs_ok : forall f n prefix key value d n' ev,
    insert resolve f n prefix key value = TOk (d, n', ev) -> evs_ok ev.
  Proof.
    induction f as [|f IH]; intros n prefix key value d n' ev E; cbn in E; [discriminate|].
    destruct key as [|k0 kr].
    - destruct n, value; try discriminate; inversion E; subst; constructor.
    - destruct n as [|val|nk nv|cs|h].
      + inversion E; subst. repeat constructor.
      + discriminate.
      + destruct (Nat.eqb (prefix_len (k0 :: kr) nk) (length nk)).
        * match type of E with match ?X with _ => _ end = _ => destruct X as [[[[|] n0] ev0]|e] eqn:G end;
            inversion E; subst; eapply IH; exact G.
        * destruct (nth_error nk (prefix_len (k0 :: kr) nk)); [|discriminate].
          destruct (nth_error (k0 :: kr) (prefix_len (k0 :: kr) nk)); [|discriminate].
          match type of E with context [insert_nil ?a ?b ?c] =>
            pose proof (insert_nil_evs a b c) as X1; destruct (insert_nil a b c) as [c1 ev1] end.
          match type of E with context [insert_nil ?a ?b ?c] =>
            pose proof (insert_nil_evs a b c) as X2; destruct (insert_nil a b c) as [c2 ev2] end.
          cbn in X1, X2.
          dmatch E; [|discriminate]. dmatch E; [|discriminate].
          destruct (Nat.eqb (prefix_len (k0 :: kr) nk) 0); inversion E; subst.
          -- apply evs_ok_app; assumption.
          -- apply evs_ok_app; [assumption|]. apply evs_ok_app; [assumption|]. repeat constructor.
      + destruct (child cs k0) as [c|]; [|discriminate].
        destruct (insert resolve f c (prefix ++ [k0]) kr value) as [[[[|] n0] ev0]|e] eqn:G; try discriminate.
        * destruct (set_child cs k0 n0); inversion E; subst. eapply IH; exact G.
        * inversion E; subst. eapply IH; exact G.
      + destruct (resolve h prefix) as [[rn blob]|] eqn:R; [|discriminate].
        destruct (insert resolve f rn prefix (k0 :: kr) value) as [[[[|] n0] ev0]|e] eqn:G; try discriminate;
          inversion E; subst; (eapply evs_ok_cons_res; [exact R|]); eapply IH; exact G.
  Qed.

  Lemma delete_evs_ok : forall f n prefix key d n' ev,
    delete resolve f n prefix key = TOk (d, n', ev) -> evs_ok ev.
  Proof.
    induction f as [|f IH]; intros n prefix key d n' ev E; cbn [delete] in E; [discriminate|].
    destruct n as [|val|nk nv|cs|h].
    - inversion E; subst. constructor.
    - inversion E; subst. constructor.
    - dmatch E; [inversion E; subst; constructor|].
      dmatch E; [inversion E; subst; repeat constructor|].
      match type of E with match ?X with _ => _ end = _ => destruct X as [[[[|] n0] ev0]|e] eqn:G end;
        try discriminate.
      + apply IH in G. destruct n0; inversion E; subst; try assumption.
        apply evs_ok_app; [assumption|repeat constructor].
      + inversion E; subst. eapply IH; exact G.
    - destruct key as [|k0 kr]; [discriminate|].
      destruct (child cs k0) as [c|]; [|discriminate].
      destruct (delete resolve f c (prefix ++ [k0]) kr) as [[[[|] nn] ev0]|e] eqn:G; try discriminate.
      + apply IH in G.
        destruct (set_child cs k0 nn) as [cs'|]; [|discriminate].
        dmatch E; [inversion E; subst; assumption|].
        destruct (single_child cs') as [[pos|]|]; try (inversion E; subst; assumption).
        destruct (child cs' pos) as [rem|]; [|discriminate].
        dmatch E; [|inversion E; subst; assumption].
        destruct rem as [|rv|rk rc|rcs|rh]; try (inversion E; subst; try rewrite app_nil_r; try assumption;
          repeat (apply evs_ok_app; try assumption); repeat constructor).
        destruct (resolve rh (prefix ++ [pos])) as [[rn blob]|] eqn:R; [|discriminate].
        assert (X : evs_ok [TRes (prefix ++ [pos]) blob]).
        { apply evs_ok_one. exists rh, rn. exact R. }
        assert (Y : ev_ok (TRes (prefix ++ [pos]) blob)) by (exists rh, rn; exact R).
        destruct rn; inversion E; subst; repeat (apply evs_ok_app; try assumption);
          repeat (constructor; try assumption); cbn; auto.
      + inversion E; subst. eapply IH; exact G.
    - destruct (resolve h prefix) as [[rn blob]|] eqn:R; [|discriminate].
      destruct (delete resolve f rn prefix key) as [[[[|] n0] ev0]|e] eqn:G; try discriminate;
        inversion E; subst; (eapply evs_ok_cons_res; [exact R|]); eapply IH; exact G.
  Qed.

  (* the pre-value map holds only blobs that [resolve] returned at that path *)
  Definition pv_ok (tr : tracer) : Prop :=
    forall p b, am_get p (tr_pv tr) = Some b -> exists h n, resolve h p = Some (n, b).

  Lemma pv_ok_empty : pv_ok tr_empty.
  Proof. intros p b E. discriminate. Qed.

  Lemma pv_ok_put p b tr h n : resolve h p = Some (n, b) -> pv_ok tr -> pv_ok (pv_put p b tr).
  Proof.
    intros R O q c E. cbn in E. rewrite am_get_put in E.
    destruct (bytes_eqb q p) eqn:Q.
    - apply beqb_eq in Q. inversion E; subst. eauto.
    - apply O. exact E.
  Qed.

  Lemma trace_ev_pv_ok tr e : ev_ok e -> pv_ok tr -> pv_ok (trace_ev tr e).
  Proof.
    destruct e as [p|p|p b]; cbn; intros Ee O.
    - unfold on_insert. destruct (am_has p (tr_del tr)); exact O.
    - unfold on_delete. destruct (am_has p (tr_ins tr)); exact O.
    - destruct Ee as (h & n & R). eapply pv_ok_put; eassumption.
  Qed.

  Lemma trace_evs_pv_ok ev : forall tr, evs_ok ev -> pv_ok tr -> pv_ok (trace_evs tr ev).
  Proof.
    induction ev as [|e ev IH]; intros tr E O; cbn; [exact O|].
    inversion E; subst. apply IH; [assumption|]. apply trace_ev_pv_ok; assumption.
  Qed.
End Events.

(* ------------------------------------------------------------------ *)
(* node encoding with a top-level children loop                        *)
(* ------------------------------------------------------------------ *)
Section Enc.
  Variable H : list N -> list N.

  Definition child_enc (i : nat) (c : node) : option (list N) :=
    match c with
    | NEmpty => Some [128]
    | _ =>
        if Nat.eqb i 16 then
          match c with
          | NValue [] => Some [128]
          | NValue v => Some (enc_str v)
          | _ => None
          end
        else
          match c with
          | NHash [] => Some [128]
          | NHash h => Some (write_ref h)
          | NShort _ _ | NFull _ =>
              match node_enc H c with
              | Some e => Some (write_ref (ref_of_enc H e))
              | None => None
              end
          | _ => None
          end
    end.

  Fixpoint children_enc (i : nat) (l : list node) : option (list N) :=
    match l with
    | [] => Some []
    | c :: r =>
        match child_enc i c, children_enc (S i) r with
        | Some a, Some b => Some (a ++ b)
        | _, _ => None
        end
    end.

  Lemma node_enc_full cs :
    node_enc H (NFull cs) =
    match children_enc 0 cs with Some p => Some (list_wrap p) | None => None end.
  Proof.
    cbn [node_enc].
    match goal with |- context [?F 0%nat cs] => set (g := F) end.
    assert (X : forall l i, g i l = children_enc i l).
    { induction l as [|c r IH]; intro i; [reflexivity|].
      unfold g. simpl. fold g. rewrite IH.
      unfold child_enc.
      destruct c as [|[|]| | |[|]]; try reflexivity; destruct (Nat.eqb i 16); reflexivity. }
    rewrite X. reflexivity.
  Qed.

  (* body of a short node: how its child is written *)
  Definition short_body (k : list N) (c : node) : option (list N) :=
    if has_term k then
      match c with NValue v => Some (enc_str v) | _ => None end
    else
      match c with
      | NHash h => Some (write_ref h)
      | NShort _ _ | NFull _ =>
          match node_enc H c with
          | Some e => Some (write_ref (ref_of_enc H e))
          | None => None
          end
      | _ => None
      end.

  Lemma node_enc_short k c :
    node_enc H (NShort k c) =
    match hex_to_compact k with
    | None => None
    | Some ck => match short_body k c with
                 | Some b => Some (list_wrap (enc_str ck ++ b))
                 | None => None
                 end
    end.
  Proof. reflexivity. Qed.
End Enc.

(* ------------------------------------------------------------------ *)
(* committing collapses nodes without changing any encoding            *)
(* ------------------------------------------------------------------ *)
Section Collapse.
  Variable H : list N -> list N.
  Hypothesis H_len : forall x, length (H x) = 32%nat.

  Definition is_sf (n : node) : bool :=
    match n with NShort _ _ | NFull _ => true | _ => false end.

  (* what committer.commit returns for [n], as seen by the parent of [n] *)
  Definition collapse_spec (force : bool) (n n' : node) : Prop :=
    match n with
    | NShort _ _ | NFull _ =>
        exists e, node_enc H n = Some e /\
          ((hashedb force e = true /\ n' = NHash (H e)) \/
           (hashedb force e = false /\ node_enc H n' = Some e /\ is_sf n' = true))
    | NHash _ => n' = n
    | _ => False
    end.

  Lemma hashed_ref e : hashedb false e = true -> ref_of_enc H e = H e.
  Proof.
    unfold hashedb, ref_of_enc. cbn [orb]. intro L. apply Nat.leb_le in L.
    destruct (Nat.ltb (length e) 32) eqn:X; [|reflexivity]. apply Nat.ltb_lt in X. lia.
  Qed.

  Lemma H_cons e : exists x r, H e = x :: r.
  Proof. pose proof (H_len e) as L. destruct (H e); [discriminate|eauto]. Qed.

  Lemma collapse_child_enc c c' i :
    collapse_spec false c c' -> i <> 16%nat -> child_enc H i c' = child_enc H i c.
  Proof.
    intros S I. apply Nat.eqb_neq in I.
    destruct c as [|v|k cc|cs|h]; unfold collapse_spec in S; try contradiction.
    - destruct S as (e & E & [[Hh ->]|(Hh & E' & SF)]).
      + unfold child_enc. rewrite I, E, hashed_ref by exact Hh.
        destruct (H_cons e) as (x & r & X). rewrite X. reflexivity.
      + unfold child_enc. rewrite I, E. destruct c'; try discriminate; rewrite E'; reflexivity.
    - destruct S as (e & E & [[Hh ->]|(Hh & E' & SF)]).
      + unfold child_enc. rewrite I, E, hashed_ref by exact Hh.
        destruct (H_cons e) as (x & r & X). rewrite X. reflexivity.
      + unfold child_enc. rewrite I, E. destruct c'; try discriminate; rewrite E'; reflexivity.
    - subst. reflexivity.
  Qed.

  Lemma collapse_short_body c c' k :
    collapse_spec false c c' -> short_body H k c' = short_body H k c.
  Proof.
    intros S.
    destruct c as [|v|k0 cc|cs|h]; unfold collapse_spec in S; try contradiction.
    - destruct S as (e & E & [[Hh ->]|(Hh & E' & SF)]); unfold short_body; destruct (has_term k).
      + reflexivity.
      + rewrite E, hashed_ref by exact Hh. reflexivity.
      + destruct c'; try discriminate; reflexivity.
      + rewrite E. destruct c'; try discriminate; rewrite E'; reflexivity.
    - destruct S as (e & E & [[Hh ->]|(Hh & E' & SF)]); unfold short_body; destruct (has_term k).
      + reflexivity.
      + rewrite E, hashed_ref by exact Hh. reflexivity.
      + destruct c'; try discriminate; reflexivity.
      + rewrite E. destruct c'; try discriminate; rewrite E'; reflexivity.
    - subst. reflexivity.
  Qed.

  (* one iteration of the commitChildren loop *)
  Definition child_step (rec : list N -> node -> nodeset -> option (node * nodeset))
             (path : list N) (i : N) (c : node) (ns : nodeset) : option (node * nodeset) :=
    if N.eqb i 16 then Some (c, ns)
    else match c with
         | NEmpty | NHash _ => Some (c, ns)
         | _ => rec (path ++ [i]) c ns
         end.

  Lemma commit_children_cons rec path i c r ns :
    commit_children rec path i (c :: r) ns =
    match child_step rec path i c ns with
    | None => None
    | Some (c', ns') =>
        match commit_children rec path (i + 1) r ns' with
        | None => None
        | Some (r', ns'') => Some (c' :: r', ns'')
        end
    end.
  Proof. reflexivity. Qed.

  Lemma child_step_cases rec path i c ns c' ns' :
    child_step rec path i c ns = Some (c', ns') ->
    (c' = c /\ ns' = ns /\ (i = 16 \/ c = NEmpty \/ exists h, c = NHash h)) \/
    (i <> 16 /\ rec (path ++ [i]) c ns = Some (c', ns')).
  Proof.
    unfold child_step. destruct (N.eqb i 16) eqn:I.
    - apply N.eqb_eq in I. intro E. inversion E; subst. left. auto.
    - apply N.eqb_neq in I.
      destruct c; intro E; try (right; split; [exact I|exact E]);
        inversion E; subst; left; eauto 6.
  Qed.

  Lemma commit_children_enc rec path :
    (forall p c ns c' ns', rec p c ns = Some (c', ns') -> collapse_spec false c c') ->
    forall l i ns l' ns', commit_children rec path i l ns = Some (l', ns') ->
    children_enc H (N.to_nat i) l' = children_enc H (N.to_nat i) l.
  Proof.
    intros R. induction l as [|c r IH]; intros i ns l' ns' E.
    - inversion E; subst. reflexivity.
    - rewrite commit_children_cons in E.
      destruct (child_step rec path i c ns) as [[c' ns1]|] eqn:CS; [|discriminate].
      destruct (commit_children rec path (i + 1) r ns1) as [[r' ns'']|] eqn:CC; [|discriminate].
      inversion E; subst. cbn [children_enc].
      apply IH in CC. replace (N.to_nat (i + 1)) with (Datatypes.S (N.to_nat i)) in CC by lia.
      rewrite CC.
      apply child_step_cases in CS. destruct CS as [(-> & _ & _)|(I & RC)]; [reflexivity|].
      rewrite (collapse_child_enc c c'); [reflexivity|eapply R; exact RC|lia].
  Qed.

  Lemma store_node_collapse tr force path n0 n ns n' ns' :
    is_sf n = true -> is_sf n0 = true -> node_enc H n = node_enc H n0 ->
    store_node H tr force path n ns = Some (n', ns') -> collapse_spec force n0 n'.
  Proof.
    intros SF SF0 EQ E. unfold store_node in E. rewrite EQ in E.
    destruct (node_enc H n0) as [e|] eqn:EN; [|discriminate].
    assert (G : exists e, node_enc H n0 = Some e /\
          ((hashedb force e = true /\ n' = NHash (H e)) \/
           (hashedb force e = false /\ node_enc H n' = Some e /\ is_sf n' = true))).
    { exists e. split; [exact EN|].
      destruct (hashedb force e) eqn:Hh.
      - inversion E; subst. left. split; reflexivity.
      - right. split; [reflexivity|].
        destruct (pv_get path tr); inversion E; subst; split; assumption. }
    destruct n0; try discriminate; exact G.
  Qed.

  Lemma commit_node_collapse : forall f dirty tr force path n ns n' ns',
    commit_node H f dirty tr force path n ns = Some (n', ns') -> collapse_spec force n n'.
  Proof.
    induction f as [|f IH]; intros dirty tr force path n ns n' ns' E; cbn [commit_node] in E; [discriminate|].
    destruct (clean_hashed H dirty force path n) as [h|] eqn:CH.
    - inversion E; subst. unfold clean_hashed in CH.
      destruct n as [|v|k c|cs|hh]; try discriminate;
        destruct (dirty path); try discriminate;
        match type of CH with match ?X with _ => _ end = _ => destruct X as [e|] eqn:EN end; try discriminate;
        destruct (hashedb force e) eqn:Hh; try discriminate; inversion CH; subst;
        exists e; (split; [exact EN|]); left; split; reflexivity.
    - destruct n as [|v|k c|cs|hh]; try discriminate.
      + assert (X : exists c' ns1, short_body H k c' = short_body H k c /\
                    store_node H tr force path (NShort k c') ns1 = Some (n', ns')).
        { destruct c as [|v|k0 cc|cs|h]; try (exists c, ns; split; [reflexivity|exact E]).
          destruct (commit_node H f dirty tr false (path ++ k) (NFull cs) ns) as [[c' ns1]|] eqn:RC;
            [|discriminate].
          exists c', ns1. split; [|exact E]. apply collapse_short_body. eapply IH. exact RC. }
        destruct X as (c' & ns1 & SB & ST).
        eapply store_node_collapse; [| |
          |exact ST]; try reflexivity.
        rewrite !node_enc_short, SB. reflexivity.
      + destruct (commit_children H (commit_node H f dirty tr false) path 0 cs ns) as [[cs' ns1]|] eqn:CC;
          [|discriminate].
        eapply store_node_collapse; [| | |exact E]; try reflexivity.
        rewrite !node_enc_full.
        eapply commit_children_enc in CC; [|intros; eapply IH; eassumption].
        cbn in CC. rewrite CC. reflexivity.
      + inversion E; subst. reflexivity.
  Qed.
End Collapse.
