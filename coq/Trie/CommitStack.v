(* Trie/CommitStack.v — exactness of a commit into the EMPTY path store, and the
   stack-trie clause of C07: the node set the streaming builder emits for a key
   set is the node set a regular trie commits for the same content.
   The builder side is c11's [builder_emits] (Trie/GenerateNodes4.v), reused by
   import; this file relates its [nodes_of] to the hashed ground nodes [gsub] of
   Trie/CommitReads.v. *)
From Coq Require Import Permutation.
From GV Require Import Lib.Tactics Lib.Bytes Rlp.Codec Trie.Hex Trie.Node Trie.Ops Trie.Hash.
From GV Require Import Trie.OpsProofs Trie.Canon Trie.Proof Trie.ProofProofs Trie.Stack Trie.StackProofs.
From GV Require Import Trie.Generate Trie.GenerateProofs Trie.GenerateNodes Trie.GenerateNodes4.
From GV Require Import Trie.Commit Trie.CommitProofs Trie.CommitTracer Trie.CommitReads Trie.CommitSim Trie.CommitSimDel Trie.CommitHist Trie.CommitExact Trie.CommitEvents Trie.CommitTrace Trie.CommitPv Trie.CommitInv3 Trie.CommitNoStale Trie.CommitFinal.
Local Open Scope N_scope.

Section StackNodes.
  Variable H : list N -> list N.
  Hypothesis H_len : forall x, length (H x) = 32%nat.

  Lemma in_own p n q e :
    In (q, e) (own H p n) <-> q = p /\ node_enc H n = Some e /\ hashedb (is_nil p) e = true.
  Proof.
    unfold own, hashedb. destruct (node_enc H n) as [e0|]; [|split; [intros []|intros (_ & X & _); discriminate]].
    destruct (Nat.ltb (length e0) 32) eqn:L; destruct (is_nil p) eqn:Pn; cbn [andb negb orb In].
    - split; [intros [X|[]]; inversion X; subst; auto|intros (-> & X & _); inversion X; left; reflexivity].
    - split; [intros []|intros (_ & X & Y); inversion X; subst].
      apply Nat.leb_le in Y. apply Nat.ltb_lt in L. lia.
    - split; [intros [X|[]]; inversion X; subst; auto|intros (-> & X & _); inversion X; left; reflexivity].
    - split; [intros [X|[]]; inversion X; subst; split; [reflexivity|split; [reflexivity|]]|intros (-> & X & _); inversion X; left; reflexivity].
      apply Nat.leb_le. apply Nat.ltb_ge in L. exact L.
  Qed.

  Lemma in_go_nodes rec p : forall l i q e,
    In (q, e) (go_nodes rec p i l) <->
    exists j c, nth_error l j = Some c /\ In (q, e) (rec (p ++ [N.of_nat (i + j)]) c).
  Proof.
    induction l as [|c l IH]; intros i q e; cbn [go_nodes].
    - split; [intros []|intros (j & c & X & _); destruct j; discriminate].
    - rewrite in_app_iff, IH. split.
      + intros [X|(j & d & X & Y)].
        * exists 0%nat, c. rewrite Nat.add_0_r. auto.
        * exists (Datatypes.S j), d. replace (i + Datatypes.S j)%nat with (Datatypes.S i + j)%nat by lia. auto.
      + intros ([|j] & d & X & Y).
        * cbn in X. inversion X; subst. rewrite Nat.add_0_r in Y. left. exact Y.
        * right. exists j, d. replace (Datatypes.S i + j)%nat with (i + Datatypes.S j)%nat by lia. auto.
  Qed.

  Lemma is_nil_app_false (p k : list N) : k <> [] -> is_nil (p ++ k) = false.
  Proof. destruct p; [destruct k; [congruence|reflexivity]|reflexivity]. Qed.

  (* c11's canonical node set = the hashed ground nodes *)
  Lemma nodes_of_gsub G : (is_sf G = true -> can G) -> forall p q e,
    In (q, e) (nodes_of H p G) <->
    exists Gq, gsub H (is_nil p) p G q Gq /\ node_enc H Gq = Some e.
  Proof.
    induction G as [|v|k c IH|cs IH|h] using node_ind'; intros Cn p q e;
      try (cbn [nodes_of]; split; [intros []|intros (Gq & X & _); inversion X; discriminate]).
    - pose proof (Cn eq_refl) as CG. rewrite nodes_of_short, in_app_iff, in_own.
      assert (KN : k <> []).
      { destruct (can_short_inv k c CG) as [[VK _]|(_ & X & _)]; [apply valid_key_nonempty; exact VK|exact X]. }
      assert (CC : is_sf c = true -> can c).
      { intro SF. destruct (can_short_inv k c CG) as [[_ [v ->]]|(_ & _ & cs & -> & X)]; [discriminate|exact X]. }
      rewrite (IH CC (p ++ k) q e), (is_nil_app_false p k KN). split.
      + intros [(Gq & X & Y)|(-> & X & Y)].
        * exists Gq. split; [apply gsub_short; exact X|exact Y].
        * exists (NShort k c). split; [eapply gsub_here; [reflexivity|exact X|exact Y]|exact X].
      + intros (Gq & X & Y). inversion X; subst.
        * right. split; [reflexivity|]. split; [exact Y|]. congruence.
        * left. eauto.
    - pose proof (Cn eq_refl) as CG. destruct (can_full_inv cs CG) as (L17 & Hch & H16 & _).
      rewrite nodes_of_full, in_app_iff, in_own, in_go_nodes. split.
      + intros [(j & c & X & Y)|(-> & X & Y)].
        * assert (J : (j < 16)%nat).
          { destruct (Nat.lt_ge_cases j 16) as [J|J]; [exact J|].
            assert (j = 16%nat) by (assert (j < length cs)%nat by (apply nth_error_Some; congruence); lia). subst j.
            destruct (H16 c X) as [->|[v ->]]; destruct Y. }
          rewrite Forall_forall in IH.
          apply (IH c (nth_error_In _ _ X)) in Y.
          2: { intro SF. destruct (Hch j c X J) as [->|Z]; [discriminate|exact Z]. }
          rewrite (is_nil_app_false p [N.of_nat (0 + j)]) in Y by discriminate.
          destruct Y as (Gq & Y1 & Y2). exists Gq. split; [|exact Y2].
          eapply gsub_full; [exact X|exact J|exact Y1].
        * exists (NFull cs). split; [eapply gsub_here; [reflexivity|exact X|exact Y]|exact X].
      + intros (Gq & X & Y). inversion X as [| |f0 p0 cs0 i c q0 Gq0 X1 I1 GS1]; subst.
        * right. split; [reflexivity|]. split; [exact Y|]. congruence.
        * left. exists i, c. split; [exact X1|].
          rewrite Forall_forall in IH. apply (IH c (nth_error_In _ _ X1)).
          { intro SF. destruct (Hch i c X1 I1) as [->|Z]; [discriminate|exact Z]. }
          rewrite (is_nil_app_false p [N.of_nat (0 + i)]) by discriminate. exists Gq. auto.
  Qed.
End StackNodes.

Section StackClause.
  Variable H : list N -> list N.
  Hypothesis H_len : forall x, length (H x) = 32%nat.
  Hypothesis H_inj_empty : forall e, H e = H empty_root_preimage -> e = empty_root_preimage.

  Lemma gok_can F : gok F -> is_sf F = true -> can F.
  Proof. intros [->|[X _]] SF; [discriminate|exact X]. Qed.

  (* the store after any reachable commit is exactly c11's canonical node set of
     the ground trie *)
  Theorem store_is_nodes_of S ss r ons :
    reachable H S ss -> commit H ss = Some (r, ons) ->
    exists F, sinv H S ss F /\
      forall q b, am_get q (applied S ons) = Some b <-> In (q, b) (nodes_of H [] F).
  Proof.
    intros Rch C. destruct (commit_exact_path H H_len H_inj_empty S ss r ons Rch C) as (F & SI & _ & EX).
    exists F. split; [exact SI|]. intros q b. rewrite (EX q b).
    pose proof SI as [GO _]. rewrite (nodes_of_gsub H H_len F (gok_can F GO) [] q b). cbn [is_nil]. tauto.
  Qed.

  (* C07 stack-trie clause: for an ascending equal-length key set holding the same
     content as the committed trie, the nodes the streaming builder's callback
     receives (c11's builder_emits) are exactly the nodes the path store holds after
     the commit — in particular, for a trie built from scratch, the committed set *)
  Theorem stack_nodes_eq_commit S ss r ons :
    reachable H S ss -> commit H ss = Some (r, ons) ->
    exists F, sinv H S ss F /\
      forall kvs L, (1 <= L)%nat ->
        Forall (fun kv => nibbles (fst kv) /\ length (fst kv) = L /\ snd kv <> []) kvs -> hasc [] kvs ->
        (forall hk, valid_key hk -> lk F hk = apply_ops (fun _ => None) (hops kvs) hk) ->
        exists s em h emf,
          hfeed H stack_new kvs = Some (s, em) /\ st_root_e H s = TOk (h, emf) /\
          forall q b, In (q, b) (em ++ emf) <-> am_get q (applied S ons) = Some b.
  Proof.
    intros Rch C. destruct (store_is_nodes_of S ss r ons Rch C) as (F & SI & EX).
    exists F. split; [exact SI|]. intros kvs L HL HF HA SAME.
    destruct (builder_emits H H_len kvs L HL HF HA) as (s & em & t & h & emf & E1 & E2 & Ct & Lt & _ & PM).
    exists s, em, h, emf. split; [exact E1|]. split; [exact E2|].
    assert (CF : canon F) by (destruct SI as [[->|[X _]] _]; [left; reflexivity|right; exact X]).
    assert (TF : t = F).
    { apply canon_unique; [exact Ct|exact CF|]. intros k Vk. rewrite Lt. symmetry. apply SAME. exact Vk. }
    subst t. intros q b. rewrite (EX q b). split; intro X.
    - eapply Permutation_in; [exact PM|exact X].
    - eapply Permutation_in; [apply Permutation_sym; exact PM|exact X].
  Qed.
End StackClause.
