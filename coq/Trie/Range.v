(* Trie/Range.v — range proofs: executable model of /repo/trie/proof.go
   VerifyRangeProof, proofToPath, unsetInternal, unset, hasRightElement and the
   proof-walk helper get(tn, key, skipResolved = false) (C09).  Definitions
   only; the lemmas are in Trie/RangeProofs.v.

   * The proof database is [Proof.pdb] (history of Puts, Get = last Put);
     [proof == nil] is [None].  resolveNode trusts the database to be keyed by
     hash (it never hashes what it reads); so does the model.
   * The Go code builds ONE mutable tree out of freshly decoded nodes (no node is
     shared between two slots), mutates it in place (proofToPath links resolved
     children, unsetInternal / unset clear slots) and hands it to Trie.Update.
     Here nodes are values and every function returns the rebuilt node; "remove
     the node from its parent" is the action [URemove] returned to the caller,
     which is where the Go type assertion parent.( *fullNode) sits.
   * Interface comparison `leftnode != rightnode` in unsetInternal: two pointer
     nodes are equal iff they sit in the same slot (fresh pointers); two
     hashNodes / two valueNodes make the Go runtime panic (uncomparable type).
   * Every panic of the Go code ("invalid node", "it shouldn't happen", index out
     of range, failed type assertion, uncomparable interface comparison, the
     hasher's panics) is the explicit class [RPanic]; model fuel is [RFuel]
     (proofToPath's `for {}` loop is unbounded in Go).
   * NOT modelled: the hash cache of decoded nodes (nodeFlag.hash).  The hasher
     returns a cached hash without looking at the node; unsetInternal / unset
     reset the flags of every node they descend through, so the only decoded
     nodes that keep their cache until tr.Hash() are the unmodified short nodes
     at which an edge path leaves the trie.  For a hash-keyed database and a blob
     that is the canonical encoding of its decoding the cached hash equals the
     recomputed one, which is what the model uses.

   Names other families rely on (keep stable):
     rerr rr Rok Rerr bcmp check_run resolve_node ptp proof_to_path has_right
     uact unset unset_internal reinsert verify_range_proof *)
From GV Require Import Lib.Bytes Trie.Hex Trie.Node Trie.Ops Trie.Hash Trie.Stack Trie.Proof.
Local Open Scope N_scope.

(* error classes of VerifyRangeProof, in source order *)
Inductive rerr : Type :=
| RLen            (* inconsistent proof data, keys: %d, values: %d *)
| RMono           (* range is not monotonically increasing *)
| RPrefix         (* range contains path prefixes *)
| RDeletion       (* range contains deletion *)
| RRoot           (* invalid proof, want hash %x, got %x *)
| RMissing        (* proof node (hash %064x) missing *)
| RBad (e : derr) (* bad proof node %v *)
| RNotContained   (* the node is not contained in trie *)
| RMore           (* more entries available *)
| RPreceding      (* unexpected key-value pairs preceding the requested range *)
| RKey            (* correct proof but invalid key *)
| RData           (* correct proof but invalid data *)
| REdge           (* invalid edge keys *)
| REdgeLen        (* inconsistent edge keys *)
| REmptyRange     (* empty range *)
| RMissingNode    (* MissingNodeError returned by tr.Update *)
| RPanic          (* the Go code would panic *)
| RFuel.          (* model fuel exhausted: never a Go return value *)

Inductive rr (A : Type) : Type :=
| Rok (a : A)
| Rerr (e : rerr).
Arguments Rok {A} a.
Arguments Rerr {A} e.

Definition of_terr (e : terr) : rerr :=
  match e with EMissing => RMissingNode | EPanic => RPanic | EFuel => RFuel end.

(* bytes.Compare *)
Definition bcmp (a b : list N) : comparison :=
  if slice_lt a b then Lt else if slice_lt b a then Gt else Eq.

(* VerifyRangeProof l.486-498: the loop over the batch
     if i < len(keys)-1 { Compare(keys[i], keys[i+1]) >= 0 -> RMono ; HasPrefix(keys[i+1], keys[i]) -> RPrefix }
     if len(values[i]) == 0 -> RDeletion *)
Fixpoint check_run (keys values : list (list N)) : option rerr :=
  match keys with
  | [] => None
  | k :: kr =>
      match values with
      | [] => Some RPanic                               (* values[i]: excluded by the length check *)
      | v :: vr =>
          let next :=
            match kr with
            | [] => None
            | k' :: _ =>
                if negb (slice_lt k k') then Some RMono
                else if is_prefix_of k k' then Some RPrefix
                else None
            end in
          match next with
          | Some e => Some e
          | None => match v with [] => Some RDeletion | _ :: _ => check_run kr vr end
          end
      end
  end.

(* proofToPath: resolveNode *)
Definition resolve_node (db : pdb) (h : list N) : rr node :=
  match db_get db h with
  | None => Rerr RMissing
  | Some buf =>
      match proof_decode buf with
      | DErr e => Rerr (RBad e)
      | DOk n => Rok n
      end
  end.

(* proof.go:get(tn, key, skipResolved = false): one step; None = the Go code
   panics (key[0] on an empty key, index out of range) *)
Definition ptp_get (parent : node) (key : list N) : option (list N * node) :=
  match parent with
  | NShort nk nv =>
      if negb (is_prefix_of nk key) then Some ([], NEmpty)     (* return nil, nil *)
      else Some (skipn (length nk) key, nv)
  | NFull cs =>
      match key with
      | [] => None
      | k0 :: kr => match child cs k0 with Some c => Some (kr, c) | None => None end
      end
  | NHash _ => Some (key, parent)
  | NEmpty => Some (key, NEmpty)
  | NValue _ => Some ([], parent)
  end.

(* "Link the parent and child": pnode.Val = child / pnode.Children[key[0]] = child;
   None = panic (invalid node) *)
Definition ptp_link (parent : node) (key : list N) (c : node) : option node :=
  match parent with
  | NShort nk _ => Some (NShort nk c)
  | NFull cs =>
      match key with
      | [] => None
      | k0 :: _ => match set_child cs k0 c with Some cs' => Some (NFull cs') | None => None end
      end
  | _ => None
  end.

(* proofToPath, the `for {}` loop from (key, parent); returns the rebuilt parent
   (the Go code returns [root], mutated in place) and the value found *)
Fixpoint ptp (fuel : nat) (db : pdb) (allow : bool) (parent : node) (key : list N)
  : rr (node * option (list N)) :=
  match fuel with
  | O => Rerr RFuel
  | S f =>
      match ptp_get parent key with
      | None => Rerr RPanic
      | Some (keyrest, cld) =>
          match cld with
          | NEmpty =>                                            (* case nil *)
              if allow then Rok (parent, None) else Rerr RNotContained
          | NShort _ _ | NFull _ =>                              (* already resolved: continue *)
              match ptp f db allow cld keyrest with
              | Rerr e => Rerr e
              | Rok (c', v) =>
                  match ptp_link parent key c' with
                  | Some p' => Rok (p', v)
                  | None => Rerr RPanic
                  end
              end
          | NHash h =>
              match resolve_node db h with
              | Rerr e => Rerr e
              | Rok c =>
                  match ptp_link parent key c with
                  | None => Rerr RPanic
                  | Some _ =>
                      match ptp f db allow c keyrest with
                      | Rerr e => Rerr e
                      | Rok (c', v) =>
                          match ptp_link parent key c' with
                          | Some p' => Rok (p', v)
                          | None => Rerr RPanic
                          end
                      end
                  end
              end
          | NValue v =>
              match ptp_link parent key cld with
              | None => Rerr RPanic
              | Some p' =>
                  match v with
                  | [] => Rerr RPanic    (* len(valnode) == 0: the next iteration links under a valueNode parent *)
                  | _ :: _ => Rok (p', Some v)
                  end
              end
          end
      end
  end.

(* between two key-consuming iterations the Go loop can only walk a chain of
   empty-key short nodes: embedded (nesting < 34) or hash-linked (one database
   entry each, unless the database holds a reference cycle) *)
Definition ptp_fuel (key : list N) (db : pdb) : nat :=
  (length key + 1) * (length db + 1) * 34 + 1.

(* proofToPath(rootHash, root, key, proofDb, allowNonExistent) *)
Definition proof_to_path (db : pdb) (root_hash : list N) (root : option node) (key : list N) (allow : bool)
  : rr (node * option (list N)) :=
  match (match root with Some r => Rok r | None => resolve_node db root_hash end) with
  | Rerr e => Rerr e
  | Rok r => let k := keybytes_to_hex key in ptp (ptp_fuel k db) db allow r k
  end.

(* some Children[j] != nil with lo <= j < hi ([i] = index of the head of [cs]) *)
Fixpoint any_from (i lo hi : nat) (cs : list node) : bool :=
  match cs with
  | [] => false
  | c :: r => (Nat.leb lo i && Nat.ltb i hi && negb (is_empty c)) || any_from (S i) lo hi r
  end.

(* hasRightElement; [key] is key[pos:].  The Go loop descends into rn.Val /
   rn.Children[key[pos]] only, hence structural. *)
Fixpoint has_right (n : node) (key : list N) {struct n} : tres bool :=
  match n with
  | NEmpty => TOk false
  | NFull cs =>
      match key with
      | [] => TErr EPanic
      | k0 :: kr =>
          if any_from 0 (N.to_nat k0 + 1) 16 cs then TOk true       (* for i := key[pos]+1; i < 16; i++ *)
          else
            (fix go (l : list node) (i : nat) {struct l} : tres bool :=
               match l with
               | [] => TErr EPanic
               | c :: l' => match i with O => has_right c kr | S i' => go l' i' end
               end) cs (N.to_nat k0)
      end
  | NShort nk nv =>
      if negb (is_prefix_of nk key) then TOk (slice_lt key nk)    (* bytes.Compare(rn.Key, key[pos:]) > 0 *)
      else has_right nv (skipn (length nk) key)
  | NValue _ => TOk false
  | NHash _ => TErr EPanic                                       (* default: invalid node *)
  end.

(* what a callee asks of the slot it sits in *)
Inductive uact : Type :=
| UKeep (n : node)   (* the node stays (mutated in place to [n]) *)
| URemove.           (* parent.( *fullNode).Children[key[pos-1]] = nil *)

(* Children[i] = nil for lo <= i < hi *)
Fixpoint clear_from (i lo hi : nat) (cs : list node) : list node :=
  match cs with
  | [] => []
  | c :: r => (if Nat.leb lo i && Nat.ltb i hi then NEmpty else c) :: clear_from (S i) lo hi r
  end.
Definition clear_range (lo hi : nat) (cs : list node) : list node := clear_from 0 lo hi cs.

Definition apply_act (cs : list node) (i : N) (a : uact) : option (list node) :=
  set_child cs i (match a with UKeep c => c | URemove => NEmpty end).

(* unset(parent, child, key, pos, removeLeft); [key] is key[pos:].  The slot
   cld.Children[key[pos]] is not touched by the clearing loop, so the recursive
   call is made on the original child (structural). *)
Fixpoint unset (cld : node) (key : list N) (remove_left : bool) {struct cld} : tres uact :=
  match cld with
  | NFull cs =>
      match key with
      | [] => TErr EPanic
      | k0 :: kr =>
          let cs1 := if remove_left then clear_range 0 (N.to_nat k0) cs
                     else clear_range (N.to_nat k0 + 1) 16 cs in
          match (fix go (l : list node) (i : nat) {struct l} : option (tres uact) :=
                   match l with
                   | [] => None
                   | c :: l' => match i with O => Some (unset c kr remove_left) | S i' => go l' i' end
                   end) cs (N.to_nat k0) with
          | None => TErr EPanic
          | Some (TErr e) => TErr e
          | Some (TOk a) =>
              match apply_act cs1 k0 a with
              | Some cs2 => TOk (UKeep (NFull cs2))
              | None => TErr EPanic
              end
          end
      end
  | NShort ck cv =>
      if negb (is_prefix_of ck key) then
        if remove_left then TOk (if slice_lt ck key then URemove else UKeep cld)
        else TOk (if slice_lt key ck then URemove else UKeep cld)
      else
        match cv with
        | NValue _ => TOk URemove
        | _ =>
            match unset cv (skipn (length ck) key) remove_left with
            | TErr e => TErr e
            | TOk (UKeep cv') => TOk (UKeep (NShort ck cv'))
            | TOk URemove => TErr EPanic                         (* parent.( *fullNode) on a shortNode *)
            end
        end
  | NEmpty => TOk (UKeep NEmpty)
  | NHash _ | NValue _ => TErr EPanic                            (* "it shouldn't happen" *)
  end.

(* `leftnode != rightnode` on interface values; None = runtime panic
   (comparing uncomparable type trie.hashNode / trie.valueNode) *)
Definition iface_neq (l0 r0 : N) (ln rn : node) : option bool :=
  match ln, rn with
  | NHash _, NHash _ => None
  | NValue _, NValue _ => None
  | NShort _ _, NShort _ _ | NShort _ _, NFull _ | NFull _, NShort _ _ | NFull _, NFull _ =>
      Some (negb (N.eqb l0 r0))
  | _, _ => Some true
  end.

Definition of_tres {A} (r : tres A) : rr A :=
  match r with TOk a => Rok a | TErr e => Rerr (of_terr e) end.

(* unsetInternal, the fork point is a fullNode: l.325-334
     for i := left[pos] + 1; i < right[pos]; i++ { rn.Children[i] = nil }
     unset(rn, rn.Children[left[pos]], left[pos:], 1, false)
     unset(rn, rn.Children[right[pos]], right[pos:], 1, true) *)
Definition ui_fork (cs : list node) (l0 : N) (lr : list N) (r0 : N) (rr0 : list N) : rr uact :=
  let cs1 := clear_range (N.to_nat l0 + 1) (N.to_nat r0) cs in
  match child cs1 l0 with
  | None => Rerr RPanic
  | Some c1 =>
      match unset c1 lr false with
      | TErr e => Rerr (of_terr e)
      | TOk a1 =>
          match apply_act cs1 l0 a1 with
          | None => Rerr RPanic
          | Some cs2 =>
              match child cs2 r0 with
              | None => Rerr RPanic
              | Some c2 =>
                  match unset c2 rr0 true with
                  | TErr e => Rerr (of_terr e)
                  | TOk a2 =>
                      match apply_act cs2 r0 a2 with
                      | None => Rerr RPanic
                      | Some cs3 => Rok (UKeep (NFull cs3))
                      end
                  end
              end
          end
      end
  end.

(* unsetInternal from node [n]; [left] / [right] are left[pos:] / right[pos:].
   Result for the slot [n] sits in: URemove at the root means (true, nil). *)
Fixpoint unset_internal (n : node) (left right : list N) {struct n} : rr uact :=
  match n with
  | NShort rk rv =>
      let fl := bcmp (firstn (length rk) left) rk in
      let fr := bcmp (firstn (length rk) right) rk in
      match fl, fr with
      | Eq, Eq =>
          match unset_internal rv (skipn (length rk) left) (skipn (length rk) right) with
          | Rerr e => Rerr e
          | Rok (UKeep rv') => Rok (UKeep (NShort rk rv'))
          | Rok URemove => Rerr RPanic                           (* parent.( *fullNode) on a shortNode *)
          end
      | Lt, Lt => Rerr REmptyRange
      | Gt, Gt => Rerr REmptyRange
      | Lt, Gt | Gt, Lt => Rok URemove
      | Eq, _ =>                                                 (* only the right proof leaves the trie here *)
          match rv with
          | NValue _ => Rok URemove
          | _ =>
              match unset rv (skipn (length rk) left) false with
              | TErr e => Rerr (of_terr e)
              | TOk (UKeep rv') => Rok (UKeep (NShort rk rv'))
              | TOk URemove => Rerr RPanic
              end
          end
      | _, Eq =>
          match rv with
          | NValue _ => Rok URemove
          | _ =>
              match unset rv (skipn (length rk) right) true with
              | TErr e => Rerr (of_terr e)
              | TOk (UKeep rv') => Rok (UKeep (NShort rk rv'))
              | TOk URemove => Rerr RPanic
              end
          end
      end
  | NFull cs =>
      match left, right with
      | l0 :: lr, r0 :: rr0 =>
          match child cs l0, child cs r0 with
          | Some ln, Some rn =>
              let fork :=
                if is_empty ln || is_empty rn then Some true else iface_neq l0 r0 ln rn in
              match fork with
              | None => Rerr RPanic
              | Some true => ui_fork cs l0 lr r0 rr0
              | Some false =>
                  match (fix go (l : list node) (i : nat) {struct l} : option (rr uact) :=
                           match l with
                           | [] => None
                           | c :: l' => match i with O => Some (unset_internal c lr rr0) | S i' => go l' i' end
                           end) cs (N.to_nat l0) with
                  | None => Rerr RPanic
                  | Some (Rerr e) => Rerr e
                  | Some (Rok a) =>
                      match apply_act cs l0 a with
                      | Some cs' => Rok (UKeep (NFull cs'))
                      | None => Rerr RPanic
                      end
                  end
              end
          | _, _ => Rerr RPanic
          end
      | _, _ => Rerr RPanic                                      (* left[pos] / right[pos] out of range *)
      end
  | _ => Rerr RPanic                                             (* default: invalid node *)
  end.

Definition no_resolve (h p : list N) : option (node * list N) := None.   (* newEmptyReader() *)

(* for index, key := range keys { tr.Update(key, values[index]) } *)
Fixpoint reinsert (root : node) (keys values : list (list N)) : rr node :=
  match keys with
  | [] => Rok root
  | k :: kr =>
      match values with
      | [] => Rerr RPanic
      | v :: vr =>
          match update no_resolve root k v with
          | TErr e => Rerr (of_terr e)
          | TOk (root', _) => reinsert root' kr vr
          end
      end
  end.

Fixpoint last_opt {A} (l : list A) : option A :=
  match l with
  | [] => None
  | [x] => Some x
  | _ :: r => last_opt r
  end.

Section Range.
  Variable H : list N -> list N.

  (* the no-proof branch: tr.Update's returned error is dropped by the caller *)
  Fixpoint stack_feed (s : stack) (keys values : list (list N)) : tres stack :=
    match keys with
    | [] => TOk s
    | k :: kr =>
        match values with
        | [] => TErr EPanic
        | v :: vr =>
            match k, v with
            | [], _ :: _ => TErr EPanic     (* writeHexKey: `_ = dst[2*len(key)-1]` is dst[-1] for an empty key *)
            | _, _ =>
                match st_update H s k v with
                | TErr e => TErr e
                | TOk (inl _) => stack_feed s kr vr
                | TOk (inr s') => stack_feed s' kr vr
                end
            end
        end
    end.

  (* VerifyRangeProof(rootHash, firstKey, keys, values, proof) *)
  Definition verify_range_proof (root_hash first_key : list N) (keys values : list (list N))
             (proof : option pdb) : rr bool :=
    if negb (Nat.eqb (length keys) (length values)) then Rerr RLen
    else
      match check_run keys values with
      | Some e => Rerr e
      | None =>
          match proof with
          | None =>
              match stack_feed stack_new keys values with
              | TErr e => Rerr (of_terr e)
              | TOk s =>
                  match st_root H s with
                  | TErr e => Rerr (of_terr e)
                  | TOk have => if bytes_eqb have root_hash then Rok false else Rerr RRoot
                  end
              end
          | Some db =>
              match keys, values with
              | [], _ =>
                  match proof_to_path db root_hash None first_key true with
                  | Rerr e => Rerr e
                  | Rok (root, val) =>
                      match val with
                      | Some _ => Rerr RMore
                      | None =>
                          match has_right root (keybytes_to_hex first_key) with
                          | TErr e => Rerr (of_terr e)
                          | TOk true => Rerr RMore
                          | TOk false => Rok false
                          end
                      end
                  end
              | k0 :: _, v0 :: _ =>
                  if slice_lt k0 first_key then Rerr RPreceding
                  else
                    match last_opt keys with
                    | None => Rerr RPanic
                    | Some last_key =>
                        if Nat.eqb (length keys) 1 && bytes_eqb first_key last_key then
                          match proof_to_path db root_hash None first_key false with
                          | Rerr e => Rerr e
                          | Rok (root, val) =>
                              if negb (bytes_eqb first_key k0) then Rerr RKey
                              else if negb (bytes_eqb (match val with Some v => v | None => [] end) v0)
                                   then Rerr RData
                              else of_tres (has_right root (keybytes_to_hex first_key))
                          end
                        else if negb (slice_lt first_key last_key) then Rerr REdge
                        else if negb (Nat.eqb (length first_key) (length last_key)) then Rerr REdgeLen
                        else
                          match proof_to_path db root_hash None first_key true with
                          | Rerr e => Rerr e
                          | Rok (root1, _) =>
                              match proof_to_path db root_hash (Some root1) last_key true with
                              | Rerr e => Rerr e
                              | Rok (root2, _) =>
                                  match unset_internal root2 (keybytes_to_hex first_key) (keybytes_to_hex last_key) with
                                  | Rerr e => Rerr e
                                  | Rok act =>
                                      let tr_root := match act with URemove => NEmpty | UKeep r => r end in
                                      match reinsert tr_root keys values with
                                      | Rerr e => Rerr e
                                      | Rok root3 =>
                                          match hash_root H root3 with
                                          | None => Rerr RPanic
                                          | Some have =>
                                              if negb (bytes_eqb have root_hash) then Rerr RRoot
                                              else of_tres (has_right root3 (keybytes_to_hex last_key))
                                          end
                                      end
                                  end
                              end
                          end
                    end
              | _ :: _, [] => Rerr RPanic
              end
          end
      end.
End Range.
