(* Trie/GenerateWalk3.v — the root blob a partition hands to assembleRoot, and
   the specification of a successful generate_partition (C11). *)
From GV Require Import Lib.Tactics Lib.Bytes Rlp.Codec Trie.Hex Trie.HexProofs Trie.HexInPlace Trie.Node Trie.Ops Trie.Hash Trie.OpsProofs Trie.Canon Trie.Stack Trie.StackProofs Trie.Commit Trie.CommitProofs Trie.CommitTracer Trie.Generate Trie.GenerateProofs Trie.GenerateWalk Trie.GenerateWalk2.
Local Open Scope N_scope.

Section Blob.
  Variable H : list N -> list N.
  Hypothesis H_len : forall x, length (H x) = 32%nat.

  (* the children loop of StackTrie.hash against encodeFullNode (as inside StackProofs.hash_R) *)
  Lemma children_payload : forall l ns i, (i + length l = 16)%nat -> length ns = S (length l) ->
    nth_error ns (length l) = Some NEmpty ->
    (forall j c, nth_error l j = Some c -> exists n, nth_error ns j = Some n /\
       ((c = StNil /\ n = NEmpty) \/ (c <> StNil /\ inner n /\ R H c n))) ->
    exists p, enc_go H i ns = Some p /\ st_go H l = TOk p.
  Proof.
    induction l as [|c l IHl]; intros ns i Hi Hlen H16 Hch.
    - destruct ns as [|n0 ns]; [discriminate|]. destruct ns; [|discriminate]. simpl in H16.
      inversion H16; subst. exists [128]. split; reflexivity.
    - destruct ns as [|n0 ns]; [discriminate|]. simpl in Hlen, H16.
      destruct (IHl ns (S i) ltac:(simpl in Hi; lia) ltac:(lia) H16) as (p & Ep & Sp).
      { intros j c0 Hj. apply (Hch (S j) c0 Hj). }
      destruct (Hch O c eq_refl) as (n & En & Hcn). simpl in En. inversion En; subst n0.
      cbn [enc_go st_go]. rewrite Ep, Sp.
      destruct Hcn as [[-> ->]|(Hnn & Hin & HRc)].
      + eexists. split; reflexivity.
      + destruct (hash_R H H_len _ _ HRc) as (e & Ee & Eh & _).
        replace (Nat.eqb i 16) with false by (symmetry; apply Nat.eqb_neq; simpl in Hi; lia).
        rewrite Eh, (write_ref_child H H_len _ (ref_nonempty H H_len _ _ Ee)).
        exists (write_ref (ref_of_enc H e) ++ p). split.
        * destruct n; try destruct Hin; rewrite Ee; reflexivity.
        * destruct c; try reflexivity. congruence.
  Qed.

  Lemma go_e_fst path : forall l i, Forall (xok) l -> tfst (go_e H path i l) = st_go H l.
  Proof.
    induction l as [|c l IHl]; intros i HX; [reflexivity|].
    inversion HX as [|? ? Hxc HX']; subst. rewrite go_e_cons. cbn [st_go].
    specialize (IHl (S i) HX').
    pose proof (st_hash_e_fst H c (path ++ [N.of_nat i]) Hxc) as Hc. rewrite nonnil_app in Hc by discriminate.
    rewrite <- IHl, <- Hc.
    destruct c;
      [ destruct (go_e H path (S i) l) as [[b eb]|e]; reflexivity
      | destruct (st_hash_e H _ _) as [[v0 e0]|e0]; simpl;
        [destruct (go_e H path (S i) l) as [[b eb]|e]; reflexivity | reflexivity] .. ].
  Qed.

  (* Hash() of a non-empty builder emits the root node last, at the empty path, and
     that blob is the encoding of the represented trie's root node *)
  Lemma root_blob s t L h em : sroot H s t L -> t <> NEmpty -> st_root_e H s = TOk (h, em) ->
    exists em0 e, em = em0 ++ [([], e)] /\ node_enc H t = Some e /\ h = H e.
  Proof.
    intros [(E & -> & _)|(HR & Hin & Hun & _ & _)] Hne Er; [congruence|].
    unfold st_root_e in Er. destruct (fst s) as [| |scs|k c|k v|hv]; apply R_inv in HR; try solve [destruct HR]; [| | |destruct Hun].
    - (* branch *)
      destruct HR as (cs & -> & H1 & H2 & H3 & H4).
      destruct (children_payload scs cs O ltac:(lia) ltac:(lia) ltac:(rewrite H1; exact H3) H4) as (p & Ep & Sp).
      rewrite st_hash_e_branch in Er.
      assert (HX : Forall xok scs).
      { rewrite Forall_forall. intros c Hc. destruct (In_nth_error _ _ Hc) as [i Hi].
        destruct (H4 _ _ Hi) as (n & _ & [[-> _]|(_ & _ & HRc)]); [constructor|]. eapply R_xok; eassumption. }
      pose proof (go_e_fst [] scs O HX) as Eg. rewrite Sp in Eg.
      destruct (go_e H [] 0 scs) as [[p' em0]|e]; simpl in Eg; [|discriminate]. inversion Eg; subst p'.
      unfold finish_e in Er. cbn [is_nil negb] in Er. rewrite andb_false_r in Er. inversion Er; subst.
      exists em0, (list_wrap p). split; [reflexivity|]. split; [|reflexivity].
      pose proof (Canon.node_enc_full H cs) as En. rewrite Ep in En. exact En.
    - (* extension *)
      destruct HR as (cs & -> & H2 & H4 & H5).
      destruct (hash_R H H_len _ _ H5) as (ec & Eec & Ehc & _).
      cbn [st_hash_e app] in Er.
      pose proof (st_hash_e_fst H c k (R_xok H _ _ H5)) as Ec.
      replace (negb (is_nil k)) with true in Ec by (destruct k; [congruence|reflexivity]).
      rewrite Ehc in Ec. destruct (st_hash_e H c k) as [[v emc]|e]; simpl in Ec; [|discriminate]. inversion Ec; subst v.
      rewrite (in_place_eq k H2) in Er. destruct (hex_to_compact_total k) as [ck Eck]. rewrite Eck in Er.
      cbn [is_nil negb] in Er. rewrite andb_false_r in Er. inversion Er; subst.
      eexists emc, _. split; [reflexivity|]. split; [|reflexivity].
      rewrite Canon.node_enc_short, Eck. cbv zeta.
      rewrite (has_term_nib_false _ (nibbles_forallb _ H4)), Eec.
      rewrite (write_ref_child H H_len _ (ref_nonempty H H_len _ _ Eec)). reflexivity.
    - (* leaf *)
      destruct HR as [-> Hk]. cbn [st_hash_e] in Er.
      rewrite (in_place_eq (k ++ [16])) in Er by (destruct k; discriminate).
      destruct (hex_to_compact_total (k ++ [16])) as [ck Eck]. rewrite Eck in Er.
      cbn [is_nil negb] in Er. rewrite andb_false_r in Er. inversion Er; subst.
      exists [], (list_wrap (enc_str ck ++ enc_str v)). split; [reflexivity|]. split; [|reflexivity].
      rewrite Canon.node_enc_short, Eck. cbv zeta. rewrite has_term_app_16. reflexivity.
  Qed.

  (* the callback's  if len(path) == 1 { root = blob }  sees the root last *)
  Lemma find_root_last p pem e : find_root (prefix_em p (pem ++ [([], e)])) = Some e.
  Proof.
    unfold find_root, prefix_em. rewrite map_app, fold_left_app. reflexivity.
  Qed.
End Blob.
