(* Trie/GenerateProofs.v — proofs about Trie/Generate.v (C11), part 1:
     * erasure: the callback-instrumented stack trie computes exactly what
       Trie/Stack.v computes (so StackProofs' representation lemmas apply);
     * the stack trie on HEX keys of one length (the partition builder feeds 63
       nibbles): accepted, and represents the canonical trie of the pairs;
     * schedules: write lists that pairwise commute give the same database
       under every interleaving; key-disjoint writes commute;
     * GenerateTrie reports a mismatch whenever the assembled root differs. *)
From GV Require Import Lib.Tactics Lib.Bytes Rlp.Codec Trie.Hex Trie.HexProofs Trie.Node Trie.Ops Trie.Hash Trie.OpsProofs Trie.Canon Trie.Stack Trie.StackProofs Trie.Commit Trie.CommitProofs Trie.Generate.
Local Open Scope N_scope.

Definition tfst {A B} (r : tres (A * B)) : tres A :=
  match r with TOk (a, _) => TOk a | TErr e => TErr e end.

Section Erase.
  Variable H : list N -> list N.

  (* the children loop of st_hash_e, named *)
  Definition go_e (path : list N) : nat -> list stnode -> tres (list N * ems) :=
    fix go (i : nat) (l : list stnode) : tres (list N * ems) :=
    match l with
    | [] => TOk ([128], [])
    | c :: r =>
        let e := match c with
                 | StNil => TOk ([128], [])
                 | _ => match st_hash_e H c (path ++ [N.of_nat i]) with
                        | TOk (v, em) => TOk (enc_child_val v, em)
                        | TErr e => TErr e
                        end
                 end in
        match e, go (S i) r with
        | TOk (a, ea), TOk (b, eb) => TOk (a ++ b, ea ++ eb)
        | TErr e, _ => TErr e
        | _, TErr e => TErr e
        end
    end.

  Lemma go_e_cons path i c r :
    go_e path i (c :: r) =
    match (match c with
           | StNil => TOk ([128], [])
           | _ => match st_hash_e H c (path ++ [N.of_nat i]) with
                  | TOk (v, em) => TOk (enc_child_val v, em)
                  | TErr e => TErr e
                  end
           end), go_e path (S i) r with
    | TOk (a, ea), TOk (b, eb) => TOk (a ++ b, ea ++ eb)
    | TErr e, _ => TErr e
    | _, TErr e => TErr e
    end.
  Proof. reflexivity. Qed.

  Definition finish_e (path blob : list N) (em : ems) : tres (list N * ems) :=
    if Nat.ltb (length blob) 32 && negb (is_nil path) then TOk (blob, em)
    else TOk (H blob, em ++ [(path, blob)]).

  Lemma st_hash_e_branch cs path :
    st_hash_e H (StBranch cs) path =
    match go_e path O cs with
    | TOk (payload, em) => finish_e path (list_wrap payload) em
    | TErr e => TErr e
    end.
  Proof. reflexivity. Qed.

  Lemma nonnil_app (p q : list N) : q <> [] -> negb (is_nil (p ++ q)) = true.
  Proof. destruct p; destruct q; simpl; congruence. Qed.

  Lemma tfst_finish path blob em :
    tfst (finish_e path blob em) =
    (if Nat.ltb (length blob) 32 && negb (is_nil path) then TOk blob else TOk (H blob)).
  Proof. unfold finish_e. destruct (Nat.ltb (length blob) 32 && negb (is_nil path)); reflexivity. Qed.

  (* extension nodes carry a non-empty key (stacktrie.go never builds another) *)
  Inductive xok : stnode -> Prop :=
  | xok_nil : xok StNil
  | xok_empty : xok StEmpty
  | xok_branch cs : Forall xok cs -> xok (StBranch cs)
  | xok_ext k c : k <> [] -> xok c -> xok (StExt k c)
  | xok_leaf k v : xok (StLeaf k v)
  | xok_hashed v : xok (StHashed v).

  Lemma st_hash_e_fst : forall st path, xok st ->
    tfst (st_hash_e H st path) = st_hash H st (negb (is_nil path)).
  Proof.
    induction st as [| |cs IH|k c IH|k v|v] using stnode_ind'; intros path Hx; try reflexivity.
    - (* branch *)
      inversion Hx as [| |? Hxs| | |]; subst.
      rewrite st_hash_e_branch, st_hash_branch.
      assert (G : forall l i, Forall xok l ->
                    Forall (fun c => forall p, xok c -> tfst (st_hash_e H c p) = st_hash H c (negb (is_nil p))) l ->
                    tfst (go_e path i l) = st_go H l).
      { induction l as [|c l IHl]; intros i HX HF; [reflexivity|].
        inversion HF as [|? ? Hc HF']; subst. inversion HX as [|? ? Hxc HX']; subst. rewrite go_e_cons. cbn [st_go].
        specialize (IHl (S i) HX' HF').
        specialize (Hc (path ++ [N.of_nat i]) Hxc). rewrite nonnil_app in Hc by discriminate.
        rewrite <- IHl, <- Hc.
        destruct c;
          [ destruct (go_e path (S i) l) as [[b eb]|e]; reflexivity
          | destruct (st_hash_e H _ _) as [[v0 e0]|e0]; simpl;
            [destruct (go_e path (S i) l) as [[b eb]|e]; reflexivity | reflexivity] .. ]. }
      specialize (G cs O Hxs IH). destruct (go_e path 0 cs) as [[p em]|e]; simpl in G; rewrite <- G; [|reflexivity].
      apply tfst_finish.
    - (* ext *)
      inversion Hx as [| | |? ? Hk Hc| |]; subst.
      cbn [st_hash_e st_hash]. specialize (IH (path ++ k) Hc). rewrite nonnil_app in IH by assumption.
      destruct (st_hash_e H c (path ++ k)) as [[v em]|e]; simpl in IH; rewrite <- IH; [|reflexivity].
      destruct (hex_to_compact_in_place k); [|reflexivity]. apply tfst_finish.
    - (* leaf *)
      cbn [st_hash_e st_hash]. destruct (hex_to_compact_in_place (k ++ [16])); [|reflexivity]. apply tfst_finish.
  Qed.

  Lemma hashed_e_fst st path : xok st -> path <> [] ->
    tfst (hashed_e H st path) = hashed H st.
  Proof.
    intros Hx Hp. unfold hashed_e, hashed. pose proof (st_hash_e_fst st path Hx) as E.
    replace (negb (is_nil path)) with true in E by (destruct path; [congruence|reflexivity]).
    rewrite <- E. destruct (st_hash_e H st path) as [[v em]|e]; reflexivity.
  Qed.

  Lemma app_nonnil (p q : list N) : q <> [] -> p ++ q <> [].
  Proof. destruct p; destruct q; simpl; congruence. Qed.

  Lemma hash_prev_e_fst : forall i cs path, Forall xok cs ->
    tfst (hash_prev_e H i cs path) = hash_prev H i cs.
  Proof.
    induction i as [|j IH]; intros cs path Hx; [reflexivity|].
    cbn [hash_prev_e hash_prev]. destruct (nth_error cs j) as [c|] eqn:Ec; [|reflexivity].
    assert (Hc : xok c) by (rewrite Forall_forall in Hx; apply Hx; eapply nth_error_In; eassumption).
    pose proof (hashed_e_fst c (path ++ [N.of_nat j]) Hc (app_nonnil path [N.of_nat j] ltac:(discriminate))) as E.
    destruct c; try apply IH; try assumption; try reflexivity;
      (destruct (hashed_e H _ _) as [[c' em]|e]; simpl in E; rewrite <- E; [|reflexivity];
       destruct (set_nth j c' cs); reflexivity).
  Qed.

  Lemma hash_prev_xok : forall i cs cs', Forall xok cs -> hash_prev H i cs = TOk cs' -> Forall xok cs'.
  Proof.
    induction i as [|j IH]; intros cs cs' Hx E; cbn [hash_prev] in E; [inversion E; subst; assumption|].
    destruct (nth_error cs j) as [c|] eqn:Ec; [|discriminate].
    assert (G : forall c0, hashed H c0 = TOk c0 -> False \/ True) by (intros; right; exact I).
    assert (Hset : forall c', (exists v, c' = StHashed v) -> forall cs2, set_nth j c' cs = Some cs2 -> Forall xok cs2).
    { intros c' [v ->] cs2. clear -Hx. revert cs cs2 Hx. induction j as [|j IHj]; intros [|x cs] cs2 Hx Es; simpl in Es; try discriminate.
      - inversion Es; subst. inversion Hx; subst. constructor; [constructor|assumption].
      - destruct (set_nth j (StHashed v) cs) eqn:E1; [|discriminate]. inversion Es; subst.
        inversion Hx; subst. constructor; [assumption|]. eapply IHj; eassumption. }
    destruct c; try (eapply IH; eassumption); try (inversion E; subst; assumption);
      (unfold hashed in E; destruct (st_hash H _ true) as [hv|]; [|discriminate];
       destruct (set_nth j (StHashed hv) cs) eqn:Es; [|discriminate]; inversion E; subst;
       eapply Hset; [eexists; reflexivity|eassumption]).
  Qed.

  Lemma set_nth_Forall {A} (P : A -> Prop) : forall i (x : A) l l',
    Forall P l -> P x -> set_nth i x l = Some l' -> Forall P l'.
  Proof.
    induction i as [|i IH]; intros x [|y l] l' HF Hx E; simpl in E; try discriminate.
    - inversion E; subst. inversion HF; subst. constructor; assumption.
    - destruct (set_nth i x l) eqn:E1; [|discriminate]. inversion E; subst. inversion HF; subst.
      constructor; [assumption|]. eapply IH; [| |exact E1]; assumption.
  Qed.

  Lemma st_insert_e_fst : forall fuel st key value path, xok st ->
    tfst (st_insert_e H fuel st key value path) = st_insert H fuel st key value.
  Proof.
    induction fuel as [|f IH]; intros st key value path Hx; [reflexivity|].
    destruct st as [| |cs|k c|k v|v]; try reflexivity; cbn [st_insert_e st_insert].
    - (* branch *)
      inversion Hx as [| |? Hxs| | |]; subst.
      destruct key as [|k0 kr]; [reflexivity|].
      pose proof (hash_prev_e_fst (N.to_nat k0) cs path Hxs) as E.
      destruct (hash_prev_e H (N.to_nat k0) cs path) as [[cs1 em1]|e]; simpl in E; rewrite <- E; [|reflexivity].
      pose proof (hash_prev_xok _ _ _ Hxs (eq_sym E)) as Hx1.
      destruct (nth_error cs1 (N.to_nat k0)) as [c|] eqn:Ec; [|reflexivity].
      assert (Hc : xok c) by (rewrite Forall_forall in Hx1; apply Hx1; eapply nth_error_In; eassumption).
      pose proof (IH c kr value (path ++ [k0]) Hc) as Ei.
      destruct c;
        try (destruct (set_nth (N.to_nat k0) _ cs1); reflexivity);
        (destruct (st_insert_e H f _ kr value (path ++ [k0])) as [[c' em2]|e]; simpl in Ei; rewrite <- Ei; [|reflexivity];
         destruct (set_nth (N.to_nat k0) c' cs1); reflexivity).
    - (* ext *)
      inversion Hx as [| | |? ? Hk Hc| |]; subst.
      destruct (get_diff_index k key) as [d|]; [|reflexivity].
      destruct (Nat.eqb d (length k)).
      + pose proof (IH c (skipn d key) value (path ++ firstn d key) Hc) as Ei.
        destruct (st_insert_e H f c (skipn d key) value (path ++ firstn d key)) as [[c' em]|e]; simpl in Ei; rewrite <- Ei; reflexivity.
      + destruct (Nat.ltb d (length k - 1)) eqn:Elt.
        * assert (Hx2 : xok (StExt (skipn (d + 1) k) c)).
          { constructor; [|assumption]. intros E0. apply (f_equal (@length N)) in E0. rewrite skipn_length in E0.
            apply Nat.ltb_lt in Elt. simpl in E0. lia. }
          assert (Hp : path ++ firstn (d + 1) k <> []).
          { apply app_nonnil. destruct k; [congruence|]. rewrite Nat.add_1_r. discriminate. }
          pose proof (hashed_e_fst _ _ Hx2 Hp) as Eh.
          destruct (hashed_e H (StExt (skipn (d + 1) k) c) (path ++ firstn (d + 1) k)) as [[n' em]|e];
            simpl in Eh; rewrite <- Eh; [|reflexivity].
          destruct (nth_error k d); [|reflexivity]. destruct (nth_error key d); [|reflexivity].
          destruct (branch2 n n' n0 (StLeaf (skipn (d + 1) key) value)); [|reflexivity].
          destruct (Nat.eqb d 0); reflexivity.
        * pose proof (hashed_e_fst _ (path ++ k) Hc (app_nonnil _ _ Hk)) as Eh.
          destruct (hashed_e H c (path ++ k)) as [[n' em]|e]; simpl in Eh; rewrite <- Eh; [|reflexivity].
          destruct (nth_error k d); [|reflexivity]. destruct (nth_error key d); [|reflexivity].
          destruct (branch2 n n' n0 (StLeaf (skipn (d + 1) key) value)); [|reflexivity].
          destruct (Nat.eqb d 0); reflexivity.
    - (* leaf *)
      destruct (get_diff_index k key) as [d|]; [|reflexivity].
      destruct (Nat.leb (length k) d) eqn:Ele; [reflexivity|].
      destruct (nth_error k d) eqn:Ek; [|reflexivity]. destruct (nth_error key d); [|reflexivity].
      assert (Hp : path ++ firstn (d + 1) k <> []).
      { apply app_nonnil. destruct k; [destruct d; discriminate|]. rewrite Nat.add_1_r. discriminate. }
      pose proof (hashed_e_fst (StLeaf (skipn (d + 1) k) v) _ (xok_leaf _ _) Hp) as Eh.
      destruct (hashed_e H (StLeaf (skipn (d + 1) k) v) (path ++ firstn (d + 1) k)) as [[n' em]|e];
        simpl in Eh; rewrite <- Eh; [|reflexivity].
      destruct (branch2 n n' n0 (StLeaf (skipn (d + 1) key) value)); [|reflexivity].
      destruct (Nat.eqb d 0); reflexivity.
  Qed.
End Erase.

(* ====================================================================== *)
(* the stack trie fed with hex keys of one length                          *)
(* ====================================================================== *)
Definition no_resolve (h p : list N) : option (node * list N) := None.

Section Feed.
  Variable H : list N -> list N.
  Hypothesis H_len : forall x, length (H x) = 32%nat.

  Lemma R_xok : forall st n, R H st n -> xok st.
  Proof.
    induction st as [| |cs IH|k c IH|k v|v] using stnode_ind'; intros n HR; apply R_inv in HR;
      try solve [destruct HR]; try constructor.
    - destruct HR as (ncs & -> & _ & _ & _ & Hrel).
      rewrite Forall_forall in *. intros c Hin. destruct (In_nth_error _ _ Hin) as [i Hi].
      destruct (Hrel _ _ Hi) as (n & _ & [[-> _]|(_ & _ & HRc)]); [constructor|]. eapply IH; eassumption.
    - destruct HR as (cs & -> & Hk & _ & _). exact Hk.
    - destruct HR as (cs & -> & _ & _ & HRc). eapply IH; eassumption.
  Qed.

  (* one accepted update of the builder: the represented canonical trie gains exactly this key *)
  Lemma st_update_hex_ok s t L k v :
    sroot H s t L -> canon t -> nibbles k -> length k = L -> (1 <= L)%nat ->
    slice_lt (snd s) k = true -> v <> [] ->
    exists s' em t',
      st_update_hex_e H s k v = TOk (inr (s', em)) /\
      sroot H s' t' L /\ canon t' /\ snd s' = k /\
      lk t' (k ++ [16]) = Some v /\ (forall hk, hk <> k ++ [16] -> lk t' hk = lk t hk).
  Proof.
    intros Hr Hc Hk HL HL1 Hlt Hv. destruct s as [st last]. cbn [fst snd] in *.
    pose proof (valid_key_app _ Hk) as Hvk.
    destruct (update_hex_spec no_resolve t (k ++ [16]) v Hc Hvk) as (t' & ev & Eu & Hc' & Lk & Lo).
    destruct v as [|b v]; [congruence|]. cbn [vopt] in Lk.
    unfold st_update_hex_e. cbn [fst snd]. rewrite Hlt. cbn [negb].
    unfold sroot in Hr. cbn [fst snd] in Hr.
    destruct Hr as [(-> & -> & ->)|(HR & Hin & Hun & Hsp & HLl)]; cbn [fst snd] in *.
    - (* first key *)
      cbn [st_insert_e].
      replace (ops_fuel (k ++ [16])) with (S (ops_fuel (k ++ [16]) - 1)) in Eu by (unfold ops_fuel; lia).
      rewrite insert_empty_snoc in Eu. inversion Eu; subst t'.
      eexists (StLeaf k (b :: v), k), [], _. split; [reflexivity|]. split.
      { right. cbn [fst snd]. split; [apply R_leaf; exact Hk|]. split; [exact I|]. split; [exact I|].
        split; [apply sp_leaf|exact HL]. }
      auto.
    - destruct (insert_progress H H_len no_resolve (S (length k)) st last Hsp t k (b :: v) HR Hk) as (st' & Ei & Hsp'); [lia|exact Hlt|lia|].
      destruct (insert_R H H_len no_resolve _ _ _ _ _ _ HR Hk Ei (ops_fuel (k ++ [16])) [])
        as (t1 & ev1 & E1 & HR' & Hin' & Hun' & _).
      { unfold ops_fuel. rewrite app_length. simpl. lia. }
      rewrite E1 in Eu. inversion Eu; subst t1.
      pose proof (st_insert_e_fst H (S (length k)) st k (b :: v) [] (R_xok _ _ HR)) as Ee.
      rewrite Ei in Ee. destruct (st_insert_e H (S (length k)) st k (b :: v) []) as [[r em]|e]; simpl in Ee; [|discriminate].
      inversion Ee; subst r.
      exists (st', k), em, t'. split; [reflexivity|]. split.
      { right. cbn [fst snd]. auto. }
      auto.
  Qed.

  (* hex-keyed pairs as operations on hex keys with terminator *)
  Definition hops (kvs : list (list N * list N)) : list (list N * list N) :=
    map (fun kv => (fst kv ++ [16], snd kv)) kvs.

  (* strictly ascending hex keys *)
  Fixpoint hasc (last : list N) (kvs : list (list N * list N)) : Prop :=
    match kvs with
    | [] => True
    | (k, v) :: r => slice_lt last k = true /\ hasc k r
    end.

  (* feeding the builder: the model's own loop, emissions concatenated *)
  Fixpoint hfeed (s : stack) (kvs : list (list N * list N)) : option (stack * ems) :=
    match kvs with
    | [] => Some (s, [])
    | (k, v) :: r =>
        match st_update_hex_e H s k v with
        | TOk (inr (s', em)) =>
            match hfeed s' r with Some (s'', em') => Some (s'', em ++ em') | None => None end
        | _ => None
        end
    end.

  Lemma hfeed_ok : forall kvs s t L,
    sroot H s t L -> canon t -> (1 <= L)%nat ->
    Forall (fun kv => nibbles (fst kv) /\ length (fst kv) = L /\ snd kv <> []) kvs ->
    hasc (snd s) kvs ->
    exists s' em t', hfeed s kvs = Some (s', em) /\ sroot H s' t' L /\ canon t' /\
      forall hk, lk t' hk = apply_ops (lk t) (hops kvs) hk.
  Proof.
    induction kvs as [|[k v] kvs IH]; intros s t L Hr Hc HL HF Ha.
    - exists s, [], t. auto.
    - inversion HF as [|? ? (Hk & Hlen & Hv) HF']; subst. cbn [fst snd] in *. destruct Ha as [Hlt Ha'].
      destruct (st_update_hex_ok s t (length k) k v Hr Hc Hk eq_refl HL Hlt Hv)
        as (s1 & em1 & t1 & E1 & Hr1 & Hc1 & Hs1 & L1 & L2).
      rewrite <- Hs1 in Ha'.
      destruct (IH s1 t1 (length k) Hr1 Hc1 HL HF' Ha') as (s2 & em2 & t2 & E2 & Hr2 & Hc2 & L3).
      exists s2, (em1 ++ em2), t2. cbn [hfeed]. rewrite E1, E2. split; [reflexivity|]. split; [assumption|].
      split; [assumption|]. intros hk. rewrite L3. cbn [hops map apply_ops fst snd].
      apply apply_ops_ext. intros k'. unfold put. destruct (bytes_eqb k' (k ++ [16])) eqn:B.
      + apply bytes_eqb_eq in B. subst. rewrite L1. destruct v; [congruence|reflexivity].
      + apply L2. intros ->. rewrite bytes_eqb_refl in B. discriminate.
  Qed.

  (* Hash() of the builder: the root hash of the represented trie; the root is always hashed *)
  Lemma st_root_e_ok s t L : sroot H s t L ->
    exists h em, st_root_e H s = TOk (h, em) /\ hash_root H t = Some h.
  Proof.
    intros [(E & -> & _)|(HR & Hin & Hun & _ & _)]; unfold st_root_e.
    - rewrite E. eexists _, _. split; reflexivity.
    - destruct (hash_R H H_len _ _ HR) as (e & Ee & _ & Ef).
      pose proof (st_hash_e_fst H (fst s) [] (R_xok _ _ HR)) as Er. cbn [is_nil negb] in Er.
      rewrite (Ef Hun) in Er. destruct (st_hash_e H (fst s) []) as [[h em]|]; simpl in Er; [|discriminate].
      inversion Er; subst. eexists _, _. split; [reflexivity|].
      unfold hash_root, node_ref. destruct t; try destruct Hin; rewrite Ee, andb_false_r; reflexivity.
  Qed.
End Feed.
