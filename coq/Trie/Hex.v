(* Trie/Hex.v — executable model of /repo/trie/encoding.go (C10).
   Bytes and nibbles are [N]; Go's [byte] arithmetic is written with its
   wrap-around ([mod 256]) exactly where the Go expression can wrap.
   Functions that can panic in Go (index out of range, explicit panic) return
   [option] with [None] = panic; nothing is silently totalised. *)
From Coq Require Import List NArith Arith Bool.
Import ListNotations.
Local Open Scope N_scope.

(* trie/encoding.go:hasTerm — len(s) > 0 && s[len(s)-1] == 16 *)
Definition has_term (s : list N) : bool :=
  match s with
  | [] => false
  | _ => N.eqb (last s 0) 16
  end.

(* the Go expression  a<<4 | b  on bytes *)
Definition bor4 (a b : N) : N := N.lor ((a * 16) mod 256) b.

(* trie/encoding.go:decodeNibbles.  The Go loop reads nibbles[ni+1] and so
   panics on an odd-length input: [None]. *)
Fixpoint decode_nibbles (nibbles : list N) : option (list N) :=
  match nibbles with
  | [] => Some []
  | [_] => None
  | a :: b :: r =>
      match decode_nibbles r with
      | Some t => Some (bor4 a b :: t)
      | None => None
      end
  end.

(* trie/encoding.go:hexToCompact *)
Definition hex_to_compact (hex : list N) : option (list N) :=
  let term := has_term hex in
  let hex1 := if term then removelast hex else hex in
  let flag := if term then 32 else 0 in           (* terminator << 5 *)
  if Nat.odd (length hex1) then
    match hex1 with
    | h0 :: rest =>
        match decode_nibbles rest with
        | Some t => Some (N.lor (N.lor flag 16) h0 :: t)
        | None => None
        end
    | [] => None
    end
  else
    match decode_nibbles hex1 with
    | Some t => Some (flag :: t)
    | None => None
    end.

(* trie/encoding.go:keybytesToHex *)
Fixpoint nibbles_of (str : list N) : list N :=
  match str with
  | [] => []
  | b :: r => (b / 16) :: (b mod 16) :: nibbles_of r
  end.
Definition keybytes_to_hex (str : list N) : list N := nibbles_of str ++ [16].

(* trie/encoding.go:compactToHex *)
Definition compact_to_hex (compact : list N) : list N :=
  match compact with
  | [] => []
  | _ =>
      let base := keybytes_to_hex compact in
      let b0 := hd 0 base in
      let base1 := if b0 <? 2 then removelast base else base in
      let chop := (2 - N.land b0 1)%N in
      skipn (N.to_nat chop) base1
  end.

(* trie/encoding.go:hexToKeybytes — panics on odd length *)
Definition hex_to_keybytes (hex : list N) : option (list N) :=
  let hex1 := if has_term hex then removelast hex else hex in
  if Nat.odd (length hex1) then None else decode_nibbles hex1.

(* trie/encoding.go:prefixLen *)
Fixpoint prefix_len (a b : list N) : nat :=
  match a, b with
  | x :: a', y :: b' => if N.eqb x y then S (prefix_len a' b') else O
  | _, _ => O
  end.

(* ---- hexToCompactInPlace: the slice is updated index-wise, as in Go ---- *)

Fixpoint upd {A} (i : nat) (v : A) (l : list A) : option (list A) :=
  match l, i with
  | [], _ => None                       (* index out of range: Go panics *)
  | _ :: r, O => Some (v :: r)
  | x :: r, S i' => match upd i' v r with Some r' => Some (x :: r') | None => None end
  end.

(* for ; ni < hexLen; bi, ni = bi+1, ni+2 { hex[bi] = hex[ni]<<4 | hex[ni+1] }
   [n] = number of iterations still to run (computed by the caller from
   hexLen and ni; the loop guard is re-checked by the caller's arithmetic). *)
Fixpoint ip_loop (n ni bi : nat) (hex : list N) : option (list N) :=
  match n with
  | O => Some hex
  | S n' =>
      match nth_error hex ni, nth_error hex (ni + 1) with
      | Some a, Some b =>
          match upd bi (bor4 a b) hex with
          | Some hex' => ip_loop n' (ni + 2) (bi + 1) hex'
          | None => None
          end
      | _, _ => None
      end
  end.

Definition hex_to_compact_in_place (hex : list N) : option (list N) :=
  let hexLen0 := length hex in
  let term := match hexLen0 with O => false | _ => N.eqb (last hex 0) 16 end in
  let firstByte0 := if term then 32 else 0 in
  let hexLen := if term then (hexLen0 - 1)%nat else hexLen0 in
  let binLen := (hexLen / 2 + 1)%nat in
  let odd := Nat.odd hexLen in
  let ni0 := if odd then 1%nat else 0%nat in
  match (if odd then
           match nth_error hex 0 with
           | Some h0 => Some (N.lor (N.lor firstByte0 16) h0)
           | None => None
           end
         else Some firstByte0) with
  | None => None
  | Some firstByte =>
      (* iterations: ni runs ni0, ni0+2, ... while ni < hexLen *)
      let iters := ((hexLen - ni0 + 1) / 2)%nat in
      match ip_loop iters ni0 1 hex with
      | None => None
      | Some hex' =>
          match upd 0 firstByte hex' with        (* hex[0] = firstByte *)
          | Some hex'' => Some (firstn binLen hex'')
          | None => None
          end
      end
  end.

(* ---- well-formedness predicates used by the theorems ---- *)
Definition nibbleb (x : N) : bool := x <? 16.
Definition byteb (x : N) : bool := x <? 256.

(* nibbles < 16, the terminator 16 only in last position *)
Definition wf_hex (h : list N) : bool :=
  forallb nibbleb (if has_term h then removelast h else h).

(* a compact key as the encoder produces it: non-empty, bytes, flag nibble < 4,
   low nibble of the first byte zero when the even flag is set *)
Definition wf_compact (c : list N) : bool :=
  match c with
  | [] => false
  | c0 :: r =>
      forallb byteb c && (c0 / 16 <? 4) &&
      (if N.eqb (N.land (c0 / 16) 1) 0 then N.eqb (c0 mod 16) 0 else true)
  end.
