(* Trie/GenerateNodes13.v — C11_gen_nodes_hash: the trie-node store after a
   successful GenerateTrie under the HASH scheme (keys = node hashes), assuming H
   is collision free.  The store holds exactly the canonical nodes, each under
   its hash — except that rawdb.DeleteTrieNode removes the orphaned subtree root
   of a lone partition BY HASH: a canonical node with that very hash (none exists
   unless a storage trie contains a copy of the account-trie node, which needs a
   hash cycle) would be missing.  The statement says precisely that. *)
From Coq Require Import Permutation.
From GV Require Import Lib.Tactics Lib.Bytes Rlp.Codec Trie.Hex Trie.HexProofs Trie.Node Trie.Ops Trie.Hash Trie.OpsProofs Trie.Canon Trie.Stack Trie.StackProofs Trie.ProofProofs Trie.Commit Trie.CommitProofs Trie.CommitTracer Trie.Generate Trie.GenerateProofs Trie.GenerateWalk Trie.GenerateWalk2 Trie.GenerateWalk3 Trie.GenerateKeys Trie.GenerateSize Trie.GenerateAssemble Trie.GenerateAssemble2 Trie.GenerateSched Trie.GenerateRoot Trie.GenerateRoot2 Trie.GenerateRoot3 Trie.GenerateFlat Trie.GenerateFlat2 Trie.GenerateDisjoint Trie.GenerateDisjoint2 Trie.GenerateLocal2 Trie.GenerateNodes Trie.GenerateNodes2 Trie.GenerateNodes5 Trie.GenerateNodes6 Trie.GenerateNodes7 Trie.GenerateNodes8 Trie.GenerateNodes9 Trie.GenerateNodesPaths Trie.GenerateNodes10 Trie.GenerateNodes11 Trie.GenerateNodes12.
Local Open Scope N_scope.

Lemma fold_del_get {A} D : forall (m : amap A) k,
  am_get k (fold_left (fun m k => am_del k m) D m) = if existsb (fun d => bytes_eqb d k) D then None else am_get k m.
Proof.
  induction D as [|d D IH]; intros m k; [reflexivity|]. cbn [fold_left existsb]. rewrite IH, am_get_del.
  rewrite (beqb_sym k d). destruct (bytes_eqb d k); cbn [orb]; [destruct (existsb _ D); reflexivity|reflexivity].
Qed.

Section Nodes13.
  Variable H : list N -> list N.
  Hypothesis H_len : forall x, length (H x) = 32%nat.
  Hypothesis H_inj : forall a b, H a = H b -> a = b.

  (* every node put of a run is keyed by node_key *)
  Definition keyed (sc : scheme) (kb : list N * list N) : Prop :=
    exists owner path, fst kb = node_key sc owner path (H (snd kb)).

  Lemma keyed_nodes sc o em : Forall (keyed sc) (nws (node_writes H sc o em)).
  Proof. rewrite nws_nodes. unfold nk. rewrite Forall_forall. intros x Hx. apply in_map_iff in Hx as (pb & <- & _). exists o, (fst pb). reflexivity. Qed.

  Lemma keyed_class sc p keys ws : Forall (wclass H sc p keys) ws -> Forall (keyed sc) (nws ws).
  Proof.
    induction 1 as [|w ws Hw _ IH]; [constructor|]. destruct w as [k b| | |]; cbn [nws flat_map app] in *; try exact IH.
    constructor; [|exact IH]. destruct Hw as [[path ->]|(h & path & _ & _ & _ & ->)]; eexists _, _; reflexivity.
  Qed.

  Lemma keyed_assemble sc blobs got ws : assemble_root H sc blobs = GOk (got, ws) -> Forall (keyed sc) (nws ws).
  Proof.
    unfold assemble_root. intros E.
    destruct (length (filter (fun b : option (list N) => match b with Some _ => true | None => false end) blobs)) as [|[|n]].
    - inversion E; subst. constructor.
    - destruct (fold_left _ _ None) as [[i blob]|]; [|discriminate].
      destruct (mount_partition_root H blob (N.of_nat i)) as [[[rh rb] orphan]|] eqn:Em; [|discriminate].
      assert (Erh : rh = H rb).
      { unfold mount_partition_root in Em. destruct (decode_node_elements blob) as [elems|]; [|discriminate].
        destruct elems as [|e0 [|e1 [|e2 r]]];
          repeat match type of Em with
                 | (if ?c then _ else _) = _ => destruct c
                 | match ?x with _ => _ end = _ => destruct x
                 end; try discriminate; inversion Em; reflexivity. }
      subst rh. inversion E; subst. destruct orphan; cbn [nws flat_map app]; constructor; try constructor; eexists _, _; reflexivity.
    - inversion E; subst. cbn [nws flat_map app]. constructor; [|constructor]. eexists _, _; reflexivity.
  Qed.

  Lemma nws_concat_keyed sc db rs : wf_db db ->
    Forall2 (fun p r => generate_partition H sc p db = GOk r) partitions rs ->
    Forall (keyed sc) (nws (concat (map r_ws rs))).
  Proof.
    intros Hwf. generalize partitions. intros ps HF. induction HF as [|p r ps rs Ep _ IH]; [constructor|].
    cbn [map concat]. rewrite nws_app. apply Forall_app. split; [|exact IH].
    eapply keyed_class. apply (partition_class H sc p db r Hwf Ep).
  Qed.

  Theorem gen_nodes_hash expected db st : wf_db db -> small_state H db -> g_nodes db = [] ->
    fst (generate H HashScheme expected db) = GOk st ->
    exists orphan, (length orphan <= 1)%nat /\ (forall x, In x orphan -> fst x = H (snd x)) /\
      forall key blob,
        am_get key (g_nodes (snd (generate H HashScheme expected db))) = Some blob <->
        (In (key, blob) (spec_nodes H HashScheme db) /\ ~ In key (map fst orphan)).
  Proof.
    intros Hwf Hsm Hn0 Hok.
    destruct (gen_node_writes H H_len HashScheme expected db st Hwf Hsm Hok)
      as (pw & dw & orphan & Esnd & Dp & Nd & Lo & PW & Dd & _ & rs & ws & Er & Ea & Eall).
    (* all puts are keyed by the hash of their blob *)
    assert (HK : forall x, In x (nws pw) -> fst x = H (snd x)).
    { assert (Enw : nws pw = nws (concat (map r_ws rs)) ++ nws ws).
      { rewrite <- nws_app, <- Eall, nws_app, Nd, app_nil_r. reflexivity. }
      intros x Hx. rewrite Enw in Hx.
      assert (HF : Forall (keyed HashScheme) (nws (concat (map r_ws rs)) ++ nws ws)).
      { apply Forall_app. split; [apply (nws_concat_keyed HashScheme db rs Hwf (run_partitions_F2 H HashScheme db partitions rs Er))|].
        eapply keyed_assemble; exact Ea. }
      rewrite Forall_forall in HF. destruct (HF x Hx) as (o & pa & E). exact E. }
    exists orphan. split; [exact Lo|]. split.
    { intros x Hx. apply HK. eapply Permutation_in; [apply Permutation_sym; exact PW|]. apply in_or_app. right. exact Hx. }
    intros key blob.
    rewrite Esnd, nodes_apply, Hn0, fold_left_app, (nstep_puts pw [] Dp), (nstep_dels dw _ Nd), Dd.
    rewrite fold_del_get, fold_put_get. cbn [am_get].
    assert (Hex : existsb (fun d => bytes_eqb d key) (map fst orphan) = true <-> In key (map fst orphan)).
    { rewrite existsb_exists. split; [intros (d & Hd & B); apply beqb_eq in B; subst; exact Hd|intros Hk; exists key; split; [exact Hk|apply beqb_refl]]. }
    split.
    - intros E. destruct (existsb _ (map fst orphan)) eqn:Ex; [discriminate|].
      destruct (am_get key (rev (nws pw))) as [v|] eqn:Eg; [|discriminate]. inversion E; subst v.
      apply am_get_in, in_rev in Eg. apply (Permutation_in _ PW) in Eg. split.
      + apply in_app_or in Eg as [Eg|Eg]; [exact Eg|]. exfalso.
        assert (In key (map fst orphan)) by (apply in_map_iff; exists (key, blob); auto).
        apply Hex in H0. congruence.
      + intros Hk. apply Hex in Hk. congruence.
    - intros [Hin Hni].
      destruct (existsb _ (map fst orphan)) eqn:Ex; [exfalso; apply Hni, Hex; reflexivity|].
      assert (HinW : In (key, blob) (nws pw)) by (eapply Permutation_in; [apply Permutation_sym; exact PW|]; apply in_or_app; left; exact Hin).
      apply in_rev in HinW. destruct (am_in_get _ _ _ HinW) as [v Ev]. rewrite Ev. f_equal.
      apply am_get_in, in_rev in Ev. pose proof (HK _ Ev) as K1. rewrite <- in_rev in HinW. pose proof (HK _ HinW) as K2.
      cbn [fst snd] in K1, K2. apply H_inj. congruence.
  Qed.
End Nodes13.
