(* Trie/GenerateWalk.v — the merge walk of generatePartition (Trie/Generate.v, C11):
   what a SUCCESSFUL run of stor_loop / acct_loop / tail_loop did, on sorted
   iterators: which storage entries were deleted, which were fed to which
   account's storage builder, what the account builder was fed, which flat
   accounts were rewritten. *)
From GV Require Import Lib.Tactics Lib.Bytes Rlp.Codec Trie.Hex Trie.HexProofs Trie.Node Trie.Ops Trie.Hash Trie.OpsProofs Trie.Canon Trie.Stack Trie.StackProofs Trie.Commit Trie.CommitProofs Trie.CommitTracer Trie.Generate Trie.GenerateProofs.
Local Open Scope N_scope.

(* ---------------------------------------------------------------- the byte order *)

Lemma bcmp_refl a : bytes_cmp a a = Eq.
Proof. apply bcmp_eq. reflexivity. Qed.

Lemma bcmp_gt_lt a b : bytes_cmp a b = Gt <-> bytes_cmp b a = Lt.
Proof. rewrite (bcmp_antisym a b). destruct (bytes_cmp a b); simpl; split; congruence. Qed.

(* x > h and x <= y  ->  y > h *)
Lemma bcmp_gt_le x h y : bytes_cmp x h = Gt -> bytes_cmp x y <> Gt -> bytes_cmp y h = Gt.
Proof.
  intros G L. destruct (bytes_cmp y h) eqn:C; [| |reflexivity]; exfalso; apply L.
  - apply bcmp_eq in C. subst. exact G.
  - apply bcmp_gt_lt. apply bcmp_gt_lt in G. eapply bcmp_lt_trans; eassumption.
Qed.

(* x < h and y >= h -> ... ; x <= h, h < y -> x < y *)
Lemma bcmp_le_lt x h y : bytes_cmp x h <> Gt -> bytes_cmp h y = Lt -> bytes_cmp x y = Lt.
Proof.
  intros L G. destruct (bytes_cmp x h) eqn:C; [| |congruence].
  - apply bcmp_eq in C. subst. exact G.
  - eapply bcmp_lt_trans; eassumption.
Qed.

(* ---------------------------------------------------------------- storage entries by account *)

Definition sa (kv : list N * list N) : list N := firstn 32 (fst kv).
Definition sa_lt (h : list N) (kv : list N * list N) : bool := match bytes_cmp (sa kv) h with Lt => true | _ => false end.
Definition sa_eq (h : list N) (kv : list N * list N) : bool := match bytes_cmp (sa kv) h with Eq => true | _ => false end.
Definition sa_gt (h : list N) (kv : list N * list N) : bool := match bytes_cmp (sa kv) h with Gt => true | _ => false end.

(* the account parts never decrease along the list *)
Fixpoint ndsa (ss : amap (list N)) : Prop :=
  match ss with
  | [] => True
  | x :: r => Forall (fun y => bytes_cmp (sa x) (sa y) <> Gt) r /\ ndsa r
  end.

Definition wf_stor (ss : amap (list N)) : Prop :=
  Forall (fun kv => length (fst kv) = 64%nat /\ forallb Hex.byteb (fst kv) = true) ss.
Definition wf_accts (m : amap (list N)) : Prop :=
  Forall (fun kv => length (fst kv) = 32%nat /\ forallb Hex.byteb (fst kv) = true) m.

Definition slotkv (kv : list N * list N) : list N * list N := (nibbles_of (skipn 32 (fst kv)), snd kv).

Definition dels (ws : list wop) : list (list N) :=
  flat_map (fun w => match w with WStorDel k => [k] | _ => [] end) ws.
Definition acws (ws : list wop) : list (list N * list N) :=
  flat_map (fun w => match w with WAcct h v => [(h, v)] | _ => [] end) ws.

Lemma dels_app a b : dels (a ++ b) = dels a ++ dels b.
Proof. unfold dels. apply flat_map_app. Qed.
Lemma acws_app a b : acws (a ++ b) = acws a ++ acws b.
Proof. unfold acws. apply flat_map_app. Qed.
Lemma dels_nodes H sc o em : dels (node_writes H sc o em) = [].
Proof. unfold node_writes. induction em; [reflexivity|exact IHem]. Qed.
Lemma acws_nodes H sc o em : acws (node_writes H sc o em) = [].
Proof. unfold node_writes. induction em; [reflexivity|exact IHem]. Qed.

Lemma all_gt_filters h ss : Forall (fun y => bytes_cmp (sa y) h = Gt) ss ->
  filter (sa_gt h) ss = ss /\ filter (sa_lt h) ss = [] /\ filter (sa_eq h) ss = [].
Proof.
  induction 1 as [|y r Hy _ (I1 & I2 & I3)]; [auto|]. cbn [filter]. unfold sa_gt, sa_lt, sa_eq in *. rewrite Hy.
  rewrite I1, I2, I3. auto.
Qed.

Lemma skipn_len {A} n (l : list A) m : length l = (n + m)%nat -> length (skipn n l) = m.
Proof. intros E. rewrite skipn_length. lia. Qed.

Lemma forallb_skipn {A} (f : A -> bool) n l : forallb f l = true -> forallb f (skipn n l) = true.
Proof.
  revert l. induction n as [|n IH]; intros [|x l] E; simpl; auto. simpl in E. apply andb_true_iff in E. apply IH, E.
Qed.
Lemma forallb_firstn {A} (f : A -> bool) n l : forallb f l = true -> forallb f (firstn n l) = true.
Proof.
  revert l. induction n as [|n IH]; intros [|x l] E; simpl; auto. simpl in E. apply andb_true_iff in E. destruct E as [E1 E2].
  rewrite E1. apply IH, E2.
Qed.

Section Walk.
  Variable H : list N -> list N.
  Hypothesis H_len : forall x, length (H x) = 32%nat.

  (* the inner loop, for account [h], on iterators whose account parts never decrease *)
  Lemma stor_loop_spec sc h : forall ss st t rest st' ws nd,
    ndsa ss -> wf_stor ss -> sroot H st t 64 -> canon t ->
    stor_loop H sc h ss st = GOk (rest, st', ws, nd) ->
    rest = filter (sa_gt h) ss /\
    dels ws = map fst (filter (sa_lt h) ss) /\
    acws ws = [] /\
    nd = N.of_nat (length (filter (sa_lt h) ss)) /\
    exists t', sroot H st' t' 64 /\ canon t' /\
      forall hk, lk t' hk = apply_ops (lk t) (hops (map slotkv (filter (sa_eq h) ss))) hk.
  Proof.
    induction ss as [|[k v] ss IH]; intros st t rest st' ws nd Hnd Hwf Hr Hc E.
    - cbn in E. inversion E; subst. repeat (split; [reflexivity|]). exists t. auto.
    - cbn [stor_loop] in E. destruct Hnd as [Hhd Hnd]. inversion Hwf as [|? ? [Hk64 Hkb] Hwf']; subst. cbn [fst] in *.
      change (firstn 32 k) with (sa (k, v)) in E.
      cbn [filter].
      assert (B1 : sa_gt h (k, v) = match bytes_cmp (sa (k, v)) h with Gt => true | _ => false end) by reflexivity.
      assert (B2 : sa_lt h (k, v) = match bytes_cmp (sa (k, v)) h with Lt => true | _ => false end) by reflexivity.
      assert (B3 : sa_eq h (k, v) = match bytes_cmp (sa (k, v)) h with Eq => true | _ => false end) by reflexivity.
      rewrite B1, B2, B3. clear B1 B2 B3.
      destruct (bytes_cmp (sa (k, v)) h) eqn:C.
      + (* this account's slot *)
        destruct (st_update_e H st (skipn 32 k) v) as [[c|[st1 em]]|e] eqn:Eu; try discriminate.
        destruct (stor_loop H sc h ss st1) as [[[[rest1 st1'] ws1] nd1]|e] eqn:El; [|discriminate].
        inversion E; subst. clear E.
        unfold st_update_e in Eu. destruct v as [|b v]; [discriminate|].
        assert (Hsl : slice_lt (snd st) (nibbles_of (skipn 32 k)) = true).
        { unfold st_update_hex_e in Eu. destruct (slice_lt (snd st) (nibbles_of (skipn 32 k))); [reflexivity|discriminate]. }
        destruct (st_update_hex_ok H H_len st t 64 (nibbles_of (skipn 32 k)) (b :: v) Hr Hc)
          as (s1 & em1 & t1 & E1 & Hr1 & Hc1 & _ & L1 & L2).
        { apply nibbles_of_nibbles, forallb_skipn, Hkb. }
        { rewrite nibbles_of_length, (skipn_len 32 k 32) by lia. reflexivity. }
        { lia. } { exact Hsl. } { discriminate. }
        rewrite E1 in Eu. inversion Eu; subst s1 em1. clear Eu.
        destruct (IH st1 t1 _ _ _ _ Hnd Hwf' Hr1 Hc1 El) as (R1 & R2 & R3 & R4 & t' & Hr' & Hc' & L').
        split; [exact R1|]. split; [rewrite dels_app, dels_nodes; exact R2|].
        split; [rewrite acws_app, acws_nodes; exact R3|]. split; [exact R4|].
        exists t'. split; [exact Hr'|]. split; [exact Hc'|]. intros hk. rewrite L'.
        cbn [map hops apply_ops slotkv fst snd]. apply apply_ops_ext. intros k'. unfold put.
        destruct (bytes_eqb k' (nibbles_of (skipn 32 k) ++ [16])) eqn:B.
        * apply bytes_eqb_eq in B. subst. exact L1.
        * apply L2. intros ->. rewrite bytes_eqb_refl in B. discriminate.
      + (* dangling: delete *)
        destruct (stor_loop H sc h ss st) as [[[[rest1 st1'] ws1] nd1]|e] eqn:El; [|discriminate].
        inversion E; subst. clear E.
        destruct (IH st t _ _ _ _ Hnd Hwf' Hr Hc El) as (R1 & R2 & R3 & R4 & t' & Hr' & Hc' & L').
        split; [exact R1|]. split; [cbn [dels flat_map app map fst]; f_equal; exact R2|].
        split; [exact R3|]. split; [cbn [length]; lia|]. exists t'. auto.
      + (* a later account's slot: Hold *)
        inversion E; subst. clear E.
        assert (Hall : Forall (fun y => bytes_cmp (sa y) h = Gt) ss).
        { eapply Forall_impl; [|exact Hhd]. intros y Hy. eapply bcmp_gt_le; eassumption. }
        destruct (all_gt_filters h ss Hall) as (F1 & F2 & F3). rewrite F1, F2, F3.
        repeat (split; [reflexivity|]). exists t. auto.
  Qed.
End Walk.
