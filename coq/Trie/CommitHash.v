(* Trie/CommitHash.v — C07 commit_reads_back for the HASH scheme, by coupling: a
   hash-scheme history behaves exactly like the path-scheme history with the same
   operations as long as the hash store holds every blob of the path store under
   its hash (lockstep lemmas: on a representation every resolution the operations
   make succeeds in the path store, hence gives the same node in the hash store).
   Collision freedom is a named hypothesis on node encodings. *)
From GV Require Import Lib.Tactics Lib.Bytes Rlp.Codec Trie.Hex Trie.Node Trie.Ops Trie.Hash.
From GV Require Import Trie.OpsProofs Trie.Canon Trie.Proof Trie.ProofProofs.
From GV Require Import Trie.Commit Trie.CommitProofs Trie.CommitTracer Trie.CommitReads Trie.CommitSim Trie.CommitSimDel Trie.CommitHist Trie.CommitExact Trie.CommitEvents Trie.CommitTrace Trie.CommitPv Trie.CommitInv3 Trie.CommitNoStale Trie.CommitFinal.
Local Open Scope N_scope.

Section Lock.
  Variable H : list N -> list N.
  Hypothesis H_len : forall x, length (H x) = 32%nat.
  Variable Rp Rh : list N -> list N -> option (node * list N).
  Hypothesis EXT : forall h q x, Rp h q = Some x -> Rh h q = Some x.
  Variable dirty : list N -> bool.
  Variable delp : list N -> Prop.

  Lemma hash_res f p h G e : is_sf G = true -> node_enc H G = Some e -> hashedb f e = true ->
    covered H Rp f p G -> h = H e ->
    Rp h p = Some (collapse H G, e) /\ Rh h p = Some (collapse H G, e).
  Proof.
    intros SF EN HB C ->. destruct (proj1 C p G (gsub_here H f p G e SF EN HB)) as (e' & E' & RS).
    rewrite EN in E'. inversion E'; subst e'. split; [exact RS|apply EXT; exact RS].
  Qed.

  Lemma child_ground (cs cs' : list node) i (c : node) : length cs = length cs' -> nth_error cs i = Some c ->
    exists c', nth_error cs' i = Some c'.
  Proof.
    intros L E. destruct (nth_error cs' i) eqn:X; [eauto|]. apply nth_error_None in X.
    assert (i < length cs)%nat by (apply nth_error_Some; congruence). lia.
  Qed.

  Lemma get_lock : forall fuel f p t G key,
    rep H Rp dirty delp f p t G -> get Rh fuel t p key = get Rp fuel t p key.
  Proof.
    induction fuel as [|fuel IH]; intros f p t G key Rp0; [reflexivity|].
    inversion Rp0 as [f0 p0|f0 p0 v0|f0 p0 h G0 e SF W EN Hh HB C U|f0 p0 k c c' Rc CO|f0 p0 cs cs' HL Rcs CO]; subst;
      cbn [get]; try reflexivity.
    - destruct (hash_res f p (H e) G e SF EN HB C eq_refl) as [A B]. rewrite A, B.
      rewrite (IH f p (collapse H G) G key (rep_collapse H H_len Rp dirty delp G W f p C U)). reflexivity.
    - destruct (negb (is_prefix_of k key)); [reflexivity|]. rewrite (IH _ _ _ _ _ Rc). reflexivity.
    - destruct key as [|k0 kr]; [reflexivity|]. unfold child.
      destruct (nth_error cs (N.to_nat k0)) as [c|] eqn:Ec; [|reflexivity].
      destruct (child_ground cs cs' _ c HL Ec) as [c' Ec'].
      pose proof (Rcs _ _ _ Ec Ec') as Rc. rewrite N2Nat.id in Rc.
      rewrite (IH _ _ _ _ _ Rc). reflexivity.
  Qed.

  Lemma insert_lock : forall fu f p n G key value,
    rep H Rp dirty delp f p n G -> insert Rh fu n p key value = insert Rp fu n p key value.
  Proof.
    induction fu as [|fu IH]; intros f p n G key value Rp0; [reflexivity|].
    destruct key as [|k0 kr]; [reflexivity|].
    inversion Rp0 as [f0 p0|f0 p0 v0|f0 p0 h G0 e SF W EN Hh HB C U|f0 p0 k c c' Rc CO|f0 p0 cs cs' HL Rcs CO]; subst;
      cbn [insert]; try reflexivity.
    - destruct (hash_res f p (H e) G e SF EN HB C eq_refl) as [A B]. rewrite A, B.
      rewrite (IH f p (collapse H G) G (k0 :: kr) value (rep_collapse H H_len Rp dirty delp G W f p C U)). reflexivity.
    - destruct (Nat.eqb (prefix_len (k0 :: kr) k) (length k)) eqn:ML; [|reflexivity].
      destruct (prefix_len_split (k0 :: kr) k) as (pp & a' & b' & Ek & En & Em & _).
      apply Nat.eqb_eq in ML. rewrite Em in ML.
      assert (b' = []) by (rewrite En, app_length in ML; destruct b'; [reflexivity|cbn in ML; lia]).
      subst b'. rewrite app_nil_r in En. subst pp.
      rewrite Em, Ek, firstn_app_exact. rewrite (IH _ _ _ _ _ _ Rc). reflexivity.
    - unfold child. destruct (nth_error cs (N.to_nat k0)) as [c|] eqn:Ec; [|reflexivity].
      destruct (child_ground cs cs' _ c HL Ec) as [c' Ec'].
      pose proof (Rcs _ _ _ Ec Ec') as Rc. rewrite N2Nat.id in Rc.
      rewrite (IH _ _ _ _ _ _ Rc). reflexivity.
  Qed.

  Lemma delete_lock : forall fu f p n G key,
    rep H Rp dirty delp f p n G -> delete Rh fu n p key = delete Rp fu n p key.
  Proof.
    induction fu as [|fu IH]; intros f p n G key Rp0; [reflexivity|].
    inversion Rp0 as [f0 p0|f0 p0 v0|f0 p0 h G0 e SF W EN Hh HB C U|f0 p0 k c c' Rc CO|f0 p0 cs cs' HL Rcs CO]; subst;
      cbn [delete]; try reflexivity.
    - destruct (hash_res f p (H e) G e SF EN HB C eq_refl) as [A B]. rewrite A, B.
      rewrite (IH f p (collapse H G) G key (rep_collapse H H_len Rp dirty delp G W f p C U)). reflexivity.
    - destruct (Nat.ltb (prefix_len key k) (length k)) eqn:LT; [reflexivity|].
      destruct (Nat.eqb (prefix_len key k) (length key)) eqn:EQ; [reflexivity|].
      destruct (prefix_len_split key k) as (pp & a' & b' & Ek & En & Em & _).
      apply Nat.ltb_ge in LT. rewrite Em in LT.
      assert (b' = []) by (destruct b' as [|x b']; [reflexivity|rewrite En, app_length in LT; cbn in LT; lia]).
      subst b'. rewrite app_nil_r in En. subst pp.
      rewrite Ek, firstn_app_exact. rewrite (IH _ _ _ _ _ Rc). reflexivity.
    - destruct key as [|k0 kr]; [reflexivity|]. unfold child.
      destruct (nth_error cs (N.to_nat k0)) as [c|] eqn:Ec; [|reflexivity].
      destruct (child_ground cs cs' _ c HL Ec) as [c' Ec'].
      pose proof (Rcs _ _ _ Ec Ec') as Rc. rewrite N2Nat.id in Rc.
      rewrite (IH _ _ _ _ _ Rc).
      destruct (delete Rp fu c (p ++ [k0]) kr) as [[[[|] n1] ev1]|er]; try reflexivity.
      unfold set_child. destruct (set_nth (N.to_nat k0) n1 cs) as [cs2|] eqn:SN; [|reflexivity].
      destruct (negb (is_empty n1)) eqn:NE; [reflexivity|].
      destruct (single_child cs2) as [[pos|]|] eqn:SC; try reflexivity.
      destruct (nth_error cs2 (N.to_nat pos)) as [rem|] eqn:Er; [|reflexivity].
      destruct (negb (pos =? 16)); [|reflexivity].
      destruct rem as [|rv|rk rc|rl|rh]; try reflexivity.
      (* the remaining child is a hash node: it is an old child, represented *)
      destruct (set_nth_spec _ _ _ _ SN) as [_ N2]. rewrite N2 in Er.
      destruct (Nat.eqb (N.to_nat pos) (N.to_nat k0)) eqn:PK.
      { inversion Er; subst n1. discriminate. }
      destruct (child_ground cs cs' _ _ HL Er) as [rem' Er'].
      pose proof (Rcs _ _ _ Er Er') as Rr. rewrite N2Nat.id in Rr.
      inversion Rr as [| |f1 p1 h1 G2 e2 SF2 W2 EN2 Hh2 HB2 C2 U2| |]; subst.
      destruct (hash_res false (p ++ [pos]) (H e2) rem' e2 SF2 EN2 HB2 C2 eq_refl) as [A B]. rewrite A, B. reflexivity.
  Qed.
End Lock.

(* ---------------- applying a node set to a hash store ---------------- *)
Lemma hash_apply_has (ns : nodeset) : forall (S : store) h b,
  (forall q h' b' prev, In (q, Upd h' b' prev) ns -> h' = h -> b' = b) ->
  (am_get h S = Some b \/ exists q prev, In (q, Upd h b prev) ns) ->
  am_get h (apply_nodeset HashScheme ns S) = Some b.
Proof.
  unfold apply_nodeset. induction ns as [|[q0 e0] ns IH]; intros S h b CONS X; cbn [fold_left].
  - destruct X as [X|(q & prev & [])]. exact X.
  - apply IH.
    + intros q h' b' prev I. apply (CONS q h' b' prev). right. exact I.
    + cbn [snd fst]. destruct e0 as [h0 b0 p0|p0].
      * destruct X as [X|(q & prev & [X|X])].
        -- left. rewrite am_get_put. destruct (bytes_eqb h h0) eqn:HH; [|exact X].
           apply beqb_eq in HH. subst h0. f_equal. eapply CONS; [left; reflexivity|reflexivity].
        -- inversion X; subst. left. apply am_get_put_same.
        -- right. eauto.
      * destruct X as [X|(q & prev & [X|X])]; [left; exact X|discriminate|right; eauto].
Qed.

Lemma sorted_in_get {A} (m : amap A) : sorted m -> forall k v, In (k, v) m -> am_get k m = Some v.
Proof.
  induction 1 as [|k0 v0 m Ab So IH]; intros k v I; [destruct I|].
  cbn [am_get]. destruct I as [X|I].
  - inversion X; subst. rewrite beqb_refl. reflexivity.
  - rewrite beqb_neq; [apply IH; exact I|].
    intros ->. unfold above in Ab. rewrite Forall_forall in Ab. specialize (Ab _ I). cbn in Ab.
    assert (X : bytes_cmp k0 k0 = Eq) by (apply bcmp_eq; reflexivity). congruence.
Qed.

Section HashScheme.
  Variable H : list N -> list N.
  Hypothesis H_len : forall x, length (H x) = 32%nat.
  Hypothesis H_inj_empty : forall e, H e = H empty_root_preimage -> e = empty_root_preimage.
  (* collision freedom on node encodings *)
  Definition PB (a : list N) : Prop := exists G, pwf G /\ node_enc H G = Some a.
  Hypothesis H_inj_on : forall a b, PB a -> PB b -> H a = H b -> a = b.

  (* the hash store holds every blob of the path store under its hash *)
  Definition ext_st (Sp Sh : store) : Prop := forall q b, am_get q Sp = Some b -> am_get (H b) Sh = Some b.

  Lemma ext_res Sp Sh : ext_st Sp Sh -> forall h q x,
    resolve_of H PathScheme Sp h q = Some x -> resolve_of H HashScheme Sh h q = Some x.
  Proof.
    intros E h q x. unfold resolve_of. destruct (am_get q Sp) as [b|] eqn:Q; [|discriminate].
    destruct (bytes_eqb (H b) h) eqn:HB; [|discriminate]. apply beqb_eq in HB. subst h.
    rewrite (E q b Q). auto.
  Qed.

  Definition applied_h (Sh : store) (ons : option nodeset) : store :=
    match ons with Some ns => apply_nodeset HashScheme ns Sh | None => Sh end.

  Lemma gsub_PB F q Gq b : gok F -> gsub H true [] F q Gq -> node_enc H Gq = Some b -> PB b.
  Proof.
    intros GO GS EN. exists Gq. split; [|exact EN].
    destruct GO as [->|[_ W]]; [inversion GS; discriminate|]. eapply gsub_pwf; eassumption.
  Qed.

  (* the coupling survives a commit *)
  Lemma commit_coup Sp Sh ss F0 F root0 r ons :
    ginv H Sp ss F0 F root0 -> ext_st Sp Sh -> commit H ss = Some (r, ons) ->
    ext_st (applied Sp ons) (applied_h Sh ons).
  Proof.
    intros GI E C. destruct (commit_exact H H_len Sp ss F0 F root0 r ons GI C) as [SO' RX'].
    destruct ons as [ns|]; [|exact E]. cbn [applied applied_h] in *.
    destruct GI as (_ & _ & ((SI & _) & _) & NE). pose proof SI as [GO _].
    pose proof (commit_sorted H ss r ns C) as SRT.
    pose proof (commit_ns_ok H ss r ns C NE) as NOK.
    intros q b Q. destruct (RX' q b Q) as (Gq & GS & EN). pose proof (gsub_PB F q Gq b GO GS EN) as PBb.
    apply hash_apply_has.
    - intros q2 h2 b2 prev I HH. pose proof (sorted_in_get ns SRT _ _ I) as G2.
      destruct (NOK q2 _ G2) as [HE _]. rewrite HE in HH.
      assert (Q2 : am_get q2 (apply_nodeset PathScheme ns Sp) = Some b2)
        by (rewrite (apply_nodeset_path ns SRT), G2; reflexivity).
      destruct (RX' q2 b2 Q2) as (Gq2 & GS2 & EN2).
      apply H_inj_on; [exact (gsub_PB F q2 Gq2 b2 GO GS2 EN2)|exact PBb|exact HH].
    - rewrite (apply_nodeset_path ns SRT) in Q.
      destruct (am_get q ns) as [[h b1 prev|prev]|] eqn:G; [|discriminate|left; exact (E q b Q)].
      inversion Q; subst b1. destruct (NOK q _ G) as [HE _]. subst h.
      right. exists q, prev. apply am_get_in. exact G.
  Qed.

  (* the hash-scheme generation model *)
  Inductive hreachable : store -> sess -> Prop :=
  | h_open0 ss :
      open_trie H HashScheme [] (H empty_root_preimage) = TOk ss -> hreachable [] ss
  | h_reopen S ss r ons ss2 :
      hreachable S ss -> commit H ss = Some (r, ons) ->
      open_trie H HashScheme (applied_h S ons) r = TOk ss2 -> hreachable (applied_h S ons) ss2
  | h_update S ss key v ss' :
      hreachable S ss -> op_ok key v ->
      sess_update H HashScheme S ss key v = TOk ss' -> hreachable S ss'
  | h_get S ss key v ss' :
      hreachable S ss -> forallb byteb key = true ->
      sess_get H HashScheme S ss key = TOk (v, ss') -> hreachable S ss'
  | h_getnode S ss path g ss' :
      hreachable S ss -> sess_getnode H HashScheme S ss path = (g, ss') -> hreachable S ss'.

  Lemma open_lock Sp Sh root ss : ext_st Sp Sh ->
    open_trie H PathScheme Sp root = TOk ss -> open_trie H HashScheme Sh root = TOk ss.
  Proof.
    intros E. unfold open_trie. destruct (bytes_eqb root (H empty_root_preimage)); [auto|].
    destruct (resolve_of H PathScheme Sp root []) as [[n b]|] eqn:RS; [|discriminate].
    rewrite (ext_res Sp Sh E _ _ _ RS). auto.
  Qed.

  Lemma sess_update_lock Sp Sh ss F key v : ext_st Sp Sh -> sinv H Sp ss F ->
    sess_update H HashScheme Sh ss key v = sess_update H PathScheme Sp ss key v.
  Proof.
    intros E [_ Rp]. unfold sess_update. destruct v.
    - rewrite (delete_lock H H_len _ _ (ext_res Sp Sh E) _ _ _ _ _ _ _ _ Rp). reflexivity.
    - rewrite (insert_lock H H_len _ _ (ext_res Sp Sh E) _ _ _ _ _ _ _ _ _ Rp). reflexivity.
  Qed.

  Lemma sess_get_lock Sp Sh ss F key : ext_st Sp Sh -> sinv H Sp ss F ->
    sess_get H HashScheme Sh ss key = sess_get H PathScheme Sp ss key.
  Proof.
    intros E [_ Rp]. unfold sess_get, trie_get.
    rewrite (get_lock H H_len _ _ (ext_res Sp Sh E) _ _ _ _ _ _ _ _ Rp). reflexivity.
  Qed.

  Definition is_nilb (p : list N) : bool := match p with [] => true | _ => false end.

  Lemma is_nilb_app p k : k <> [] -> is_nilb (p ++ k) = false.
  Proof. destruct p; [destruct k; [congruence|reflexivity]|reflexivity]. Qed.

  Lemma getnode_lock Sp Sh dirty delp : ext_st Sp Sh -> forall fu f p n G rest,
    rep H (resolve_of H PathScheme Sp) dirty delp f p n G -> f = is_nilb p ->
    (is_sf G = true -> can G) ->
    getnode H fu HashScheme Sh dirty n p rest = getnode H fu PathScheme Sp dirty n p rest.
  Proof.
    intros E. induction fu as [|fu IH]; intros f p n G rest Rp0 HF Cn; [reflexivity|].
    inversion Rp0 as [f0 p0|f0 p0 v0|f0 p0 h G0 e SF W EN Hh HB C U|f0 p0 k c c' Rc CO|f0 p0 cs cs' HL Rcs CO]; subst;
      cbn [getnode]; try reflexivity.
    - (* hash node *)
      destruct (hash_res H _ _ (ext_res Sp Sh E) (is_nilb p) p (H e) G e SF EN HB C eq_refl) as [A B].
      destruct rest as [|r0 rr].
      + pose proof A as A'. apply resolve_of_blob in A'. destruct A' as (_ & Q & _).
        unfold read_blob. rewrite Q, beqb_refl, (E p e Q). reflexivity.
      + rewrite A, B.
        rewrite (IH (is_nilb p) p (collapse H G) G (r0 :: rr)
                   (rep_collapse H H_len _ dirty delp G W (is_nilb p) p C U) eq_refl Cn). reflexivity.
    - (* short node *)
      pose proof (Cn eq_refl) as CG.
      assert (KN : k <> []).
      { destruct (can_short_inv k c' CG) as [[VK _]|(_ & X & _)]; [apply valid_key_nonempty; exact VK|exact X]. }
      destruct rest as [|r0 rr].
      + change (match p with [] => true | _ :: _ => false end) with (is_nilb p).
        destruct (dirty p) eqn:D; [reflexivity|].
        destruct (rep_enc H H_len _ dirty delp (is_nilb p) p _ _ Rp0) as (_ & _ & ENQ). rewrite (ENQ eq_refl).
        destruct (node_enc H (NShort k c')) as [e|] eqn:EN; [|reflexivity].
        destruct (hashedb (is_nilb p) e) eqn:HB; [|reflexivity].
        destruct (CO D) as [_ C].
        destruct (proj1 C p _ (gsub_here H (is_nilb p) p (NShort k c') e eq_refl EN HB)) as (e' & E' & RS).
        rewrite EN in E'. inversion E'; subst e'.
        apply resolve_of_blob in RS. destruct RS as (_ & Q & _).
        unfold read_blob. rewrite Q, beqb_refl, (E p e Q). reflexivity.
      + destruct (negb (is_prefix_of k (r0 :: rr))); [reflexivity|].
        assert (CC : is_sf c' = true -> can c').
        { intro SF. destruct (can_short_inv k c' CG) as [[_ [v ->]]|(_ & _ & cs1 & -> & X)]; [discriminate|exact X]. }
        rewrite (IH false (p ++ k) c c' _ Rc (eq_sym (is_nilb_app p k KN)) CC). reflexivity.
    - (* full node *)
      pose proof (Cn eq_refl) as CG. destruct (can_full_inv cs' CG) as (L17 & Hch & H16 & _).
      destruct rest as [|r0 rr].
      + change (match p with [] => true | _ :: _ => false end) with (is_nilb p).
        destruct (dirty p) eqn:D; [reflexivity|].
        destruct (rep_enc H H_len _ dirty delp (is_nilb p) p _ _ Rp0) as (_ & _ & ENQ). rewrite (ENQ eq_refl).
        destruct (node_enc H (NFull cs')) as [e|] eqn:EN; [|reflexivity].
        destruct (hashedb (is_nilb p) e) eqn:HB; [|reflexivity].
        destruct (CO D) as [_ C].
        destruct (proj1 C p _ (gsub_here H (is_nilb p) p (NFull cs') e eq_refl EN HB)) as (e' & E' & RS).
        rewrite EN in E'. inversion E'; subst e'.
        apply resolve_of_blob in RS. destruct RS as (_ & Q & _).
        unfold read_blob. rewrite Q, beqb_refl, (E p e Q). reflexivity.
      + unfold child. destruct (nth_error cs (N.to_nat r0)) as [c|] eqn:Ec; [|reflexivity].
        destruct (child_ground cs cs' _ c HL Ec) as [c' Ec'].
        pose proof (Rcs _ _ _ Ec Ec') as Rc. rewrite N2Nat.id in Rc.
        assert (CC : is_sf c' = true -> can c').
        { intro SF. destruct (Nat.lt_ge_cases (N.to_nat r0) 16) as [I|I].
          - destruct (Hch _ c' Ec' I) as [->|X]; [discriminate|exact X].
          - assert (N.to_nat r0 = 16%nat) by (assert (N.to_nat r0 < length cs')%nat by (apply nth_error_Some; congruence); lia).
            rewrite H0 in Ec'. destruct (H16 c' Ec') as [->|[v ->]]; discriminate. }
        rewrite (IH false (p ++ [r0]) c c' rr Rc (eq_sym (is_nilb_app p [r0] ltac:(discriminate))) CC). reflexivity.
  Qed.

  Lemma sess_getnode_lock Sp Sh ss F path : ext_st Sp Sh -> sinv H Sp ss F ->
    sess_getnode H HashScheme Sh ss path = sess_getnode H PathScheme Sp ss path.
  Proof.
    intros E [GO Rp]. unfold sess_getnode.
    rewrite (getnode_lock Sp Sh _ _ E _ true [] _ F path Rp eq_refl); [reflexivity|].
    intro SF. destruct GO as [->|[X _]]; [discriminate|exact X].
  Qed.

  (* every hash-scheme history is coupled with the path-scheme history of the same operations *)
  Theorem hash_coupling Sh ss : hreachable Sh ss ->
    exists Sp, reachable H Sp ss /\ ext_st Sp Sh.
  Proof.
    induction 1 as [ss O|S ss r ons ss2 Rch IH C O|S ss key v ss' Rch IH OK U|S ss key v ss' Rch IH BK G|S ss path g ss' Rch IH G].
    - exists []. split; [|intros q b X; discriminate]. apply r_open0.
      unfold open_trie in *. rewrite beqb_refl in *. exact O.
    - destruct IH as (Sp & Rp & E).
      destruct (reachable_ginv H H_len H_inj_empty Sp ss Rp) as (F0 & F & root0 & GI).
      pose proof (commit_coup Sp S ss F0 F root0 r ons GI E C) as E'.
      destruct (commit_exact H H_len Sp ss F0 F root0 r ons GI C) as [SO' _].
      destruct (open_sinv H H_len H_inj_empty _ _ F SO') as (ssp & Op & _).
      pose proof (open_lock _ _ r ssp E' Op) as Oh. rewrite O in Oh. inversion Oh; subst ssp.
      exists (applied Sp ons). split; [eapply r_reopen; eassumption|exact E'].
    - destruct IH as (Sp & Rp & E).
      destruct (reachable_sinv H H_len H_inj_empty Sp ss Rp) as (F & SI & _).
      exists Sp. split; [|exact E]. eapply r_update; [exact Rp|exact OK|].
      rewrite <- (sess_update_lock Sp S ss F key v E SI). exact U.
    - destruct IH as (Sp & Rp & E).
      destruct (reachable_sinv H H_len H_inj_empty Sp ss Rp) as (F & SI & _).
      exists Sp. split; [|exact E]. eapply r_get; [exact Rp|exact BK|].
      rewrite <- (sess_get_lock Sp S ss F key E SI). exact G.
    - destruct IH as (Sp & Rp & E).
      destruct (reachable_sinv H H_len H_inj_empty Sp ss Rp) as (F & SI & _).
      exists Sp. split; [|exact E]. eapply r_getnode; [exact Rp|].
      rewrite <- (sess_getnode_lock Sp S ss F path E SI). exact G.
  Qed.

  (* C07 commit_reads_back, HASH scheme *)
  Theorem commit_reads_back_hash Sh ss r ons key :
    hreachable Sh ss -> commit H ss = Some (r, ons) -> forallb byteb key = true ->
    exists ss2,
      open_trie H HashScheme (applied_h Sh ons) r = TOk ss2 /\
      exists v t1 d1 ev1 t2 d2 ev2,
        trie_get (resolve_of H HashScheme Sh) (s_root ss) key = TOk (v, t1, d1, ev1) /\
        trie_get (resolve_of H HashScheme (applied_h Sh ons)) (s_root ss2) key = TOk (v, t2, d2, ev2).
  Proof.
    intros Rch C BK. destruct (hash_coupling Sh ss Rch) as (Sp & Rp & E).
    destruct (reachable_ginv H H_len H_inj_empty Sp ss Rp) as (F0 & F & root0 & GI).
    pose proof (commit_coup Sp Sh ss F0 F root0 r ons GI E C) as E'.
    destruct (commit_exact H H_len Sp ss F0 F root0 r ons GI C) as [SO' _].
    destruct (open_sinv H H_len H_inj_empty _ _ F SO') as (ss2 & Op & SI2).
    destruct (commit_reads_back H H_len H_inj_empty Sp ss r ons key Rp C BK)
      as (ss2' & Op' & v & t1 & d1 & ev1 & t2 & d2 & ev2 & G1 & G2).
    rewrite Op in Op'. inversion Op'; subst ss2'.
    exists ss2. split; [eapply open_lock; eassumption|].
    exists v, t1, d1, ev1, t2, d2, ev2.
    destruct GI as (_ & _ & ((SI & _) & _) & _). destruct SI as [_ Rp1]. destruct SI2 as [_ Rp2].
    unfold trie_get in *. split.
    - rewrite (get_lock H H_len _ _ (ext_res Sp Sh E) _ _ _ _ _ _ _ _ Rp1). exact G1.
    - rewrite (get_lock H H_len _ _ (ext_res _ _ E') _ _ _ _ _ _ _ _ Rp2). exact G2.
  Qed.
End HashScheme.
