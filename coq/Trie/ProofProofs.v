(* Trie/ProofProofs.v — lemmas about Trie/Proof.v (C08):
     decode_enc      decoding a genuine node encoding gives the node with every
                     child >= 32 bytes collapsed to its hash reference
     walk            VerifyProof on a database that answers genuine hashes only
                     with the genuine encoding follows the trie's own path
     completeness / soundness / verify_never_panics / proof_decode_no_fuel.
   The hash function is a Section variable with named hypotheses. *)
From GV Require Import Lib.Tactics Lib.Bytes Lib.BytesProofs Rlp.Item Rlp.Raw Rlp.Codec Rlp.RawProofs Rlp.CodecProofs.
From GV Require Import Trie.Hex Trie.HexProofs Trie.Node Trie.Ops Trie.Hash Trie.OpsProofs Trie.Proof Trie.ProofDecodeProofs.
Local Open Scope N_scope.

(* ------------------------------------------------------------------ well-formed in-memory tries *)

(* the size guard: keys and values shorter than 2^32 (Go slices; keeps every
   RLP length below 2^64) *)
Definition small (l : list N) : Prop := lenN l < 2 ^ 32.
Definition val_ok (v : list N) : Prop := v <> [] /\ small v.

(* a resolved (hash-node free) trie node as Update builds them: OpsProofs.wfn
   plus non-empty values (Update with an empty value deletes) and the size guard *)
Inductive pwf : node -> Prop :=
| pwf_leaf k v : valid_key k -> small k -> val_ok v -> pwf (NShort k (NValue v))
| pwf_ext k c : nibbles k -> k <> [] -> small k -> pwf c -> pwf (NShort k c)
| pwf_full cs :
    length cs = 17%nat ->
    (forall i c, nth_error cs i = Some c -> (i < 16)%nat -> c = NEmpty \/ pwf c) ->
    (forall c, nth_error cs 16 = Some c -> c = NEmpty \/ exists v, c = NValue v /\ val_ok v) ->
    pwf (NFull cs).

Lemma pwf_shape n : pwf n -> (exists k c, n = NShort k c) \/ (exists cs, n = NFull cs).
Proof. intros []; [left|left|right]; eauto. Qed.

Lemma split17 {A} (cs : list A) : length cs = 17%nat ->
  exists l c, cs = l ++ [c] /\ length l = 16%nat.
Proof.
  intros HL. rewrite <- (firstn_skipn 16 cs). exists (firstn 16 cs).
  assert (L1 : length (skipn 16 cs) = 1%nat) by (rewrite skipn_length; lia).
  destruct (skipn 16 cs) as [|c [|? ?]]; try discriminate.
  exists c. split; [reflexivity|]. rewrite firstn_length. lia.
Qed.

Lemma vk_snoc k : valid_key k -> exists p, k = p ++ [16] /\ nibbles p.
Proof.
  induction k as [|x k IH]; intros Hk; [destruct Hk|].
  apply valid_key_cons in Hk as [[-> ->]|[Hx Hk]].
  - exists []. split; [reflexivity|constructor].
  - destruct (IH Hk) as [p [-> Hp]]. exists (x :: p). split; [reflexivity|constructor; assumption].
Qed.

Lemma nibbles_forallb k : nibbles k -> forallb nibbleb k = true.
Proof.
  intros Hn. apply forallb_forall. intros x Hx. unfold nibbles in Hn. rewrite Forall_forall in Hn.
  specialize (Hn x Hx). unfold nibbleb. lia.
Qed.

Lemma valid_key_wf_hex k : valid_key k -> wf_hex k = true.
Proof.
  intros Hk. destruct (vk_snoc k Hk) as [p [-> Hp]].
  unfold wf_hex. rewrite has_term_app_16, removelast_last. apply nibbles_forallb, Hp.
Qed.

Lemma nibbles_wf_hex k : nibbles k -> wf_hex k = true.
Proof.
  intros Hk. unfold wf_hex. rewrite (has_term_nib_false _ (nibbles_forallb _ Hk)).
  apply nibbles_forallb, Hk.
Qed.

Lemma valid_key_has_term k : valid_key k -> has_term k = true.
Proof. intros Hk. destruct (vk_snoc k Hk) as [p [-> _]]. apply has_term_app_16. Qed.

Lemma hex_to_compact_len h c : hex_to_compact h = Some c -> (length c <= length h + 1)%nat.
Proof.
  unfold hex_to_compact.
  set (h1 := if has_term h then removelast h else h).
  assert (L : (length h1 <= length h)%nat).
  { unfold h1. destruct (has_term h); [|lia]. destruct h as [|x h]; [simpl; lia|].
    rewrite removelast_firstn_len. rewrite firstn_length. lia. }
  destruct (Nat.odd (length h1)).
  - destruct h1 as [|h0 rest]; [discriminate|].
    destruct (decode_nibbles rest) as [t|] eqn:D; [|discriminate].
    intros E; inversion E; subst. apply decode_length in D. simpl in *. lia.
  - destruct (decode_nibbles h1) as [t|] eqn:D; [|discriminate].
    intros E; inversion E; subst. apply decode_length in D. simpl in *. lia.
Qed.

(* ------------------------------------------------------------------ small RLP facts *)

Definition cat (vs : list (kind * list N)) : list N := flat_map (fun v => chunk (fst v) (snd v)) vs.
Definition vs_ok (vs : list (kind * list N)) : Prop := Forall (fun v => chunk_ok (fst v) (snd v)) vs.

Lemma cat_cons k c vs : cat ((k, c) :: vs) = chunk k c ++ cat vs.
Proof. reflexivity. Qed.
Lemma cat_app a b : cat (a ++ b) = cat a ++ cat b.
Proof. unfold cat. apply flat_map_app. Qed.

Lemma split_string_enc_str b r : lenN b < 2 ^ 64 -> split_string (enc_str b ++ r) = Ok (b, r).
Proof.
  intros Hb. rewrite enc_str_chunk. unfold split_string.
  rewrite (split_complete _ _ _ (str_chunk_ok b Hb)).
  pose proof (str_kind_not_list b). destruct (str_kind b); congruence.
Qed.

Lemma str_kind_long b : (2 <= length b)%nat -> str_kind b = KString.
Proof. destruct b as [|x [|y t]]; simpl; intros; try lia; reflexivity. Qed.

Lemma list_wrap_chunk p : list_wrap p = chunk KList p.
Proof. reflexivity. Qed.

Lemma chunk_nonempty k c : k <> KByte -> chunk k c <> [].
Proof.
  intros Hk E. pose proof (hdr_len_pos k c Hk) as L. unfold chunk in E.
  apply (f_equal (@length N)) in E. rewrite app_length in E. unfold lenN in L. simpl in E. lia.
Qed.

Lemma decode_chunk f pc r : lenN pc < 2 ^ 64 ->
  decode_node_f (S f) (chunk KList pc ++ r) =
  match count_values pc with
  | (_, Some e) => DErr (DRlp e)
  | (c, None) => dbody f pc c
  end.
Proof.
  intros Hp. rewrite decode_node_f_S.
  destruct (chunk KList pc ++ r) eqn:E.
  { apply app_eq_nil in E as [E _]. exfalso. revert E. apply chunk_nonempty. discriminate. }
  rewrite <- E. unfold split_list. rewrite split_complete by (split; [exact Hp|exact I]). reflexivity.
Qed.

Lemma chunk_len k c : length (chunk k c) = (length (hdr k c) + length c)%nat.
Proof. unfold chunk. apply app_length. Qed.

Lemma hdr_le9 k c : lenN c < 2 ^ 64 -> (length (hdr k c) <= 9)%nat.
Proof.
  intros Hc. destruct k; cbn [hdr]; [simpl; lia| |];
    pose proof (enc_head_len_le 128 183 _ Hc); pose proof (enc_head_len_le 192 247 _ Hc);
    unfold lenN in *; lia.
Qed.

Lemma hdr_ge1 k c : k <> KByte -> (1 <= length (hdr k c))%nat.
Proof. intros Hk. pose proof (hdr_len_pos k c Hk). unfold lenN in *. lia. Qed.

(* ------------------------------------------------------------------ encoding, then decoding *)

Section Enc.
  Variable H : list N -> list N.
  Hypothesis H_len : forall x, length (H x) = 32%nat.

  (* what the decoder of the parent makes of child [c] ([cc] = collapse c):
     embedded if its encoding is shorter than 32 bytes, else the hash reference *)
  Definition cref (c cc : node) : node :=
    match c with
    | NShort _ _ | NFull _ =>
        match node_enc H c with
        | Some e => if Nat.ltb (length e) 32 then cc else NHash (H e)
        | None => c
        end
    | _ => c
    end.

  (* the node as decodeNode returns it from its own encoding *)
  Fixpoint collapse (n : node) : node :=
    match n with
    | NShort k c => NShort k (cref c (collapse c))
    | NFull cs => NFull (map (fun c => cref c (collapse c)) cs)
    | _ => n
    end.

  (* the loop of encodeFullNode, named; slots 0..15 and slot 16 *)
  Fixpoint enc_go (i : nat) (l : list node) : option (list N) :=
    match l with
    | [] => Some []
    | c :: r =>
        let e :=
          match c with
          | NEmpty => Some [128]
          | _ =>
              if Nat.eqb i 16 then
                match c with
                | NValue [] => Some [128]
                | NValue v => Some (enc_str v)
                | _ => None
                end
              else
                match c with
                | NHash [] => Some [128]
                | NHash h => Some (write_ref h)
                | NShort _ _ | NFull _ =>
                    match node_enc H c with
                    | Some e => Some (write_ref (ref_of_enc H e))
                    | None => None
                    end
                | _ => None
                end
          end in
        match e, enc_go (S i) r with
        | Some a, Some b => Some (a ++ b)
        | _, _ => None
        end
    end.

  Lemma node_enc_full cs :
    node_enc H (NFull cs) =
    match enc_go 0 cs with Some payload => Some (list_wrap payload) | None => None end.
  Proof. reflexivity. Qed.

  Definition slot_enc (c : node) : option (list N) :=
    match c with
    | NEmpty => Some [128]
    | NHash [] => Some [128]
    | NHash h => Some (write_ref h)
    | NShort _ _ | NFull _ =>
        match node_enc H c with
        | Some e => Some (write_ref (ref_of_enc H e))
        | None => None
        end
    | _ => None
    end.
  Definition val_enc (c : node) : option (list N) :=
    match c with
    | NEmpty => Some [128]
    | NValue [] => Some [128]
    | NValue v => Some (enc_str v)
    | _ => None
    end.
  Fixpoint enc16 (l : list node) : option (list N) :=
    match l with
    | [] => Some []
    | c :: r => match slot_enc c, enc16 r with Some a, Some b => Some (a ++ b) | _, _ => None end
    end.

  Lemma enc_go_split l : forall i c16, (i + length l = 16)%nat ->
    enc_go i (l ++ [c16]) =
    match enc16 l, val_enc c16 with Some a, Some b => Some (a ++ b) | _, _ => None end.
  Proof.
    induction l as [|c l IH]; intros i c16 Hi.
    - assert (i = 16%nat) by (simpl in Hi; lia). subst i. cbn [app enc_go enc16 Nat.eqb].
      destruct c16 as [|v|k c|cs|h]; cbn [val_enc]; try reflexivity.
      destruct v; cbn [app]; rewrite ?app_nil_r; reflexivity.
    - cbn [app enc_go enc16]. rewrite IH by (simpl in Hi; lia).
      assert (Nat.eqb i 16 = false) as -> by (apply Nat.eqb_neq; simpl in Hi; lia).
      replace (match c with NEmpty => Some [128] | _ => _ end) with (slot_enc c)
        by (destruct c; reflexivity).
      destruct (slot_enc c) as [a|]; [|reflexivity].
      destruct (enc16 l) as [b|]; [|reflexivity].
      destruct (val_enc c16) as [d|]; [|reflexivity]. rewrite app_assoc. reflexivity.
  Qed.

  Lemma node_enc_short_leaf k v : has_term k = true ->
    node_enc H (NShort k (NValue v)) =
    match hex_to_compact k with
    | Some ck => Some (list_wrap (enc_str ck ++ enc_str v))
    | None => None
    end.
  Proof. intros Ht. cbn [node_enc]. rewrite Ht. destruct (hex_to_compact k); reflexivity. Qed.

  Lemma node_enc_short_ext k c : has_term k = false ->
    (exists k' c', c = NShort k' c') \/ (exists cs, c = NFull cs) ->
    node_enc H (NShort k c) =
    match hex_to_compact k, slot_enc c with
    | Some ck, Some b =>
        match c with NShort _ _ | NFull _ => Some (list_wrap (enc_str ck ++ b)) | _ => None end
    | _, _ => None
    end.
  Proof.
    intros Ht Hc. cbn [node_enc]. rewrite Ht. destruct (hex_to_compact k) as [ck|]; [|reflexivity].
    destruct Hc as [(k' & c' & ->)|(cs & ->)]; cbn [slot_enc];
      match goal with |- context [node_enc H ?x] => destruct (node_enc H x) end; reflexivity.
  Qed.

  (* [n] encodes to a list chunk that decodes (with any trailing bytes, as an
     embedded node is decoded) to [collapse n] *)
  Definition egood (n : node) : Prop :=
    exists pc, node_enc H n = Some (chunk KList pc) /\ lenN pc < 2 ^ 34 /\
      forall f r, (length (chunk KList pc) < f \/ 33 <= f)%nat ->
        decode_node_f f (chunk KList pc ++ r) = DOk (collapse n).

  (* a child slot 0..15: one canonical chunk of at most 33 bytes that decodeRef
     turns into [cref c (collapse c)] *)
  Definition cgood (c : node) : Prop :=
    exists kc cc, slot_enc c = Some (chunk kc cc) /\ chunk_ok kc cc /\
      (length (chunk kc cc) <= 33)%nat /\
      forall f r, (length (chunk kc cc) < f \/ 32 <= f)%nat ->
        dref f (chunk kc cc ++ r) = DOk (cref c (collapse c), r).

  Lemma cgood_empty : cgood NEmpty.
  Proof.
    exists KString, []. split; [reflexivity|]. split; [split; [cbn; lia|intros x; discriminate]|].
    split; [cbn; lia|]. intros f r _. unfold dref.
    rewrite split_complete by (split; [cbn; lia|intros x; discriminate]). reflexivity.
  Qed.

  Lemma cgood_node c : pwf c -> egood c -> cgood c.
  Proof.
    intros Hw (pc & Ee & Hpc & Hdec).
    assert (Hsl : slot_enc c = Some (write_ref (ref_of_enc H (chunk KList pc)))).
    { destruct (pwf_shape c Hw) as [(k & c' & ->)|(cs & ->)]; cbn [slot_enc]; rewrite Ee; reflexivity. }
    assert (Hcr : cref c (collapse c) =
                  if Nat.ltb (length (chunk KList pc)) 32 then collapse c else NHash (H (chunk KList pc))).
    { destruct (pwf_shape c Hw) as [(k & c' & ->)|(cs & ->)]; unfold cref; rewrite Ee; reflexivity. }
    unfold ref_of_enc, write_ref in Hsl.
    revert Hsl Hcr. destruct (Nat.ltb (length (chunk KList pc)) 32) eqn:L; intros Hsl Hcr.
    - rewrite ?L in Hsl. apply Nat.ltb_lt in L.
      exists KList, pc. split; [exact Hsl|]. split; [split; [lia|exact I]|]. split; [lia|].
      intros f r Hf. rewrite Hcr. unfold dref.
      rewrite split_complete by (split; [lia|exact I]).
      replace (length (chunk KList pc ++ r) - length r)%nat with (length (chunk KList pc))
        by (rewrite app_length; lia).
      destruct (Nat.leb_spec 32 (length (chunk KList pc))); [lia|].
      rewrite Hdec by lia. reflexivity.
    - rewrite H_len in Hsl. cbn [Nat.ltb Nat.leb] in Hsl.
      set (h := H (chunk KList pc)) in *.
      assert (Lh : length h = 32%nat) by apply H_len.
      assert (Kh : str_kind h = KString) by (apply str_kind_long; lia).
      assert (Oh : chunk_ok KString h).
      { rewrite <- Kh. apply str_chunk_ok. unfold lenN. rewrite Lh. cbn. lia. }
      rewrite enc_str_chunk, Kh in Hsl.
      exists KString, h. split; [exact Hsl|]. split; [exact Oh|].
      assert (Lc : length (chunk KString h) = 33%nat).
      { rewrite chunk_len, Lh. cbn [hdr]. unfold lenN. rewrite Lh. reflexivity. }
      split; [lia|]. intros f r _. rewrite Hcr. unfold dref. rewrite split_complete by exact Oh.
      rewrite Lh. reflexivity.
  Qed.

  (* the 16 child slots of a full node *)
  Lemma children_good l : Forall cgood l ->
    exists vs, enc16 l = Some (cat vs) /\ vs_ok vs /\ length vs = length l /\
      (length (cat vs) <= 33 * length l)%nat /\
      forall f r, (length (cat vs) < f \/ 32 <= f)%nat ->
        dchildren f (length l) (cat vs ++ r) = DOk (map (fun c => cref c (collapse c)) l, r).
  Proof.
    induction 1 as [|c l (kc & cc & Es & Ok1 & Len1 & Dec1) _ (vs & Ev & Okv & Lv & Lenv & Decv)].
    - exists []. repeat split; try reflexivity; try constructor.
    - exists ((kc, cc) :: vs). cbn [enc16]. rewrite Es, Ev, cat_cons.
      split; [reflexivity|]. split; [constructor; assumption|]. split; [cbn [length]; lia|].
      split; [rewrite app_length; cbn [length]; lia|].
      intros f r Hf. cbn [length map]. rewrite dchildren_S, <- app_assoc.
      rewrite app_length in Hf. rewrite Dec1 by lia. rewrite Decv by lia. reflexivity.
  Qed.

  Lemma enc_str_len b : lenN b < 2 ^ 64 -> (length b <= length (enc_str b) <= length b + 9)%nat.
  Proof.
    intros Hb. rewrite enc_str_chunk, chunk_len. pose proof (hdr_le9 (str_kind b) b Hb). lia.
  Qed.

  Lemma compact_small k ck : small k -> hex_to_compact k = Some ck -> lenN ck < 2 ^ 33.
  Proof.
    intros Hk E. apply hex_to_compact_len in E. unfold small, lenN in *. lia.
  Qed.

  Lemma count2 a b : vs_ok [a; b] -> count_values (cat [a; b]) = (2, None).
  Proof. intros Hok. unfold cat. rewrite count_values_complete by exact Hok. reflexivity. Qed.

  Lemma fuel_S f n : (n < f \/ 33 <= f)%nat -> exists f', f = S f'.
  Proof. intros Hf. destruct f; [lia|eauto]. Qed.

  Theorem pwf_egood n : pwf n -> egood n.
  Proof.
    induction n as [| |k c IH|cs IH|] using node_ind'; intros Hw; try solve [inversion Hw].
    - (* short node *)
      destruct (hex_to_compact_total k) as [ck Eck].
      inversion Hw as [k0 v Hk Sk [Vne Vs]|k0 c0 Hk Kne Sk Hc|]; subst.
      + (* leaf *)
        pose proof (compact_small _ _ Sk Eck) as Sck.
        assert (Ock : chunk_ok (str_kind ck) ck) by (apply str_chunk_ok; lia).
        assert (Ov : chunk_ok (str_kind v) v) by (apply str_chunk_ok; unfold small in Vs; lia).
        assert (Epc : enc_str ck ++ enc_str v = cat [(str_kind ck, ck); (str_kind v, v)]).
        { unfold cat. cbn [flat_map fst snd]. rewrite <- !enc_str_chunk, app_nil_r. reflexivity. }
        pose proof (enc_str_len ck ltac:(lia)) as Lck.
        pose proof (enc_str_len v ltac:(unfold small in Vs; lia)) as Lv.
        assert (Spc : lenN (enc_str ck ++ enc_str v) < 2 ^ 34).
        { unfold lenN in *. unfold small in Vs. unfold lenN in Vs. rewrite app_length. lia. }
        exists (enc_str ck ++ enc_str v).
        split; [rewrite node_enc_short_leaf by (apply valid_key_has_term; exact Hk); rewrite Eck; reflexivity|].
        split; [exact Spc|]. intros f r Hf. destruct (fuel_S _ _ Hf) as [f' ->].
        rewrite decode_chunk by lia. rewrite Epc at 1.
        rewrite count2 by (constructor; [assumption|constructor; [assumption|constructor]]).
        unfold dbody. rewrite N.eqb_refl. rewrite split_string_enc_str by lia. cbv zeta.
        rewrite (compact_hex k ck (valid_key_wf_hex k Hk) Eck).
        rewrite (valid_key_has_term k Hk).
        rewrite <- (app_nil_r (enc_str v)), split_string_enc_str by (unfold small in Vs; lia).
        reflexivity.
      + (* extension *)
        pose proof (compact_small _ _ Sk Eck) as Sck.
        assert (Ock : chunk_ok (str_kind ck) ck) by (apply str_chunk_ok; lia).
        destruct (cgood_node c Hc (IH Hc)) as (kc & cc & Es & Ok1 & Len1 & Dec1).
        assert (Ht : has_term k = false) by (apply has_term_nib_false, nibbles_forallb, Hk).
        assert (Epc : enc_str ck ++ chunk kc cc = cat [(str_kind ck, ck); (kc, cc)]).
        { unfold cat. cbn [flat_map fst snd]. rewrite <- enc_str_chunk, app_nil_r. reflexivity. }
        pose proof (enc_str_len ck ltac:(lia)) as Lck.
        assert (Spc : lenN (enc_str ck ++ chunk kc cc) < 2 ^ 34).
        { unfold lenN in *. rewrite app_length. lia. }
        exists (enc_str ck ++ chunk kc cc).
        split.
        { rewrite node_enc_short_ext by (exact Ht || exact (pwf_shape c Hc)). rewrite Eck, Es.
          destruct (pwf_shape c Hc) as [(k' & c' & ->)|(cs & ->)]; reflexivity. }
        split; [exact Spc|]. intros f r Hf. destruct (fuel_S _ _ Hf) as [f' ->].
        rewrite decode_chunk by lia. rewrite Epc at 1.
        rewrite count2 by (constructor; [assumption|constructor; [assumption|constructor]]).
        unfold dbody. rewrite N.eqb_refl. rewrite split_string_enc_str by lia. cbv zeta.
        rewrite (compact_hex k ck (nibbles_wf_hex k Hk) Eck). rewrite Ht.
        rewrite <- (app_nil_r (chunk kc cc)), Dec1; [reflexivity|].
        rewrite chunk_len, app_length in Hf. pose proof (hdr_ge1 KList (enc_str ck ++ chunk kc cc)).
        assert (KList <> KByte) by discriminate. lia.
    - (* full node *)
      inversion Hw as [| |cs0 HL Hch H16]; subst.
      destruct (split17 cs HL) as (l & c16 & -> & Hl).
      assert (Gl : Forall cgood l).
      { apply Forall_forall. intros c Hin. destruct (In_nth_error _ _ Hin) as [i Hi].
        assert (Hil : (i < length l)%nat) by (apply nth_error_Some; congruence).
        assert (Hi' : nth_error (l ++ [c16]) i = Some c) by (rewrite nth_error_app1; assumption).
        destruct (Hch i c Hi' ltac:(lia)) as [->|Hc]; [apply cgood_empty|].
        apply cgood_node; [exact Hc|]. rewrite Forall_forall in IH. apply IH; [|exact Hc].
        apply in_or_app. left. exact Hin. }
      destruct (children_good l Gl) as (vs & Ev & Okv & Lv & Lenv & Decv).
      assert (H16' : exists v16, val_enc c16 = Some (enc_str v16) /\ lenN v16 < 2 ^ 32 /\
                       c16 = match v16 with [] => NEmpty | _ => NValue v16 end).
      { destruct (H16 c16) as [->|(v & -> & Vne & Vs)].
        - rewrite nth_error_app2 by lia. rewrite Hl. reflexivity.
        - exists []. repeat split.
        - exists v. split; [destruct v; [congruence|reflexivity]|]. split; [exact Vs|].
          destruct v; [congruence|reflexivity]. }
      destruct H16' as (v16 & Ev16 & Sv16 & Ec16).
      assert (Ov : chunk_ok (str_kind v16) v16) by (apply str_chunk_ok; lia).
      assert (Epc : cat vs ++ enc_str v16 = cat (vs ++ [(str_kind v16, v16)])).
      { rewrite cat_app. unfold cat at 3. cbn [flat_map fst snd]. rewrite <- enc_str_chunk, app_nil_r. reflexivity. }
      pose proof (enc_str_len v16 ltac:(lia)) as Lv16.
      assert (Spc : lenN (cat vs ++ enc_str v16) < 2 ^ 34).
      { unfold lenN in *. rewrite app_length. lia. }
      exists (cat vs ++ enc_str v16).
      split.
      { rewrite node_enc_full, enc_go_split by (simpl; lia). rewrite Ev, Ev16. reflexivity. }
      split; [exact Spc|]. intros f r Hf. destruct (fuel_S _ _ Hf) as [f' ->].
      rewrite decode_chunk by lia. rewrite Epc at 1.
      unfold cat at 1. rewrite count_values_complete
        by (apply Forall_app; split; [exact Okv|constructor; [exact Ov|constructor]]).
      replace (lenN (vs ++ [(str_kind v16, v16)])) with 17
        by (unfold lenN; rewrite app_length, Lv, Hl; reflexivity).
      unfold dbody. change (17 =? 2) with false. change (17 =? 17) with true. cbv iota.
      specialize (Decv f' (enc_str v16)). rewrite Hl in Decv. rewrite Decv.
      + rewrite <- (app_nil_r (enc_str v16)), split_string_enc_str by lia.
        cbn [collapse]. rewrite map_app. cbn [map]. rewrite Ec16. destruct v16; reflexivity.
      + rewrite chunk_len, app_length in Hf. pose proof (hdr_ge1 KList (cat vs ++ enc_str v16)).
        assert (KList <> KByte) by discriminate. lia.
  Qed.

  (* decode_enc: decodeNode of a genuine node encoding *)
  Theorem decode_enc n e : pwf n -> node_enc H n = Some e -> proof_decode e = DOk (collapse n).
  Proof.
    intros Hw Ee. destruct (pwf_egood n Hw) as (pc & Ee' & _ & Hdec).
    rewrite Ee in Ee'. inversion Ee'; subst e. unfold proof_decode, decode_node.
    rewrite <- (app_nil_r (chunk KList pc)). apply Hdec. right. lia.
  Qed.

  Lemma pwf_enc_total n : pwf n -> exists e, node_enc H n = Some e.
  Proof. intros Hw. destruct (pwf_egood n Hw) as (pc & Ee & _). eauto. Qed.

  Lemma pwf_hash_root n e : pwf n -> node_enc H n = Some e -> hash_root H n = Some (H e).
  Proof.
    intros Hw Ee. destruct (pwf_shape n Hw) as [(k & c & ->)|(cs & ->)];
      unfold hash_root, node_ref; rewrite Ee, andb_false_r; reflexivity.
  Qed.
End Enc.

(* ------------------------------------------------------------------ small facts about the model functions *)

Lemma db_get_in db k b : db_get db k = Some b -> In (k, b) db.
Proof.
  induction db as [|[k' v] db IH]; [discriminate|]. cbn [db_get].
  destruct (db_get db k) as [x|].
  - intros E; inversion E; subst. right. apply IH. reflexivity.
  - destruct (bytes_eqb k' k) eqn:B; [|discriminate]. intros E; inversion E; subst.
    apply bytes_eqb_eq in B. subst. left. reflexivity.
Qed.

Lemma db_get_of_in db k b : In (k, b) db -> exists b', db_get db k = Some b'.
Proof.
  induction db as [|[k' v] db IH]; [intros []|]. intros [E|Hin]; cbn [db_get].
  - inversion E; subst. destruct (db_get db k); [eauto|]. rewrite bytes_eqb_refl. eauto.
  - destruct (IH Hin) as [b' ->]. eauto.
Qed.

Lemma pget_full cs k0 kr :
  pget (NFull cs) (k0 :: kr) =
  match nth_error cs (N.to_nat k0) with Some c => pget c kr | None => None end.
Proof.
  cbn [pget]. generalize (N.to_nat k0). induction cs as [|c cs IH]; intros [|i]; simpl; auto.
Qed.

Lemma pget_short nk c key :
  pget (NShort nk c) key =
  match strip nk key with Some r => pget c r | None => Some ([], NEmpty) end.
Proof.
  cbn [pget]. pose proof (is_prefix_strip nk key) as Hs. destruct (strip nk key) as [r|].
  - destruct Hs as [-> ->]. reflexivity.
  - rewrite Hs. reflexivity.
Qed.

Lemma verify_f_S f db want key i :
  verify_f (S f) db want key i =
  match db_get db want with
  | None => VErr (VMissing i)
  | Some buf =>
      match proof_decode buf with
      | DErr e => VErr (VBad i e)
      | DOk n =>
          match pget n key with
          | None => VErr VPanic
          | Some (keyrest, cld) =>
              match cld with
              | NEmpty => VOk None
              | NHash h => verify_f f db h keyrest (S i)
              | NValue v => VOk (Some v)
              | _ => VErr VLoop
              end
          end
      end
  end.
Proof. reflexivity. Qed.

(* all nodes of a trie *)
Fixpoint nodes_of (n : node) : list node :=
  n :: match n with
       | NShort _ c => nodes_of c
       | NFull cs => flat_map nodes_of cs
       | _ => []
       end.

Lemma nodes_of_self n : In n (nodes_of n).
Proof. destruct n; left; reflexivity. Qed.
Lemma nodes_of_short k c x : In x (nodes_of c) -> In x (nodes_of (NShort k c)).
Proof. intros Hx. right. exact Hx. Qed.
Lemma nodes_of_full cs i c x : nth_error cs i = Some c -> In x (nodes_of c) -> In x (nodes_of (NFull cs)).
Proof.
  intros Hc Hx. right. apply in_flat_map. exists c. split; [eapply nth_error_In; eassumption|exact Hx].
Qed.

(* the nodes Prove collects for [key]: the first loop of Trie.Prove, structurally *)
Fixpoint path_nodes (n : node) (key : list N) {struct n} : list node :=
  match key with
  | [] => []
  | k0 :: kr =>
      match n with
      | NShort nk c =>
          if is_prefix_of nk key then n :: path_nodes c (skipn (length nk) key) else [n]
      | NFull cs =>
          n :: (fix go (l : list node) (i : nat) {struct l} : list node :=
                  match l with
                  | [] => []
                  | c :: l' => match i with O => path_nodes c kr | S i' => go l' i' end
                  end) cs (N.to_nat k0)
      | _ => []
      end
  end.

Lemma path_nodes_full cs k0 kr :
  path_nodes (NFull cs) (k0 :: kr) =
  NFull cs :: match nth_error cs (N.to_nat k0) with Some c => path_nodes c kr | None => [] end.
Proof.
  cbn [path_nodes]. f_equal. generalize (N.to_nat k0).
  induction cs as [|c cs IH]; intros [|i]; simpl; auto.
Qed.

Lemma path_nodes_short nk c key : key <> [] ->
  path_nodes (NShort nk c) key =
  match strip nk key with Some r => NShort nk c :: path_nodes c r | None => [NShort nk c] end.
Proof.
  intros Hk. destruct key as [|k0 kr]; [congruence|]. cbn [path_nodes].
  pose proof (is_prefix_strip nk (k0 :: kr)) as Hs. destruct (strip nk (k0 :: kr)) as [r|].
  - destruct Hs as [-> ->]. reflexivity.
  - rewrite Hs. reflexivity.
Qed.

Lemma path_nodes_head n key : pwf n -> key <> [] -> In n (path_nodes n key).
Proof.
  intros Hw Hk. destruct key as [|k0 kr]; [congruence|].
  destruct (pwf_shape n Hw) as [(k & c & ->)|(cs & ->)].
  - rewrite path_nodes_short by discriminate. destruct (strip k (k0 :: kr)); left; reflexivity.
  - rewrite path_nodes_full. left. reflexivity.
Qed.

Lemma path_nodes_sub n : forall key x, In x (path_nodes n key) -> In x (nodes_of n).
Proof.
  induction n as [| |k c IH|cs IH|] using node_ind'; intros key x Hx;
    try solve [destruct key; destruct Hx].
  - destruct key as [|k0 kr]; [destruct Hx|]. rewrite path_nodes_short in Hx by discriminate.
    destruct (strip k (k0 :: kr)) as [r|].
    + destruct Hx as [<-|Hx]; [apply nodes_of_self|]. apply nodes_of_short. eapply IH; eassumption.
    + destruct Hx as [<-|[]]. apply nodes_of_self.
  - destruct key as [|k0 kr]; [destruct Hx|]. rewrite path_nodes_full in Hx.
    destruct Hx as [<-|Hx]; [apply nodes_of_self|].
    destruct (nth_error cs (N.to_nat k0)) as [c|] eqn:Ec; [|destruct Hx].
    eapply nodes_of_full; [exact Ec|]. rewrite Forall_forall in IH.
    eapply IH; [eapply nth_error_In; exact Ec|exact Hx].
Qed.

(* ------------------------------------------------------------------ the proof walk follows the trie *)

Section Walk.
  Variable H : list N -> list N.
  Hypothesis H_len : forall x, length (H x) = 32%nat.
  Variable db : pdb.
  (* the database answers the hash of an encoding in [P] only with that encoding *)
  Variable P : list N -> Prop.
  Hypothesis faithful : forall e b, P e -> db_get db (H e) = Some b -> b = e.

  Definition genuine (t : node) (e : list N) : Prop :=
    exists c, In c (nodes_of t) /\ node_enc H c = Some e.

  Lemma genuine_short k c e : genuine c e -> genuine (NShort k c) e.
  Proof. intros (x & Hx & Ex). exists x. split; [apply nodes_of_short|]; assumption. Qed.
  Lemma genuine_full cs i c e : nth_error cs i = Some c -> genuine c e -> genuine (NFull cs) e.
  Proof. intros Hc (x & Hx & Ex). exists x. split; [eapply nodes_of_full; eassumption|assumption]. Qed.
  Lemma genuine_self n e : node_enc H n = Some e -> genuine n e.
  Proof. intros E. exists n. split; [apply nodes_of_self|exact E]. Qed.

  (* what VerifyProof does with the result of get *)
  Definition cont (f i : nat) (x : option (list N * node)) : vres :=
    match x with
    | None => VErr VPanic
    | Some (kr, cld) =>
        match cld with
        | NEmpty => VOk None
        | NHash h => verify_f f db h kr (S i)
        | NValue v => VOk (Some v)
        | _ => VErr VLoop
        end
    end.

  (* a hashed node on the path of [key] is not in the database *)
  Definition missing_on (n : node) (key : list N) : Prop :=
    exists c e, In c (path_nodes n key) /\ node_enc H c = Some e /\ (32 <= length e)%nat /\
                db_get db (H e) = None.

  Definition wres (r : vres) (n : node) (key : list N) : Prop :=
    r = VOk (lk n key) \/ ((exists j, r = VErr (VMissing j)) /\ missing_on n key).

  (* fuel accounting (tight): from a resolved node with [length key] key elements
     left, at most [length key - 1] further database lookups happen — every
     lookup is preceded by the consumption of at least one nibble, and after the
     terminator only a value is left *)
  Definition walks (n : node) : Prop :=
    forall key f i, valid_key key -> (length key <= S f)%nat ->
      wres (cont f i (pget (collapse H n) key)) n key.

  Lemma missing_short k c key r : strip k key = Some r -> key <> [] ->
    missing_on c r -> missing_on (NShort k c) key.
  Proof.
    intros Hs Hk (x & e & Hx & Ee & Le & Hm). exists x, e. rewrite path_nodes_short, Hs by exact Hk.
    split; [right; exact Hx|auto].
  Qed.

  Lemma missing_full cs k0 kr c : nth_error cs (N.to_nat k0) = Some c ->
    missing_on c kr -> missing_on (NFull cs) (k0 :: kr).
  Proof.
    intros Hc (x & e & Hx & Ee & Le & Hm). exists x, e. rewrite path_nodes_full, Hc.
    split; [right; exact Hx|auto].
  Qed.

  (* one child: embedded (walk on inside the same proof node) or hashed (next
     database lookup) *)
  Lemma child_walk c : pwf c -> walks c -> (forall e, genuine c e -> P e) ->
    forall r f i, valid_key r -> (length r <= f)%nat ->
      wres (cont f i (pget (cref H c (collapse H c)) r)) c r.
  Proof.
    intros Hw Hwalk HP r f i Hr Hf.
    assert (Lr : (1 <= length r)%nat).
    { pose proof (valid_key_nonempty r Hr). destruct r; [congruence|cbn [length]; lia]. }
    destruct (pwf_enc_total H H_len c Hw) as [e Ee].
    assert (Hcr : cref H c (collapse H c) =
                  if Nat.ltb (length e) 32 then collapse H c else NHash (H e)).
    { destruct (pwf_shape c Hw) as [(k & c' & ->)|(cs & ->)]; unfold cref; rewrite Ee; reflexivity. }
    rewrite Hcr. destruct (Nat.ltb (length e) 32) eqn:L.
    - apply Hwalk; [exact Hr|lia].
    - apply Nat.ltb_ge in L. cbn [pget cont]. destruct f as [|f']; [lia|]. rewrite verify_f_S.
      destruct (db_get db (H e)) as [b|] eqn:G.
      + rewrite (faithful e b (HP e (genuine_self c e Ee)) G).
        rewrite (decode_enc H H_len c e Hw Ee). apply Hwalk; [exact Hr|lia].
      + right. split; [eauto|]. exists c, e. split; [|auto].
        apply path_nodes_head; [exact Hw|]. apply valid_key_nonempty. exact Hr.
  Qed.

  Lemma wres_short k c key r res : strip k key = Some r -> key <> [] ->
    wres res c r -> wres res (NShort k c) key.
  Proof.
    intros Hs Hk [->|[Hj Hm]]; [left|right].
    - rewrite lk_short, Hs. reflexivity.
    - split; [exact Hj|]. eapply missing_short; eassumption.
  Qed.

  Lemma wres_full cs k0 kr c res : nth_error cs (N.to_nat k0) = Some c ->
    wres res c kr -> wres res (NFull cs) (k0 :: kr).
  Proof.
    intros Hc [->|[Hj Hm]]; [left|right].
    - rewrite lk_full, Hc. reflexivity.
    - split; [exact Hj|]. eapply missing_full; eassumption.
  Qed.

  Theorem walk n : pwf n -> (forall e, genuine n e -> P e) -> walks n.
  Proof.
    induction n as [| |k c IH|cs IH|] using node_ind'; intros Hw HP; try solve [inversion Hw].
    - (* short node *)
      intros key f i Hkey Hf. cbn [collapse]. rewrite pget_short.
      pose proof (valid_key_nonempty key Hkey) as Kne.
      destruct (strip k key) as [r|] eqn:Hs.
      2:{ left. cbn [cont]. rewrite lk_short, Hs. reflexivity. }
      pose proof (proj1 (strip_some k key r) Hs) as Ek.
      inversion Hw as [k0 v Hk Sk Vok|k0 c0 Hk Kne' Sk Hc|]; subst.
      + (* leaf: the key ends here *)
        assert (r = []) by (eapply valid_key_prefix_end; eassumption). subst r.
        left. cbn [cref pget cont]. rewrite lk_short, Hs, lk_value. reflexivity.
      + (* extension *)
        assert (Rne : r <> []).
        { intros ->. rewrite app_nil_r in Hkey. exact (valid_key_not_nibbles k Hkey Hk). }
        destruct (valid_key_app_inv k r Hkey Rne) as [_ Hr].
        eapply wres_short; [exact Hs|exact Kne|].
        apply child_walk; [exact Hc| |intros e He; apply HP, genuine_short, He|exact Hr|].
        * apply IH; [exact Hc|intros e He; apply HP, genuine_short, He].
        * rewrite app_length in Hf. destruct k; [congruence|]. cbn [length] in Hf. lia.
    - (* full node *)
      intros key f i Hkey Hf. inversion Hw as [| |cs0 HL Hch H16]; subst.
      destruct key as [|k0 kr]; [destruct Hkey|].
      cbn [collapse]. rewrite pget_full, nth_error_map.
      apply valid_key_cons in Hkey as [[-> ->]|[Hk0 Hkr]].
      + (* the value slot *)
        change (N.to_nat 16) with 16%nat.
        destruct (nth_error cs 16) as [c|] eqn:Ec.
        2:{ apply nth_error_None in Ec. lia. }
        cbn [option_map]. left. rewrite lk_full. change (N.to_nat 16) with 16%nat. rewrite Ec.
        destruct (H16 c eq_refl) as [->|(v & -> & _)]; cbn [cref pget cont]; [rewrite lk_empty|rewrite lk_value]; reflexivity.
      + assert (Hi : (N.to_nat k0 < 16)%nat) by lia.
        destruct (nth_error cs (N.to_nat k0)) as [c|] eqn:Ec.
        2:{ apply nth_error_None in Ec. lia. }
        cbn [option_map].
        destruct (Hch _ c Ec Hi) as [->|Hc].
        * left. cbn [cref pget cont]. rewrite lk_full, Ec, lk_empty. reflexivity.
        * eapply wres_full; [exact Ec|].
          assert (HPc : forall e, genuine c e -> P e)
            by (intros e He; apply HP; eapply genuine_full; eassumption).
          apply child_walk; [exact Hc| |exact HPc|exact Hkr|cbn [length] in Hf; lia].
          rewrite Forall_forall in IH. apply IH; [eapply nth_error_In; exact Ec|exact Hc|exact HPc].
  Qed.

  (* the loop of VerifyProof from the root hash of [t], with ANY fuel >= the
     length of the hex key (2n+1 for an n-byte key): one iteration per
     hash-referenced node on the path, at most one per key element *)
  Theorem verify_f_follows t e k f i : pwf t -> node_enc H t = Some e ->
    (forall x, genuine t x -> P x) -> valid_key k -> (length k <= f)%nat ->
    verify_f f db (H e) k i = VOk (lk t k) \/
    ((exists j, verify_f f db (H e) k i = VErr (VMissing j)) /\
     (db_get db (H e) = None \/ missing_on t k)).
  Proof.
    intros Hw Ee HP Hk Hf.
    assert (Lk : (1 <= length k)%nat).
    { pose proof (valid_key_nonempty k Hk). destruct k; [congruence|cbn [length]; lia]. }
    destruct f as [|f']; [lia|]. rewrite verify_f_S. destruct (db_get db (H e)) as [b|] eqn:G.
    - rewrite (faithful e b (HP e (genuine_self t e Ee)) G), (decode_enc H H_len t e Hw Ee).
      destruct (walk t Hw HP k f' i Hk Hf) as [R|[R M]].
      + left. exact R.
      + right. split; [exact R|right; exact M].
    - right. split; [eauto|left; reflexivity].
  Qed.

  (* VerifyProof from the root hash of [t] *)
  Theorem verify_follows t e key : pwf t -> node_enc H t = Some e ->
    (forall x, genuine t x -> P x) -> forallb byteb key = true ->
    let k := keybytes_to_hex key in
    verify_proof (H e) key db = VOk (lk t k) \/
    ((exists j, verify_proof (H e) key db = VErr (VMissing j)) /\
     (db_get db (H e) = None \/ missing_on t k)).
  Proof.
    intros Hw Ee HP Hkey k. pose proof (keybytes_to_hex_valid key Hkey) as Hk. fold k in Hk.
    unfold verify_proof. fold k.
    apply (verify_f_follows t e k (verify_fuel k db) 0%nat Hw Ee HP Hk).
    unfold verify_fuel. nia.
  Qed.
End Walk.

(* ------------------------------------------------------------------ Prove *)

Lemma path_nodes_nil n : path_nodes n [] = [].
Proof. destruct n; reflexivity. Qed.

Lemma path_nodes_hd n key : pwf n -> key <> [] -> exists rest, path_nodes n key = n :: rest.
Proof.
  intros Hw Hk. destruct key as [|k0 kr]; [congruence|].
  destruct (pwf_shape n Hw) as [(k & c & ->)|(cs & ->)].
  - rewrite path_nodes_short by discriminate. destruct (strip k (k0 :: kr)); eauto.
  - rewrite path_nodes_full. eauto.
Qed.

Lemma path_nodes_pwf n : pwf n -> forall key x, In x (path_nodes n key) -> pwf x.
Proof.
  induction n as [| |k c IH|cs IH|] using node_ind'; intros Hw key x Hx; try solve [inversion Hw].
  - destruct key as [|k0 kr]; [destruct Hx|]. rewrite path_nodes_short in Hx by discriminate.
    destruct (strip k (k0 :: kr)) as [r|].
    + destruct Hx as [<-|Hx]; [exact Hw|].
      inversion Hw as [k1 v Hk Sk Vok|k1 c0 Hk Kne' Sk Hc|]; subst.
      * destruct r; destruct Hx.
      * eapply IH; eassumption.
    + destruct Hx as [<-|[]]. exact Hw.
  - destruct key as [|k0 kr]; [destruct Hx|]. rewrite path_nodes_full in Hx.
    destruct Hx as [<-|Hx]; [exact Hw|].
    destruct (nth_error cs (N.to_nat k0)) as [c|] eqn:Ec; [|destruct Hx].
    inversion Hw as [| |cs0 HL Hch H16]; subst.
    destruct (Nat.lt_ge_cases (N.to_nat k0) 16) as [Hi|Hi].
    + destruct (Hch _ c Ec Hi) as [->|Hc]; [destruct kr; destruct Hx|].
      rewrite Forall_forall in IH. eapply IH; [eapply nth_error_In; exact Ec|exact Hc|exact Hx].
    + assert (N.to_nat k0 = 16%nat).
      { assert ((N.to_nat k0 < length cs)%nat) by (apply nth_error_Some; congruence). lia. }
      rewrite H in Ec. destruct (H16 c Ec) as [->|(v & -> & _)]; destruct kr; destruct Hx.
Qed.

Section ProvePath.
  Variable resolve : list N -> list N -> option (node * list N).

  Lemma prove_path_nil f n prefix : (0 < f)%nat -> prove_path resolve f n prefix [] = TOk [].
  Proof. intros Hf. destruct f; [lia|reflexivity]. Qed.

  (* the first loop of Prove never fails on a resolved trie and collects the path *)
  Lemma prove_path_ok n : pwf n -> forall f prefix key, valid_key key -> (length key < f)%nat ->
    prove_path resolve f n prefix key = TOk (path_nodes n key).
  Proof.
    induction n as [| |k c IH|cs IH|] using node_ind'; intros Hw f prefix key Hkey Hf;
      try solve [inversion Hw].
    - destruct f as [|f]; [lia|]. pose proof (valid_key_nonempty key Hkey) as Kne.
      rewrite path_nodes_short by exact Kne.
      destruct key as [|k0 kr]; [congruence|]. cbn [prove_path].
      pose proof (is_prefix_strip k (k0 :: kr)) as Hs.
      destruct (strip k (k0 :: kr)) as [r|] eqn:Es.
      2:{ rewrite Hs. reflexivity. }
      destruct Hs as [-> ->]. cbn [negb].
      pose proof (proj1 (strip_some k (k0 :: kr) r) Es) as Ek.
      inversion Hw as [k1 v Hk Sk Vok|k1 c0 Hk Kne' Sk Hc|]; subst.
      + assert (r = []) by (eapply valid_key_prefix_end; [exact Hk|rewrite <- Ek; exact Hkey]). subst r.
        rewrite prove_path_nil by (cbn [length] in Hf; lia). rewrite path_nodes_nil. reflexivity.
      + assert (Rne : r <> []).
        { intros ->. rewrite app_nil_r in Ek. rewrite Ek in Hkey. exact (valid_key_not_nibbles k Hkey Hk). }
        rewrite Ek in Hkey. destruct (valid_key_app_inv k r Hkey Rne) as [_ Hr].
        rewrite IH; [reflexivity|exact Hc|exact Hr|].
        apply (f_equal (@length N)) in Ek. rewrite app_length in Ek.
        destruct k; [congruence|]. cbn [length] in *. lia.
    - destruct f as [|f]; [lia|]. inversion Hw as [| |cs0 HL Hch H16]; subst.
      destruct key as [|k0 kr]; [destruct Hkey|]. rewrite path_nodes_full. cbn [prove_path]. unfold child.
      apply valid_key_cons in Hkey as [[-> ->]|[Hk0 Hkr]].
      + change (N.to_nat 16) with 16%nat. destruct (nth_error cs 16) as [c|] eqn:Ec.
        2:{ apply nth_error_None in Ec. lia. }
        rewrite prove_path_nil by (cbn [length] in Hf; lia). rewrite path_nodes_nil. reflexivity.
      + assert (Hi : (N.to_nat k0 < 16)%nat) by lia.
        destruct (nth_error cs (N.to_nat k0)) as [c|] eqn:Ec.
        2:{ apply nth_error_None in Ec. lia. }
        destruct (Hch _ c Ec Hi) as [->|Hc].
        * destruct f as [|f]; [cbn [length] in Hf; pose proof (valid_key_nonempty kr Hkr); destruct kr; [congruence|cbn [length] in Hf; lia]|].
          destruct kr as [|k1 kr']; [destruct Hkr|]. reflexivity.
        * rewrite Forall_forall in IH. rewrite (IH c (nth_error_In _ _ Ec) Hc); [reflexivity|exact Hkr|].
          cbn [length] in Hf. lia.
  Qed.
End ProvePath.

Section Main.
  Variable H : list N -> list N.
  Hypothesis H_len : forall x, length (H x) = 32%nat.
  (* the finite set of node encodings in play, on which H is collision free *)
  Variable NS : list N -> Prop.
  Definition H_inj_on : Prop := forall a b, NS a -> NS b -> H a = H b -> a = b.
  Hypothesis H_inj : H_inj_on.

  (* a proof database built by hashing its nodes, all of them in NS *)
  Definition db_keyed (db : pdb) : Prop := forall k b, In (k, b) db -> k = H b.
  Definition db_in (db : pdb) : Prop := forall k b, In (k, b) db -> NS b.

  Lemma keyed_faithful db : db_keyed db -> db_in db ->
    forall e b, NS e -> db_get db (H e) = Some b -> b = e.
  Proof.
    intros K I e b He G. apply db_get_in in G. pose proof (K _ _ G) as E.
    symmetry. apply H_inj; [exact He|eapply I; exact G|exact E].
  Qed.

  (* every branch of VerifyProof on such a database: the true value, or a
     missing-node error; never a bad-node error, a panic or non-termination *)
  Theorem verify_total_sound t r key db :
    pwf t -> forallb byteb key = true -> (forall e, genuine H t e -> NS e) ->
    db_keyed db -> db_in db -> hash_root H t = Some r ->
    verify_proof r key db = VOk (lk t (keybytes_to_hex key)) \/
    exists j, verify_proof r key db = VErr (VMissing j).
  Proof.
    intros Hw Hkey HNS K I Hr. destruct (pwf_enc_total H H_len t Hw) as [e Ee].
    rewrite (pwf_hash_root H t e Hw Ee) in Hr. inversion Hr; subst r.
    destruct (verify_follows H H_len db NS (keyed_faithful db K I) t e key Hw Ee HNS Hkey) as [R|[R _]];
      [left|right]; exact R.
  Qed.

  Theorem soundness t r key db v :
    pwf t -> forallb byteb key = true -> (forall e, genuine H t e -> NS e) ->
    db_keyed db -> db_in db -> hash_root H t = Some r ->
    verify_proof r key db = VOk v -> v = lk t (keybytes_to_hex key).
  Proof.
    intros Hw Hkey HNS K I Hr Hv.
    destruct (verify_total_sound t r key db Hw Hkey HNS K I Hr) as [R|[j R]]; rewrite R in Hv;
      [inversion Hv; reflexivity|discriminate].
  Qed.

  (* the second loop of Prove *)
  Lemma prove_emit_spec nodes : forall first,
    Forall (fun c => exists e, node_enc H c = Some e) nodes ->
    exists db, prove_emit H first nodes = TOk db /\ db_keyed db /\
      (forall k b, In (k, b) db -> exists c, In c nodes /\ node_enc H c = Some b) /\
      (forall c e, In c nodes -> node_enc H c = Some e -> (32 <= length e)%nat -> In (H e, e) db) /\
      (first = true -> forall c rest e, nodes = c :: rest -> node_enc H c = Some e -> In (H e, e) db).
  Proof.
    induction nodes as [|n r IH]; intros first Hall.
    - exists []. split; [reflexivity|]. split; [intros k b []|]. split; [intros k b []|].
      split; [intros c e []|]. intros _ c rest e E. discriminate.
    - inversion Hall as [|n0 r0 [e Ee] Hr]; subst. destruct (IH false Hr) as (db & Ed & K & Sub & Big & _).
      cbn [prove_emit]. rewrite Ee, Ed.
      exists (if Nat.leb 32 (length e) || first then (H e, e) :: db else db).
      split; [reflexivity|]. split; [|split; [|split]].
      + intros k b Hin. destruct (Nat.leb 32 (length e) || first); [|apply K; exact Hin].
        destruct Hin as [E|Hin]; [inversion E; reflexivity|apply K; exact Hin].
      + intros k b Hin.
        assert (Hin' : (H e, e) = (k, b) \/ In (k, b) db).
        { destruct (Nat.leb 32 (length e) || first); [exact Hin|right; exact Hin]. }
        destruct Hin' as [E|Hin'].
        * inversion E; subst. exists n. split; [left; reflexivity|exact Ee].
        * destruct (Sub k b Hin') as (c & Hc & Ec). exists c. split; [right; exact Hc|exact Ec].
      + intros c e' [<-|Hc] Ec Le.
        * rewrite Ee in Ec. inversion Ec; subst e'.
          destruct (Nat.leb_spec 32 (length e)); [|lia]. left. reflexivity.
        * pose proof (Big c e' Hc Ec Le). destruct (Nat.leb 32 (length e) || first); [right|]; assumption.
      + intros -> c rest e' E Ec. inversion E; subst. rewrite Ee in Ec. inversion Ec; subst e'.
        rewrite orb_true_r. left. reflexivity.
  Qed.

  (* completeness: the proof Prove emits for any key, present or absent, of a
     non-empty resolved trie verifies to exactly the trie's value *)
  Lemma hex_len key : length (keybytes_to_hex key) = (2 * length key + 1)%nat.
  Proof. unfold keybytes_to_hex. rewrite app_length, nibbles_of_length. reflexivity. Qed.

  (* ... with ANY loop bound >= 2n+1 for an n-byte key (the Go loop has none):
     the walk of a genuine proof makes at most one iteration per key nibble plus
     one for the terminator, so the model's fuel is never what decides *)
  Theorem completeness_fuel resolve t r key :
    pwf t -> forallb byteb key = true -> (forall e, genuine H t e -> NS e) ->
    hash_root H t = Some r ->
    exists db, prove H resolve t key = TOk db /\
      forall f i, (2 * length key + 1 <= f)%nat ->
        verify_f f db r (keybytes_to_hex key) i = VOk (lk t (keybytes_to_hex key)).
  Proof.
    intros Hw Hkey HNS Hr. set (k := keybytes_to_hex key).
    pose proof (keybytes_to_hex_valid key Hkey) as Hk. fold k in Hk.
    destruct (pwf_enc_total H H_len t Hw) as [e Ee].
    rewrite (pwf_hash_root H t e Hw Ee) in Hr. inversion Hr; subst r.
    assert (Hall : Forall (fun c => exists e, node_enc H c = Some e) (path_nodes t k)).
    { apply Forall_forall. intros c Hc. apply (pwf_enc_total H H_len).
      eapply path_nodes_pwf; eassumption. }
    destruct (prove_emit_spec (path_nodes t k) true Hall) as (db & Ed & K & Sub & Big & First).
    exists db. split.
    { unfold prove. fold k. rewrite (prove_path_ok resolve t Hw) by (exact Hk || (unfold ops_fuel; lia)).
      exact Ed. }
    assert (I : db_in db).
    { intros k' b Hin. destruct (Sub k' b Hin) as (c & Hc & Ec). apply HNS. exists c.
      split; [eapply path_nodes_sub; exact Hc|exact Ec]. }
    intros f i Hf. rewrite <- hex_len in Hf. fold k in Hf.
    destruct (verify_f_follows H H_len db NS (keyed_faithful db K I) t e k f i Hw Ee HNS Hk Hf) as [R|[_ [M|M]]].
    - exact R.
    - exfalso. assert (Hin : In (H e, e) db).
      { destruct (path_nodes_hd t k Hw (valid_key_nonempty k Hk)) as [rest Ep].
        exact (First eq_refl t rest e Ep Ee). }
      destruct (db_get_of_in db _ _ Hin) as [b' G]. congruence.
    - exfalso. destruct M as (c & e' & Hc & Ec & Le & G). fold k in Hc.
      destruct (db_get_of_in db _ _ (Big c e' Hc Ec Le)) as [b' G']. congruence.
  Qed.

  Theorem completeness resolve t r key :
    pwf t -> forallb byteb key = true -> (forall e, genuine H t e -> NS e) ->
    hash_root H t = Some r ->
    exists db, prove H resolve t key = TOk db /\
               verify_proof r key db = VOk (lk t (keybytes_to_hex key)).
  Proof.
    intros Hw Hkey HNS Hr.
    destruct (completeness_fuel resolve t r key Hw Hkey HNS Hr) as (db & Ed & Hv).
    exists db. split; [exact Ed|]. unfold verify_proof. apply Hv.
    unfold verify_fuel. rewrite hex_len. nia.
  Qed.

  (* soundness side: on a hash-keyed database of encodings in NS the loop needs
     at most 2n+1 iterations as well: with any such bound the result is the true
     value or a missing node, never [VLoop] *)
  Theorem sound_fuel t r key db f i :
    pwf t -> forallb byteb key = true -> (forall e, genuine H t e -> NS e) ->
    db_keyed db -> db_in db -> hash_root H t = Some r ->
    (2 * length key + 1 <= f)%nat ->
    verify_f f db r (keybytes_to_hex key) i = VOk (lk t (keybytes_to_hex key)) \/
    exists j, verify_f f db r (keybytes_to_hex key) i = VErr (VMissing j).
  Proof.
    intros Hw Hkey HNS K I Hr Hf. destruct (pwf_enc_total H H_len t Hw) as [e Ee].
    rewrite (pwf_hash_root H t e Hw Ee) in Hr. inversion Hr; subst r. rewrite <- hex_len in Hf.
    destruct (verify_f_follows H H_len db NS (keyed_faithful db K I) t e _ f i Hw Ee HNS
                (keybytes_to_hex_valid key Hkey) Hf) as [R|[R _]]; [left|right]; exact R.
  Qed.

  (* the empty trie: Prove emits nothing and the empty proof is REJECTED, although
     the key is absent (lk NEmpty k = None): completeness fails for t = NEmpty *)
End Main.

  Theorem completeness_empty_refuted (H : list N -> list N) resolve key :
    exists r, hash_root H NEmpty = Some r /\ prove H resolve NEmpty key = TOk [] /\
              verify_proof r key [] = VErr (VMissing 0) /\
              lk NEmpty (keybytes_to_hex key) = None.
  Proof.
    exists (H empty_root_preimage). split; [reflexivity|]. split; [|split].
    - unfold prove, keybytes_to_hex. destruct (nibbles_of key ++ [16]) eqn:E.
      + destruct (nibbles_of key); discriminate.
      + reflexivity.
    - unfold verify_proof, verify_fuel.
      destruct ((length (keybytes_to_hex key) + 1) * (length (@nil (list N * list N)) + 1) + 1)%nat eqn:E;
        [lia|reflexivity].
    - apply lk_empty.
  Qed.

(* ------------------------------------------------------------------ VerifyProof never panics *)

Lemma split_bytes b k c r : bytesb b = true -> Raw.split b = Ok (k, c, r) ->
  bytesb c = true /\ bytesb r = true.
Proof.
  intros Hb Hs. destruct (split_sound b k c r Hb Hs) as [E _]. subst b.
  unfold chunk in Hb. rewrite !bytesb_app in Hb.
  apply andb_true_iff in Hb as [Hb Hr]. apply andb_true_iff in Hb as [_ Hc]. auto.
Qed.

Lemma split_string_bytes b c r : bytesb b = true -> split_string b = Ok (c, r) ->
  bytesb c = true /\ bytesb r = true.
Proof.
  intros Hb. unfold split_string. destruct (Raw.split b) as [[[k c'] r']|] eqn:E; [|discriminate].
  destruct k; try discriminate; intros Hs; inversion Hs; subst; eapply split_bytes; eassumption.
Qed.

Lemma wf_hex_skipn_nib p n : forallb nibbleb p = true -> wf_hex (skipn n p) = true.
Proof.
  intros Hp. assert (Hs : forallb nibbleb (skipn n p) = true).
  { rewrite <- (firstn_skipn n p), forallb_app in Hp. apply andb_true_iff in Hp. tauto. }
  unfold wf_hex. rewrite (has_term_nib_false _ Hs). exact Hs.
Qed.

Lemma compact_to_hex_wf c : bytesb c = true -> wf_hex (compact_to_hex c) = true.
Proof.
  intros Hc. unfold compact_to_hex. destruct c as [|c0 c']; [reflexivity|].
  set (c := c0 :: c') in *. cbv zeta. unfold keybytes_to_hex.
  pose proof (nibbles_of_nib c Hc) as Hn.
  generalize (N.to_nat (2 - N.land (hd 0 (nibbles_of c ++ [16])) 1)). intros n.
  destruct (hd 0 (nibbles_of c ++ [16]) <? 2).
  - rewrite removelast_last. apply wf_hex_skipn_nib, Hn.
  - rewrite skipn_app.
    assert (Hs : forallb nibbleb (skipn n (nibbles_of c)) = true).
    { rewrite <- (firstn_skipn n (nibbles_of c)), forallb_app in Hn. apply andb_true_iff in Hn. tauto. }
    destruct (n - length (nibbles_of c))%nat as [|m].
    + cbn [skipn]. unfold wf_hex. rewrite has_term_app_16, removelast_last. exact Hs.
    + replace (skipn (S m) [16]) with (@nil N) by (destruct m; reflexivity).
      rewrite app_nil_r. unfold wf_hex. rewrite (has_term_nib_false _ Hs). exact Hs.
Qed.

Lemma forallb_nibbles p : forallb nibbleb p = true -> nibbles p.
Proof.
  intros Hp. unfold nibbles. apply Forall_forall. intros x Hx. rewrite forallb_forall in Hp.
  specialize (Hp x Hx). unfold nibbleb in Hp. lia.
Qed.

(* where get can stop: nil, a value, or a hash reference with a valid remaining key *)
Definition endok (kr : list N) (cld : node) : Prop :=
  cld = NEmpty \/ (exists v, cld = NValue v) \/ (exists h, cld = NHash h /\ valid_key kr).

Definition pgood (n : node) : Prop :=
  forall key, valid_key key -> exists kr cld, pget n key = Some (kr, cld) /\ endok kr cld.

Lemma pgood_empty : pgood NEmpty.
Proof. intros key Hk. exists key, NEmpty. split; [reflexivity|left; reflexivity]. Qed.

Lemma pgood_hash h : pgood (NHash h).
Proof. intros key Hk. exists key, (NHash h). split; [reflexivity|right; right; eauto]. Qed.

Lemma pgood_leaf k v : pgood (NShort k (NValue v)).
Proof.
  intros key Hk. rewrite pget_short. destruct (strip k key).
  - exists [], (NValue v). split; [reflexivity|right; left; eauto].
  - exists [], NEmpty. split; [reflexivity|left; reflexivity].
Qed.

Lemma pgood_ext k c : forallb nibbleb k = true -> pgood c -> pgood (NShort k c).
Proof.
  intros Hn Hc key Hk. rewrite pget_short. destruct (strip k key) as [r|] eqn:Hs.
  - apply strip_some in Hs. subst key. apply forallb_nibbles in Hn.
    assert (Rne : r <> []).
    { intros ->. rewrite app_nil_r in Hk. exact (valid_key_not_nibbles k Hk Hn). }
    destruct (valid_key_app_inv k r Hk Rne) as [_ Hr]. apply Hc, Hr.
  - exists [], NEmpty. split; [reflexivity|left; reflexivity].
Qed.

Lemma pgood_full cs c16 : length cs = 16%nat -> Forall pgood cs ->
  (c16 = NEmpty \/ exists v, c16 = NValue v) -> pgood (NFull (cs ++ [c16])).
Proof.
  intros HL Hcs H16 key Hk. destruct key as [|k0 kr]; [destruct Hk|]. rewrite pget_full.
  apply valid_key_cons in Hk as [[-> ->]|[Hk0 Hkr]].
  - change (N.to_nat 16) with 16%nat. rewrite nth_error_app2 by lia. rewrite HL. cbn [Nat.sub nth_error].
    destruct H16 as [->|[v ->]]; cbn [pget].
    + exists [], NEmpty. split; [reflexivity|left; reflexivity].
    + exists [], (NValue v). split; [reflexivity|right; left; eauto].
  - rewrite nth_error_app1 by lia.
    destruct (nth_error cs (N.to_nat k0)) as [c|] eqn:Ec.
    2:{ apply nth_error_None in Ec. lia. }
    rewrite Forall_forall in Hcs. apply (Hcs c (nth_error_In _ _ Ec)), Hkr.
Qed.

Lemma ref_len_cases {A} (n : nat) (a b c : A) :
  match n with O => a | 32%nat => b | _ => c end =
  if Nat.eqb n 0 then a else if Nat.eqb n 32 then b else c.
Proof. do 33 (destruct n as [|n]; [reflexivity|]). reflexivity. Qed.

Lemma decode_pgood f : forall buf n, bytesb buf = true -> decode_node_f f buf = DOk n -> pgood n.
Proof.
  induction f as [|f IH]; intros buf n Hb Hd.
  { Transparent decode_node_f. discriminate Hd. Opaque decode_node_f. }
  rewrite decode_node_f_S in Hd. destruct buf as [|b0 buf']; [discriminate|].
  set (buf := b0 :: buf') in *.
  destruct (split_list buf) as [[elems rest0]|] eqn:Esl; [|discriminate].
  assert (He : bytesb elems = true).
  { unfold split_list in Esl. destruct (Raw.split buf) as [[[k c] r]|] eqn:E; [|discriminate].
    destruct k; try discriminate. inversion Esl; subst. exact (proj1 (split_bytes _ _ _ _ Hb E)). }
  destruct (count_values elems) as [c [e|]]; [discriminate|].
  (* decodeRef yields a good child and leaves bytes *)
  assert (Href : forall b c' r, bytesb b = true -> dref f b = DOk (c', r) -> pgood c' /\ bytesb r = true).
  { intros b c' r Hbb. unfold dref. destruct (Raw.split b) as [[[k v] r']|] eqn:E; [|discriminate].
    destruct (split_bytes b k v r' Hbb E) as [_ Hr'].
    destruct k.
    - rewrite ref_len_cases. destruct (Nat.eqb (length v) 0); [intros X; inversion X; subst; split; [apply pgood_empty|exact Hr']|].
      destruct (Nat.eqb (length v) 32); [intros X; inversion X; subst; split; [apply pgood_hash|exact Hr']|discriminate].
    - rewrite ref_len_cases. destruct (Nat.eqb (length v) 0); [intros X; inversion X; subst; split; [apply pgood_empty|exact Hr']|].
      destruct (Nat.eqb (length v) 32); [intros X; inversion X; subst; split; [apply pgood_hash|exact Hr']|discriminate].
    - cbv zeta. destruct (Nat.leb 32 (length b - length r')); [discriminate|].
      destruct (decode_node_f f b) as [n'|] eqn:En; [|discriminate].
      intros X; inversion X; subst. split; [exact (IH _ _ Hbb En)|exact Hr']. }
  unfold dbody in Hd. destruct (c =? 2).
  - destruct (split_string elems) as [[kbuf rest]|] eqn:Ess; [|discriminate].
    destruct (split_string_bytes _ _ _ He Ess) as [Hkb Hrest]. cbv zeta in Hd.
    pose proof (compact_to_hex_wf kbuf Hkb) as Hwf.
    destruct (has_term (compact_to_hex kbuf)) eqn:Ht.
    + destruct (split_string rest) as [[val r]|]; [|discriminate]. inversion Hd; subst. apply pgood_leaf.
    + destruct (dref f rest) as [[r x]|] eqn:Er; [|discriminate]. inversion Hd; subst.
      apply pgood_ext; [|exact (proj1 (Href _ _ _ Hrest Er))].
      unfold wf_hex in Hwf. rewrite Ht in Hwf. exact Hwf.
  - destruct (c =? 17); [|discriminate].
    assert (Hch : forall i b cs r, bytesb b = true -> dchildren f i b = DOk (cs, r) ->
                    length cs = i /\ Forall pgood cs /\ bytesb r = true).
    { induction i as [|i IHi]; intros b cs r Hbb Hc.
      - inversion Hc; subst. repeat split; [constructor|exact Hbb].
      - rewrite dchildren_S in Hc. destruct (dref f b) as [[cld rest]|] eqn:Er; [|discriminate].
        destruct (Href _ _ _ Hbb Er) as [Hg Hrb].
        destruct (dchildren f i rest) as [[l rest']|] eqn:Ec; [|discriminate].
        inversion Hc; subst. destruct (IHi _ _ _ Hrb Ec) as (HL & Hall & Hr).
        repeat split; [cbn [length]; lia|constructor; assumption|exact Hr]. }
    destruct (dchildren f 16 elems) as [[cs rest]|] eqn:Ec; [|discriminate].
    destruct (Hch _ _ _ _ He Ec) as (HL & Hall & _).
    destruct (split_string rest) as [[val r]|]; [|discriminate]. inversion Hd; subst.
    apply pgood_full; [exact HL|exact Hall|]. destruct val; [left; reflexivity|right; eauto].
Qed.

(* verify_never_panics: for EVERY database of byte strings (also one that is not
   keyed by hash), every root and every byte key, no index-out-of-range or
   unexpected node type *)
Theorem verify_never_panics db root key :
  (forall k b, In (k, b) db -> bytesb b = true) -> forallb byteb key = true ->
  verify_proof root key db <> VErr VPanic.
Proof.
  intros Hdb Hkey. unfold verify_proof. pose proof (keybytes_to_hex_valid key Hkey) as Hk.
  generalize (verify_fuel (keybytes_to_hex key) db) as f. generalize 0%nat as i. revert Hk.
  generalize (keybytes_to_hex key) as k. generalize root as want.
  intros want k Hk i f. revert want k Hk i.
  induction f as [|f IH]; intros want k Hk i; [discriminate|].
  rewrite verify_f_S. destruct (db_get db want) as [buf|] eqn:G; [|discriminate].
  apply db_get_in in G. specialize (Hdb _ _ G).
  destruct (proof_decode buf) as [n|] eqn:D; [|discriminate].
  destruct (decode_pgood _ _ _ Hdb D k Hk) as (kr & cld & -> & [->|[[v ->]|(h & -> & Hkr)]]);
    try discriminate. apply IH, Hkr.
Qed.

(* ------------------------------------------------------------------ decodeNode's fuel is never exhausted *)

Lemma split_len b k c r : bytesb b = true -> Raw.split b = Ok (k, c, r) ->
  (length c + length r <= length b)%nat /\ (k = KList -> length c + length r < length b)%nat.
Proof.
  intros Hb Hs. destruct (split_sound b k c r Hb Hs) as [E _]. subst b.
  rewrite app_length, chunk_len. split; [lia|]. intros ->.
  pose proof (hdr_ge1 KList c ltac:(discriminate)). lia.
Qed.

Lemma split_string_len b c r : bytesb b = true -> split_string b = Ok (c, r) ->
  (length r <= length b)%nat.
Proof.
  intros Hb. unfold split_string. destruct (Raw.split b) as [[[k c'] r']|] eqn:E; [|discriminate].
  pose proof (split_len b k c' r' Hb E) as [L _].
  destruct k; try discriminate; intros Hs; inversion Hs; subst; lia.
Qed.

(* a fuel failure of decodeRef comes from an embedded list shorter than 32 bytes *)
Lemma dref_fuel g b : dref g b = DErr DFuel ->
  exists v r, Raw.split b = Ok (KList, v, r) /\ (length b - length r < 32)%nat /\
              decode_node_f g b = DErr DFuel.
Proof.
  unfold dref. destruct (Raw.split b) as [[[k v] r]|] eqn:E; [|discriminate].
  destruct k.
  - rewrite ref_len_cases. destruct (Nat.eqb (length v) 0); [discriminate|].
    destruct (Nat.eqb (length v) 32); discriminate.
  - rewrite ref_len_cases. destruct (Nat.eqb (length v) 0); [discriminate|].
    destruct (Nat.eqb (length v) 32); discriminate.
  - cbv zeta. destruct (Nat.leb_spec 32 (length b - length r)); [discriminate|].
    destruct (decode_node_f g b) as [n|e] eqn:D; [discriminate|].
    intros X; inversion X; subst. exists v, r. auto.
Qed.

Lemma dref_bytes_len g b c r : bytesb b = true -> dref g b = DOk (c, r) ->
  bytesb r = true /\ (length r <= length b)%nat.
Proof.
  intros Hb. unfold dref. destruct (Raw.split b) as [[[k v] r']|] eqn:E; [|discriminate].
  destruct (split_bytes b k v r' Hb E) as [_ Hr']. pose proof (split_len b k v r' Hb E) as [L _].
  destruct k.
  - rewrite ref_len_cases. destruct (Nat.eqb (length v) 0); [intros X; inversion X; subst; split; [auto|lia]|].
    destruct (Nat.eqb (length v) 32); [intros X; inversion X; subst; split; [auto|lia]|discriminate].
  - rewrite ref_len_cases. destruct (Nat.eqb (length v) 0); [intros X; inversion X; subst; split; [auto|lia]|].
    destruct (Nat.eqb (length v) 32); [intros X; inversion X; subst; split; [auto|lia]|discriminate].
  - cbv zeta. destruct (Nat.leb 32 (length b - length r')); [discriminate|].
    destruct (decode_node_f g b); [|discriminate]. intros X; inversion X; subst. split; [auto|lia].
Qed.

Lemma dchildren_fuel g : forall i b, bytesb b = true -> dchildren g i b = DErr DFuel ->
  exists b', bytesb b' = true /\ (length b' <= length b)%nat /\ dref g b' = DErr DFuel.
Proof.
  induction i as [|i IH]; intros b Hb Hd; [discriminate|].
  rewrite dchildren_S in Hd. destruct (dref g b) as [[cld rest]|e] eqn:Er.
  - destruct (dref_bytes_len g b cld rest Hb Er) as [Hr Lr].
    destruct (dchildren g i rest) as [[l rest']|e] eqn:Ec; [discriminate|].
    inversion Hd; subst. destruct (IH rest Hr Ec) as (b' & Hb' & L' & D'). exists b'. split; [auto|split; [lia|auto]].
  - inversion Hd; subst. exists b. auto.
Qed.

(* where a fuel failure of one decodeNode level comes from *)
Lemma decode_fuel_step g b : bytesb b = true -> decode_node_f (S g) b = DErr DFuel ->
  exists elems rest b', split_list b = Ok (elems, rest) /\ bytesb b' = true /\
    (length b' <= length elems)%nat /\ dref g b' = DErr DFuel.
Proof.
  intros Hb Hd. rewrite decode_node_f_S in Hd. destruct b as [|b0 bt]; [discriminate|].
  set (b := b0 :: bt) in *.
  destruct (split_list b) as [[elems rest0]|] eqn:Esl; [|discriminate].
  assert (He : bytesb elems = true).
  { unfold split_list in Esl. destruct (Raw.split b) as [[[k c] r]|] eqn:E; [|discriminate].
    destruct k; try discriminate. inversion Esl; subst. exact (proj1 (split_bytes _ _ _ _ Hb E)). }
  exists elems, rest0. destruct (count_values elems) as [c [e|]]; [discriminate|].
  unfold dbody in Hd. destruct (c =? 2).
  - destruct (split_string elems) as [[kbuf rest]|] eqn:Ess; [|discriminate].
    destruct (split_string_bytes _ _ _ He Ess) as [_ Hrest].
    pose proof (split_string_len _ _ _ He Ess) as Lrest. cbv zeta in Hd.
    destruct (has_term (compact_to_hex kbuf)).
    + destruct (split_string rest) as [[val r]|]; discriminate.
    + destruct (dref g rest) as [[r x]|e] eqn:Er; [discriminate|]. inversion Hd; subst.
      exists rest. auto.
  - destruct (c =? 17); [|discriminate].
    destruct (dchildren g 16 elems) as [[cs rest]|e] eqn:Ec.
    + destruct (split_string rest) as [[val r]|]; discriminate.
    + inversion Hd; subst. destruct (dchildren_fuel g 16 elems He Ec) as (b' & Hb' & L' & D').
      exists b'. auto.
Qed.

Lemma decode_fuel_bound f : forall b, bytesb b = true -> decode_node_f (S f) b = DErr DFuel ->
  exists elems rest, split_list b = Ok (elems, rest) /\ (f <= length elems)%nat.
Proof.
  induction f as [|f IH]; intros b Hb Hd;
    destruct (decode_fuel_step _ b Hb Hd) as (elems & rest & b' & Esl & Hb' & L' & D');
    exists elems, rest; (split; [exact Esl|]); [lia|].
  destruct (dref_fuel _ b' D') as (v & r & Es & _ & Dn).
  destruct (IH b' Hb' Dn) as (elems' & rest' & Esl' & Lf).
  unfold split_list in Esl'. rewrite Es in Esl'. inversion Esl'; subst.
  pose proof (split_len b' KList elems' rest' Hb' Es) as [_ L]. specialize (L eq_refl). lia.
Qed.

(* proof_decode_no_fuel: the nesting fuel of decodeNode is never exhausted on a byte string *)
Theorem proof_decode_no_fuel buf : bytesb buf = true -> proof_decode buf <> DErr DFuel.
Proof.
  intros Hb Hd. unfold proof_decode, decode_node in Hd.
  destruct (decode_fuel_step _ buf Hb Hd) as (elems & rest & b' & _ & Hb' & _ & D').
  destruct (dref_fuel _ b' D') as (v & r & Es & Lsz & Dn).
  destruct (decode_fuel_bound _ b' Hb' Dn) as (elems' & rest' & Esl' & Lf).
  unfold split_list in Esl'. rewrite Es in Esl'. inversion Esl'; subst.
  pose proof (split_len b' KList elems' rest' Hb' Es) as [L _]. lia.
Qed.

(* verify_total: on EVERY database of byte strings, every root and byte key, the
   result is a value, "missing node i" or "bad node i" with a genuine decode
   error class — never a panic, never the decoder's fuel; [VLoop] = the Go loop
   does not terminate (needs a reference cycle in the database, see below) *)
Theorem verify_total db root key :
  (forall k b, In (k, b) db -> bytesb b = true) -> forallb byteb key = true ->
  (exists v, verify_proof root key db = VOk v) \/
  (exists i, verify_proof root key db = VErr (VMissing i)) \/
  (exists i e, verify_proof root key db = VErr (VBad i e) /\ e <> DFuel) \/
  verify_proof root key db = VErr VLoop.
Proof.
  intros Hdb Hkey. unfold verify_proof. pose proof (keybytes_to_hex_valid key Hkey) as Hk.
  generalize (verify_fuel (keybytes_to_hex key) db) as f. generalize 0%nat as i. revert Hk.
  generalize (keybytes_to_hex key) as k. generalize root as want.
  intros want k Hk i f. revert want k Hk i.
  induction f as [|f IH]; intros want k Hk i; [right; right; right; reflexivity|].
  rewrite verify_f_S. destruct (db_get db want) as [buf|] eqn:G; [|right; left; eauto].
  apply db_get_in in G. specialize (Hdb _ _ G).
  destruct (proof_decode buf) as [n|e] eqn:D.
  - destruct (decode_pgood _ _ _ Hdb D k Hk) as (kr & cld & -> & [->|[[v ->]|(h & -> & Hkr)]]);
      [left; eauto|left; eauto|apply IH, Hkr].
  - right; right; left. exists i, e. split; [reflexivity|]. intros ->.
    exact (proof_decode_no_fuel buf Hdb D).
Qed.

(* the walk does not terminate on a database holding a reference cycle; without
   a hash check such a database is easy to write down (mis-keyed), with a hash-keyed
   one it needs a Keccak cycle *)
Example verify_loops_on_cycle :
  let root := repeat 17 32 in
  verify_proof root [1; 2] [(root, [226; 0; 160] ++ root)] = VErr VLoop.
Proof. vm_compute. reflexivity. Qed.

(* ------------------------------------------------------------------ boolean checkers (for concrete instances) *)

Definition smallb (l : list N) : bool := lenN l <? 2 ^ 32.
Definition val_okb (v : list N) : bool := match v with [] => false | _ => smallb v end.
Fixpoint valid_keyb (k : list N) : bool :=
  match k with
  | [] => false
  | x :: r => match r with [] => x =? 16 | _ => (x <? 16) && valid_keyb r end
  end.
Definition slot16b (c : node) : bool :=
  match c with NEmpty => true | NValue v => val_okb v | _ => false end.

Fixpoint pwfb (n : node) : bool :=
  match n with
  | NShort k c =>
      match c with
      | NValue v => valid_keyb k && smallb k && val_okb v
      | _ => forallb nibbleb k && negb (Nat.eqb (length k) 0) && smallb k && pwfb c
      end
  | NFull cs =>
      Nat.eqb (length cs) 17 &&
      (fix go (l : list node) (i : nat) {struct l} : bool :=
         match l with
         | [] => true
         | c :: r =>
             (if Nat.eqb i 16 then slot16b c
              else match c with NEmpty => true | _ => pwfb c end) && go r (S i)
         end) cs O
  | _ => false
  end.

Fixpoint slotsb (l : list node) (i : nat) : bool :=
  match l with
  | [] => true
  | c :: r =>
      (if Nat.eqb i 16 then slot16b c
       else match c with NEmpty => true | _ => pwfb c end) && slotsb r (S i)
  end.

Lemma pwfb_full cs : pwfb (NFull cs) = Nat.eqb (length cs) 17 && slotsb cs 0.
Proof.
  reflexivity.
Qed.

Lemma smallb_small l : smallb l = true -> small l.
Proof. unfold smallb, small. intros Hs. apply N.ltb_lt. exact Hs. Qed.

Lemma val_okb_ok v : val_okb v = true -> val_ok v.
Proof.
  unfold val_okb, val_ok. destruct v; [discriminate|]. intros Hs. split; [discriminate|apply smallb_small, Hs].
Qed.

Lemma valid_keyb_valid k : valid_keyb k = true -> valid_key k.
Proof.
  induction k as [|x k IH]; [discriminate|]. intros Hv. apply valid_key_cons. cbn [valid_keyb] in Hv.
  destruct k as [|y k].
  - left. split; [apply N.eqb_eq, Hv|reflexivity].
  - apply andb_true_iff in Hv as [Hx Hr]. right. split; [apply N.ltb_lt, Hx|apply IH, Hr].
Qed.

Lemma slotsb_spec l : forall i, slotsb l i = true ->
  forall j c, nth_error l j = Some c ->
    if Nat.eqb (i + j) 16 then slot16b c = true else (c = NEmpty \/ (c <> NEmpty /\ pwfb c = true)).
Proof.
  induction l as [|c0 l IH]; intros i Hs j c Hj; [destruct j; discriminate|].
  cbn [slotsb] in Hs. apply andb_true_iff in Hs as [H0 Hr]. destruct j as [|j].
  - inversion Hj; subst. rewrite Nat.add_0_r. destruct (Nat.eqb i 16); [exact H0|].
    destruct c; [left; reflexivity|right; split; [discriminate|exact H0]..].
  - replace (i + S j)%nat with (S i + j)%nat by lia. apply (IH (S i) Hr j c Hj).
Qed.

Lemma pwfb_sound n : pwfb n = true -> pwf n.
Proof.
  induction n as [| |k c IH|cs IH|] using node_ind'; intros Hb; try discriminate.
  - cbn [pwfb] in Hb. destruct c as [|v|k' c'|cs'|h].
    + repeat (apply andb_true_iff in Hb as [Hb ?]). discriminate.
    + apply andb_true_iff in Hb as [Hb Hv]. apply andb_true_iff in Hb as [Hk Hs].
      apply pwf_leaf; [apply valid_keyb_valid, Hk|apply smallb_small, Hs|apply val_okb_ok, Hv].
    + apply andb_true_iff in Hb as [Hb Hc]. apply andb_true_iff in Hb as [Hb Hs].
      apply andb_true_iff in Hb as [Hn Hne].
      apply pwf_ext; [apply forallb_nibbles, Hn| |apply smallb_small, Hs|apply IH, Hc].
      intros ->. discriminate.
    + apply andb_true_iff in Hb as [Hb Hc]. apply andb_true_iff in Hb as [Hb Hs].
      apply andb_true_iff in Hb as [Hn Hne].
      apply pwf_ext; [apply forallb_nibbles, Hn| |apply smallb_small, Hs|apply IH, Hc].
      intros ->. discriminate.
    + repeat (apply andb_true_iff in Hb as [Hb ?]). discriminate.
  - rewrite pwfb_full in Hb. apply andb_true_iff in Hb as [HL Hs]. apply Nat.eqb_eq in HL.
    pose proof (slotsb_spec cs 0 Hs) as Sp. apply pwf_full; [exact HL| |].
    + intros i c Hc Hi. specialize (Sp i c Hc). cbn [Nat.add] in Sp.
      destruct (Nat.eqb_spec i 16); [lia|]. destruct Sp as [->|[_ Hp]]; [left; reflexivity|right].
      rewrite Forall_forall in IH. apply IH; [eapply nth_error_In; exact Hc|exact Hp].
    + intros c Hc. specialize (Sp 16%nat c Hc). cbn [Nat.add Nat.eqb] in Sp.
      destruct c; try discriminate; [left; reflexivity|right]. eexists. split; [reflexivity|apply val_okb_ok, Sp].
Qed.

(* H is injective on a concrete list of encodings *)
Definition inj_onb (H : list N -> list N) (l : list (list N)) : bool :=
  forallb (fun a => forallb (fun b => implb (bytes_eqb (H a) (H b)) (bytes_eqb a b)) l) l.

Lemma inj_onb_sound H l : inj_onb H l = true -> H_inj_on H (fun e => In e l).
Proof.
  intros Hc a b Ha Hb E. unfold inj_onb in Hc. rewrite forallb_forall in Hc.
  specialize (Hc a Ha). rewrite forallb_forall in Hc. specialize (Hc b Hb).
  rewrite E, bytes_eqb_refl in Hc. cbn [implb] in Hc. apply bytes_eqb_eq, Hc.
Qed.

(* the encodings of all nodes of a trie, as a list *)
Fixpoint somes {A} (l : list (option A)) : list A :=
  match l with [] => [] | Some a :: r => a :: somes r | None :: r => somes r end.
Definition encs_of (H : list N -> list N) (t : node) : list (list N) :=
  somes (map (node_enc H) (nodes_of t)).

Lemma genuine_encs_of H t e : genuine H t e -> In e (encs_of H t).
Proof.
  intros (c & Hc & Ec). unfold encs_of. induction (nodes_of t) as [|x l IH]; [destruct Hc|].
  cbn [map somes]. destruct Hc as [->|Hc].
  - rewrite Ec. left. reflexivity.
  - destruct (node_enc H x); [right|]; apply IH, Hc.
Qed.

(* ------------------------------------------------------------------ canonical tries (C06) are well-formed *)

(* the size/value guard on its own *)
Fixpoint sized (n : node) : Prop :=
  match n with
  | NValue v => val_ok v
  | NShort k c => small k /\ sized c
  | NFull cs =>
      (fix all (l : list node) : Prop :=
         match l with [] => True | c :: r => sized c /\ all r end) cs
  | _ => True
  end.

Lemma sized_full cs : sized (NFull cs) <-> Forall sized cs.
Proof.
  cbn [sized]. induction cs as [|c cs IH]; [split; constructor|].
  split.
  - intros [Hc Hr]. constructor; [exact Hc|apply IH, Hr].
  - intros Hf. inversion Hf; subst. split; [assumption|apply IH; assumption].
Qed.

(* every canonical trie (what Update/Delete histories build: OpsProofs.can, C06)
   with non-empty values and keys/values below the size guard is [pwf] *)
Theorem can_pwf n : can n -> sized n -> pwf n.
Proof.
  induction n as [| |k c IH|cs IH|] using node_ind'; intros Hc Hs; try solve [inversion Hc].
  - destruct Hs as [Sk Sc]. inversion Hc as [k0 v Hk|k0 cs0 Hk Kne Hcf|]; subst.
    + apply pwf_leaf; [exact Hk|exact Sk|exact Sc].
    + apply pwf_ext; [exact Hk|exact Kne|exact Sk|apply IH; assumption].
  - apply sized_full in Hs. rewrite Forall_forall in Hs, IH.
    inversion Hc as [| |cs0 HL Hch H16 Hcnt]; subst. apply pwf_full; [exact HL| |].
    + intros i c Hi Hlt. destruct (Hch i c Hi Hlt) as [->|Hcc]; [left; reflexivity|right].
      pose proof (nth_error_In _ _ Hi) as Hin. apply IH; [exact Hin|exact Hcc|apply Hs, Hin].
    + intros c Hi. destruct (H16 c Hi) as [->|[v ->]]; [left; reflexivity|right].
      exists v. split; [reflexivity|]. exact (Hs _ (nth_error_In _ _ Hi)).
Qed.

(* ------------------------------------------------------------------ a concrete instance (non-vacuity) *)

(* a 32-byte "hash" good enough to be collision free on the example's five
   encodings (NOT in general): the first 32 bytes, zero padded *)
Definition toy_hash (x : list N) : list N := firstn 32 (x ++ repeat 0 32).
Lemma toy_hash_len x : length (toy_hash x) = 32%nat.
Proof. unfold toy_hash. rewrite firstn_length, app_length, repeat_length. lia. Qed.

(* extension [0;a] -> branch { 4: leaf [1] -> 40-byte value (hashed node),
                                7: leaf [3] -> 2-byte value (embedded node),
                                value slot: [5] } *)
Definition ex_leaf_a : node := NShort [1; 16] (NValue (repeat 7 40)).
Definition ex_leaf_b : node := NShort [3; 16] (NValue [9; 9]).
Definition ex_branch : node :=
  NFull [NEmpty; NEmpty; NEmpty; NEmpty; ex_leaf_a; NEmpty; NEmpty; ex_leaf_b;
         NEmpty; NEmpty; NEmpty; NEmpty; NEmpty; NEmpty; NEmpty; NEmpty; NValue [5]].
Definition ex_trie : node := NShort [0; 10] ex_branch.
Definition ex_keys : list (list N) := [[10; 65]; [10; 115]; [10]; [10; 66]; [11]; []].

(* everything the theorems promise, evaluated on the instance: hashed and
   embedded nodes both occur; every key (present or absent) proves and verifies
   to the lookup; deleting the last proof node gives an error *)
Definition ex_check : bool :=
  let encs := encs_of toy_hash ex_trie in
  existsb (fun e => Nat.leb 32 (length e)) encs &&
  existsb (fun e => Nat.ltb (length e) 32) encs &&
  match hash_root toy_hash ex_trie with
  | None => false
  | Some r =>
      forallb (fun key =>
        match prove toy_hash (fun _ _ => None) ex_trie key with
        | TOk db =>
            match verify_proof r key db, lk ex_trie (keybytes_to_hex key) with
            | VOk (Some a), Some b => bytes_eqb a b
            | VOk None, None => true
            | _, _ => false
            end &&
            match verify_proof r key (removelast db) with VErr (VMissing _) => true | _ => false end
        | TErr _ => false
        end) ex_keys
  end &&
  match lk ex_trie (keybytes_to_hex [10; 65]), lk ex_trie (keybytes_to_hex [10; 66]) with
  | Some _, None => true
  | _, _ => false
  end.

Lemma ex_hypotheses :
  (forall x, length (toy_hash x) = 32%nat) /\
  H_inj_on toy_hash (fun e => In e (encs_of toy_hash ex_trie)) /\
  pwf ex_trie /\
  (forall e, genuine toy_hash ex_trie e -> In e (encs_of toy_hash ex_trie)) /\
  Forall (fun key => forallb byteb key = true) ex_keys /\
  ex_check = true.
Proof.
  split; [exact toy_hash_len|]. split; [apply inj_onb_sound; vm_compute; reflexivity|].
  split; [apply pwfb_sound; vm_compute; reflexivity|].
  split; [exact (genuine_encs_of toy_hash ex_trie)|].
  split; [repeat constructor|vm_compute; reflexivity].
Qed.

(* ------------------------------------------------------------------ 2n+1 loop iterations are needed: the comb *)

(* another toy hash (64-bit polynomial, zero padded to 32 bytes); the check below
   verifies that the proof's node hashes are pairwise distinct *)
Definition mask64 : N := Eval vm_compute in 2 ^ 64 - 1.
Definition poly_hash (x : list N) : list N :=
  let v := fold_left (fun a b => N.land (a * 1000003 + b + 1) mask64) x 0 in
  let b := be_bytes v in repeat 0 (32 - length b) ++ b.

Fixpoint pack_nibbles (l : list N) : list N :=
  match l with a :: b :: r => (a * 16 + b) :: pack_nibbles r | _ => [] end.
Definition comb_key (m : nat) (i : option nat) : list N :=
  pack_nibbles (match i with
                | None => repeat 1 m
                | Some i => repeat 1 i ++ [2] ++ repeat 1 (m - i - 1)
                end).
Definition comb_kvs (n : nat) : list (list N * list N) :=
  (comb_key (2 * n) None, repeat 7 29) ::
  map (fun i => (comb_key (2 * n) (Some i), repeat (N.of_nat i + 8) 30)) (seq 0 (2 * n)).
Definition comb_trie (n : nat) : node :=
  match update_seq (fun _ _ => None) NEmpty (comb_kvs n) with TOk (t, _) => t | TErr _ => NEmpty end.

Fixpoint distinctb (l : list (list N)) : bool :=
  match l with [] => true | x :: r => negb (existsb (bytes_eqb x) r) && distinctb r end.
Definition comb_check (n : nat) : bool :=
  let t := comb_trie n in
  let key := comb_key (2 * n) None in
  let k := keybytes_to_hex key in
  match hash_root poly_hash t, prove poly_hash (fun _ _ => None) t key with
  | Some r, TOk db =>
      pwfb t && Nat.eqb (length db) (2 * n + 1) && distinctb (map fst db) &&
      match verify_f (2 * n + 1) db r k 0 with VOk (Some v) => bytes_eqb v (repeat 7 29) | _ => false end &&
      match verify_f (2 * n) db r k 0 with VErr VLoop => true | _ => false end &&
      match verify_proof r key db with VOk (Some v) => bytes_eqb v (repeat 7 29) | _ => false end
  | _, _ => false
  end.

(* the comb over an n-byte key: one sibling per nibble depth, values >= 29 bytes so
   that nothing embeds.  Prove emits exactly 2n+1 nodes (a branch per nibble and
   the terminator-only leaf, pairwise distinct hashes); the loop of VerifyProof
   returns the value with bound 2n+1 and runs out ([VLoop]) with bound 2n:
   the bound of completeness_fuel is tight, for n = 2 and for 32-byte keys (65 nodes) *)
Example comb_tight : comb_check 2 = true /\ comb_check 32 = true.
Proof. split; vm_compute; reflexivity. Qed.
