(* Trie/ProofProofs.v — lemmas about Trie/Proof.v (C08):
     decode_enc      decoding a genuine node encoding gives the node with every
                     child >= 32 bytes collapsed to its hash reference
     walk            VerifyProof on a database that answers genuine hashes only
                     with the genuine encoding follows the trie's own path
     completeness / soundness / verify_never_panics / proof_decode_no_fuel.
   The hash function is a Section variable with named hypotheses. *)
From GV Require Import Lib.Tactics Lib.Bytes Lib.BytesProofs Rlp.Item Rlp.Raw Rlp.Codec Rlp.RawProofs Rlp.CodecProofs.
From GV Require Import Trie.Hex Trie.HexProofs Trie.Node Trie.Ops Trie.Hash Trie.OpsProofs Trie.Proof Trie.ProofDecodeProofs.
Local Open Scope N_scope.

(* ------------------------------------------------------------------ well-formed in-memory tries *)

(* the size guard: keys and values shorter than 2^32 (Go slices; keeps every
   RLP length below 2^64) *)
Definition small (l : list N) : Prop := lenN l < 2 ^ 32.
Definition val_ok (v : list N) : Prop := v <> [] /\ small v.

(* a resolved (hash-node free) trie node as Update builds them: OpsProofs.wfn
   plus non-empty values (Update with an empty value deletes) and the size guard *)
Inductive pwf : node -> Prop :=
| pwf_leaf k v : valid_key k -> small k -> val_ok v -> pwf (NShort k (NValue v))
| pwf_ext k c : nibbles k -> k <> [] -> small k -> pwf c -> pwf (NShort k c)
| pwf_full cs :
    length cs = 17%nat ->
    (forall i c, nth_error cs i = Some c -> (i < 16)%nat -> c = NEmpty \/ pwf c) ->
    (forall c, nth_error cs 16 = Some c -> c = NEmpty \/ exists v, c = NValue v /\ val_ok v) ->
    pwf (NFull cs).

Lemma pwf_shape n : pwf n -> (exists k c, n = NShort k c) \/ (exists cs, n = NFull cs).
Proof. intros []; [left|left|right]; eauto. Qed.

Lemma split17 {A} (cs : list A) : length cs = 17%nat ->
  exists l c, cs = l ++ [c] /\ length l = 16%nat.
Proof.
  intros HL. rewrite <- (firstn_skipn 16 cs). exists (firstn 16 cs).
  assert (L1 : length (skipn 16 cs) = 1%nat) by (rewrite skipn_length; lia).
  destruct (skipn 16 cs) as [|c [|? ?]]; try discriminate.
  exists c. split; [reflexivity|]. rewrite firstn_length. lia.
Qed.

Lemma vk_snoc k : valid_key k -> exists p, k = p ++ [16] /\ nibbles p.
Proof.
  induction k as [|x k IH]; intros Hk; [destruct Hk|].
  apply valid_key_cons in Hk as [[-> ->]|[Hx Hk]].
  - exists []. split; [reflexivity|constructor].
  - destruct (IH Hk) as [p [-> Hp]]. exists (x :: p). split; [reflexivity|constructor; assumption].
Qed.

Lemma nibbles_forallb k : nibbles k -> forallb nibbleb k = true.
Proof.
  intros Hn. apply forallb_forall. intros x Hx. unfold nibbles in Hn. rewrite Forall_forall in Hn.
  specialize (Hn x Hx). unfold nibbleb. lia.
Qed.

Lemma valid_key_wf_hex k : valid_key k -> wf_hex k = true.
Proof.
  intros Hk. destruct (vk_snoc k Hk) as [p [-> Hp]].
  unfold wf_hex. rewrite has_term_app_16, removelast_last. apply nibbles_forallb, Hp.
Qed.

Lemma nibbles_wf_hex k : nibbles k -> wf_hex k = true.
Proof.
  intros Hk. unfold wf_hex. rewrite (has_term_nib_false _ (nibbles_forallb _ Hk)).
  apply nibbles_forallb, Hk.
Qed.

Lemma valid_key_has_term k : valid_key k -> has_term k = true.
Proof. intros Hk. destruct (vk_snoc k Hk) as [p [-> _]]. apply has_term_app_16. Qed.

Lemma hex_to_compact_len h c : hex_to_compact h = Some c -> (length c <= length h + 1)%nat.
Proof.
  unfold hex_to_compact.
  set (h1 := if has_term h then removelast h else h).
  assert (L : (length h1 <= length h)%nat).
  { unfold h1. destruct (has_term h); [|lia]. destruct h as [|x h]; [simpl; lia|].
    rewrite removelast_firstn_len. rewrite firstn_length. lia. }
  destruct (Nat.odd (length h1)).
  - destruct h1 as [|h0 rest]; [discriminate|].
    destruct (decode_nibbles rest) as [t|] eqn:D; [|discriminate].
    intros E; inversion E; subst. apply decode_length in D. simpl in *. lia.
  - destruct (decode_nibbles h1) as [t|] eqn:D; [|discriminate].
    intros E; inversion E; subst. apply decode_length in D. simpl in *. lia.
Qed.

(* ------------------------------------------------------------------ small RLP facts *)

Definition cat (vs : list (kind * list N)) : list N := flat_map (fun v => chunk (fst v) (snd v)) vs.
Definition vs_ok (vs : list (kind * list N)) : Prop := Forall (fun v => chunk_ok (fst v) (snd v)) vs.

Lemma cat_cons k c vs : cat ((k, c) :: vs) = chunk k c ++ cat vs.
Proof. reflexivity. Qed.
Lemma cat_app a b : cat (a ++ b) = cat a ++ cat b.
Proof. unfold cat. apply flat_map_app. Qed.

Lemma split_string_enc_str b r : lenN b < 2 ^ 64 -> split_string (enc_str b ++ r) = Ok (b, r).
Proof.
  intros Hb. rewrite enc_str_chunk. unfold split_string.
  rewrite (split_complete _ _ _ (str_chunk_ok b Hb)).
  pose proof (str_kind_not_list b). destruct (str_kind b); congruence.
Qed.

Lemma str_kind_long b : (2 <= length b)%nat -> str_kind b = KString.
Proof. destruct b as [|x [|y t]]; simpl; intros; try lia; reflexivity. Qed.

Lemma list_wrap_chunk p : list_wrap p = chunk KList p.
Proof. reflexivity. Qed.

Lemma chunk_nonempty k c : k <> KByte -> chunk k c <> [].
Proof.
  intros Hk E. pose proof (hdr_len_pos k c Hk) as L. unfold chunk in E.
  apply (f_equal (@length N)) in E. rewrite app_length in E. unfold lenN in L. simpl in E. lia.
Qed.

Lemma decode_chunk f pc r : lenN pc < 2 ^ 64 ->
  decode_node_f (S f) (chunk KList pc ++ r) =
  match count_values pc with
  | (_, Some e) => DErr (DRlp e)
  | (c, None) => dbody f pc c
  end.
Proof.
  intros Hp. rewrite decode_node_f_S.
  destruct (chunk KList pc ++ r) eqn:E.
  { apply app_eq_nil in E as [E _]. exfalso. revert E. apply chunk_nonempty. discriminate. }
  rewrite <- E. unfold split_list. rewrite split_complete by (split; [exact Hp|exact I]). reflexivity.
Qed.

Lemma chunk_len k c : length (chunk k c) = (length (hdr k c) + length c)%nat.
Proof. unfold chunk. apply app_length. Qed.

Lemma hdr_le9 k c : lenN c < 2 ^ 64 -> (length (hdr k c) <= 9)%nat.
Proof.
  intros Hc. destruct k; cbn [hdr]; [simpl; lia| |];
    pose proof (enc_head_len_le 128 183 _ Hc); pose proof (enc_head_len_le 192 247 _ Hc);
    unfold lenN in *; lia.
Qed.

Lemma hdr_ge1 k c : k <> KByte -> (1 <= length (hdr k c))%nat.
Proof. intros Hk. pose proof (hdr_len_pos k c Hk). unfold lenN in *. lia. Qed.

(* ------------------------------------------------------------------ encoding, then decoding *)

Section Enc.
  Variable H : list N -> list N.
  Hypothesis H_len : forall x, length (H x) = 32%nat.

  (* what the decoder of the parent makes of child [c] ([cc] = collapse c):
     embedded if its encoding is shorter than 32 bytes, else the hash reference *)
  Definition cref (c cc : node) : node :=
    match c with
    | NShort _ _ | NFull _ =>
        match node_enc H c with
        | Some e => if Nat.ltb (length e) 32 then cc else NHash (H e)
        | None => c
        end
    | _ => c
    end.

  (* the node as decodeNode returns it from its own encoding *)
  Fixpoint collapse (n : node) : node :=
    match n with
    | NShort k c => NShort k (cref c (collapse c))
    | NFull cs => NFull (map (fun c => cref c (collapse c)) cs)
    | _ => n
    end.

  (* the loop of encodeFullNode, named; slots 0..15 and slot 16 *)
  Fixpoint enc_go (i : nat) (l : list node) : option (list N) :=
    match l with
    | [] => Some []
    | c :: r =>
        let e :=
          match c with
          | NEmpty => Some [128]
          | _ =>
              if Nat.eqb i 16 then
                match c with
                | NValue [] => Some [128]
                | NValue v => Some (enc_str v)
                | _ => None
                end
              else
                match c with
                | NHash [] => Some [128]
                | NHash h => Some (write_ref h)
                | NShort _ _ | NFull _ =>
                    match node_enc H c with
                    | Some e => Some (write_ref (ref_of_enc H e))
                    | None => None
                    end
                | _ => None
                end
          end in
        match e, enc_go (S i) r with
        | Some a, Some b => Some (a ++ b)
        | _, _ => None
        end
    end.

  Lemma node_enc_full cs :
    node_enc H (NFull cs) =
    match enc_go 0 cs with Some payload => Some (list_wrap payload) | None => None end.
  Proof. reflexivity. Qed.

  Definition slot_enc (c : node) : option (list N) :=
    match c with
    | NEmpty => Some [128]
    | NHash [] => Some [128]
    | NHash h => Some (write_ref h)
    | NShort _ _ | NFull _ =>
        match node_enc H c with
        | Some e => Some (write_ref (ref_of_enc H e))
        | None => None
        end
    | _ => None
    end.
  Definition val_enc (c : node) : option (list N) :=
    match c with
    | NEmpty => Some [128]
    | NValue [] => Some [128]
    | NValue v => Some (enc_str v)
    | _ => None
    end.
  Fixpoint enc16 (l : list node) : option (list N) :=
    match l with
    | [] => Some []
    | c :: r => match slot_enc c, enc16 r with Some a, Some b => Some (a ++ b) | _, _ => None end
    end.

  Lemma enc_go_split l : forall i c16, (i + length l = 16)%nat ->
    enc_go i (l ++ [c16]) =
    match enc16 l, val_enc c16 with Some a, Some b => Some (a ++ b) | _, _ => None end.
  Proof.
    induction l as [|c l IH]; intros i c16 Hi.
    - assert (i = 16%nat) by (simpl in Hi; lia). subst i. cbn [app enc_go enc16 Nat.eqb].
      destruct c16 as [|v|k c|cs|h]; cbn [val_enc]; try reflexivity.
      destruct v; cbn [app]; rewrite ?app_nil_r; reflexivity.
    - cbn [app enc_go enc16]. rewrite IH by (simpl in Hi; lia).
      assert (Nat.eqb i 16 = false) as -> by (apply Nat.eqb_neq; simpl in Hi; lia).
      replace (match c with NEmpty => Some [128] | _ => _ end) with (slot_enc c)
        by (destruct c; reflexivity).
      destruct (slot_enc c) as [a|]; [|reflexivity].
      destruct (enc16 l) as [b|]; [|reflexivity].
      destruct (val_enc c16) as [d|]; [|reflexivity]. rewrite app_assoc. reflexivity.
  Qed.

  Lemma node_enc_short_leaf k v : has_term k = true ->
    node_enc H (NShort k (NValue v)) =
    match hex_to_compact k with
    | Some ck => Some (list_wrap (enc_str ck ++ enc_str v))
    | None => None
    end.
  Proof. intros Ht. cbn [node_enc]. rewrite Ht. destruct (hex_to_compact k); reflexivity. Qed.

  Lemma node_enc_short_ext k c : has_term k = false ->
    (exists k' c', c = NShort k' c') \/ (exists cs, c = NFull cs) ->
    node_enc H (NShort k c) =
    match hex_to_compact k, slot_enc c with
    | Some ck, Some b =>
        match c with NShort _ _ | NFull _ => Some (list_wrap (enc_str ck ++ b)) | _ => None end
    | _, _ => None
    end.
  Proof.
    intros Ht Hc. cbn [node_enc]. rewrite Ht. destruct (hex_to_compact k) as [ck|]; [|reflexivity].
    destruct Hc as [(k' & c' & ->)|(cs & ->)]; cbn [slot_enc];
      match goal with |- context [node_enc H ?x] => destruct (node_enc H x) end; reflexivity.
  Qed.

  (* [n] encodes to a list chunk that decodes (with any trailing bytes, as an
     embedded node is decoded) to [collapse n] *)
  Definition egood (n : node) : Prop :=
    exists pc, node_enc H n = Some (chunk KList pc) /\ lenN pc < 2 ^ 34 /\
      forall f r, (length (chunk KList pc) < f \/ 33 <= f)%nat ->
        decode_node_f f (chunk KList pc ++ r) = DOk (collapse n).

  (* a child slot 0..15: one canonical chunk of at most 33 bytes that decodeRef
     turns into [cref c (collapse c)] *)
  Definition cgood (c : node) : Prop :=
    exists kc cc, slot_enc c = Some (chunk kc cc) /\ chunk_ok kc cc /\
      (length (chunk kc cc) <= 33)%nat /\
      forall f r, (length (chunk kc cc) < f \/ 32 <= f)%nat ->
        dref f (chunk kc cc ++ r) = DOk (cref c (collapse c), r).

  Lemma cgood_empty : cgood NEmpty.
  Proof.
    exists KString, []. split; [reflexivity|]. split; [split; [cbn; lia|intros x; discriminate]|].
    split; [cbn; lia|]. intros f r _. unfold dref.
    rewrite split_complete by (split; [cbn; lia|intros x; discriminate]). reflexivity.
  Qed.

  Lemma cgood_node c : pwf c -> egood c -> cgood c.
  Proof.
    intros Hw (pc & Ee & Hpc & Hdec).
    assert (Hsl : slot_enc c = Some (write_ref (ref_of_enc H (chunk KList pc)))).
    { destruct (pwf_shape c Hw) as [(k & c' & ->)|(cs & ->)]; cbn [slot_enc]; rewrite Ee; reflexivity. }
    assert (Hcr : cref c (collapse c) =
                  if Nat.ltb (length (chunk KList pc)) 32 then collapse c else NHash (H (chunk KList pc))).
    { destruct (pwf_shape c Hw) as [(k & c' & ->)|(cs & ->)]; unfold cref; rewrite Ee; reflexivity. }
    unfold ref_of_enc, write_ref in Hsl.
    revert Hsl Hcr. destruct (Nat.ltb (length (chunk KList pc)) 32) eqn:L; intros Hsl Hcr.
    - rewrite ?L in Hsl. apply Nat.ltb_lt in L.
      exists KList, pc. split; [exact Hsl|]. split; [split; [lia|exact I]|]. split; [lia|].
      intros f r Hf. rewrite Hcr. unfold dref.
      rewrite split_complete by (split; [lia|exact I]).
      replace (length (chunk KList pc ++ r) - length r)%nat with (length (chunk KList pc))
        by (rewrite app_length; lia).
      destruct (Nat.leb_spec 32 (length (chunk KList pc))); [lia|].
      rewrite Hdec by lia. reflexivity.
    - rewrite H_len in Hsl. cbn [Nat.ltb Nat.leb] in Hsl.
      set (h := H (chunk KList pc)) in *.
      assert (Lh : length h = 32%nat) by apply H_len.
      assert (Kh : str_kind h = KString) by (apply str_kind_long; lia).
      assert (Oh : chunk_ok KString h).
      { rewrite <- Kh. apply str_chunk_ok. unfold lenN. rewrite Lh. cbn. lia. }
      rewrite enc_str_chunk, Kh in Hsl.
      exists KString, h. split; [exact Hsl|]. split; [exact Oh|].
      assert (Lc : length (chunk KString h) = 33%nat).
      { rewrite chunk_len, Lh. cbn [hdr]. unfold lenN. rewrite Lh. reflexivity. }
      split; [lia|]. intros f r _. rewrite Hcr. unfold dref. rewrite split_complete by exact Oh.
      rewrite Lh. reflexivity.
  Qed.

  (* the 16 child slots of a full node *)
  Lemma children_good l : Forall cgood l ->
    exists vs, enc16 l = Some (cat vs) /\ vs_ok vs /\ length vs = length l /\
      (length (cat vs) <= 33 * length l)%nat /\
      forall f r, (length (cat vs) < f \/ 32 <= f)%nat ->
        dchildren f (length l) (cat vs ++ r) = DOk (map (fun c => cref c (collapse c)) l, r).
  Proof.
    induction 1 as [|c l (kc & cc & Es & Ok1 & Len1 & Dec1) _ (vs & Ev & Okv & Lv & Lenv & Decv)].
    - exists []. repeat split; try reflexivity; try constructor. cbn. lia.
    - exists ((kc, cc) :: vs). cbn [enc16]. rewrite Es, Ev, cat_cons.
      split; [reflexivity|]. split; [constructor; assumption|]. split; [cbn [length]; lia|].
      split; [rewrite app_length; cbn [length]; lia|].
      intros f r Hf. cbn [length map]. rewrite dchildren_S, <- app_assoc.
      rewrite app_length in Hf. rewrite Dec1 by lia. rewrite Decv by lia. reflexivity.
  Qed.
End Enc.
