(* Trie/GenerateRoot.v — a successful generate_partition against the WHOLE flat
   state (C11): the partition's builder ends up representing the canonical trie
   of the nibble-stripped corrected accounts whose first nibble is p, and the
   blob handed to assembleRoot is that trie's root node (or nil). *)
From GV Require Import Lib.Tactics Lib.Bytes Rlp.Codec Trie.Hex Trie.HexProofs Trie.Node Trie.Ops Trie.Hash Trie.OpsProofs Trie.Canon Trie.Stack Trie.StackProofs Trie.Commit Trie.CommitProofs Trie.CommitTracer Trie.Generate Trie.GenerateProofs Trie.GenerateWalk Trie.GenerateWalk2 Trie.GenerateWalk3 Trie.GenerateKeys Trie.GenerateAssemble2.
Local Open Scope N_scope.

(* the account parts of sorted storage keys never decrease *)
Lemma firstn_mono n : forall a b, bytes_cmp a b = Lt -> bytes_cmp (firstn n a) (firstn n b) <> Gt.
Proof.
  induction n as [|n IH]; intros a b C; [cbn; discriminate|].
  destruct a as [|x a]; destruct b as [|y b]; cbn in *; try discriminate.
  destruct (N.compare x y); [apply IH; exact C|discriminate|discriminate].
Qed.

Lemma sorted_ndsa (m : amap (list N)) : sorted m -> ndsa m.
Proof.
  induction 1 as [|k v m Hab _ IH]; [exact I|]. split; [|exact IH].
  unfold above in Hab. eapply Forall_impl; [|exact Hab]. intros y Hy. unfold sa. cbn [fst] in *.
  apply firstn_mono. exact Hy.
Qed.

Section Root.
  Variable H : list N -> list N.
  Hypothesis H_len : forall x, length (H x) = 32%nat.

  Record wf_db (db : gdb) : Prop := mkWf {
    wf_sa : sorted (g_accts db);
    wf_ss : sorted (g_stor db);
    wf_ka : wf_accts (g_accts db);
    wf_ks : wf_stor (g_stor db) }.

  (* the accounts of partition p, and the leaves its builder is fed *)
  Definition part (p : N) (db : gdb) : amap (list N) := filter (in_part p) (g_accts db).
  Definition pleaves (db : gdb) (p : N) : list (list N * list N) :=
    map (fun kv => (tl (nibbles_of (fst kv)), leaf H (g_stor db) kv)) (part p db).

  Lemma range_start_len p : length (range_start p) = 32%nat.
  Proof. reflexivity. Qed.

  Lemma part_accs p db : wf_db db ->
    take_le p (seek (range_start p) (g_accts db)) = part p db.
  Proof.
    intros [Hs _ Hw _]. unfold part.
    destruct (seek_suffix (range_start p) (g_accts db)) as (pre & E & Hpre).
    assert (Hw2 : wf_accts (seek (range_start p) (g_accts db))) by (apply Forall_seek; exact Hw).
    rewrite E at 2. rewrite filter_app.
    assert (Hp : filter (in_part p) pre = []).
    { apply filter_nil_of. intros kv Hin. rewrite Forall_forall in Hpre. specialize (Hpre kv Hin).
      assert (Hk : key32 (fst kv)).
      { unfold wf_accts in Hw. rewrite Forall_forall in Hw. apply Hw. rewrite E. apply in_or_app. left. exact Hin. }
      apply (ltb_start p _ Hk) in Hpre. unfold in_part. apply N.eqb_neq. lia. }
    rewrite Hp. cbn [app]. apply take_le_filter; [apply sorted_seek; exact Hs|exact Hw2|].
    rewrite Forall_forall. intros kv Hin.
    pose proof (proj1 (seek_sorted_In (range_start p) (g_accts db) Hs kv (seek_In _ _ _ Hin)) Hin) as Hnl.
    assert (Hk : key32 (fst kv)) by (unfold wf_accts in Hw2; rewrite Forall_forall in Hw2; apply Hw2; exact Hin).
    destruct (N.lt_ge_cases (nib0 (fst kv)) p) as [Hlt|Hge]; [|exact Hge].
    apply (ltb_start p _ Hk) in Hlt. congruence.
  Qed.

  Lemma filter_eq_seek p h db : wf_db db -> key32 h -> nib0 h = p ->
    filter (sa_eq h) (seek (range_start p) (g_stor db)) = filter (sa_eq h) (g_stor db).
  Proof.
    intros [_ _ _ Hw] Hk Hn.
    destruct (seek_suffix (range_start p) (g_stor db)) as (pre & E & Hpre).
    rewrite E at 2. rewrite filter_app.
    assert (Hp : filter (sa_eq h) pre = []).
    { apply filter_nil_of. intros kv Hin. rewrite Forall_forall in Hpre. specialize (Hpre kv Hin).
      assert (Hk64 : length (fst kv) = 64%nat).
      { unfold wf_stor in Hw. rewrite Forall_forall in Hw. apply Hw. rewrite E. apply in_or_app. left. exact Hin. }
      destruct (firstn_skipn_32 (fst kv) Hk64) as (a & s & Ek & La & Hs & Ea).
      assert (C : bytes_cmp (a ++ s) (range_start p) = Lt).
      { rewrite <- Ek. unfold bytes_ltb in Hpre. destruct (bytes_cmp (fst kv) (range_start p)); try discriminate; reflexivity. }
      apply (bcmp_app_lt a (range_start p) s) in C; [|rewrite La; reflexivity|exact Hs].
      unfold sa_eq, sa. rewrite Ea. destruct (bytes_cmp a h) eqn:C2; try reflexivity.
      apply bcmp_eq in C2. rewrite C2 in C.
      assert (Hl : bytes_ltb h (range_start p) = true) by (unfold bytes_ltb; rewrite C; reflexivity).
      apply (ltb_start p h Hk) in Hl. lia. }
    rewrite Hp. reflexivity.
  Qed.

  Lemma leaf_whole p db kv : wf_db db -> key32 (fst kv) -> nib0 (fst kv) = p ->
    leaf H (seek (range_start p) (g_stor db)) kv = leaf H (g_stor db) kv.
  Proof.
    intros Hwf Hk Hn. unfold leaf, corrected, ref_sroot, byte_slots.
    rewrite (filter_eq_seek p (fst kv) db Hwf Hk Hn). reflexivity.
  Qed.

  Lemma rewrites_whole p db kv : wf_db db -> key32 (fst kv) -> nib0 (fst kv) = p ->
    rewrites H (seek (range_start p) (g_stor db)) kv = rewrites H (g_stor db) kv.
  Proof.
    intros Hwf Hk Hn. unfold rewrites, corrected, ref_sroot, byte_slots.
    rewrite (filter_eq_seek p (fst kv) db Hwf Hk Hn). reflexivity.
  Qed.

  Lemma part_key p db kv : wf_db db -> In kv (part p db) -> key32 (fst kv) /\ nib0 (fst kv) = p /\ In kv (g_accts db).
  Proof.
    intros [_ _ Hw _] Hin. unfold part in Hin. apply filter_In in Hin as [Hin Hp].
    unfold wf_accts in Hw. rewrite Forall_forall in Hw. split; [apply Hw; exact Hin|].
    split; [apply N.eqb_eq; exact Hp|exact Hin].
  Qed.

  (* what a successful partition leaves: a canonical trie of its stripped corrected leaves, and its root blob *)
  Definition pspec (db : gdb) (p : N) (r : pres) (t : node) : Prop :=
    canon t /\
    (forall hk, lk t hk = apply_ops (fun _ => None) (hops (pleaves db p)) hk) /\
    Forall (fun kv => full_account H (snd kv) <> None) (part p db) /\
    r_root r = blob_of H t /\
    (t = NEmpty <-> part p db = []).

  Theorem partition_spec sc p db r : wf_db db ->
    generate_partition H sc p db = GOk r -> exists t, pspec db p r t.
  Proof.
    intros Hwf E. unfold generate_partition in E.
    set (accs := seek (range_start p) (g_accts db)) in *.
    set (ss := seek (range_start p) (g_stor db)) in *.
    destruct (acct_loop H sc p accs ss stack_new) as [r0|e] eqn:Ea; [|discriminate].
    destruct (tail_loop p (p_stor r0)) as [wt nt] eqn:Et.
    destruct (st_root_e H (p_trie r0)) as [[hh em]|e] eqn:Er; [|discriminate].
    inversion E; subst r. clear E. cbn [r_root].
    pose proof Hwf as [Hsa Hss Hka Hks].
    destruct (acct_loop_spec H H_len sc p accs ss stack_new NEmpty r0) as ((t' & Hr' & Hc' & L' & Hne') & _ & _ & F' & Em');
      [apply sorted_seek; exact Hsa|apply Forall_seek; exact Hka|apply sorted_ndsa, sorted_seek; exact Hss
      |apply Forall_seek; exact Hks|apply sroot_new|left; reflexivity|exact Ea|].
    assert (Htk : take_le p accs = part p db) by (apply part_accs; exact Hwf).
    assert (Hfed : fed H p accs ss = pleaves db p).
    { unfold fed, pleaves. rewrite Htk. apply map_ext_in. intros kv Hin. f_equal.
      destruct (part_key p db kv Hwf Hin) as (Hk & Hn & _). apply leaf_whole; assumption. }
    exists t'. split; [exact Hc'|]. split.
    { intros hk. rewrite L', Hfed. apply apply_ops_ext. intros k'. apply lk_empty. }
    split.
    { rewrite <- Htk. eapply Forall_impl; [|exact F']. intros kv [_ Hd]. exact Hd. }
    destruct (part p db) as [|x xs] eqn:Ep.
    - (* no account in this partition *)
      assert (Ht : t' = NEmpty).
      { apply canon_unique; [exact Hc'|left; reflexivity|]. intros k _. rewrite L', Hfed. unfold pleaves. rewrite Ep. reflexivity. }
      subst t'. rewrite (Em' Htk).
      pose proof (proj2 (sroot_empty_iff H _ _ _ Hr') eq_refl) as Hst.
      unfold st_root_e in Er. rewrite Hst in Er. cbn in Er. inversion Er; subst. split; [reflexivity|]. tauto.
    - assert (Hne : t' <> NEmpty) by (apply Hne'; right; rewrite Htk; discriminate).
      destruct (root_blob H H_len _ _ _ _ _ Hr' Hne Er) as (em0 & e & -> & Ee & _).
      split.
      + rewrite app_assoc, find_root_last. destruct t'; try congruence; symmetry; exact Ee.
      + split; [intros; congruence|discriminate].
  Qed.
End Root.
