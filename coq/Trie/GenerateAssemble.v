(* Trie/GenerateAssemble.v — proofs about assembleRoot (Trie/Generate.v, C11):
   for every distribution of the state over the sixteen partitions (none, one,
   two or more populated) the assembled root is the root hash of THE canonical
   trie whose content is the union of the partition subtries, the node written
   at the empty path is that trie's root node, and the node at [p] is deleted
   exactly when the single populated partition's subtree root is a short node
   (then the canonical trie has no node at [p]).
   MountPartitionRoot is treated at the byte level: the blob is split with the
   raw RLP splitters, as in Go. *)
From GV Require Import Lib.Tactics Lib.Bytes Lib.BytesProofs Rlp.Item Rlp.Raw Rlp.RawProofs Rlp.Codec Rlp.CodecProofs Trie.Hex Trie.HexProofs Trie.Node Trie.Ops Trie.Hash Trie.OpsProofs Trie.Canon Trie.Stack Trie.StackProofs Trie.ProofProofs Trie.Commit Trie.Generate.
Local Open Scope N_scope.

(* ---------------------------------------------------------------- SplitListValues on canonical chunks *)

Lemma cat_len_ge vs : vs_ok vs -> (length vs <= length (cat vs))%nat.
Proof.
  induction 1 as [|[k c] vs Hk _ IH]; [simpl; lia|]. rewrite cat_cons, app_length. cbn [length fst snd] in *.
  pose proof (chunk_len_pos k c Hk) as Hp. unfold lenN in Hp. lia.
Qed.

Lemma split_values_S f b : b <> [] ->
  split_values (S f) b =
  match read_kind b with
  | Err _ => None
  | Ok (_, ts, cs) =>
      match split_values f (skipn (N.to_nat (ts + cs)) b) with
      | Some l => Some (firstn (N.to_nat (ts + cs)) b :: l)
      | None => None
      end
  end.
Proof. destruct b; [congruence|reflexivity]. Qed.

Lemma split_values_cat vs : vs_ok vs -> forall fuel, (length vs <= fuel)%nat ->
  split_values fuel (cat vs) = Some (map (fun v => chunk (fst v) (snd v)) vs).
Proof.
  induction 1 as [|[k c] vs Hk Hvs IH]; intros fuel Hf.
  - destruct fuel; reflexivity.
  - cbn [fst snd] in Hk. rewrite cat_cons. pose proof (chunk_len_pos k c Hk) as Hp.
    assert (Hne : chunk k c ++ cat vs <> []).
    { intros E. apply (f_equal lenN) in E. rewrite lenN_app, lenN_nil in E. lia. }
    destruct fuel as [|f]; [simpl in Hf; lia|].
    rewrite split_values_S by exact Hne.
    assert (Hrk : read_kind (chunk k c ++ cat vs) = Ok (k, lenN (hdr k c), lenN c)).
    { unfold chunk. rewrite <- app_assoc. apply read_kind_complete. exact Hk. }
    rewrite Hrk. cbv zeta.
    replace (N.to_nat (lenN (hdr k c) + lenN c)) with (length (chunk k c))
      by (unfold chunk, lenN; rewrite app_length; lia).
    rewrite skipn_app, skipn_all, Nat.sub_diag, firstn_app, firstn_all, Nat.sub_diag. cbn [app skipn firstn].
    rewrite app_nil_r, IH by (simpl in Hf; lia). reflexivity.
Qed.

Lemma decode_elements_cat vs : vs_ok vs -> lenN (cat vs) < 2 ^ 64 ->
  decode_node_elements (chunk KList (cat vs)) = Some (map (fun v => chunk (fst v) (snd v)) vs).
Proof.
  intros Hok Hlen. unfold decode_node_elements.
  destruct (chunk KList (cat vs)) as [|b0 tl] eqn:E.
  { exfalso. eapply (chunk_nonempty KList (cat vs)); [discriminate|exact E]. }
  rewrite <- E. clear E.
  assert (Hs : split_list (chunk KList (cat vs)) = Ok (cat vs, [])).
  { apply split_list_spec. rewrite <- (app_nil_r (chunk KList (cat vs))).
    apply split_complete. split; [exact Hlen|exact I]. }
  rewrite Hs. unfold cat at 1. rewrite (count_values_complete vs Hok). fold (cat vs).
  apply split_values_cat; [exact Hok|apply cat_len_ge; exact Hok].
Qed.

Section Asm.
  Variable H : list N -> list N.
  Hypothesis H_len : forall x, length (H x) = 32%nat.

  (* the canonical root when partition p is the only populated one *)
  Definition mount (p : N) (t : node) : node :=
    match t with
    | NShort k c => NShort (p :: k) c
    | NFull cs => NShort [p] (NFull cs)
    | _ => t
    end.
  Definition is_short (t : node) : bool := match t with NShort _ _ => true | _ => false end.

  Lemma small_lt64 b : small b -> lenN b < 2 ^ 64.
  Proof. unfold small. intros Hs. eapply N.lt_trans; [exact Hs|]. reflexivity. Qed.

  (* MountPartitionRoot on the encoding of a short node *)
  Lemma mount_short_compute ck kb cb k p ck' :
    lenN ck < 2 ^ 33 -> chunk_ok kb cb -> lenN cb < 2 ^ 33 ->
    compact_to_hex ck = k -> hex_to_compact (p :: k) = Some ck' ->
    mount_partition_root H (list_wrap (enc_str ck ++ chunk kb cb)) p =
    GOk (H (list_wrap (enc_str ck' ++ chunk kb cb)), list_wrap (enc_str ck' ++ chunk kb cb), true).
  Proof.
    intros Hck Hok Hcb Hhex Hc'.
    assert (Hck64 : lenN ck < 2 ^ 64) by (eapply N.lt_trans; [exact Hck|reflexivity]).
    assert (Hvs : vs_ok [(str_kind ck, ck); (kb, cb)]).
    { constructor; [apply str_chunk_ok; exact Hck64|]. constructor; [exact Hok|constructor]. }
    assert (Ecat : enc_str ck ++ chunk kb cb = cat [(str_kind ck, ck); (kb, cb)]).
    { rewrite !cat_cons. cbn [cat flat_map]. rewrite app_nil_r, enc_str_chunk. reflexivity. }
    unfold mount_partition_root. rewrite list_wrap_chunk, Ecat.
    rewrite decode_elements_cat; [|exact Hvs|].
    2:{ rewrite <- Ecat, lenN_app. pose proof (enc_str_len H H_len ck Hck64) as L1.
        destruct Hok as [Hl _]. pose proof (hdr_le9 kb cb Hl) as L2.
        pose proof (chunk_len kb cb) as L3. unfold lenN in *.
        assert (2 ^ 33 + 9 + (9 + 2 ^ 33) < 2 ^ 64) by reflexivity. lia. }
    cbn [map fst snd]. rewrite <- enc_str_chunk.
    rewrite <- (app_nil_r (enc_str ck)) at 1. rewrite (split_string_enc_str ck [] Hck64).
    rewrite Hhex, Hc'. unfold merge_list_values. cbn [concat]. rewrite app_nil_r. reflexivity.
  Qed.

  Lemma small_lt33 b : small b -> lenN b < 2 ^ 33.
  Proof. unfold small. intros Hs. eapply N.lt_trans; [exact Hs|]. reflexivity. Qed.

  Lemma nib_has_term_false k : nibbles k -> has_term k = false.
  Proof. intros Hk. apply has_term_nib_false, nibbles_forallb, Hk. Qed.

  (* MountPartitionRoot computes the encoding of the mounted node, and reports
     the node at [p] orphaned exactly for a short subtree root *)
  Lemma mount_enc p t e : p < 16 -> pwf t -> node_enc H t = Some e -> (32 <= length e)%nat ->
    exists e', node_enc H (mount p t) = Some e' /\
               mount_partition_root H e p = GOk (H e', e', is_short t).
  Proof.
    intros Hp Hw Ee Hbig. inversion Hw as [k v Hk Sk Hv|k c Hk Kne Sk Hc|cs HL Hch H16]; subst.
    - (* leaf *)
      pose proof (valid_key_has_term _ Hk) as Ht.
      rewrite (node_enc_short_leaf H k v Ht) in Ee.
      destruct (hex_to_compact k) as [ck|] eqn:Eck; [|discriminate]. inversion Ee; subst e. clear Ee.
      assert (Hk' : valid_key (p :: k)) by (apply valid_key_cons; right; split; assumption).
      destruct (hex_to_compact_total (p :: k)) as [ck' Eck'].
      exists (list_wrap (enc_str ck' ++ enc_str v)). split.
      + cbn [mount]. rewrite (node_enc_short_leaf H (p :: k) v (valid_key_has_term _ Hk')), Eck'. reflexivity.
      + destruct Hv as [_ Sv]. rewrite !(enc_str_chunk v). cbn [is_short].
        apply (mount_short_compute ck _ _ k p ck').
        * exact (compact_small H H_len k ck Sk Eck).
        * apply str_chunk_ok, small_lt64, Sv.
        * apply small_lt33, Sv.
        * apply compact_hex; [apply valid_key_wf_hex; exact Hk|exact Eck].
        * exact Eck'.
    - (* extension *)
      pose proof (nib_has_term_false _ Hk) as Ht.
      pose proof (pwf_shape c Hc) as Hsh.
      rewrite (node_enc_short_ext H k c Ht Hsh) in Ee.
      destruct (hex_to_compact k) as [ck|] eqn:Eck; [|discriminate].
      destruct (cgood_node H H_len c Hc (pwf_egood H H_len c Hc)) as (kc & cc & Es & Okc & Lc & _).
      rewrite Es in Ee.
      assert (Ee' : e = list_wrap (enc_str ck ++ chunk kc cc))
        by (destruct Hsh as [(? & ? & ->)|(? & ->)]; inversion Ee; reflexivity).
      subst e. clear Ee.
      assert (Hk' : nibbles (p :: k)) by (constructor; assumption).
      destruct (hex_to_compact_total (p :: k)) as [ck' Eck'].
      exists (list_wrap (enc_str ck' ++ chunk kc cc)). split.
      + cbn [mount]. rewrite (node_enc_short_ext H (p :: k) c (nib_has_term_false _ Hk') Hsh), Eck', Es.
        destruct Hsh as [(? & ? & ->)|(? & ->)]; reflexivity.
      + cbn [is_short]. apply (mount_short_compute ck _ _ k p ck').
        * exact (compact_small H H_len k ck Sk Eck).
        * exact Okc.
        * rewrite chunk_len in Lc. unfold lenN. assert (33 < 2 ^ 33) by reflexivity. lia.
        * apply compact_hex; [apply nibbles_wf_hex; exact Hk|exact Eck].
        * exact Eck'.
    - (* branch *)
      cbn [mount is_short].
      destruct (split17 cs HL) as (l & c16 & -> & Ll).
      rewrite (ProofProofs.node_enc_full H) in Ee. rewrite (enc_go_split H l 0 c16) in Ee by lia.
      assert (HF : Forall (cgood H) l).
      { rewrite Forall_forall. intros c Hin. destruct (In_nth_error _ _ Hin) as [i Hi].
        assert (Hi16 : (i < 16)%nat) by (rewrite <- Ll; apply nth_error_Some; congruence).
        destruct (Hch i c) as [->|Hc]; [rewrite nth_error_app1 by lia; exact Hi|exact Hi16| |].
        - apply cgood_empty, H_len.
        - apply (cgood_node H H_len c Hc (pwf_egood H H_len c Hc)). }
      destruct (children_good H H_len l HF) as (vs & Ev & Okv & Lv & Lenv & _). rewrite Ev in Ee.
      assert (Hv16 : exists k16 b16, val_enc c16 = Some (chunk k16 b16) /\ chunk_ok k16 b16 /\ lenN b16 < 2 ^ 33).
      { destruct (H16 c16) as [->|(v & -> & Hne & Sv)].
        - rewrite nth_error_app2 by lia. rewrite Ll. reflexivity.
        - exists KString, []. split; [reflexivity|]. split; [|reflexivity].
          split; [reflexivity|]. intros x E; discriminate.
        - exists (str_kind v), v. split.
          + destruct v; [congruence|]. cbn [val_enc]. rewrite enc_str_chunk. reflexivity.
          + split; [apply str_chunk_ok, small_lt64, Sv|apply small_lt33, Sv]. }
      destruct Hv16 as (k16 & b16 & Ev16 & Ok16 & L16). rewrite Ev16 in Ee. inversion Ee; subst e. clear Ee.
      set (vs17 := vs ++ [(k16, b16)]).
      assert (Ecat : cat vs ++ chunk k16 b16 = cat vs17).
      { unfold vs17. rewrite cat_app, cat_cons. cbn [cat flat_map]. rewrite app_nil_r. reflexivity. }
      assert (Ok17 : vs_ok vs17) by (unfold vs17, vs_ok; apply Forall_app; split; [exact Okv|constructor; [exact Ok16|constructor]]).
      assert (L17 : length vs17 = 17%nat) by (unfold vs17; rewrite app_length; simpl; lia).
      rewrite Ecat in *.
      destruct (hex_to_compact_total [p]) as [ck Eck].
      assert (Hnp : nibbles [p]) by (constructor; [exact Hp|constructor]).
      exists (list_wrap (enc_str ck ++ enc_str (H (list_wrap (cat vs17))))). split.
      + rewrite (node_enc_short_ext H [p] _ (nib_has_term_false _ Hnp) (or_intror (ex_intro _ _ eq_refl))), Eck.
        cbn [slot_enc]. rewrite (ProofProofs.node_enc_full H), (enc_go_split H l 0 c16) by lia.
        rewrite Ev, Ev16, Ecat. unfold ref_of_enc, write_ref.
        replace (Nat.ltb (length (list_wrap (cat vs17))) 32) with false by (symmetry; apply Nat.ltb_ge; exact Hbig).
        cbv beta iota. rewrite H_len. reflexivity.
      + unfold mount_partition_root. rewrite (list_wrap_chunk (cat vs17)).
        rewrite decode_elements_cat; [|exact Ok17|].
        2:{ rewrite <- Ecat, lenN_app. destruct Ok16 as [Hl16 _]. pose proof (hdr_le9 k16 b16 Hl16) as L2.
            pose proof (chunk_len k16 b16) as L3. unfold lenN in *.
            assert (33 * 16 + (9 + 2 ^ 33) < 2 ^ 64) by reflexivity. lia. }
        set (elems := map (fun v => chunk (fst v) (snd v)) vs17).
        assert (Le : length elems = 17%nat) by (unfold elems; rewrite map_length; exact L17).
        destruct elems as [|a [|b [|c r]]]; simpl in Le; try lia.
        assert (Lr : length r = 14%nat) by lia.
        replace (Nat.eqb (length (a :: b :: c :: r)) 17) with true by (cbn [length]; rewrite Lr; reflexivity).
        rewrite Eck. unfold merge_list_values. cbn [concat]. rewrite app_nil_r. reflexivity.
  Qed.

  (* the mounted node is canonical and holds the partition's content under nibble p, nothing else *)
  Lemma mount_can p t : p < 16 -> can t -> can (mount p t).
  Proof.
    intros Hp Hc. destruct (can_cases _ Hc) as [(k & v & -> & Hk)|[(k & cs & -> & Hk & Kne & Hcf)|(cs & ->)]]; cbn [mount].
    - apply can_leaf. apply valid_key_cons. right. split; assumption.
    - apply can_ext; [constructor; assumption|discriminate|exact Hcf].
    - apply can_ext; [constructor; [exact Hp|constructor]|discriminate|exact Hc].
  Qed.

  Lemma mount_lk p t q r : can t ->
    lk (mount p t) (q :: r) = if N.eqb p q then lk t r else None.
  Proof.
    intros Hc. destruct (can_cases _ Hc) as [(k & v & -> & Hk)|[(k & cs & -> & Hk & Kne & Hcf)|(cs & ->)]]; cbn [mount];
      rewrite !lk_short; cbn [strip]; destruct (N.eqb p q); reflexivity.
  Qed.

  Lemma mount_lk_nil p t : can t -> lk (mount p t) [] = None.
  Proof.
    intros Hc. destruct (can_cases _ Hc) as [(k & v & -> & Hk)|[(k & cs & -> & Hk & Kne & Hcf)|(cs & ->)]]; reflexivity.
  Qed.

  (* the blobs handed to assembleRoot when only partition p is populated *)
  Definition single_blobs (p : nat) (e : list N) : list (option (list N)) :=
    repeat None p ++ Some e :: repeat None (15 - p).

  Lemma single_blobs_populated p e : (p < 16)%nat ->
    length (filter (fun b : option (list N) => match b with Some _ => true | None => false end) (single_blobs p e)) = 1%nat.
  Proof.
    intros _. unfold single_blobs. rewrite filter_app. cbn [filter].
    assert (G : forall n, filter (fun b : option (list N) => match b with Some _ => true | None => false end) (repeat None n) = [])
      by (induction n; [reflexivity|exact IHn]).
    rewrite !G. reflexivity.
  Qed.

  Lemma last_pop_single e : forall p s acc,
    fold_left (fun acc (ib : nat * option (list N)) => match snd ib with Some b => Some (fst ib, b) | None => acc end)
      (combine (seq s (length (single_blobs p e))) (single_blobs p e)) acc = Some ((s + p)%nat, e).
  Proof.
    assert (G : forall n s acc, fold_left (fun acc (ib : nat * option (list N)) => match snd ib with Some b => Some (fst ib, b) | None => acc end)
               (combine (seq s n) (repeat (@None (list N)) n)) acc = acc).
    { induction n; intros s acc; [reflexivity|]. cbn. apply IHn. }
    intros p. unfold single_blobs. generalize (15 - p)%nat as m. intros m.
    induction p as [|p IHp]; intros s acc.
    - cbn [repeat app length seq combine fold_left fst snd]. rewrite repeat_length, G. f_equal. f_equal. lia.
    - cbn [repeat app length seq combine fold_left fst snd]. rewrite (IHp (S s) acc). f_equal. f_equal. lia.
  Qed.

  (* ONE populated partition: the fold.  The returned root is the root hash of the
     canonical trie holding the partition's content under nibble p; the write at
     the empty path is that trie's root node; the copy of the subtree root the
     partition stored at [p] is deleted iff it was a short node (then the
     canonical trie has no node at [p]: its root short node spans that path). *)
  Theorem assemble_single sc (p : nat) t e : (p < 16)%nat ->
    can t -> pwf t -> node_enc H t = Some e -> (32 <= length e)%nat ->
    exists e',
      node_enc H (mount (N.of_nat p) t) = Some e' /\
      hash_root H (mount (N.of_nat p) t) = Some (H e') /\
      assemble_root H sc (single_blobs p e) =
        GOk (H e', WNode (node_key sc zero_hash [] (H e')) e' ::
                   (if is_short t then [WNodeDel (node_key sc zero_hash [N.of_nat p] (H e))] else [])).
  Proof.
    intros Hp Hc Hw Ee Hbig.
    destruct (mount_enc (N.of_nat p) t e ltac:(lia) Hw Ee Hbig) as (e' & Ee' & Em).
    exists e'. split; [exact Ee'|]. split.
    - destruct (can_cases _ Hc) as [(k & v & -> & Hk)|[(k & cs & -> & Hk & Kne & Hcf)|(cs & ->)]];
        cbn [mount] in *; unfold hash_root, node_ref; rewrite Ee', andb_false_r; reflexivity.
    - unfold assemble_root. rewrite single_blobs_populated by exact Hp.
      rewrite (last_pop_single e p 0 None). cbn [Nat.add]. rewrite Em. reflexivity.
  Qed.

  (* NO populated partition *)
  Theorem assemble_empty sc :
    assemble_root H sc (repeat None 16) = GOk (H [128], []) /\ hash_root H NEmpty = Some (H [128]).
  Proof. split; reflexivity. Qed.
End Asm.
