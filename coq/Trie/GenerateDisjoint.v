(* Trie/GenerateDisjoint.v — the write lists of different partitions address
   different keys (or, in the hash scheme, put the same blob under the same
   hash), hence commute: the hypothesis of C11_partition_order_irrelevant is
   discharged for the write lists generate_partition actually produces. *)
From GV Require Import Lib.Tactics Lib.Bytes Lib.Interleave Rlp.Codec Trie.Hex Trie.HexProofs Trie.Node Trie.Ops Trie.Hash Trie.OpsProofs Trie.Canon Trie.Stack Trie.StackProofs Trie.Commit Trie.CommitProofs Trie.CommitTracer Trie.Generate Trie.GenerateProofs Trie.GenerateWalk Trie.GenerateWalk2 Trie.GenerateWalk3 Trie.GenerateKeys Trie.GenerateSched Trie.GenerateRoot Trie.GenerateRoot2 Trie.GenerateFlat Trie.GenerateFlat2.
Local Open Scope N_scope.

(* ---------------------------------------------------------------- puts of different keys commute on ANY association list *)

Lemma am_put_comm {A} k k' (v v' : A) : k <> k' -> forall m,
  am_put k v (am_put k' v' m) = am_put k' v' (am_put k v m).
Proof.
  intros Hne.
  assert (Hkk : (bytes_cmp k k' = Lt /\ bytes_cmp k' k = Gt) \/ (bytes_cmp k k' = Gt /\ bytes_cmp k' k = Lt)).
  { destruct (bytes_cmp k k') eqn:C.
    - apply bcmp_eq in C. congruence.
    - left. split; [reflexivity|]. rewrite (bcmp_antisym k k'), C. reflexivity.
    - right. split; [reflexivity|]. rewrite (bcmp_antisym k k'), C. reflexivity. }
  induction m as [|[k0 v0] m IH].
  - cbn [am_put]. destruct Hkk as [[C1 C2]|[C1 C2]]; rewrite C1, C2; reflexivity.
  - cbn [am_put].
    destruct (bytes_cmp k' k0) eqn:C'; destruct (bytes_cmp k k0) eqn:C;
      try (apply bcmp_eq in C'; subst k0); try (apply bcmp_eq in C; subst k0); try congruence;
      destruct Hkk as [[C1 C2]|[C1 C2]]; try congruence;
      try (pose proof (bcmp_lt_trans _ _ _ C' (proj1 (bcmp_gt_lt _ _) C)); congruence);
      try (pose proof (bcmp_lt_trans _ _ _ C (proj1 (bcmp_gt_lt _ _) C')); congruence);
      repeat (cbn [am_put]; rewrite ?C1, ?C2, ?C, ?C', ?bcmp_refl);
      try reflexivity; try (f_equal; apply IH).
Qed.

Lemma am_del_comm {A} k k' (m : amap A) : am_del k (am_del k' m) = am_del k' (am_del k m).
Proof.
  rewrite !am_del_filter. induction m as [|x m IH]; [reflexivity|]. cbn [filter].
  destruct (bytes_eqb k' (fst x)) eqn:B'; destruct (bytes_eqb k (fst x)) eqn:B; cbn [negb filter]; rewrite ?B, ?B'; cbn [negb];
    rewrite ?IH; reflexivity.
Qed.

Lemma commute_same w : commute w w.
Proof. intros db. reflexivity. Qed.

Definition is_del (w : wop) : bool := match w with WNodeDel _ => true | _ => false end.

Lemma commute_disjoint w1 w2 : is_del w1 = false -> is_del w2 = false -> w_key w1 <> w_key w2 -> commute w1 w2.
Proof.
  intros D1 D2 Hne db. destruct db as [a s n].
  destruct w1 as [k1 v1|k1|h1 v1|k1]; destruct w2 as [k2 v2|k2|h2 v2|k2]; try discriminate; cbn [apply_w g_accts g_stor g_nodes w_key] in *;
    try reflexivity; f_equal.
  - apply am_put_comm. congruence.
  - apply am_put_comm. congruence.
  - apply am_del_comm.
Qed.

Section Disjoint.
  Variable H : list N -> list N.
  Hypothesis H_len : forall x, length (H x) = 32%nat.

  (* what a partition may write: deletions of storage entries, account rewrites,
     account-trie nodes below its nibble, storage-trie nodes of its own accounts *)
  Definition wclass (sc : scheme) (p : N) (keys : list (list N)) (w : wop) : Prop :=
    match w with
    | WStorDel _ | WAcct _ _ => True
    | WNode k b =>
        (exists path, k = node_key sc zero_hash (p :: path) (H b)) \/
        (exists h path, nib0 h = p /\ length h = 32%nat /\ In h keys /\ k = node_key sc h path (H b))
    | WNodeDel _ => False
    end.

  Definition sclass (sc : scheme) (h : list N) (w : wop) : Prop :=
    match w with
    | WStorDel _ => True
    | WNode k b => exists path, k = node_key sc h path (H b)
    | _ => False
    end.

  Lemma node_writes_sclass sc h em : Forall (sclass sc h) (node_writes H sc h em).
  Proof. unfold node_writes. rewrite Forall_forall. intros w Hw. apply in_map_iff in Hw as (pb & <- & _). exists (fst pb). reflexivity. Qed.

  Lemma stor_loop_class sc h : forall ss st rest st' ws nd,
    stor_loop H sc h ss st = GOk (rest, st', ws, nd) -> Forall (sclass sc h) ws.
  Proof.
    induction ss as [|[k v] ss IH]; intros st rest st' ws nd E; cbn [stor_loop] in E.
    - inversion E; subst. constructor.
    - destruct (bytes_cmp (firstn 32 k) h).
      + destruct (st_update_e H st (skipn 32 k) v) as [[c|[st1 em]]|e]; try discriminate.
        destruct (stor_loop H sc h ss st1) as [[[[rest1 st1'] ws1] nd1]|e] eqn:El; [|discriminate].
        inversion E; subst. apply Forall_app. split; [apply node_writes_sclass|eapply IH; eassumption].
      + destruct (stor_loop H sc h ss st) as [[[[rest1 st1'] ws1] nd1]|e] eqn:El; [|discriminate].
        inversion E; subst. constructor; [exact I|eapply IH; eassumption].
      + inversion E; subst. constructor.
  Qed.

  Lemma wclass_mono sc p k1 k2 w : (forall h, In h k1 -> In h k2) -> wclass sc p k1 w -> wclass sc p k2 w.
  Proof.
    intros Hs. destruct w; cbn; auto. intros [Ha|(h & path & A & B & C & D)]; [left; exact Ha|right].
    exists h, path. auto.
  Qed.

  Lemma acct_loop_class sc p : forall accs ss pt r, wf_accts accs ->
    acct_loop H sc p accs ss pt = GOk r -> Forall (wclass sc p (map fst accs)) (p_ws r).
  Proof.
    induction accs as [|[h slim] accs IH]; intros ss pt r Hw E; cbn [acct_loop] in E.
    - inversion E; subst. constructor.
    - inversion Hw as [|? ? [Hh32 Hhb] Hw']; subst. cbn [fst] in *.
      destruct (bytes_gtb h (range_end p)); [inversion E; subst; constructor|].
      destruct (full_account H slim) as [acc|]; [|discriminate].
      destruct (stor_loop H sc h ss stack_new) as [[[[ss1 sst] ws1] nd]|e] eqn:Es; [|discriminate].
      destruct (st_root_e H sst) as [[computed em]|e]; [|discriminate]. cbv zeta in E.
      destruct (pst_update_e H p pt h _) as [[c|[pt' em']]|e] eqn:Ep; try discriminate.
      destruct (acct_loop H sc p accs ss1 pt') as [r'|e] eqn:El; [|discriminate].
      inversion E; subst r. clear E. cbn [p_ws map fst].
      assert (Hn : nib0 h = p).
      { unfold pst_update_e in Ep. destruct (full_rlp _); [discriminate|].
        unfold nib0. destruct (nibbles_of h) as [|k0 kr]; [discriminate|].
        destruct (N.eqb k0 p) eqn:Ek; [|discriminate]. apply N.eqb_eq in Ek. exact Ek. }
      assert (Hown : forall w, sclass sc h w -> wclass sc p (h :: map fst accs) w).
      { intros w. destruct w; cbn; auto. intros [path ->]. right. exists h, path. split; [exact Hn|]. split; [exact Hh32|]. split; [left; reflexivity|reflexivity]. }
      repeat (apply Forall_app; split).
      + eapply Forall_impl; [exact Hown|]. eapply stor_loop_class; eassumption.
      + eapply Forall_impl; [exact Hown|]. apply node_writes_sclass.
      + destruct (negb _); constructor; [exact I|constructor].
      + unfold node_writes, prefix_em. rewrite Forall_forall. intros w Hin. rewrite map_map in Hin.
        apply in_map_iff in Hin as (pb & <- & _). left. exists (fst pb). reflexivity.
      + eapply Forall_impl; [|eapply IH; eassumption]. intros w. apply wclass_mono. intros x Hx. right. exact Hx.
  Qed.

  Lemma tail_class sc p keys : forall ss, Forall (wclass sc p keys) (fst (tail_loop p ss)).
  Proof.
    induction ss as [|[k v] ss IH]; [constructor|]. cbn [tail_loop].
    destruct (bytes_gtb (firstn 32 k) (range_end p)); [constructor|].
    destruct (tail_loop p ss) as [ws n]. cbn [fst] in *. constructor; [exact I|exact IH].
  Qed.

  Theorem partition_class sc p db r : wf_db db -> generate_partition H sc p db = GOk r ->
    Forall (wclass sc p (map fst (g_accts db))) (r_ws r).
  Proof.
    intros Hwf E. unfold generate_partition in E.
    destruct (acct_loop H sc p _ _ stack_new) as [r0|e] eqn:Ea; [|discriminate].
    destruct (tail_loop p (p_stor r0)) as [wt nt] eqn:Et.
    destruct (st_root_e H (p_trie r0)) as [[hh em]|e]; [|discriminate].
    inversion E; subst r. clear E. cbn [r_ws].
    repeat (apply Forall_app; split).
    - eapply Forall_impl; [|eapply acct_loop_class; [|exact Ea]; apply Forall_seek; apply (wf_ka db Hwf)].
      intros w. apply wclass_mono. intros h Hh. apply in_map_iff in Hh as (kv & <- & Hkv). apply in_map. eapply seek_In; eassumption.
    - replace wt with (fst (tail_loop p (p_stor r0))) by (rewrite Et; reflexivity). apply tail_class.
    - unfold node_writes, prefix_em. rewrite Forall_forall. intros w Hin. rewrite map_map in Hin.
      apply in_map_iff in Hin as (pb & <- & _). left. exists (fst pb). reflexivity.
  Qed.
End Disjoint.
