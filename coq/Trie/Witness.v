(* Trie/Witness.v — executable model of witness collection and stateless re-execution
   at the trie level.

   Go code transcribed:
     /repo/trie/trie.go          New (open at a root: resolveAndTrack(root, nil)),
                                 Get / Update / Delete (through Trie/Ops.v), Hash,
                                 resolveAndTrack (every resolution is recorded by
                                 prevalueTracer.Put(path, blob): the [TRes path blob]
                                 events of Trie/Ops.v), Witness() = prevalueTracer.Values()
     /repo/trie/tracer.go        PrevalueTracer: a map path -> blob, later Put wins
                                 ([pv_put] of Trie/Commit.v)
     /repo/core/state/statedb.go IntermediateRoot: witness.AddState(trie.Witness(), owner)
                                 for the account trie and every storage trie touched
     /repo/core/stateless/witness.go   AddState: State[string(blob)] = {} (a SET of blobs)
     /repo/core/stateless/database.go  MakeHashDB: for every blob of State,
                                 WriteLegacyTrieNode(memdb, keccak(blob), blob)
     /repo/core/stateless.go     ExecuteStateless: the same state accesses run over
                                 triedb.NewDatabase(MakeHashDB(), HashDefaults)

   A STATE is a list of open tries (session ids 0,1,2.. in order of opening: the
   account trie and the storage tries).  A SESSION is a list of operations
   ([SOpen root], [SGet i key], [SUpd i key value], [SDel i key]).  Each trie i reads
   nodes through its own resolver [rs i] (reader.Node + decodeNode; for the full node
   the hash- or path-scheme store of Trie/Commit.v; for the stateless run the ONE hash
   store made from the witness).

   Definitions only; the theorems are in Trie/WitnessProofs.v. *)
From GV Require Import Lib.Bytes Trie.Hex Trie.Node Trie.Ops Trie.Hash Trie.Commit.
Local Open Scope N_scope.

Definition resolver : Type := list N -> list N -> option (node * list N).

Inductive sop : Type :=
| SOpen (root : list N)                  (* trie.New(id{Root: root}, db) *)
| SGet (i : nat) (key : list N)          (* tries[i].Get(key) *)
| SUpd (i : nat) (key value : list N)    (* tries[i].Update(key, value); empty value deletes *)
| SDel (i : nat) (key : list N).         (* tries[i].Delete(key) *)

(* events of the whole state: (session id, trie event) *)
Definition sev : Type := (nat * tev)%type.
Definition tag_evs (i : nat) (ev : list tev) : list sev := map (fun e => (i, e)) ev.

Section Witness.
  Variable H : list N -> list N.

  (* common.Hash{} *)
  Definition zero_hash : list N := repeat 0 32.

  (* trie.New: "id.Root != (common.Hash{}) && id.Root != types.EmptyRootHash" *)
  Definition is_empty_root (h : list N) : bool :=
    bytes_eqb h zero_hash || bytes_eqb h (H empty_root_preimage).

  (* one operation on the state [st] (the in-memory root node of every open trie).
     Result: what the caller reads (a Get value; None for absent and for the other
     operations), the new state, the tracer events.  A session id that is not open
     is the Go harness' index-out-of-range: EPanic. *)
  Definition step (rs : nat -> resolver) (st : list node) (op : sop)
    : tres (option (list N) * list node * list sev) :=
    match op with
    | SOpen root =>
        let i := length st in
        if is_empty_root root then TOk (None, st ++ [NEmpty], [])
        else
          match rs i root [] with                       (* resolveAndTrack(root, nil) *)
          | None => TErr EMissing
          | Some (n, blob) => TOk (None, st ++ [n], [(i, TRes [] blob)])
          end
    | SGet i key =>
        match nth_error st i with
        | None => TErr EPanic
        | Some root =>
            match trie_get (rs i) root key with
            | TErr e => TErr e
            | TOk (v, n, did, ev) =>
                (* Trie.Get: "if err == nil && didResolve { t.root = newroot }" *)
                match set_nth i (if did then n else root) st with
                | None => TErr EPanic
                | Some st' => TOk (v, st', tag_evs i ev)
                end
            end
        end
    | SUpd i key value =>
        match nth_error st i with
        | None => TErr EPanic
        | Some root =>
            match update (rs i) root key value with
            | TErr e => TErr e
            | TOk (n, ev) =>
                match set_nth i n st with
                | None => TErr EPanic
                | Some st' => TOk (None, st', tag_evs i ev)
                end
            end
        end
    | SDel i key =>
        match nth_error st i with
        | None => TErr EPanic
        | Some root =>
            match update (rs i) root key [] with
            | TErr e => TErr e
            | TOk (n, ev) =>
                match set_nth i n st with
                | None => TErr EPanic
                | Some st' => TOk (None, st', tag_evs i ev)
                end
            end
        end
    end.

  (* a whole session: the values read (one entry per operation), the final state,
     all events in program order.  The first error aborts (the Go caller returns it). *)
  Fixpoint run (rs : nat -> resolver) (st : list node) (ops : list sop)
    : tres (list (option (list N)) * list node * list sev) :=
    match ops with
    | [] => TOk ([], st, [])
    | op :: r =>
        match step rs st op with
        | TErr e => TErr e
        | TOk (v, st', ev) =>
            match run rs st' r with
            | TErr e => TErr e
            | TOk (vs, st'', ev') => TOk (v :: vs, st'', ev ++ ev')
            end
        end
    end.

  (* Trie.Hash() of every open trie; None = the hasher would panic *)
  Fixpoint state_roots (st : list node) : option (list (list N)) :=
    match st with
    | [] => Some []
    | n :: r =>
        match hash_root H n, state_roots r with
        | Some h, Some hs => Some (h :: hs)
        | _, _ => None
        end
    end.

  (* ---------- the witness ---------- *)

  (* every blob a resolution returned, in program order (what the theorems use) *)
  Definition ev_blobs (evs : list sev) : list (list N) :=
    flat_map (fun e => match snd e with TRes _ b => [b] | _ => [] end) evs.

  (* the events of session i *)
  Definition evs_of (i : nat) (evs : list sev) : list tev :=
    flat_map (fun e => if Nat.eqb (fst e) i then [snd e] else []) evs.

  (* Trie.Witness() of session i: the values of the path-keyed pre-value map
     (PrevalueTracer.Values; a later Put at the same path replaces the earlier) *)
  Definition trie_witness (i : nat) (evs : list sev) : list (list N) :=
    map snd (tr_pv (trace_evs tr_empty (evs_of i evs))).

  (* Witness.AddState: insertion into the set State (sorted, duplicate free) *)
  Definition add_state (blobs : list (list N)) (w : amap unit) : amap unit :=
    fold_left (fun w b => am_put b tt w) blobs w.

  (* the State set collected from sessions 0 .. n-1 *)
  Fixpoint collect (n : nat) (evs : list sev) : amap unit :=
    match n with
    | O => []
    | S k => add_state (trie_witness k evs) (collect k evs)
    end.

  Definition witness_nodes (w : amap unit) : list (list N) := map fst w.

  (* MakeHashDB: every blob stored under its hash *)
  Definition make_hash_db (blobs : list (list N)) : store :=
    fold_left (fun s b => am_put (H b) b s) blobs [].

  (* the resolvers of the stateless run: every trie reads the one hash store *)
  Definition stateless_rs (blobs : list (list N)) : nat -> resolver :=
    fun _ => resolve_of H HashScheme (make_hash_db blobs).

  (* ExecuteStateless at the trie level: the same session over the witness store *)
  Definition run_stateless (blobs : list (list N)) (ops : list sop) :=
    run (stateless_rs blobs) [] ops.

  (* do the values of the path-keyed maps (what geth ships) cover every blob that was
     resolved?  (false would mean two different blobs were resolved at one path of
     one trie, and the first one is lost from Trie.Witness()) *)
  Definition tracer_complete (n : nat) (evs : list sev) : bool :=
    forallb (fun b => am_has b (collect n evs)) (ev_blobs evs).

  (* removing one blob from a list of blobs *)
  Definition remove_blob (b : list N) (l : list (list N)) : list (list N) :=
    filter (fun x => negb (bytes_eqb x b)) l.
End Witness.
