(* Trie/GenerateSlim.v — the slim-RLP round trip (C11): types.FullAccount decodes
   types.SlimAccountRLP(a) back to a; hence every entry GenerateTrie leaves in the
   flat account key space decodes to the account with the corrected root. *)
From GV Require Import Lib.Tactics Lib.Bytes Lib.BytesProofs Rlp.Item Rlp.Raw Rlp.RawProofs Rlp.Codec Rlp.CodecProofs Rlp.Stream Rlp.Schema Rlp.SchemaProofs Trie.Hex Trie.Node Trie.Ops Trie.Hash Trie.OpsProofs Trie.Canon Trie.Stack Trie.StackProofs Trie.ProofProofs Trie.Commit Trie.CommitProofs Trie.CommitTracer Trie.Generate Trie.GenerateWalk Trie.GenerateWalk2 Trie.GenerateRoot Trie.GenerateRoot2 Trie.GenerateFlat2.
Local Open Scope N_scope.

Section Slim.
  Variable H : list N -> list N.
  Hypothesis H_len : forall x, length (H x) = 32%nat.

  (* a Go StateAccount: uint64 nonce, uint256 balance, 32-byte root, non-empty code hash below the size guard *)
  Definition account_ok (a : account) : Prop :=
    a_nonce a < 2 ^ 64 /\ a_bal a < 2 ^ 256 /\ length (a_root a) = 32%nat /\
    a_code a <> [] /\ lenN (a_code a) < 2 ^ 32.

  Lemma len32_ne (l : list N) : length l = 32%nat -> l <> [].
  Proof. intros L ->. discriminate. Qed.

  Lemma bytes_to_hash_32 r : length r = 32%nat -> bytes_to_hash r = r.
  Proof. intros L. unfold bytes_to_hash. rewrite L. reflexivity. Qed.

  Lemma enc_str_bound b : lenN b < 2 ^ 64 -> lenN (enc_str b) <= lenN b + 9.
  Proof. intros Hb. pose proof (enc_str_len H H_len b Hb). unfold lenN in *. lia. Qed.

  (* FullAccount (SlimAccountRLP a) = a *)
  Theorem slim_round_trip a : account_ok a -> full_account H (slim_rlp H a) = Some a.
  Proof.
    intros (Hn & Hb & Lr & Hc & Lc). unfold full_account, slim_rlp.
    set (r' := if bytes_eqb (a_root a) (empty_root H) then [] else a_root a).
    set (c' := if bytes_eqb (a_code a) (empty_code H) then [] else a_code a).
    assert (Lr' : lenN r' <= 32) by (unfold r'; destruct (bytes_eqb (a_root a) (empty_root H)); unfold lenN; [simpl|rewrite Lr]; lia).
    assert (Lc' : lenN c' < 2 ^ 32) by (unfold c'; destruct (bytes_eqb (a_code a) (empty_code H)); [reflexivity|exact Lc]).
    rewrite (decode_typed_encode slim_schema (VList [VNum (a_nonce a); VNum (a_bal a); VBytes r'; VBytes c'])).
    - assert (Er : (match r' with [] => empty_root H | _ :: _ => bytes_to_hash r' end) = a_root a).
      { unfold r'. destruct (bytes_eqb (a_root a) (empty_root H)) eqn:B; [apply bytes_eqb_eq in B; congruence|].
        destruct (a_root a) as [|x l] eqn:E; [discriminate|]. rewrite <- E. apply bytes_to_hash_32. rewrite E. exact Lr. }
      assert (Ec : (match c' with [] => empty_code H | _ :: _ => c' end) = a_code a).
      { unfold c'. destruct (bytes_eqb (a_code a) (empty_code H)) eqn:B; [apply bytes_eqb_eq in B; congruence|].
        destruct (a_code a) as [|x l]; [congruence|reflexivity]. }
      rewrite Er, Ec. destruct a; reflexivity.
    - reflexivity.
    - cbn [conforms slim_schema]. apply andb_true_iff. split; [apply N.ltb_lt; exact Hn|].
      apply andb_true_iff. split; [apply N.ltb_lt; exact Hb|]. reflexivity.
    - unfold fits. cbn [enc_v map enc flat_map]. rewrite app_nil_r.
      pose proof (be_bytes_len_bits (a_nonce a) 8 Hn) as L1. pose proof (be_bytes_len_bits (a_bal a) 32 Hb) as L2.
      assert (P64 : 2 ^ 32 < 2 ^ 64) by reflexivity.
      pose proof (enc_str_bound (be_bytes (a_nonce a)) ltac:(lia)) as E1.
      pose proof (enc_str_bound (be_bytes (a_bal a)) ltac:(lia)) as E2.
      pose proof (enc_str_bound r' ltac:(lia)) as E3.
      pose proof (enc_str_bound c' ltac:(lia)) as E4.
      set (c := enc_str _ ++ _ ++ _ ++ _).
      assert (Hcl : lenN c <= 2 ^ 32 + 200) by (unfold c; rewrite !lenN_app; lia).
      assert (P : 2 ^ 32 + 200 + 9 < 2 ^ 64) by reflexivity.
      rewrite lenN_app. pose proof (enc_head_len_le 192 247 (lenN c) ltac:(lia)). lia.
  Qed.

  (* what FullAccount returns is a Go StateAccount, up to the size of the code-hash field *)
  Lemma full_account_ok slim acc : bytesb slim = true -> lenN slim < 2 ^ 32 ->
    full_account H slim = Some acc ->
    a_nonce acc < 2 ^ 64 /\ a_bal acc < 2 ^ 256 /\ length (a_root acc) = 32%nat /\ a_code acc <> [] /\ lenN (a_code acc) < 2 ^ 32.
  Proof.
    intros Hb Hl E. unfold full_account in E.
    destruct (decode_typed slim_schema slim) as [v|] eqn:Ed; [|discriminate].
    assert (P64 : 2 ^ 32 < 2 ^ 64) by reflexivity.
    destruct (encode_decode_typed slim_schema slim v eq_refl Hb ltac:(lia) Ed) as [Een Hcf].
    destruct v as [| | |l]; try discriminate. destruct l as [|[n| | |] l]; try discriminate.
    destruct l as [|[b| | |] l]; try discriminate. destruct l as [|[|r| |] l]; try discriminate.
    destruct l as [|[|c| |] l]; try discriminate. destruct l; [|discriminate]. inversion E; subst acc. clear E.
    cbn [a_nonce a_bal a_root a_code]. cbn [conforms slim_schema] in Hcf.
    apply andb_true_iff in Hcf as [Hn Hcf]. apply andb_true_iff in Hcf as [Hbb _].
    apply N.ltb_lt in Hn. apply N.ltb_lt in Hbb.
    split; [exact Hn|]. split; [exact Hbb|]. split.
    { destruct r as [|x r]; [apply H_len|]. unfold bytes_to_hash.
      destruct (Nat.ltb 32 (length (x :: r))) eqn:Lt.
      - apply Nat.ltb_lt in Lt. rewrite skipn_length. lia.
      - apply Nat.ltb_ge in Lt. rewrite app_length, repeat_length. lia. }
    assert (Lcc : lenN c < 2 ^ 32).
    { (* the code-hash field is inside the encoding *)
      unfold encode_typed in Een. cbn [enc_v map enc flat_map] in Een. rewrite app_nil_r in Een.
      apply (f_equal lenN) in Een. rewrite !lenN_app in Een.
      assert (Hc64 : lenN c < 2 ^ 64).
      { destruct (N.lt_ge_cases (lenN c) (2 ^ 64)) as [?|Hge]; [assumption|]. exfalso.
        assert (lenN c <= lenN (enc_str c)).
        { unfold enc_str. destruct c as [|x [|y l]]; try (rewrite lenN_app; lia). unfold lenN in Hge. simpl in Hge. lia. }
        lia. }
      pose proof (enc_str_len H H_len c Hc64) as Le. unfold lenN in *. lia. }
    split; [|destruct c; [unfold lenN, empty_code; rewrite H_len; reflexivity|exact Lcc]].
    destruct c; [apply len32_ne, H_len|discriminate].
  Qed.

  (* every entry of the corrected flat state decodes to the account with the corrected storage root *)
  Theorem corrected_entry_decodes stor kv acc : wf_stor stor ->
    bytesb (snd kv) = true -> lenN (snd kv) < 2 ^ 32 ->
    full_account H (snd kv) = Some acc ->
    full_account H (snd (fix_entry H stor kv)) = Some (corrected H stor (fst kv) acc).
  Proof.
    intros Hws Hb Hl Ea. destruct (full_account_ok _ _ Hb Hl Ea) as (Hn & Hbb & Lr & Hc & Lc).
    unfold fix_entry, rewrites. cbn [snd]. rewrite Ea.
    destruct (bytes_eqb (ref_sroot H stor (fst kv)) (a_root acc)) eqn:B.
    - cbn [snd]. rewrite Ea. apply bytes_eqb_eq in B. unfold corrected. rewrite B. destruct acc; reflexivity.
    - cbn [snd]. apply slim_round_trip. unfold account_ok, corrected. cbn [a_nonce a_bal a_root a_code].
      split; [exact Hn|]. split; [exact Hbb|]. split; [apply ref_sroot_len; [exact H_len|exact Hws]|]. split; assumption.
  Qed.
End Slim.
