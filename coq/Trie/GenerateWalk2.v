(* Trie/GenerateWalk2.v — the account loop and the dangling tail of
   generatePartition (C11), on top of Trie/GenerateWalk.v. *)
From GV Require Import Lib.Tactics Lib.Bytes Rlp.Codec Trie.Hex Trie.HexProofs Trie.Node Trie.Ops Trie.Hash Trie.OpsProofs Trie.Canon Trie.Stack Trie.StackProofs Trie.Commit Trie.CommitProofs Trie.CommitTracer Trie.Generate Trie.GenerateProofs Trie.GenerateWalk.
Local Open Scope N_scope.

Lemma ndsa_filter f ss : ndsa ss -> ndsa (filter f ss).
Proof.
  induction ss as [|x r IH]; [auto|]. intros [Hx Hr]. cbn [filter]. destruct (f x).
  - split; [|apply IH, Hr]. rewrite Forall_forall in *. intros y Hy. apply Hx. apply filter_In in Hy. tauto.
  - apply IH, Hr.
Qed.

Lemma wf_stor_filter f ss : wf_stor ss -> wf_stor (filter f ss).
Proof.
  unfold wf_stor. rewrite !Forall_forall. intros Hw x Hx. apply filter_In in Hx. apply Hw. tauto.
Qed.

(* the accounts the loop processes: up to the first key beyond the range end *)
Fixpoint take_le (p : N) (accs : amap (list N)) : amap (list N) :=
  match accs with
  | [] => []
  | (h, v) :: r => if bytes_gtb h (range_end p) then [] else (h, v) :: take_le p r
  end.

Section Walk2.
  Variable H : list N -> list N.
  Hypothesis H_len : forall x, length (H x) = 32%nat.

  (* the reference: tries built by ordinary insertion (Trie/Ops.v update_seq) *)
  Definition ref_trie (kvs : list (list N * list N)) : option node :=
    match update_seq no_resolve NEmpty kvs with TOk (t, _) => Some t | TErr _ => None end.
  Definition ref_root (kvs : list (list N * list N)) : list N :=
    match ref_trie kvs with
    | Some t => match hash_root H t with Some r => r | None => [] end
    | None => []
    end.

  (* the slots of account h in the storage list, as byte keys *)
  Definition byte_slots (ss : amap (list N)) (h : list N) : list (list N * list N) :=
    map (fun kv => (skipn 32 (fst kv), snd kv)) (filter (sa_eq h) ss).
  Definition ref_sroot (ss : amap (list N)) (h : list N) : list N := ref_root (byte_slots ss h).

  (* the account with its storage root corrected *)
  Definition corrected (ss : amap (list N)) (h : list N) (acc : account) : account :=
    mkAccount (a_nonce acc) (a_bal acc) (ref_sroot ss h) (a_code acc).
  Definition leaf (ss : amap (list N)) (kv : list N * list N) : list N :=
    match full_account H (snd kv) with
    | Some acc => full_rlp (corrected ss (fst kv) acc)
    | None => []
    end.
  Definition fed (p : N) (accs ss : amap (list N)) : list (list N * list N) :=
    map (fun kv => (tl (nibbles_of (fst kv)), leaf ss kv)) (take_le p accs).
  (* flat-state rewrites: only stale accounts, with the corrected root *)
  Definition rewrites (ss : amap (list N)) (kv : list N * list N) : list (list N * list N) :=
    match full_account H (snd kv) with
    | Some acc =>
        if bytes_eqb (ref_sroot ss (fst kv)) (a_root acc) then []
        else [(fst kv, slim_rlp H (corrected ss (fst kv) acc))]
    | None => []
    end.

  Lemma hexops_byte_slots ss h : hexops (byte_slots ss h) = hops (map slotkv (filter (sa_eq h) ss)).
  Proof. unfold hexops, byte_slots, hops. rewrite !map_map. reflexivity. Qed.

  Lemma byte_slots_ok ss h : wf_stor ss -> bytes_ops (byte_slots ss h).
  Proof.
    intros Hw. unfold bytes_ops, byte_slots. rewrite Forall_forall. intros kv Hin.
    apply in_map_iff in Hin as (x & <- & Hx). apply filter_In in Hx as [Hx _].
    unfold wf_stor in Hw. rewrite Forall_forall in Hw. destruct (Hw x Hx) as [_ Hb].
    cbn [fst]. unfold bytes_key. apply forallb_skipn. exact Hb.
  Qed.

  (* what the storage builder computed is the root of the ordinary trie of the slots *)
  Lemma computed_ref ss h st' t' computed em : wf_stor ss ->
    sroot H st' t' 64 -> canon t' ->
    (forall hk, lk t' hk = apply_ops (lk NEmpty) (hops (map slotkv (filter (sa_eq h) ss))) hk) ->
    st_root_e H st' = TOk (computed, em) -> computed = ref_sroot ss h.
  Proof.
    intros Hw Hr Hc L E.
    destruct (update_seq_spec no_resolve (byte_slots ss h) (byte_slots_ok ss h Hw) NEmpty (fun _ => None)
                (or_introl eq_refl) (fun hk => lk_empty hk)) as (t2 & ev & E2 & C2 & L2).
    assert (t' = t2).
    { apply canon_unique; [exact Hc|exact C2|]. intros k _. rewrite L, L2, hexops_byte_slots.
      apply apply_ops_ext. intros k'. apply lk_empty. }
    subst t2. destruct (st_root_e_ok H H_len st' t' 64 Hr) as (h' & em' & E' & Eh).
    rewrite E in E'. inversion E'; subst h' em'.
    unfold ref_sroot, ref_root, ref_trie. rewrite E2, Eh. reflexivity.
  Qed.

  Lemma sroot_empty_iff s t L : sroot H s t L -> (fst s = StEmpty <-> t = NEmpty).
  Proof.
    intros [(E & -> & _)|(HR & Hin & _)]; [tauto|]. split.
    - intros E. rewrite E in HR. apply R_inv in HR. destruct HR.
    - intros ->. destruct Hin.
  Qed.

  Lemma filter_eq_of_gt h h' ss : bytes_cmp h h' = Lt ->
    filter (sa_eq h') (filter (sa_gt h) ss) = filter (sa_eq h') ss.
  Proof.
    intros Hlt. induction ss as [|x r IH]; [reflexivity|]. cbn [filter].
    destruct (sa_gt h x) eqn:G; cbn [filter]; rewrite IH; [reflexivity|].
    destruct (sa_eq h' x) eqn:E; [|reflexivity]. exfalso.
    unfold sa_eq, sa_gt in *. destruct (bytes_cmp (sa x) h') eqn:C; try discriminate.
    apply bcmp_eq in C. rewrite C in G. apply bcmp_gt_lt in Hlt. rewrite Hlt in G. discriminate.
  Qed.

  Lemma above_keys_gt h (m : amap (list N)) : above h m -> forall kv, In kv m -> bytes_cmp h (fst kv) = Lt.
  Proof. unfold above. rewrite Forall_forall. auto. Qed.

  Lemma take_le_In p kv : forall accs, In kv (take_le p accs) -> In kv accs.
  Proof.
    induction accs as [|[h v] r IH]; [auto|]. cbn [take_le]. destruct (bytes_gtb h (range_end p)); [intros []|].
    intros [<-|Hin]; [left; reflexivity|right; apply IH, Hin].
  Qed.

  Lemma ref_sroot_gt h h' ss : bytes_cmp h h' = Lt -> ref_sroot (filter (sa_gt h) ss) h' = ref_sroot ss h'.
  Proof. intros Hlt. unfold ref_sroot, byte_slots. rewrite (filter_eq_of_gt h h' ss Hlt). reflexivity. Qed.

  Lemma leaf_gt h ss kv : bytes_cmp h (fst kv) = Lt -> leaf (filter (sa_gt h) ss) kv = leaf ss kv.
  Proof. intros Hlt. unfold leaf, corrected. rewrite (ref_sroot_gt h (fst kv) ss Hlt). reflexivity. Qed.

  Lemma rewrites_gt h ss kv : bytes_cmp h (fst kv) = Lt -> rewrites (filter (sa_gt h) ss) kv = rewrites ss kv.
  Proof. intros Hlt. unfold rewrites, corrected. rewrite (ref_sroot_gt h (fst kv) ss Hlt). reflexivity. Qed.

  Lemma bcmp_lt_le_trans a b c : bytes_cmp a b = Lt -> bytes_cmp b c <> Gt -> bytes_cmp a c = Lt.
  Proof.
    intros L1 L2. destruct (bytes_cmp b c) eqn:C; [| |congruence].
    - apply bcmp_eq in C. subst. exact L1.
    - eapply bcmp_lt_trans; eassumption.
  Qed.

  (* the dangling tail: everything up to the range end *)
  Lemma tail_core p : forall ss, ndsa ss ->
    forall k, In k (dels (fst (tail_loop p ss))) <->
              (exists v, In (k, v) ss) /\ bytes_gtb (firstn 32 k) (range_end p) = false.
  Proof.
    induction ss as [|[k0 v0] ss IH]; intros Hnd k.
    - cbn. split; [intros []|intros [[v []] _]].
    - destruct Hnd as [Hhd Hnd]. cbn [tail_loop fst].
      destruct (bytes_gtb (firstn 32 k0) (range_end p)) eqn:G.
      + cbn [dels flat_map fst]. split; [intros []|]. intros [[v [Ein|Hin]] Hle].
        * inversion Ein; subst. congruence.
        * rewrite Forall_forall in Hhd. specialize (Hhd _ Hin). unfold sa in Hhd. cbn [fst] in Hhd.
          unfold bytes_gtb in *. destruct (bytes_cmp (firstn 32 k0) (range_end p)) eqn:C; try discriminate.
          rewrite (bcmp_gt_le _ _ _ C Hhd) in Hle. discriminate.
      + destruct (tail_loop p ss) as [ws n] eqn:Et. cbn [fst dels flat_map app]. cbn [fst] in IH.
        fold (dels ws). split.
        * intros [<-|Hin]; [split; [exists v0; left; reflexivity|exact G]|].
          apply (IH Hnd) in Hin as [[v Hv] Hle]. split; [exists v; right; exact Hv|exact Hle].
        * intros [[v [Ein|Hin]] Hle]; [inversion Ein; subst; left; reflexivity|].
          right. apply (IH Hnd). split; [exists v; exact Hin|exact Hle].
  Qed.

  Lemma fed_cons p h slim accs ss : bytes_gtb h (range_end p) = false ->
    fed p ((h, slim) :: accs) ss = (tl (nibbles_of h), leaf ss (h, slim)) :: fed p accs ss.
  Proof. intros G. unfold fed. cbn [take_le]. rewrite G. reflexivity. Qed.
  Lemma fed_break p h slim accs ss : bytes_gtb h (range_end p) = true -> fed p ((h, slim) :: accs) ss = [].
  Proof. intros G. unfold fed. cbn [take_le]. rewrite G. reflexivity. Qed.
  Lemma hops_cons k v l : hops ((k, v) :: l) = (k ++ [16], v) :: hops l.
  Proof. reflexivity. Qed.

  Lemma sroot_new L : sroot H stack_new NEmpty L.
  Proof. left. auto. Qed.

  (* the account loop *)
  Lemma acct_loop_spec sc p : forall accs ss pt t r,
    sorted accs -> wf_accts accs -> ndsa ss -> wf_stor ss ->
    sroot H pt t 63 -> canon t ->
    acct_loop H sc p accs ss pt = GOk r ->
    (exists t', sroot H (p_trie r) t' 63 /\ canon t' /\
       (forall hk, lk t' hk = apply_ops (lk t) (hops (fed p accs ss)) hk) /\
       (t <> NEmpty \/ take_le p accs <> [] -> t' <> NEmpty)) /\
    (forall k, In k (dels (p_ws r) ++ dels (fst (tail_loop p (p_stor r)))) <->
               (exists v, In (k, v) ss) /\ bytes_gtb (firstn 32 k) (range_end p) = false /\
               ~ In (firstn 32 k) (map fst accs)) /\
    acws (p_ws r) = flat_map (rewrites ss) (take_le p accs) /\
    Forall (fun kv => hd 16 (nibbles_of (fst kv)) = p /\ full_account H (snd kv) <> None) (take_le p accs) /\
    (take_le p accs = [] -> p_em r = []).
  Proof.
    assert (Hbase : forall (accs ss : amap (list N)), ndsa ss ->
              (forall kv, In kv accs -> bytes_gtb (fst kv) (range_end p) = true) ->
              forall k, In k (dels [] ++ dels (fst (tail_loop p ss))) <->
                (exists v, In (k, v) ss) /\ bytes_gtb (firstn 32 k) (range_end p) = false /\
                ~ In (firstn 32 k) (map fst accs)).
    { intros accs ss Hnd Hall k. cbn [dels flat_map app]. rewrite (tail_core p ss Hnd k). split.
      - intros [Hin Hle]. split; [exact Hin|]. split; [exact Hle|]. intros Hk.
        apply in_map_iff in Hk as (kv & Ek & Hkv). specialize (Hall kv Hkv). rewrite Ek in Hall. congruence.
      - intros (Hin & Hle & _). auto. }
    induction accs as [|[h slim] accs IH]; intros ss pt t r Hso Hwa Hnd Hws Hr Hc E.
    - cbn in E. inversion E; subst. cbn [p_trie p_ws p_stor p_em take_le fed map hops apply_ops flat_map].
      split. { exists t. split; [exact Hr|]. split; [exact Hc|]. split; [reflexivity|]. intros [Ht|Hn]; [exact Ht|congruence]. }
      split. { apply (Hbase [] ss); [exact Hnd|intros kv []]. }
      split; [reflexivity|]. split; [constructor|reflexivity].
    - cbn [acct_loop] in E. inversion Hso as [|? ? ? Hab Hso']; subst. inversion Hwa as [|? ? [Hh32 Hhb] Hwa']; subst.
      cbn [fst] in *. cbn [take_le]. destruct (bytes_gtb h (range_end p)) eqn:G.
      + (* beyond the range: break *)
        inversion E; subst. rewrite (fed_break p h slim accs ss G). cbn [p_trie p_ws p_stor p_em map hops apply_ops flat_map].
        split. { exists t. split; [exact Hr|]. split; [exact Hc|]. split; [reflexivity|]. intros [Ht|Hn]; [exact Ht|congruence]. }
        split.
        { apply (Hbase ((h, slim) :: accs) ss); [exact Hnd|]. intros kv [<-|Hin]; [exact G|]. cbn [fst].
          pose proof (above_keys_gt h accs Hab kv Hin) as Hlt. unfold bytes_gtb in *.
          destruct (bytes_cmp h (range_end p)) eqn:C; try discriminate.
          apply bcmp_gt_lt in Hlt. rewrite (bcmp_gt_le h (range_end p) (fst kv) C); [reflexivity|].
          rewrite (bcmp_antisym (fst kv) h), Hlt. discriminate. }
        split; [reflexivity|]. split; [constructor|reflexivity].
      + destruct (full_account H slim) as [acc|] eqn:Ea; [|discriminate].
        destruct (stor_loop H sc h ss stack_new) as [[[[ss1 sst] ws1] nd]|e] eqn:Es; [|discriminate].
        destruct (st_root_e H sst) as [[computed em]|e] eqn:Er; [|discriminate].
        cbv zeta in E.
        remember (negb (bytes_eqb computed (a_root acc))) as stale eqn:Est.
        remember (if stale then mkAccount (a_nonce acc) (a_bal acc) computed (a_code acc) else acc) as acc' eqn:Eacc'.
        destruct (pst_update_e H p pt h (full_rlp acc')) as [[c|[pt' em']]|e] eqn:Ep; try discriminate.
        destruct (acct_loop H sc p accs ss1 pt') as [r'|e] eqn:El; [|discriminate].
        inversion E; subst r. clear E. cbn [p_trie p_ws p_stor p_em].
        destruct (stor_loop_spec H H_len sc h ss stack_new NEmpty _ _ _ _ Hnd Hws (sroot_new 64) (or_introl eq_refl) Es)
          as (R1 & R2 & R3 & R4 & ts & Hrs & Hcs & Ls).
        pose proof (computed_ref ss h sst ts computed em Hws Hrs Hcs Ls Er) as Hcomp.
        assert (Hleaf : full_rlp acc' = leaf ss (h, slim)).
        { unfold leaf, corrected. cbn [fst snd]. rewrite Ea, <- Hcomp. subst acc' stale.
          destruct (bytes_eqb computed (a_root acc)) eqn:B; cbn [negb]; [|reflexivity].
          apply bytes_eqb_eq in B. destruct acc; cbn in *; subst; reflexivity. }
        unfold pst_update_e in Ep. destruct (full_rlp acc') as [|b v] eqn:Ev; [discriminate|].
        destruct (nibbles_of h) as [|k0 kr] eqn:Enh; [discriminate|].
        destruct (N.eqb k0 p) eqn:Ek; [|discriminate]. apply N.eqb_eq in Ek. subst k0.
        assert (Hsl : slice_lt (snd pt) kr = true).
        { unfold st_update_hex_e in Ep. destruct (slice_lt (snd pt) kr); [reflexivity|discriminate]. }
        assert (Hnk : nibbles kr /\ length kr = 63%nat).
        { pose proof (nibbles_of_nibbles h Hhb) as Hn. pose proof (nibbles_of_length h) as Hl.
          rewrite Enh in Hn, Hl. inversion Hn; subst. split; [assumption|]. cbn [length] in Hl. lia. }
        destruct Hnk as [Hnk Hlk].
        destruct (st_update_hex_ok H H_len pt t 63 kr (b :: v) Hr Hc Hnk Hlk ltac:(lia) Hsl ltac:(discriminate))
          as (s1 & em1 & t1 & E1 & Hr1 & Hc1 & _ & L1 & L2).
        rewrite E1 in Ep. inversion Ep; subst s1 em1. clear Ep.
        assert (Ht1 : t1 <> NEmpty) by (intros ->; rewrite lk_empty in L1; discriminate).
        assert (Hnd1 : ndsa ss1) by (rewrite R1; apply ndsa_filter, Hnd).
        assert (Hws1 : wf_stor ss1) by (rewrite R1; apply wf_stor_filter, Hws).
        destruct (IH ss1 pt' t1 r' Hso' Hwa' Hnd1 Hws1 Hr1 Hc1 El) as ((t' & Hr' & Hc' & L' & Hne') & D' & A' & F' & _).
        assert (Hfed : fed p accs ss1 = fed p accs ss).
        { unfold fed. apply map_ext_in. intros kv Hkv. f_equal. rewrite R1. apply leaf_gt.
          apply (above_keys_gt h accs Hab). eapply take_le_In; eassumption. }
        assert (Hrw : flat_map (rewrites ss1) (take_le p accs) = flat_map (rewrites ss) (take_le p accs)).
        { rewrite !flat_map_concat_map. f_equal. apply map_ext_in. intros kv Hkv. rewrite R1. apply rewrites_gt.
          apply (above_keys_gt h accs Hab). eapply take_le_In; eassumption. }
        split.
        { exists t'. split; [exact Hr'|]. split; [exact Hc'|]. split; [|intros _; apply Hne'; left; exact Ht1].
          intros hk. rewrite L', Hfed, (fed_cons p h slim accs ss G), hops_cons. cbn [apply_ops].
          rewrite Enh. cbn [tl]. rewrite <- Hleaf.
          apply apply_ops_ext. intros k'. unfold put.
          destruct (bytes_eqb k' (kr ++ [16])) eqn:B.
          - apply bytes_eqb_eq in B. subst. exact L1.
          - apply L2. intros ->. rewrite bytes_eqb_refl in B. discriminate. }
        split.
        { intros k. rewrite !dels_app, !dels_nodes, R2.
          assert (Hd3 : dels (if stale then [WAcct h (slim_rlp H acc')] else []) = []) by (destruct stale; reflexivity).
          rewrite Hd3. cbn [app]. rewrite <- app_assoc, in_app_iff, (D' k). split.
          - intros [Hin|((v0 & Hin) & Hle & Hni)].
            + apply in_map_iff in Hin as ([k1 v1] & Ek1 & Hin). cbn [fst] in Ek1. subst k1.
              apply filter_In in Hin as [Hin Hlt]. unfold sa_lt, sa in Hlt. cbn [fst] in Hlt.
              destruct (bytes_cmp (firstn 32 k) h) eqn:C; try discriminate.
              split; [exists v1; exact Hin|]. split.
              * unfold bytes_gtb in *. rewrite (bcmp_lt_le_trans _ _ _ C); [reflexivity|].
                destruct (bytes_cmp h (range_end p)); congruence.
              * cbn [map fst]. intros [Eh|Hk].
                -- rewrite <- Eh, bcmp_refl in C. discriminate.
                -- apply in_map_iff in Hk as (kv & Ekv & Hkv).
                   pose proof (above_keys_gt h accs Hab kv Hkv) as Hlt2. rewrite Ekv in Hlt2.
                   pose proof (bcmp_lt_trans _ _ _ C Hlt2) as T. rewrite bcmp_refl in T. discriminate.
            + rewrite R1 in Hin. apply filter_In in Hin as [Hin Hgt]. unfold sa_gt, sa in Hgt. cbn [fst] in Hgt.
              split; [exists v0; exact Hin|]. split; [exact Hle|]. cbn [map fst]. intros [Eh|Hk]; [|exact (Hni Hk)].
              rewrite <- Eh, bcmp_refl in Hgt. discriminate.
          - intros ((v0 & Hin) & Hle & Hni). cbn [map fst] in Hni.
            destruct (bytes_cmp (firstn 32 k) h) eqn:C.
            + apply bcmp_eq in C. exfalso. apply Hni. left. congruence.
            + left. apply in_map_iff. exists (k, v0). split; [reflexivity|]. apply filter_In. split; [exact Hin|].
              unfold sa_lt, sa. cbn [fst]. rewrite C. reflexivity.
            + right. split; [exists v0; rewrite R1; apply filter_In; split; [exact Hin|]; unfold sa_gt, sa; cbn [fst]; rewrite C; reflexivity|].
              split; [exact Hle|]. intros Hk. apply Hni. right. exact Hk. }
        split.
        { rewrite !acws_app, !acws_nodes, R3, A', Hrw. cbn [app flat_map]. f_equal.
          unfold rewrites, corrected. cbn [fst snd]. rewrite Ea, <- Hcomp. subst acc' stale.
          destruct (bytes_eqb computed (a_root acc)); reflexivity. }
        split.
        { constructor; [split; [cbn [fst]; rewrite Enh; reflexivity|cbn [snd]; rewrite Ea; discriminate]|exact F']. }
        intros Habs. discriminate.
  Qed.
End Walk2.
