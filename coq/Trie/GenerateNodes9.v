(* Trie/GenerateNodes9.v — the shape of a successful run as a whole (C11): the
   partition subtries, the assembled trie (which IS the state trie built by
   ordinary insertion) and the writes of assembleRoot, in the three cases. *)
From Coq Require Import Permutation.
From GV Require Import Lib.Tactics Lib.Bytes Rlp.Codec Trie.Hex Trie.HexProofs Trie.Node Trie.Ops Trie.Hash Trie.OpsProofs Trie.Canon Trie.Stack Trie.StackProofs Trie.ProofProofs Trie.Commit Trie.CommitProofs Trie.CommitTracer Trie.Generate Trie.GenerateProofs Trie.GenerateWalk Trie.GenerateWalk2 Trie.GenerateWalk3 Trie.GenerateKeys Trie.GenerateSize Trie.GenerateAssemble Trie.GenerateAssemble2 Trie.GenerateSched Trie.GenerateRoot Trie.GenerateRoot2 Trie.GenerateRoot3.
Local Open Scope N_scope.

Section Nodes9.
  Variable H : list N -> list N.
  Hypothesis H_len : forall x, length (H x) = 32%nat.

  Definition state_trie (db : gdb) : node :=
    match ref_trie (leaves H db) with Some t => t | None => NEmpty end.

  Inductive asm_case (sc : scheme) (ts : list node) (A : node) (ws : list wop) : Prop :=
  | asm_empty : (forall t, In t ts -> t = NEmpty) -> A = NEmpty -> ws = [] -> asm_case sc ts A ws
  | asm_single (p : nat) t e e' :
      (p < 16)%nat -> ts = repeat NEmpty p ++ t :: repeat NEmpty (15 - p) -> t <> NEmpty ->
      can t -> node_enc H t = Some e -> (32 <= length e)%nat ->
      A = mount (N.of_nat p) t -> node_enc H A = Some e' ->
      ws = WNode (node_key sc zero_hash [] (H e')) e' ::
           (if is_short t then [WNodeDel (node_key sc zero_hash [N.of_nat p] (H e))] else []) ->
      asm_case sc ts A ws
  | asm_many e :
      (2 <= count ts)%nat -> A = NFull (ts ++ [NEmpty]) -> node_enc H A = Some e ->
      ws = [WNode (node_key sc zero_hash [] (H e)) e] -> asm_case sc ts A ws.

  Theorem assembly_cases sc expected db st : wf_db db -> small_state H db ->
    fst (generate H sc expected db) = GOk st ->
    exists rs ws ts,
      run_partitions H sc db partitions = GOk rs /\
      assemble_root H sc (map r_root rs) = GOk (expected, ws) /\
      snd (generate H sc expected db) = apply_ws (fold_left (fun d r => apply_ws d (r_ws r)) rs db) ws /\
      F3 (pspec H db) partitions rs ts /\ length ts = 16%nat /\ Forall (tgood H) ts /\
      asm_case sc ts (state_trie db) ws.
  Proof.
    intros Hwf Hsm Hok.
    destruct (gen_ok_root H sc expected db st Hok) as (rs & ws & Er & Ea & Esnd).
    pose proof (run_partitions_F2 H sc db partitions rs Er) as HF2.
    assert (HF2' : Forall2 (fun p r => exists t, pspec H db p r t) partitions rs).
    { eapply F2_impl; [|exact HF2]. intros p r E. apply (partition_spec H H_len sc p db r Hwf E). }
    destruct (F2_ex_F3 _ _ _ HF2') as [ts HF3].
    pose proof (F3_len _ _ _ _ HF3) as Lts. change (length partitions) with 16%nat in Lts.
    assert (Hblobs : map r_root rs = map (blob_of H) ts).
    { eapply F3_map; [exact HF3|]. intros p r t (_ & _ & _ & Hb & _). exact Hb. }
    assert (Hgood : Forall (tgood H) ts).
    { rewrite Forall_forall. intros t Ht. destruct (F3_In3 _ _ _ _ HF3 t Ht) as (p & r & _ & _ & Hp).
      eapply pspec_good; eassumption. }
    exists rs, ws, ts. split; [exact Er|]. split; [exact Ea|]. split; [exact Esnd|]. split; [exact HF3|]. split; [exact Lts|].
    split; [exact Hgood|].
    rewrite Hblobs in Ea.
    assert (Hbo : bytes_ops (leaves H db)).
    { unfold bytes_ops, leaves. rewrite Forall_forall. intros kv Hin. apply in_map_iff in Hin as (x & <- & Hx).
      pose proof (wf_ka db Hwf) as Hk. unfold wf_accts in Hk. rewrite Forall_forall in Hk. apply (Hk x Hx). }
    destruct (ref_root_spec H H_len (leaves H db) Hbo) as (S & ev & h & EuS & HcS & LS & EhS & ErS & _).
    assert (Est : state_trie db = S) by (unfold state_trie, ref_trie; rewrite EuS; reflexivity).
    rewrite Est.
    assert (LSq : forall q r, lk S (q :: r) = apply_ops (fun _ => None) (hops (pleaves H db q)) r).
    { intros q r. rewrite LS.
      rewrite (apply_ops_group q (hexops (leaves H db)) ltac:(unfold hexops, keybytes_to_hex; rewrite Forall_forall;
                 intros kv Hin; apply in_map_iff in Hin as (x & <- & _); cbn [fst]; destruct (nibbles_of (fst x)); discriminate)
                 (fun _ => None) (fun _ => None) r eq_refl).
      unfold leaves, pleaves, part. rewrite (group_eq (leaf H (g_stor db)) q (g_accts db) (wf_ka db Hwf)). reflexivity. }
    assert (Hid : forall A, canon A ->
              (forall q r, lk A (q :: r) = match nth_error ts (N.to_nat q) with Some t => lk t r | None => None end) -> A = S).
    { intros A HcA LA. apply canon_unique; [exact HcA|exact HcS|].
      intros k Hk. destruct k as [|q r]; [destruct Hk|]. rewrite LA, LSq.
      destruct (N.lt_ge_cases q 16) as [Hq|Hq].
      - assert (Hnp : nth_error partitions (N.to_nat q) = Some q).
        { assert (Hq' : (N.to_nat q < 16)%nat) by lia. rewrite <- (N2Nat.id q) at 2. apply nth_partitions. exact Hq'. }
        destruct (F3_nth _ _ _ _ HF3 _ _ Hnp) as (r0 & t & _ & Et & (_ & Lt & _)). rewrite Et. apply Lt.
      - rewrite (proj2 (nth_error_None ts (N.to_nat q))) by lia.
        assert (Hpe : part q db = []).
        { unfold part. apply filter_nil_of. intros kv Hin. unfold in_part. apply N.eqb_neq.
          pose proof (wf_ka db Hwf) as Hk2. unfold wf_accts in Hk2. rewrite Forall_forall in Hk2.
          destruct (Hk2 kv Hin) as [L32 Hb]. destruct (fst kv) as [|x a]; [discriminate|]. rewrite nib0_cons.
          simpl in Hb. apply andb_true_iff in Hb as [Hx _]. unfold Hex.byteb in Hx.
          assert (x / 16 < 16) by (apply N.div_lt_upper_bound; lia). lia. }
        unfold pleaves. rewrite Hpe. reflexivity. }
    destruct (ts_shape ts) as [Hall|[(p & t & Ets & Hne & Hp)|Hcnt]].
    - rewrite (all_empty_repeat ts Hall), Lts, map_repeat in Ea. cbn [blob_of] in Ea.
      destruct (assemble_empty H sc) as [Ae _]. rewrite Ae in Ea. inversion Ea; subst.
      apply asm_empty; [exact Hall| |reflexivity]. symmetry.
      apply Hid; [left; reflexivity|]. intros q r. rewrite lk_empty.
      destruct (nth_error ts (N.to_nat q)) as [t|] eqn:Et; [|reflexivity].
      rewrite (Hall t (nth_error_In _ _ Et)). reflexivity.
    - rewrite Lts in Ets, Hp.
      assert (Ht : In t ts) by (rewrite Ets; apply in_or_app; right; left; reflexivity).
      rewrite Forall_forall in Hgood.
      destruct (blob_of_good H t (Hgood t Ht) Hne) as (e & Eb & Ee & Le & Hc & Hw).
      assert (Hsb : map (blob_of H) ts = single_blobs p e).
      { rewrite Ets, map_app. cbn [map]. rewrite !map_repeat, Eb. cbn [blob_of]. unfold single_blobs.
        replace (16 - 1 - p)%nat with (15 - p)%nat by lia. reflexivity. }
      rewrite Hsb in Ea.
      destruct (assemble_single H H_len sc p t e Hp Hc Hw Ee Le) as (e' & Ee' & Ehm & Am).
      rewrite Am in Ea. inversion Ea as [[Eexp Ews]].
      assert (E1 : mount (N.of_nat p) t = S).
      { apply Hid; [right; apply mount_can; [lia|exact Hc]|]. intros q r.
        rewrite (mount_lk (N.of_nat p) t q r Hc), Ets, nth_single_lk.
        destruct (N.eqb_spec (N.of_nat p) q) as [<-|Nq].
        - rewrite Nat2N.id, Nat.eqb_refl. reflexivity.
        - replace (Nat.eqb p (N.to_nat q)) with false; [reflexivity|]. symmetry. apply Nat.eqb_neq. lia. }
      replace (16 - 1 - p)%nat with (15 - p)%nat in Ets by lia.
      apply (asm_single sc ts S _ p t e e' Hp Ets Hne Hc Ee Le (eq_sym E1)); [rewrite <- E1; exact Ee'|reflexivity].
    - assert (Hslots : Forall (slot_ok H) ts).
      { eapply Forall_impl; [|exact Hgood]. intros t [->|(Hc & _ & e & Ee & Le)]; [left; reflexivity|right].
        split; [destruct (can_cases _ Hc) as [(? & ? & -> & _)|[(? & ? & -> & _)|(? & ->)]]; exact I|]. exists e. auto. }
      destruct (assemble_many H H_len sc ts Lts Hslots ltac:(rewrite (count_blobs H ts Hgood); exact Hcnt))
        as (e & Ee & Ehb & Ab).
      rewrite Ab in Ea. inversion Ea as [[Eexp Ews]].
      assert (E2 : NFull (ts ++ [NEmpty]) = S).
      { apply Hid.
        - right. apply many_can; [exact Lts| |exact Hcnt].
          eapply Forall_impl; [|exact Hgood]. intros t [->|(Hc & _)]; [left; reflexivity|right; exact Hc].
        - intros q r. apply many_lk. exact Lts. }
      apply (asm_many sc ts S _ e Hcnt (eq_sym E2)); [rewrite <- E2; exact Ee|reflexivity].
  Qed.
End Nodes9.
