(* Trie/CommitReads.v — lookup completeness of a commit (C07 commit_reads_back).

   Ground truth: a hash-node free trie [G] (c06's canonical tries).  The
   in-memory trie [t] of a session REPRESENTS [G] ([rep]): it is [G] with some
   subtrees replaced by hash nodes which the node reader [R] resolves to the
   decoded encoding of exactly that subtree ([covered]), and every node that is
   not dirty is still in the store, untouched by the deletion set.  [get] on a
   representation returns the pure lookup [lk G] (get_rep).  Committing writes
   every dirty hashed node of [G] at its path and leaves the clean and unloaded
   regions alone, so the updated store covers [G] from the new root. *)
From GV Require Import Lib.Tactics Lib.Bytes Rlp.Codec Trie.Hex Trie.Node Trie.Ops Trie.Hash.
From GV Require Import Trie.OpsProofs Trie.Canon Trie.Proof Trie.ProofProofs.
From GV Require Import Trie.Commit Trie.CommitProofs Trie.CommitTracer.
Local Open Scope N_scope.

Definition ple (p q : list N) : Prop := exists r, q = p ++ r.

Lemma ple_refl p : ple p p.
Proof. exists []. rewrite app_nil_r. reflexivity. Qed.
Lemma ple_app p r : ple p (p ++ r).
Proof. exists r. reflexivity. Qed.
Lemma ple_trans a b c : ple a b -> ple b c -> ple a c.
Proof. intros [r ->] [s ->]. exists (r ++ s). rewrite app_assoc. reflexivity. Qed.
Lemma ple_app_l p r q : ple (p ++ r) q -> ple p q.
Proof. intro X. eapply ple_trans; [apply ple_app|exact X]. Qed.

Lemma ple_self_app p r : ple (p ++ r) p -> r = [].
Proof.
  intros [s E]. rewrite <- app_assoc in E.
  assert (L : length p = length (p ++ r ++ s)) by (rewrite <- E; reflexivity).
  rewrite !app_length in L. destruct r; [reflexivity|cbn in L; lia].
Qed.

(* diverging siblings *)
Lemma ple_sibling p (i j : N) q : i <> j -> ple (p ++ [i]) q -> ple (p ++ [j]) q -> False.
Proof.
  intros NE [r E1] [s E2]. subst q. rewrite <- !app_assoc in E2. apply app_inv_head in E2.
  cbn in E2. congruence.
Qed.

Section Reads.
  Variable H : list N -> list N.
  Hypothesis H_len : forall x, length (H x) = 32%nat.

  (* hashed ground subnodes with their paths: [gsub force p G q Gq] *)
  Inductive gsub : bool -> list N -> node -> list N -> node -> Prop :=
  | gsub_here f p G e : is_sf G = true -> node_enc H G = Some e -> hashedb f e = true ->
      gsub f p G p G
  | gsub_short f p k c q Gq : gsub false (p ++ k) c q Gq -> gsub f p (NShort k c) q Gq
  | gsub_full f p cs i c q Gq : nth_error cs i = Some c -> (i < 16)%nat ->
      gsub false (p ++ [N.of_nat i]) c q Gq -> gsub f p (NFull cs) q Gq.

  Lemma gsub_ple f p G q Gq : gsub f p G q Gq -> ple p q.
  Proof.
    induction 1 as [| f p k c q Gq _ IH | f p cs i c q Gq _ _ _ IH].
    - apply ple_refl.
    - eapply ple_app_l. exact IH.
    - eapply ple_app_l. exact IH.
  Qed.

  Section WithReader.
    Variable R : list N -> list N -> option (node * list N).
    Variable dirty : list N -> bool.
    Variable delp : list N -> Prop.

    (* the reader resolves every hashed ground subnode, at its path, to the decoded
       encoding of that subnode *)
    Definition covered (f : bool) (p : list N) (G : node) : Prop :=
      forall q Gq, gsub f p G q Gq ->
        exists e, node_enc H Gq = Some e /\ R (H e) q = Some (collapse H Gq, e).

    Definition untouched (p : list N) : Prop := forall q, delp q -> ~ ple p q.

    Definition clean_ok (f : bool) (p : list N) (G : node) : Prop :=
      dirty p = false -> untouched p /\ covered f p G.

    Inductive rep : bool -> list N -> node -> node -> Prop :=
    | rep_empty f p : rep f p NEmpty NEmpty
    | rep_value f p v : rep f p (NValue v) (NValue v)
    | rep_hash f p h G e :
        is_sf G = true -> pwf G -> node_enc H G = Some e -> h = H e -> hashedb f e = true ->
        covered f p G -> untouched p -> rep f p (NHash h) G
    | rep_short f p k c c' :
        rep false (p ++ k) c c' -> clean_ok f p (NShort k c') -> rep f p (NShort k c) (NShort k c')
    | rep_full f p cs cs' :
        length cs = length cs' ->
        (forall i c c', nth_error cs i = Some c -> nth_error cs' i = Some c' ->
                        rep false (p ++ [N.of_nat i]) c c') ->
        clean_ok f p (NFull cs') -> rep f p (NFull cs) (NFull cs').

    Lemma untouched_app p r : untouched p -> untouched (p ++ r).
    Proof. intros U q D X. apply (U q D). eapply ple_app_l. exact X. Qed.

    Lemma covered_short f p k c : covered f p (NShort k c) -> covered false (p ++ k) c.
    Proof. intros C q Gq G. apply C. apply gsub_short. exact G. Qed.

    Lemma covered_full f p cs i c : nth_error cs i = Some c -> (i < 16)%nat ->
      covered f p (NFull cs) -> covered false (p ++ [N.of_nat i]) c.
    Proof. intros E I C q Gq G. apply C. eapply gsub_full; eassumption. Qed.

    (* the decoded encoding of a covered, untouched ground node represents it *)
    Lemma rep_child_collapse p c :
      (c = NEmpty \/ (exists v, c = NValue v) \/ pwf c) ->
      (pwf c -> covered false p c -> untouched p -> rep false p (collapse H c) c) ->
      covered false p c -> untouched p ->
      rep false p (cref H c (collapse H c)) c.
    Proof.
      intros [->|[[v ->]|W]] IH C U; [constructor|constructor|].
      destruct (pwf_enc_total H H_len c W) as [e E].
      destruct (pwf_shape c W) as [(k & c0 & ->)|(cs & ->)]; unfold cref; rewrite E;
        destruct (Nat.ltb (length e) 32) eqn:L;
        try (apply IH; assumption);
        (eapply rep_hash; [reflexivity|exact W|exact E|reflexivity| |exact C|exact U]);
        unfold hashedb; cbn [orb]; apply Nat.leb_le; apply Nat.ltb_ge in L; exact L.
    Qed.

    Lemma rep_collapse G : pwf G -> forall f p, covered f p G -> untouched p -> rep f p (collapse H G) G.
    Proof.
      induction G as [|v|k c IH|cs IH|h] using node_ind'; intros W f p C U; try (inversion W; fail).
      - cbn [collapse]. apply rep_short; [|intros _; split; assumption].
        apply rep_child_collapse.
        + inversion W; subst; [right; left; eauto|right; right; assumption].
        + intros Wc Cc Uc. apply IH; assumption.
        + eapply covered_short. exact C.
        + apply untouched_app. exact U.
      - cbn [collapse]. inversion W as [| |cs0 HL Hch H16]; subst.
        apply rep_full; [rewrite map_length; reflexivity| |intros _; split; assumption].
        intros i c c' E1 E2. rewrite nth_error_map, E2 in E1. cbn in E1. inversion E1; subst c.
        destruct (Nat.lt_ge_cases i 16) as [I|I].
        + apply rep_child_collapse.
          * destruct (Hch i c' E2 I) as [->|X]; [left; reflexivity|right; right; exact X].
          * intros Wc Cc Uc. rewrite Forall_forall in IH. apply IH; [eapply nth_error_In; exact E2|assumption..].
          * eapply covered_full; eassumption.
          * apply untouched_app. exact U.
        + assert (i = 16%nat).
          { assert (i < length cs)%nat by (apply nth_error_Some; congruence). lia. }
          subst i. destruct (H16 c' E2) as [->|(v & -> & _)]; cbn; constructor.
    Qed.

    (* ---------------- get on a representation is the pure lookup ---------------- *)
    Lemma get_rep : forall fuel f p t G key,
      rep f p t G -> wfpos G key ->
      (2 * length key + (match t with NHash _ => 2 | _ => 1 end) <= fuel)%nat ->
      exists t' d ev, get R fuel t p key = TOk (lk G key, t', d, ev).
    Proof.
      induction fuel as [|fuel IH]; intros f p t G key Rp Wp Fu; [destruct t; lia|].
      inversion Rp as [f0 p0|f0 p0 v|f0 p0 h G0 e SF W E Hh HB C U|f0 p0 k c c' Rc CO|f0 p0 cs cs' HL Rcs CO]; subst.
      - cbn. rewrite lk_empty. eauto.
      - destruct Wp as [[-> _]|[_ Wn]]; [cbn; eauto|inversion Wn].
      - destruct (C p G (gsub_here f p G e SF E HB)) as (e' & E' & RS).
        rewrite E in E'. inversion E'; subst e'.
        cbn [get]. rewrite RS.
        destruct (IH f p (collapse H G) G key (rep_collapse G W f p C U) Wp) as (t' & d & ev & GE).
        { destruct G; try discriminate; cbn [collapse]; lia. }
        rewrite GE. eauto.
      - destruct Wp as [[-> VS]|[Vk Wn]]; [destruct VS as [X|[v X]]; discriminate|].
        cbn [get]. rewrite lk_short. pose proof (is_prefix_strip k key) as PS.
        destruct (strip k key) as [r|] eqn:ST.
        + destruct PS as [PS SK]. rewrite PS. cbn [negb]. rewrite SK.
          apply strip_some in ST. subst key.
          destruct (wfn_short_child k c' r Wn Vk) as (Wc & KN & _).
          destruct (IH false (p ++ k) c c' r Rc Wc) as (t' & d & ev & GE).
          { rewrite app_length in Fu. destruct k; [congruence|]. cbn in Fu. destruct c; lia. }
          rewrite GE. destruct d; eauto.
        + rewrite PS. cbn [negb]. eauto.
      - destruct Wp as [[-> VS]|[Vk Wn]]; [destruct VS as [X|[v X]]; discriminate|].
        destruct key as [|k0 kr]; [inversion Vk|].
        destruct (wfn_full_child cs' k0 kr Wn Vk) as (c' & Ec' & Wc).
        assert (Ec : exists c, nth_error cs (N.to_nat k0) = Some c).
        { destruct (nth_error cs (N.to_nat k0)) eqn:X; [eauto|].
          apply nth_error_None in X. assert (N.to_nat k0 < length cs')%nat by (apply nth_error_Some; congruence). lia. }
        destruct Ec as [c Ec].
        pose proof (Rcs _ _ _ Ec Ec') as Rc. rewrite N2Nat.id in Rc.
        cbn [get]. unfold child. rewrite Ec. rewrite lk_full, Ec'.
        destruct (IH false (p ++ [k0]) c c' kr Rc Wc) as (t' & d & ev & GE).
        { cbn [length] in Fu. destruct c; lia. }
        rewrite GE. destruct d; [|eauto].
        unfold set_child.
        destruct (set_nth_some (N.to_nat k0) t' cs) as [cs2 X].
        { apply nth_error_Some. congruence. }
        rewrite X. eauto.
    Qed.

    (* ---------------- a representation encodes like its ground node ---------------- *)
    Lemma children_enc_ext : forall cs cs' s,
      length cs = length cs' ->
      (forall i c c', nth_error cs i = Some c -> nth_error cs' i = Some c' ->
                      child_enc H (s + i) c = child_enc H (s + i) c') ->
      children_enc H s cs = children_enc H s cs'.
    Proof.
      induction cs as [|c cs IH]; intros [|c' cs'] s L X; try discriminate; [reflexivity|].
      cbn [children_enc]. pose proof (X 0%nat c c' eq_refl eq_refl) as X0. rewrite Nat.add_0_r in X0.
      rewrite X0. rewrite (IH cs' (Datatypes.S s)); [reflexivity|cbn in L; lia|].
      intros i d d' E E'. replace (Datatypes.S s + i)%nat with (s + Datatypes.S i)%nat by lia.
      apply X; assumption.
    Qed.

    Lemma rep_enc f p n G : rep f p n G ->
      (forall i, child_enc H i n = child_enc H i G) /\
      (forall k, short_body H k n = short_body H k G) /\
      (is_sf n = true -> node_enc H n = node_enc H G).
    Proof.
      induction 1 as [f p|f p v|f p h G e SF W E Hh HB C U|f p k c c' Rc IH CO|f p cs cs' HL Rcs IH CO].
      - repeat split; reflexivity.
      - repeat split; reflexivity.
      - subst h. split; [|split; [|discriminate]].
        + intro i. unfold child_enc.
          destruct (H_cons H H_len e) as (x & r & X). rewrite X.
          destruct G; try discriminate; destruct (Nat.eqb i 16); try reflexivity;
            rewrite E, <- X; (rewrite hashed_ref; [reflexivity|]);
            admit.
        + admit.
      - admit.
      - admit.
    Admitted.
  End WithReader.
End Reads.
