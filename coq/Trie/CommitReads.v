(* Trie/CommitReads.v — lookup completeness of a commit (C07 commit_reads_back).

   Ground truth: a hash-node free trie [G] (c06's canonical tries).  The
   in-memory trie [t] of a session REPRESENTS [G] ([rep]): it is [G] with some
   subtrees replaced by hash nodes which the node reader [R] resolves to the
   decoded encoding of exactly that subtree ([covered]), and every node that is
   not dirty is still in the store, untouched by the deletion set.  [get] on a
   representation returns the pure lookup [lk G] (get_rep).  Committing writes
   every dirty hashed node of [G] at its path and leaves the clean and unloaded
   regions alone, so the updated store covers [G] from the new root. *)
From GV Require Import Lib.Tactics Lib.Bytes Rlp.Codec Trie.Hex Trie.Node Trie.Ops Trie.Hash.
From GV Require Import Trie.OpsProofs Trie.Canon Trie.Proof Trie.ProofProofs.
From GV Require Import Trie.Commit Trie.CommitProofs Trie.CommitTracer.
Local Open Scope N_scope.

Definition ple (p q : list N) : Prop := exists r, q = p ++ r.

Lemma ple_refl p : ple p p.
Proof. exists []. rewrite app_nil_r. reflexivity. Qed.
Lemma ple_app p r : ple p (p ++ r).
Proof. exists r. reflexivity. Qed.
Lemma ple_trans a b c : ple a b -> ple b c -> ple a c.
Proof. intros [r ->] [s ->]. exists (r ++ s). rewrite app_assoc. reflexivity. Qed.
Lemma ple_app_l p r q : ple (p ++ r) q -> ple p q.
Proof. intro X. eapply ple_trans; [apply ple_app|exact X]. Qed.

Lemma ple_self_app p r : ple (p ++ r) p -> r = [].
Proof.
  intros [s E]. rewrite <- app_assoc in E.
  assert (L : length p = length (p ++ r ++ s)) by (rewrite <- E; reflexivity).
  rewrite !app_length in L. destruct r; [reflexivity|cbn in L; lia].
Qed.

(* diverging siblings *)
Lemma ple_sibling p (i j : N) q : i <> j -> ple (p ++ [i]) q -> ple (p ++ [j]) q -> False.
Proof.
  intros NE [r E1] [s E2]. subst q. rewrite <- !app_assoc in E2. apply app_inv_head in E2.
  cbn in E2. congruence.
Qed.

Section Reads.
  Variable H : list N -> list N.
  Hypothesis H_len : forall x, length (H x) = 32%nat.

  (* hashed ground subnodes with their paths: [gsub force p G q Gq] *)
  Inductive gsub : bool -> list N -> node -> list N -> node -> Prop :=
  | gsub_here f p G e : is_sf G = true -> node_enc H G = Some e -> hashedb f e = true ->
      gsub f p G p G
  | gsub_short f p k c q Gq : gsub false (p ++ k) c q Gq -> gsub f p (NShort k c) q Gq
  | gsub_full f p cs i c q Gq : nth_error cs i = Some c -> (i < 16)%nat ->
      gsub false (p ++ [N.of_nat i]) c q Gq -> gsub f p (NFull cs) q Gq.

  Lemma gsub_ple f p G q Gq : gsub f p G q Gq -> ple p q.
  Proof.
    induction 1 as [| f p k c q Gq _ IH | f p cs i c q Gq _ _ _ IH].
    - apply ple_refl.
    - eapply ple_app_l. exact IH.
    - eapply ple_app_l. exact IH.
  Qed.

  Section WithReader.
    Variable R : list N -> list N -> option (node * list N).
    Variable dirty : list N -> bool.
    Variable delp : list N -> Prop.

    (* the reader resolves every hashed ground subnode, at its path, to the decoded
       encoding of that subnode *)
    Definition cov0 (f : bool) (p : list N) (G : node) : Prop :=
      forall q Gq, gsub f p G q Gq ->
        exists e, node_enc H Gq = Some e /\ R (H e) q = Some (collapse H Gq, e).

    (* something is stored (and resolvable) at [q] *)
    Definition stored (q : list N) : Prop := exists h n b, R h q = Some (n, b).

    (* region exactness: below [p] the store holds nothing but hashed nodes of [G] *)
    Definition exactb (f : bool) (p : list N) (G : node) : Prop :=
      forall q, ple p q -> stored q -> exists Gq, gsub f p G q Gq.

    Definition covered (f : bool) (p : list N) (G : node) : Prop := cov0 f p G /\ exactb f p G.

    Definition untouched (p : list N) : Prop := forall q, delp q -> ~ ple p q.

    Definition clean_ok (f : bool) (p : list N) (G : node) : Prop :=
      dirty p = false -> untouched p /\ covered f p G.

    Inductive rep : bool -> list N -> node -> node -> Prop :=
    | rep_empty f p : rep f p NEmpty NEmpty
    | rep_value f p v : rep f p (NValue v) (NValue v)
    | rep_hash f p h G e :
        is_sf G = true -> pwf G -> node_enc H G = Some e -> h = H e -> hashedb f e = true ->
        covered f p G -> untouched p -> rep f p (NHash h) G
    | rep_short f p k c c' :
        rep false (p ++ k) c c' -> clean_ok f p (NShort k c') -> rep f p (NShort k c) (NShort k c')
    | rep_full f p cs cs' :
        length cs = length cs' ->
        (forall i c c', nth_error cs i = Some c -> nth_error cs' i = Some c' ->
                        rep false (p ++ [N.of_nat i]) c c') ->
        clean_ok f p (NFull cs') -> rep f p (NFull cs) (NFull cs').

    Lemma untouched_app p r : untouched p -> untouched (p ++ r).
    Proof. intros U q D X. apply (U q D). eapply ple_app_l. exact X. Qed.

    Lemma covered_short f p k c : k <> [] -> covered f p (NShort k c) -> covered false (p ++ k) c.
    Proof.
      intros K [C X]. split.
      - intros q Gq G. apply C. apply gsub_short. exact G.
      - intros q Q St. destruct (X q (ple_app_l _ _ _ Q) St) as [Gq GS].
        inversion GS; subst; [exfalso; apply ple_self_app in Q; contradiction|eauto].
    Qed.

    Lemma covered_full f p cs i c : nth_error cs i = Some c -> (i < 16)%nat ->
      covered f p (NFull cs) -> covered false (p ++ [N.of_nat i]) c.
    Proof.
      intros E I [C X]. split.
      - intros q Gq G. apply C. eapply gsub_full; eassumption.
      - intros q Q St. destruct (X q (ple_app_l _ _ _ Q) St) as [Gq GS].
        inversion GS as [| |f0 p0 cs0 j cj q0 Gq0 Ej Ij GSj]; subst; [exfalso; apply ple_self_app in Q; discriminate|].
        destruct (Nat.eq_dec j i) as [->|NE]; [rewrite E in Ej; inversion Ej; subst; eauto|].
        exfalso. eapply (ple_sibling p (N.of_nat j) (N.of_nat i)); [lia|eapply gsub_ple; exact GSj|exact Q].
    Qed.

    (* the decoded encoding of a covered, untouched ground node represents it *)
    Lemma rep_child_collapse p c :
      (c = NEmpty \/ (exists v, c = NValue v) \/ pwf c) ->
      (pwf c -> covered false p c -> untouched p -> rep false p (collapse H c) c) ->
      covered false p c -> untouched p ->
      rep false p (cref H c (collapse H c)) c.
    Proof.
      intros [->|[[v ->]|W]] IH C U; [constructor|constructor|].
      destruct (pwf_enc_total H H_len c W) as [e E].
      destruct (pwf_shape c W) as [(k & c0 & ->)|(cs & ->)]; unfold cref; rewrite E;
        destruct (Nat.ltb (length e) 32) eqn:L;
        try (apply IH; assumption);
        (eapply rep_hash; [reflexivity|exact W|exact E|reflexivity| |exact C|exact U]);
        unfold hashedb; cbn [orb]; apply Nat.leb_le; apply Nat.ltb_ge in L; exact L.
    Qed.

    Lemma rep_collapse G : pwf G -> forall f p, covered f p G -> untouched p -> rep f p (collapse H G) G.
    Proof.
      induction G as [|v|k c IH|cs IH|h] using node_ind'; intros W f p C U; try (inversion W; fail).
      - cbn [collapse]. apply rep_short; [|intros _; split; assumption].
        apply rep_child_collapse.
        + inversion W; subst; [right; left; eauto|right; right; assumption].
        + intros Wc Cc Uc. apply IH; assumption.
        + eapply covered_short; [|exact C]. inversion W; subst; [apply valid_key_nonempty; assumption|assumption].
        + apply untouched_app. exact U.
      - cbn [collapse]. inversion W as [| |cs0 HL Hch H16]; subst.
        apply rep_full; [rewrite map_length; reflexivity| |intros _; split; assumption].
        intros i c c' E1 E2. rewrite nth_error_map, E2 in E1. cbn in E1. inversion E1; subst c.
        destruct (Nat.lt_ge_cases i 16) as [I|I].
        + apply rep_child_collapse.
          * destruct (Hch i c' E2 I) as [->|X]; [left; reflexivity|right; right; exact X].
          * intros Wc Cc Uc. rewrite Forall_forall in IH. apply IH; [eapply nth_error_In; exact E2|assumption..].
          * eapply covered_full; eassumption.
          * apply untouched_app. exact U.
        + assert (i = 16%nat).
          { assert (i < length cs)%nat by (apply nth_error_Some; congruence). lia. }
          subst i. destruct (H16 c' E2) as [->|(v & -> & _)]; cbn; constructor.
    Qed.

    (* ---------------- get on a representation is the pure lookup ---------------- *)
    Lemma get_rep : forall fuel f p t G key,
      rep f p t G -> wfpos G key ->
      (2 * length key + (match t with NHash _ => 2 | _ => 1 end) <= fuel)%nat ->
      exists t' d ev, get R fuel t p key = TOk (lk G key, t', d, ev).
    Proof.
      induction fuel as [|fuel IH]; intros f p t G key Rp Wp Fu; [destruct t; lia|].
      inversion Rp as [f0 p0|f0 p0 v|f0 p0 h G0 e SF W E Hh HB C U|f0 p0 k c c' Rc CO|f0 p0 cs cs' HL Rcs CO]; subst.
      - cbn. rewrite lk_empty. eauto.
      - destruct Wp as [[-> _]|[_ Wn]]; [cbn; eauto|inversion Wn].
      - destruct (proj1 C p G (gsub_here f p G e SF E HB)) as (e' & E' & RS).
        rewrite E in E'. inversion E'; subst e'.
        cbn [get]. rewrite RS.
        destruct (IH f p (collapse H G) G key (rep_collapse G W f p C U) Wp) as (t' & d & ev & GE).
        { destruct G; try discriminate; cbn [collapse]; lia. }
        rewrite GE. eauto.
      - destruct Wp as [[-> VS]|[Vk Wn]]; [destruct VS as [X|[v X]]; discriminate|].
        cbn [get]. rewrite lk_short. pose proof (is_prefix_strip k key) as PS.
        destruct (strip k key) as [r|] eqn:ST.
        + destruct PS as [PS SK]. rewrite PS. cbn [negb]. rewrite SK.
          apply strip_some in ST. subst key.
          destruct (wfn_short_child k c' r Wn Vk) as (Wc & KN & _).
          destruct (IH false (p ++ k) c c' r Rc Wc) as (t' & d & ev & GE).
          { rewrite app_length in Fu. destruct k; [congruence|]. cbn in Fu. destruct c; lia. }
          rewrite GE. destruct d; eauto.
        + rewrite PS. cbn [negb]. eauto.
      - destruct Wp as [[-> VS]|[Vk Wn]]; [destruct VS as [X|[v X]]; discriminate|].
        destruct key as [|k0 kr]; [inversion Vk|].
        destruct (wfn_full_child cs' k0 kr Wn Vk) as (c' & Ec' & Wc).
        assert (Ec : exists c, nth_error cs (N.to_nat k0) = Some c).
        { destruct (nth_error cs (N.to_nat k0)) eqn:X; [eauto|].
          apply nth_error_None in X. assert (N.to_nat k0 < length cs')%nat by (apply nth_error_Some; congruence). lia. }
        destruct Ec as [c Ec].
        pose proof (Rcs _ _ _ Ec Ec') as Rc. rewrite N2Nat.id in Rc.
        cbn [get]. unfold child. rewrite Ec. rewrite lk_full, Ec'.
        destruct (IH false (p ++ [k0]) c c' kr Rc Wc) as (t' & d & ev & GE).
        { cbn [length] in Fu. destruct c; lia. }
        rewrite GE. destruct d; [|eauto].
        unfold set_child.
        destruct (set_nth_some (N.to_nat k0) t' cs) as [cs2 X].
        { apply nth_error_Some. congruence. }
        rewrite X. eauto.
    Qed.

    (* ---------------- a representation encodes like its ground node ---------------- *)
    Lemma children_enc_ext : forall cs cs' s,
      length cs = length cs' ->
      (forall i c c', nth_error cs i = Some c -> nth_error cs' i = Some c' ->
                      child_enc H (s + i) c = child_enc H (s + i) c') ->
      children_enc H s cs = children_enc H s cs'.
    Proof.
      induction cs as [|c cs IH]; intros [|c' cs'] s L X; try discriminate; [reflexivity|].
      cbn [children_enc]. pose proof (X 0%nat c c' eq_refl eq_refl) as X0. rewrite Nat.add_0_r in X0.
      rewrite X0. rewrite (IH cs' (Datatypes.S s)); [reflexivity|cbn in L; lia|].
      intros i d d' E E'. replace (Datatypes.S s + i)%nat with (s + Datatypes.S i)%nat by lia.
      apply X; assumption.
    Qed.

    Lemma rep_enc f p n G : rep f p n G ->
      (f = false -> forall i, child_enc H i n = child_enc H i G) /\
      (f = false -> forall k, short_body H k n = short_body H k G) /\
      (is_sf n = true -> node_enc H n = node_enc H G).
    Proof.
      induction 1 as [f p|f p v|f p h G e SF W E Hh HB C U|f p k c c' Rc IH CO|f p cs cs' HL Rcs IH CO].
      - repeat split; reflexivity.
      - repeat split; reflexivity.
      - subst h. split; [|split; [|discriminate]]; intros ->.
        + intro i. unfold child_enc.
          destruct (H_cons H H_len e) as (x & r & X). rewrite X.
          destruct G; try discriminate; destruct (Nat.eqb i 16); try reflexivity;
            rewrite E, <- X, (hashed_ref H H_len e HB); reflexivity.
        + intro k. unfold short_body.
          destruct G; try discriminate; destruct (has_term k); try reflexivity;
            rewrite E, (hashed_ref H H_len e HB); reflexivity.
      - destruct IH as (_ & IHb & _).
        assert (EN : node_enc H (NShort k c) = node_enc H (NShort k c')).
        { rewrite !node_enc_short, (IHb eq_refl k). reflexivity. }
        split; [|split; [|intros _; exact EN]]; intros ->.
        + intro i. unfold child_enc. rewrite EN. reflexivity.
        + intro k0. unfold short_body. rewrite EN. reflexivity.
      - assert (EN : node_enc H (NFull cs) = node_enc H (NFull cs')).
        { rewrite !node_enc_full, (children_enc_ext cs cs' 0 HL); [reflexivity|].
          intros i c c' E1 E2. destruct (IH i c c' E1 E2) as (IHa & _). apply IHa. reflexivity. }
        split; [|split; [|intros _; exact EN]]; intros ->.
        + intro i. unfold child_enc. rewrite EN. reflexivity.
        + intro k0. unfold short_body. rewrite EN. reflexivity.
    Qed.
  End WithReader.
End Reads.

(* ------------------------------------------------------------------ *)
(* what committer.commit does to a short / full node, step by step     *)
(* ------------------------------------------------------------------ *)
Section CommitInv.
  Variable H : list N -> list N.
  Hypothesis H_len : forall x, length (H x) = 32%nat.

  Lemma commit_short_inv fu dirty tr f p k c ns n' ns' :
    commit_node H (Datatypes.S fu) dirty tr f p (NShort k c) ns = Some (n', ns') ->
    clean_hashed H dirty f p (NShort k c) = None ->
    exists c2 ns1,
      match c with
      | NFull _ => commit_node H fu dirty tr false (p ++ k) c ns = Some (c2, ns1)
      | _ => c2 = c /\ ns1 = ns
      end /\
      node_enc H (NShort k c2) = node_enc H (NShort k c) /\
      store_node H tr f p (NShort k c2) ns1 = Some (n', ns').
  Proof.
    intros E CH. cbn [commit_node] in E. rewrite CH in E.
    destruct c as [|v|k0 cc|cs|h]; try (eexists _, ns; split; [split; reflexivity|]; split; [reflexivity|exact E]).
    destruct (commit_node H fu dirty tr false (p ++ k) (NFull cs) ns) as [[c2 ns1]|] eqn:RC; [|discriminate].
    exists c2, ns1. split; [reflexivity|]. split; [|exact E].
    rewrite !node_enc_short. rewrite (collapse_short_body H H_len (NFull cs) c2 k); [reflexivity|].
    eapply commit_node_collapse; eassumption.
  Qed.

  Lemma commit_full_inv fu dirty tr f p cs ns n' ns' :
    commit_node H (Datatypes.S fu) dirty tr f p (NFull cs) ns = Some (n', ns') ->
    clean_hashed H dirty f p (NFull cs) = None ->
    exists cs2 ns1,
      commit_children (commit_node H fu dirty tr false) p 0 cs ns = Some (cs2, ns1) /\
      node_enc H (NFull cs2) = node_enc H (NFull cs) /\
      store_node H tr f p (NFull cs2) ns1 = Some (n', ns').
  Proof.
    intros E CH. cbn [commit_node] in E. rewrite CH in E.
    destruct (commit_children (commit_node H fu dirty tr false) p 0 cs ns) as [[cs2 ns1]|] eqn:CC; [|discriminate].
    exists cs2, ns1. split; [reflexivity|]. split; [|exact E].
    rewrite !node_enc_full.
    eapply (commit_children_enc H H_len) in CC; [|intros; eapply commit_node_collapse; eassumption].
    cbn in CC. rewrite CC. reflexivity.
  Qed.

  Lemma store_node_effect tr f p n2 ns1 n' ns' e :
    store_node H tr f p n2 ns1 = Some (n', ns') -> node_enc H n2 = Some e ->
    (forall q, q <> p -> am_get q ns' = am_get q ns1) /\
    (hashedb f e = true -> am_get p ns' = Some (Upd (H e) e (pv_get p tr))).
  Proof.
    unfold store_node. intros E EN. rewrite EN in E. destruct (hashedb f e).
    - inversion E; subst. split; [intros q Q; apply am_get_put_other; exact Q|].
      intros _. apply am_get_put_same.
    - split; [|discriminate]. destruct (pv_get p tr); inversion E; subst; [reflexivity|].
      intros q Q. apply am_get_put_other. exact Q.
  Qed.
End CommitInv.

(* ------------------------------------------------------------------ *)
(* path scheme: after the commit every hashed ground node is in the     *)
(* updated store at its path                                            *)
(* ------------------------------------------------------------------ *)
Section CommitPost.
  Variable H : list N -> list N.
  Hypothesis H_len : forall x, length (H x) = 32%nat.
  Variable S : store.
  Variable dirty : list N -> bool.
  Variable tr : tracer.
  Let R1 := resolve_of H PathScheme S.
  Let delp := fun q : list N => am_has q (tr_del tr) = true.

  (* the store value at [q] once [ns] is applied (apply_nodeset_path) *)
  Definition nsval (ns : nodeset) (q : list N) : option (list N) :=
    match am_get q ns with
    | Some (Upd _ b _) => Some b
    | Some (Del _) => None
    | None => am_get q S
    end.

  Lemma nsval_ext ns ns' q : am_get q ns' = am_get q ns -> nsval ns' q = nsval ns q.
  Proof. unfold nsval. intros ->. reflexivity. Qed.

  Definition pre_at (P : list N -> Prop) (ns : nodeset) : Prop :=
    forall q, P q -> am_get q ns <> None -> delp q.
  Definition post_at (f : bool) (p : list N) (G : node) (ns : nodeset) : Prop :=
    forall q Gq, gsub H f p G q Gq -> exists e, node_enc H Gq = Some e /\ nsval ns q = Some e.

  Lemma skip_post f p G ns :
    untouched delp p -> covered H R1 f p G -> pre_at (ple p) ns -> post_at f p G ns.
  Proof.
    intros U C P q Gq GS. destruct (proj1 C q Gq GS) as (e & E & RS). exists e. split; [exact E|].
    apply resolve_of_blob in RS. destruct RS as (_ & SG & _).
    unfold nsval. destruct (am_get q ns) eqn:A; [|exact SG].
    exfalso. apply (U q); [apply P; [eapply gsub_ple; exact GS|congruence]|eapply gsub_ple; exact GS].
  Qed.

  Lemma gsub_not_sf f p G q Gq : gsub H f p G q Gq -> is_sf G = true.
  Proof. destruct 1; [assumption|reflexivity|reflexivity]. Qed.

  Definition cn_spec (f : bool) (p : list N) (G : node) (ns ns' : nodeset) : Prop :=
    (forall q, ~ ple p q -> am_get q ns' = am_get q ns) /\ post_at f p G ns'.

  Lemma of_nat_neq i j : i <> j -> N.of_nat i <> N.of_nat j.
  Proof. lia. Qed.

  Lemma children_post fu p :
    (forall p n G ns n' ns',
        commit_node H fu dirty tr false p n ns = Some (n', ns') ->
        rep H R1 dirty delp false p n G -> (is_sf G = true -> can G) ->
        pre_at (ple p) ns -> cn_spec false p G ns ns') ->
    forall l lg i ns l' ns',
      commit_children (commit_node H fu dirty tr false) p (N.of_nat i) l ns = Some (l', ns') ->
      length l = length lg -> (i + length l <= 17)%nat ->
      (forall j c c', nth_error l j = Some c -> nth_error lg j = Some c' ->
                      rep H R1 dirty delp false (p ++ [N.of_nat (i + j)]) c c') ->
      (forall j c', nth_error lg j = Some c' -> (i + j < 16)%nat -> c' = NEmpty \/ can c') ->
      pre_at (fun q => exists j, (j < length l)%nat /\ ple (p ++ [N.of_nat (i + j)]) q) ns ->
      (forall q, (forall j, (j < length l)%nat -> ~ ple (p ++ [N.of_nat (i + j)]) q) ->
                 am_get q ns' = am_get q ns) /\
      (forall j c', nth_error lg j = Some c' -> (i + j < 16)%nat ->
                    post_at false (p ++ [N.of_nat (i + j)]) c' ns').
  Proof.
    intros IHcn. induction l as [|c l IHl]; intros [|c' lg] i ns l' ns' E L B Rs Cs P; try discriminate.
    - inversion E; subst. split; [reflexivity|]. intros j c' X. destruct j; discriminate.
    - rewrite commit_children_cons in E.
      destruct (child_step (commit_node H fu dirty tr false) p (N.of_nat i) c ns) as [[c2 ns1]|] eqn:CS; [|discriminate].
      replace (N.of_nat i + 1) with (N.of_nat (Datatypes.S i)) in E by lia.
      destruct (commit_children (commit_node H fu dirty tr false) p (N.of_nat (Datatypes.S i)) l ns1)
        as [[r' ns2]|] eqn:CC; [|discriminate].
      inversion E; subst l' ns'. clear E.
      pose proof (Rs 0%nat c c' eq_refl eq_refl) as Rc. rewrite Nat.add_0_r in Rc.
      cbn [length] in B.
      (* the head child *)
      assert (HD : (forall q, ~ ple (p ++ [N.of_nat i]) q -> am_get q ns1 = am_get q ns) /\
                   ((i < 16)%nat -> post_at false (p ++ [N.of_nat i]) c' ns1)).
      { assert (P0 : pre_at (ple (p ++ [N.of_nat i])) ns).
        { intros q Q A. apply P; [|exact A]. exists 0%nat. rewrite Nat.add_0_r. split; [cbn; lia|exact Q]. }
        apply child_step_cases in CS. destruct CS as [(-> & -> & Y)|(I & RC)].
        - split; [reflexivity|]. intros I16.
          destruct Y as [Y|[->|[h ->]]]; [lia| |].
          + inversion Rc; subst. intros q Gq GS. apply gsub_not_sf in GS. discriminate.
          + inversion Rc; subst. eapply skip_post; eassumption.
        - assert (I16 : (i < 16)%nat) by lia.
          destruct (IHcn _ _ _ _ _ _ RC Rc) as [F Po]; [|exact P0|].
          + intros SF. destruct (Cs 0%nat c' eq_refl) as [->|X]; [lia|discriminate|exact X].
          + split; [exact F|intros _; exact Po]. }
      destruct HD as [HF HP].
      (* the remaining children *)
      destruct (IHl lg (Datatypes.S i) ns1 r' ns2 CC) as [TF TP].
      + cbn in L. lia.
      + lia.
      + intros j d d' X X'. replace (Datatypes.S i + j)%nat with (i + Datatypes.S j)%nat by lia.
        apply Rs; assumption.
      + intros j d' X' J. apply (Cs (Datatypes.S j) d' X'). lia.
      + intros q (j & J & Q) A.
        rewrite HF in A.
        * apply P; [|exact A]. exists (Datatypes.S j). split; [cbn; lia|].
          replace (i + Datatypes.S j)%nat with (Datatypes.S i + j)%nat by lia. exact Q.
        * intro Q'. eapply (ple_sibling p (N.of_nat i) (N.of_nat (Datatypes.S i + j))); [lia|exact Q'|exact Q].
      + split.
        * intros q NB. rewrite TF.
          -- apply HF. specialize (NB 0%nat). rewrite Nat.add_0_r in NB. apply NB. cbn. lia.
          -- intros j J. replace (Datatypes.S i + j)%nat with (i + Datatypes.S j)%nat by lia.
             apply NB. cbn. lia.
        * intros [|j] d' X' J.
          -- cbn in X'. inversion X'; subst d'. rewrite Nat.add_0_r in *.
             intros q Gq GS. destruct (HP J q Gq GS) as (e & E1 & E2). exists e. split; [exact E1|].
             rewrite <- E2. apply nsval_ext. apply TF. intros j0 J0 Q0.
             eapply (ple_sibling p (N.of_nat i) (N.of_nat (Datatypes.S i + j0))); [lia| |exact Q0].
             eapply gsub_ple. exact GS.
          -- cbn in X'. replace (i + Datatypes.S j)%nat with (Datatypes.S i + j)%nat by lia.
             apply TP; [exact X'|lia].
  Qed.

  Lemma clean_hashed_some f p n h :
    clean_hashed H dirty f p n = Some h -> is_sf n = true /\ dirty p = false.
  Proof.
    unfold clean_hashed. destruct n; try discriminate; destruct (dirty p); try discriminate; auto.
  Qed.

  Lemma commit_node_post : forall fuel f p n G ns n' ns',
    commit_node H fuel dirty tr f p n ns = Some (n', ns') ->
    rep H R1 dirty delp f p n G -> (is_sf G = true -> can G) ->
    pre_at (ple p) ns -> cn_spec f p G ns ns'.
  Proof.
    induction fuel as [|fu IH]; intros f p n G ns n' ns' E Rp Cn P; [discriminate|].
    destruct (clean_hashed H dirty f p n) as [h|] eqn:CH.
    - (* clean node with a cached hash: skipped *)
      cbn [commit_node] in E. rewrite CH in E. inversion E; subst n' ns'.
      apply clean_hashed_some in CH. destruct CH as [SF D].
      split; [reflexivity|].
      inversion Rp as [| | |f0 p0 k c c' Rc CO|f0 p0 cs cs' HL Rcs CO]; subst; try discriminate;
        destruct (CO D) as [U C]; eapply skip_post; eassumption.
    - destruct n as [|v|k c|cs|hh].
      + cbn [commit_node] in E. rewrite CH in E. discriminate.
      + cbn [commit_node] in E. rewrite CH in E. discriminate.
      + (* short node *)
        destruct (commit_short_inv H H_len _ _ _ _ _ _ _ _ _ _ E CH) as (c2 & ns1 & CR & EN & ST).
        inversion Rp as [| | |f0 p0 k0 c0 c' Rc CO|]; subst.
        pose proof (Cn eq_refl) as CanG.
        assert (KN : k <> []).
        { destruct (can_short_inv k c' CanG) as [[VK _]|(_ & X & _)]; [apply valid_key_nonempty; exact VK|exact X]. }
        assert (CH1 : (forall q, ~ ple (p ++ k) q -> am_get q ns1 = am_get q ns) /\
                      post_at false (p ++ k) c' ns1).
        { assert (P1 : pre_at (ple (p ++ k)) ns).
          { intros q Q A. apply P; [eapply ple_app_l; exact Q|exact A]. }
          destruct (can_short_inv k c' CanG) as [[_ [v ->]]|(_ & _ & cs' & -> & CanC)].
          - inversion Rc as [|f1 p1 v1|f1 p1 h G1 e1 SF1 | |]; subst; [|discriminate SF1].
            destruct CR as [-> ->]. split; [reflexivity|].
            intros q Gq GS. apply gsub_not_sf in GS. discriminate.
          - inversion Rc as [| |f1 p1 h G1 e1 SF1 W1 E1 Hh1 HB1 C1 U1| |f1 p1 cs0 cs1 HL1 Rcs1 CO1]; subst.
            + destruct CR as [-> ->]. split; [reflexivity|]. eapply skip_post; eassumption.
            + eapply IH; [exact CR|exact Rc|intros _; exact CanC|exact P1]. }
        destruct CH1 as [F1 P1].
        destruct (rep_enc H H_len R1 dirty delp f p _ _ Rp) as (_ & _ & ENG). specialize (ENG eq_refl).
        destruct (node_enc H (NShort k c2)) as [e|] eqn:E2; [|unfold store_node in ST; rewrite E2 in ST; discriminate].
        destruct (store_node_effect H tr f p _ ns1 n' ns' e ST E2) as [SO SH].
        split.
        * intros q NQ. rewrite SO; [|intros ->; apply NQ; apply ple_refl].
          apply F1. intro X. apply NQ. eapply ple_app_l. exact X.
        * intros q Gq GS. inversion GS as [f1 p1 G1 e1 SF1 EG HB1| f1 p1 k1 c1 q1 Gq1 GS1|]; subst.
          -- exists e1. split; [exact EG|]. unfold nsval. rewrite SH; [|congruence].
             f_equal. congruence.
          -- destruct (P1 q Gq GS1) as (e1 & EG & NV). exists e1. split; [exact EG|].
             rewrite <- NV. apply nsval_ext. apply SO.
             intros ->. apply gsub_ple in GS1. apply ple_self_app in GS1. contradiction.
      + (* full node *)
        destruct (commit_full_inv H H_len _ _ _ _ _ _ _ _ _ E CH) as (cs2 & ns1 & CC & EN & ST).
        inversion Rp as [| | | |f0 p0 cs0 cs' HL Rcs CO]; subst.
        pose proof (Cn eq_refl) as CanG.
        destruct (can_full_inv cs' CanG) as (L17 & Hch & _ & _).
        destruct (children_post fu p (fun p n G ns n' ns' X => IH false p n G ns n' ns' X)
                    cs cs' 0%nat ns cs2 ns1 CC HL) as [F1 P1].
        { lia. }
        { intros j c c' X X'. apply Rcs; assumption. }
        { intros j c' X J. apply (Hch j c' X). exact J. }
        { intros q (j & _ & Q) A. apply P; [eapply ple_app_l; exact Q|exact A]. }
        destruct (rep_enc H H_len R1 dirty delp f p _ _ Rp) as (_ & _ & ENG). specialize (ENG eq_refl).
        destruct (node_enc H (NFull cs2)) as [e|] eqn:E2; [|unfold store_node in ST; rewrite E2 in ST; discriminate].
        destruct (store_node_effect H tr f p _ ns1 n' ns' e ST E2) as [SO SH].
        split.
        * intros q NQ. rewrite SO; [|intros ->; apply NQ; apply ple_refl].
          apply F1. intros j _ X. apply NQ. eapply ple_app_l. exact X.
        * intros q Gq GS. inversion GS as [f1 p1 G1 e1 SF1 EG HB1| |f1 p1 cs1 i c1 q1 Gq1 X1 I1 GS1]; subst.
          -- exists e1. split; [exact EG|]. unfold nsval. rewrite SH; [|congruence].
             f_equal. congruence.
          -- destruct (P1 i c1 X1 I1 q Gq GS1) as (e1 & EG & NV). exists e1. split; [exact EG|].
             rewrite <- NV. apply nsval_ext. apply SO.
             intros ->. apply gsub_ple in GS1. apply ple_self_app in GS1. discriminate.
      + (* unresolved hash node *)
        cbn [commit_node] in E. rewrite CH in E. inversion E; subst n' ns'.
        split; [reflexivity|].
        inversion Rp; subst. eapply skip_post; eassumption.
  Qed.
End CommitPost.

(* ------------------------------------------------------------------ *)
(* sessions over a path-scheme store: invariant, commit, reopening      *)
(* ------------------------------------------------------------------ *)
Section ReadsBack.
  Variable H : list N -> list N.
  Hypothesis H_len : forall x, length (H x) = 32%nat.
  (* collision freedom with respect to the empty-root preimage only *)
  Hypothesis H_inj_empty : forall e, H e = H empty_root_preimage -> e = empty_root_preimage.

  Definition gok (F : node) : Prop := F = NEmpty \/ (can F /\ pwf F).

  Definition delp_of (tr : tracer) : list N -> Prop := fun q => am_has q (tr_del tr) = true.

  (* the session represents the ground trie [F] over store [S] *)
  Definition sinv (S : store) (ss : sess) (F : node) : Prop :=
    gok F /\ rep H (resolve_of H PathScheme S) (dirty_at ss) (delp_of (s_tr ss)) true [] (s_root ss) F.

  (* the store holds the ground trie [F] under root hash [root] *)
  Definition store_ok (S : store) (root : list N) (F : node) : Prop :=
    gok F /\
    exactb H (resolve_of H PathScheme S) true [] F /\
    match F with
    | NEmpty => root = H empty_root_preimage
    | _ => exists e, node_enc H F = Some e /\ root = H e /\
                     cov0 H (resolve_of H PathScheme S) true [] F
    end.

  Lemma gsub_pwf f p G q Gq : gsub H f p G q Gq -> pwf G -> pwf Gq.
  Proof.
    induction 1 as [| f p k c q Gq GS IH | f p cs i c q Gq X I GS IH]; intro W; [exact W| |].
    - apply IH. inversion W; subst; [inversion GS; discriminate|assumption].
    - apply IH. inversion W as [| |cs0 HL Hch H16]; subst.
      destruct (Hch i c X I) as [->|Y]; [inversion GS; discriminate|exact Y].
  Qed.

  Lemma add_deletions_keys tr q : am_get q (add_deletions tr []) <> None -> delp_of tr q.
  Proof.
    unfold add_deletions.
    assert (X : forall l ns, (forall p, In p l -> delp_of tr p) ->
              (am_get q ns <> None -> delp_of tr q) ->
              am_get q (fold_left (fun ns1 p => am_put p (Del (pv_get p tr)) ns1) l ns) <> None ->
              delp_of tr q).
    { induction l as [|p l IH]; intros ns A B; cbn [fold_left]; [exact B|].
      apply IH; [intros p0 I; apply A; right; exact I|].
      rewrite am_get_put. destruct (bytes_eqb q p) eqn:Q; [|exact B].
      apply beqb_eq in Q. subst. intros _. apply A. left. reflexivity. }
    apply X; [|intro Y; exfalso; apply Y; reflexivity].
    intros p I. unfold deleted_nodes in I. apply in_map_iff in I. destruct I as ([p0 u] & <- & I).
    apply filter_In in I. destruct I as [I _]. cbn. unfold delp_of, am_has.
    destruct (am_in_get _ _ _ I) as [v' G]. rewrite G. reflexivity.
  Qed.

  Lemma enc_not_empty_root F e : pwf F -> node_enc H F = Some e -> e <> empty_root_preimage.
  Proof.
    intros W E X. subst e. pose proof (decode_enc H H_len F _ W E) as D.
    unfold proof_decode in D. vm_compute in D. discriminate.
  Qed.

  (* the store after the commit *)
  Definition applied (S : store) (ons : option nodeset) : store :=
    match ons with Some ns => apply_nodeset PathScheme ns S | None => S end.

  Lemma root_cases ss F S : sinv S ss F ->
    (s_root ss = NEmpty /\ F = NEmpty) \/ (is_sf F = true /\ can F /\ pwf F).
  Proof.
    intros [[->|[C W]] Rp].
    - left. split; [|reflexivity]. inversion Rp as [| |? ? ? ? ? SFx| |]; [congruence|discriminate SFx].
    - right. destruct (pwf_shape F W) as [(k & c & ->)|(cs & ->)]; auto.
  Qed.

  Lemma rep_hash_root R dirty delp f p n F e :
    rep H R dirty delp f p n F -> is_sf F = true -> node_enc H F = Some e ->
    hash_root H n = Some (H e).
  Proof.
    intros Rp SF E.
    inversion Rp as [| |f0 p0 h G0 e0 SF0 W0 E0 Hh0 HB0 C0 U0|f0 p0 k c c' Rc CO|f0 p0 cs cs' HL Rcs CO]; subst;
      try discriminate.
    - cbn. congruence.
    - destruct (rep_enc H H_len _ _ _ _ _ _ _ Rp) as (_ & _ & X).
      apply (hash_root_sf H (NShort k c) e eq_refl). rewrite X; [exact E|reflexivity].
    - destruct (rep_enc H H_len _ _ _ _ _ _ _ Rp) as (_ & _ & X).
      apply (hash_root_sf H (NFull cs) e eq_refl). rewrite X; [exact E|reflexivity].
  Qed.

  (* committing leaves a store that holds the ground trie under the returned root *)
  Theorem commit_store_ok S ss F r ons :
    sinv S ss F -> commit H ss = Some (r, ons) ->
    exactb H (resolve_of H PathScheme (applied S ons)) true [] F ->
    store_ok (applied S ons) r F.
  Proof.
    intros SI C XB. pose proof SI as [GO Rp]. split; [exact GO|]. split; [exact XB|].
    destruct (root_cases ss F S SI) as [[RT ->]|(SF & Cn & W)].
    - unfold commit in C. rewrite RT in C. destruct (deleted_nodes (s_tr ss)); inversion C; reflexivity.
    - destruct (pwf_enc_total H H_len F W) as [e E].
      assert (GS : gsub H true [] F [] F) by (apply (gsub_here H true [] F e SF E); reflexivity).
      assert (G : r = H e /\ cov0 H (resolve_of H PathScheme (applied S ons)) true [] F).
      { assert (HR : hash_root H (s_root ss) = Some (H e)) by (eapply rep_hash_root; eassumption).
        assert (FIN : forall ns1 h', commit_node H commit_fuel (dirty_at ss) (s_tr ss) true []
                                  (s_root ss) (add_deletions (s_tr ss) []) = Some (NHash h', ns1) ->
                      cov0 H (resolve_of H PathScheme (apply_nodeset PathScheme ns1 S)) true [] F).
        { intros ns1 h' CN.
          pose proof (commit_node_sorted H _ _ _ _ _ _ _ _ _ CN (add_deletions_sorted _ _ (sorted_nil))) as SO.
          apply (commit_node_post H H_len S) with (G := F) in CN;
            [|exact Rp|intros _; exact Cn|intros q _ A; apply add_deletions_keys; exact A].
          destruct CN as [_ PO].
          intros q Gq GQ. destruct (PO q Gq GQ) as (e1 & E1 & NV). exists e1. split; [exact E1|].
          unfold resolve_of. rewrite (apply_nodeset_path ns1 SO).
          unfold nsval in NV. rewrite NV, beqb_refl.
          pose proof (decode_enc H H_len Gq e1 (gsub_pwf _ _ _ _ _ GQ W) E1) as D.
          unfold proof_decode in D. rewrite D. reflexivity. }
        unfold commit in C. remember (s_root ss) as n eqn:RT in *.
        destruct n as [|v|k c|cs|h]; try rewrite HR in C.
        - inversion Rp; subst; discriminate.
        - inversion Rp; subst; discriminate.
        - destruct (negb (dirty_at ss [])) eqn:DR.
          + inversion C; subst. split; [reflexivity|]. cbn [applied].
            apply negb_true_iff in DR. inversion Rp; subst.
            match goal with CO : clean_ok _ _ _ _ _ _ _ |- _ => destruct (CO DR) as [_ X]; exact (proj1 X) end.
          + dmatch C; [|discriminate]. destruct p as [[| | | |h'] ns1]; try discriminate.
            inversion C; subst. split; [reflexivity|]. cbn [applied]. eapply FIN; reflexivity.
        - destruct (negb (dirty_at ss [])) eqn:DR.
          + inversion C; subst. split; [reflexivity|]. cbn [applied].
            apply negb_true_iff in DR. inversion Rp; subst.
            match goal with CO : clean_ok _ _ _ _ _ _ _ |- _ => destruct (CO DR) as [_ X]; exact (proj1 X) end.
          + dmatch C; [|discriminate]. destruct p as [[| | | |h'] ns1]; try discriminate.
            inversion C; subst. split; [reflexivity|]. cbn [applied]. eapply FIN; reflexivity.
        - cbn [negb] in C.
          dmatch C; [|discriminate]. destruct p as [[| | | |h'] ns1]; try discriminate.
          inversion C; subst. split; [reflexivity|]. cbn [applied]. eapply FIN; reflexivity. }
      destruct G as [G1 G2]. destruct F; try discriminate; eauto.
  Qed.

  (* trie.New on a store holding [F] yields a session representing [F] *)
  Theorem open_sinv S root F :
    store_ok S root F -> exists ss, open_trie H PathScheme S root = TOk ss /\ sinv S ss F.
  Proof.
    intros (GO & XB & SO). unfold open_trie.
    destruct GO as [->|[Cn W]].
    - subst root. rewrite beqb_refl. eexists. split; [reflexivity|].
      split; [left; reflexivity|constructor].
    - assert (SF : is_sf F = true) by (destruct (pwf_shape F W) as [(k & c & ->)|(cs & ->)]; reflexivity).
      assert (X : exists e, node_enc H F = Some e /\ root = H e /\
                            cov0 H (resolve_of H PathScheme S) true [] F)
        by (destruct F; try discriminate; exact SO).
      destruct X as (e & E & -> & C0).
      assert (C : covered H (resolve_of H PathScheme S) true [] F) by (split; assumption).
      rewrite beqb_neq.
      2: { intro X. apply H_inj_empty in X. eapply enc_not_empty_root; eassumption. }
      destruct (C0 [] F (gsub_here H true [] F e SF E eq_refl)) as (e' & E' & RS).
      rewrite E in E'. inversion E'; subst e'. rewrite RS.
      eexists. split; [reflexivity|]. split; [right; split; assumption|]. cbn [s_root].
      apply rep_collapse; [exact H_len|exact W|exact C|].
      intros q D. cbn in D. discriminate.
  Qed.

  (* Get on a session returns the pure lookup of the ground trie *)
  Theorem sess_get_lk S ss F key :
    sinv S ss F -> forallb byteb key = true ->
    exists t d ev, trie_get (resolve_of H PathScheme S) (s_root ss) key =
                   TOk (lk F (keybytes_to_hex key), t, d, ev).
  Proof.
    intros [GO Rp] BK. unfold trie_get.
    eapply get_rep; [exact H_len|exact Rp| |].
    - right. split; [apply keybytes_to_hex_valid; exact BK|].
      destruct GO as [->|[Cn _]]; [constructor|apply can_wfn; exact Cn].
    - unfold ops_fuel. destruct (s_root ss); lia.
  Qed.

  (* C07 commit_reads_back (path scheme), from the session invariant: reopening at
     the returned root from the updated store succeeds, and every key reads the
     same value there as in the in-memory trie before the commit — the pure
     lookup of the ground trie *)
  Theorem commit_reads_back_sinv S ss F r ons key :
    sinv S ss F -> commit H ss = Some (r, ons) ->
    exactb H (resolve_of H PathScheme (applied S ons)) true [] F ->
    forallb byteb key = true ->
    exists ss2,
      open_trie H PathScheme (applied S ons) r = TOk ss2 /\
      exists v t1 d1 ev1 t2 d2 ev2,
        trie_get (resolve_of H PathScheme S) (s_root ss) key = TOk (v, t1, d1, ev1) /\
        trie_get (resolve_of H PathScheme (applied S ons)) (s_root ss2) key = TOk (v, t2, d2, ev2) /\
        v = lk F (keybytes_to_hex key).
  Proof.
    intros SI C XB BK.
    destruct (open_sinv _ _ _ (commit_store_ok S ss F r ons SI C XB)) as (ss2 & O & SI2).
    exists ss2. split; [exact O|].
    destruct (sess_get_lk S ss F key SI BK) as (t1 & d1 & ev1 & G1).
    destruct (sess_get_lk _ ss2 F key SI2 BK) as (t2 & d2 & ev2 & G2).
    exists (lk F (keybytes_to_hex key)), t1, d1, ev1, t2, d2, ev2. auto.
  Qed.
End ReadsBack.
