(* Trie/GenerateFlat.v — C11_gen_flat: what a successful GenerateTrie did to the
   flat state: storage entries are deleted exactly when their account hash is
   the key of no account, accounts are rewritten exactly when their root was
   stale (with the corrected root, in slim form), nothing else is touched. *)
From GV Require Import Lib.Tactics Lib.Bytes Rlp.Codec Trie.Hex Trie.HexProofs Trie.Node Trie.Ops Trie.Hash Trie.OpsProofs Trie.Canon Trie.Stack Trie.StackProofs Trie.Commit Trie.CommitProofs Trie.CommitTracer Trie.Generate Trie.GenerateProofs Trie.GenerateWalk Trie.GenerateWalk2 Trie.GenerateWalk3 Trie.GenerateKeys Trie.GenerateSched Trie.GenerateRoot.
Local Open Scope N_scope.

Lemma acws_tail p : forall ss, acws (fst (tail_loop p ss)) = [].
Proof.
  induction ss as [|[k v] ss IH]; [reflexivity|]. cbn [tail_loop].
  destruct (bytes_gtb (firstn 32 k) (range_end p)); [reflexivity|].
  destruct (tail_loop p ss) as [ws n]. cbn [fst] in *. exact IH.
Qed.

Lemma key32_sa k : length k = 64%nat -> forallb Hex.byteb k = true -> key32 (firstn 32 k).
Proof. intros L Hb. split; [rewrite firstn_length; lia|apply forallb_firstn; exact Hb]. Qed.

Lemma nib0_lt16 h : key32 h -> nib0 h < 16.
Proof.
  intros [L Hb]. destruct h as [|x a]; [discriminate|]. rewrite nib0_cons. simpl in Hb.
  apply andb_true_iff in Hb as [Hx _]. unfold Hex.byteb in Hx. apply N.div_lt_upper_bound; lia.
Qed.

Section Flat.
  Variable H : list N -> list N.
  Hypothesis H_len : forall x, length (H x) = 32%nat.

  (* a 64-byte key is below the 32-byte range start iff its account part is *)
  Lemma ltb_start64 p k : length k = 64%nat ->
    bytes_ltb k (range_start p) = bytes_ltb (firstn 32 k) (range_start p).
  Proof.
    intros L. destruct (firstn_skipn_32 k L) as (a & s & Ek & La & Hs & Ea). rewrite Ea. rewrite Ek at 1.
    unfold bytes_ltb.
    pose proof (bcmp_app_lt a (range_start p) s ltac:(rewrite La; reflexivity) Hs) as Hiff.
    destruct (bytes_cmp (a ++ s) (range_start p)) eqn:C1; destruct (bytes_cmp a (range_start p)) eqn:C2; try reflexivity;
      try (destruct Hiff as [H1 H2]; try (specialize (H1 eq_refl); discriminate); try (specialize (H2 eq_refl); discriminate)).
  Qed.

  Theorem partition_flat sc p db r : wf_db db -> generate_partition H sc p db = GOk r ->
    (forall k v, In (k, v) (g_stor db) ->
       (In k (dels (r_ws r)) <-> nib0 (firstn 32 k) = p /\ ~ In (firstn 32 k) (map fst (g_accts db)))) /\
    acws (r_ws r) = flat_map (rewrites H (g_stor db)) (part p db) /\
    (forall k, In k (dels (r_ws r)) -> exists v, In (k, v) (g_stor db)).
  Proof.
    intros Hwf E. unfold generate_partition in E.
    set (accs := seek (range_start p) (g_accts db)) in *.
    set (ss := seek (range_start p) (g_stor db)) in *.
    destruct (acct_loop H sc p accs ss stack_new) as [r0|e] eqn:Ea; [|discriminate].
    destruct (tail_loop p (p_stor r0)) as [wt nt] eqn:Et.
    destruct (st_root_e H (p_trie r0)) as [[hh em]|e] eqn:Er; [|discriminate].
    inversion E; subst r. clear E. cbn [r_ws].
    pose proof Hwf as [Hsa Hss Hka Hks].
    destruct (acct_loop_spec H H_len sc p accs ss stack_new NEmpty r0) as (_ & D' & A' & _ & _);
      [apply sorted_seek; exact Hsa|apply Forall_seek; exact Hka|apply sorted_ndsa, sorted_seek; exact Hss
      |apply Forall_seek; exact Hks|apply sroot_new|left; reflexivity|exact Ea|].
    assert (Ewt : wt = fst (tail_loop p (p_stor r0))) by (rewrite Et; reflexivity).
    split.
    - intros k v Hin. rewrite !dels_app, dels_nodes, app_nil_r, Ewt, (D' k).
      pose proof Hks as Hks'. unfold wf_stor in Hks'. rewrite Forall_forall in Hks'. destruct (Hks' (k, v) Hin) as [L64 Hb]. cbn [fst] in *.
      pose proof (key32_sa k L64 Hb) as Hk32.
      split.
      + intros ((v0 & Hin0) & Hle & Hni).
        assert (Hnl : bytes_ltb (firstn 32 k) (range_start p) = false).
        { rewrite <- (ltb_start64 p k L64).
          apply (proj1 (seek_sorted_In (range_start p) (g_stor db) Hss (k, v0) (seek_In _ _ _ Hin0)) Hin0). }
        split.
        * destruct (N.lt_trichotomy (nib0 (firstn 32 k)) p) as [Hlt|[Heq|Hgt]]; [|exact Heq|].
          -- apply (ltb_start p _ Hk32) in Hlt. congruence.
          -- apply (gtb_end p _ Hk32) in Hgt. congruence.
        * intros Hk. apply Hni. apply in_map_iff in Hk as (kv & Ekv & Hkv). apply in_map_iff. exists kv. split; [exact Ekv|].
          apply (seek_sorted_In (range_start p) (g_accts db) Hsa kv Hkv). rewrite Ekv. exact Hnl.
      + intros (Hn & Hni).
        assert (Hnl : bytes_ltb (firstn 32 k) (range_start p) = false).
        { destruct (bytes_ltb (firstn 32 k) (range_start p)) eqn:B; [|reflexivity]. apply (ltb_start p _ Hk32) in B. lia. }
        split; [exists v; apply (seek_sorted_In (range_start p) (g_stor db) Hss (k, v) Hin); cbn [fst]; rewrite (ltb_start64 p k L64); exact Hnl|].
        split.
        * destruct (bytes_gtb (firstn 32 k) (range_end p)) eqn:B; [|reflexivity]. apply (gtb_end p _ Hk32) in B. lia.
        * intros Hk. apply Hni. apply in_map_iff in Hk as (kv & Ekv & Hkv). apply in_map_iff. exists kv. split; [exact Ekv|].
          eapply seek_In; eassumption.
    - split.
      + rewrite !acws_app, acws_nodes, app_nil_r, Ewt, acws_tail, app_nil_r, A'.
        unfold accs, ss. rewrite (part_accs p db Hwf). rewrite !flat_map_concat_map. f_equal. apply map_ext_in. intros kv Hkv.
        destruct (part_key p db kv Hwf Hkv) as (Hk & Hn & _). apply rewrites_whole; assumption.
      + intros k Hk. rewrite !dels_app, dels_nodes, app_nil_r, Ewt in Hk. apply (D' k) in Hk as ((v0 & Hin0) & _).
        exists v0. eapply seek_In; eassumption.
  Qed.
End Flat.
