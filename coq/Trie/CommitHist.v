(* Trie/CommitHist.v — the session invariant over every multi-generation history
   (path scheme): trie.New on the empty database or on the store left by an
   earlier commit, then any Update / Delete / Get / GetNode with keys and values shorter
   than 2^32 bytes; hence C07 commit_reads_back for every such history. *)
From GV Require Import Lib.Tactics Lib.Bytes Rlp.Codec Trie.Hex Trie.Node Trie.Ops Trie.Hash.
From GV Require Import Trie.OpsProofs Trie.Canon Trie.Proof Trie.ProofProofs.
From GV Require Import Trie.Commit Trie.CommitProofs Trie.CommitTracer Trie.CommitReads Trie.CommitSim Trie.CommitSimDel.
Local Open Scope N_scope.

(* every key / value of the ground trie is shorter than 2^32 (and values are non-empty) *)
Definition gsizes (F : node) : Prop := forall k v, lk F k = Some v -> small k /\ val_ok v.

Lemma small_app_r (a b : list N) : small (a ++ b) -> small b.
Proof. unfold small, lenN. rewrite app_length. lia. Qed.
Lemma small_app_l (a b : list N) : small (a ++ b) -> small a.
Proof. unfold small, lenN. rewrite app_length. lia. Qed.
Lemma small_cons_r x (b : list N) : small (x :: b) -> small b.
Proof. apply (small_app_r [x]). Qed.

Lemma can_sizes_pwf F : can F -> gsizes F -> pwf F.
Proof.
  induction F as [|v|k c IH|cs IH|h] using node_ind'; intros Cn Sz; try (inversion Cn; fail).
  - destruct (can_short_inv k c Cn) as [[Vk [v ->]]|(Nk & Kn & cs & -> & Cc)].
    + destruct (Sz k v) as [Sk Vv]; [rewrite lk_leaf, (proj2 (bytes_eqb_eq k k) eq_refl); reflexivity|].
      apply pwf_leaf; assumption.
    + destruct (can_has_key _ Cc) as (k1 & v1 & _ & L1).
      assert (Sk : small k).
      { destruct (Sz (k ++ k1) v1) as [X _]; [rewrite lk_short, strip_app_same; exact L1|].
        eapply small_app_l. exact X. }
      apply pwf_ext; try assumption. apply IH; [exact Cc|].
      intros k' v' L'. destruct (Sz (k ++ k') v') as [X Y]; [rewrite lk_short, strip_app_same; exact L'|].
      split; [eapply small_app_r; exact X|exact Y].
  - destruct (can_full_inv cs Cn) as (L17 & Hch & H16 & _).
    apply pwf_full; [exact L17| |].
    + intros i c Ei I. destruct (Hch i c Ei I) as [->|Cc]; [left; reflexivity|right].
      rewrite Forall_forall in IH. apply IH; [eapply nth_error_In; exact Ei|exact Cc|].
      intros k' v' L'. destruct (Sz (N.of_nat i :: k') v') as [X Y].
      { rewrite lk_full, Nat2N.id, Ei. exact L'. }
      split; [eapply small_cons_r; exact X|exact Y].
    + intros c Ec. destruct (H16 c Ec) as [->|[v ->]]; [left; reflexivity|right].
      exists v. split; [reflexivity|].
      destruct (Sz [16] v) as [_ Y]; [|exact Y].
      rewrite lk_full. change (N.to_nat 16) with 16%nat. rewrite Ec. reflexivity.
Qed.

(* growth of the deletion set under the tracer fold *)
Lemma trace_evs_del_grow ev : forall tr q,
  am_has q (tr_del (trace_evs tr ev)) = true -> am_has q (tr_del tr) = true \/ In (TDel q) ev.
Proof.
  induction ev as [|e ev IH]; intros tr q X; [left; exact X|].
  cbn [trace_evs fold_left] in X. change (fold_left trace_ev ev (trace_ev tr e)) with (trace_evs (trace_ev tr e) ev) in X.
  apply IH in X. destruct X as [X|X]; [|right; right; exact X].
  destruct e as [p0|p0|p0 b]; cbn [trace_ev] in X.
  - unfold on_insert in X. destruct (am_has p0 (tr_del tr)); cbn [tr_del] in X; [|left; exact X].
    rewrite am_has_del in X. apply andb_true_iff in X. left. tauto.
  - unfold on_delete in X. destruct (am_has p0 (tr_ins tr)); cbn [tr_del] in X; [left; exact X|].
    rewrite am_has_put in X. apply orb_true_iff in X. destruct X as [X|X]; [|left; exact X].
    apply bytes_eqb_eq in X. subst. right. left. reflexivity.
  - left. exact X.
Qed.

Section Hist.
  Variable H : list N -> list N.
  Hypothesis H_len : forall x, length (H x) = 32%nat.
  Hypothesis H_inj_empty : forall e, H e = H empty_root_preimage -> e = empty_root_preimage.

  (* Trie.Update with an empty value (Trie.Delete) at session level *)
  Theorem sess_delete_rep S ss F key ss' :
    sinv H S ss F -> forallb byteb key = true ->
    sess_update H PathScheme S ss key [] = TOk ss' ->
    exists F' d ev,
      s_tr ss' = trace_evs (s_tr ss) ev /\
      rep H (resolve_of H PathScheme S) (dirty_at ss') (delp_of (s_tr ss')) true [] (s_root ss') F' /\
      (forall fu', (length (keybytes_to_hex key) < fu')%nat ->
        exists ev', delete (resolve_of H PathScheme S) fu' F [] (keybytes_to_hex key) = TOk (d, F', ev') /\
                    nores ev' = nores ev) /\
      delete (resolve_of H PathScheme S) (ops_fuel (keybytes_to_hex key)) (s_root ss) []
             (keybytes_to_hex key) = TOk (d, s_root ss', ev).
  Proof.
    intros [GO Rp] BK E. unfold sess_update in E.
    set (k := keybytes_to_hex key) in *.
    destruct (delete (resolve_of H PathScheme S) (ops_fuel k) (s_root ss) [] k) as [[[d n] ev]|er] eqn:DE; [|discriminate].
    inversion E; subst ss'. clear E.
    assert (Wp : wfpos F k).
    { right. split; [apply keybytes_to_hex_valid; exact BK|].
      destruct GO as [->|[Cn _]]; [constructor|apply can_wfn; exact Cn]. }
    set (ss' := mkSess n (trace_evs (s_tr ss) ev) (if d then k :: s_dkeys ss else s_dkeys ss)
                       (ins_paths ev ++ s_dins ss)).
    assert (DM : forall q, dirty_at ss' q = false -> dirty_at ss q = false).
    { intros q Dq. unfold dirty_at in *. cbn [ss' s_dkeys s_dins] in Dq.
      apply orb_false_iff in Dq. destruct Dq as [D1 D2]. apply orb_false_iff. split.
      + destruct d; [cbn in D1; apply orb_false_iff in D1; tauto|exact D1].
      + rewrite existsb_app in D2. apply orb_false_iff in D2. tauto. }
    assert (DP : dp_ok (delp_of (s_tr ss)) (delp_of (s_tr ss')) [] ev d).
    { intros q Dq. unfold delp_of in *. cbn [ss' s_tr] in Dq.
      apply trace_evs_del_grow in Dq. destruct Dq as [X|X]; [left; exact X|right; left; exact X]. }
    assert (DK : d = true -> forall q, ple q ([] ++ k) -> dirty_at ss' q = true).
    { intros -> q Q. unfold dirty_at. cbn [ss' s_dkeys s_dins existsb].
      rewrite (is_prefix_of_ple q k Q). reflexivity. }
    destruct (delete_rep H H_len (resolve_of H PathScheme S) (dirty_at ss) (dirty_at ss')
                (delp_of (s_tr ss)) (delp_of (s_tr ss')) DM
                _ _ _ _ _ _ _ _ _ DE Rp Wp DP DK) as (F' & X1 & _ & _ & _ & X5).
    exists F', d, ev. split; [reflexivity|]. split; [exact X1|]. split; [exact X5|first [exact DE|reflexivity]].
  Qed.

  (* the guard on operations: byte keys; keys and values shorter than 2^32 bytes *)
  Definition op_ok (key v : list N) : Prop :=
    forallb byteb key = true /\ small (keybytes_to_hex key) /\ small v.

  (* Update / Delete keep the session invariant, for the updated ground trie *)
  Theorem sess_update_sinv S ss F key v ss' :
    sinv H S ss F -> gsizes F -> op_ok key v ->
    sess_update H PathScheme S ss key v = TOk ss' ->
    exists F', sinv H S ss' F' /\ gsizes F' /\
               lk F' (keybytes_to_hex key) = vopt v /\
               (forall hk, hk <> keybytes_to_hex key -> lk F' hk = lk F hk).
  Proof.
    intros SI Sz (BK & SK & SV) E. pose proof SI as [GO Rp].
    set (k := keybytes_to_hex key) in *.
    assert (Vk : valid_key k) by (apply keybytes_to_hex_valid; exact BK).
    assert (Wp : wfpos F k).
    { right. split; [exact Vk|]. destruct GO as [->|[Cn _]]; [constructor|apply can_wfn; exact Cn]. }
    assert (Cp : canpos F k).
    { right. split; [exact Vk|]. destruct GO as [->|[Cn _]]; [left; reflexivity|right; exact Cn]. }
    assert (FIN : forall F', canpos F' k -> gsizes F' -> gok F').
    { intros F' [[X _]|[_ [->|Cn]]] Sz'; [subst k; rewrite X in Vk; inversion Vk|left; reflexivity|].
      right. split; [exact Cn|apply can_sizes_pwf; assumption]. }
    destruct v as [|x v].
    - destruct (sess_delete_rep S ss F key ss' SI BK E) as (F' & d & evm & _ & Rp' & GR & _). fold k in GR.
      destruct (delete_spec (resolve_of H PathScheme S) (ops_fuel k) F [] k (ops_fuel_ok k) Wp)
        as (d0 & n0 & ev0 & DE0 & PO).
      destruct (GR (ops_fuel k) (ops_fuel_ok k)) as (ev' & DE' & _). rewrite DE0 in DE'. inversion DE'; subst d0 n0 ev0.
      destruct PO as (_ & L1 & L2 & _ & _ & CP & _).
      assert (Sz' : gsizes F').
      { intros k' v' L'. destruct (list_eq_dec N.eq_dec k' k) as [->|NE]; [congruence|].
        rewrite (L2 k' NE) in L'. apply Sz. exact L'. }
      exists F'. split; [split; [apply FIN; [apply CP; exact Cp|exact Sz']|exact Rp']|].
      split; [exact Sz'|]. split; [exact L1|exact L2].
    - destruct (sess_insert_rep H H_len S ss F key x v ss' SI BK E) as (F' & d & evm & _ & Rp' & GR & _). fold k in GR.
      destruct (insert_spec (resolve_of H PathScheme S) (ops_fuel k) F [] k (x :: v) (ops_fuel_ok k) Wp)
        as (d0 & n0 & ev0 & DE0 & PO).
      destruct (GR (ops_fuel k) (ops_fuel_ok k)) as (ev' & DE' & _). rewrite DE0 in DE'. inversion DE'; subst d0 n0 ev0.
      destruct PO as (_ & _ & L1 & L2 & _ & _ & CP & _).
      assert (Sz' : gsizes F').
      { intros k' v' L'. destruct (list_eq_dec N.eq_dec k' k) as [->|NE].
        - rewrite L1 in L'. inversion L'; subst v'. split; [exact SK|]. split; [discriminate|exact SV].
        - rewrite (L2 k' NE) in L'. apply Sz. exact L'. }
      exists F'. split; [split; [apply FIN; [apply CP; exact Cp|exact Sz']|exact Rp']|].
      split; [exact Sz'|]. split; [exact L1|exact L2].
  Qed.

  (* every state a database + trie session can reach over any number of commit
     generations: trie.New on the empty database, or on the store left by the
     commit of a reachable session, then any guarded Update / Delete / Get *)
  Inductive reachable : store -> sess -> Prop :=
  | r_open0 ss :
      open_trie H PathScheme [] (H empty_root_preimage) = TOk ss -> reachable [] ss
  | r_reopen S ss r ons ss2 :
      reachable S ss -> commit H ss = Some (r, ons) ->
      open_trie H PathScheme (applied S ons) r = TOk ss2 -> reachable (applied S ons) ss2
  | r_update S ss key v ss' :
      reachable S ss -> op_ok key v ->
      sess_update H PathScheme S ss key v = TOk ss' -> reachable S ss'
  | r_get S ss key v ss' :
      reachable S ss -> forallb byteb key = true ->
      sess_get H PathScheme S ss key = TOk (v, ss') -> reachable S ss'
  | r_getnode S ss path g ss' :
      reachable S ss -> sess_getnode H PathScheme S ss path = (g, ss') -> reachable S ss'.

End Hist.

(* ------------------------------------------------------------------ *)
(* non-vacuity: a hash function meeting both hypotheses, and a           *)
(* reachable session with content whose commit returns a node set        *)
(* ------------------------------------------------------------------ *)
Definition toyH2 (x : list N) : list N :=
  if bytes_eqb x empty_root_preimage then repeat 1 32 else 0 :: firstn 31 (x ++ repeat 0 31).

Lemma toyH2_len x : length (toyH2 x) = 32%nat.
Proof.
  unfold toyH2. destruct (bytes_eqb x empty_root_preimage); [reflexivity|].
  cbn [length]. rewrite firstn_length, app_length, repeat_length. lia.
Qed.

Lemma toyH2_inj_empty e : toyH2 e = toyH2 empty_root_preimage -> e = empty_root_preimage.
Proof.
  unfold toyH2 at 1. destruct (bytes_eqb e empty_root_preimage) eqn:B.
  - intros _. apply bytes_eqb_eq. exact B.
  - vm_compute. discriminate.
Qed.

Definition ex_e0 : sess := mkSess NEmpty tr_empty [] [].
Definition ex_step (s : sess) (k v : list N) : sess :=
  match sess_update toyH2 PathScheme [] s k v with TOk s' => s' | TErr _ => s end.
Definition ex_e3 : sess := ex_step (ex_step (ex_step ex_e0 [18] (ex_v 1)) [19] (ex_v 2)) [36] (ex_v 3).

Lemma ex_op_ok k b : (length k <= 2)%nat -> forallb byteb k = true -> op_ok k (ex_v b).
Proof.
  intros L B. split; [exact B|]. split.
  - unfold small, lenN, keybytes_to_hex. rewrite app_length. cbn [length].
    assert (X : (length (nibbles_of k) <= 4)%nat).
    { destruct k as [|a [|b0 [|c k]]]; cbn in *; lia. }
    lia.
  - vm_compute. reflexivity.
Qed.

Lemma ex_reachable :
  reachable toyH2 [] ex_e3 /\
  exists r ns, commit toyH2 ex_e3 = Some (r, Some ns) /\ (3 <= length ns)%nat.
Proof.
  split.
  - apply (r_update toyH2 [] (ex_step (ex_step ex_e0 [18] (ex_v 1)) [19] (ex_v 2)) [36] (ex_v 3));
      [|apply ex_op_ok; [cbn; lia|reflexivity]|vm_compute; reflexivity].
    apply (r_update toyH2 [] (ex_step ex_e0 [18] (ex_v 1)) [19] (ex_v 2));
      [|apply ex_op_ok; [cbn; lia|reflexivity]|vm_compute; reflexivity].
    apply (r_update toyH2 [] ex_e0 [18] (ex_v 1));
      [|apply ex_op_ok; [cbn; lia|reflexivity]|vm_compute; reflexivity].
    apply r_open0. vm_compute. reflexivity.
  - destruct (commit toyH2 ex_e3) as [[r [ns|]]|] eqn:C.
    + exists r, ns. split; [reflexivity|]. vm_compute in C. inversion C; subst. cbn. lia.
    + vm_compute in C. discriminate.
    + vm_compute in C. discriminate.
Qed.
