(* Trie/SyncProofs.v — lemmas about the scheduler model Trie/Sync.v.

   1. the delivery composition: a mismatching blob is rejected with the state
      unchanged; a response containing a blob whose hash was not requested is
      rejected as a whole; a validated response is exactly a sequence of
      [deliver_node] calls; duplicates / unrequested deliveries change nothing.
   2. the invariant [hash_ok] over ALL histories of Missing / deliver / Commit steps:
      whatever sits in a request, in the membatch or is flushed by Commit under hash h
      has hash h ("a node whose hash does not match its request is never written"). *)
From Coq Require Import ZArith Lia.
From GV Require Import Lib.Tactics Lib.Bytes Trie.Node Trie.Hash Storage.KV Storage.KVProofs Trie.Sync.
Local Open Scope N_scope.

(* ---------- maps ---------- *)
Lemma aget_adel {V} k k' (m : amap V) :
  aget k (adel k' m) = if beq k k' then None else aget k m.
Proof.
  induction m as [|[k0 v] m IH]; simpl.
  - destruct (beq k k'); reflexivity.
  - destruct (beq k' k0) eqn:E1; simpl.
    + apply beq_eq in E1. subst k0. rewrite IH. destruct (beq k k'); reflexivity.
    + rewrite IH. destruct (beq k k0) eqn:E2; [|reflexivity].
      apply beq_eq in E2. subst k0. rewrite beq_sym, E1. reflexivity.
Qed.

Lemma aget_aput {V} k k' (v : V) m :
  aget k (aput k' v m) = if beq k k' then Some v else aget k m.
Proof.
  unfold aput. simpl. destruct (beq k k') eqn:E; [reflexivity|].
  rewrite aget_adel, E. reflexivity.
Qed.

Lemma Forall2_impl {A B} (P Q : A -> B -> Prop) l1 l2 :
  (forall a b, P a b -> Q a b) -> Forall2 P l1 l2 -> Forall2 Q l1 l2.
Proof. intros HPQ HF. induction HF; constructor; auto. Qed.

Ltac ssimpl := cbn [sc_path sc_db mb_nodes mb_codes mb_size nreqs creqs queue fetches
                    set_db set_mb set_nreqs set_creqs set_queue set_fetches fst snd].

Ltac fa := cbn [fst snd]; assumption.

Section Proofs.
  Variable H : list N -> list N.

  (* ================= 1. the delivery composition ================= *)

  Lemma deliver_node_rejects s path h blob :
    H blob <> h -> deliver_node H s path h blob = (s, RRejected).
  Proof.
    intros Hne. unfold deliver_node. destruct (beq (H blob) h) eqn:E; [|reflexivity].
    apply beq_eq in E. contradiction.
  Qed.

  Lemma deliver_code_rejects s h blob :
    H blob <> h -> deliver_code H s h blob = (s, RRejected).
  Proof.
    intros Hne. unfold deliver_code. destruct (beq (H blob) h) eqn:E; [|reflexivity].
    apply beq_eq in E. contradiction.
  Qed.

  (* duplicates and unrequested deliveries *)
  Lemma process_node_not_requested s path blob :
    aget path (nreqs s) = None -> process_node H s path blob = (s, RNotRequested).
  Proof. intros E. unfold process_node. rewrite E. reflexivity. Qed.

  Lemma process_node_already s path blob r d :
    aget path (nreqs s) = Some r -> nr_data r = Some d ->
    process_node H s path blob = (s, RAlreadyProcessed).
  Proof. intros E D. unfold process_node. rewrite E, D. reflexivity. Qed.

  Lemma process_code_not_requested s h blob :
    aget h (creqs s) = None -> process_code s h blob = (s, RNotRequested).
  Proof. intros E. unfold process_code. rewrite E. reflexivity. Qed.

  Lemma process_code_already s h blob r d :
    aget h (creqs s) = Some r -> cr_data r = Some d ->
    process_code s h blob = (s, RAlreadyProcessed).
  Proof. intros E D. unfold process_code. rewrite E, D. reflexivity. Qed.

  Lemma deliver_node_dup s path h blob :
    (aget path (nreqs s) = None \/ exists r d, aget path (nreqs s) = Some r /\ nr_data r = Some d) ->
    fst (deliver_node H s path h blob) = s /\
    In (snd (deliver_node H s path h blob)) [RNotRequested; RAlreadyProcessed; RRejected].
  Proof.
    intros Hc. unfold deliver_node. destruct (beq (H blob) h); [|simpl; auto].
    destruct Hc as [E|(r & d & E & D)].
    - rewrite process_node_not_requested by exact E. simpl. auto.
    - rewrite (process_node_already _ _ _ _ _ E D). simpl. auto.
  Qed.

  Lemma deliver_code_dup s h blob :
    (aget h (creqs s) = None \/ exists r d, aget h (creqs s) = Some r /\ cr_data r = Some d) ->
    fst (deliver_code H s h blob) = s /\
    In (snd (deliver_code H s h blob)) [RNotRequested; RAlreadyProcessed; RRejected].
  Proof.
    intros Hc. unfold deliver_code. destruct (beq (H blob) h); [|simpl; auto].
    destruct Hc as [E|(r & d & E & D)].
    - rewrite process_code_not_requested by exact E. simpl. auto.
    - rewrite (process_code_already _ _ _ _ _ E D). simpl. auto.
  Qed.

  (* ---- the cross-referencing loop ---- *)
  Lemma fill_one_spec h b hs f r :
    fill_one h b hs = Some (f, r) ->
    exists pre, hs = pre ++ h :: r /\ f = map (fun _ => None) pre ++ [Some b].
  Proof.
    revert f r. induction hs as [|h' hs IH]; simpl; intros f r E; [discriminate|].
    destruct (beq h h') eqn:Eb.
    - inversion E; subst. apply beq_eq in Eb. subst h'. exists []. split; reflexivity.
    - destruct (fill_one h b hs) as [[f' r']|] eqn:E'; [|discriminate].
      inversion E; subst. destruct (IH _ _ eq_refl) as (pre & -> & ->).
      exists (h' :: pre). split; reflexivity.
  Qed.

  Lemma fill_one_none h b hs : fill_one h b hs = None -> ~ In h hs.
  Proof.
    induction hs as [|h' hs IH]; simpl; intros E; [tauto|].
    destruct (beq h h') eqn:Eb; [discriminate|].
    destruct (fill_one h b hs) as [[f' r']|] eqn:E'; [discriminate|].
    intros [->|Hin]; [rewrite beq_refl in Eb; discriminate|]. exact (IH eq_refl Hin).
  Qed.

  (* every filled slot holds a blob with exactly the requested hash *)
  Lemma match_fill_sound : forall blobs hashes f,
    match_fill H hashes blobs = Some f ->
    Forall2 (fun h o => match o with Some b => H b = h /\ In b blobs | None => True end) hashes f.
  Proof.
    induction blobs as [|b bs IH]; simpl; intros hs f E.
    - inversion E; subst. clear E. induction hs; simpl; constructor; auto.
    - destruct (fill_one (H b) b hs) as [[f1 r]|] eqn:E1; [|discriminate].
      destruct (match_fill H r bs) as [f2|] eqn:E2; [|discriminate].
      inversion E; subst. destruct (fill_one_spec _ _ _ _ _ E1) as (pre & -> & ->).
      change (pre ++ H b :: r) with (pre ++ [H b] ++ r). rewrite app_assoc.
      apply Forall2_app.
      + apply Forall2_app.
        * clear. induction pre; simpl; constructor; auto.
        * constructor; [split; [reflexivity|left; reflexivity]|constructor].
      + eapply Forall2_impl; [|apply IH; exact E2].
        intros h [b'|]; [|auto]. intros [? ?]. split; [assumption|right; assumption].
  Qed.

  (* a response containing a blob whose hash is not among the requested hashes is
     rejected as a whole *)
  Lemma match_fill_unrequested : forall blobs hashes b,
    In b blobs -> ~ In (H b) hashes -> match_fill H hashes blobs = None.
  Proof.
    induction blobs as [|b0 bs IH]; simpl; intros hs b Hin Hn; [tauto|].
    destruct (fill_one (H b0) b0 hs) as [[f1 r]|] eqn:E1; [|reflexivity].
    destruct (fill_one_spec _ _ _ _ _ E1) as (pre & -> & ->).
    destruct Hin as [->|Hin].
    - exfalso. apply Hn. apply in_or_app. right. left. reflexivity.
    - rewrite (IH r b Hin); [reflexivity|].
      intros Hr. apply Hn. apply in_or_app. right. right. exact Hr.
  Qed.

  Theorem on_trie_nodes_rejects s paths hashes blobs b :
    In b blobs -> ~ In (H b) hashes ->
    on_trie_nodes H s paths hashes blobs = (s, DUnexpected).
  Proof.
    intros Hin Hn. unfold on_trie_nodes. destruct blobs as [|b0 bs]; [destruct Hin|].
    rewrite (match_fill_unrequested _ _ _ Hin Hn). reflexivity.
  Qed.

  Theorem on_byte_codes_rejects s hashes blobs b :
    In b blobs -> ~ In (H b) hashes ->
    on_byte_codes H s hashes blobs = (s, DUnexpected).
  Proof.
    intros Hin Hn. unfold on_byte_codes. destruct blobs as [|b0 bs]; [destruct Hin|].
    rewrite (match_fill_unrequested _ _ _ Hin Hn). reflexivity.
  Qed.

  (* a validated response is processed as a sequence of [deliver_node] calls, each with
     the hash of its own slot *)
  Fixpoint heal_deliver (s : sync) (paths hashes : list (list N)) (nodes : list (option (list N))) (d : dstat)
    : sync * dstat * bool :=
    match paths, hashes, nodes with
    | p :: ps, h :: hs, None :: ns => heal_deliver s ps hs ns d
    | p :: ps, h :: hs, Some b :: ns =>
        let '(s1, rc) := deliver_node H s p h b in
        if is_panic rc then (s1, dstat_add d rc, true) else heal_deliver s1 ps hs ns (dstat_add d rc)
    | _, _, _ => (s, d, false)
    end.

  Lemma heal_nodes_deliver : forall nodes hashes paths s d,
    length paths = length hashes ->
    Forall2 (fun h o => match o with Some b => H b = h | None => True end) hashes nodes ->
    heal_nodes H s paths nodes d = heal_deliver s paths hashes nodes d.
  Proof.
    induction nodes as [|o ns IH]; intros hs ps s d Hl Hf.
    - inversion Hf; subst. destruct ps; reflexivity.
    - inversion Hf as [|h o' hs' ns' Ho Hf']; subst.
      destruct ps as [|p ps]; [discriminate|]. simpl in Hl. injection Hl as Hl.
      simpl. destruct o as [b|].
      + unfold deliver_node. rewrite Ho, beq_refl.
        destruct (process_node H s p b) as [s1 rc]. destruct (is_panic rc); [reflexivity|].
        apply IH; assumption.
      + apply IH; assumption.
  Qed.

  Theorem on_trie_nodes_is_deliveries s paths hashes blobs nodes :
    length paths = length hashes -> blobs <> [] ->
    match_fill H hashes blobs = Some nodes ->
    Forall2 (fun h o => match o with Some b => H b = h | None => True end) hashes nodes /\
    on_trie_nodes H s paths hashes blobs =
      match heal_deliver s paths hashes nodes dstat0 with
      | (s1, d, true) => (s1, DPanicked d)
      | (s1, d, false) =>
          match commit_healer s1 with
          | Some s2 => (s2, DDone d)
          | None => (s1, DCommitFailed d)
          end
      end.
  Proof.
    intros Hl Hne Hm.
    assert (Hf : Forall2 (fun h o => match o with Some b => H b = h | None => True end) hashes nodes).
    { eapply Forall2_impl; [|apply match_fill_sound; exact Hm]. intros h [b|]; [tauto|auto]. }
    split; [exact Hf|].
    unfold on_trie_nodes. destruct blobs; [contradiction|]. rewrite Hm.
    rewrite (heal_nodes_deliver _ _ _ _ _ Hl Hf). reflexivity.
  Qed.

  (* ================= 2. nothing is stored under a hash it does not have ================= *)

  Definition op_ok (o : nodeop) : Prop :=
    match o with
    | OpDel _ _ => True
    | OpWrite _ _ blob hash => blob = [] \/ H blob = hash
    end.

  (* [hash_ok]: the data cached in a request, every membatch write and every membatch
     code has the hash it is filed under *)
  Variable sc : bool.            (* the scheme of the run: true = path *)

  (* hash scheme: every 32-byte key of the database is the hash of its value *)
  Definition keyed (d : kv) : Prop := forall k v, get k d = Some v -> length k = 32%nat -> H v = k.

  Record hash_ok (s : sync) : Prop := {
    ho_sc : sc_path s = sc;
    ho_db : sc = false -> keyed (sc_db s);
    ho_req : forall p r b, aget p (nreqs s) = Some r -> nr_data r = Some b -> H b = nr_hash r;
    ho_mb : Forall op_ok (mb_nodes s);
    ho_codes : Forall (fun hc => H (snd hc) = fst hc) (mb_codes s) }.

  (* two states with the same requests and membatch *)
  Definition same_rm (s s' : sync) : Prop :=
    sc_path s' = sc_path s /\ sc_db s' = sc_db s /\
    nreqs s' = nreqs s /\ mb_nodes s' = mb_nodes s /\ mb_codes s' = mb_codes s.

  Lemma hash_ok_same s s' : same_rm s s' -> hash_ok s -> hash_ok s'.
  Proof.
    intros (E0 & E00 & E1 & E2 & E3) [S0 D0 A B C]. constructor; rewrite ?E0, ?E00, ?E1, ?E2, ?E3; fa.
  Qed.

  Lemma hash_ok_mb_del s owner path : hash_ok s -> hash_ok (mb_del_node s owner path).
  Proof.
    intros Hs. unfold mb_del_node. destruct (sc_path s) eqn:Esc; [|exact Hs].
    destruct Hs as [S0 D0 A B C]. constructor; ssimpl; auto. constructor; [exact Logic.I|fa].
  Qed.

  (* updating a request without touching hash and data *)
  Lemma hash_ok_bump s s' path d : hash_ok s -> bump_deps s path d = Some s' -> hash_ok s'.
  Proof.
    intros [S0 D0 A B C] E. unfold bump_deps in E. destruct (aget path (nreqs s)) as [a|] eqn:Ea; [|discriminate].
    inversion E; subst. constructor; ssimpl; auto.
    intros p r b. rewrite aget_aput. destruct (beq p path) eqn:Ep.
    - apply beq_eq in Ep. subst p. intros X; inversion X; subst; simpl. intros D. eapply A; eauto.
    - apply A.
  Qed.

  Lemma hash_ok_schedule_node s path r :
    nr_data r = None -> hash_ok s -> hash_ok (schedule_node s path r).
  Proof.
    intros D [S0 D0 A B C]. unfold schedule_node. constructor; ssimpl; auto.
    intros p r' b. rewrite aget_aput. destruct (beq p path).
    - intros X; inversion X; subst. rewrite D. discriminate.
    - apply A.
  Qed.

  Lemma hash_ok_schedule_code s h r : hash_ok s -> hash_ok (schedule_code s h r).
  Proof.
    intros [S0 D0 A B C]. unfold schedule_code.
    destruct (aget h (creqs s)); constructor; ssimpl; auto.
  Qed.

  Lemma hash_ok_add_sub_trie s root path parent pp cb :
    hash_ok s -> hash_ok (match add_sub_trie H s root path parent pp cb with inl x => x | inr x => x end).
  Proof.
    intros Hs. unfold add_sub_trie.
    destruct (beq root (empty_root H)); [fa|].
    destruct (resolve_path path) as [[owner inner]|]; [|fa].
    destruct (has_node H s owner inner root) as [ex inc].
    destruct ex; [fa|].
    assert (Hs1 : hash_ok (if inc then mb_del_node s owner inner else s)).
    { destruct inc; [apply hash_ok_mb_del|]; fa. }
    destruct (aget path (nreqs (if inc then mb_del_node s owner inner else s))); [fa|].
    destruct (negb (beq parent zero32)).
    - destruct (bump_deps _ pp 1) as [s2|] eqn:Eb; [|fa].
      apply hash_ok_schedule_node; [reflexivity|]. eapply hash_ok_bump; eauto.
    - apply hash_ok_schedule_node; [reflexivity|fa].
  Qed.

  Lemma hash_ok_add_code_entry s h path parent pp :
    hash_ok s -> hash_ok (match add_code_entry H s h path parent pp with inl x => x | inr x => x end).
  Proof.
    intros Hs. unfold add_code_entry.
    destruct (beq h (empty_code H)); [fa|].
    destruct (has h (mb_codes s)); [fa|].
    destruct (has (code_key h) (sc_db s)); [fa|].
    destruct (negb (beq parent zero32)).
    - destruct (bump_deps s pp 1) as [s1|] eqn:Eb; [|fa].
      apply hash_ok_schedule_code. eapply hash_ok_bump; eauto.
    - apply hash_ok_schedule_code. fa.
  Qed.

  Lemma hash_ok_on_account s cpath leaf parent pp :
    hash_ok s -> hash_ok (fst (on_account H s cpath leaf parent pp)).
  Proof.
    intros Hs. unfold on_account. destruct (dec_account leaf) as [[root ch]|]; [|fa].
    pose proof (hash_ok_add_sub_trie s root cpath parent pp CbNone Hs) as H1.
    destruct (add_sub_trie H s root cpath parent pp CbNone) as [s1|s1]; [fa|].
    pose proof (hash_ok_add_code_entry s1 (bytes_to_hash ch) cpath parent pp H1) as H2.
    destruct (add_code_entry H s1 (bytes_to_hash ch) cpath parent pp) as [s2|s2]; fa.
  Qed.

  Lemma hash_ok_children_loop : forall cl s path hash cb acc,
    hash_ok s -> Forall (fun pr => nr_data (snd pr) = None) acc ->
    let '(s', acc', _) := children_loop H s path hash cb cl acc in
    hash_ok s' /\ Forall (fun pr => nr_data (snd pr) = None) acc'.
  Proof.
    induction cl as [|[cpath cn] rest IH]; intros s path hash cb acc Hs Ha; cbn [children_loop]; [split; fa|].
    set (cbres := match cb with
                  | CbNone => (s, ROk)
                  | CbAccount => match cn with
                                 | NValue v => if callback_paths_ok cpath then on_account H s cpath v hash path else (s, RPanic)
                                 | _ => (s, ROk)
                                 end
                  end).
    assert (Hcb : hash_ok (fst cbres)).
    { unfold cbres. destruct cb; [fa|]. destruct cn; try fa.
      destruct (callback_paths_ok cpath); [apply hash_ok_on_account|]; fa. }
    replace (match cb with
             | CbNone => (s, ROk)
             | CbAccount => match cn with
                            | NValue v => if callback_paths_ok cpath then on_account H s cpath v hash path else (s, RPanic)
                            | _ => (s, ROk)
                            end
             end) with cbres by reflexivity.
    destruct cbres as [s1 rc]. simpl in Hcb.
    destruct rc; try (split; fa).
    destruct cn; try (apply IH; fa).
    destruct (resolve_path cpath) as [[owner inner]|]; [|split; fa].
    destruct (has_node H s1 owner inner h) as [ex inc].
    destruct ex; [apply IH; fa|].
    apply IH.
    - destruct inc; [apply hash_ok_mb_del|]; fa.
    - constructor; [reflexivity|fa].
  Qed.

  Lemma hash_ok_dangling : forall n s owner inner key i,
    hash_ok s -> hash_ok (dangling s owner inner key i n).
  Proof.
    induction n as [|n IH]; intros s owner inner key i Hs; cbn [dangling]; [fa|].
    apply IH. destruct (has _ (sc_db s)); [apply hash_ok_mb_del|]; fa.
  Qed.

  Lemma hash_ok_children s path hash cb n :
    hash_ok s ->
    let '(s', acc', _) := children H s path hash cb n in
    hash_ok s' /\ Forall (fun pr => nr_data (snd pr) = None) acc'.
  Proof.
    intros Hs. unfold children. destruct (child_list path n) as [cl|]; [|split; [fa|constructor]].
    set (s1 := match n with
               | NShort k (NHash _) =>
                   if sc_path s then
                     match resolve_path path with
                     | Some (owner, inner) => Some (dangling s owner inner (short_key k) 1 (length (short_key k) - 1))
                     | None => None
                     end
                   else Some s
               | _ => Some s
               end).
    assert (Hs1 : match s1 with Some x => hash_ok x | None => True end).
    { unfold s1. destruct n; try fa. destruct n; try fa.
      destruct (sc_path s); [|fa].
      destruct (resolve_path path) as [[owner inner]|]; [|exact Logic.I].
      apply hash_ok_dangling. fa. }
    destruct s1 as [x|]; [|split; [fa|constructor]].
    apply hash_ok_children_loop; [fa|constructor].
  Qed.

  Lemma hash_ok_commit_node_request : forall fuel s path,
    hash_ok s -> hash_ok (fst (commit_node_request fuel s path)).
  Proof.
    induction fuel as [|f IH]; intros s path Hs; [exact Hs|]. cbn [commit_node_request].
    destruct (aget path (nreqs s)) as [r|] eqn:Er; [|fa].
    destruct (resolve_path path) as [[owner inner]|]; [|fa].
    set (blob := match nr_data r with Some b => b | None => [] end).
    set (s2 := set_fetches _ _).
    assert (Hs2 : hash_ok s2).
    { destruct Hs as [S0 D0 A B C]. unfold s2, mb_add_node. constructor; ssimpl; auto.
      - intros p r' b. rewrite aget_adel. destruct (beq p path); [discriminate|]. apply A.
      - constructor; [|fa]. simpl. unfold blob.
        destruct (nr_data r) as [b|] eqn:D; [right; eapply A; eauto|left; reflexivity]. }
    destruct (nr_parent r) as [pp|]; [|fa].
    destruct (aget pp (nreqs s2)) as [p|] eqn:Ep; [|fa].
    set (s3 := set_nreqs s2 _).
    assert (Hs3 : hash_ok s3).
    { destruct Hs2 as [S0 D0 A B C]. unfold s3. constructor; ssimpl; auto.
      intros q r' b. rewrite aget_aput. destruct (beq q pp) eqn:Eq.
      - apply beq_eq in Eq. subst q. intros X; inversion X; subst; simpl. intros D. eapply A; eauto.
      - apply A. }
    destruct (Z.eqb (nr_deps p - 1) 0); [apply IH|]; fa.
  Qed.

  Lemma hash_ok_commit_code_parents : forall parents s,
    hash_ok s -> hash_ok (fst (commit_code_parents s parents)).
  Proof.
    induction parents as [|pp rest IH]; intros s Hs; cbn [commit_code_parents]; [fa|].
    destruct (aget pp (nreqs s)) as [p|] eqn:Ep; [|fa].
    set (s1 := set_nreqs s _).
    assert (Hs1 : hash_ok s1).
    { destruct Hs as [S0 D0 A B C]. unfold s1. constructor; ssimpl; auto.
      intros q r' b. rewrite aget_aput. destruct (beq q pp) eqn:Eq.
      - apply beq_eq in Eq. subst q. intros X; inversion X; subst; simpl. intros D. eapply A; eauto.
      - apply A. }
    destruct (Z.eqb (nr_deps p - 1) 0); [|apply IH; fa].
    pose proof (hash_ok_commit_node_request (cnr_fuel s1) s1 pp Hs1) as Hc.
    destruct (commit_node_request (cnr_fuel s1) s1 pp) as [s2 rc]. simpl in Hc.
    destruct rc; try fa. apply IH; fa.
  Qed.

  Lemma hash_ok_process_code s h data :
    H data = h -> hash_ok s -> hash_ok (fst (process_code s h data)).
  Proof.
    intros Hd Hs. unfold process_code.
    destruct (aget h (creqs s)) as [r|]; [|fa].
    destruct (cr_data r); [fa|].
    apply hash_ok_commit_code_parents.
    destruct Hs as [S0 D0 A B C]. constructor; ssimpl; auto.
    apply Forall_put; [simpl; exact Hd|exact C].
  Qed.

  Lemma hash_ok_schedule_all : forall reqs s s',
    Forall (fun pr => nr_data (snd pr) = None) reqs -> hash_ok s -> schedule_all s reqs = Some s' -> hash_ok s'.
  Proof.
    induction reqs as [|[p r] rest IH]; intros s s' Hf Hs E; cbn [schedule_all] in E.
    - inversion E; subst. exact Hs.
    - inversion Hf; subst. destruct (aget p (nreqs s)); [discriminate|].
      eapply IH; [eassumption| |exact E]. apply hash_ok_schedule_node; assumption.
  Qed.

  (* ProcessNode on a blob that has the hash of the request it is delivered for *)
  Lemma hash_ok_process_node s path data :
    (forall r, aget path (nreqs s) = Some r -> H data = nr_hash r) ->
    hash_ok s -> hash_ok (fst (process_node H s path data)).
  Proof.
    intros Hd Hs. unfold process_node.
    destruct (aget path (nreqs s)) as [r|] eqn:Er; [|fa].
    destruct (nr_data r); [fa|].
    destruct (decode_node data) as [n|]; [|fa].
    set (s1 := set_nreqs s _).
    assert (Hs1 : hash_ok s1).
    { destruct Hs as [S0 D0 A B C]. unfold s1. constructor; ssimpl; auto.
      intros q r' b. rewrite aget_aput. destruct (beq q path) eqn:Eq.
      - intros X; inversion X; subst; simpl. intros D; inversion D; subst. apply Hd. reflexivity.
      - apply A. }
    pose proof (hash_ok_children s1 path (nr_hash r) (nr_cb r) n Hs1) as Hc.
    destruct (children H s1 path (nr_hash r) (nr_cb r) n) as [[s2 reqs] rc].
    destruct Hc as [Hs2 Hreqs].
    destruct rc; try fa.
    destruct (aget path (nreqs s2)) as [r2|] eqn:Er2; [|fa].
    destruct (Nat.eqb (length reqs) 0 && Z.eqb (nr_deps r2) 0).
    - apply hash_ok_commit_node_request. fa.
    - match goal with |- context [schedule_all ?a ?b] => destruct (schedule_all a b) as [s3|] eqn:Esa end; [|fa].
      cbn [fst]. eapply hash_ok_schedule_all; [apply Forall_rev; eassumption| |exact Esa].
      destruct Hs2 as [S0 D0 A B C]. constructor; ssimpl; auto.
      intros q r' b. rewrite aget_aput. destruct (beq q path) eqn:Eq.
      + apply beq_eq in Eq. subst q. intros X; inversion X; subst; simpl. intros D. eapply A; eauto.
      + apply A.
  Qed.

  Lemma hash_ok_missing_go mfd : forall q max count s ns cs,
    hash_ok s -> hash_ok (fst (fst (missing_go mfd q max count s ns cs))).
  Proof.
    induction q as [|[p it] rest IH]; intros max count s ns cs Hs; cbn [missing_go].
    - eapply hash_ok_same; [|exact Hs]. repeat split.
    - destruct (negb (max =? 0) && negb (count <? max)).
      { eapply hash_ok_same; [|exact Hs]. repeat split. }
      destruct (Z.ltb mfd (fget (prio_depth p) (fetches s))).
      { eapply hash_ok_same; [|exact Hs]. repeat split. }
      assert (Hs1 : hash_ok (set_fetches s (fadd (prio_depth p) 1 (fetches s)))).
      { eapply hash_ok_same; [|exact Hs]. repeat split. }
      destruct it as [path|h]; [|apply IH; fa].
      simpl. destruct (aget path (nreqs s)); apply IH; fa.
  Qed.

  Lemma hash_ok_missing s k : hash_ok s -> hash_ok (fst (fst (missing s k))).
  Proof. apply hash_ok_missing_go. Qed.

  (* ---- what Commit flushes (hash scheme) ---- *)
  Hypothesis H_len : forall b, length (H b) = 32%nat.

  Lemma apply_ops_keyed : forall ops d d',
    Forall op_ok ops -> keyed d -> apply_ops false d ops = Some d' -> keyed d'.
  Proof.
    induction ops as [|o ops IH]; simpl; intros d d' Hf Hk E.
    - inversion E; subst. exact Hk.
    - inversion Hf as [|? ? Ho Hf']; subst.
      destruct (apply_op false d o) as [d1|] eqn:E1; [|discriminate].
      eapply IH; [exact Hf'| |exact E].
      destruct o as [owner path|owner path blob hash]; simpl in E1.
      + inversion E1; subst. intros k v. rewrite get_delete. destruct (beq k _); [discriminate|]. apply Hk.
      + destruct blob as [|b0 bl]; [discriminate|]. inversion E1; subst.
        intros k v. rewrite get_put. destruct (beq k hash) eqn:Ek.
        * apply beq_eq in Ek. subst k. intros X; inversion X; subst. intros _.
          destruct Ho as [Ho|Ho]; [discriminate|exact Ho].
        * apply Hk.
  Qed.

  Lemma write_codes_keyed : forall codes d,
    Forall (fun hc => H (snd hc) = fst hc) codes -> keyed d -> keyed (write_codes d codes).
  Proof.
    unfold write_codes. induction codes as [|[h c] rest IH]; simpl; intros d Hf Hk; [exact Hk|].
    inversion Hf as [|? ? Hhc Hf']; subst. simpl in Hhc.
    apply IH; [exact Hf'|]. intros k v. rewrite get_put. destruct (beq k (code_key h)) eqn:Ek; [|apply Hk].
    apply beq_eq in Ek. subst k. intros _ Hl. exfalso.
    unfold code_key in Hl. simpl in Hl. rewrite <- Hhc, H_len in Hl. discriminate.
  Qed.

  Lemma hash_ok_commit s s' : hash_ok s -> commit s = Some s' -> hash_ok s'.
  Proof.
    intros [S0 D0 A B C] E. unfold commit in E.
    destruct (apply_ops (sc_path s) (sc_db s) (rev (mb_nodes s))) as [d|] eqn:Ea; [|discriminate].
    inversion E; subst. constructor; ssimpl; auto.
    intros Hsc. rewrite S0, Hsc in Ea. apply write_codes_keyed; [exact C|].
    eapply apply_ops_keyed; [apply Forall_rev; exact B|apply D0; exact Hsc|exact Ea].
  Qed.

  (* ---- all histories ---- *)
  Inductive op : Type :=
  | OMissing (k : N)
  | ODeliverNode (path h blob : list N)
  | ODeliverCode (h blob : list N)
  | OCommit.

  Definition step (s : sync) (o : op) : sync :=
    match o with
    | OMissing k => fst (fst (missing s k))
    | ODeliverNode p h b => fst (deliver_node H s p h b)
    | ODeliverCode h b => fst (deliver_code H s h b)
    | OCommit => match commit s with Some s' => s' | None => s end
    end.

  (* the delivery layer checks a node against the hash the request was issued for *)
  Definition op_wf (s : sync) (o : op) : Prop :=
    match o with
    | ODeliverNode p h _ => forall r, aget p (nreqs s) = Some r -> h = nr_hash r
    | _ => True
    end.

  Fixpoint run_wf (s : sync) (ops : list op) : Prop :=
    match ops with
    | [] => True
    | o :: r => op_wf s o /\ run_wf (step s o) r
    end.

  Definition run (s : sync) (ops : list op) : sync := fold_left step ops s.

  Lemma hash_ok_step s o : op_wf s o -> hash_ok s -> hash_ok (step s o).
  Proof.
    intros Hw Hs. destruct o as [k|p h b|h b|]; simpl.
    - apply hash_ok_missing. exact Hs.
    - unfold deliver_node. destruct (beq (H b) h) eqn:E; [|exact Hs].
      apply beq_eq in E. apply hash_ok_process_node; [|exact Hs].
      intros r Hr. rewrite E. apply Hw. exact Hr.
    - unfold deliver_code. destruct (beq (H b) h) eqn:E; [|exact Hs].
      apply beq_eq in E. apply hash_ok_process_code; fa.
    - destruct (commit s) as [s'|] eqn:E; [eapply hash_ok_commit; eauto|exact Hs].
  Qed.

  Lemma hash_ok_run : forall ops s, run_wf s ops -> hash_ok s -> hash_ok (run s ops).
  Proof.
    induction ops as [|o r IH]; intros s Hw Hs; simpl; [exact Hs|].
    destruct Hw as [Hw1 Hw2]. apply IH; [exact Hw2|]. apply hash_ok_step; fa.
  Qed.

  (* boolean form of [run_wf] *)
  Definition op_wfb (s : sync) (o : op) : bool :=
    match o with
    | ODeliverNode p h _ => match aget p (nreqs s) with Some r => beq h (nr_hash r) | None => true end
    | _ => true
    end.
  Fixpoint run_wfb (s : sync) (ops : list op) : bool :=
    match ops with
    | [] => true
    | o :: r => op_wfb s o && run_wfb (step s o) r
    end.
  Lemma run_wfb_sound : forall ops s, run_wfb s ops = true -> run_wf s ops.
  Proof.
    induction ops as [|o r IH]; intros s E; simpl in *; [exact Logic.I|].
    apply andb_prop in E. destruct E as [E1 E2]. split; [|apply IH; exact E2].
    destruct o; simpl in *; auto. intros r0 Hr. rewrite Hr in E1. apply beq_eq in E1. exact E1.
  Qed.

  Lemma hash_ok_new_sync db root cb :
    (sc = false -> keyed db) ->
    hash_ok (match new_sync H sc db root cb with inl x => x | inr x => x end).
  Proof.
    intros Hk. unfold new_sync. apply hash_ok_add_sub_trie.
    constructor; ssimpl; auto. intros p r b. discriminate.
  Qed.
End Proofs.

(* ---- a concrete instance for the non-vacuity example ---- *)
Definition toyH (b : list N) : list N := firstn 32 (b ++ repeat 0 32).
Lemma toyH_len b : length (toyH b) = 32%nat.
Proof.
  unfold toyH. rewrite firstn_length, app_length, repeat_length. lia.
Qed.
(* a leaf node [key 0x12 terminated, value "abc"] *)
Definition ex_blob : list N := [199; 130; 32; 18; 131; 97; 98; 99].
Definition ex_root : list N := toyH ex_blob.
Definition ex_ops : list op :=
  [OMissing 0; ODeliverNode [] ex_root [1; 2; 3]; ODeliverNode [] ex_root ex_blob;
   ODeliverNode [] ex_root ex_blob; OCommit].
Definition ex_s0 : sync :=
  match new_sync toyH false [] ex_root CbNone with inl x => x | inr x => x end.
Definition ex_check : bool :=
  run_wfb toyH ex_s0 ex_ops
  && Nat.eqb (pending ex_s0) 1
  && Nat.eqb (pending (run toyH ex_s0 ex_ops)) 0
  && match get ex_root (sc_db (run toyH ex_s0 ex_ops)) with Some b => beq b ex_blob | None => false end
  && Nat.eqb (length (sc_db (run toyH ex_s0 ex_ops))) 1.
