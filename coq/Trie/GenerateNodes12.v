(* Trie/GenerateNodes12.v — C11_gen_nodes_path at the level of the STORE, path
   scheme: after a successful GenerateTrie on a database without trie nodes, the
   trie-node key space is exactly the canonical node set of the state trie and of
   every account's storage trie (each node once, under its path key; nothing else). *)
From Coq Require Import Permutation.
From GV Require Import Lib.Tactics Lib.Bytes Rlp.Codec Trie.Hex Trie.HexProofs Trie.Node Trie.Ops Trie.Hash Trie.OpsProofs Trie.Canon Trie.Stack Trie.StackProofs Trie.ProofProofs Trie.Commit Trie.CommitProofs Trie.CommitTracer Trie.Generate Trie.GenerateProofs Trie.GenerateWalk Trie.GenerateWalk2 Trie.GenerateWalk3 Trie.GenerateKeys Trie.GenerateSize Trie.GenerateAssemble Trie.GenerateAssemble2 Trie.GenerateSched Trie.GenerateRoot Trie.GenerateRoot2 Trie.GenerateRoot3 Trie.GenerateFlat Trie.GenerateFlat2 Trie.GenerateDisjoint Trie.GenerateDisjoint2 Trie.GenerateLocal2 Trie.GenerateNodes Trie.GenerateNodes2 Trie.GenerateNodes5 Trie.GenerateNodes6 Trie.GenerateNodes7 Trie.GenerateNodes8 Trie.GenerateNodes9 Trie.GenerateNodesPaths Trie.GenerateNodes10 Trie.GenerateNodes11.
Local Open Scope N_scope.

(* ---------------------------------------------------------------- association lists as multisets *)

Lemma perm_put {A} k (v : A) : forall m, ~ In k (map fst m) -> Permutation (am_put k v m) ((k, v) :: m).
Proof.
  induction m as [|[k0 v0] m IH]; intros Hni; [apply Permutation_refl|]. cbn [am_put].
  destruct (bytes_cmp k k0) eqn:C.
  - apply bcmp_eq in C. subst. exfalso. apply Hni. left. reflexivity.
  - apply Permutation_refl.
  - eapply Permutation_trans; [apply perm_skip; apply IH; intros Hin; apply Hni; right; exact Hin|]. apply perm_swap.
Qed.

Lemma fold_put_perm {A} : forall (W m : list (list N * A)), NoDup (map fst W) ->
  (forall x, In x W -> ~ In (fst x) (map fst m)) ->
  Permutation (fold_left (fun m hv => am_put (fst hv) (snd hv) m) W m) (W ++ m).
Proof.
  induction W as [|[k v] W IH]; intros m Hnd Hd; [apply Permutation_refl|]. cbn [fold_left fst snd].
  inversion Hnd as [|? ? Hk Hnd']; subst.
  pose proof (perm_put k v m (Hd (k, v) (or_introl eq_refl))) as P1.
  eapply Permutation_trans; [apply IH; [exact Hnd'|]|].
  - intros x Hx Hin. apply (Permutation_in _ (Permutation_map fst P1)) in Hin. cbn [map fst] in Hin.
    destruct Hin as [E|Hin]; [apply Hk; rewrite E; apply in_map; exact Hx|apply (Hd x (or_intror Hx) Hin)].
  - cbn [app]. eapply Permutation_trans; [apply Permutation_app_head; exact P1|]. apply Permutation_sym, Permutation_middle.
Qed.

Lemma perm_filter {A} (f : A -> bool) l l' : Permutation l l' -> Permutation (filter f l) (filter f l').
Proof.
  induction 1 as [|x l l' _ IH|x y l|l l' l'' _ IH1 _ IH2]; cbn [filter].
  - constructor.
  - destruct (f x); [apply perm_skip|]; exact IH.
  - destruct (f x); destruct (f y); try apply Permutation_refl. apply perm_swap.
  - eapply Permutation_trans; eassumption.
Qed.

Lemma filter_all {A} (f : A -> bool) l : (forall x, In x l -> f x = true) -> filter f l = l.
Proof.
  induction l as [|x l IH]; intros Hf; [reflexivity|]. cbn [filter]. rewrite (Hf x (or_introl eq_refl)). f_equal.
  apply IH. intros y Hy. apply Hf. right. exact Hy.
Qed.

Lemma NoDup_map_inj {A B} (f : A -> B) l : (forall x y, f x = f y -> x = y) -> NoDup l -> NoDup (map f l).
Proof.
  intros Hinj. induction 1 as [|x l Hx _ IH]; [constructor|]. cbn. constructor; [|exact IH].
  intros Hin. apply in_map_iff in Hin as (y & E & Hy). apply Hinj in E. subst. contradiction.
Qed.

Definition nstep (m : amap (list N)) (w : wop) : amap (list N) :=
  match w with WNode k v => am_put k v m | WNodeDel k => am_del k m | _ => m end.

Section Nodes12.
  Variable H : list N -> list N.
  Hypothesis H_len : forall x, length (H x) = 32%nat.

  Lemma nodes_apply ws : forall db, g_nodes (apply_ws db ws) = fold_left nstep ws (g_nodes db).
  Proof. induction ws as [|w ws IH]; intros db; [reflexivity|]. cbn [apply_ws fold_left]. fold (apply_ws (apply_w db w) ws). rewrite IH. destruct w; reflexivity. Qed.

  Lemma nstep_puts : forall pw m, ndels pw = [] -> fold_left nstep pw m = fold_left (fun m hv => am_put (fst hv) (snd hv) m) (nws pw) m.
  Proof.
    induction pw as [|w pw IH]; intros m Hd; [reflexivity|]. destruct w; cbn [ndels flat_map app] in Hd; try discriminate; cbn [fold_left nstep nws flat_map app fst snd]; apply IH; exact Hd.
  Qed.

  Lemma nstep_dels : forall dw m, nws dw = [] -> fold_left nstep dw m = fold_left (fun m k => am_del k m) (ndels dw) m.
  Proof.
    induction dw as [|w dw IH]; intros m Hd; [reflexivity|]. destruct w; cbn [nws flat_map app] in Hd; try discriminate; cbn [fold_left nstep ndels flat_map app]; apply IH; exact Hd.
  Qed.

  (* keys of the canonical node set, path scheme *)
  Lemma acct_keys em : map fst (nk H PathScheme zero_hash em) = map (fun pb => 65 :: fst pb) em.
  Proof. unfold nk. rewrite map_map. apply map_ext. intros pb. cbn [fst node_key]. rewrite beqb_refl. reflexivity. Qed.

  Lemma stor_keys h em : h <> zero_hash -> map fst (nk H PathScheme h em) = map (fun pb => 79 :: h ++ fst pb) em.
  Proof. intros Hh. unfold nk. rewrite map_map. apply map_ext. intros pb. cbn [fst node_key]. rewrite beqb_neq by exact Hh. reflexivity. Qed.

  Lemma canon_kok t : canon t -> kok t.
  Proof. intros [->|Hc]; [constructor|apply can_kok; exact Hc]. Qed.

  Lemma stor_trie_canon ss h : wf_stor ss -> canon (stor_trie ss h).
  Proof.
    intros Hw. destruct (update_seq_spec no_resolve (byte_slots ss h) (byte_slots_ok ss h Hw) NEmpty (fun _ => None)
                (or_introl eq_refl) (fun hk => lk_empty hk)) as (t2 & ev & E2 & C2 & _).
    unfold stor_trie, ref_trie. rewrite E2. exact C2.
  Qed.

  Lemma state_trie_canon db : wf_db db -> canon (state_trie H db).
  Proof.
    intros Hwf.
    assert (Hbo : bytes_ops (leaves H db)).
    { unfold bytes_ops, leaves. rewrite Forall_forall. intros kv Hin. apply in_map_iff in Hin as (x & <- & Hx).
      pose proof (wf_ka db Hwf) as Hk. unfold wf_accts in Hk. rewrite Forall_forall in Hk. apply (Hk x Hx). }
    destruct (update_seq_spec no_resolve (leaves H db) Hbo NEmpty (fun _ => None) (or_introl eq_refl) (fun hk => lk_empty hk))
      as (t2 & ev & E2 & C2 & _).
    unfold state_trie, ref_trie. rewrite E2. exact C2.
  Qed.

  Lemma paths_inj_cons (a : N) : forall x y : list N, a :: x = a :: y -> x = y.
  Proof. intros x y E. inversion E. reflexivity. Qed.

  Lemma spec_keys_nodup db : wf_db db -> ~ In zero_hash (map fst (g_accts db)) ->
    NoDup (map fst (spec_nodes H PathScheme db)).
  Proof.
    intros Hwf Hnz. pose proof Hwf as [Hsa Hss Hka Hks]. unfold spec_nodes. rewrite map_app. apply NoDup_app_intro.
    - (* storage tries *)
      assert (G : forall m, sorted m -> wf_accts m -> ~ In zero_hash (map fst m) ->
                NoDup (map fst (flat_map (snodes H PathScheme (g_stor db)) m))).
      { induction m as [|[h slim] m IH]; intros Hs Hw Hz; [constructor|].
        inversion Hs as [|? ? ? Hab Hs']; subst. inversion Hw as [|? ? [L32 _] Hw']; subst. cbn [fst] in *.
        assert (Hh : h <> zero_hash) by (intros ->; apply Hz; left; reflexivity).
        cbn [flat_map]. rewrite map_app. apply NoDup_app_intro.
        - unfold snodes. cbn [fst]. rewrite (stor_keys h _ Hh).
          rewrite <- (map_map fst (fun p => 79 :: h ++ p)). apply NoDup_map_inj.
          + intros x y E. inversion E as [E1]. apply app_inv_head in E1. exact E1.
          + apply nodes_nodup. apply canon_kok, stor_trie_canon. exact Hks.
        - apply IH; [exact Hs'|exact Hw'|]. intros Hin. apply Hz. right. exact Hin.
        - intros key Ha Hb. unfold snodes at 1 in Ha. cbn [fst] in Ha. rewrite (stor_keys h _ Hh) in Ha.
          apply in_map_iff in Ha as (pb & <- & _).
          apply in_map_iff in Hb as (x & Ex & Hx). apply in_flat_map in Hx as ([h' slim'] & Hin' & Hx).
          unfold snodes in Hx. cbn [fst] in Hx.
          assert (Hh' : h' <> zero_hash) by (intros ->; apply Hz; right; apply in_map_iff; exists (zero_hash, slim'); auto).
          assert (Ek : In (fst x) (map fst (nk H PathScheme h' (nodes_of H [] (stor_trie (g_stor db) h'))))) by (apply in_map; exact Hx).
          rewrite (stor_keys h' _ Hh') in Ek. apply in_map_iff in Ek as (pb' & E' & _). rewrite Ex in E'.
          inversion E' as [E1]. unfold wf_accts in Hw'. rewrite Forall_forall in Hw'. destruct (Hw' _ Hin') as [L32' _]. cbn [fst] in L32'.
          apply app_inv_len in E1; [|congruence]. subst h'.
          pose proof (above_In h m Hab _ Hin') as C. cbn [fst] in C. rewrite bcmp_refl in C. discriminate. }
      apply G; assumption.
    - rewrite acct_keys, <- (map_map fst (cons 65)). apply NoDup_map_inj; [apply paths_inj_cons|].
      apply nodes_nodup. apply canon_kok, state_trie_canon. exact Hwf.
    - intros key Ha Hb. rewrite acct_keys in Hb. apply in_map_iff in Hb as (pb & <- & _).
      apply in_map_iff in Ha as (x & Ex & Hx). apply in_flat_map in Hx as ([h slim] & Hin & Hx). unfold snodes in Hx. cbn [fst] in Hx.
      assert (Hh : h <> zero_hash) by (intros ->; apply Hnz; apply in_map_iff; exists (zero_hash, slim); auto).
      assert (Ek : In (fst x) (map fst (nk H PathScheme h (nodes_of H [] (stor_trie (g_stor db) h))))) by (apply in_map; exact Hx).
      rewrite (stor_keys h _ Hh) in Ek. apply in_map_iff in Ek as (pb' & E' & _). rewrite Ex in E'. discriminate.
  Qed.

  Lemma stor_keys_79 db x : ~ In zero_hash (map fst (g_accts db)) ->
    In x (flat_map (snodes H PathScheme (g_stor db)) (g_accts db)) -> exists r, fst x = 79 :: r.
  Proof.
    intros Hnz Hx. apply in_flat_map in Hx as ([h slim] & Hin & Hx). unfold snodes in Hx. cbn [fst] in Hx.
    assert (Hh : h <> zero_hash) by (intros ->; apply Hnz; apply in_map_iff; exists (zero_hash, slim); auto).
    assert (Ek : In (fst x) (map fst (nk H PathScheme h (nodes_of H [] (stor_trie (g_stor db) h))))) by (apply in_map; exact Hx).
    rewrite (stor_keys h _ Hh) in Ek. apply in_map_iff in Ek as (pb' & E' & _). eexists. symmetry. exact E'.
  Qed.

  (* gen_nodes_path *)
  Theorem gen_nodes_path expected db st : wf_db db -> small_state H db ->
    g_nodes db = [] -> ~ In zero_hash (map fst (g_accts db)) ->
    fst (generate H PathScheme expected db) = GOk st ->
    Permutation (g_nodes (snd (generate H PathScheme expected db))) (spec_nodes H PathScheme db) /\
    sorted (g_nodes (snd (generate H PathScheme expected db))).
  Proof.
    intros Hwf Hsm Hn0 Hnz Hok.
    destruct (gen_node_writes H H_len PathScheme expected db st Hwf Hsm Hok) as (pw & dw & orphan & Esnd & Dp & Nd & Lo & PW & Dd & Hfr & _).
    specialize (Hfr eq_refl).
    rewrite Esnd, nodes_apply, Hn0, fold_left_app, (nstep_puts pw [] Dp), (nstep_dels dw _ Nd), Dd.
    pose proof (spec_keys_nodup db Hwf Hnz) as NDs.
    (* keys of spec ++ orphan are pairwise different *)
    assert (NDo : NoDup (map fst (spec_nodes H PathScheme db ++ orphan))).
    { rewrite map_app. apply NoDup_app_intro; [exact NDs| |].
      - destruct orphan as [|o [|o2 r]]; [constructor|cbn; constructor; [intros []|constructor]|cbn in Lo; lia].
      - intros key Ha Hb. apply in_map_iff in Hb as (o & <- & Ho). destruct (Hfr o Ho) as [[path Ep] Hni].
        unfold spec_nodes in Ha. rewrite map_app in Ha. apply in_app_or in Ha as [Ha|Ha]; [|exact (Hni Ha)].
        apply in_map_iff in Ha as (x & Ex & Hx). destruct (stor_keys_79 db x Hnz Hx) as [r Er]. congruence. }
    assert (NDw : NoDup (map fst (nws pw))).
    { eapply Permutation_NoDup; [apply Permutation_sym, Permutation_map; exact PW|exact NDo]. }
    pose proof (fold_put_perm (nws pw) [] NDw (fun x _ Hin => Hin)) as PF. rewrite app_nil_r in PF.
    split.
    - rewrite fold_del_filter.
      eapply Permutation_trans; [apply perm_filter; eapply Permutation_trans; [exact PF|exact PW]|].
      rewrite filter_app.
      assert (F1 : filter (fun kv => negb (existsb (fun k => bytes_eqb k (fst kv)) (map fst orphan))) (spec_nodes H PathScheme db) = spec_nodes H PathScheme db).
      { apply filter_all. intros x Hx. apply negb_true_iff. destruct (existsb _ _) eqn:Ex; [|reflexivity]. exfalso.
        apply existsb_exists in Ex as (k & Hk & Bk). apply beqb_eq in Bk. subst k.
        rewrite map_app in NDo. apply in_map_iff in Hk as (o & Eo & Ho).
        assert (Hdis : forall a b : list (list N), NoDup (a ++ b) -> forall z, In z a -> In z b -> False).
        { induction a as [|y a IHa]; intros b Hnd z Hz1 Hz2; [destruct Hz1|]. inversion Hnd; subst. destruct Hz1 as [->|Hz1].
          - match goal with Hn : ~ In z (a ++ b) |- _ => apply Hn; apply in_or_app; right; exact Hz2 end.
          - eapply IHa; eassumption. }
        apply (Hdis _ _ NDo (fst x)); [apply in_map; exact Hx|rewrite <- Eo; apply in_map; exact Ho]. }
      assert (F2 : filter (fun kv => negb (existsb (fun k => bytes_eqb k (fst kv)) (map fst orphan))) orphan = []).
      { apply filter_nil_of. intros x Hx. apply negb_false_iff. apply existsb_exists. exists (fst x). split; [apply in_map; exact Hx|apply beqb_refl]. }
      rewrite F1, F2, app_nil_r. apply Permutation_refl.
    - rewrite fold_del_filter. apply sorted_filter. apply fold_put_sorted. constructor.
  Qed.
End Nodes12.
