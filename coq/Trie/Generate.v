(* Trie/Generate.v — executable model of /repo/triedb/generate.go (GenerateTrie:
   partitioned trie generation from the flat snapshot), together with
   /repo/trie/stacktrie_partial.go (PartialStackTrie), the onTrieNode callback
   of /repo/trie/stacktrie.go (which Trie/Stack.v leaves out),
   /repo/trie/node.go (MountPartitionRoot, AssembleBranch),
   /repo/core/types/state_account.go (FullAccount, SlimAccountRLP) and the key
   layout of /repo/core/rawdb (WriteTrieNode / DeleteTrieNode, both schemes).

   Database.  Three sorted association lists (Trie/Commit.v [amap], Go string
   order = the iteration order of every ethdb backend):
     g_accts : 32-byte account hash        |-> slim-RLP account   (prefix "a")
     g_stor  : account hash ++ slot hash   |-> value              (prefix "o")
     g_nodes : rawdb trie-node key         |-> blob   ("A"++path, "O"++owner++path, or the hash)
   Only keys of the exact length are modelled (rawdb.NewKeyLengthIterator
   filters all others away and the generator never touches them).

   A partition is a pure function of the database it starts from and returns
   the list of batch writes it performs, in program order ([wop]).  What this
   leaves out, and why it cannot matter: the batch is flushed whenever it
   exceeds ethdb.IdealBatchSize and both iterators are re-opened at their next
   key (flushIfFull/reopen).  Every write of a partition is either behind its
   own cursors (dangling-slot deletions, the rewrite of the account being
   processed) or in another key family (trie nodes), and the writes of the
   other fifteen goroutines lie outside the keys whose VALUES this partition
   reads; so a re-opened iterator serves the same remaining entries.  The
   concurrent schedule is then the interleaving of the sixteen write lists
   (Properties/C11.v partition_order_irrelevant, partition_reads_local).
   Not modelled: cancellation (cancel channel / errgroup context), the progress
   ticker, logging, the byte/node counters that are only logged.

   The hash function is the Section variable [H] (Keccak-256 in Run/C11.v).
   Definitions only; proofs are in Trie/GenerateProofs.v. *)
From GV Require Import Lib.Bytes Rlp.Item Rlp.Raw Rlp.Codec Rlp.Stream Rlp.Schema Trie.Hex Trie.Node Trie.Ops Trie.Hash Trie.Stack Trie.Commit.
Local Open Scope N_scope.

(* nodes handed to the onTrieNode callback, in call order: (path, blob); the
   hash argument of the callback is always H blob *)
Definition ems : Type := list (list N * list N).

Definition is_nil {A} (l : list A) : bool := match l with [] => true | _ => false end.

(* ------------------------------------------------------------------ errors *)
Inductive gerr : Type :=
| GDecode                (* "decode account": types.FullAccount failed *)
| GStorUpdate (c : N)    (* "storage stack trie update": 1 = empty value, 2 = non-ascending *)
| GAcctUpdate (c : N)    (* "account stack trie update": 1 / 2 as above, 3 = unexpected nibble *)
| GPanic (e : terr)      (* the Go code would panic (or model fuel, proved unreachable) *)
| GMount (c : N)         (* "mount partition": 1 = decode partition root, 2 = element count, 3 = compact key *)
| GMismatch.             (* "state root mismatch" *)

Inductive gres (A : Type) : Type := GOk (a : A) | GErr (e : gerr).
Arguments GOk {A} a.
Arguments GErr {A} e.

Section Gen.
  Variable H : list N -> list N.

  (* ================================================================ stack trie with the callback *)

  (* StackTrie.hash(st, path): the val of the node once hashed, and the nodes
     passed to onTrieNode (children first, then the node itself unless it is a
     non-root node shorter than 32 bytes) *)
  Fixpoint st_hash_e (st : stnode) (path : list N) : tres (list N * ems) :=
    let finish (blob : list N) (em : ems) : tres (list N * ems) :=
      if Nat.ltb (length blob) 32 && negb (is_nil path) then TOk (blob, em)
      else TOk (H blob, em ++ [(path, blob)]) in
    match st with
    | StHashed v => TOk (v, [])
    | StEmpty => TOk (H [128], [])                      (* types.EmptyRootHash, no callback *)
    | StBranch cs =>
        let fix go (i : nat) (l : list stnode) : tres (list N * ems) :=
          match l with
          | [] => TOk ([128], [])                        (* nodes.Children[16] is empty *)
          | c :: r =>
              let e := match c with
                       | StNil => TOk ([128], [])
                       | _ => match st_hash_e c (path ++ [N.of_nat i]) with
                              | TOk (v, em) => TOk (enc_child_val v, em)
                              | TErr e => TErr e
                              end
                       end in
              match e, go (S i) r with
              | TOk (a, ea), TOk (b, eb) => TOk (a ++ b, ea ++ eb)
              | TErr e, _ => TErr e
              | _, TErr e => TErr e
              end
          end in
        match go O cs with
        | TOk (payload, em) => finish (list_wrap payload) em
        | TErr e => TErr e
        end
    | StExt k c =>
        match st_hash_e c (path ++ k) with
        | TErr e => TErr e
        | TOk (v, em) =>
            match hex_to_compact_in_place k with
            | None => TErr EPanic
            | Some ck => finish (list_wrap (enc_str ck ++ enc_child_val v)) em
            end
        end
    | StLeaf k v =>
        match hex_to_compact_in_place (k ++ [16]) with
        | None => TErr EPanic
        | Some ck => finish (list_wrap (enc_str ck ++ enc_str v)) []
        end
    | StNil => TErr EPanic
    end.

  (* t.hash(n, path) in place during insert *)
  Definition hashed_e (st : stnode) (path : list N) : tres (stnode * ems) :=
    match st_hash_e st path with TOk (v, em) => TOk (StHashed v, em) | TErr e => TErr e end.

  (* insert, branch case: hash the nearest elder sibling at append(path, i) *)
  Fixpoint hash_prev_e (i : nat) (cs : list stnode) (path : list N) : tres (list stnode * ems) :=
    match i with
    | O => TOk (cs, [])
    | S j =>
        match nth_error cs j with
        | None => TErr EPanic
        | Some StNil => hash_prev_e j cs path
        | Some (StHashed _) => TOk (cs, [])
        | Some c =>
            match hashed_e c (path ++ [N.of_nat j]) with
            | TErr e => TErr e
            | TOk (c', em) => match set_nth j c' cs with Some cs' => TOk (cs', em) | None => TErr EPanic end
            end
        end
    end.

  (* StackTrie.insert(st, key, value, path) with the callback *)
  Fixpoint st_insert_e (fuel : nat) (st : stnode) (key value path : list N) : tres (stnode * ems) :=
    match fuel with
    | O => TErr EFuel
    | S f =>
        match st with
        | StBranch cs =>
            match key with
            | [] => TErr EPanic
            | k0 :: kr =>
                match hash_prev_e (N.to_nat k0) cs path with
                | TErr e => TErr e
                | TOk (cs1, em1) =>
                    match nth_error cs1 (N.to_nat k0) with
                    | None => TErr EPanic
                    | Some StNil =>
                        match set_nth (N.to_nat k0) (StLeaf kr value) cs1 with
                        | Some cs2 => TOk (StBranch cs2, em1)
                        | None => TErr EPanic
                        end
                    | Some c =>
                        match st_insert_e f c kr value (path ++ [k0]) with
                        | TErr e => TErr e
                        | TOk (c', em2) =>
                            match set_nth (N.to_nat k0) c' cs1 with
                            | Some cs2 => TOk (StBranch cs2, em1 ++ em2)
                            | None => TErr EPanic
                            end
                        end
                    end
                end
            end
        | StExt k c =>
            match get_diff_index k key with
            | None => TErr EPanic
            | Some d =>
                if Nat.eqb d (length k) then
                  match st_insert_e f c (skipn d key) value (path ++ firstn d key) with
                  | TOk (c', em) => TOk (StExt k c', em)
                  | TErr e => TErr e
                  end
                else
                  let n := if Nat.ltb d (length k - 1)
                           then hashed_e (StExt (skipn (d + 1) k) c) (path ++ firstn (d + 1) k)
                           else hashed_e c (path ++ k) in
                  match n, nth_error k d, nth_error key d with
                  | TErr e, _, _ => TErr e
                  | TOk (n', em), Some origIdx, Some newIdx =>
                      match branch2 origIdx n' newIdx (StLeaf (skipn (d + 1) key) value) with
                      | TErr e => TErr e
                      | TOk p => if Nat.eqb d 0 then TOk (p, em) else TOk (StExt (firstn d k) p, em)
                      end
                  | _, _, _ => TErr EPanic
                  end
            end
        | StLeaf k v =>
            match get_diff_index k key with
            | None => TErr EPanic
            | Some d =>
                if Nat.leb (length k) d then TErr EPanic
                else
                  match nth_error k d, nth_error key d with
                  | Some origIdx, Some newIdx =>
                      match hashed_e (StLeaf (skipn (d + 1) k) v) (path ++ firstn (d + 1) k) with
                      | TErr e => TErr e
                      | TOk (n', em) =>
                          match branch2 origIdx n' newIdx (StLeaf (skipn (d + 1) key) value) with
                          | TErr e => TErr e
                          | TOk p => if Nat.eqb d 0 then TOk (p, em) else TOk (StExt (firstn d k) p, em)
                          end
                      end
                  | _, _ => TErr EPanic
                  end
            end
        | StEmpty => TOk (StLeaf key value, [])
        | StHashed _ => TErr EPanic
        | StNil => TErr EPanic
        end
    end.

  (* StackTrie.update(k, value) on a hex key without terminator: inl 2 =
     "non-ascending key order" *)
  Definition st_update_hex_e (s : stack) (k value : list N) : tres (N + stack * ems) :=
    if negb (slice_lt (snd s) k) then TOk (inl 2)
    else
      match st_insert_e (S (length k)) (fst s) k value [] with
      | TErr e => TErr e
      | TOk (r, em) => TOk (inr ((r, k), em))
      end.

  (* StackTrie.Update(key, value): inl 1 = "trying to insert empty (deletion)" *)
  Definition st_update_e (s : stack) (key value : list N) : tres (N + stack * ems) :=
    match value with
    | [] => TOk (inl 1)
    | _ => st_update_hex_e s (nibbles_of key) value
    end.

  (* PartialStackTrie.Update(key, value): the leading nibble is checked and
     stripped; inl 3 = "unexpected nibble"; k[0] on an empty key panics.  The
     returned paths are the INNER paths (the callback prefixes them, [prefix_em]) *)
  Definition pst_update_e (nibble : N) (s : stack) (key value : list N) : tres (N + stack * ems) :=
    match value with
    | [] => TOk (inl 1)
    | _ =>
        match nibbles_of key with
        | [] => TErr EPanic
        | k0 :: kr => if N.eqb k0 nibble then st_update_hex_e s kr value else TOk (inl 3)
        end
    end.

  (* StackTrie.Hash() / PartialStackTrie.Hash() *)
  Definition st_root_e (s : stack) : tres (list N * ems) := st_hash_e (fst s) [].

  (* NewPartialStackTrie's wrapper callback: path := nibble :: path *)
  Definition prefix_em (nibble : N) (em : ems) : ems :=
    map (fun pb => (nibble :: fst pb, snd pb)) em.

  (* ================================================================ accounts (core/types/state_account.go) *)

  Record account : Type := mkAccount { a_nonce : N; a_bal : N; a_root : list N; a_code : list N }.

  Definition slim_schema : schema := SStruct [SUint 64; SU256; SBytes; SBytes].

  Definition empty_root : list N := H [128].     (* types.EmptyRootHash *)
  Definition empty_code : list N := H [].        (* types.EmptyCodeHash *)

  (* common.BytesToHash: crop from the left / left-pad with zeros *)
  Definition bytes_to_hash (b : list N) : list N :=
    let n := length b in
    if Nat.ltb 32 n then skipn (n - 32) b else repeat 0 (32 - n) ++ b.

  (* types.FullAccount(data); None = rlp error *)
  Definition full_account (data : list N) : option account :=
    match decode_typed slim_schema data with
    | Ok (VList [VNum n; VNum b; VBytes r; VBytes c]) =>
        Some (mkAccount n b
                (match r with [] => empty_root | _ => bytes_to_hash r end)
                (match c with [] => empty_code | _ => c end))
    | _ => None
    end.

  (* types.SlimAccountRLP(account) *)
  Definition slim_rlp (a : account) : list N :=
    encode_typed (VList [VNum (a_nonce a); VNum (a_bal a);
                         VBytes (if bytes_eqb (a_root a) empty_root then [] else a_root a);
                         VBytes (if bytes_eqb (a_code a) empty_code then [] else a_code a)]).

  (* rlp.EncodeToBytes(account) for a StateAccount *)
  Definition full_rlp (a : account) : list N :=
    encode_typed (VList [VNum (a_nonce a); VNum (a_bal a); VBytes (a_root a); VBytes (a_code a)]).

  (* ================================================================ database and writes *)

  Record gdb : Type := mkDb { g_accts : amap (list N); g_stor : amap (list N); g_nodes : amap (list N) }.

  Inductive wop : Type :=
  | WNode (k v : list N)       (* rawdb.WriteTrieNode *)
  | WNodeDel (k : list N)      (* rawdb.DeleteTrieNode *)
  | WAcct (h v : list N)       (* rawdb.WriteAccountSnapshot *)
  | WStorDel (k : list N).     (* rawdb.DeleteStorageSnapshot, k = account hash ++ slot hash *)

  Definition apply_w (db : gdb) (w : wop) : gdb :=
    match w with
    | WNode k v => mkDb (g_accts db) (g_stor db) (am_put k v (g_nodes db))
    | WNodeDel k => mkDb (g_accts db) (g_stor db) (am_del k (g_nodes db))
    | WAcct h v => mkDb (am_put h v (g_accts db)) (g_stor db) (g_nodes db)
    | WStorDel k => mkDb (g_accts db) (am_del k (g_stor db)) (g_nodes db)
    end.
  Definition apply_ws (db : gdb) (ws : list wop) : gdb := fold_left apply_w ws db.

  (* rawdb key of a trie node.  hash scheme: the node hash.  path scheme:
     "A" ++ path if owner == common.Hash{} else "O" ++ owner ++ path *)
  Definition zero_hash : list N := repeat 0 32.
  Definition node_key (sc : scheme) (owner path hash : list N) : list N :=
    match sc with
    | HashScheme => hash
    | PathScheme => if bytes_eqb owner zero_hash then 65 :: path else 79 :: owner ++ path
    end.

  Definition node_writes (sc : scheme) (owner : list N) (em : ems) : list wop :=
    map (fun pb => WNode (node_key sc owner (fst pb) (H (snd pb))) (snd pb)) em.

  (* ================================================================ generatePartition *)

  (* hashRanges(16)[p]: [p<<252, (p+1)<<252 - 1] as 32-byte big-endian hashes *)
  Definition range_start (p : N) : list N := (16 * p) :: repeat 0 31.
  Definition range_end (p : N) : list N := (16 * p + 15) :: repeat 255 31.

  Definition bytes_gtb (a b : list N) : bool := match bytes_cmp a b with Gt => true | _ => false end.
  Definition bytes_ltb (a b : list N) : bool := match bytes_cmp a b with Lt => true | _ => false end.

  (* db.NewIterator(prefix, start): skip the keys below start *)
  Fixpoint seek {A} (start : list N) (m : amap A) : amap A :=
    match m with
    | [] => []
    | (k, v) :: r => if bytes_ltb k start then seek start r else m
    end.

  (* the inner loop over iters.stor for the account [h]: returns the storage
     entries not consumed (Hold() = the current entry stays), the storage
     stack trie, the writes and the numbers of deleted / scanned slots *)
  Fixpoint stor_loop (sc : scheme) (h : list N) (ss : amap (list N)) (st : stack)
    : gres (amap (list N) * stack * list wop * N) :=
    match ss with
    | [] => GOk ([], st, [], 0)
    | (k, v) :: ss' =>
        let sa := firstn 32 k in
        match bytes_cmp sa h with
        | Lt =>                                            (* dangling: delete, continue *)
            match stor_loop sc h ss' st with
            | GErr e => GErr e
            | GOk (rest, st', ws, nd) => GOk (rest, st', WStorDel k :: ws, nd + 1)
            end
        | Gt => GOk (ss, st, [], 0)                        (* Hold(); break *)
        | Eq =>
            match st_update_e st (skipn 32 k) v with
            | TErr e => GErr (GPanic e)
            | TOk (inl c) => GErr (GStorUpdate c)
            | TOk (inr (st1, em)) =>
                match stor_loop sc h ss' st1 with
                | GErr e => GErr e
                | GOk (rest, st', ws, nd) => GOk (rest, st', node_writes sc h em ++ ws, nd)
                end
            end
        end
    end.

  Record pacc : Type := mkPacc {
    p_stor : amap (list N);      (* storage entries not yet consumed *)
    p_trie : stack;              (* the partition's account trie builder *)
    p_ws : list wop;             (* batch writes in program order *)
    p_em : ems;                  (* nodes of the account trie emitted so far (inner paths) *)
    p_scanned : N; p_updated : N; p_deleted : N }.

  (* the loop over iters.acct *)
  Fixpoint acct_loop (sc : scheme) (p : N) (accs : amap (list N)) (ss : amap (list N)) (pt : stack)
    : gres pacc :=
    match accs with
    | [] => GOk (mkPacc ss pt [] [] 0 0 0)
    | (h, slim) :: accs' =>
        if bytes_gtb h (range_end p) then GOk (mkPacc ss pt [] [] 0 0 0)     (* break *)
        else
          match full_account slim with
          | None => GErr GDecode
          | Some acc =>
              match stor_loop sc h ss stack_new with
              | GErr e => GErr e
              | GOk (ss1, sst, ws1, nd) =>
                  match st_root_e sst with                   (* computed := storageTrie.Hash() *)
                  | TErr e => GErr (GPanic e)
                  | TOk (computed, em) =>
                      let ws2 := node_writes sc h em in
                      let stale := negb (bytes_eqb computed (a_root acc)) in
                      let acc' := if stale then mkAccount (a_nonce acc) (a_bal acc) computed (a_code acc) else acc in
                      let ws3 := if stale then [WAcct h (slim_rlp acc')] else [] in
                      match pst_update_e p pt h (full_rlp acc') with
                      | TErr e => GErr (GPanic e)
                      | TOk (inl c) => GErr (GAcctUpdate c)
                      | TOk (inr (pt', em')) =>
                          match acct_loop sc p accs' ss1 pt' with
                          | GErr e => GErr e
                          | GOk r =>
                              GOk (mkPacc (p_stor r) (p_trie r)
                                     (ws1 ++ ws2 ++ ws3 ++ node_writes sc zero_hash (prefix_em p em') ++ p_ws r)
                                     (em' ++ p_em r)
                                     (p_scanned r + 1)
                                     (p_updated r + (if stale then 1 else 0))
                                     (p_deleted r + nd))
                          end
                      end
                  end
              end
          end
    end.

  (* the dangling-tail loop after the account loop *)
  Fixpoint tail_loop (p : N) (ss : amap (list N)) : list wop * N :=
    match ss with
    | [] => ([], 0)
    | (k, v) :: ss' =>
        if bytes_gtb (firstn 32 k) (range_end p) then ([], 0)
        else let '(ws, n) := tail_loop p ss' in (WStorDel k :: ws, n + 1)
    end.

  (* the callback's  if len(path) == 1 { root = CopyBytes(blob) }  over all calls *)
  Definition find_root (pem : ems) : option (list N) :=
    fold_left (fun r pb => if Nat.eqb (length (fst pb)) 1 then Some (snd pb) else r) pem None.

  Record pres : Type := mkPres {
    r_root : option (list N);    (* subtree root blob, None = nil (empty partition) *)
    r_ws : list wop;
    r_scanned : N; r_updated : N; r_deleted : N }.

  Definition generate_partition (sc : scheme) (p : N) (db : gdb) : gres pres :=
    match acct_loop sc p (seek (range_start p) (g_accts db)) (seek (range_start p) (g_stor db)) stack_new with
    | GErr e => GErr e
    | GOk r =>
        let '(wt, nt) := tail_loop p (p_stor r) in
        match st_root_e (p_trie r) with                      (* acctTrie.Hash() *)
        | TErr e => GErr (GPanic e)
        | TOk (_, em) =>
            GOk (mkPres (find_root (prefix_em p (p_em r ++ em)))
                   (p_ws r ++ wt ++ node_writes sc zero_hash (prefix_em p em))
                   (p_scanned r) (p_updated r) (p_deleted r + nt))
        end
    end.

  (* ================================================================ assembleRoot *)

  (* rlp.SplitListValues(content): the raw elements; fuel = len, never exhausted
     (every element has at least one byte) *)
  Fixpoint split_values (fuel : nat) (b : list N) : option (list (list N)) :=
    match b with
    | [] => Some []
    | _ =>
        match fuel with
        | O => None
        | S f =>
            match read_kind b with
            | Err _ => None
            | Ok (_, ts, cs) =>
                let n := N.to_nat (ts + cs) in
                match split_values f (skipn n b) with
                | Some l => Some (firstn n b :: l)
                | None => None
                end
            end
        end
    end.

  (* trie.decodeNodeElements *)
  Definition decode_node_elements (blob : list N) : option (list (list N)) :=
    match blob with
    | [] => None
    | _ =>
        match split_list blob with
        | Err _ => None
        | Ok (content, _) =>
            match count_values content with
            | (_, Some _) => None
            | (_, None) => split_values (length content) content
            end
        end
    end.

  (* rlp.MergeListValues *)
  Definition merge_list_values (elems : list (list N)) : list N := list_wrap (concat elems).

  (* trie.MountPartitionRoot(blob, n) -> (hash, writeBlob, isOrphaned) *)
  Definition mount_partition_root (blob : list N) (n : N) : gres (list N * list N * bool) :=
    match decode_node_elements blob with
    | None => GErr (GMount 1)
    | Some elems =>
        match elems with
        | [e0; e1] =>
            match split_string e0 with
            | Err _ => GErr (GMount 3)
            | Ok (ck, _) =>
                match hex_to_compact (n :: compact_to_hex ck) with
                | None => GErr (GPanic EPanic)
                | Some ck' =>
                    let wb := merge_list_values [enc_str ck'; e1] in
                    GOk (H wb, wb, true)
                end
            end
        | _ =>
            if Nat.eqb (length elems) 17 then
              match hex_to_compact [n] with
              | None => GErr (GPanic EPanic)
              | Some ck =>
                  let wb := merge_list_values [enc_str ck; enc_str (H blob)] in
                  GOk (H wb, wb, false)
              end
            else GErr (GMount 2)
        end
    end.

  (* trie.AssembleBranch(children): fullnodeEncoder over 17 slots, an empty
     slot is 0x80, any other a string (the slots hold 32-byte hashes) *)
  Definition assemble_branch (children : list (list N)) : list N :=
    list_wrap (concat (map (fun c => match c with [] => [128] | _ => enc_child_val c end) children)).

  (* assembleRoot(db, scheme, partitionBlobs) -> (root hash, writes) *)
  Definition assemble_root (sc : scheme) (blobs : list (option (list N))) : gres (list N * list wop) :=
    let populated := length (filter (fun b => match b with Some _ => true | None => false end) blobs) in
    (* partition = last populated index *)
    let last_pop := fold_left (fun acc ib => match snd ib with Some b => Some (fst ib, b) | None => acc end)
                      (combine (seq 0 (length blobs)) blobs) None in
    match populated with
    | O => GOk (empty_root, [])
    | 1%nat =>
        match last_pop with
        | None => GErr (GPanic EPanic)
        | Some (i, blob) =>
            match mount_partition_root blob (N.of_nat i) with
            | GErr e => GErr e
            | GOk (rh, rb, orphan) =>
                GOk (rh, WNode (node_key sc zero_hash [] rh) rb ::
                         (if orphan then [WNodeDel (node_key sc zero_hash [N.of_nat i] (H blob))] else []))
            end
        end
    | _ =>
        let children := map (fun b => match b with Some blob => H blob | None => [] end) blobs ++ [[]] in
        let rb := assemble_branch children in
        GOk (H rb, [WNode (node_key sc zero_hash [] (H rb)) rb])
    end.

  (* ================================================================ GenerateTrie *)

  Definition partitions : list N := [0;1;2;3;4;5;6;7;8;9;10;11;12;13;14;15].

  (* run the partitions (each on the database as it was at the start — see the
     header), None-error = the first failing partition in index order (with
     more than one failing goroutine errgroup may report any of them; the
     harness never builds such a case) *)
  Fixpoint run_partitions (sc : scheme) (db : gdb) (ps : list N) : gres (list pres) :=
    match ps with
    | [] => GOk []
    | p :: r =>
        match generate_partition sc p db with
        | GErr e => GErr e
        | GOk x => match run_partitions sc db r with GErr e => GErr e | GOk l => GOk (x :: l) end
        end
    end.

  Record gstats : Type := mkStats { s_scanned : N; s_updated : N; s_deleted : N }.

  (* the database after all partitions and assembleRoot ran, and what
     GenerateTrie returns.  [order] is the schedule: the sequence in which the
     per-partition write lists reach the database (any permutation of 0..15
     gives the same result; Run uses the identity) *)
  Definition generate (sc : scheme) (expected : list N) (db : gdb) : gres gstats * gdb :=
    match run_partitions sc db partitions with
    | GErr e => (GErr e, db)          (* database contents after a partition error are schedule dependent: not modelled *)
    | GOk rs =>
        let db1 := fold_left (fun d r => apply_ws d (r_ws r)) rs db in
        match assemble_root sc (map r_root rs) with
        | GErr e => (GErr e, db1)
        | GOk (got, ws) =>
            let db2 := apply_ws db1 ws in
            if bytes_eqb got expected then
              (GOk (mkStats (fold_left N.add (map r_scanned rs) 0)
                            (fold_left N.add (map r_updated rs) 0)
                            (fold_left N.add (map r_deleted rs) 0)), db2)
            else (GErr GMismatch, db2)
        end
    end.
End Gen.
