(* Trie/CommitSim.v — the trie operations preserve the representation relation
   of Trie/CommitReads.v: running get / insert / delete on an in-memory trie that
   represents the ground trie [G] yields a trie representing the result of the
   same operation on [G] (resolution of hash nodes is transparent). *)
From GV Require Import Lib.Tactics Lib.Bytes Rlp.Codec Trie.Hex Trie.Node Trie.Ops Trie.Hash.
From GV Require Import Trie.OpsProofs Trie.Canon Trie.Proof Trie.ProofProofs.
From GV Require Import Trie.Commit Trie.CommitProofs Trie.CommitTracer Trie.CommitReads.
Local Open Scope N_scope.

(* the opTracer-relevant events: everything except resolutions *)
Definition nores (ev : list tev) : list tev :=
  filter (fun e => match e with TRes _ _ => false | _ => true end) ev.
Lemma nores_app a b : nores (a ++ b) = nores a ++ nores b.
Proof. apply filter_app. Qed.

Section Sim.
  Variable H : list N -> list N.
  Hypothesis H_len : forall x, length (H x) = 32%nat.
  Variable R : list N -> list N -> option (node * list N).

  (* more dirty marks, and new deleted paths only outside [p]: still a representation *)
  Lemma rep_mono dirty (delp : list N -> Prop) dirty' (delp' : list N -> Prop) f p n G :
    rep H R dirty delp f p n G ->
    (forall q, dirty' q = false -> dirty q = false) ->
    (forall q, delp' q -> delp q \/ ~ ple p q) ->
    rep H R dirty' delp' f p n G.
  Proof.
    intros Rp D. induction Rp as [f p|f p v|f p h G e SF W E Hh HB C U|f p k c c' Rc IH CO|f p cs cs' HL Rcs IH CO];
      intros DP.
    - constructor.
    - constructor.
    - eapply rep_hash; try eassumption.
      intros q Dq X. destruct (DP q Dq) as [Y|Y]; [exact (U q Y X)|exact (Y X)].
    - apply rep_short.
      + apply IH. intros q Dq. destruct (DP q Dq) as [Y|Y]; [left; exact Y|right].
        intro X. apply Y. eapply ple_app_l. exact X.
      + intros Dp. destruct (CO (D p Dp)) as [U C]. split; [|exact C].
        intros q Dq X. destruct (DP q Dq) as [Y|Y]; [exact (U q Y X)|exact (Y X)].
    - apply rep_full; [exact HL| |].
      + intros i c c' E1 E2. apply (IH i c c' E1 E2).
        intros q Dq. destruct (DP q Dq) as [Y|Y]; [left; exact Y|right].
        intro X. apply Y. eapply ple_app_l. exact X.
      + intros Dp. destruct (CO (D p Dp)) as [U C]. split; [|exact C].
        intros q Dq X. destruct (DP q Dq) as [Y|Y]; [exact (U q Y X)|exact (Y X)].
  Qed.

  Definition only_res (ev : list tev) : Prop :=
    Forall (fun e => match e with TRes _ _ => True | _ => False end) ev.

  (* ---------------- get ---------------- *)
  Lemma get_rep_node dirty (delp : list N -> Prop) : forall fuel f p t G key v t' d ev,
    rep H R dirty delp f p t G -> wfpos G key ->
    get R fuel t p key = TOk (v, t', d, ev) ->
    rep H R dirty delp f p t' G /\ only_res ev.
  Proof.
    induction fuel as [|fuel IH]; intros f p t G key v t' d ev Rp Wp E; [discriminate|].
    inversion Rp as [f0 p0|f0 p0 v0|f0 p0 h G0 e SF W EN Hh HB C U|f0 p0 k c c' Rc CO|f0 p0 cs cs' HL Rcs CO]; subst.
    - cbn in E. inversion E; subst. split; [constructor|constructor].
    - cbn in E. inversion E; subst. split; [constructor|constructor].
    - destruct (proj1 C p G (gsub_here H f p G e SF EN HB)) as (e' & E' & RS).
      rewrite EN in E'. inversion E'; subst e'.
      cbn [get] in E. rewrite RS in E.
      destruct (get R fuel (collapse H G) p key) as [[[[v1 n1] d1] ev1]|er] eqn:GE; [|discriminate].
      inversion E; subst.
      destruct (IH f p (collapse H G) G key _ _ _ _ (rep_collapse H H_len R dirty delp G W f p C U) Wp GE) as [X Y].
      split; [exact X|constructor; [exact I|exact Y]].
    - destruct Wp as [[-> VS]|[Vk Wn]]; [destruct VS as [X|[v0 X]]; discriminate|].
      cbn [get] in E. pose proof (is_prefix_strip k key) as PS.
      destruct (strip k key) as [r|] eqn:ST.
      + destruct PS as [PS SK]. rewrite PS in E. cbn [negb] in E. rewrite SK in E.
        apply strip_some in ST. subst key.
        destruct (wfn_short_child k c' r Wn Vk) as (Wc & KN & _).
        destruct (get R fuel c (p ++ k) r) as [[[[v1 n1] d1] ev1]|er] eqn:GE; [|discriminate].
        destruct (IH false (p ++ k) c c' r _ _ _ _ Rc Wc GE) as [X Y].
        destruct d1; inversion E; subst; (split; [|exact Y]); [apply rep_short; assumption|exact Rp].
      + rewrite PS in E. cbn [negb] in E. inversion E; subst. split; [exact Rp|constructor].
    - destruct Wp as [[-> VS]|[Vk Wn]]; [destruct VS as [X|[v0 X]]; discriminate|].
      destruct key as [|k0 kr]; [inversion Vk|].
      destruct (wfn_full_child cs' k0 kr Wn Vk) as (c' & Ec' & Wc).
      cbn [get] in E. unfold child in E.
      destruct (nth_error cs (N.to_nat k0)) as [c|] eqn:Ec; [|discriminate].
      pose proof (Rcs _ _ _ Ec Ec') as Rc. rewrite N2Nat.id in Rc.
      destruct (get R fuel c (p ++ [k0]) kr) as [[[[v1 n1] d1] ev1]|er] eqn:GE; [|discriminate].
      destruct (IH false (p ++ [k0]) c c' kr _ _ _ _ Rc Wc GE) as [X Y].
      destruct d1; [|inversion E; subst; split; [exact Rp|exact Y]].
      unfold set_child in E. destruct (set_nth (N.to_nat k0) n1 cs) as [cs2|] eqn:SN; [|discriminate].
      inversion E; subst. split; [|exact Y].
      destruct (set_nth_spec _ _ _ _ SN) as [L2 N2].
      apply rep_full; [lia| |exact CO].
      intros i d d' E1 E2. rewrite N2 in E1. destruct (Nat.eqb i (N.to_nat k0)) eqn:IK.
      + apply Nat.eqb_eq in IK. subst i. inversion E1; subst d. rewrite Ec' in E2. inversion E2; subst d'.
        rewrite N2Nat.id. exact X.
      + apply Rcs; assumption.
  Qed.

  (* ---------------- insert ---------------- *)
  Section Insert.
    Variable dirty dirty' : list N -> bool.
    Variable delp delp' : list N -> Prop.
    Hypothesis D_mono : forall q, dirty' q = false -> dirty q = false.
    Hypothesis DP_mono : forall q, delp' q -> delp q.

    Lemma rep_keep f p n G : rep H R dirty delp f p n G -> rep H R dirty' delp' f p n G.
    Proof. intro X. eapply rep_mono; [exact X|exact D_mono|intros q Dq; left; apply DP_mono; exact Dq]. Qed.

    Lemma dirty_clean_ok f p G : dirty' p = true -> clean_ok H R dirty' delp' f p G.
    Proof. intros X Y. congruence. Qed.

    Lemma rep_inil pre rest c c' :
      rep H R dirty' delp' false (pre ++ rest) c c' ->
      (rest <> [] -> dirty' pre = true) ->
      rep H R dirty' delp' false pre (inil rest c) (inil rest c').
    Proof.
      intros Rc Dp. unfold inil. destruct rest as [|x r].
      - rewrite app_nil_r in Rc. exact Rc.
      - apply rep_short; [exact Rc|apply dirty_clean_ok; apply Dp; discriminate].
    Qed.


    Lemma insert_nil_snd pre k (c : node) :
      snd (insert_nil pre k c) = match k with [] => [] | _ :: _ => [TIns pre] end.
    Proof. destruct k; reflexivity. Qed.

    Lemma set_nth_lt {A} i (v : A) l l' : set_nth i v l = Some l' -> (i < length l)%nat.
    Proof.
      revert i l'. induction l as [|x l IHl]; intros [|i] l' E; cbn in E; try discriminate; cbn; [lia|].
      destruct (set_nth i v l) eqn:X; [|discriminate]. apply IHl in X. lia.
    Qed.

    Lemma rep_branch f pb a b c1 c1' c2 c2' cs1 cs2 cs1' cs2' :
      a <> b ->
      set_child empty17 a c1 = Some cs1 -> set_child cs1 b c2 = Some cs2 ->
      set_child empty17 a c1' = Some cs1' -> set_child cs1' b c2' = Some cs2' ->
      rep H R dirty' delp' false (pb ++ [a]) c1 c1' ->
      rep H R dirty' delp' false (pb ++ [b]) c2 c2' ->
      dirty' pb = true ->
      rep H R dirty' delp' f pb (NFull cs2) (NFull cs2').
    Proof.
      unfold set_child. intros AB S1 S2 S1' S2' R1 R2 D.
      destruct (set_nth_spec _ _ _ _ S1) as [L1 N1]. destruct (set_nth_spec _ _ _ _ S2) as [L2 N2].
      destruct (set_nth_spec _ _ _ _ S1') as [L1' N1']. destruct (set_nth_spec _ _ _ _ S2') as [L2' N2'].
      apply rep_full; [lia| |apply dirty_clean_ok; exact D].
      intros i x x' E1 E2. rewrite N2, N1 in E1. rewrite N2', N1' in E2.
      destruct (Nat.eqb i (N.to_nat b)) eqn:IB.
      - apply Nat.eqb_eq in IB. subst i. inversion E1; inversion E2; subst. rewrite N2Nat.id. exact R2.
      - destruct (Nat.eqb i (N.to_nat a)) eqn:IA.
        + apply Nat.eqb_eq in IA. subst i. inversion E1; inversion E2; subst. rewrite N2Nat.id. exact R1.
        + apply nth_error_empty17 in E1. apply nth_error_empty17 in E2. subst. constructor.
    Qed.

    Lemma insert_rep : forall fu n p key v d n' ev f G,
      insert R fu n p key (NValue v) = TOk (d, n', ev) ->
      rep H R dirty delp f p n G -> wfpos G key ->
      (d = true -> forall q, ple q (p ++ key) -> dirty' q = true) ->
      (forall q, In (TIns q) ev -> dirty' q = true) ->
      exists G', rep H R dirty' delp' f p n' G' /\ (d = false -> G' = G) /\
                 (forall fu', (length key < fu')%nat ->
                    exists ev', insert R fu' G p key (NValue v) = TOk (d, G', ev') /\ nores ev' = nores ev).
    Proof.
      induction fu as [|fu IH]; intros n p key v d n' ev f G E Rp Wp Dk Di; [discriminate|].
      destruct key as [|k0 kr].
      { (* value position *)
        destruct Wp as [[_ VS]|[Vk _]]; [|inversion Vk].
        destruct VS as [->|[v0 ->]].
        - inversion Rp as [| |? ? ? ? ? SFx| |]; subst; [|discriminate SFx].
          cbn in E. inversion E; subst.
          exists (NValue v). split; [constructor|]. split; [discriminate|].
          intros [|fu'] L; [lia|]. eexists. split; reflexivity.
        - inversion Rp as [| |? ? ? ? ? SFx| |]; subst; [|discriminate SFx].
          cbn in E. inversion E; subst.
          exists (NValue v). split; [constructor|]. split.
          + intro X. apply negb_false_iff in X. apply bytes_eqb_eq in X. congruence.
          + intros [|fu'] L; [lia|]. eexists. split; reflexivity. }
      destruct Wp as [[X _]|[Vk Wn]]; [discriminate|].
      inversion Rp as [f0 p0|f0 p0 v0|f0 p0 h G0 e SF W EN Hh HB C U|f0 p0 nk c c' Rc CO|f0 p0 cs cs' HL Rcs CO]; subst.
      - (* nil *)
        cbn in E. inversion E; subst.
        exists (NShort (k0 :: kr) (NValue v)). split.
        + apply rep_short; [constructor|]. apply dirty_clean_ok. apply Di. left. reflexivity.
        + split; [discriminate|]. intros [|fu'] L; [cbn in L; lia|]. eexists. split; reflexivity.
      - inversion Wn.
      - (* hash node *)
        destruct (proj1 C p G (gsub_here H f p G e SF EN HB)) as (e' & E' & RS).
        rewrite EN in E'. inversion E'; subst e'.
        cbn [insert] in E. rewrite RS in E.
        destruct (insert R fu (collapse H G) p (k0 :: kr) (NValue v)) as [[[d1 n1] ev1]|er] eqn:IE; [|discriminate].
        pose proof (rep_collapse H H_len R dirty delp G W f p C U) as RC.
        destruct d1; inversion E; subst.
        + destruct (IH _ _ _ _ _ _ _ _ _ IE RC (or_intror (conj Vk Wn)) Dk) as (G' & X1 & X2 & X3).
          { intros q I. apply Di. right. exact I. }
          exists G'. split; [exact X1|]. split; [exact X2|]. exact X3.
        + destruct (IH _ _ _ _ _ _ _ _ _ IE RC (or_intror (conj Vk Wn))) as (G' & X1 & X2 & X3).
          { discriminate. }
          { intros q I. apply Di. right. exact I. }
          rewrite (X2 eq_refl) in *. exists G. split; [apply rep_keep; exact RC|]. split; [reflexivity|exact X3].
      - (* short node *)
        set (key := k0 :: kr) in *.
        rewrite (insert_short_unfold R fu nk c p key (NValue v)) in E by discriminate. cbv zeta in E.
        destruct (prefix_len_split key nk) as (pp & a' & b' & Ek & En & Em & Dab).
        assert (UNF : forall fu'', insert R (Datatypes.S fu'') (NShort nk c') p key (NValue v) = _)
          by (intro fu''; apply (insert_short_unfold R fu'' nk c' p key (NValue v)); discriminate).
        cbv zeta in UNF.
        destruct (Nat.eqb (prefix_len key nk) (length nk)) eqn:ML.
        + (* the whole short key matches *)
          apply Nat.eqb_eq in ML. rewrite Em in ML.
          assert (b' = []).
          { rewrite En, app_length in ML. destruct b'; [reflexivity|cbn in ML; lia]. }
          subst b'. rewrite app_nil_r in En. subst pp.
          rewrite Em, Ek, firstn_app_exact, skipn_app_exact in E.
          rewrite Ek in Vk. destruct (wfn_short_child nk c' a' Wn Vk) as (Wc & KN & _).
          destruct (insert R fu c (p ++ nk) a' (NValue v)) as [[[d1 n1] ev1]|er] eqn:IE; [|discriminate].
          destruct (IH _ _ _ _ _ _ _ _ _ IE Rc Wc) as (G1 & X1 & X2 & X3).
          { intros -> q Q. destruct d; [|inversion E]. apply Dk; [reflexivity|].
            rewrite Ek, app_assoc. exact Q. }
          { intros q I. apply Di. destruct d1; inversion E; subst; exact I. }
          assert (GR : forall fu', (length key < fu')%nat -> exists ev',
                     insert R fu' (NShort nk c') p key (NValue v) =
                     (if d1 then TOk (true, NShort nk G1, ev') else TOk (false, NShort nk c', ev')) /\
                     nores ev' = nores ev1).
          { intros [|fu''] L; [lia|]. rewrite UNF, Em, Ek, firstn_app_exact, skipn_app_exact.
            destruct (X3 fu'') as (ev' & IE' & NE).
            { rewrite Ek, app_length in L. destruct nk; [congruence|cbn in L; lia]. }
            rewrite IE'. exists ev'. split; [destruct d1; reflexivity|exact NE]. }
          destruct d1; inversion E; subst.
          * exists (NShort nk G1). split; [|split; [discriminate|exact GR]].
            apply rep_short; [exact X1|]. apply dirty_clean_ok. apply Dk; [reflexivity|apply ple_app].
          * exists (NShort nk c'). split; [apply rep_keep; exact Rp|]. split; [reflexivity|exact GR].
        + (* branch out where the keys differ *)
          apply Nat.eqb_neq in ML. rewrite Em in *.
          destruct (nth_error nk (length pp)) as [a|] eqn:NA; [|discriminate].
          destruct (nth_error key (length pp)) as [b|] eqn:NB; [|discriminate].
          rewrite En, nth_error_app_exact in NA. rewrite Ek, nth_error_app_exact in NB.
          destruct b' as [|a0 nkr]; [discriminate|]. destruct a' as [|b0 keyr]; [discriminate|].
          cbn in NA, NB. inversion NA; inversion NB; subst a0 b0. clear NA NB.
          rewrite En, Ek, !firstn_app_succ, !skipn_app_succ, firstn_app_exact in E.
          destruct (insert_nil (p ++ pp ++ [a]) nkr c) as [c1 ev1] eqn:I1.
          destruct (insert_nil (p ++ pp ++ [b]) keyr (NValue v)) as [c2 ev2] eqn:I2.
          pose proof (insert_nil_fst (p ++ pp ++ [a]) nkr c) as F1. rewrite I1 in F1. cbn in F1. subst c1.
          pose proof (insert_nil_snd (p ++ pp ++ [a]) nkr c) as S1. rewrite I1 in S1. cbn in S1. subst ev1.
          pose proof (insert_nil_fst (p ++ pp ++ [b]) keyr (NValue v)) as F2. rewrite I2 in F2. cbn in F2. subst c2.
          pose proof (insert_nil_snd (p ++ pp ++ [b]) keyr (NValue v)) as S2. rewrite I2 in S2. cbn in S2. subst ev2.
          destruct (set_child empty17 a (inil nkr c)) as [cs1|] eqn:SC1; [|discriminate].
          destruct (set_child cs1 b (inil keyr (NValue v))) as [cs2|] eqn:SC2; [|discriminate].
          destruct (set_nth_some (N.to_nat a) (inil nkr c') empty17) as [cs1' SC1'].
          { unfold set_child in SC1. apply set_nth_lt in SC1. exact SC1. }
          destruct (set_nth_some (N.to_nat b) (inil keyr (NValue v)) cs1') as [cs2' SC2'].
          { unfold set_child in SC2. apply set_nth_lt in SC2.
            destruct (set_nth_spec _ _ _ _ SC1') as [L1' _].
            unfold set_child in SC1. destruct (set_nth_spec _ _ _ _ SC1) as [L1 _]. lia. }
          assert (d = true) by (destruct (Nat.eqb (length pp) 0); inversion E; reflexivity). subst d.
          assert (Ra : rep H R dirty' delp' false ((p ++ pp) ++ [a]) (inil nkr c) (inil nkr c')).
          { apply rep_inil.
            - rewrite <- !app_assoc. cbn. rewrite <- En. apply rep_keep. exact Rc.
            - intro NE. apply Di. rewrite <- app_assoc.
              destruct nkr; [congruence|]. destruct (Nat.eqb (length pp) 0); inversion E; subst; left; reflexivity. }
          assert (Rb : rep H R dirty' delp' false ((p ++ pp) ++ [b]) (inil keyr (NValue v)) (inil keyr (NValue v))).
          { apply rep_inil; [constructor|].
            intro NE. apply Di. rewrite <- app_assoc.
            destruct keyr; [congruence|].
            destruct (Nat.eqb (length pp) 0); inversion E; subst; apply in_or_app; right; left; reflexivity. }
          assert (AB : a <> b) by exact (fun X => Dab (eq_sym X)).
          assert (EVQ : snd (insert_nil (p ++ pp ++ [a]) nkr c') = snd (insert_nil (p ++ pp ++ [a]) nkr c))
            by (rewrite !insert_nil_snd; reflexivity).
          destruct (Nat.eqb (length pp) 0) eqn:M0.
          * assert (GRD : forall fu', (length key < fu')%nat -> exists ev',
                     insert R fu' (NShort nk c') p key (NValue v) = TOk (true, NFull cs2', ev') /\ nores ev' = nores ev).
            { intros [|fu''] L; [lia|]. rewrite UNF.
              rewrite En, Ek, !firstn_app_succ, !skipn_app_succ, ?firstn_app_exact.
              destruct (insert_nil (p ++ pp ++ [a]) nkr c') as [c1' ev1'] eqn:I1'.
              pose proof (insert_nil_fst (p ++ pp ++ [a]) nkr c') as F1'. rewrite I1' in F1'. cbn in F1'. subst c1'.
              rewrite I1 in EVQ. cbn in EVQ. subst ev1'.
              rewrite I2. unfold set_child. rewrite SC1', SC2'. eexists. split; [reflexivity|].
              inversion E; subst. reflexivity. }
            apply Nat.eqb_eq in M0. destruct pp; [|discriminate]. rewrite app_nil_r in *. cbn [app] in *.
            inversion E; subst.
            exists (NFull cs2'). split; [|split; [discriminate|exact GRD]].
            apply (rep_branch f p a b _ _ _ _ cs1 cs2 cs1' cs2' AB SC1 SC2 SC1' SC2' Ra Rb).
            apply Dk; [reflexivity|apply ple_app].
          * assert (GRD : forall fu', (length key < fu')%nat -> exists ev',
                     insert R fu' (NShort nk c') p key (NValue v) = TOk (true, NShort pp (NFull cs2'), ev') /\ nores ev' = nores ev).
            { intros [|fu''] L; [lia|]. rewrite UNF.
              rewrite En, Ek, !firstn_app_succ, !skipn_app_succ, ?firstn_app_exact.
              destruct (insert_nil (p ++ pp ++ [a]) nkr c') as [c1' ev1'] eqn:I1'.
              pose proof (insert_nil_fst (p ++ pp ++ [a]) nkr c') as F1'. rewrite I1' in F1'. cbn in F1'. subst c1'.
              rewrite I1 in EVQ. cbn in EVQ. subst ev1'.
              rewrite I2. unfold set_child. rewrite SC1', SC2'. eexists. split; [reflexivity|].
              inversion E; subst. reflexivity. }
            inversion E; subst.
            exists (NShort pp (NFull cs2')). split; [|split; [discriminate|exact GRD]].
            apply rep_short.
            -- apply (rep_branch false (p ++ pp) a b _ _ _ _ cs1 cs2 cs1' cs2' AB SC1 SC2 SC1' SC2' Ra Rb).
               apply Di. apply in_or_app. right. apply in_or_app. right. left. reflexivity.
            -- apply dirty_clean_ok. apply Dk; [reflexivity|apply ple_app].
      - (* full node *)
        destruct (wfn_full_child cs' k0 kr Wn Vk) as (c' & Ec' & Wc).
        cbn [insert] in E. unfold child in E.
        destruct (nth_error cs (N.to_nat k0)) as [c|] eqn:Ec; [|discriminate].
        pose proof (Rcs _ _ _ Ec Ec') as Rc. rewrite N2Nat.id in Rc.
        destruct (insert R fu c (p ++ [k0]) kr (NValue v)) as [[[d1 n1] ev1]|er] eqn:IE; [|discriminate].
        destruct (IH _ _ _ _ _ _ _ _ _ IE Rc Wc) as (G1 & X1 & X2 & X3).
        { intros -> q Q. destruct d; [|destruct (set_child cs k0 n1); discriminate].
          apply Dk; [reflexivity|]. rewrite <- app_assoc in Q. exact Q. }
        { intros q I. apply Di. destruct d1; [destruct (set_child cs k0 n1); inversion E; subst; exact I|inversion E; subst; exact I]. }
        destruct d1.
        + unfold set_child in E. destruct (set_nth (N.to_nat k0) n1 cs) as [cs2|] eqn:SN; [|discriminate].
          inversion E; subst.
          destruct (set_nth_some (N.to_nat k0) G1 cs') as [cs2' SN'].
          { apply nth_error_Some. congruence. }
          destruct (set_nth_spec _ _ _ _ SN) as [L2 N2]. destruct (set_nth_spec _ _ _ _ SN') as [L2' N2'].
          exists (NFull cs2'). split; [|split; [discriminate|]].
          * apply rep_full; [lia| |].
            -- intros i x x' E1 E2. rewrite N2 in E1. rewrite N2' in E2.
               destruct (Nat.eqb i (N.to_nat k0)) eqn:IK.
               ++ apply Nat.eqb_eq in IK. subst i. inversion E1; inversion E2; subst. rewrite N2Nat.id. exact X1.
               ++ apply rep_keep. apply Rcs; assumption.
            -- apply dirty_clean_ok. apply Dk; [reflexivity|]. apply ple_app.
          * intros [|fu'] L; [lia|]. destruct (X3 fu') as (ev' & IE' & NE); [cbn in L; lia|].
            cbn [insert]. unfold child. rewrite Ec', IE'. unfold set_child. rewrite SN'. eauto.
        + inversion E; subst. rewrite (X2 eq_refl) in *. exists (NFull cs'). split; [apply rep_keep; exact Rp|].
          split; [reflexivity|].
          intros [|fu'] L; [lia|]. destruct (X3 fu') as (ev' & IE' & NE); [cbn in L; lia|].
          cbn [insert]. unfold child. rewrite Ec', IE'. eauto.
    Qed.
  End Insert.
End Sim.


(* ------------------------------------------------------------------ *)
(* session level                                                        *)
(* ------------------------------------------------------------------ *)
Lemma trace_evs_only_res_del ev : only_res ev -> forall tr, tr_del (trace_evs tr ev) = tr_del tr.
Proof.
  induction 1 as [|e ev He _ IH]; intro tr; [reflexivity|].
  cbn [trace_evs fold_left]. change (fold_left trace_ev ev (trace_ev tr e)) with (trace_evs (trace_ev tr e) ev).
  rewrite IH. destruct e; try contradiction. reflexivity.
Qed.

Section SessGet.
  Variable H : list N -> list N.
  Hypothesis H_len : forall x, length (H x) = 32%nat.
  Hypothesis H_inj_empty : forall e, H e = H empty_root_preimage -> e = empty_root_preimage.

  (* Trie.Get keeps the session a representation of the same ground trie (it only
     loads nodes) and returns the pure lookup *)
  Theorem sess_get_sinv S ss F key v ss' :
    sinv H S ss F -> forallb byteb key = true ->
    sess_get H PathScheme S ss key = TOk (v, ss') ->
    sinv H S ss' F /\ v = lk F (keybytes_to_hex key).
  Proof.
    intros [GO Rp] BK E. unfold sess_get in E.
    destruct (sess_get_lk H H_len H_inj_empty S ss F key (conj GO Rp) BK) as (t & d & ev & G).
    rewrite G in E. inversion E; subst. split; [|reflexivity].
    unfold trie_get in G.
    assert (Wp : wfpos F (keybytes_to_hex key)).
    { right. split; [apply keybytes_to_hex_valid; exact BK|].
      destruct GO as [->|[Cn _]]; [constructor|apply can_wfn; exact Cn]. }
    destruct (get_rep_node H H_len _ _ _ _ _ _ _ _ _ _ _ _ _ Rp Wp G) as [Rn OR].
    split; [exact GO|]. unfold delp_of. cbn [s_tr s_root].
    rewrite (trace_evs_only_res_del ev OR).
    destruct d; [exact Rn|exact Rp].
  Qed.
End SessGet.

(* the empty database holds the empty trie: base case of the generation induction *)
Lemma store_ok_empty H : store_ok H [] (H empty_root_preimage) NEmpty.
Proof.
  split; [left; reflexivity|]. split; [|reflexivity].
  intros q _ (h & n & b & X). cbn in X. discriminate.
Qed.

(* insert emits only onInsert and resolution events *)
Lemma insert_ev_all R (P : tev -> Prop) :
  (forall q, P (TIns q)) -> (forall q b, P (TRes q b)) ->
  forall f n prefix key value d n' ev,
    insert R f n prefix key value = TOk (d, n', ev) -> Forall P ev.
Proof.
  intros PI PR.
  assert (APP : forall a b, Forall P a -> Forall P b -> Forall P (a ++ b))
    by (intros; apply Forall_app; split; assumption).
  assert (NIL : forall p k c, Forall P (snd (insert_nil p k c)))
    by (intros p k c; unfold insert_nil; destruct k; cbn; repeat constructor; apply PI).
  induction f as [|f IH]; intros n prefix key value d n' ev E; cbn in E; [discriminate|].
  destruct key as [|k0 kr].
  - destruct n, value; try discriminate; inversion E; subst; constructor.
  - destruct n as [|val|nk nv|cs|h].
    + inversion E; subst. repeat constructor. apply PI.
    + discriminate.
    + dmatch E.
      * match type of E with match ?X with _ => _ end = _ => destruct X as [[[[|] n0] ev0]|e] eqn:G end;
          inversion E; subst; eapply IH; exact G.
      * dmatch E; [|discriminate]. dmatch E; [|discriminate].
        match type of E with context [insert_nil ?a ?b ?c] =>
          pose proof (NIL a b c) as X1; destruct (insert_nil a b c) as [c1 ev1] end.
        match type of E with context [insert_nil ?a ?b ?c] =>
          pose proof (NIL a b c) as X2; destruct (insert_nil a b c) as [c2 ev2] end.
        cbn in X1, X2.
        dmatch E; [|discriminate]. dmatch E; [|discriminate].
        dmatch E; inversion E; subst.
        -- apply APP; assumption.
        -- apply APP; [assumption|]. apply APP; [assumption|]. repeat constructor. apply PI.
    + destruct (child cs k0) as [c|]; [|discriminate].
      destruct (insert R f c (prefix ++ [k0]) kr value) as [[[[|] n0] ev0]|e] eqn:G; try discriminate.
      * destruct (set_child cs k0 n0); inversion E; subst. eapply IH; exact G.
      * inversion E; subst. eapply IH; exact G.
    + destruct (R h prefix) as [[rn blob]|] eqn:RS; [|discriminate].
      destruct (insert R f rn prefix (k0 :: kr) value) as [[[[|] n0] ev0]|e] eqn:G; try discriminate;
        inversion E; subst; (constructor; [apply PR|]); eapply IH; exact G.
Qed.

(* without onDelete events the deletion set can only shrink *)
Lemma trace_evs_nodel_del ev :
  Forall (fun e => match e with TDel _ => False | _ => True end) ev ->
  forall tr q, am_has q (tr_del (trace_evs tr ev)) = true -> am_has q (tr_del tr) = true.
Proof.
  induction 1 as [|e ev He _ IH]; intros tr q X; [exact X|].
  cbn [trace_evs fold_left] in X. change (fold_left trace_ev ev (trace_ev tr e)) with (trace_evs (trace_ev tr e) ev) in X.
  apply IH in X. destruct e as [p0|p0|p0 b]; try contradiction; cbn [trace_ev] in X.
  - unfold on_insert in X. destruct (am_has p0 (tr_del tr)); cbn [tr_del] in X; [|exact X].
    rewrite am_has_del in X. apply andb_true_iff in X. tauto.
  - exact X.
Qed.

Lemma is_prefix_of_ple q l : ple q l -> is_prefix_of q l = true.
Proof.
  intros [r ->]. unfold is_prefix_of. rewrite firstn_app_exact.
  rewrite (proj2 (bytes_eqb_eq q q) eq_refl). cbn. apply Nat.leb_le. rewrite app_length. lia.
Qed.

Section SessInsert.
  Variable H : list N -> list N.
  Hypothesis H_len : forall x, length (H x) = 32%nat.

  (* Trie.Update with a non-empty value: the session keeps representing a ground
     trie, namely the result of the same insert run on the old ground trie *)
  Theorem sess_insert_rep S ss F key x v ss' :
    sinv H S ss F -> forallb byteb key = true ->
    sess_update H PathScheme S ss key (x :: v) = TOk ss' ->
    exists F' d ev,
      s_tr ss' = trace_evs (s_tr ss) ev /\
      rep H (resolve_of H PathScheme S) (dirty_at ss') (delp_of (s_tr ss')) true [] (s_root ss') F' /\
      (forall fu', (length (keybytes_to_hex key) < fu')%nat ->
        exists ev', insert (resolve_of H PathScheme S) fu' F [] (keybytes_to_hex key) (NValue (x :: v)) =
                    TOk (d, F', ev') /\ nores ev' = nores ev) /\
      insert (resolve_of H PathScheme S) (ops_fuel (keybytes_to_hex key)) (s_root ss) []
             (keybytes_to_hex key) (NValue (x :: v)) = TOk (d, s_root ss', ev).
  Proof.
    intros [GO Rp] BK E. unfold sess_update in E.
    set (k := keybytes_to_hex key) in *.
    destruct (insert (resolve_of H PathScheme S) (ops_fuel k) (s_root ss) [] k (NValue (x :: v)))
      as [[[d n] ev]|er] eqn:IE; [|discriminate].
    inversion E; subst ss'. clear E.
    assert (Wp : wfpos F k).
    { right. split; [apply keybytes_to_hex_valid; exact BK|].
      destruct GO as [->|[Cn _]]; [constructor|apply can_wfn; exact Cn]. }
    pose proof (insert_ev_all _ (fun e => match e with TDel _ => False | _ => True end)
                  (fun _ => I) (fun _ _ => I) _ _ _ _ _ _ _ _ IE) as ND.
    set (ss' := mkSess n (trace_evs (s_tr ss) ev) (if d then k :: s_dkeys ss else s_dkeys ss)
                       (ins_paths ev ++ s_dins ss)).
    assert (DM : forall q, dirty_at ss' q = false -> dirty_at ss q = false).
    { intros q Dq. unfold dirty_at in *. cbn [ss' s_dkeys s_dins] in Dq.
      apply orb_false_iff in Dq. destruct Dq as [D1 D2]. apply orb_false_iff. split.
      + destruct d; [cbn in D1; apply orb_false_iff in D1; tauto|exact D1].
      + rewrite existsb_app in D2. apply orb_false_iff in D2. tauto. }
    assert (DPM : forall q, delp_of (s_tr ss') q -> delp_of (s_tr ss) q).
    { intros q Dq. unfold delp_of in *. cbn [ss' s_tr] in Dq. eapply trace_evs_nodel_del; eassumption. }
    assert (DK : d = true -> forall q, ple q ([] ++ k) -> dirty_at ss' q = true).
    { intros -> q Q. unfold dirty_at. cbn [ss' s_dkeys s_dins existsb].
      rewrite (is_prefix_of_ple q k Q). reflexivity. }
    assert (DI : forall q, In (TIns q) ev -> dirty_at ss' q = true).
    { intros q Iq. unfold dirty_at. cbn [ss' s_dkeys s_dins]. apply orb_true_iff. right.
      rewrite existsb_app. apply orb_true_iff. left. apply existsb_exists. exists q.
      split; [|apply (proj2 (bytes_eqb_eq q q) eq_refl)].
      unfold ins_paths. apply in_flat_map. exists (TIns q). split; [exact Iq|left; reflexivity]. }
    destruct (insert_rep H H_len (resolve_of H PathScheme S) (dirty_at ss) (dirty_at ss')
                (delp_of (s_tr ss)) (delp_of (s_tr ss')) DM DPM
                _ _ _ _ _ _ _ _ _ _ IE Rp Wp DK DI) as (F' & X1 & _ & X3).
    exists F', d, ev. split; [reflexivity|]. split; [exact X1|]. split; [exact X3|first [exact IE|reflexivity]].
  Qed.
End SessInsert.

(* ------------------------------------------------------------------ *)
(* Trie.GetNode only loads nodes                                        *)
(* ------------------------------------------------------------------ *)
Section SimGetNode.
  Variable H : list N -> list N.
  Hypothesis H_len : forall x, length (H x) = 32%nat.
  Variable sc : scheme.
  Variable S : store.
  Variable dirty0 dirty : list N -> bool.
  Variable delp : list N -> Prop.

  Lemma getnode_rep : forall fu n p rest g n' r ev f G,
    getnode H fu sc S dirty0 n p rest = (g, n', r, ev) ->
    rep H (resolve_of H sc S) dirty delp f p n G ->
    only_res ev /\
    (is_sf n = true \/ gres_ok g && r = true -> rep H (resolve_of H sc S) dirty delp f p n' G).
  Proof.
    induction fu as [|fu IH]; intros n p rest g n' r ev f G E Rp; cbn [getnode] in E.
    - inversion E; subst. split; [constructor|]. intros _. exact Rp.
    - inversion Rp as [f0 p0|f0 p0 v0|f0 p0 h G0 e SF W EN Hh HB C U|f0 p0 k c c' Rc CO|f0 p0 cs cs' HL Rcs CO]; subst.
      + inversion E; subst. split; [constructor|]. intros _. constructor.
      + destruct rest; inversion E; subst; (split; [constructor|]); intros [X|X]; discriminate.
      + (* hash node *)
        destruct rest as [|r0 rr].
        * repeat (dmatch E; try (inversion E; subst; split; [constructor|intros _; exact Rp])).
        * destruct (proj1 C p G (gsub_here H f p G e SF EN HB)) as (e' & E' & RS).
          rewrite EN in E'. inversion E'; subst e'. rewrite RS in E.
          destruct (getnode H fu sc S dirty0 (collapse H G) p (r0 :: rr)) as [[[g1 c1] r1] ev1] eqn:GE.
          inversion E; subst.
          destruct (IH _ _ _ _ _ _ _ _ _ GE (rep_collapse H H_len _ dirty delp G W f p C U)) as [O X].
          split; [constructor; [exact I|exact O]|]. intros _. apply X. left.
          destruct G; try discriminate; reflexivity.
      + (* short node *)
        destruct rest as [|r0 rr].
        * repeat (dmatch E; try (inversion E; subst; split; [constructor|intros _; exact Rp])).
        * dmatch E; [inversion E; subst; split; [constructor|intros _; exact Rp]|].
          destruct (getnode H fu sc S dirty0 c (p ++ k) (skipn (length k) (r0 :: rr))) as [[[g1 c1] r1] ev1] eqn:GE.
          destruct (IH _ _ _ _ _ _ _ _ _ GE Rc) as [O X].
          inversion E; subst. split; [exact O|]. intros _.
          destruct (gres_ok g && r) eqn:OK; [|exact Rp].
          apply rep_short; [apply X; right; first [exact OK|reflexivity]|exact CO].
      + (* full node *)
        destruct rest as [|r0 rr].
        * repeat (dmatch E; try (inversion E; subst; split; [constructor|intros _; exact Rp])).
        * unfold child in E. destruct (nth_error cs (N.to_nat r0)) as [c|] eqn:Ec;
            [|inversion E; subst; split; [constructor|intros _; exact Rp]].
          destruct (getnode H fu sc S dirty0 c (p ++ [r0]) rr) as [[[g1 c1] r1] ev1] eqn:GE.
          assert (Ec' : exists c', nth_error cs' (N.to_nat r0) = Some c').
          { destruct (nth_error cs' (N.to_nat r0)) eqn:X; [eauto|]. apply nth_error_None in X.
            assert (N.to_nat r0 < length cs)%nat by (apply nth_error_Some; congruence). lia. }
          destruct Ec' as [c' Ec'].
          pose proof (Rcs _ _ _ Ec Ec') as Rc. rewrite N2Nat.id in Rc.
          destruct (IH _ _ _ _ _ _ _ _ _ GE Rc) as [O X].
          destruct (gres_ok g1 && r1) eqn:OK.
          -- unfold set_child in E. destruct (set_nth (N.to_nat r0) c1 cs) as [cs2|] eqn:SN;
               inversion E; subst; (split; [exact O|]); intros _; [|exact Rp].
             destruct (set_nth_spec _ _ _ _ SN) as [L2 N2].
             apply rep_full; [lia| |exact CO].
             intros i d d' E1 E2. rewrite N2 in E1. destruct (Nat.eqb i (N.to_nat r0)) eqn:IK.
             ++ apply Nat.eqb_eq in IK. subst i. inversion E1; subst d. rewrite Ec' in E2. inversion E2; subst d'.
                rewrite N2Nat.id. apply X. right. first [exact OK|reflexivity].
             ++ apply Rcs; assumption.
          -- inversion E; subst. split; [exact O|]. intros _. exact Rp.
  Qed.
End SimGetNode.

Section SessGetNode.
  Variable H : list N -> list N.
  Hypothesis H_len : forall x, length (H x) = 32%nat.

  Theorem sess_getnode_sinv S ss F path g ss' :
    sinv H S ss F -> sess_getnode H PathScheme S ss path = (g, ss') -> sinv H S ss' F.
  Proof.
    intros [GO Rp] E. unfold sess_getnode, sess_getnode_with in E.
    destruct (getnode H (2 * length path + 4) PathScheme S (dirty_at ss) (s_root ss) [] path)
      as [[[g1 n1] r1] ev1] eqn:GE.
    inversion E; subst.
    destruct (getnode_rep H H_len PathScheme S _ _ _ _ _ _ _ _ _ _ _ _ _ GE Rp) as [O X].
    split; [exact GO|]. unfold delp_of. cbn [s_tr s_root].
    rewrite (trace_evs_only_res_del ev1 O).
    destruct (gres_ok g && r1) eqn:OK; [apply X; right; first [exact OK|reflexivity]|exact Rp].
  Qed.
End SessGetNode.
