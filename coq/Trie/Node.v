(* Trie/Node.v — geth's in-memory trie node shapes (/repo/trie/node.go) and the
   result/error/event types shared by every trie model file.  Definitions only,
   plus the nested induction principle (a term).

   Keys inside nodes are HEX keys: one nibble (< 16) per element with the
   terminator 16 as last element of a complete key, so a value sits either in
   slot 16 of a full node or under a short key ending in 16.

   Names other families rely on (keep stable):
     node NEmpty NValue NShort NFull NHash node_ind' node_eqb empty17
     terr EMissing EPanic EFuel tres TOk TErr tev TIns TDel TRes *)
From Coq Require Export List NArith Bool.
Export ListNotations.
Local Open Scope N_scope.

Inductive node : Type :=
| NEmpty                          (* nil *)
| NValue (v : list N)             (* valueNode *)
| NShort (k : list N) (c : node)  (* *shortNode{Key, Val} *)
| NFull (cs : list node)          (* *fullNode{Children [17]node}; always 17 entries *)
| NHash (h : list N).             (* hashNode: reference to a node not loaded *)

Section node_ind'.
  Variable P : node -> Prop.
  Hypothesis HE : P NEmpty.
  Hypothesis HV : forall v, P (NValue v).
  Hypothesis HS : forall k c, P c -> P (NShort k c).
  Hypothesis HF : forall cs, Forall P cs -> P (NFull cs).
  Hypothesis HH : forall h, P (NHash h).
  Fixpoint node_ind' (n : node) : P n :=
    match n with
    | NEmpty => HE
    | NValue v => HV v
    | NShort k c => HS k c (node_ind' c)
    | NFull cs =>
        HF cs ((fix go (l : list node) : Forall P l :=
                  match l with
                  | [] => Forall_nil P
                  | y :: r => Forall_cons y (node_ind' y) (go r)
                  end) cs)
    | NHash h => HH h
    end.
End node_ind'.

Fixpoint bytes_eqb (a b : list N) : bool :=
  match a, b with
  | [], [] => true
  | x :: a', y :: b' => N.eqb x y && bytes_eqb a' b'
  | _, _ => false
  end.

Fixpoint node_eqb (x y : node) : bool :=
  match x, y with
  | NEmpty, NEmpty => true
  | NValue a, NValue b => bytes_eqb a b
  | NShort k c, NShort k' c' => bytes_eqb k k' && node_eqb c c'
  | NFull a, NFull b =>
      (fix go (a b : list node) : bool :=
         match a, b with
         | [], [] => true
         | x :: a', y :: b' => node_eqb x y && go a' b'
         | _, _ => false
         end) a b
  | NHash a, NHash b => bytes_eqb a b
  | _, _ => false
  end.

Definition empty17 : list node := repeat NEmpty 17.

Definition is_empty (n : node) : bool := match n with NEmpty => true | _ => false end.

(* children[i]; None = Go index out of range (i >= 17): panic *)
Definition child (cs : list node) (i : N) : option node := nth_error cs (N.to_nat i).

(* children[i] = c; None = panic *)
Fixpoint set_nth {A} (i : nat) (v : A) (l : list A) : option (list A) :=
  match l, i with
  | [], _ => None
  | _ :: r, O => Some (v :: r)
  | x :: r, S i' => match set_nth i' v r with Some r' => Some (x :: r') | None => None end
  end.
Definition set_child (cs : list node) (i : N) (c : node) : option (list node) :=
  set_nth (N.to_nat i) c cs.

(* error classes of trie operations *)
Inductive terr : Type :=
| EMissing     (* MissingNodeError: a hash node could not be resolved *)
| EPanic       (* the Go code would panic (invalid node type, index out of range, failed type assertion) *)
| EFuel.       (* model fuel exhausted; never a Go behaviour; proved unreachable where stated *)

Inductive tres (A : Type) : Type :=
| TOk (a : A)
| TErr (e : terr).
Arguments TOk {A} a.
Arguments TErr {A} e.

(* tracer events emitted by the operations, in program order:
   opTracer.onInsert(path), opTracer.onDelete(path) (trie/tracer.go) and
   prevalueTracer.Put(path, blob) done by resolveAndTrack *)
Inductive tev : Type :=
| TIns (path : list N)
| TDel (path : list N)
| TRes (path : list N) (blob : list N).
