(* Trie/GenerateTotal.v — TOTALITY of the merge walk (C11): on sorted iterators,
   when every account decodes and every live slot value is non-empty, the loops
   of generatePartition return no error (no "non-ascending key order", no
   "unexpected nibble", no panic). *)
From GV Require Import Lib.Tactics Lib.Bytes Rlp.Item Rlp.Codec Rlp.Schema Trie.Hex Trie.HexProofs Trie.Node Trie.Ops Trie.Hash Trie.OpsProofs Trie.Canon Trie.Stack Trie.StackProofs Trie.Commit Trie.CommitProofs Trie.CommitTracer Trie.Generate Trie.GenerateProofs Trie.GenerateWalk Trie.GenerateWalk2 Trie.GenerateWalk3 Trie.GenerateKeys Trie.GenerateRoot Trie.GenerateFlat Trie.GenerateLocal2.
Local Open Scope N_scope.

(* ---------------------------------------------------------------- byte order vs the builder's order *)

Lemma bcmp_app_same a : forall s1 s2, bytes_cmp (a ++ s1) (a ++ s2) = bytes_cmp s1 s2.
Proof. induction a as [|x a IH]; intros s1 s2; [reflexivity|]. cbn [app bytes_cmp]. rewrite N.compare_refl. apply IH. Qed.

Lemma bcmp_slice_lt : forall s1 s2, length s1 = length s2 -> bytes_cmp s1 s2 = Lt -> slice_lt s1 s2 = true.
Proof.
  induction s1 as [|x s1 IH]; intros [|y s2] L C; try discriminate. cbn [bytes_cmp] in C. cbn [slice_lt].
  destruct (N.compare_spec x y) as [E|E|E]; try discriminate.
  - subst. rewrite N.ltb_irrefl, N.eqb_refl. apply IH; [simpl in L; lia|exact C].
  - replace (x <? y) with true by (symmetry; apply N.ltb_lt; exact E). reflexivity.
Qed.

Lemma slice_lt_nib a : forall b, forallb Hex.byteb a = true -> forallb Hex.byteb b = true ->
  length a = length b -> slice_lt a b = true -> slice_lt (nibbles_of a) (nibbles_of b) = true.
Proof.
  induction a as [|x a IH]; intros [|y b] Ha Hb Hl Hlt; try discriminate.
  simpl in Ha, Hb. apply andb_true_iff in Ha. apply andb_true_iff in Hb.
  destruct Ha as [Hx Ha]. destruct Hb as [Hy Hb]. unfold Hex.byteb in Hx, Hy.
  simpl in Hlt. cbn [nibbles_of slice_lt].
  destruct (x <? y) eqn:L.
  - destruct (x / 16 <? y / 16) eqn:L1; [reflexivity|].
    destruct (x / 16 =? y / 16) eqn:E1; [|lia].
    destruct (x mod 16 <? y mod 16) eqn:L2; [reflexivity|]. lia.
  - destruct (x =? y) eqn:E; [|discriminate]. apply N.eqb_eq in E. subst y.
    rewrite !N.ltb_irrefl, !N.eqb_refl. apply IH; auto.
Qed.

Lemma full_rlp_nonempty a : full_rlp a <> [].
Proof.
  unfold full_rlp, encode_typed. cbn [enc_v map enc]. intros E.
  apply app_eq_nil in E as [E _]. exact (enc_head_nonempty _ _ _ E).
Qed.

Section Total.
  Variable H : list N -> list N.
  Hypothesis H_len : forall x, length (H x) = 32%nat.

  (* the inner loop never fails on a sorted iterator whose slots of account h carry values *)
  Lemma stor_loop_total sc h : forall ss st t,
    sorted ss -> wf_stor ss -> (forall kv, In kv ss -> sa_eq h kv = true -> snd kv <> []) ->
    sroot H st t 64 -> canon t ->
    (forall kv, In kv ss -> sa_eq h kv = true -> slice_lt (snd st) (nibbles_of (skipn 32 (fst kv))) = true) ->
    exists res, stor_loop H sc h ss st = GOk res.
  Proof.
    induction ss as [|[k v] ss IH]; intros st t Hso Hwf Hv Hr Hc Hlt; [eexists; reflexivity|].
    inversion Hso as [|? ? ? Hab Hso']; subst. inversion Hwf as [|? ? [Hk64 Hkb] Hwf']; subst. cbn [fst] in *.
    cbn [stor_loop]. change (firstn 32 k) with (sa (k, v)).
    assert (B3 : sa_eq h (k, v) = match bytes_cmp (sa (k, v)) h with Eq => true | _ => false end) by reflexivity.
    destruct (bytes_cmp (sa (k, v)) h) eqn:C.
    - (* this account's slot *)
      pose proof (Hv (k, v) (or_introl eq_refl) B3) as Hvne. cbn [snd] in Hvne.
      pose proof (Hlt (k, v) (or_introl eq_refl) B3) as Hl0. cbn [fst] in Hl0.
      destruct (st_update_hex_ok H H_len st t 64 (nibbles_of (skipn 32 k)) v Hr Hc)
        as (s1 & em1 & t1 & E1 & Hr1 & Hc1 & Hs1 & _ & _).
      { apply nibbles_of_nibbles, forallb_skipn, Hkb. }
      { rewrite nibbles_of_length, (skipn_len 32 k 32) by lia. reflexivity. }
      { lia. } { exact Hl0. } { exact Hvne. }
      unfold st_update_e. destruct v as [|b v]; [congruence|]. rewrite E1.
      destruct (IH s1 t1 Hso' Hwf' (fun kv Hin => Hv kv (or_intror Hin)) Hr1 Hc1) as [res Eres].
      { intros [k' v'] Hin Heq. rewrite Hs1. cbn [fst].
        pose proof (above_In k ss Hab _ Hin) as Ck. cbn [fst] in Ck.
        unfold wf_stor in Hwf'. rewrite Forall_forall in Hwf'. destruct (Hwf' _ Hin) as [Hk64' Hkb']. cbn [fst] in *.
        apply bcmp_eq in C. unfold sa_eq, sa in Heq, C. cbn [fst] in Heq, C.
        destruct (bytes_cmp (firstn 32 k') h) eqn:C'; try discriminate. apply bcmp_eq in C'.
        rewrite <- (firstn_skipn 32 k), <- (firstn_skipn 32 k'), C, C', bcmp_app_same in Ck.
        apply slice_lt_nib; [apply forallb_skipn; exact Hkb|apply forallb_skipn; exact Hkb'| |].
        - rewrite !skipn_length. lia.
        - apply bcmp_slice_lt; [rewrite !skipn_length; lia|exact Ck]. }
      rewrite Eres. destruct res as [[[rest st'] ws] nd]. eexists; reflexivity.
    - destruct (IH st t Hso' Hwf' (fun kv Hin => Hv kv (or_intror Hin)) Hr Hc (fun kv Hin => Hlt kv (or_intror Hin))) as [res Eres].
      rewrite Eres. destruct res as [[[rest st'] ws] nd]. eexists; reflexivity.
    - eexists; reflexivity.
  Qed.

  Lemma slice_lt_nil_cons x (l : list N) : slice_lt [] (x :: l) = true.
  Proof. reflexivity. Qed.

  (* the account loop never fails *)
  Lemma acct_loop_total sc p : forall accs ss pt t,
    sorted accs -> wf_accts accs -> Forall (fun kv => p <= nib0 (fst kv)) accs ->
    (forall kv, In kv accs -> full_account H (snd kv) <> None) ->
    sorted ss -> wf_stor ss -> (forall kv, In kv ss -> In (sa kv) (map fst accs) -> snd kv <> []) ->
    sroot H pt t 63 -> canon t ->
    (forall kv, In kv accs -> nib0 (fst kv) = p -> slice_lt (snd pt) (tl (nibbles_of (fst kv))) = true) ->
    exists r, acct_loop H sc p accs ss pt = GOk r.
  Proof.
    induction accs as [|[h slim] accs IH]; intros ss pt t Hso Hwa Hge Hdec Hss Hws Hval Hr Hc Hlt; [eexists; reflexivity|].
    inversion Hso as [|? ? ? Hab Hso']; subst. inversion Hwa as [|? ? Hk32 Hwa']; subst. inversion Hge as [|? ? Hh Hge']; subst.
    cbn [fst] in *. cbn [acct_loop]. destruct (bytes_gtb h (range_end p)) eqn:G; [eexists; reflexivity|].
    assert (Hn : nib0 h = p).
    { destruct (N.lt_ge_cases p (nib0 h)) as [Hl|Hl]; [apply (gtb_end p h Hk32) in Hl; congruence|lia]. }
    destruct (full_account H slim) as [acc|] eqn:Ea; [|exfalso; apply (Hdec (h, slim) (or_introl eq_refl)); exact Ea].
    destruct (stor_loop_total sc h ss stack_new NEmpty Hss Hws) as [[[[ss1 sst] ws1] nd] Es].
    { intros kv Hin Heq. apply Hval; [exact Hin|]. cbn [map fst]. left. unfold sa_eq in Heq.
      destruct (bytes_cmp (sa kv) h) eqn:C; try discriminate. apply bcmp_eq in C. symmetry. exact C. }
    { apply sroot_new. } { left; reflexivity. }
    { intros kv Hin _. cbn [stack_new snd].
      unfold wf_stor in Hws. rewrite Forall_forall in Hws. destruct (Hws kv Hin) as [L64 _].
      pose proof (nibbles_of_length (skipn 32 (fst kv))) as Ln. rewrite skipn_length, L64 in Ln.
      destruct (nibbles_of (skipn 32 (fst kv))); [simpl in Ln; lia|reflexivity]. }
    rewrite Es.
    destruct (stor_loop_spec H H_len sc h ss stack_new NEmpty _ _ _ _ (sorted_ndsa _ Hss) Hws (sroot_new H 64) (or_introl eq_refl) Es)
      as (R1 & _ & _ & _ & ts & Hrs & Hcs & _).
    destruct (st_root_e_ok H H_len sst ts 64 Hrs) as (computed & em & Er & _). rewrite Er. cbv zeta.
    set (acc' := if negb (bytes_eqb computed (a_root acc)) then mkAccount (a_nonce acc) (a_bal acc) computed (a_code acc) else acc).
    assert (Enh : exists kr, nibbles_of h = p :: kr /\ nibbles kr /\ length kr = 63%nat).
    { pose proof (nibbles_of_nibbles h (proj2 Hk32)) as Hnb. pose proof (nibbles_of_length h) as Hl.
      destruct Hk32 as [L32 _]. unfold nib0 in Hn. destruct (nibbles_of h) as [|k0 kr]; [simpl in Hl; lia|].
      cbn [hd] in Hn. subst k0. exists kr. inversion Hnb; subst. split; [reflexivity|]. split; [assumption|]. simpl in Hl. lia. }
    destruct Enh as (kr & Enh & Hnk & Hlk).
    pose proof (Hlt (h, slim) (or_introl eq_refl) Hn) as Hl0. cbn [fst] in Hl0. rewrite Enh in Hl0. cbn [tl] in Hl0.
    destruct (st_update_hex_ok H H_len pt t 63 kr (full_rlp acc') Hr Hc Hnk Hlk ltac:(lia) Hl0 (full_rlp_nonempty acc'))
      as (s1 & em1 & t1 & E1 & Hr1 & Hc1 & Hs1 & _ & _).
    unfold pst_update_e. destruct (full_rlp acc') as [|b v] eqn:Ev; [exfalso; exact (full_rlp_nonempty acc' Ev)|].
    rewrite Enh, N.eqb_refl, E1.
    destruct (IH ss1 s1 t1 Hso' Hwa' Hge' (fun kv Hin => Hdec kv (or_intror Hin))) as [r' Er'].
    { rewrite R1. apply sorted_filter. exact Hss. }
    { rewrite R1. apply wf_stor_filter. exact Hws. }
    { intros kv Hin Hk. apply Hval; [rewrite R1 in Hin; apply filter_In in Hin; tauto|right; exact Hk]. }
    { exact Hr1. } { exact Hc1. }
    { intros [h' slim'] Hin Hn'. cbn [fst] in *. rewrite Hs1.
      pose proof (above_In h accs Hab _ Hin) as Ck. cbn [fst] in Ck.
      unfold wf_accts in Hwa'. rewrite Forall_forall in Hwa'. destruct (Hwa' _ Hin) as [L32' Hb']. cbn [fst] in *.
      destruct Hk32 as [L32 Hb].
      pose proof (slice_lt_nib h h' Hb Hb' ltac:(lia) (bcmp_slice_lt h h' ltac:(lia) Ck)) as Hs.
      rewrite Enh in Hs. unfold nib0 in Hn'. destruct (nibbles_of h') as [|k0' kr']; [discriminate|]. cbn [hd] in Hn'. subst k0'.
      cbn [slice_lt] in Hs. rewrite N.ltb_irrefl, N.eqb_refl in Hs. exact Hs. }
    rewrite Er'. eexists; reflexivity.
  Qed.
End Total.
