(* Trie/HexProofs.v — proofs about Trie/Hex.v (C10). *)
From GV Require Import Lib.Tactics Trie.Hex.
Local Open Scope N_scope.

(* ---------- byte/nibble arithmetic, by finite sweep ---------- *)

Lemma bor4_nib a b : a < 16 -> b < 16 -> bor4 a b = a * 16 + b.
Proof.
  intros Ha Hb.
  pose proof (sweep2 16 16 (fun a b => N.eqb (bor4 a b) (a * 16 + b))) as S.
  apply N.eqb_eq. apply S; [vm_compute; reflexivity | exact Ha | exact Hb].
Qed.

Lemma bor4_split c : c < 256 -> bor4 (c / 16) (c mod 16) = c.
Proof.
  intros Hc.
  pose proof (sweep1 256 (fun c => N.eqb (bor4 (c / 16) (c mod 16)) c)) as S.
  apply N.eqb_eq. apply S; [vm_compute; reflexivity | exact Hc].
Qed.

Lemma flag_lor f h : (f = 0 \/ f = 32) -> h < 16 ->
  N.lor (N.lor f 16) h = f + 16 + h.
Proof.
  intros Hf Hh.
  pose proof (sweep1 16 (fun h => N.eqb (N.lor (N.lor 0 16) h) (0 + 16 + h)
                                  && N.eqb (N.lor (N.lor 32 16) h) (32 + 16 + h))) as S.
  assert (E : forall h, h < 16 -> N.lor (N.lor 0 16) h = 0 + 16 + h /\
                                   N.lor (N.lor 32 16) h = 32 + 16 + h).
  { intros h' Hh'. specialize (S ltac:(vm_compute; reflexivity) h' Hh').
    apply andb_true_iff in S. destruct S as [S1 S2].
    apply N.eqb_eq in S1. apply N.eqb_eq in S2. auto. }
  destruct Hf as [->| ->]; apply E; exact Hh.
Qed.

(* ---------- decode_nibbles / nibbles_of ---------- *)

Lemma decode_nibbles_of bs :
  forallb byteb bs = true -> decode_nibbles (nibbles_of bs) = Some bs.
Proof.
  induction bs as [|b bs IH]; intros H; [reflexivity|].
  cbn [forallb] in H. apply andb_true_iff in H. destruct H as [Hb Hbs].
  cbn [nibbles_of decode_nibbles]. rewrite (IH Hbs).
  unfold byteb in Hb. apply N.ltb_lt in Hb. rewrite bor4_split by exact Hb. reflexivity.
Qed.

Lemma nibbles_of_decode l t :
  forallb nibbleb l = true -> decode_nibbles l = Some t -> nibbles_of t = l.
Proof.
  revert t. induction l as [|a|a b l IH] using pair_list_ind; intros t H D.
  - cbn in D. inversion D. reflexivity.
  - cbn in D. discriminate.
  - cbn [forallb] in H. apply andb_true_iff in H. destruct H as [Ha H].
    apply andb_true_iff in H. destruct H as [Hb Hl].
    cbn [decode_nibbles] in D. destruct (decode_nibbles l) as [t'|] eqn:E; [|discriminate].
    inversion D; subst t. cbn [nibbles_of]. rewrite (IH t' Hl eq_refl).
    unfold nibbleb in *. apply N.ltb_lt in Ha. apply N.ltb_lt in Hb.
    rewrite bor4_nib by assumption. f_equal; [|f_equal]; lia.
Qed.

Lemma decode_even l : Nat.even (length l) = true -> exists t, decode_nibbles l = Some t.
Proof.
  induction l as [|a|a b l IH] using pair_list_ind; intros H.
  - exists []. reflexivity.
  - cbn in H. discriminate.
  - cbn [length Nat.even] in H. destruct (IH H) as [t Ht].
    exists (bor4 a b :: t). cbn [decode_nibbles]. rewrite Ht. reflexivity.
Qed.

Lemma decode_length l t : decode_nibbles l = Some t -> length l = (2 * length t)%nat.
Proof.
  revert t. induction l as [|a|a b l IH] using pair_list_ind; intros t D.
  - inversion D. reflexivity.
  - discriminate.
  - cbn [decode_nibbles] in D. destruct (decode_nibbles l) as [t'|]; [|discriminate].
    inversion D; subst. cbn [length]. rewrite (IH t' eq_refl). lia.
Qed.

Lemma decode_bytes l t :
  forallb nibbleb l = true -> decode_nibbles l = Some t -> forallb byteb t = true.
Proof.
  revert t. induction l as [|a|a b l IH] using pair_list_ind; intros t H D.
  - inversion D. reflexivity.
  - discriminate.
  - cbn [forallb] in H. apply andb_true_iff in H. destruct H as [Ha H].
    apply andb_true_iff in H. destruct H as [Hb Hl].
    cbn [decode_nibbles] in D. destruct (decode_nibbles l) as [t'|]; [|discriminate].
    inversion D; subst. cbn [forallb]. rewrite (IH t' Hl eq_refl), andb_true_r.
    unfold nibbleb, byteb in *. apply N.ltb_lt in Ha. apply N.ltb_lt in Hb.
    rewrite bor4_nib by assumption. apply N.ltb_lt. lia.
Qed.

Lemma nibbles_of_length bs : length (nibbles_of bs) = (2 * length bs)%nat.
Proof. induction bs as [|b bs IH]; cbn [nibbles_of length]; lia. Qed.

Lemma nibbles_of_nib bs : forallb byteb bs = true -> forallb nibbleb (nibbles_of bs) = true.
Proof.
  induction bs as [|b bs IH]; intros H; [reflexivity|].
  cbn [forallb] in H. apply andb_true_iff in H. destruct H as [Hb Hbs].
  cbn [nibbles_of forallb]. rewrite (IH Hbs), andb_true_r.
  unfold byteb, nibbleb in *. apply N.ltb_lt in Hb.
  apply andb_true_iff; split; apply N.ltb_lt; lia.
Qed.

(* ---------- has_term / removelast ---------- *)

Lemma has_term_app_16 l : has_term (l ++ [16]) = true.
Proof.
  unfold has_term. destruct (l ++ [16]) eqn:E.
  - destruct l; discriminate.
  - rewrite <- E. rewrite last_last. reflexivity.
Qed.

Lemma has_term_spec h :
  has_term h = true -> exists p, h = p ++ [16].
Proof.
  unfold has_term. destruct h as [|x h]; [discriminate|].
  intros H. apply N.eqb_eq in H.
  destruct (@exists_last _ (x :: h)) as [p [y E]]; [discriminate|].
  rewrite E in H. rewrite last_last in H. subst y. exists p. exact E.
Qed.

Lemma has_term_nib_false l : forallb nibbleb l = true -> has_term l = false.
Proof.
  intros H. destruct (has_term l) eqn:E; [|reflexivity].
  destruct (has_term_spec _ E) as [p ->].
  rewrite forallb_app in H. apply andb_true_iff in H. destruct H as [_ H]. cbn in H. discriminate.
Qed.

(* a wf hex key is either a nibble string, or a nibble string followed by 16 *)
Lemma wf_hex_cases h :
  wf_hex h = true ->
  (has_term h = false /\ forallb nibbleb h = true) \/
  (exists p, h = p ++ [16] /\ forallb nibbleb p = true).
Proof.
  unfold wf_hex. destruct (has_term h) eqn:E; intros H.
  - right. destruct (has_term_spec _ E) as [p ->]. exists p. split; [reflexivity|].
    rewrite removelast_last in H. exact H.
  - left. auto.
Qed.

(* ---------- hex_to_compact on the two shapes ---------- *)

Definition hp_body (flag : N) (p : list N) : option (list N) :=
  if Nat.odd (length p) then
    match p with
    | h0 :: rest =>
        match decode_nibbles rest with
        | Some t => Some (N.lor (N.lor flag 16) h0 :: t)
        | None => None
        end
    | [] => None
    end
  else match decode_nibbles p with Some t => Some (flag :: t) | None => None end.

Lemma hex_to_compact_term p : hex_to_compact (p ++ [16]) = hp_body 32 p.
Proof. unfold hex_to_compact. rewrite has_term_app_16, removelast_last. reflexivity. Qed.

Lemma hex_to_compact_noterm p : has_term p = false -> hex_to_compact p = hp_body 0 p.
Proof. intros H. unfold hex_to_compact. rewrite H. reflexivity. Qed.

Lemma odd_cons {A} (a : A) l : Nat.odd (length (a :: l)) = Nat.even (length l).
Proof. cbn [length]. rewrite Nat.odd_succ. reflexivity. Qed.

Lemma hp_body_total flag p : exists c, hp_body flag p = Some c.
Proof.
  unfold hp_body. destruct (Nat.odd (length p)) eqn:O.
  - destruct p as [|h0 rest]; [cbn in O; discriminate|].
    rewrite odd_cons in O. destruct (decode_even _ O) as [t ->]. eauto.
  - assert (E : Nat.even (length p) = true).
    { rewrite <- Nat.negb_odd. rewrite O. reflexivity. }
    destruct (decode_even _ E) as [t ->]. eauto.
Qed.

(* compact_to_hex undoes hp_body *)
Lemma compact_to_hex_body flag p c :
  (flag = 0 \/ flag = 32) -> forallb nibbleb p = true -> hp_body flag p = Some c ->
  compact_to_hex c = if N.eqb flag 32 then p ++ [16] else p.
Proof.
  intros Hf Hp. unfold hp_body. destruct (Nat.odd (length p)) eqn:O.
  - destruct p as [|h0 rest]; [cbn in O; discriminate|].
    cbn [forallb] in Hp. apply andb_true_iff in Hp. destruct Hp as [Hh Hr].
    destruct (decode_nibbles rest) as [t|] eqn:D; [|discriminate].
    intros E; inversion E; subst c; clear E.
    unfold nibbleb in Hh. apply N.ltb_lt in Hh.
    rewrite flag_lor by assumption.
    unfold compact_to_hex, keybytes_to_hex. cbn [nibbles_of app hd].
    rewrite (nibbles_of_decode _ _ Hr D).
    destruct Hf as [->| ->].
    + replace ((0 + 16 + h0) / 16) with 1 by lia.
      replace ((0 + 16 + h0) mod 16) with h0 by lia.
      cbn [N.ltb N.compare N.land N.sub N.to_nat Pos.to_nat Pos.iter_op Pos.compare Pos.compare_cont
           Pos.land Pos.sub Pos.sub_mask Pos.pred_double Pos.succ_double_mask Pos.double_mask
           Pos.double_pred_mask N.eqb Pos.eqb].
      change (1 <? 2) with true. cbn iota. change (N.to_nat (2 - N.land 1 1)) with 1%nat.
      cbn [skipn].
      change (1 :: h0 :: rest ++ [16]) with ((1 :: h0 :: rest) ++ [16]).
      rewrite removelast_last. reflexivity.
    + replace ((32 + 16 + h0) / 16) with 3 by lia.
      replace ((32 + 16 + h0) mod 16) with h0 by lia.
      change (3 <? 2) with false. cbn iota. change (N.to_nat (2 - N.land 3 1)) with 1%nat.
      cbn [skipn]. reflexivity.
  - destruct (decode_nibbles p) as [t|] eqn:D; [|discriminate].
    intros E; inversion E; subst c; clear E.
    unfold compact_to_hex, keybytes_to_hex. cbn [nibbles_of app hd].
    rewrite (nibbles_of_decode _ _ Hp D).
    destruct Hf as [->| ->].
    + change (0 / 16) with 0. change (0 mod 16) with 0.
      change (0 <? 2) with true. cbn iota. change (N.to_nat (2 - N.land 0 1)) with 2%nat.
      change (0 :: 0 :: p ++ [16]) with ((0 :: 0 :: p) ++ [16]).
      rewrite removelast_last. reflexivity.
    + change (32 / 16) with 2. change (32 mod 16) with 0.
      change (2 <? 2) with false. cbn iota. change (N.to_nat (2 - N.land 2 1)) with 2%nat.
      reflexivity.
Qed.

(* ---------- the C10 theorems ---------- *)

Theorem hex_to_compact_total h : exists c, hex_to_compact h = Some c.
Proof.
  unfold hex_to_compact.
  apply (hp_body_total (if has_term h then 32 else 0)
                       (if has_term h then removelast h else h)).
Qed.

Theorem compact_hex h c :
  wf_hex h = true -> hex_to_compact h = Some c -> compact_to_hex c = h.
Proof.
  intros W E. destruct (wf_hex_cases _ W) as [[T Hn]|[p [-> Hn]]].
  - rewrite hex_to_compact_noterm in E by exact T.
    rewrite (compact_to_hex_body 0 h c) by auto. reflexivity.
  - rewrite hex_to_compact_term in E.
    rewrite (compact_to_hex_body 32 p c) by auto. reflexivity.
Qed.

Lemma hp_body_nibbles_even flag r :
  forallb byteb r = true -> hp_body flag (nibbles_of r) = Some (flag :: r).
Proof.
  intros H. unfold hp_body. rewrite nibbles_of_length.
  replace (Nat.odd (2 * length r)) with false
    by (symmetry; rewrite <- Nat.negb_even, Nat.even_mul; reflexivity).
  rewrite decode_nibbles_of by exact H. reflexivity.
Qed.

Lemma hp_body_nibbles_odd flag h r :
  forallb byteb r = true ->
  hp_body flag (h :: nibbles_of r) = Some (N.lor (N.lor flag 16) h :: r).
Proof.
  intros H. unfold hp_body. rewrite odd_cons, nibbles_of_length.
  replace (Nat.even (2 * length r)) with true
    by (symmetry; rewrite Nat.even_mul; reflexivity).
  rewrite decode_nibbles_of by exact H. reflexivity.
Qed.

Theorem hex_compact c :
  wf_compact c = true -> hex_to_compact (compact_to_hex c) = Some c.
Proof.
  destruct c as [|c0 r]; [discriminate|].
  unfold wf_compact. intros W.
  apply andb_true_iff in W. destruct W as [W W3].
  apply andb_true_iff in W. destruct W as [W1 W2].
  cbn [forallb] in W1. apply andb_true_iff in W1. destruct W1 as [Hc0 Hr].
  unfold byteb in Hc0. apply N.ltb_lt in Hc0. apply N.ltb_lt in W2.
  pose proof (nibbles_of_nib r Hr) as Hnr.
  unfold compact_to_hex, keybytes_to_hex. cbn [nibbles_of app hd].
  assert (Q : c0 / 16 = 0 \/ c0 / 16 = 1 \/ c0 / 16 = 2 \/ c0 / 16 = 3) by lia.
  destruct Q as [Q|[Q|[Q|Q]]]; rewrite Q in *.
  - change (N.land 0 1 =? 0) with true in W3. cbn iota in W3. apply N.eqb_eq in W3.
    rewrite W3. assert (c0 = 0) by lia. subst c0.
    change (0 <? 2) with true. cbn iota. change (N.to_nat (2 - N.land 0 1)) with 2%nat.
    change (0 :: 0 :: nibbles_of r ++ [16]) with ((0 :: 0 :: nibbles_of r) ++ [16]).
    rewrite removelast_last. cbn [skipn].
    rewrite hex_to_compact_noterm by (apply has_term_nib_false; exact Hnr).
    apply hp_body_nibbles_even. exact Hr.
  - change (1 <? 2) with true. cbn iota. change (N.to_nat (2 - N.land 1 1)) with 1%nat.
    change (1 :: c0 mod 16 :: nibbles_of r ++ [16]) with ((1 :: c0 mod 16 :: nibbles_of r) ++ [16]).
    rewrite removelast_last. cbn [skipn].
    assert (Hm : c0 mod 16 < 16) by lia.
    rewrite hex_to_compact_noterm.
    2:{ apply has_term_nib_false. cbn [forallb]. rewrite Hnr, andb_true_r.
        unfold nibbleb. apply N.ltb_lt. exact Hm. }
    rewrite hp_body_nibbles_odd by exact Hr.
    rewrite flag_lor by (auto; lia). f_equal. f_equal. lia.
  - change (N.land 2 1 =? 0) with true in W3. cbn iota in W3. apply N.eqb_eq in W3.
    rewrite W3. assert (c0 = 32) by lia. subst c0.
    change (2 <? 2) with false. cbn iota. change (N.to_nat (2 - N.land 2 1)) with 2%nat.
    cbn [skipn].
    rewrite hex_to_compact_term. apply hp_body_nibbles_even. exact Hr.
  - change (3 <? 2) with false. cbn iota. change (N.to_nat (2 - N.land 3 1)) with 1%nat.
    cbn [skipn].
    assert (Hm : c0 mod 16 < 16) by lia.
    change (c0 mod 16 :: nibbles_of r ++ [16]) with ((c0 mod 16 :: nibbles_of r) ++ [16]).
    rewrite hex_to_compact_term.
    rewrite hp_body_nibbles_odd by exact Hr.
    rewrite flag_lor by (auto; lia). f_equal. f_equal. lia.
Qed.

(* the encoder only produces well-formed compact keys *)
Theorem hex_to_compact_wf h c :
  wf_hex h = true -> hex_to_compact h = Some c -> wf_compact c = true.
Proof.
  intros W E.
  assert (B : forall flag p, (flag = 0 \/ flag = 32) -> forallb nibbleb p = true ->
              hp_body flag p = Some c -> wf_compact c = true).
  { clear. intros flag p Hf Hp. unfold hp_body. destruct (Nat.odd (length p)).
    - destruct p as [|h0 rest]; [discriminate|].
      cbn [forallb] in Hp. apply andb_true_iff in Hp. destruct Hp as [Hh Hr].
      destruct (decode_nibbles rest) as [t|] eqn:D; [|discriminate].
      intros E; inversion E; subst c; clear E.
      unfold nibbleb in Hh. apply N.ltb_lt in Hh.
      rewrite flag_lor by assumption. unfold wf_compact. cbn [forallb].
      rewrite (decode_bytes _ _ Hr D), andb_true_r.
      destruct Hf as [->| ->].
      + replace ((0 + 16 + h0) / 16) with 1 by lia. change (N.land 1 1 =? 0) with false. cbn iota.
        rewrite andb_true_r. apply andb_true_iff; split; [|reflexivity].
        unfold byteb. apply N.ltb_lt. lia.
      + replace ((32 + 16 + h0) / 16) with 3 by lia. change (N.land 3 1 =? 0) with false. cbn iota.
        rewrite andb_true_r. apply andb_true_iff; split; [|reflexivity].
        unfold byteb. apply N.ltb_lt. lia.
    - destruct (decode_nibbles p) as [t|] eqn:D; [|discriminate].
      intros E; inversion E; subst c; clear E.
      unfold wf_compact. cbn [forallb]. rewrite (decode_bytes _ _ Hp D).
      destruct Hf as [->| ->]; reflexivity. }
  destruct (wf_hex_cases _ W) as [[T Hn]|[p [-> Hn]]].
  - rewrite hex_to_compact_noterm in E by exact T. eapply (B 0); eauto.
  - rewrite hex_to_compact_term in E. eapply (B 32); eauto.
Qed.

(* injectivity on well-formed paths: a corollary of the left inverse *)
Theorem hex_to_compact_inj h1 h2 c :
  wf_hex h1 = true -> wf_hex h2 = true ->
  hex_to_compact h1 = Some c -> hex_to_compact h2 = Some c -> h1 = h2.
Proof.
  intros W1 W2 E1 E2.
  rewrite <- (compact_hex h1 c W1 E1). rewrite <- (compact_hex h2 c W2 E2). reflexivity.
Qed.

(* leaf (terminated) and extension (unterminated) paths never share a compact form *)
Theorem leaf_ext_disjoint p q c1 c2 :
  forallb nibbleb p = true -> forallb nibbleb q = true ->
  hex_to_compact (p ++ [16]) = Some c1 -> hex_to_compact q = Some c2 -> c1 <> c2.
Proof.
  intros Hp Hq E1 E2 Heq. subst c2.
  assert (W1 : wf_hex (p ++ [16]) = true).
  { unfold wf_hex. rewrite has_term_app_16, removelast_last. exact Hp. }
  assert (W2 : wf_hex q = true).
  { unfold wf_hex. rewrite (has_term_nib_false q Hq). exact Hq. }
  pose proof (hex_to_compact_inj _ _ _ W1 W2 E1 E2) as E.
  rewrite <- E in Hq. rewrite forallb_app in Hq.
  apply andb_true_iff in Hq. destruct Hq as [_ Hq]. cbn in Hq. discriminate.
Qed.

(* the terminator flag is bit 5 of the first compact byte *)
Theorem compact_flag_bit h c0 r :
  wf_hex h = true -> hex_to_compact h = Some (c0 :: r) ->
  N.testbit c0 5 = has_term h.
Proof.
  intros W E.
  assert (B : forall flag p, (flag = 0 \/ flag = 32) -> forallb nibbleb p = true ->
              hp_body flag p = Some (c0 :: r) -> N.testbit c0 5 = N.eqb flag 32).
  { clear. intros flag p Hf Hp. unfold hp_body. destruct (Nat.odd (length p)).
    - destruct p as [|h0 rest]; [discriminate|].
      cbn [forallb] in Hp. apply andb_true_iff in Hp. destruct Hp as [Hh _].
      destruct (decode_nibbles rest) as [t|]; [|discriminate].
      intros E; inversion E; subst; clear E.
      unfold nibbleb in Hh. apply N.ltb_lt in Hh.
      pose proof (sweep1 16 (fun h => Bool.eqb (N.testbit (N.lor (N.lor 0 16) h) 5) false
                                   && Bool.eqb (N.testbit (N.lor (N.lor 32 16) h) 5) true)
                    ltac:(vm_compute; reflexivity) h0 Hh) as S.
      apply andb_true_iff in S. destruct S as [S1 S2].
      apply Bool.eqb_prop in S1. apply Bool.eqb_prop in S2.
      destruct Hf as [->| ->]; [rewrite S1|rewrite S2]; reflexivity.
    - destruct (decode_nibbles p) as [t|]; [|discriminate].
      intros E; inversion E; subst; clear E.
      destruct Hf as [->| ->]; reflexivity. }
  destruct (wf_hex_cases _ W) as [[T Hn]|[p [-> Hn]]].
  - rewrite hex_to_compact_noterm in E by exact T. rewrite T. eapply (B 0); eauto.
  - rewrite hex_to_compact_term in E. rewrite has_term_app_16. eapply (B 32); eauto.
Qed.

(* ---------- keybytes <-> hex ---------- *)

Theorem keybytes_hex k :
  forallb byteb k = true -> hex_to_keybytes (keybytes_to_hex k) = Some k.
Proof.
  intros H. unfold hex_to_keybytes, keybytes_to_hex.
  rewrite has_term_app_16, removelast_last, nibbles_of_length.
  replace (Nat.odd (2 * length k)) with false
    by (symmetry; rewrite <- Nat.negb_even, Nat.even_mul; reflexivity).
  apply decode_nibbles_of. exact H.
Qed.

Theorem hex_keybytes h k :
  wf_hex h = true -> hex_to_keybytes h = Some k ->
  keybytes_to_hex k = (if has_term h then h else h ++ [16]) /\ forallb byteb k = true.
Proof.
  intros W. unfold hex_to_keybytes, keybytes_to_hex.
  destruct (wf_hex_cases _ W) as [[T Hn]|[p [-> Hn]]].
  - rewrite T. destruct (Nat.odd (length h)); [discriminate|]. intros D.
    rewrite (nibbles_of_decode _ _ Hn D). split; [reflexivity|]. eapply decode_bytes; eauto.
  - rewrite has_term_app_16, removelast_last.
    destruct (Nat.odd (length p)); [discriminate|]. intros D.
    rewrite (nibbles_of_decode _ _ Hn D). split; [reflexivity|]. eapply decode_bytes; eauto.
Qed.

(* hexToKeybytes panics exactly on odd-length paths *)
Theorem hex_to_keybytes_panics_iff h :
  hex_to_keybytes h = None <->
  Nat.odd (length (if has_term h then removelast h else h)) = true.
Proof.
  unfold hex_to_keybytes.
  set (h1 := if has_term h then removelast h else h).
  destruct (Nat.odd (length h1)) eqn:O; split; intros H; try reflexivity; try discriminate.
  assert (E : Nat.even (length h1) = true) by (rewrite <- Nat.negb_odd, O; reflexivity).
  destruct (decode_even _ E) as [t Ht]. rewrite Ht in H. discriminate.
Qed.

Theorem keybytes_to_hex_wf k : forallb byteb k = true -> wf_hex (keybytes_to_hex k) = true.
Proof.
  intros H. unfold wf_hex, keybytes_to_hex. rewrite has_term_app_16, removelast_last.
  apply nibbles_of_nib. exact H.
Qed.

Theorem prefix_len_spec a b :
  firstn (prefix_len a b) a = firstn (prefix_len a b) b /\
  (prefix_len a b <= length a)%nat /\ (prefix_len a b <= length b)%nat /\
  (forall x y, nth_error a (prefix_len a b) = Some x ->
               nth_error b (prefix_len a b) = Some y -> x <> y).
Proof.
  revert b. induction a as [|x a IH]; intros b.
  - cbn. repeat split; try lia. intros ? ? H; discriminate.
  - destruct b as [|y b].
    + cbn. repeat split; try lia. intros ? ? _ H; discriminate.
    + cbn [prefix_len]. destruct (N.eqb_spec x y) as [->|Ne].
      * destruct (IH b) as [I1 [I2 [I3 I4]]]. cbn [firstn length nth_error].
        repeat split; try lia. { f_equal. exact I1. } exact I4.
      * cbn. repeat split; try lia. intros ? ? H1 H2. inversion H1; inversion H2; subst. exact Ne.
Qed.
