(* Trie/SyncPath.v — soundness of the scheduler in EITHER scheme, in particular the PATH
   scheme with its deletions: every request is a node / code of the target, every
   membatch write puts a target node's blob at that node's own (owner, path) [hash
   scheme: under its hash], every membatch deletion hits either the path of a target
   node (a stale node with the wrong hash) or a path strictly inside the key of a
   target short node over a hash child (a dangling node), and every database entry that
   is not initial content is a target node at its own key or a target code.
   Over all histories of Missing / deliveries / Commit. *)
From Coq Require Import ZArith Lia.
From GV Require Import Lib.Tactics Lib.Bytes Trie.Node Trie.Hash Storage.KV Storage.KVProofs Trie.Sync Trie.SyncProofs Trie.SyncInv.
Local Open Scope N_scope.

Lemma put_if (b : bool) k1 k2 v d : (if b then put k1 v d else put k2 v d) = put (if b then k1 else k2) v d.
Proof. destruct b; reflexivity. Qed.

Section PathSound.
  Variable H : list N -> list N.
  Variable T CD : list N -> option (list N).
  Variable root : list N.
  Variable cb0 : cbkind.
  Variable db0 : kv.
  Variable ps : bool.             (* the scheme of the run *)
  Notation RN := (RN H T root cb0).
  Notation RC := (RC H T root cb0).

  (* (owner, path) is the resolved path of a target node with hash h *)
  Definition tnode_at (o p h : list N) : Prop :=
    exists q cb, RN q h cb /\ resolve_path q = Some (o, p).
  (* (owner, path) lies strictly inside the key of a target short node over a hash child *)
  Definition dangling_at (o p : list N) : Prop :=
    exists q h cb b k ch inner i, RN q h cb /\ T h = Some b /\ decode_node b = DOk (NShort k (NHash ch)) /\
      resolve_path q = Some (o, inner) /\ p = inner ++ firstn i (short_key k) /\
      (1 <= i < length (short_key k))%nat.
  Definition del_ok (o p : list N) : Prop := (exists h, tnode_at o p h) \/ dangling_at o p.

  Definition entry_ok (k v : list N) : Prop :=
    get k db0 = Some v \/
    (exists o p h, k = (if ps then node_key o p else h) /\ tnode_at o p h /\ T h = Some v) \/
    (exists h, k = code_key h /\ RC h /\ CD h = Some v).

  Record soundP (s : sync) : Prop := {
    sp_sc : sc_path s = ps;
    sp_req : forall p r, aget p (nreqs s) = Some r ->
      RN p (nr_hash r) (nr_cb r) /\ (forall b, nr_data r = Some b -> T (nr_hash r) = Some b);
    sp_creq : forall h c, aget h (creqs s) = Some c -> RC h;
    sp_queue : forall p h, In (p, QCode h) (queue s) -> RC h;
    sp_mb : forall o p b h, In (OpWrite o p b h) (mb_nodes s) -> b = [] \/ (tnode_at o p h /\ T h = Some b);
    sp_del : forall o p, In (OpDel o p) (mb_nodes s) -> del_ok o p;
    sp_codes : Forall (fun hc => RC (fst hc) /\ CD (fst hc) = Some (snd hc)) (mb_codes s);
    sp_db : forall k v, get k (sc_db s) = Some v -> entry_ok k v }.

  Lemma soundP_set_req s p r r' :
    soundP s -> aget p (nreqs s) = Some r -> nr_hash r' = nr_hash r -> nr_cb r' = nr_cb r ->
    (forall b, nr_data r' = Some b -> T (nr_hash r) = Some b) ->
    soundP (set_nreqs s (aput p r' (nreqs s))).
  Proof.
    intros [S0 A B Q C D E F] Hr Hh Hc Hd. constructor; ssimpl; auto.
    intros q x. rewrite aget_aput. destruct (beq q p) eqn:Eq; [|apply A].
    apply beq_eq in Eq. subst q. intros X; inversion X; subst x.
    destruct (A _ _ Hr) as (A1 & A2). rewrite Hh, Hc. auto.
  Qed.

  Lemma soundP_bump s s' path d : soundP s -> bump_deps s path d = Some s' -> soundP s'.
  Proof.
    intros Hs E. unfold bump_deps in E. destruct (aget path (nreqs s)) as [a|] eqn:Ea; [|discriminate].
    inversion E; subst. eapply soundP_set_req; eauto. simpl. apply (sp_req s Hs _ _ Ea).
  Qed.

  Lemma soundP_sched_node s path r :
    soundP s -> RN path (nr_hash r) (nr_cb r) -> nr_data r = None -> soundP (schedule_node s path r).
  Proof.
    intros [S0 A B Q C D E F] H1 H3. unfold schedule_node. constructor; ssimpl; auto.
    - intros q x. rewrite aget_aput. destruct (beq q path) eqn:Eq; [|apply A].
      apply beq_eq in Eq. subst q. intros X; inversion X; subst x. rewrite H3. split; [auto|discriminate].
    - intros p h Hin. apply In_qpush in Hin. destruct Hin as [X|X]; [discriminate|eapply Q; eauto].
  Qed.

  Lemma soundP_sched_code s h r : soundP s -> RC h -> soundP (schedule_code s h r).
  Proof.
    intros [S0 A B Q C D E F] H1. unfold schedule_code.
    destruct (aget h (creqs s)) as [old|] eqn:Eo; constructor; ssimpl; auto.
    - intros h' c. rewrite aget_aput. destruct (beq h' h) eqn:Eq; [|apply B].
      apply beq_eq in Eq. subst h'. intros _. auto.
    - intros h' c. rewrite aget_aput. destruct (beq h' h) eqn:Eq; [|apply B].
      apply beq_eq in Eq. subst h'. intros _. auto.
    - intros p h' Hin. apply In_qpush in Hin. destruct Hin as [X|X]; [|eapply Q; eauto].
      inversion X; subst. auto.
  Qed.

  Lemma soundP_mb_del s o p : soundP s -> del_ok o p -> soundP (mb_del_node s o p).
  Proof.
    intros Hs Hd. unfold mb_del_node. destruct (sc_path s) eqn:Esc; [|exact Hs].
    destruct Hs as [S0 A B Q C D E F]. constructor; ssimpl; auto.
    - intros o' p' b h [X|X]; [discriminate|eapply C; eauto].
    - intros o' p' [X|X]; [inversion X; subst; exact Hd|eapply D; eauto].
  Qed.

  Lemma soundP_add_sub_trie s rt path parent pp cb :
    soundP s -> (rt <> empty_root H -> RN path rt cb) ->
    soundP (unsum (add_sub_trie H s rt path parent pp cb)).
  Proof.
    intros Hs Hrn. unfold add_sub_trie.
    destruct (beq rt (empty_root H)) eqn:Er; [exact Hs|].
    assert (Hne : rt <> empty_root H) by (intros X; subst; rewrite beq_refl in Er; discriminate).
    destruct (resolve_path path) as [[owner inner]|] eqn:Erp; [|exact Hs].
    destruct (has_node H s owner inner rt) as [ex inc]. destruct ex; [exact Hs|].
    set (s1 := if inc then mb_del_node s owner inner else s).
    assert (Hs1 : soundP s1).
    { unfold s1. destruct inc; [|exact Hs]. apply soundP_mb_del; [exact Hs|].
      left. exists rt, path, cb. auto. }
    destruct (aget path (nreqs s1)); [exact Hs1|].
    destruct (negb (beq parent zero32)).
    - destruct (bump_deps s1 pp 1) as [s2|] eqn:Eb; [|exact Hs1]. simpl.
      apply soundP_sched_node; simpl; auto. eapply soundP_bump; eauto.
    - simpl. apply soundP_sched_node; simpl; auto.
  Qed.

  Lemma soundP_add_code_entry s h path parent pp :
    soundP s -> (h <> empty_code H -> RC h) ->
    soundP (unsum (add_code_entry H s h path parent pp)).
  Proof.
    intros Hs Hrc. unfold add_code_entry.
    destruct (beq h (empty_code H)) eqn:Er; [exact Hs|].
    assert (Hne : h <> empty_code H) by (intros X; subst; rewrite beq_refl in Er; discriminate).
    destruct (has h (mb_codes s)); [exact Hs|].
    destruct (has (code_key h) (sc_db s)) eqn:Eh; [exact Hs|].
    destruct (negb (beq parent zero32)).
    - destruct (bump_deps s pp 1) as [s1|] eqn:Eb; [|exact Hs]. simpl.
      apply soundP_sched_code; auto. eapply soundP_bump; eauto.
    - simpl. apply soundP_sched_code; auto.
  Qed.

  Lemma soundP_on_account s cpath leaf parent pp :
    soundP s ->
    (forall sroot ch, dec_account leaf = Some (sroot, ch) ->
       (sroot <> empty_root H -> RN cpath sroot CbNone) /\
       (bytes_to_hash ch <> empty_code H -> RC (bytes_to_hash ch))) ->
    soundP (fst (on_account H s cpath leaf parent pp)).
  Proof.
    intros Hs Hl. unfold on_account. destruct (dec_account leaf) as [[sroot ch]|]; [|exact Hs].
    destruct (Hl _ _ eq_refl) as [H1 H2].
    pose proof (soundP_add_sub_trie s sroot cpath parent pp CbNone Hs H1) as Ha.
    destruct (add_sub_trie H s sroot cpath parent pp CbNone) as [s1|s1]; [exact Ha|]. simpl in Ha.
    pose proof (soundP_add_code_entry s1 (bytes_to_hash ch) cpath parent pp Ha H2) as Hb.
    destruct (add_code_entry H s1 (bytes_to_hash ch) cpath parent pp) as [s2|s2]; exact Hb.
  Qed.

  Definition accP_ok (acc : list (list N * nreq)) : Prop :=
    Forall (fun pr => RN (fst pr) (nr_hash (snd pr)) (nr_cb (snd pr)) /\ nr_data (snd pr) = None) acc.

  Lemma soundP_children_loop b n cl0 : forall cl s path hash cb acc,
    soundP s -> RN path hash cb -> T hash = Some b -> decode_node b = DOk n ->
    child_list path n = Some cl0 -> incl cl cl0 -> accP_ok acc ->
    let '(s', acc', _) := children_loop H s path hash cb cl acc in
    soundP s' /\ accP_ok acc'.
  Proof.
    induction cl as [|[cpath cn] rest IH]; intros s path hash cb acc Hs Hrn Ht Hd Hcl Hin Ha;
      cbn [children_loop]; [split; assumption|].
    assert (Hin' : incl rest cl0) by (intros x Hx; apply Hin; right; exact Hx).
    assert (Hhd : In (cpath, cn) cl0) by (apply Hin; left; reflexivity).
    set (cbres := match cb with
                  | CbNone => (s, ROk)
                  | CbAccount => match cn with
                                 | NValue v => if callback_paths_ok cpath then on_account H s cpath v hash path else (s, RPanic)
                                 | _ => (s, ROk)
                                 end
                  end).
    assert (Hcb : soundP (fst cbres)).
    { unfold cbres. destruct cb; [exact Hs|]. destruct cn; try exact Hs.
      destruct (callback_paths_ok cpath); [|exact Hs].
      apply soundP_on_account; [exact Hs|]. intros sroot ch Hda. split; intros Hne.
      - eapply RN_stor; eauto.
      - eapply RC_intro; eauto. }
    destruct cbres as [s1 rc]. simpl in Hcb.
    destruct rc; try (split; assumption).
    destruct cn; try (apply IH; assumption).
    assert (Rc : RN cpath h cb) by (eapply RN_child; eauto).
    destruct (resolve_path cpath) as [[owner inner]|] eqn:Erp; [|split; assumption].
    destruct (has_node H s1 owner inner h) as [ex inc].
    destruct ex; [apply IH; assumption|].
    apply IH; try assumption.
    - destruct inc; [|exact Hcb]. apply soundP_mb_del; [exact Hcb|]. left. exists h, cpath, cb. auto.
    - constructor; [|exact Ha]. simpl. auto.
  Qed.

  Lemma soundP_dangling q h cb b k ch owner inner :
    RN q h cb -> T h = Some b -> decode_node b = DOk (NShort k (NHash ch)) ->
    resolve_path q = Some (owner, inner) ->
    forall n s i, soundP s -> (1 <= i)%nat -> (n = 0 \/ i + n <= length (short_key k))%nat ->
    soundP (dangling s owner inner (short_key k) i n).
  Proof.
    intros R Th Dn Rp. induction n as [|n IH]; intros s i Hs Hi Hn; cbn [dangling]; [exact Hs|].
    assert (Hb : (i + S n <= length (short_key k))%nat) by (destruct Hn as [X|X]; [discriminate|exact X]).
    apply IH; [|lia|lia].
    destruct (has _ (sc_db s)); [|exact Hs].
    apply soundP_mb_del; [exact Hs|]. right.
    exists q, h, cb, b, k, ch, inner, i.
    split; [exact R|]. split; [exact Th|]. split; [exact Dn|]. split; [exact Rp|]. split; [reflexivity|]. lia.
  Qed.

  Lemma soundP_children s path hash cb b n :
    soundP s -> RN path hash cb -> T hash = Some b -> decode_node b = DOk n ->
    let '(s', acc', _) := children H s path hash cb n in
    soundP s' /\ accP_ok acc'.
  Proof.
    intros Hs Hrn Ht Hd. unfold children.
    destruct (child_list path n) as [cl|] eqn:Ecl; [|split; [exact Hs|constructor]].
    set (s1 := match n with
               | NShort k (NHash _) =>
                   if sc_path s then
                     match resolve_path path with
                     | Some (owner, inner) => Some (dangling s owner inner (short_key k) 1 (length (short_key k) - 1))
                     | None => None
                     end
                   else Some s
               | _ => Some s
               end).
    assert (Hs1 : match s1 with Some x => soundP x | None => True end).
    { unfold s1. destruct n; try exact Hs. destruct n; try exact Hs.
      destruct (sc_path s); [|exact Hs].
      destruct (resolve_path path) as [[owner inner]|] eqn:Erp; [|exact Logic.I].
      eapply soundP_dangling; eauto; lia. }
    destruct s1 as [x|]; [|split; [exact Hs|constructor]].
    eapply soundP_children_loop; eauto; [apply incl_refl|constructor].
  Qed.

  Lemma soundP_commit_node_request : forall fuel s path,
    soundP s -> soundP (fst (commit_node_request fuel s path)).
  Proof.
    induction fuel as [|f IH]; intros s path Hs; [exact Hs|]. cbn [commit_node_request].
    destruct (aget path (nreqs s)) as [r|] eqn:Er; [|exact Hs].
    destruct (resolve_path path) as [[owner inner]|] eqn:Erp; [|exact Hs].
    set (blob := match nr_data r with Some b => b | None => [] end).
    set (s2 := set_fetches _ _).
    assert (Hs2 : soundP s2).
    { pose proof Hs as [S0 A B Q C D E F]. unfold s2, mb_add_node. constructor; ssimpl; auto.
      - intros p x. rewrite aget_adel. destruct (beq p path); [discriminate|]. apply A.
      - intros o p b h [X|X]; [|eapply C; eauto]. inversion X; subst.
        unfold blob. destruct (nr_data r) as [d|] eqn:Dd; [|left; reflexivity].
        right. destruct (A _ _ Er) as (A1 & A3). split; [exists path, (nr_cb r); auto|auto].
      - intros o p [X|X]; [discriminate|eapply D; eauto]. }
    destruct (nr_parent r) as [pp|]; [|exact Hs2].
    destruct (aget pp (nreqs s2)) as [p|] eqn:Ep; [|exact Hs2].
    set (s3 := set_nreqs s2 _).
    assert (Hs3 : soundP s3).
    { unfold s3. eapply soundP_set_req; eauto. simpl. apply (sp_req s2 Hs2 _ _ Ep). }
    destruct (Z.eqb (nr_deps p - 1) 0); [apply IH|]; exact Hs3.
  Qed.

  Lemma soundP_commit_code_parents : forall parents s,
    soundP s -> soundP (fst (commit_code_parents s parents)).
  Proof.
    induction parents as [|pp rest IH]; intros s Hs; cbn [commit_code_parents]; [exact Hs|].
    destruct (aget pp (nreqs s)) as [p|] eqn:Ep; [|exact Hs].
    set (s1 := set_nreqs s _).
    assert (Hs1 : soundP s1).
    { unfold s1. eapply soundP_set_req; eauto. simpl. apply (sp_req s Hs _ _ Ep). }
    destruct (Z.eqb (nr_deps p - 1) 0); [|apply IH; exact Hs1].
    pose proof (soundP_commit_node_request (cnr_fuel s1) s1 pp Hs1) as Hc.
    destruct (commit_node_request (cnr_fuel s1) s1 pp) as [s2 rc]. simpl in Hc.
    destruct rc; try exact Hc. apply IH; exact Hc.
  Qed.

  Lemma soundP_process_code s h data :
    (forall c, aget h (creqs s) = Some c -> CD h = Some data) ->
    soundP s -> soundP (fst (process_code s h data)).
  Proof.
    intros Hd Hs. unfold process_code.
    destruct (aget h (creqs s)) as [r|] eqn:Er; [|exact Hs].
    destruct (cr_data r); [exact Hs|].
    apply soundP_commit_code_parents.
    pose proof Hs as [S0 A B Q C D E F]. unfold mb_add_code. constructor; ssimpl; auto.
    - intros h' c. rewrite aget_adel. destruct (beq h' h); [discriminate|]. apply B.
    - apply Forall_put; [simpl; split; [apply (B _ _ Er)|eauto]|exact E].
  Qed.

  Lemma soundP_schedule_all : forall reqs s s',
    accP_ok reqs -> soundP s -> schedule_all s reqs = Some s' -> soundP s'.
  Proof.
    induction reqs as [|[p r] rest IH]; intros s s' Hf Hs E; cbn [schedule_all] in E.
    - inversion E; subst. exact Hs.
    - inversion Hf as [|? ? (H1 & H3) Hf']; subst. destruct (aget p (nreqs s)); [discriminate|].
      eapply IH; [exact Hf'| |exact E]. apply soundP_sched_node; assumption.
  Qed.

  Lemma soundP_process_node s path data :
    (forall r, aget path (nreqs s) = Some r -> T (nr_hash r) = Some data) ->
    soundP s -> soundP (fst (process_node H s path data)).
  Proof.
    intros Hd Hs. unfold process_node.
    destruct (aget path (nreqs s)) as [r|] eqn:Er; [|exact Hs].
    destruct (nr_data r) eqn:Edata; [exact Hs|].
    destruct (decode_node data) as [n|] eqn:Edec; [|exact Hs].
    set (s1 := set_nreqs s _).
    assert (Hs1 : soundP s1).
    { unfold s1. eapply soundP_set_req; eauto. simpl. intros b X; inversion X; subst. auto. }
    destruct (sp_req s Hs _ _ Er) as (R1 & R3).
    pose proof (soundP_children s1 path (nr_hash r) (nr_cb r) data n Hs1 R1 (Hd _ eq_refl) Edec) as Hc.
    destruct (children H s1 path (nr_hash r) (nr_cb r) n) as [[s2 reqs] rc].
    destruct Hc as [Hs2 Hreqs].
    destruct rc; try exact Hs2.
    destruct (aget path (nreqs s2)) as [r2|] eqn:Er2; [|exact Hs2].
    destruct (Nat.eqb (length reqs) 0 && Z.eqb (nr_deps r2) 0).
    - apply soundP_commit_node_request. exact Hs2.
    - match goal with |- context [schedule_all ?a ?b] => destruct (schedule_all a b) as [s3|] eqn:Esa end; [|exact Hs2].
      cbn [fst]. eapply soundP_schedule_all; [unfold accP_ok; apply Forall_rev; exact Hreqs| |exact Esa].
      eapply soundP_set_req; eauto. simpl. apply (sp_req s2 Hs2 _ _ Er2).
  Qed.

  Lemma soundP_same s s' :
    same6 s s' -> (forall x, In x (queue s') -> In x (queue s)) -> soundP s -> soundP s'.
  Proof.
    intros (E1 & E2 & E3 & E4 & E5 & E6) Hq [S0 A B Q C D E F].
    constructor; rewrite ?E1, ?E2, ?E3, ?E4, ?E5, ?E6; auto.
    intros p h Hin. eapply Q. apply Hq. exact Hin.
  Qed.

  Definition nsP_ok (ns : list (list N * list N)) : Prop :=
    Forall (fun ph => exists cb, RN (fst ph) (snd ph) cb) ns.
  Definition csP_ok (cs : list (list N)) : Prop := Forall RC cs.

  Lemma soundP_missing_go mfd : forall q max count s ns cs,
    soundP s -> (forall x, In x q -> In x (queue s)) -> nsP_ok ns -> csP_ok cs ->
    let '(s', ns', cs') := missing_go mfd q max count s ns cs in
    soundP s' /\ nsP_ok ns' /\ csP_ok cs'.
  Proof.
    induction q as [|[p it] rest IH]; intros max count s ns cs Hs Hq Hn Hc; cbn [missing_go].
    - split; [|split; [apply Forall_rev; exact Hn|apply Forall_rev; exact Hc]].
      apply (soundP_same s); [repeat split|ssimpl; intros x []|exact Hs].
    - destruct (negb (max =? 0) && negb (count <? max)).
      { split; [|split; [apply Forall_rev; exact Hn|apply Forall_rev; exact Hc]].
        apply (soundP_same s); [repeat split|ssimpl; exact Hq|exact Hs]. }
      destruct (Z.ltb mfd (fget (prio_depth p) (fetches s))).
      { split; [|split; [apply Forall_rev; exact Hn|apply Forall_rev; exact Hc]].
        apply (soundP_same s); [repeat split|ssimpl; exact Hq|exact Hs]. }
      set (s1 := set_fetches s _).
      assert (Hs1 : soundP s1).
      { apply (soundP_same s); [repeat split|unfold s1; ssimpl; intros x Hx; exact Hx|exact Hs]. }
      assert (Hq1 : forall x, In x rest -> In x (queue s1)) by (intros x Hx; apply Hq; right; exact Hx).
      destruct it as [path|h].
      + destruct (aget path (nreqs s1)) as [r|] eqn:Er; [|apply IH; assumption].
        apply IH; try assumption. constructor; [|exact Hn]. simpl.
        destruct (sp_req s1 Hs1 _ _ Er) as (R1 & _). eexists; exact R1.
      + apply IH; try assumption. constructor; [|exact Hc].
        apply (sp_queue s Hs p h). apply Hq. left. reflexivity.
  Qed.

  Lemma soundP_apply_ops : forall ops d d',
    (forall o p b h, In (OpWrite o p b h) ops -> b = [] \/ (tnode_at o p h /\ T h = Some b)) ->
    apply_ops ps d ops = Some d' ->
    (forall k v, get k d = Some v -> entry_ok k v) ->
    (forall k v, get k d' = Some v -> entry_ok k v).
  Proof.
    induction ops as [|o ops IH]; simpl; intros d d' Hw E F.
    - inversion E; subst. exact F.
    - destruct (apply_op ps d o) as [d1|] eqn:E1; [|discriminate].
      eapply IH; [intros; eapply Hw; right; eauto|exact E|].
      destruct o as [ow pa|ow pa blob hash]; simpl in E1.
      + inversion E1; subst. intros k v. rewrite get_delete. destruct (beq k _); [discriminate|]. apply F.
      + destruct blob as [|b0 bl]; [discriminate|]. rewrite put_if in E1. inversion E1; subst d1.
        destruct (Hw ow pa (b0 :: bl) hash (or_introl eq_refl)) as [X|[W1 W2]]; [discriminate|].
        intros k v. rewrite get_put.
        match goal with |- context [beq k ?x] => destruct (beq k x) eqn:Ek end; [|apply F].
        apply beq_eq in Ek. intros X; inversion X; subst v. right. left. exists ow, pa, hash. auto.
  Qed.

  Lemma soundP_write_codes : forall codes d,
    (forall h c, In (h, c) codes -> RC h /\ CD h = Some c) ->
    (forall k v, get k d = Some v -> entry_ok k v) ->
    (forall k v, get k (write_codes d codes) = Some v -> entry_ok k v).
  Proof.
    unfold write_codes. induction codes as [|[h c] rest IH]; simpl; intros d Hc F; [exact F|].
    destruct (Hc h c (or_introl eq_refl)) as [C1 C2].
    apply IH; [intros; apply Hc; right; assumption|].
    intros k v. rewrite get_put. destruct (beq k (code_key h)) eqn:Ek; [|apply F].
    apply beq_eq in Ek. subst k. intros X; inversion X; subst. right. right. eauto.
  Qed.

  Lemma soundP_commit s s' : soundP s -> commit s = Some s' -> soundP s'.
  Proof.
    intros [S0 A B Q C D E F] Ec. unfold commit in Ec. rewrite S0 in Ec.
    destruct (apply_ops ps (sc_db s) (rev (mb_nodes s))) as [d|] eqn:Ea; [|discriminate].
    inversion Ec; subst.
    pose proof (soundP_apply_ops _ _ _ (fun o p b h Hin => C o p b h (proj2 (in_rev _ _) Hin)) Ea F) as F1.
    pose proof (soundP_write_codes (mb_codes s) d
                (fun h c Hin => proj1 (Forall_forall _ _) E (h, c) Hin) F1) as F2.
    constructor; ssimpl; auto.
    all: try (intros o p b h []); try (intros o p []).
  Qed.

  (* ---- all histories ---- *)
  Lemma soundP_step s o : op_wf3 H T CD s o -> soundP s -> soundP (step H s o).
  Proof.
    intros W Hs. destruct o as [k|p h b|h b|]; simpl.
    - unfold missing, missing_b.
      pose proof (soundP_missing_go max_fetches_per_depth (queue s) k 0 s [] [] Hs (fun x Hx => Hx)
                    ltac:(constructor) ltac:(constructor)) as X.
      destruct (missing_go max_fetches_per_depth (queue s) k 0 s [] []) as [[s1 ns] cs]. apply X.
    - unfold deliver_node. destruct (beq (H b) h) eqn:E; [|exact Hs]. apply beq_eq in E.
      apply soundP_process_node; [|exact Hs]. intros r Hr. destruct (W r Hr) as [-> Ht]. auto.
    - unfold deliver_code. destruct (beq (H b) h) eqn:E; [|exact Hs]. apply beq_eq in E.
      apply soundP_process_code; [|exact Hs]. intros c _. apply W. exact E.
    - destruct (commit s) as [s'|] eqn:E; [eapply soundP_commit; eauto|exact Hs].
  Qed.

  Lemma soundP_run : forall ops s, run_wf3 H T CD s ops -> soundP s -> soundP (run H s ops).
  Proof.
    induction ops as [|o r IH]; intros s W Hs; simpl; [exact Hs|].
    destruct W as [W1 W2]. apply IH; [exact W2|]. apply soundP_step; assumption.
  Qed.

  Lemma soundP_new_sync : soundP (unsum (new_sync H ps db0 root cb0)).
  Proof.
    unfold new_sync. apply soundP_add_sub_trie; [|intros Hne; apply RN_root; exact Hne].
    constructor; ssimpl.
    - reflexivity.
    - intros p r X. discriminate X.
    - intros h c X. discriminate X.
    - intros p h [].
    - intros o p b h [].
    - intros o p [].
    - constructor.
    - intros k v E. left. exact E.
  Qed.

  Theorem sync_sound_any_scheme ops :
    let s0 := unsum (new_sync H ps db0 root cb0) in
    run_wf3 H T CD s0 ops ->
    soundP (run H s0 ops) /\
    forall k, let '(s', ns, cs) := missing (run H s0 ops) k in nsP_ok ns /\ csP_ok cs.
  Proof.
    intros s0 W.
    assert (S : soundP (run H s0 ops)) by (apply soundP_run; [exact W|apply soundP_new_sync]).
    split; [exact S|]. intros k. unfold missing, missing_b.
    pose proof (soundP_missing_go max_fetches_per_depth (queue (run H s0 ops)) k 0 _ [] [] S (fun x Hx => Hx)
                  ltac:(constructor) ltac:(constructor)) as X.
    destruct (missing_go max_fetches_per_depth (queue (run H s0 ops)) k 0 (run H s0 ops) [] []) as [[s1 ns] cs]. apply X.
  Qed.
End PathSound.
