(* Trie/X/CommitInv3.v — pre-value coverage as a session invariant:
     J1  : every in-memory short/full node path that holds a stored node has a
           recorded pre-value;
     PVC : every stored node path that is no node path of the current ground trie
           has a recorded pre-value (the node was loaded before it was removed). *)
From GV Require Import Lib.Tactics Lib.Bytes Rlp.Codec Trie.Hex Trie.Node Trie.Ops Trie.Hash.
From GV Require Import Trie.OpsProofs Trie.Canon Trie.Proof Trie.ProofProofs.
From GV Require Import Trie.Commit Trie.CommitProofs Trie.CommitTracer Trie.CommitReads Trie.CommitSim Trie.CommitSimDel Trie.CommitHist Trie.CommitEvents Trie.CommitTrace Trie.CommitPv.
Local Open Scope N_scope.

Definition pvd (tr : tracer) (a : list N) : Prop := am_has a (tr_pv tr) = true.

Lemma pvd_ev_mono tr e a : pvd tr a -> pvd (trace_ev tr e) a.
Proof.
  unfold pvd. intro X. apply am_has_true in X. destruct X as [b X].
  destruct (trace_ev_pv_mono tr e a b X) as [b' Y]. apply am_has_true. eauto.
Qed.

Lemma pvd_mono ev : forall tr a, pvd tr a -> pvd (trace_evs tr ev) a.
Proof.
  induction ev as [|e ev IH]; intros tr a X; [exact X|].
  cbn [trace_evs fold_left]. change (fold_left trace_ev ev (trace_ev tr e)) with (trace_evs (trace_ev tr e) ev).
  apply IH. apply pvd_ev_mono. exact X.
Qed.

Lemma pvd_res ev : forall tr a, in_res a ev -> pvd (trace_evs tr ev) a.
Proof.
  induction ev as [|e ev IH]; intros tr a [b X]; [destruct X|].
  cbn [trace_evs fold_left]. change (fold_left trace_ev ev (trace_ev tr e)) with (trace_evs (trace_ev tr e) ev).
  destruct X as [->|X]; [|apply IH; exists b; exact X].
  apply pvd_mono. unfold pvd. cbn. rewrite am_has_put, (proj2 (bytes_eqb_eq a a) eq_refl). reflexivity.
Qed.

Lemma in_nores e ev : In e (nores ev) <-> In e ev /\ (forall q b, e <> TRes q b).
Proof.
  unfold nores. rewrite filter_In. split; intros [X Y]; (split; [exact X|]).
  - intros q b ->. discriminate.
  - destruct e; try reflexivity. exfalso. eapply Y. reflexivity.
Qed.

Lemma in_nores_transfer e ev ev' : nores ev' = nores ev -> (forall q b, e <> TRes q b) -> In e ev' -> In e ev.
Proof. intros NE NR X. apply (in_nores e ev). rewrite <- NE. apply in_nores. auto. Qed.

Lemma pafter_lost ev : forall (P : list N -> Prop) a, P a -> ~ pafter P ev a -> In (TDel a) ev.
Proof.
  induction ev as [|e ev IH]; intros P a Pa NA; [contradiction|]. cbn [pafter] in NA.
  destruct e as [q0|q0|q0 b0].
  - right. apply (IH (pstep P (TIns q0)) a); [cbn; auto|exact NA].
  - destruct (list_eq_dec N.eq_dec a q0) as [->|NE]; [left; reflexivity|right].
    apply (IH (pstep P (TDel q0)) a); [cbn; auto|exact NA].
  - right. apply (IH (pstep P (TRes q0 b0)) a); [exact Pa|exact NA].
Qed.

Lemma pcons_ins_free ev : forall (P : list N -> Prop) a,
  pcons P ev -> (forall q, ~ In (TDel q) ev) -> In (TIns a) ev -> ~ P a.
Proof.
  induction ev as [|e ev IH]; intros P a C ND I; [destruct I|]. destruct C as [G C].
  assert (ND' : forall q, ~ In (TDel q) ev) by (intros q X; apply (ND q); right; exact X).
  destruct I as [->|I]; [exact G|].
  pose proof (IH _ a C ND' I) as X. destruct e as [q0|q0|q0 b0]; cbn in X.
  - tauto.
  - exfalso. apply (ND q0). left. reflexivity.
  - exact X.
Qed.

Lemma gsub_gpos H f p G q Gq : gsub H f p G q Gq -> gpos p G q.
Proof.
  induction 1 as [f p G e SF _ _| |]; [apply gpos_here; exact SF|apply gpos_short; assumption|eapply gpos_full; eassumption].
Qed.

Section Inv3.
  Variable H : list N -> list N.
  Hypothesis H_len : forall x, length (H x) = 32%nat.
  Hypothesis H_inj_empty : forall e, H e = H empty_root_preimage -> e = empty_root_preimage.

  Definition sto (S : store) : list N -> Prop := stored (resolve_of H PathScheme S).

  Definition j1 (S : store) (ss : sess) : Prop :=
    forall a, sto S a -> gpos [] (s_root ss) a -> pvd (s_tr ss) a.
  Definition pvc (S : store) (ss : sess) (F : node) : Prop :=
    forall a, sto S a -> ~ gpos [] F a -> pvd (s_tr ss) a.

  Definition sinv3 (S : store) (ss : sess) (F0 F : node) : Prop :=
    sinv2 H S ss F0 F /\ j1 S ss /\ pvc S ss F.

  Theorem sess_update_sinv3 S ss F0 F key v ss' :
    sinv3 S ss F0 F -> op_ok key v ->
    sess_update H PathScheme S ss key v = TOk ss' ->
    exists F', sinv3 S ss' F0 F' /\
               lk F' (keybytes_to_hex key) = vopt v /\
               (forall hk, hk <> keybytes_to_hex key -> lk F' hk = lk F hk).
  Proof.
    intros ((SI & Sz & T) & J & PV) (BK & SK & SV) E. pose proof SI as [GO Rp].
    set (k := keybytes_to_hex key) in *.
    assert (Vk : valid_key k) by (apply keybytes_to_hex_valid; exact BK).
    assert (Wp : wfpos F k) by (apply wfpos_ground; assumption).
    assert (Cp : canpos F k).
    { right. split; [exact Vk|]. destruct GO as [->|[Cn _]]; [left; reflexivity|right; exact Cn]. }
    assert (FIN : forall F', canpos F' k -> gsizes F' -> gok F').
    { intros F' [[X _]|[_ [->|Cn]]] Sz'; [subst k; rewrite X in Vk; inversion Vk|left; reflexivity|].
      right. split; [exact Cn|apply can_sizes_pwf; assumption]. }
    destruct v as [|x v].
    - destruct (sess_delete_rep H H_len S ss F key ss' SI BK E) as (F' & d & evm & TR & Rp' & GR & OP). fold k in GR, OP.
      destruct (delete_spec (resolve_of H PathScheme S) (ops_fuel k) F [] k (ops_fuel_ok k) Wp)
        as (d0 & n0 & ev0 & DE0 & PO).
      destruct (GR (ops_fuel k) (ops_fuel_ok k)) as (ev' & DE' & NE). rewrite DE0 in DE'. inversion DE'; subst d0 n0 ev0.
      destruct (delete_econs _ _ _ _ _ _ _ _ DE0 Wp (ops_fuel_ok k)) as [EC _].
      destruct PO as (_ & L1 & L2 & _ & _ & CP & _).
      assert (Sz' : gsizes F').
      { intros k' v' L'. destruct (list_eq_dec N.eq_dec k' k) as [->|NEk]; [congruence|].
        rewrite (L2 k' NEk) in L'. apply Sz. exact L'. }
      destruct (delete_pos H H_len _ _ _ _ _ _ _ _ _ _ _ _ OP Rp) as [P1 P2].
      exists F'. split; [|split; [exact L1|exact L2]].
      split; [split; [split; [apply FIN; [apply CP; exact Cp|exact Sz']|exact Rp']|]|].
      + split; [exact Sz'|]. rewrite TR. eapply ti_after; [apply gpos_dec|exact T|exact EC|exact NE].
      + split.
        * intros a St GP. rewrite TR. destruct (P1 a GP St) as [Y|Y]; [apply pvd_mono; apply J; assumption|apply pvd_res; exact Y].
        * intros a St NG. rewrite TR.
          destruct (gpos_dec F [] a) as [GF|GF]; [|apply pvd_mono; apply PV; assumption].
          destruct EC as (_ & _ & PA).
          assert (TD : In (TDel a) ev').
          { apply (pafter_lost ev' (gpos [] F) a GF). intro X. apply NG. apply PA. exact X. }
          apply (in_nores_transfer (TDel a) evm ev' NE) in TD; [|discriminate].
          destruct (P2 a TD St) as [Y|Y]; [apply pvd_mono; apply J; assumption|apply pvd_res; exact Y].
    - destruct (sess_insert_rep H H_len S ss F key x v ss' SI BK E) as (F' & d & evm & TR & Rp' & GR & OP). fold k in GR, OP.
      destruct (insert_spec (resolve_of H PathScheme S) (ops_fuel k) F [] k (x :: v) (ops_fuel_ok k) Wp)
        as (d0 & n0 & ev0 & DE0 & PO).
      destruct (GR (ops_fuel k) (ops_fuel_ok k)) as (ev' & DE' & NE). rewrite DE0 in DE'. inversion DE'; subst d0 n0 ev0.
      destruct (insert_econs _ _ _ _ _ _ _ _ _ DE0 Wp) as [EC _].
      destruct PO as (_ & _ & L1 & L2 & _ & _ & CP & _).
      assert (Sz' : gsizes F').
      { intros k' v' L'. destruct (list_eq_dec N.eq_dec k' k) as [->|NEk].
        - rewrite L1 in L'. inversion L'; subst v'. split; [exact SK|]. split; [discriminate|exact SV].
        - rewrite (L2 k' NEk) in L'. apply Sz. exact L'. }
      pose proof (insert_pos H H_len _ _ _ _ _ _ _ _ _ _ _ _ _ OP Rp) as P1.
      assert (ND : forall q, ~ In (TDel q) ev').
      { intros q X. apply (in_nores_transfer (TDel q) evm ev' NE) in X; [|discriminate].
        pose proof (insert_ev_all _ (fun e => match e with TDel _ => False | _ => True end)
                      (fun _ => I) (fun _ _ => I) _ _ _ _ _ _ _ _ OP) as NDm.
        rewrite Forall_forall in NDm. exact (NDm _ X). }
      destruct EC as (EB & PC & PA).
      assert (KEEP : forall a, gpos [] F a -> gpos [] F' a).
      { intros a GF. apply PA. destruct (gpos_dec F' [] a) as [Y|Y]; [apply PA; exact Y|].
        exfalso. apply (ND a). apply (pafter_lost ev' (gpos [] F) a GF). intro X. apply Y. apply PA. exact X. }
      exists F'. split; [|split; [exact L1|exact L2]].
      split; [split; [split; [apply FIN; [apply CP; exact Cp|exact Sz']|exact Rp']|]|].
      + split; [exact Sz'|]. rewrite TR. eapply ti_after; [apply gpos_dec|exact T| |exact NE].
        split; [exact EB|]. split; [exact PC|exact PA].
      + split.
        * intros a St GP. rewrite TR. destruct (P1 a GP St) as [Y|[Y|Y]].
          -- apply pvd_mono. apply J; assumption.
          -- apply pvd_mono. apply PV; [exact St|].
             apply (pcons_ins_free ev' (gpos [] F) a PC ND).
             apply (in_nores (TIns a) ev'). rewrite NE. apply in_nores. split; [exact Y|discriminate].
          -- apply pvd_res. exact Y.
        * intros a St NG. rewrite TR. apply pvd_mono. apply PV; [exact St|]. intro GF. apply NG. apply KEEP. exact GF.
  Qed.

  Theorem sess_get_sinv3 S ss F0 F key v ss' :
    sinv3 S ss F0 F -> forallb byteb key = true ->
    sess_get H PathScheme S ss key = TOk (v, ss') ->
    sinv3 S ss' F0 F /\ v = lk F (keybytes_to_hex key).
  Proof.
    intros ((SI & Sz & T) & J & PV) BK E.
    destruct (sess_get_sinv H H_len H_inj_empty S ss F key v ss' SI BK E) as [SI' EV].
    destruct (sess_get_tr H H_len S ss F key v ss' SI BK E) as [D I].
    split; [|exact EV].
    unfold sess_get in E.
    destruct (trie_get (resolve_of H PathScheme S) (s_root ss) key) as [[[[v1 n1] d1] ev1]|er] eqn:G; [|discriminate].
    inversion E; subst v ss'. unfold trie_get in G. destruct SI as [GO Rp].
    pose proof (get_pos H H_len _ _ _ _ _ _ _ _ _ _ _ _ _ G Rp) as P1.
    split; [split; [exact SI'|split; [exact Sz|eapply ti_same_sets; eassumption]]|]. split.
    - intros a St GP. cbn [s_tr s_root] in *. destruct d1.
      + destruct (P1 a GP St) as [Y|Y]; [apply pvd_mono; apply J; assumption|apply pvd_res; exact Y].
      + apply pvd_mono. apply J; assumption.
    - intros a St NG. cbn [s_tr]. apply pvd_mono. apply PV; assumption.
  Qed.

  Theorem sess_getnode_sinv3 S ss F0 F path g ss' :
    sinv3 S ss F0 F -> sess_getnode H PathScheme S ss path = (g, ss') -> sinv3 S ss' F0 F.
  Proof.
    intros ((SI & Sz & T) & J & PV) E.
    pose proof (sess_getnode_sinv H H_len S ss F path g ss' SI E) as SI'.
    destruct (sess_getnode_tr H H_len S ss F path g ss' SI E) as [D I].
    unfold sess_getnode, sess_getnode_with in E.
    destruct (getnode H (2 * length path + 4) PathScheme S (dirty_at ss) (s_root ss) [] path)
      as [[[g1 n1] r1] ev1] eqn:GE.
    inversion E; subst g ss'. destruct SI as [GO Rp].
    pose proof (getnode_pos H H_len PathScheme S _ _ _ _ _ _ _ _ _ _ _ _ _ GE Rp) as P1.
    split; [split; [exact SI'|split; [exact Sz|eapply ti_same_sets; eassumption]]|]. split.
    - intros a St GP. cbn [s_tr s_root] in *. destruct (gres_ok g1 && r1).
      + destruct (P1 a GP St) as [Y|Y]; [apply pvd_mono; apply J; assumption|apply pvd_res; exact Y].
      + apply pvd_mono. apply J; assumption.
    - intros a St NG. cbn [s_tr]. apply pvd_mono. apply PV; assumption.
  Qed.

  Theorem open_sinv3 S root F :
    store_ok H S root F -> gsizes F ->
    exists ss, open_trie H PathScheme S root = TOk ss /\ sinv3 S ss F F.
  Proof.
    intros SO Sz. destruct (open_sinv H H_len H_inj_empty S root F SO) as (ss & O & SI).
    exists ss. split; [exact O|].
    destruct (open_tr H S root ss O) as [D I].
    split; [split; [exact SI|split; [exact Sz|apply ti_open; assumption]]|].
    destruct SO as (GO & XB & SO).
    assert (PVC0 : forall a, sto S a -> ~ gpos [] F a -> False).
    { intros a St NG. destruct (XB a (ex_intro _ a (app_nil_l a)) St) as [Ga GS]. apply NG. eapply gsub_gpos. exact GS. }
    split; [|intros a St NG; exfalso; eapply PVC0; eassumption].
    intros a St GP. unfold open_trie in O.
    destruct (bytes_eqb root (H empty_root_preimage)); [inversion O; subst; cbn in GP; exfalso; eapply gpos_empty; exact GP|].
    destruct (resolve_of H PathScheme S root []) as [[n blob]|] eqn:RS; inversion O; subst. cbn [s_root s_tr] in *.
    destruct GO as [->|[Cn W]].
    { exfalso. destruct (XB a (ex_intro _ a (app_nil_l a)) St) as [Ga GS]. inversion GS; discriminate. }
    assert (SF : is_sf F = true) by (destruct (pwf_shape F W) as [(k & c & ->)|(cs & ->)]; reflexivity).
    assert (X : exists e, node_enc H F = Some e /\ root = H e /\ cov0 H (resolve_of H PathScheme S) true [] F)
      by (destruct F; try discriminate; exact SO).
    destruct X as (e & EN & -> & C0).
    destruct (C0 [] F (gsub_here H true [] F e SF EN eq_refl)) as (e' & E' & RS').
    rewrite EN in E'. inversion E'; subst e'. rewrite RS in RS'. inversion RS'; subst n blob.
    rewrite (region_pos H H_len _ true [] F a W (conj C0 XB) GP St).
    unfold pvd. cbn. reflexivity.
  Qed.
End Inv3.
