(* Trie/GenerateLocal2.v — partition_reads_local (C11): see Trie/GenerateLocal.v. *)
From GV Require Import Lib.Tactics Lib.Bytes Rlp.Codec Trie.Hex Trie.HexProofs Trie.Node Trie.Ops Trie.Hash Trie.OpsProofs Trie.Canon Trie.Stack Trie.StackProofs Trie.Commit Trie.CommitProofs Trie.CommitTracer Trie.Generate Trie.GenerateProofs Trie.GenerateWalk Trie.GenerateWalk2 Trie.GenerateWalk3 Trie.GenerateKeys Trie.GenerateSched Trie.GenerateRoot Trie.GenerateRoot2 Trie.GenerateFlat Trie.GenerateFlat2 Trie.GenerateDisjoint Trie.GenerateDisjoint2 Trie.GenerateLocal.
Local Open Scope N_scope.

Definition s_in_part (p : N) (kv : list N * list N) : bool := N.eqb (nib0 (sa kv)) p.
Definition spart (p : N) (db : gdb) : amap (list N) := filter (s_in_part p) (g_stor db).

Lemma nib0_le a b : a <> [] -> b <> [] -> bytes_cmp a b <> Gt -> nib0 a <= nib0 b.
Proof.
  intros Ha Hb C. destruct (bytes_cmp a b) eqn:E; [|apply nib0_mono; assumption|congruence].
  apply bcmp_eq in E. subst. lia.
Qed.

Lemma wf_stor_sa ss kv : wf_stor ss -> In kv ss -> key32 (sa kv) /\ length (fst kv) = 64%nat.
Proof.
  intros Hw Hin. unfold wf_stor in Hw. rewrite Forall_forall in Hw. destruct (Hw kv Hin) as [L Hb].
  split; [apply key32_sa; assumption|exact L].
Qed.

Lemma key32_ne h : key32 h -> h <> [].
Proof. intros [L _] ->. discriminate. Qed.

Lemma trunc_filter p : forall m, ndsa m -> wf_stor m ->
  Forall (fun kv => p <= nib0 (sa kv)) m -> trunc p m = filter (s_in_part p) m.
Proof.
  induction m as [|[k v] m IH]; intros Hnd Hw Hge; [reflexivity|].
  destruct Hnd as [Hhd Hnd]. inversion Hge as [|? ? Hh Hge']; subst.
  destruct (wf_stor_sa _ (k, v) Hw (or_introl eq_refl)) as [Hk _].
  assert (Hw' : wf_stor m) by (inversion Hw; assumption).
  cbn [trunc filter]. unfold s_in_part at 1. change (firstn 32 k) with (sa (k, v)).
  destruct (bytes_gtb (sa (k, v)) (range_end p)) eqn:G.
  - apply (gtb_end p _ Hk) in G. replace (nib0 (sa (k, v)) =? p) with false by (symmetry; apply N.eqb_neq; lia).
    symmetry. apply filter_nil_of. intros y Hy. rewrite Forall_forall in Hhd. specialize (Hhd y Hy).
    destruct (wf_stor_sa _ y Hw' Hy) as [Hky _].
    pose proof (nib0_le _ _ (key32_ne _ Hk) (key32_ne _ Hky) Hhd). unfold s_in_part. apply N.eqb_neq. lia.
  - assert (nib0 (sa (k, v)) = p).
    { destruct (N.lt_ge_cases p (nib0 (sa (k, v)))) as [Hlt|Hle]; [apply (gtb_end p _ Hk) in Hlt; congruence|lia]. }
    replace (nib0 (sa (k, v)) =? p) with true by (symmetry; apply N.eqb_eq; assumption).
    f_equal. apply IH; assumption.
Qed.

Lemma sorted_filter {A} (f : list N * A -> bool) (m : amap A) : sorted m -> sorted (filter f m).
Proof.
  induction 1 as [|k v m Ab _ IH]; [constructor|]. cbn [filter]. destruct (f (k, v)); [|exact IH].
  apply sorted_cons; [|exact IH]. unfold above in *. rewrite Forall_forall in *. intros x Hx. apply Ab. apply filter_In in Hx. tauto.
Qed.

Lemma filter_put_other p h v : nib0 h <> p -> forall m, filter (in_part p) (am_put h v m) = filter (in_part p) m.
Proof.
  intros Hn. assert (Hf : in_part p (h, v) = false) by (unfold in_part; apply N.eqb_neq; exact Hn).
  induction m as [|[k0 v0] m IH]; cbn [am_put filter]; [rewrite Hf; reflexivity|].
  destruct (bytes_cmp h k0) eqn:C; cbn [filter]; rewrite ?Hf.
  - apply bcmp_eq in C. subst k0. change (in_part p (h, v0)) with (in_part p (h, v)). rewrite Hf. reflexivity.
  - reflexivity.
  - rewrite IH. reflexivity.
Qed.

Lemma Forall_am_put {A} (P : list N * A -> Prop) h v : P (h, v) -> forall m, Forall P m -> Forall P (am_put h v m).
Proof.
  intros Hp. induction m as [|[k0 v0] m IH]; intros Hm; cbn [am_put]; [constructor; [exact Hp|constructor]|].
  inversion Hm; subst. destruct (bytes_cmp h k0); constructor; auto.
Qed.

Lemma filter_filter_absorb {A} (f g : A -> bool) l : (forall x, In x l -> g x = false -> f x = false) ->
  filter f (filter g l) = filter f l.
Proof.
  induction l as [|x l IH]; intros Hfg; [reflexivity|]. cbn [filter].
  destruct (g x) eqn:G; cbn [filter]; rewrite IH by (intros y Hy; apply Hfg; right; exact Hy); [reflexivity|].
  rewrite (Hfg x (or_introl eq_refl) G). reflexivity.
Qed.

Section Local2.
  Variable H : list N -> list N.
  Hypothesis H_len : forall x, length (H x) = 32%nat.

  Lemma spart_slice p db : wf_db db -> trunc p (seek (range_start p) (g_stor db)) = spart p db.
  Proof.
    intros [_ Hs _ Hw]. unfold spart.
    destruct (seek_suffix (range_start p) (g_stor db)) as (pre & E & Hpre).
    assert (Hw2 : wf_stor (seek (range_start p) (g_stor db))) by (apply Forall_seek; exact Hw).
    rewrite E at 2. rewrite filter_app.
    assert (Hp : filter (s_in_part p) pre = []).
    { apply filter_nil_of. intros kv Hin. rewrite Forall_forall in Hpre. specialize (Hpre kv Hin).
      assert (Hin' : In kv (g_stor db)) by (rewrite E; apply in_or_app; left; exact Hin).
      destruct (wf_stor_sa _ kv Hw Hin') as [Hk L64]. rewrite (ltb_start64 p _ L64) in Hpre.
      apply (ltb_start p _ Hk) in Hpre. unfold s_in_part. apply N.eqb_neq. unfold sa in *. lia. }
    rewrite Hp. cbn [app]. apply trunc_filter; [apply sorted_ndsa, sorted_seek; exact Hs|exact Hw2|].
    rewrite Forall_forall. intros kv Hin.
    pose proof (proj1 (seek_sorted_In (range_start p) (g_stor db) Hs kv (seek_In _ _ _ Hin)) Hin) as Hnl.
    destruct (wf_stor_sa _ kv Hw2 Hin) as [Hk L64]. rewrite (ltb_start64 p _ L64) in Hnl.
    destruct (N.lt_ge_cases (nib0 (sa kv)) p) as [Hlt|Hge]; [|exact Hge].
    apply (ltb_start p _ Hk) in Hlt. unfold sa in *. congruence.
  Qed.

  (* a write that belongs to another partition *)
  Definition other (p : N) (w : wop) : Prop :=
    match w with
    | WAcct h _ => key32 h /\ nib0 h <> p
    | WStorDel k => nib0 (firstn 32 k) <> p
    | _ => True
    end.

  Lemma other_step p db w : wf_db db -> other p w ->
    wf_db (apply_w db w) /\ part p (apply_w db w) = part p db /\ spart p (apply_w db w) = spart p db.
  Proof.
    intros [Hsa Hss Hka Hks] Ho. destruct w as [k v|k|h v|k]; cbn [apply_w other] in *.
    - split; [constructor; assumption|]. split; reflexivity.
    - split; [constructor; assumption|]. split; reflexivity.
    - destruct Ho as [Hk Hn]. split; [|split; [|reflexivity]].
      + constructor; cbn [g_accts g_stor]; [apply sorted_put; exact Hsa|exact Hss| |exact Hks].
        apply Forall_am_put; [exact Hk|exact Hka].
      + unfold part. cbn [g_accts]. apply filter_put_other. exact Hn.
    - split; [|split; [reflexivity|]].
      + constructor; cbn [g_accts g_stor]; [exact Hsa| |exact Hka|]; rewrite am_del_filter; [apply sorted_filter; exact Hss|apply wf_stor_filter; exact Hks].
      + unfold spart. cbn [g_stor]. rewrite am_del_filter. apply filter_filter_absorb.
        intros x Hx Hg. apply negb_false_iff, beqb_eq in Hg. unfold s_in_part, sa. rewrite <- Hg. apply N.eqb_neq. exact Ho.
  Qed.

  Lemma gp_slices sc p db : wf_db db ->
    generate_partition H sc p db = gp_core H sc p (part p db) (spart p db).
  Proof. intros Hwf. rewrite gp_local, (part_accs p db Hwf), (spart_slice p db Hwf). reflexivity. Qed.

  (* the result of partition p does not depend on which writes of other partitions
     have already reached the database *)
  Theorem partition_reads_local sc p : forall ws db, wf_db db -> Forall (other p) ws ->
    generate_partition H sc p (apply_ws db ws) = generate_partition H sc p db.
  Proof.
    induction ws as [|w ws IH]; intros db Hwf Ho; [reflexivity|].
    inversion Ho as [|? ? Hw Ho']; subst. destruct (other_step p db w Hwf Hw) as (Hwf1 & E1 & E2).
    change (apply_ws db (w :: ws)) with (apply_ws (apply_w db w) ws).
    rewrite (IH _ Hwf1 Ho'), (gp_slices sc p _ Hwf1), (gp_slices sc p db Hwf), E1, E2. reflexivity.
  Qed.

  (* ... and the write lists of the other partitions are such writes *)
  Theorem other_partition_writes sc p q db rq : wf_db db -> p <> q ->
    generate_partition H sc q db = GOk rq -> Forall (other p) (r_ws rq).
  Proof.
    intros Hwf Hpq Eq. destruct (partition_flat H H_len sc q db rq Hwf Eq) as (Dq & Aq & Sq).
    rewrite Forall_forall. intros w Hin. destruct w as [k v|k|h v|k]; cbn [other]; try exact I.
    - apply acws_In in Hin. rewrite Aq in Hin. apply in_flat_map in Hin as (kv & Hkv & Hi).
      destruct (rewrites_shape H _ _ _ Hi) as [_ F]. cbn [fst] in F.
      destruct (part_key q db kv Hwf Hkv) as (Hk & Hn & _). rewrite F. split; [exact Hk|congruence].
    - apply dels_In in Hin. destruct (Sq _ Hin) as [v Hv]. apply (Dq k v Hv) in Hin as [Hn _]. congruence.
  Qed.
End Local2.
