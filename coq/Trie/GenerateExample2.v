(* Trie/GenerateExample2.v — the example state of Trie/GenerateExample.v meets
   the hypotheses of C11_gen_root / C11_gen_flat (non-vacuity). *)
From GV Require Import Lib.Tactics Lib.Bytes Trie.Hex Trie.Node Trie.Commit Trie.CommitTracer Trie.ProofProofs Trie.Generate Trie.GenerateWalk Trie.GenerateWalk2 Trie.GenerateRoot Trie.GenerateRoot2 Trie.GenerateTotal2 Trie.GenerateSlim2 Trie.GenerateExample.
Local Open Scope N_scope.

Lemma ex_wf : wf_db ex_db.
Proof.
  constructor.
  - unfold ex_db. cbn [g_accts]. apply sorted_cons; [|apply sorted_cons; [constructor|constructor]].
    constructor; [vm_compute; reflexivity|constructor].
  - unfold ex_db. cbn [g_stor]. apply sorted_cons; [|apply sorted_cons; [constructor|constructor]].
    constructor; [vm_compute; reflexivity|constructor].
  - unfold ex_db, wf_accts. cbn [g_accts]. repeat constructor; vm_compute; reflexivity.
  - unfold ex_db, wf_stor. cbn [g_stor]. repeat constructor; vm_compute; reflexivity.
Qed.

Lemma ex_small : small_state toy_hash ex_db.
Proof.
  unfold small_state, ex_db. cbn [g_accts g_stor].
  constructor; [|constructor; [|constructor]]; unfold small; apply N.ltb_lt; vm_compute; reflexivity.
Qed.

Lemma ex_nozero : g_nodes ex_db = [] /\ ~ In zero_hash (map fst (g_accts ex_db)).
Proof.
  split; [reflexivity|]. unfold ex_db. cbn [g_accts map fst]. intros [E|[E|[]]]; vm_compute in E; discriminate.
Qed.

Lemma ex_check_true : ex_check = true.
Proof. vm_compute. reflexivity. Qed.

Lemma ex_success : exists st, fst (generate toy_hash PathScheme ex_expected ex_db) = GOk st.
Proof.
  pose proof ex_check_true as E. unfold ex_check in E.
  destruct (generate toy_hash PathScheme ex_expected ex_db) as [[st|e] db']; [eexists; reflexivity|discriminate].
Qed.

Lemma ex_total_hyps : decodable toy_hash ex_db /\ live_values ex_db.
Proof.
  split.
  - destruct ex_success as [st E]. exact (success_decodable toy_hash toy_hash_len PathScheme ex_expected ex_db st ex_wf E).
  - intros kv [<-|[<-|[]]] _; discriminate.
Qed.
