(* Trie/GenerateDisjoint2.v — writes of different partitions commute, hence every
   schedule of the sixteen goroutines' writes leaves the database of the
   sequential run (C11). *)
From GV Require Import Lib.Tactics Lib.Bytes Lib.Interleave Rlp.Codec Trie.Hex Trie.HexProofs Trie.Node Trie.Ops Trie.Hash Trie.OpsProofs Trie.Canon Trie.Stack Trie.StackProofs Trie.Commit Trie.CommitProofs Trie.CommitTracer Trie.Generate Trie.GenerateProofs Trie.GenerateWalk Trie.GenerateWalk2 Trie.GenerateWalk3 Trie.GenerateKeys Trie.GenerateSched Trie.GenerateRoot Trie.GenerateRoot2 Trie.GenerateFlat Trie.GenerateFlat2 Trie.GenerateDisjoint.
Local Open Scope N_scope.

Lemma app_inv_len {A} (a b x y : list A) : length a = length b -> a ++ x = b ++ y -> a = b.
Proof.
  revert b. induction a as [|u a IH]; intros [|w b] L E; try discriminate; [reflexivity|].
  cbn in E. inversion E; subst. f_equal. apply IH; [simpl in L; lia|assumption].
Qed.

Lemma acws_In ws h v : In (WAcct h v) ws -> In (h, v) (acws ws).
Proof. intros Hin. unfold acws. apply in_flat_map. exists (WAcct h v). split; [exact Hin|left; reflexivity]. Qed.
Lemma dels_In ws k : In (WStorDel k) ws -> In k (dels ws).
Proof. intros Hin. unfold dels. apply in_flat_map. exists (WStorDel k). split; [exact Hin|left; reflexivity]. Qed.

Lemma F2_both {A B} (P Q : A -> B -> Prop) la lb : Forall2 P la lb -> Forall2 Q la lb -> Forall2 (fun a b => P a b /\ Q a b) la lb.
Proof.
  intros HP. induction HP as [|a b la lb Hp _ IH]; intros HQ; inversion HQ; subst; constructor; auto.
Qed.

Lemma F2_map_eq {A B C} (f : A -> C) (g : B -> C) la lb : Forall2 (fun a b => f a = g b) la lb -> map f la = map g lb.
Proof. induction 1 as [|a b la lb E _ IH]; [reflexivity|]. cbn. rewrite E, IH. reflexivity. Qed.

Lemma proj_In (h : list (N * wop)) e : In e h -> In (snd e) (proj N.eqb (fst e) h).
Proof.
  intros Hin. unfold proj. apply in_map. apply filter_In. split; [exact Hin|apply N.eqb_refl].
Qed.

Lemma NoDup_partitions : NoDup partitions.
Proof.
  unfold partitions.
  repeat (constructor; [simpl; intros Hc; repeat (destruct Hc as [Hc|Hc]; [discriminate|]); exact Hc|]).
  constructor.
Qed.

Section D2.
  Variable H : list N -> list N.
  Hypothesis H_len : forall x, length (H x) = 32%nat.

  (* path scheme: no account has the all-zero hash (rawdb.WriteTrieNode files the
     storage nodes of owner common.Hash{} under the account-trie prefix);
     hash scheme: equal keys carry equal blobs (collision freedom of H) *)
  Definition scheme_ok (sc : scheme) (db : gdb) : Prop :=
    match sc with
    | PathScheme => ~ In zero_hash (map fst (g_accts db))
    | HashScheme => forall a b, H a = H b -> a = b
    end.

  Lemma node_keys_differ sc db p q k1 b1 k2 b2 : scheme_ok sc db -> p <> q ->
    wclass H sc p (map fst (g_accts db)) (WNode k1 b1) -> wclass H sc q (map fst (g_accts db)) (WNode k2 b2) ->
    k1 <> k2 \/ (k1 = k2 /\ b1 = b2).
  Proof.
    intros Hs Hpq C1 C2. destruct sc; cbn [scheme_ok] in Hs.
    - (* hash scheme *)
      assert (E1 : k1 = H b1) by (destruct C1 as [[path ->]|(h & path & _ & _ & _ & ->)]; reflexivity).
      assert (E2 : k2 = H b2) by (destruct C2 as [[path ->]|(h & path & _ & _ & _ & ->)]; reflexivity).
      subst. destruct (list_eq_dec N.eq_dec (H b1) (H b2)) as [E|Ne]; [right; split; [exact E|apply Hs, E]|left; exact Ne].
    - (* path scheme *)
      left. cbn [wclass node_key] in C1, C2. rewrite beqb_refl in C1, C2.
      assert (Hnz : forall h, In h (map fst (g_accts db)) -> bytes_eqb h zero_hash = false).
      { intros h Hh. apply beqb_neq. intros ->. exact (Hs Hh). }
      destruct C1 as [[path1 ->]|(h1 & path1 & N1 & L1 & I1 & ->)]; destruct C2 as [[path2 ->]|(h2 & path2 & N2 & L2 & I2 & ->)];
        rewrite ?(Hnz _ I1), ?(Hnz _ I2); try congruence.
      intros E. inversion E as [E']. apply app_inv_len in E'; [|congruence]. subst h2. congruence.
  Qed.

  Theorem cross_writes_commute sc db p q rp rq : wf_db db -> scheme_ok sc db -> p <> q ->
    generate_partition H sc p db = GOk rp -> generate_partition H sc q db = GOk rq ->
    forall w1 w2, In w1 (r_ws rp) -> In w2 (r_ws rq) -> commute w1 w2.
  Proof.
    intros Hwf Hs Hpq Ep Eq w1 w2 H1 H2.
    pose proof (partition_class H sc p db rp Hwf Ep) as Cp. pose proof (partition_class H sc q db rq Hwf Eq) as Cq.
    rewrite Forall_forall in Cp, Cq. specialize (Cp w1 H1). specialize (Cq w2 H2).
    destruct (partition_flat H H_len sc p db rp Hwf Ep) as (Dp & Ap & Sp).
    destruct (partition_flat H H_len sc q db rq Hwf Eq) as (Dq & Aq & Sq).
    destruct w1 as [k1 b1|k1|h1 v1|k1]; destruct w2 as [k2 b2|k2|h2 v2|k2]; try (destruct Cp; fail); try (destruct Cq; fail);
      try (apply commute_disjoint; [reflexivity|reflexivity|cbn; congruence]).
    - destruct (node_keys_differ sc db p q k1 b1 k2 b2 Hs Hpq Cp Cq) as [Ne|[-> ->]]; [|apply commute_same].
      apply commute_disjoint; [reflexivity|reflexivity|cbn; congruence].
    - (* two account rewrites *)
      apply commute_disjoint; [reflexivity|reflexivity|]. cbn. intros E. inversion E; subst h2.
      apply acws_In in H1. apply acws_In in H2. rewrite Ap in H1. rewrite Aq in H2.
      apply in_flat_map in H1 as (kv1 & Hk1 & Hi1). apply in_flat_map in H2 as (kv2 & Hk2 & Hi2).
      destruct (rewrites_shape H _ _ _ Hi1) as [_ F1]. destruct (rewrites_shape H _ _ _ Hi2) as [_ F2]. cbn [fst] in F1, F2.
      destruct (part_key p db kv1 Hwf Hk1) as (_ & N1 & _). destruct (part_key q db kv2 Hwf Hk2) as (_ & N2 & _).
      congruence.
    - (* two deletions *)
      apply commute_disjoint; [reflexivity|reflexivity|]. cbn. intros E. inversion E; subst k2.
      apply dels_In in H1. apply dels_In in H2.
      destruct (Sp _ H1) as [v Hv]. apply (Dp k1 v Hv) in H1 as [N1 _]. apply (Dq k1 v Hv) in H2 as [N2 _]. congruence.
  Qed.

  (* every schedule: a history whose projection on each partition is that partition's
     write list leaves exactly the database of the sequential run used by [generate] *)
  Theorem any_schedule sc db rs (h : hist) : wf_db db -> scheme_ok sc db ->
    run_partitions H sc db partitions = GOk rs ->
    Forall2 (fun p r => proj N.eqb p h = r_ws r) partitions rs ->
    (forall e, In e h -> In (fst e) partitions) ->
    apply_ws db (map snd h) = fold_left (fun d r => apply_ws d (r_ws r)) rs db.
  Proof.
    intros Hwf Hs Er Hproj Hin.
    pose proof (F2_both _ _ _ _ (run_partitions_F2 H sc db partitions rs Er) Hproj) as HB.
    rewrite (order_irrelevant partitions h NoDup_partitions Hin).
    - rewrite fold_rs. f_equal. f_equal. apply F2_map_eq. exact Hproj.
    - intros e1 e2 I1 I2 Hne.
      destruct (F2_in_l _ _ _ _ HB (Hin e1 I1)) as (r1 & _ & G1 & P1).
      destruct (F2_in_l _ _ _ _ HB (Hin e2 I2)) as (r2 & _ & G2 & P2).
      apply (cross_writes_commute sc db (fst e1) (fst e2) r1 r2 Hwf Hs Hne G1 G2).
      + rewrite <- P1. apply proj_In. exact I1.
      + rewrite <- P2. apply proj_In. exact I2.
  Qed.
End D2.
