(* Trie/GenerateExample.v — a concrete run of the C11 model used as the
   non-vacuity witness of Properties/C11.v: two accounts in partition 3 sharing
   the second nibble (so the partition's subtree root is an extension and the
   single-partition fold deletes the orphan at path [3]), one of them with one
   storage slot and a stale (empty) root, plus one dangling slot before them.
   The expected root is computed INDEPENDENTLY by ordinary insertion
   (Trie/Ops.v update_seq) over the corrected accounts.  Hash = toy_hash
   (first 32 bytes, zero padded): enough for a shape example, no collisions
   among the handful of encodings involved. *)
From GV Require Import Lib.Bytes Trie.Hex Trie.Node Trie.Ops Trie.Hash Trie.Commit Trie.ProofProofs Trie.Generate.
Local Open Scope N_scope.

Definition ex_h0 : list N := 48 :: repeat 1 31.          (* 0x30 01.. : no such account *)
Definition ex_h1 : list N := 49 :: repeat 17 31.         (* 0x31 11.. *)
Definition ex_h2 : list N := 49 :: repeat 34 31.         (* 0x31 22.. *)
Definition ex_s1 : list N := 7 :: repeat 9 31.

Definition ex_acc1 : account := mkAccount 1 2 (empty_root toy_hash) (empty_code toy_hash).
Definition ex_acc2 : account := mkAccount 0 0 (empty_root toy_hash) (empty_code toy_hash).

Definition ex_db : gdb :=
  mkDb [(ex_h1, slim_rlp toy_hash ex_acc1); (ex_h2, slim_rlp toy_hash ex_acc2)]
       [(ex_h0 ++ ex_s1, [7]); (ex_h1 ++ ex_s1, [5])]
       [].

Definition ex_noresolve (h p : list N) : option (node * list N) := None.

Definition ex_root_of (kvs : list (list N * list N)) : list N :=
  match update_seq ex_noresolve NEmpty kvs with
  | TOk (t, _) => match hash_root toy_hash t with Some h => h | None => [] end
  | TErr _ => []
  end.

Definition ex_sroot1 : list N := ex_root_of [(ex_s1, [5])].
Definition ex_expected : list N :=
  ex_root_of [(ex_h1, full_rlp (mkAccount 1 2 ex_sroot1 (empty_code toy_hash)));
              (ex_h2, full_rlp ex_acc2)].

Definition ex_check : bool :=
  match generate toy_hash PathScheme ex_expected ex_db with
  | (GOk st, db') =>
      (s_scanned st =? 2) && (s_updated st =? 1) && (s_deleted st =? 1) &&
      Nat.eqb (length (g_stor db')) 1 &&
      am_has [65] (g_nodes db') &&                 (* the folded root at the empty path *)
      negb (am_has [65; 3] (g_nodes db')) &&       (* the orphaned subtree root at [3] is gone *)
      am_has [65; 3; 1] (g_nodes db') &&           (* the branch below the extension *)
      match am_get ex_h1 (g_accts db') with
      | Some v => bytes_eqb v (slim_rlp toy_hash (mkAccount 1 2 ex_sroot1 (empty_code toy_hash)))
      | None => false
      end
  | _ => false
  end.
