(* Trie/GenerateNodes4.v — the builder as a whole: everything the callback
   receives while ascending equal-length keys are fed and Hash() is called is
   exactly the canonical node set of the trie built (C11, gen_nodes_path). *)
From Coq Require Import Permutation.
From GV Require Import Lib.Tactics Lib.Bytes Rlp.Codec Trie.Hex Trie.HexProofs Trie.HexInPlace Trie.Node Trie.Ops Trie.Hash Trie.OpsProofs Trie.Canon Trie.Stack Trie.StackProofs Trie.Commit Trie.Generate Trie.GenerateProofs Trie.GenerateWalk3 Trie.GenerateNodes Trie.GenerateNodes2 Trie.GenerateNodes3.
Local Open Scope N_scope.

Section Nodes4.
  Variable H : list N -> list N.
  Hypothesis H_len : forall x, length (H x) = 32%nat.

  (* [emitted] = the nodes under hashed stack nodes *)
  Definition emitted_ok (s : stack) (t : node) (E : ems) : Prop := Permutation E (done H [] (fst s) t).

  Lemma st_update_hex_done s t L k v E :
    sroot H s t L -> canon t -> nibbles k -> length k = L -> (1 <= L)%nat ->
    slice_lt (snd s) k = true -> v <> [] -> emitted_ok s t E ->
    exists s' em t',
      st_update_hex_e H s k v = TOk (inr (s', em)) /\
      sroot H s' t' L /\ canon t' /\ snd s' = k /\
      lk t' (k ++ [16]) = Some v /\ (forall hk, hk <> k ++ [16] -> lk t' hk = lk t hk) /\
      emitted_ok s' t' (E ++ em).
  Proof.
    intros Hr Hc Hk HL HL1 Hlt Hv HE. destruct s as [st last]. cbn [fst snd] in *.
    pose proof (valid_key_app _ Hk) as Hvk.
    destruct (update_hex_spec no_resolve t (k ++ [16]) v Hc Hvk) as (t' & ev & Eu & Hc' & Lk & Lo).
    destruct v as [|b v]; [congruence|]. cbn [vopt] in Lk.
    unfold st_update_hex_e. cbn [fst snd]. rewrite Hlt. cbn [negb].
    unfold sroot in Hr. cbn [fst snd] in Hr. unfold emitted_ok in *. cbn [fst] in *.
    destruct Hr as [(-> & -> & ->)|(HR & Hin & Hun & Hsp & HLl)]; cbn [fst snd] in *.
    - cbn [st_insert_e].
      replace (ops_fuel (k ++ [16])) with (S (ops_fuel (k ++ [16]) - 1)) in Eu by (unfold ops_fuel; lia).
      rewrite insert_empty_snoc in Eu. inversion Eu; subst t'.
      eexists (StLeaf k (b :: v), k), [], _. split; [reflexivity|]. split.
      { right. cbn [fst snd]. split; [apply R_leaf; exact Hk|]. split; [exact I|]. split; [exact I|].
        split; [apply sp_leaf|exact HL]. }
      split; [exact Hc'|]. split; [reflexivity|]. split; [exact Lk|]. split; [exact Lo|].
      cbn [fst done] in *. rewrite app_nil_r. exact HE.
    - destruct (insert_progress H H_len no_resolve (S (length k)) st last Hsp t k (b :: v) HR Hk) as (st' & Ei & Hsp'); [lia|exact Hlt|lia|].
      destruct (insert_R H H_len no_resolve _ _ _ _ _ _ HR Hk Ei (ops_fuel (k ++ [16])) [])
        as (t1 & ev1 & E1 & HR' & Hin' & Hun' & _).
      { unfold ops_fuel. rewrite app_length. simpl. lia. }
      pose proof E1 as E1'. rewrite E1 in Eu. inversion Eu; subst t1.
      pose proof (st_insert_e_fst H (S (length k)) st k (b :: v) [] (R_xok H _ _ HR)) as Ee.
      rewrite Ei in Ee. destruct (st_insert_e H (S (length k)) st k (b :: v) []) as [[r em]|e] eqn:Eie; simpl in Ee; [|discriminate].
      inversion Ee; subst r.
      exists (st', k), em, t'. split; [reflexivity|]. split.
      { right. cbn [fst snd]. auto. }
      split; [exact Hc'|]. split; [reflexivity|]. split; [exact Lk|]. split; [exact Lo|]. cbn [fst].
      eapply Permutation_trans; [apply Permutation_app_tail; exact HE|]. apply Permutation_sym.
      apply (insert_done H H_len no_resolve _ _ _ _ _ _ _ _ HR Hk Eie (ops_fuel (k ++ [16])) [] t' ev1); [|exact E1'].
      unfold ops_fuel. rewrite app_length. simpl. lia.
  Qed.

  Lemma hfeed_done : forall kvs s t L E,
    sroot H s t L -> canon t -> (1 <= L)%nat ->
    Forall (fun kv => nibbles (fst kv) /\ length (fst kv) = L /\ snd kv <> []) kvs ->
    hasc (snd s) kvs -> emitted_ok s t E ->
    exists s' em t', hfeed H s kvs = Some (s', em) /\ sroot H s' t' L /\ canon t' /\
      (forall hk, lk t' hk = apply_ops (lk t) (hops kvs) hk) /\ emitted_ok s' t' (E ++ em).
  Proof.
    induction kvs as [|[k v] kvs IH]; intros s t L E Hr Hc HL HF Ha HE.
    - exists s, [], t. rewrite app_nil_r. auto.
    - inversion HF as [|? ? (Hk & Hlen & Hv) HF']; subst. cbn [fst snd] in *. destruct Ha as [Hlt Ha'].
      destruct (st_update_hex_done s t (length k) k v E Hr Hc Hk eq_refl HL Hlt Hv HE)
        as (s1 & em1 & t1 & E1 & Hr1 & Hc1 & Hs1 & L1 & L2 & HE1).
      rewrite <- Hs1 in Ha'.
      destruct (IH s1 t1 (length k) (E ++ em1) Hr1 Hc1 HL HF' Ha' HE1) as (s2 & em2 & t2 & E2 & Hr2 & Hc2 & L3 & HE2).
      exists s2, (em1 ++ em2), t2. cbn [hfeed]. rewrite E1, E2. split; [reflexivity|]. split; [assumption|].
      split; [assumption|]. split; [|rewrite app_assoc; exact HE2]. intros hk. rewrite L3. cbn [hops map apply_ops fst snd].
      apply apply_ops_ext. intros k'. unfold put. destruct (bytes_eqb k' (k ++ [16])) eqn:B.
      + apply bytes_eqb_eq in B. subst. rewrite L1. destruct v; [congruence|reflexivity].
      + apply L2. intros ->. rewrite bytes_eqb_refl in B. discriminate.
  Qed.

  (* Hash(): what was emitted before plus the final emission is the node set of the trie *)
  Lemma root_emits s t L E h emf : sroot H s t L -> emitted_ok s t E -> st_root_e H s = TOk (h, emf) ->
    Permutation (E ++ emf) (nodes_of H [] t).
  Proof.
    intros Hr HE Er. unfold emitted_ok in HE. destruct Hr as [(Es & -> & _)|(HR & _)].
    - unfold st_root_e in Er. rewrite Es in *. cbn in Er. inversion Er; subst. cbn [done] in HE. rewrite app_nil_r. cbn [nodes_of]. exact HE.
    - unfold st_root_e in Er. rewrite (hash_rem H H_len _ _ _ _ _ HR Er).
      eapply Permutation_trans; [apply Permutation_app_tail; exact HE|]. apply Permutation_sym. apply nodes_split; assumption.
  Qed.

  (* the whole builder, from empty *)
  Theorem builder_emits kvs L : (1 <= L)%nat ->
    Forall (fun kv => nibbles (fst kv) /\ length (fst kv) = L /\ snd kv <> []) kvs -> hasc [] kvs ->
    exists s em t h emf, hfeed H stack_new kvs = Some (s, em) /\ st_root_e H s = TOk (h, emf) /\
      canon t /\ (forall hk, lk t hk = apply_ops (fun _ => None) (hops kvs) hk) /\ hash_root H t = Some h /\
      Permutation (em ++ emf) (nodes_of H [] t).
  Proof.
    intros HL HF Ha.
    destruct (hfeed_done kvs stack_new NEmpty L [] (or_introl (conj eq_refl (conj eq_refl eq_refl))) (or_introl eq_refl) HL HF Ha (Permutation_refl _))
      as (s & em & t & Ef & Hr & Hc & Lt & HE).
    destruct (st_root_e_ok H H_len s t L Hr) as (h & emf & Er & Eh).
    exists s, em, t, h, emf. split; [exact Ef|]. split; [exact Er|]. split; [exact Hc|]. split.
    - intros hk. rewrite Lt. apply apply_ops_ext. intros k. apply lk_empty.
    - split; [exact Eh|]. apply (root_emits s t L ([] ++ em) h emf Hr HE Er).
  Qed.
End Nodes4.
