(* Trie/Hash.v — node encoding, hashing and decoding.
   Transcribes /repo/trie/hasher.go (hash, encodeShortNode, encodeFullNode),
   /repo/trie/node_enc.go (leaf/ext/fullnode encoders), trie.go:hashRoot and
   /repo/trie/node.go (decodeNode, decodeShort, decodeFull, decodeRef).
   The hash function is the Section variable [H] (Keccak-256 in the Run files).
   The node-flag hash cache of the Go code is not modelled (a cached hash equals
   the recomputed one when the dirty flags are maintained correctly; the
   correspondence check compares the root after every operation).

   Names other families rely on (keep stable):
     node_ref node_enc hash_root empty_root_preimage decode_node decode_ref
     derr DShort DFull DOther *)
From GV Require Import Lib.Bytes Rlp.Item Rlp.Raw Rlp.Codec Trie.Hex Trie.Node.
Local Open Scope N_scope.

Section Hash.
  Variable H : list N -> list N.

  (* how a child reference is written into its parent (extNodeEncoder /
     fullnodeEncoder): < 32 bytes = raw embedded node, else a string *)
  Definition write_ref (r : list N) : list N :=
    if Nat.ltb (length r) 32 then r else enc_str r.

  Definition list_wrap (payload : list N) : list N :=
    enc_head 192 247 (lenN payload) ++ payload.

  (* hasher.hash(n, force): the 32-byte hash, or the raw encoding when it is
     shorter than 32 bytes and not forced.  None = the Go code panics
     ("unexpected node type", failed valueNode assertion). [node_enc] is the
     encoding that gets hashed (proofHash / what is stored in the database). *)
  (* reference of an already encoded child: hasher.hash(child, false) *)
  Definition ref_of_enc (e : list N) : list N :=
    if Nat.ltb (length e) 32 then e else H e.

  Fixpoint node_enc (n : node) : option (list N) :=
    match n with
    | NShort k c =>
        match hex_to_compact k with
        | None => None
        | Some ck =>
            let body :=
              if has_term k then
                match c with NValue v => Some (enc_str v) | _ => None end   (* n.Val.(valueNode) *)
              else
                match c with
                | NHash h => Some (write_ref h)
                | NShort _ _ | NFull _ =>
                    match node_enc c with
                    | Some e => Some (write_ref (ref_of_enc e))
                    | None => None
                    end
                | _ => None                                         (* panic: unexpected node type *)
                end in
            match body with
            | Some b => Some (list_wrap (enc_str ck ++ b))
            | None => None
            end
        end
    | NFull cs =>
        let fix go (i : nat) (l : list node) : option (list N) :=
          match l with
          | [] => Some []
          | c :: r =>
              let e :=
                match c with
                | NEmpty => Some [128]
                | _ =>
                    if Nat.eqb i 16 then
                      match c with
                      | NValue [] => Some [128]
                      | NValue v => Some (enc_str v)
                      | _ => None                                   (* n.Children[16].(valueNode) *)
                      end
                    else
                      match c with
                      | NHash [] => Some [128]
                      | NHash h => Some (write_ref h)
                      | NShort _ _ | NFull _ =>
                          match node_enc c with
                          | Some e => Some (write_ref (ref_of_enc e))
                          | None => None
                          end
                      | _ => None                                   (* panic: unexpected node type *)
                      end
                end in
              match e, go (S i) r with
              | Some a, Some b => Some (a ++ b)
              | _, _ => None
              end
          end in
        match go O cs with
        | Some payload => Some (list_wrap payload)
        | None => None
        end
    | _ => None
    end.

  Definition node_ref (force : bool) (n : node) : option (list N) :=
    match n with
    | NHash h => Some h
    | NShort _ _ | NFull _ =>
        match node_enc n with
        | Some e => Some (if Nat.ltb (length e) 32 && negb force then e else H e)
        | None => None
        end
    | _ => None
    end.

  (* types.EmptyRootHash = keccak256(rlp("")) = keccak256(0x80) *)
  Definition empty_root_preimage : list N := [128].

  (* Trie.hashRoot *)
  Definition hash_root (root : node) : option (list N) :=
    match root with
    | NEmpty => Some (H empty_root_preimage)
    | _ => node_ref true root
    end.

  (* ---- decoding (node.go) ---- *)
  Inductive derr : Type :=
  | DEmpty            (* io.ErrUnexpectedEOF: empty buffer *)
  | DRlp (e : err)    (* error from the rlp splitters *)
  | DCount            (* invalid number of list elements *)
  | DOversized        (* oversized embedded node *)
  | DRefSize          (* invalid RLP string size (want 0 or 32) *)
  | DFuel.

  Inductive dres (A : Type) : Type := DOk (a : A) | DErr (e : derr).
  Arguments DOk {A} a.
  Arguments DErr {A} e.

  (* decodeNodeUnsafe / decodeShort / decodeFull / decodeRef, mutually recursive
     through embedded nodes; fuel = nesting depth bound (an embedded node is
     < 32 bytes, so depth is tiny; fuel exhaustion is reported as DFuel) *)
  Fixpoint decode_node_f (fuel : nat) (buf : list N) : dres node :=
    match fuel with
    | O => DErr DFuel
    | S f =>
        match buf with
        | [] => DErr DEmpty
        | _ =>
            match split_list buf with
            | Err e => DErr (DRlp e)
            | Ok (elems, _) =>
                match count_values elems with
                | (_, Some e) => DErr (DRlp e)
                | (c, None) =>
                    let decode_ref (b : list N) : dres (node * list N) :=
                      match Raw.split b with
                      | Err e => DErr (DRlp e)
                      | Ok (k, val, rest) =>
                          match k with
                          | KList =>
                              let size := (length b - length rest)%nat in
                              if Nat.leb 32 size then DErr DOversized
                              else match decode_node_f f b with
                                   | DOk n => DOk (n, rest)
                                   | DErr e => DErr e
                                   end
                          | _ =>
                              match length val with
                              | O => DOk (NEmpty, rest)
                              | 32%nat => DOk (NHash val, rest)
                              | _ => DErr DRefSize
                              end
                          end
                      end in
                    if c =? 2 then
                      match split_string elems with
                      | Err e => DErr (DRlp e)
                      | Ok (kbuf, rest) =>
                          let key := compact_to_hex kbuf in
                          if has_term key then
                            match split_string rest with
                            | Err e => DErr (DRlp e)
                            | Ok (val, _) => DOk (NShort key (NValue val))
                            end
                          else
                            match decode_ref rest with
                            | DOk (r, _) => DOk (NShort key r)
                            | DErr e => DErr e
                            end
                      end
                    else if c =? 17 then
                      let fix children (i : nat) (b : list N) : dres (list node * list N) :=
                        match i with
                        | O => DOk ([], b)
                        | S i' =>
                            match decode_ref b with
                            | DErr e => DErr e
                            | DOk (cld, rest) =>
                                match children i' rest with
                                | DErr e => DErr e
                                | DOk (l, rest') => DOk (cld :: l, rest')
                                end
                            end
                        end in
                      match children 16%nat elems with
                      | DErr e => DErr e
                      | DOk (cs, rest) =>
                          match split_string rest with
                          | Err e => DErr (DRlp e)
                          | Ok (val, _) =>
                              DOk (NFull (cs ++ [match val with [] => NEmpty | _ => NValue val end]))
                          end
                      end
                    else DErr DCount
                end
            end
        end
    end.

  (* an embedded node is < 32 bytes and every nesting level costs at least 2 bytes,
     so 34 levels are never exhausted (proved in Trie/ProofProofs.v) *)
  Definition decode_node (buf : list N) : dres node := decode_node_f 34 buf.
End Hash.

Arguments DOk {A} a.
Arguments DErr {A} e.
