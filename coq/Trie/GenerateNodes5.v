(* Trie/GenerateNodes5.v — the trie-node writes of the merge walk (C11,
   gen_nodes_path): for every processed account the storage-trie nodes written
   are exactly the canonical node set of its storage trie, and the account-trie
   nodes written by the partition are exactly what its builder emitted. *)
From Coq Require Import Permutation.
From GV Require Import Lib.Tactics Lib.Bytes Rlp.Codec Trie.Hex Trie.HexProofs Trie.HexInPlace Trie.Node Trie.Ops Trie.Hash Trie.OpsProofs Trie.Canon Trie.Stack Trie.StackProofs Trie.Commit Trie.CommitProofs Trie.CommitTracer Trie.Generate Trie.GenerateProofs Trie.GenerateWalk Trie.GenerateWalk2 Trie.GenerateWalk3 Trie.GenerateNodes Trie.GenerateNodes2 Trie.GenerateNodes3 Trie.GenerateNodes4.
Local Open Scope N_scope.

(* the trie-node puts of a write list *)
Definition nws (ws : list wop) : list (list N * list N) :=
  flat_map (fun w => match w with WNode k b => [(k, b)] | _ => [] end) ws.

Lemma nws_app a b : nws (a ++ b) = nws a ++ nws b.
Proof. unfold nws. apply flat_map_app. Qed.

Section Nodes5.
  Variable H : list N -> list N.
  Hypothesis H_len : forall x, length (H x) = 32%nat.

  (* rawdb keys of emitted nodes *)
  Definition nk (sc : scheme) (owner : list N) (em : ems) : list (list N * list N) :=
    map (fun pb => (node_key sc owner (fst pb) (H (snd pb)), snd pb)) em.

  Lemma nws_nodes sc o em : nws (node_writes H sc o em) = nk sc o em.
  Proof. unfold node_writes, nk. induction em as [|x em IH]; [reflexivity|]. cbn. f_equal. exact IH. Qed.

  Lemma nk_app sc o a b : nk sc o (a ++ b) = nk sc o a ++ nk sc o b.
  Proof. unfold nk. apply map_app. Qed.

  (* the storage trie of account h: built by ordinary insertion from its slots *)
  Definition stor_trie (ss : amap (list N)) (h : list N) : node :=
    match ref_trie (byte_slots ss h) with Some t => t | None => NEmpty end.

  Lemma stor_loop_nodes sc h : forall ss st t rest st' ws nd E,
    ndsa ss -> wf_stor ss -> sroot H st t 64 -> canon t -> emitted_ok H st t E ->
    stor_loop H sc h ss st = GOk (rest, st', ws, nd) ->
    exists t' emA, sroot H st' t' 64 /\ canon t' /\
      (forall hk, lk t' hk = apply_ops (lk t) (hops (map slotkv (filter (sa_eq h) ss))) hk) /\
      nws ws = nk sc h emA /\ emitted_ok H st' t' (E ++ emA).
  Proof.
    induction ss as [|[k v] ss IH]; intros st t rest st' ws nd E Hnd Hwf Hr Hc HE El.
    - cbn in El. inversion El; subst. exists t, []. rewrite app_nil_r. auto.
    - cbn [stor_loop] in El. destruct Hnd as [Hhd Hnd]. inversion Hwf as [|? ? [Hk64 Hkb] Hwf']; subst. cbn [fst] in *.
      change (firstn 32 k) with (sa (k, v)) in El. cbn [filter].
      assert (B3 : sa_eq h (k, v) = match bytes_cmp (sa (k, v)) h with Eq => true | _ => false end) by reflexivity.
      rewrite B3. clear B3.
      destruct (bytes_cmp (sa (k, v)) h) eqn:C.
      + destruct (st_update_e H st (skipn 32 k) v) as [[c|[st1 em]]|e] eqn:Eu; try discriminate.
        destruct (stor_loop H sc h ss st1) as [[[[rest1 st1'] ws1] nd1]|e] eqn:El1; [|discriminate].
        inversion El; subst. clear El.
        unfold st_update_e in Eu. destruct v as [|b v]; [discriminate|].
        assert (Hsl : slice_lt (snd st) (nibbles_of (skipn 32 k)) = true).
        { unfold st_update_hex_e in Eu. destruct (slice_lt (snd st) (nibbles_of (skipn 32 k))); [reflexivity|discriminate]. }
        destruct (st_update_hex_done H H_len st t 64 (nibbles_of (skipn 32 k)) (b :: v) E Hr Hc)
          as (s1 & em1 & t1 & E1 & Hr1 & Hc1 & _ & L1 & L2 & HE1).
        { apply nibbles_of_nibbles, forallb_skipn, Hkb. }
        { rewrite nibbles_of_length, (skipn_len 32 k 32) by lia. reflexivity. }
        { lia. } { exact Hsl. } { discriminate. } { exact HE. }
        rewrite E1 in Eu. inversion Eu; subst s1 em1. clear Eu.
        destruct (IH st1 t1 _ _ _ _ (E ++ em) Hnd Hwf' Hr1 Hc1 HE1 El1) as (t' & emA & Hr' & Hc' & L' & Nw & HE').
        exists t', (em ++ emA). split; [exact Hr'|]. split; [exact Hc'|]. split.
        * intros hk. rewrite L'. cbn [map hops apply_ops slotkv fst snd]. apply apply_ops_ext. intros k'. unfold put.
          destruct (bytes_eqb k' (nibbles_of (skipn 32 k) ++ [16])) eqn:B.
          -- apply bytes_eqb_eq in B. subst. exact L1.
          -- apply L2. intros ->. rewrite bytes_eqb_refl in B. discriminate.
        * split; [rewrite nws_app, nws_nodes, Nw, nk_app; reflexivity|rewrite app_assoc; exact HE'].
      + destruct (stor_loop H sc h ss st) as [[[[rest1 st1'] ws1] nd1]|e] eqn:El1; [|discriminate].
        inversion El; subst. clear El.
        destruct (IH st t _ _ _ _ E Hnd Hwf' Hr Hc HE El1) as (t' & emA & Hr' & Hc' & L' & Nw & HE').
        exists t', emA. auto.
      + inversion El; subst. clear El. exists t, []. rewrite app_nil_r.
        assert (Hall : Forall (fun y => bytes_cmp (sa y) h = Gt) ss).
        { eapply Forall_impl; [|exact Hhd]. intros y Hy. eapply bcmp_gt_le; eassumption. }
        destruct (all_gt_filters h ss Hall) as (_ & _ & F3). rewrite F3. auto.
  Qed.

  (* one account's storage trie: all its node writes *)
  Lemma account_storage_nodes sc h ss ss1 sst ws1 nd computed em : ndsa ss -> wf_stor ss ->
    stor_loop H sc h ss stack_new = GOk (ss1, sst, ws1, nd) -> st_root_e H sst = TOk (computed, em) ->
    Permutation (nws (ws1 ++ node_writes H sc h em)) (nk sc h (nodes_of H [] (stor_trie ss h))).
  Proof.
    intros Hnd Hws Es Er.
    destruct (stor_loop_nodes sc h ss stack_new NEmpty _ _ _ _ [] Hnd Hws (sroot_new H 64) (or_introl eq_refl) (Permutation_refl _) Es)
      as (t' & emA & Hr' & Hc' & L' & Nw & HE').
    rewrite nws_app, nws_nodes, Nw, <- nk_app. unfold nk. apply Permutation_map.
    pose proof (root_emits H H_len sst t' 64 ([] ++ emA) computed em Hr' HE' Er) as PR. cbn [app] in PR.
    replace (stor_trie ss h) with t'; [exact PR|].
    destruct (update_seq_spec no_resolve (byte_slots ss h) (byte_slots_ok ss h Hws) NEmpty (fun _ => None)
                (or_introl eq_refl) (fun hk => lk_empty hk)) as (t2 & ev & E2 & C2 & L2).
    unfold stor_trie, ref_trie. rewrite E2. apply canon_unique; [exact Hc'|exact C2|].
    intros k0 _. rewrite L', L2, hexops_byte_slots. apply apply_ops_ext. intros k'. apply lk_empty.
  Qed.
End Nodes5.
