(* Trie/Commit.v — executable model of committing a modified trie:
   /repo/trie/tracer.go (opTracer with the insert/delete cancel-out rule,
   PrevalueTracer), /repo/trie/trie.go (New, resolveAndTrack, deletedNodes,
   Commit), /repo/trie/committer.go (commit, commitChildren, store),
   /repo/trie/trienode/node.go (NodeSet.AddNode, deleted-with-prev) and the node
   stores the set is applied to (triedb hash scheme: hash -> blob, additions
   only; triedb path scheme: path -> blob with deletions).

   Builds on Trie/Ops.v: get/insert/delete are run with [resolve] instantiated
   from a store (reader.Node + decodeNode) and the tracer state is FOLDED from
   the event list they emit (program order).

   Dirty flags.  The Go nodes carry nodeFlag{hash,dirty}; Trie/Node.v has no
   flags.  The flags are reconstructed here from the history, exactly:
     * insert/delete return dirty=true iff they rebuilt (newFlag) EVERY node on
       the path of the key, from the root down to where the recursion ended —
       trie.go returns (false, n) unchanged at every level otherwise;
     * the only fresh nodes off that path are the short nodes made by
       insert(nil, prefix, ..), each announced by opTracer.onInsert(prefix).
     So a short/full node at [path] is dirty iff [path] is a prefix of the hex
     key of some operation that returned dirty=true, or an onInsert path
     ([dirty_at]).  Nodes decoded from the store are clean and carry the hash
     they were loaded by; an embedded clean node has hash=nil and is treated by
     committer.commit exactly like a dirty one (it tests hash != nil && !dirty).
   After Trie.Hash() a dirty node has a cached hash iff it is the root (force)
   or its encoding has >= 32 bytes ([hashedb]).

   Definitions only; proofs are in Trie/CommitProofs.v.

   Names other families may rely on:
     amap am_get am_put am_del scheme HashScheme PathScheme resolve_of
     tracer tr_empty trace_ev trace_evs pv_get deleted_nodes
     nentry Upd Del nodeset commit_node commit apply_nodeset open_trie *)
From GV Require Import Lib.Bytes Trie.Hex Trie.Node Trie.Ops Trie.Hash.
Local Open Scope N_scope.

(* ---------- byte-string keyed maps as sorted association lists ---------- *)
(* Go string order: lexicographic, a proper prefix first *)
Fixpoint bytes_cmp (a b : list N) : comparison :=
  match a, b with
  | [], [] => Eq
  | [], _ :: _ => Lt
  | _ :: _, [] => Gt
  | x :: a', y :: b' =>
      match N.compare x y with
      | Eq => bytes_cmp a' b'
      | c => c
      end
  end.

Definition amap (A : Type) : Type := list (list N * A).

Fixpoint am_get {A} (k : list N) (m : amap A) : option A :=
  match m with
  | [] => None
  | (k', v) :: r => if bytes_eqb k k' then Some v else am_get k r
  end.

(* m[k] = v, keeping the list sorted and duplicate-free *)
Fixpoint am_put {A} (k : list N) (v : A) (m : amap A) : amap A :=
  match m with
  | [] => [(k, v)]
  | (k', v') :: r =>
      match bytes_cmp k k' with
      | Lt => (k, v) :: m
      | Eq => (k, v) :: r
      | Gt => (k', v') :: am_put k v r
      end
  end.

(* delete(m, k) *)
Fixpoint am_del {A} (k : list N) (m : amap A) : amap A :=
  match m with
  | [] => []
  | (k', v') :: r => if bytes_eqb k k' then am_del k r else (k', v') :: am_del k r
  end.

Definition am_has {A} (k : list N) (m : amap A) : bool :=
  match am_get k m with Some _ => true | None => false end.

(* ---------- tracers (trie/tracer.go) ---------- *)
Record tracer : Type := mkTracer {
  tr_ins : amap unit;          (* opTracer.inserts *)
  tr_del : amap unit;          (* opTracer.deletes *)
  tr_pv  : amap (list N)       (* PrevalueTracer.data *)
}.
Definition tr_empty : tracer := mkTracer [] [] [].

(* opTracer.onInsert *)
Definition on_insert (p : list N) (t : tracer) : tracer :=
  if am_has p (tr_del t) then mkTracer (tr_ins t) (am_del p (tr_del t)) (tr_pv t)
  else mkTracer (am_put p tt (tr_ins t)) (tr_del t) (tr_pv t).

(* opTracer.onDelete *)
Definition on_delete (p : list N) (t : tracer) : tracer :=
  if am_has p (tr_ins t) then mkTracer (am_del p (tr_ins t)) (tr_del t) (tr_pv t)
  else mkTracer (tr_ins t) (am_put p tt (tr_del t)) (tr_pv t).

(* PrevalueTracer.Put *)
Definition pv_put (p blob : list N) (t : tracer) : tracer :=
  mkTracer (tr_ins t) (tr_del t) (am_put p blob (tr_pv t)).

(* PrevalueTracer.Get: nil when absent *)
Definition pv_get (p : list N) (t : tracer) : list N :=
  match am_get p (tr_pv t) with Some b => b | None => [] end.

Definition trace_ev (t : tracer) (e : tev) : tracer :=
  match e with
  | TIns p => on_insert p t
  | TDel p => on_delete p t
  | TRes p b => pv_put p b t
  end.
Definition trace_evs (t : tracer) (evs : list tev) : tracer := fold_left trace_ev evs t.

(* Trie.deletedNodes: opTracer.deletedList filtered by PrevalueTracer.HasList *)
Definition deleted_nodes (t : tracer) : list (list N) :=
  map fst (filter (fun pu => am_has (fst pu) (tr_pv t)) (tr_del t)).

(* ---------- node sets (trie/trienode/node.go) ---------- *)
Inductive nentry : Type :=
| Upd (hash blob prev : list N)    (* NewNodeWithPrev(hash, blob, prev); prev = [] : did not exist *)
| Del (prev : list N).             (* NewDeletedWithPrev(prev) *)

Definition nodeset : Type := amap nentry.      (* NodeSet.Nodes + NodeSet.Origins, keyed by path *)

(* ---------- node stores ---------- *)
Inductive scheme : Type := HashScheme | PathScheme.
Definition store : Type := amap (list N).      (* hash -> blob, or path -> blob *)

Section Commit.
  Variable H : list N -> list N.

  (* reader.Node(path, hash) + decodeNodeUnsafe (resolveAndTrack).  The path
     database returns the blob stored at the path and rejects it when its hash
     differs from the requested one; the hash database looks the hash up.  Any
     failure (missing, mismatch, undecodable) is None. *)
  Definition resolve_of (sc : scheme) (s : store) (h p : list N) : option (node * list N) :=
    let ob := match sc with
              | HashScheme => am_get h s
              | PathScheme =>
                  match am_get p s with
                  | Some b => if bytes_eqb (H b) h then Some b else None
                  | None => None
                  end
              end in
    match ob with
    | Some blob =>
        match decode_node blob with
        | DOk n => Some (n, blob)
        | DErr _ => None
        end
    | None => None
    end.

  (* ---------- one trie session ---------- *)
  Record sess : Type := mkSess {
    s_root : node;
    s_tr : tracer;
    s_dkeys : list (list N);     (* hex keys of the operations that returned dirty = true *)
    s_dins : list (list N)       (* every path announced by onInsert so far *)
  }.

  Definition ins_paths (evs : list tev) : list (list N) :=
    flat_map (fun e => match e with TIns p => [p] | _ => [] end) evs.

  (* trie.New: empty root -> nil; else resolveAndTrack(root, nil) *)
  Definition open_trie (sc : scheme) (s : store) (root : list N) : tres sess :=
    if bytes_eqb root (H empty_root_preimage) then TOk (mkSess NEmpty tr_empty [] [])
    else match resolve_of sc s root [] with
         | None => TErr EMissing
         | Some (n, blob) => TOk (mkSess n (pv_put [] blob tr_empty) [] [])
         end.

  (* Trie.Update / Trie.Delete (trie.go:update), keeping the dirty result *)
  Definition sess_update (sc : scheme) (s : store) (ss : sess) (key value : list N) : tres sess :=
    let k := keybytes_to_hex key in
    let r := match value with
             | [] => delete (resolve_of sc s) (ops_fuel k) (s_root ss) [] k
             | _ => insert (resolve_of sc s) (ops_fuel k) (s_root ss) [] k (NValue value)
             end in
    match r with
    | TErr e => TErr e
    | TOk (d, n, ev) =>
        TOk (mkSess n (trace_evs (s_tr ss) ev)
                    (if d then k :: s_dkeys ss else s_dkeys ss)
                    (ins_paths ev ++ s_dins ss))
    end.

  (* Trie.Get: the root is replaced by the copy holding the resolved nodes *)
  Definition sess_get (sc : scheme) (s : store) (ss : sess) (key : list N)
    : tres (option (list N) * sess) :=
    match trie_get (resolve_of sc s) (s_root ss) key with
    | TErr e => TErr e
    | TOk (v, n, did, ev) =>
        TOk (v, mkSess (if did then n else s_root ss) (trace_evs (s_tr ss) ev)
                       (s_dkeys ss) (s_dins ss))
    end.

  (* nodeFlag.dirty of the short/full node at [path] (see the header) *)
  Definition dirty_at (ss : sess) (path : list N) : bool :=
    existsb (is_prefix_of path) (s_dkeys ss) || existsb (bytes_eqb path) (s_dins ss).

  (* after Trie.Hash(): flags.hash != nil for a dirty node iff it was hashed with
     force (the root) or its encoding has >= 32 bytes *)
  Definition hashedb (force : bool) (enc : list N) : bool :=
    force || Nat.leb 32 (length enc).

  (* reader.Node(path, hash): the raw blob, not decoded *)
  Definition read_blob (sc : scheme) (s : store) (h p : list N) : option (list N) :=
    match sc with
    | HashScheme => am_get h s
    | PathScheme =>
        match am_get p s with
        | Some b => if bytes_eqb (H b) h then Some b else None
        | None => None
        end
    end.

  (* result of Trie.GetNode: nil item / the blob / an error *)
  Inductive gres : Type := GNone | GItem (b : list N) | GErr.
  Definition gres_ok (g : gres) : bool := match g with GErr => false | _ => true end.

  (* trie.go:getNode — returns (item, newnode, resolved > 0, events).  [done] is
     path[:pos], [rest] is path[pos:].  Hash nodes on the way are resolved with
     resolveAndTrack (TRes events) and stay in the returned node; at the target
     the blob is read with the cached hash of the node: hash nodes and clean
     hashed nodes have one, dirty and embedded nodes do not ("non-consensus
     node"; Trie.Hash is not called inside a session). *)
  Fixpoint getnode (fuel : nat) (sc : scheme) (s : store) (dirty : list N -> bool)
           (n : node) (done rest : list N) : gres * node * bool * list tev :=
    match fuel with
    | O => (GErr, n, false, [])
    | S f =>
        match n with
        | NEmpty => (GNone, NEmpty, false, [])
        | _ =>
            match rest with
            | [] =>
                let oh :=
                  match n with
                  | NHash h => Some h
                  | NShort _ _ | NFull _ =>
                      if dirty done then None
                      else match node_enc H n with
                           | Some e => if hashedb (match done with [] => true | _ => false end) e
                                       then Some (H e) else None
                           | None => None
                           end
                  | _ => None
                  end in
                match oh with
                | None => (GErr, n, false, [])
                | Some h =>
                    match read_blob sc s h done with
                    | Some b => (GItem b, n, true, [])
                    | None => (GErr, n, true, [])
                    end
                end
            | r0 :: rr =>
                match n with
                | NValue _ => (GNone, NEmpty, false, [])
                | NShort k c =>
                    if negb (is_prefix_of k rest) then (GNone, n, false, [])
                    else
                      let '(g, c', res, ev) := getnode f sc s dirty c (done ++ k) (skipn (length k) rest) in
                      (g, (if gres_ok g && res then NShort k c' else n), res, ev)
                | NFull cs =>
                    match child cs r0 with
                    | None => (GErr, n, false, [])
                    | Some c =>
                        let '(g, c', res, ev) := getnode f sc s dirty c (done ++ [r0]) rr in
                        if gres_ok g && res then
                          match set_child cs r0 c' with
                          | Some cs' => (g, NFull cs', res, ev)
                          | None => (GErr, n, false, ev)
                          end
                        else (g, n, res, ev)
                    end
                | NHash h =>
                    match resolve_of sc s h done with
                    | None => (GErr, n, true, [])
                    | Some (rn, blob) =>
                        let '(g, n', _, ev) := getnode f sc s dirty rn done rest in
                        (g, n', true, TRes done blob :: ev)
                    end
                | NEmpty => (GNone, NEmpty, false, [])
                end
            end
        end
    end.

  (* Trie.GetNode(path): the root is replaced when something was resolved and no
     error occurred; pre-values recorded on the way stay in any case *)
  Definition sess_getnode_with (gn : gres * node * bool * list tev) (ss : sess) : gres * sess :=
    let '(g, n, res, ev) := gn in
    (g, mkSess (if gres_ok g && res then n else s_root ss) (trace_evs (s_tr ss) ev)
               (s_dkeys ss) (s_dins ss)).

  Definition sess_getnode (sc : scheme) (s : store) (ss : sess) (path : list N) : gres * sess :=
    sess_getnode_with (getnode (2 * length path + 4) sc s (dirty_at ss) (s_root ss) [] path) ss.

  (* committer.store *)
  Definition store_node (tr : tracer) (force : bool) (path : list N) (n : node) (ns : nodeset)
    : option (node * nodeset) :=
    match node_enc H n with
    | None => None                                   (* the hasher would have panicked *)
    | Some e =>
        if hashedb force e then
          let h := H e in
          Some (NHash h, am_put path (Upd h e (pv_get path tr)) ns)
        else
          match pv_get path tr with
          | [] => Some (n, ns)
          | origin => Some (n, am_put path (Del origin) ns)
          end
    end.

  (* committer.commitChildren: children 0..15 that are neither nil nor hashNode are
     committed recursively ([rec]); child 16 is left alone.  The parallel variant
     merges disjoint child sets: the same set. *)
  Fixpoint commit_children (rec : list N -> node -> nodeset -> option (node * nodeset))
           (path : list N) (i : N) (l : list node) (ns : nodeset)
    : option (list node * nodeset) :=
    match l with
    | [] => Some ([], ns)
    | c :: r =>
        let rc :=
          if N.eqb i 16 then Some (c, ns)
          else match c with
               | NEmpty | NHash _ => Some (c, ns)
               | _ => rec (path ++ [i]) c ns
               end in
        match rc with
        | None => None
        | Some (c', ns') =>
            match commit_children rec path (i + 1) r ns' with
            | None => None
            | Some (r', ns'') => Some (c' :: r', ns'')
            end
        end
    end.

  (* hash, dirty := n.cache(); hash != nil && !dirty: the cached hash *)
  Definition clean_hashed (dirty : list N -> bool) (force : bool) (path : list N) (n : node)
    : option (list N) :=
    match n with
    | NShort _ _ | NFull _ =>
        if dirty path then None
        else match node_enc H n with
             | Some e => if hashedb force e then Some (H e) else None
             | None => None
             end
    | _ => None
    end.

  (* committer.commit.  [dirty] = nodeFlag.dirty by path; [force] = this is the
     root (hashed by Trie.Hash with force).  None = panic.  fuel = nesting depth. *)
  Fixpoint commit_node (fuel : nat) (dirty : list N -> bool) (tr : tracer) (force : bool)
           (path : list N) (n : node) (ns : nodeset) : option (node * nodeset) :=
    match fuel with
    | O => None
    | S f =>
        match clean_hashed dirty force path n with
        | Some h => Some (NHash h, ns)
        | None =>
            match n with
            | NShort k c =>
                (* only a fullNode child is committed; otherwise it can only be
                   hashNode or valueNode *)
                let rc := match c with
                          | NFull _ => commit_node f dirty tr false (path ++ k) c ns
                          | _ => Some (c, ns)
                          end in
                match rc with
                | None => None
                | Some (c', ns') => store_node tr force path (NShort k c') ns'
                end
            | NFull cs =>
                match commit_children (commit_node f dirty tr false) path 0 cs ns with
                | None => None
                | Some (cs', ns') => store_node tr force path (NFull cs') ns'
                end
            | NHash _ => Some (n, ns)
            | _ => None                               (* nil, valuenode shouldn't be committed *)
            end
        end
    end.

  Definition commit_fuel : nat := 140.    (* > 2 * (64 + 1) + 2: longest hex key is 65 *)

  Definition add_deletions (tr : tracer) (ns : nodeset) : nodeset :=
    fold_left (fun ns p => am_put p (Del (pv_get p tr)) ns) (deleted_nodes tr) ns.

  (* Trie.Commit: (root hash, nil | node set).  None = panic *)
  Definition commit (ss : sess) : option (list N * option nodeset) :=
    match s_root ss with
    | NEmpty =>
        match deleted_nodes (s_tr ss) with
        | [] => Some (H empty_root_preimage, None)                    (* case (a) *)
        | _ => Some (H empty_root_preimage, Some (add_deletions (s_tr ss) []))   (* case (b) *)
        end
    | root =>
        match hash_root H root with
        | None => None
        | Some rh =>
            (* hashedNode, dirty := t.root.cache(); !dirty => nothing to commit *)
            let root_dirty :=
              match root with
              | NShort _ _ | NFull _ => dirty_at ss []
              | _ => true                              (* hashNode/valueNode.cache() = (nil, true) *)
              end in
            if negb root_dirty then Some (rh, None)
            else
              match commit_node commit_fuel (dirty_at ss) (s_tr ss) true [] root
                                (add_deletions (s_tr ss) []) with
              | Some (NHash _, ns) => Some (rh, Some ns)
              | _ => None                              (* .(hashNode) assertion *)
              end
        end
    end.

  (* applying a node set to a store: pathdb writes/deletes by path; hashdb
     inserts by hash and ignores deletions *)
  Definition apply_nodeset (sc : scheme) (ns : nodeset) (s : store) : store :=
    fold_left
      (fun s pe =>
         match sc, snd pe with
         | PathScheme, Upd _ blob _ => am_put (fst pe) blob s
         | PathScheme, Del _ => am_del (fst pe) s
         | HashScheme, Upd h blob _ => am_put h blob s
         | HashScheme, Del _ => s
         end) ns s.

End Commit.
