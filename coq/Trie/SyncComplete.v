(* Trie/SyncComplete.v — the structural invariant of the scheduler (HASH scheme) and
   completeness: when nothing is pending, Commit leaves every node and code of the
   target in the store. *)
From Coq Require Import ZArith Lia.
From GV Require Import Lib.Tactics Lib.Bytes Trie.Node Trie.Hash Storage.KV Storage.KVProofs Trie.Sync Trie.SyncProofs Trie.SyncInv.
Local Open Scope N_scope.

(* ---------- counting the pending children of a request ---------- *)
Definition is_par (p : list N) (r : nreq) : bool :=
  match nr_parent r with Some q => beq q p | None => false end.
Definition cntn (p : list N) (m : amap nreq) : nat :=
  length (filter (fun kv => is_par p (snd kv)) m).
Fixpoint occ (p : list N) (l : list (list N)) : nat :=
  match l with [] => O | q :: r => ((if beq q p then 1 else 0) + occ p r)%nat end.
Fixpoint cntc (p : list N) (m : amap creq) : nat :=
  match m with [] => O | (_, c) :: r => (occ p (cr_parents c) + cntc p r)%nat end.

Lemma occ_app p a b : occ p (a ++ b) = (occ p a + occ p b)%nat.
Proof. induction a; simpl; lia. Qed.
Lemma occ_zero_notin p l : occ p l = O -> ~ In p l.
Proof.
  induction l as [|q r IH]; simpl; intros E; [tauto|].
  destruct (beq q p) eqn:Eq; [discriminate|]. intros [->|X]; [rewrite beq_refl in Eq; discriminate|].
  apply IH; [lia|exact X].
Qed.

Lemma cntn_cons p k v (m : amap nreq) :
  cntn p ((k, v) :: m) = ((if is_par p v then 1 else 0) + cntn p m)%nat.
Proof. unfold cntn. simpl. destruct (is_par p v); reflexivity. Qed.

Lemma adel_cons {V} k k0 (v : V) m :
  adel k ((k0, v) :: m) = if beq k k0 then adel k m else (k0, v) :: adel k m.
Proof. unfold adel. simpl. destruct (beq k k0); reflexivity. Qed.

Lemma cntn_adel_le p k (m : amap nreq) : (cntn p (adel k m) <= cntn p m)%nat.
Proof.
  induction m as [|[k0 v] m IH]; [apply le_n|].
  rewrite adel_cons. destruct (beq k k0); rewrite ?cntn_cons; lia.
Qed.
Lemma cntn_adel_found p k (m : amap nreq) v :
  aget k m = Some v -> (cntn p (adel k m) + (if is_par p v then 1 else 0) <= cntn p m)%nat.
Proof.
  induction m as [|[k0 v0] m IH]; cbn [aget]; [discriminate|].
  rewrite adel_cons. destruct (beq k k0) eqn:E.
  - intros X; inversion X; subst. rewrite cntn_cons. pose proof (cntn_adel_le p k m). lia.
  - intros X. specialize (IH X). rewrite !cntn_cons. lia.
Qed.
Lemma cntn_aput_le p k v (m : amap nreq) :
  (cntn p (aput k v m) <= cntn p m + (if is_par p v then 1 else 0))%nat.
Proof. unfold aput. rewrite cntn_cons. pose proof (cntn_adel_le p k m). lia. Qed.
(* in-place update keeping the parent *)
Lemma cntn_aput_same p k v v' (m : amap nreq) :
  aget k m = Some v -> nr_parent v' = nr_parent v -> (cntn p (aput k v' m) <= cntn p m)%nat.
Proof.
  intros E Hp. unfold aput. rewrite cntn_cons. pose proof (cntn_adel_found p k m v E) as L.
  unfold is_par in *. rewrite Hp. lia.
Qed.
Lemma cntn_zero p (m : amap nreq) k v :
  cntn p m = O -> aget k m = Some v -> nr_parent v <> Some p.
Proof.
  induction m as [|[k0 v0] m IH]; simpl; [discriminate|]. rewrite cntn_cons.
  destruct (beq k k0).
  - intros Z X; inversion X; subst. unfold is_par in Z. intros Hp. rewrite Hp, beq_refl in Z. lia.
  - intros Z X. apply IH; [lia|exact X].
Qed.

Lemma cntc_cons p k c (m : amap creq) : cntc p ((k, c) :: m) = (occ p (cr_parents c) + cntc p m)%nat.
Proof. reflexivity. Qed.
Lemma cntc_adel_le p k (m : amap creq) : (cntc p (adel k m) <= cntc p m)%nat.
Proof.
  induction m as [|[k0 v] m IH]; [apply le_n|].
  rewrite adel_cons. destruct (beq k k0); rewrite ?cntc_cons; lia.
Qed.
Lemma cntc_adel_found p k (m : amap creq) c :
  aget k m = Some c -> (cntc p (adel k m) + occ p (cr_parents c) <= cntc p m)%nat.
Proof.
  induction m as [|[k0 v0] m IH]; cbn [aget]; [discriminate|].
  rewrite adel_cons. destruct (beq k k0) eqn:E.
  - intros X; inversion X; subst. rewrite cntc_cons. pose proof (cntc_adel_le p k m). lia.
  - intros X. specialize (IH X). rewrite !cntc_cons. lia.
Qed.
Lemma cntc_zero p (m : amap creq) k c :
  cntc p m = O -> aget k m = Some c -> ~ In p (cr_parents c).
Proof.
  induction m as [|[k0 v0] m IH]; simpl; [discriminate|].
  destruct (beq k k0).
  - intros Z X; inversion X; subst. apply occ_zero_notin. lia.
  - intros Z X. apply IH; [lia|exact X].
Qed.

Lemma aget_In {V} k (m : amap V) v : aget k m = Some v -> In (k, v) m.
Proof.
  induction m as [|[k0 v0] m IH]; simpl; [discriminate|].
  destruct (beq k k0) eqn:E; [|auto]. apply beq_eq in E. subst. intros X; inversion X; auto.
Qed.
Lemma In_adel {V} x k (m : amap V) : In x (adel k m) -> In x m /\ fst x <> k.
Proof.
  unfold adel. rewrite filter_In. intros [A B]. split; [exact A|].
  intros E. subst k. rewrite beq_refl in B. discriminate.
Qed.
Lemma In_adel_keep {V} x k (m : amap V) : In x m -> fst x <> k -> In x (adel k m).
Proof.
  unfold adel. rewrite filter_In. intros A B. split; [exact A|].
  destruct (beq k (fst x)) eqn:E; [|reflexivity]. apply beq_eq in E. congruence.
Qed.
Lemma In_aput {V} x k v (m : amap V) : In x (aput k v m) -> x = (k, v) \/ (In x m /\ fst x <> k).
Proof. unfold aput. intros [E|E]; [auto|right; apply In_adel; exact E]. Qed.
Lemma cntn_zero_of p (m : amap nreq) :
  (forall k rc, In (k, rc) m -> nr_parent rc <> Some p) -> cntn p m = O.
Proof.
  induction m as [|[k0 v0] m IH]; intros Hn; [reflexivity|]. rewrite cntn_cons.
  rewrite IH by (intros; eapply Hn; right; eauto).
  assert (nr_parent v0 <> Some p) by (eapply Hn; left; reflexivity).
  unfold is_par. destruct (nr_parent v0) as [q|]; [|reflexivity].
  destruct (beq q p) eqn:E; [|reflexivity]. apply beq_eq in E. congruence.
Qed.
Lemma cntn_zero_In p (m : amap nreq) k rc :
  cntn p m = O -> In (k, rc) m -> nr_parent rc <> Some p.
Proof.
  induction m as [|[k0 v0] m IH]; [intros _ []|]. rewrite cntn_cons. intros Z [X|X].
  - inversion X; subst. unfold is_par in Z. intros Hp. rewrite Hp, beq_refl in Z. lia.
  - apply IH; [lia|exact X].
Qed.
Lemma occ_zero_of p l : ~ In p l -> occ p l = O.
Proof.
  induction l as [|q r IH]; simpl; intros Hn; [reflexivity|].
  destruct (beq q p) eqn:E; [apply beq_eq in E; subst; tauto|]. apply IH. tauto.
Qed.
Lemma cntc_zero_of p (m : amap creq) :
  (forall h c, In (h, c) m -> ~ In p (cr_parents c)) -> cntc p m = O.
Proof.
  induction m as [|[k0 v0] m IH]; intros Hn; [reflexivity|]. rewrite cntc_cons.
  rewrite IH by (intros; eapply Hn; right; eauto).
  rewrite occ_zero_of; [reflexivity|]. eapply Hn. left. reflexivity.
Qed.
Lemma cntc_zero_In p (m : amap creq) h c :
  cntc p m = O -> In (h, c) m -> ~ In p (cr_parents c).
Proof.
  induction m as [|[k0 v0] m IH]; [intros _ []|]. rewrite cntc_cons. intros Z [X|X].
  - inversion X; subst. apply occ_zero_notin. lia.
  - apply IH; [lia|exact X].
Qed.

(* ---------- child_list ---------- *)
Lemma full_children_snd p p' : forall cs i,
  map snd (full_children p i cs) = map snd (full_children p' i cs).
Proof.
  induction cs as [|c r IH]; intros i; simpl; [reflexivity|].
  destruct c; simpl; rewrite ?IH; reflexivity.
Qed.
Lemma child_list_snd p p' n cl cl' :
  child_list p n = Some cl -> child_list p' n = Some cl' -> map snd cl = map snd cl'.
Proof.
  destruct n; simpl; try discriminate; intros X Y; inversion X; inversion Y; subst.
  - reflexivity.
  - apply full_children_snd.
Qed.
Lemma full_children_in p : forall cs i q c,
  In (q, c) (full_children p i cs) -> exists j, q = p ++ [j] /\ i <= j.
Proof.
  induction cs as [|c0 r IH]; intros i q c; simpl; [tauto|].
  assert (Hr : In (q, c) (full_children p (i + 1) r) -> exists j, q = p ++ [j] /\ i <= j).
  { intros X. destruct (IH _ _ _ X) as (j & -> & L). exists j. split; [reflexivity|lia]. }
  destruct c0; try exact Hr; (intros [X|X]; [inversion X; subst; exists i; split; [reflexivity|lia]|exact (Hr X)]).
Qed.
Lemma full_children_nodup p : forall cs i, NoDup (map fst (full_children p i cs)).
Proof.
  induction cs as [|c0 r IH]; intros i; simpl; [constructor|].
  assert (Hn : ~ In (p ++ [i]) (map fst (full_children p (i + 1) r))).
  { intros X. apply in_map_iff in X. destruct X as ([q c] & E & X). simpl in E. subst q.
    destruct (full_children_in _ _ _ _ _ X) as (j & E & L).
    apply app_inv_head in E. inversion E. lia. }
  destruct c0; try apply IH; (simpl; constructor; [exact Hn|apply IH]).
Qed.
Lemma child_list_nodup p n cl : child_list p n = Some cl -> NoDup (map fst cl).
Proof.
  destruct n; simpl; try discriminate; intros X; inversion X; subst.
  - simpl. constructor; [tauto|constructor].
  - apply full_children_nodup.
Qed.

Lemma decode_nonempty b n : decode_node b = DOk n -> b <> [].
Proof. intros E X. subst. discriminate. Qed.

Section Complete.
  Variable H : list N -> list N.
  Variable T CD : list N -> option (list N).
  Variable root : list N.
  Variable cb0 : cbkind.
  Variable db0 : kv.
  Notation RN := (RN H T root cb0).
  Notation RC := (RC H T root cb0).
  Notation sound := (sound H T CD root cb0 db0).

  (* availability of a node / a code in membatch ∪ store *)
  Definition availn (s : sync) (h : list N) : Prop :=
    has h (sc_db s) = true \/ exists o p b, In (OpWrite o p b h) (mb_nodes s) /\ b <> [].
  Definition availc (s : sync) (h : list N) : Prop :=
    has (code_key h) (sc_db s) = true \/ has h (mb_codes s) = true.

  Definition pend_node (s : sync) (p cp ch : list N) : Prop :=
    exists rc, aget cp (nreqs s) = Some rc /\ nr_hash rc = ch /\ nr_parent rc = Some p.
  Definition pend_code (s : sync) (p h : list N) : Prop :=
    exists c, aget h (creqs s) = Some c /\ In p (cr_parents c).

  (* a child of a delivered request is available or pending under that request *)
  Definition kid_ok (s : sync) (p : list N) (cb : cbkind) (cp : list N) (cn : node) : Prop :=
    match cn with
    | NHash ch => availn s ch \/ pend_node s p cp ch
    | NValue v =>
        cb = CbAccount -> forall sroot chash, dec_account v = Some (sroot, chash) ->
          (sroot = empty_root H \/ availn s sroot \/ pend_node s p cp sroot) /\
          (bytes_to_hash chash = empty_code H \/ availc s (bytes_to_hash chash) \/
           pend_code s p (bytes_to_hash chash))
    | _ => True
    end.
  Definition kid_avail (s : sync) (cb : cbkind) (cn : node) : Prop :=
    match cn with
    | NHash ch => availn s ch
    | NValue v =>
        cb = CbAccount -> forall sroot chash, dec_account v = Some (sroot, chash) ->
          (sroot = empty_root H \/ availn s sroot) /\
          (bytes_to_hash chash = empty_code H \/ availc s (bytes_to_hash chash))
    | _ => True
    end.

  (* L(q): every child of the delivered request q is available or pending under q *)
  Definition Lq (s : sync) (q : list N) : Prop :=
    forall r b n cl, aget q (nreqs s) = Some r -> nr_data r = Some b -> decode_node b = DOk n ->
      child_list q n = Some cl -> forall cp cn, In (cp, cn) cl -> kid_ok s q (nr_cb r) cp cn.

  Definition has_data (s : sync) (q : list N) : Prop :=
    exists rq d, aget q (nreqs s) = Some rq /\ nr_data rq = Some d.

  (* [e] = the request whose children are being gathered (None between operations) *)
  Record invE (e : option (list N)) (s : sync) : Prop := {
    iv_sc : sc_path s = false;
    iv_nd : forall p r b, aget p (nreqs s) = Some r -> nr_data r = Some b -> b <> [];
    iv_ne : forall o p b h, In (OpWrite o p b h) (mb_nodes s) -> b <> [];
    iv_z : forall p r, aget p (nreqs s) = Some r -> nr_data r = None -> (nr_deps r <= 0)%Z;
    (* every request's parent is pending and delivered (hence, inductively, all ancestors) *)
    iv_par : forall k rc q, In (k, rc) (nreqs s) -> nr_parent rc = Some q -> has_data s q;
    iv_cpar : forall h c q, In (h, c) (creqs s) -> In q (cr_parents c) -> has_data s q;
    iv_L : forall q, Some q <> e -> Lq s q;
    (* closure: an available target node has all its children available *)
    iv_C : forall p h cb b n cl, RN p h cb -> availn s h -> T h = Some b -> decode_node b = DOk n ->
      child_list p n = Some cl -> forall cp cn, In (cp, cn) cl -> kid_avail s cb cn;
    iv_Rt : root = empty_root H \/ availn s root \/
            exists r, aget [] (nreqs s) = Some r /\ nr_hash r = root }.

  (* deps >= number of pending children (+ slack f) *)
  Definition slack (s : sync) (f : list N -> nat) : Prop :=
    forall q rq, aget q (nreqs s) = Some rq ->
      (Z.of_nat (cntn q (nreqs s) + cntc q (creqs s) + f q) <= nr_deps rq)%Z.
  Definition zero (_ : list N) : nat := O.

  Lemma kid_ok_mono s s' p cb cp cn :
    (forall h, availn s h -> availn s' h) -> (forall h, availc s h -> availc s' h) ->
    (forall ch, pend_node s p cp ch -> availn s' ch \/ pend_node s' p cp ch) ->
    (forall h, pend_code s p h -> availc s' h \/ pend_code s' p h) ->
    kid_ok s p cb cp cn -> kid_ok s' p cb cp cn.
  Proof.
    intros An Ac Pn Pc. destruct cn; simpl; auto.
    - intros K Hcb sroot chash Hd. destruct (K Hcb _ _ Hd) as [K1 K2]. split.
      + destruct K1 as [X|[X|X]]; [auto|auto|]. destruct (Pn _ X); auto.
      + destruct K2 as [X|[X|X]]; [auto|auto|]. destruct (Pc _ X); auto.
    - intros [K|K]; [auto|]. destruct (Pn _ K); auto.
  Qed.

  Lemma kid_avail_mono s s' cb cn :
    (forall h, availn s h -> availn s' h) -> (forall h, availc s h -> availc s' h) ->
    kid_avail s cb cn -> kid_avail s' cb cn.
  Proof.
    intros An Ac. destruct cn; simpl; auto.
    intros K Hcb sroot chash Hd. destruct (K Hcb _ _ Hd) as [K1 K2]. split.
    - destruct K1; auto.
    - destruct K2; auto.
  Qed.

  Definition same_store (s s' : sync) : Prop :=
    sc_path s' = sc_path s /\ sc_db s' = sc_db s /\ mb_nodes s' = mb_nodes s /\ mb_codes s' = mb_codes s.
  Lemma availn_same s s' h : same_store s s' -> (availn s' h <-> availn s h).
  Proof. intros (_ & E1 & E2 & _). unfold availn. rewrite E1, E2. tauto. Qed.
  Lemma availc_same s s' h : same_store s s' -> (availc s' h <-> availc s h).
  Proof. intros (_ & E1 & _ & E3). unfold availc. rewrite E1, E3. tauto. Qed.

  (* in-place update of a request keeping hash, parent, callback and data *)
  Lemma inv_upd e s k r r' :
    invE e s -> aget k (nreqs s) = Some r ->
    nr_hash r' = nr_hash r -> nr_parent r' = nr_parent r -> nr_cb r' = nr_cb r -> nr_data r' = nr_data r ->
    (nr_data r = None -> (nr_deps r' <= 0)%Z) ->
    invE e (set_nreqs s (aput k r' (nreqs s))).
  Proof.
    intros [S0 ND NE Z PA CP L C RT] Hk Hh Hp Hc Hd Hz.
    set (s' := set_nreqs s (aput k r' (nreqs s))).
    assert (SS : same_store s s') by (repeat split).
    assert (HD : forall q, has_data s q -> has_data s' q).
    { intros q (rq & d & E1 & E2). unfold has_data, s'; ssimpl. rewrite aget_aput.
      destruct (beq q k) eqn:Eq; [|eauto]. apply beq_eq in Eq. subst q.
      rewrite Hk in E1. inversion E1; subst rq. exists r', d. split; [reflexivity|congruence]. }
    assert (PN : forall p cp ch, pend_node s p cp ch -> pend_node s' p cp ch).
    { intros p cp ch (rc & E1 & E2 & E3). unfold pend_node, s'; ssimpl. rewrite aget_aput.
      destruct (beq cp k) eqn:Eq; [|eauto]. apply beq_eq in Eq. subst cp.
      rewrite Hk in E1. inversion E1; subst rc. exists r'. repeat split; congruence. }
    constructor; unfold s'; ssimpl; auto.
    - intros p x b. rewrite aget_aput. destruct (beq p k) eqn:Eq; [|apply ND].
      intros X; inversion X; subst x. rewrite Hd. apply (ND _ _ _ Hk).
    - intros p x. rewrite aget_aput. destruct (beq p k) eqn:Eq; [|apply Z].
      intros X; inversion X; subst x. rewrite Hd. exact Hz.
    - intros k1 rc q Hin Hq. apply HD. apply In_aput in Hin. destruct Hin as [X|[X _]].
      + inversion X; subst. rewrite Hp in Hq. eapply PA; [apply aget_In; exact Hk|exact Hq].
      + eapply PA; eauto.
    - intros h c q Hin Hq. apply HD. eapply CP; eauto.
    - intros q Hq. unfold Lq; ssimpl. intros x b n cl. rewrite aget_aput. destruct (beq q k) eqn:Eq.
      + apply beq_eq in Eq. subst q. intros X; inversion X; subst x. rewrite Hd, Hc.
        intros D1 D2 D3 cp cn Hin.
        eapply kid_ok_mono; [| | | |eapply (L k Hq); eauto]; auto; intros; right; auto.
      + intros X D1 D2 D3 cp cn Hin.
        eapply kid_ok_mono; [| | | |eapply (L q Hq); eauto]; auto; intros; right; auto.
    - destruct RT as [?|[?|(x & E1 & E2)]]; auto. right. right. rewrite aget_aput.
      destruct (beq [] k) eqn:Eq; [|eauto]. apply beq_eq in Eq. subst k.
      rewrite Hk in E1. inversion E1; subst x. exists r'. split; [reflexivity|congruence].
  Qed.

  Lemma slack_upd s f k r r' :
    slack s f -> aget k (nreqs s) = Some r -> nr_parent r' = nr_parent r ->
    (Z.of_nat (cntn k (nreqs s) + cntc k (creqs s) + f k) <= nr_deps r')%Z ->
    slack (set_nreqs s (aput k r' (nreqs s))) f.
  Proof.
    intros SL Hk Hp Hd q rq. ssimpl. rewrite aget_aput.
    pose proof (cntn_aput_same q k r r' (nreqs s) Hk Hp) as Le.
    destruct (beq q k) eqn:Eq.
    - apply beq_eq in Eq. subst q. intros X; inversion X; subst rq. lia.
    - intros X. specialize (SL q rq X). lia.
  Qed.

  (* ProcessNode caches the delivered blob: the request becomes the one being expanded *)
  Lemma inv_setdata s k r d :
    invE None s -> aget k (nreqs s) = Some r -> nr_data r = None -> d <> [] ->
    invE (Some k) (set_nreqs s (aput k (mkNreq (nr_hash r) (Some d) (nr_parent r) (nr_deps r) (nr_cb r)) (nreqs s))).
  Proof.
    intros [S0 ND NE Z PA CP L C RT] Hk Hn Hd.
    set (r' := mkNreq (nr_hash r) (Some d) (nr_parent r) (nr_deps r) (nr_cb r)).
    set (s' := set_nreqs s (aput k r' (nreqs s))).
    assert (HD : forall q, has_data s q -> has_data s' q).
    { intros q (rq & d0 & E1 & E2). unfold has_data, s'; ssimpl. rewrite aget_aput.
      destruct (beq q k) eqn:Eq; [|eauto]. exists r', d. split; reflexivity. }
    assert (PN : forall p cp ch, pend_node s p cp ch -> pend_node s' p cp ch).
    { intros p cp ch (rc & E1 & E2 & E3). unfold pend_node, s'; ssimpl. rewrite aget_aput.
      destruct (beq cp k) eqn:Eq; [|eauto]. apply beq_eq in Eq. subst cp.
      rewrite Hk in E1. inversion E1; subst rc. exists r'. repeat split; assumption. }
    constructor; unfold s'; ssimpl; auto.
    - intros p x b. rewrite aget_aput. destruct (beq p k) eqn:Eq; [|apply ND].
      intros X; inversion X; subst x. simpl. intros Y; inversion Y; subst. exact Hd.
    - intros p x. rewrite aget_aput. destruct (beq p k) eqn:Eq; [|apply Z].
      intros X; inversion X; subst x. discriminate.
    - intros k1 rc q Hin Hq. apply HD. apply In_aput in Hin. destruct Hin as [X|[X _]].
      + inversion X; subst. simpl in Hq. eapply PA; [apply aget_In; exact Hk|exact Hq].
      + eapply PA; eauto.
    - intros h c q Hin Hq. apply HD. eapply CP; eauto.
    - intros q Hq. unfold Lq; ssimpl. intros x b n cl. rewrite aget_aput. destruct (beq q k) eqn:Eq.
      + apply beq_eq in Eq. subst q. congruence.
      + intros X D1 D2 D3 cp cn Hin.
        eapply kid_ok_mono; [| | | |eapply (L q); eauto; discriminate]; auto; intros; right; auto.
    - destruct RT as [?|[?|(x & E1 & E2)]]; auto. right. right. rewrite aget_aput.
      destruct (beq [] k) eqn:Eq; [|eauto]. apply beq_eq in Eq. subst k.
      rewrite Hk in E1. inversion E1; subst x. exists r'. split; [reflexivity|exact E2].
  Qed.

  (* scheduling a new request at a path that is not pending, under a delivered parent *)
  Lemma inv_sched e s cp r p :
    invE e s -> aget cp (nreqs s) = None -> nr_data r = None -> nr_deps r = 0%Z ->
    nr_parent r = Some p -> has_data s p ->
    invE e (schedule_node s cp r).
  Proof.
    intros [S0 ND NE Z PA CP L C RT] Hf Hn Hz Hp Hpd. unfold schedule_node.
    set (s' := set_queue (set_nreqs s (aput cp r (nreqs s))) _).
    assert (AG : forall q x, aget q (nreqs s) = Some x -> aget q (nreqs s') = Some x).
    { intros q x E. unfold s'; ssimpl. rewrite aget_aput. destruct (beq q cp) eqn:Eq; [|exact E].
      apply beq_eq in Eq. subst q. congruence. }
    assert (HD : forall q, has_data s q -> has_data s' q).
    { intros q (rq & d0 & E1 & E2). exists rq, d0. split; [apply AG; exact E1|exact E2]. }
    assert (PN : forall p0 cp0 ch, pend_node s p0 cp0 ch -> pend_node s' p0 cp0 ch).
    { intros p0 cp0 ch (rc & E1 & E2 & E3). exists rc. repeat split; auto. }
    constructor; unfold s'; ssimpl; auto.
    - intros q x b. rewrite aget_aput. destruct (beq q cp) eqn:Eq; [|apply ND].
      intros X; inversion X; subst x. congruence.
    - intros q x. rewrite aget_aput. destruct (beq q cp) eqn:Eq; [|apply Z].
      intros X; inversion X; subst x. lia.
    - intros k1 rc q Hin Hq. apply HD. apply In_aput in Hin. destruct Hin as [X|[X _]].
      + inversion X; subst. congruence.
      + eapply PA; eauto.
    - intros h c q Hin Hq. apply HD. eapply CP; eauto.
    - intros q Hq. unfold Lq; ssimpl. intros x b n cl. rewrite aget_aput. destruct (beq q cp) eqn:Eq.
      + intros X; inversion X; subst x. congruence.
      + intros X D1 D2 D3 cp0 cn Hin.
        eapply kid_ok_mono; [| | | |eapply (L q Hq); eauto]; auto; intros; right; auto.
    - destruct RT as [?|[?|(x & E1 & E2)]]; auto. right. right. exists x. split; [|exact E2].
      apply (AG [] x E1).
  Qed.

  Lemma cnt_fresh e s cp : invE e s -> aget cp (nreqs s) = None ->
    cntn cp (nreqs s) = O /\ cntc cp (creqs s) = O.
  Proof.
    intros I Hf. split.
    - apply cntn_zero_of. intros k rc Hin Hp. destruct (iv_par e s I _ _ _ Hin Hp) as (rq & d & E & _). congruence.
    - apply cntc_zero_of. intros h c Hin Hp. destruct (iv_cpar e s I _ _ _ Hin Hp) as (rq & d & E & _). congruence.
  Qed.

  Lemma slack_sched e s f cp r p rp :
    invE e s -> slack s f -> aget cp (nreqs s) = None -> nr_deps r = 0%Z -> nr_parent r = Some p ->
    f cp = O -> aget p (nreqs s) = Some rp ->
    (Z.of_nat (cntn p (nreqs s) + cntc p (creqs s) + f p) + 1 <= nr_deps rp)%Z ->
    slack (schedule_node s cp r) f.
  Proof.
    intros I SL Hf Hz Hp Hfc Hrp Hs1 q rq. unfold schedule_node; ssimpl. rewrite aget_aput.
    pose proof (cntn_aput_le q cp r (nreqs s)) as Le.
    destruct (cnt_fresh e s cp I Hf) as [Z1 Z2].
    destruct (beq q cp) eqn:Eq.
    - apply beq_eq in Eq. subst q. intros X; inversion X; subst rq.
      assert (is_par cp r = false).
      { unfold is_par. rewrite Hp. destruct (beq p cp) eqn:E; [|reflexivity]. apply beq_eq in E. subst. congruence. }
      rewrite H0 in Le. lia.
    - intros X. specialize (SL q rq X). unfold is_par in Le. rewrite Hp in Le.
      destruct (beq p q) eqn:E.
      + apply beq_eq in E. subst q. rewrite Hrp in X. inversion X; subst rq. lia.
      + lia.
  Qed.

  (* the same hash is not both an account-trie node and a storage-trie node *)
  Hypothesis Hkind : forall p h cb p' cb', RN p h cb -> RN p' h cb' -> cb = cb'.

  Lemma child_list_other p p' n cl :
    child_list p n = Some cl -> exists cl', child_list p' n = Some cl' /\ map snd cl' = map snd cl.
  Proof.
    intros E. destruct n; simpl in E; try discriminate.
    - eexists. split; [reflexivity|]. inversion E; subst. reflexivity.
    - eexists. split; [reflexivity|]. inversion E; subst. apply full_children_snd.
  Qed.

  (* commitNodeRequest, first half: the completed request x is written and removed *)
  Lemma inv_remove s x r b f owner inner fe :
    invE None s -> slack s f -> RN x (nr_hash r) (nr_cb r) -> T (nr_hash r) = Some b ->
    aget x (nreqs s) = Some r -> nr_data r = Some b -> (nr_deps r = 0)%Z ->
    let s1 := mb_add_node s owner inner b (nr_hash r) in
    let s2 := set_fetches (set_nreqs s1 (adel x (nreqs s1))) fe in
    invE None s2 /\
    slack s2 (fun q => (f q + match nr_parent r with Some pp => if beq pp q then 1 else 0 | None => 0 end)%nat).
  Proof.
    intros I SL Rx Tx Hx Hd Hz s1 s2.
    pose proof I as [S0 ND NE Z PA CP L C RT].
    assert (Hc0 : cntn x (nreqs s) = O /\ cntc x (creqs s) = O).
    { specialize (SL x r Hx). lia. }
    destruct Hc0 as [Cn Cc].
    assert (AN : forall h, availn s h -> availn s2 h).
    { intros h [A|(o & p & b0 & A & B)]; [left; exact A|right; exists o, p, b0; split; [right; exact A|exact B]]. }
    assert (AC : forall h, availc s h -> availc s2 h) by (intros h A; exact A).
    assert (AX : availn s2 (nr_hash r)).
    { right. exists owner, inner, b. split; [left; reflexivity|eapply ND; eauto]. }
    assert (AG : forall q y, q <> x -> aget q (nreqs s) = Some y -> aget q (nreqs s2) = Some y).
    { intros q y Hq E. unfold s2, s1, mb_add_node; ssimpl. rewrite aget_adel.
      destruct (beq q x) eqn:Eq; [apply beq_eq in Eq; congruence|exact E]. }
    assert (AG' : forall q y, aget q (nreqs s2) = Some y -> q <> x /\ aget q (nreqs s) = Some y).
    { intros q y. unfold s2, s1, mb_add_node; ssimpl. rewrite aget_adel.
      destruct (beq q x) eqn:Eq; [discriminate|]. intros E. split; [|exact E].
      intros ->. rewrite beq_refl in Eq. discriminate. }
    assert (HD : forall q, q <> x -> has_data s q -> has_data s2 q).
    { intros q Hq (rq & d & E1 & E2). exists rq, d. split; [apply AG; assumption|exact E2]. }
    assert (PN : forall p cp ch, pend_node s p cp ch -> availn s2 ch \/ pend_node s2 p cp ch).
    { intros p cp ch (rc & E1 & E2 & E3). destruct (beq cp x) eqn:Eq.
      - apply beq_eq in Eq. subst cp. rewrite Hx in E1. inversion E1; subst rc. left. rewrite <- E2. exact AX.
      - right. exists rc. repeat split; auto. apply AG; [|exact E1]. intros ->. rewrite beq_refl in Eq. discriminate. }
    assert (PC : forall p h, pend_code s p h -> availc s2 h \/ pend_code s2 p h) by (intros p h A; right; exact A).
    split.
    - constructor; unfold s2, s1, mb_add_node; ssimpl; auto.
      + intros p y b0. rewrite aget_adel. destruct (beq p x); [discriminate|]. apply ND.
      + intros o p b0 h [X|X]; [inversion X; subst; eapply ND; eauto|eapply NE; eauto].
      + intros p y. rewrite aget_adel. destruct (beq p x); [discriminate|]. apply Z.
      + intros k rc q Hin Hq. apply In_adel in Hin. destruct Hin as [Hin Hne].
        apply HD; [|eapply PA; eauto]. intros ->. exact (cntn_zero_In _ _ _ _ Cn Hin Hq).
      + intros h c q Hin Hq. apply HD; [|eapply CP; eauto]. intros ->. exact (cntc_zero_In _ _ _ _ Cc Hin Hq).
      + intros q _. unfold Lq. intros y b0 n cl E D1 D2 D3 cp cn Hin.
        change (aget q (nreqs s2) = Some y) in E. destruct (AG' _ _ E) as [Hq E0].
        eapply kid_ok_mono; [exact AN|exact AC|apply PN|apply PC|].
        eapply (L q); eauto; discriminate.
      + (* closure *)
        intros p h cb b0 n cl R1 A1 T1 D1 C1 cp cn Hin.
        change (availn s2 h) in A1.
        assert (Hcase : availn s h \/ h = nr_hash r).
        { destruct A1 as [A|(o & p0 & b1 & [X|X] & B)]; [left; left; exact A| |left; right; eauto].
          inversion X; subst. right. reflexivity. }
        destruct Hcase as [A0| ->].
        * eapply kid_avail_mono; [exact AN|exact AC|]. eapply C; eauto.
        * rewrite Tx in T1. inversion T1; subst b0.
          assert (cb = nr_cb r) by (eapply Hkind; eauto). subst cb.
          destruct (child_list_other p x n cl C1) as (clx & Cx & Ms).
          assert (In cn (map snd clx)) by (rewrite Ms; apply in_map_iff; exists (cp, cn); auto).
          apply in_map_iff in H0. destruct H0 as ([cpx cn'] & E' & Hinx). simpl in E'. subst cn'.
          pose proof (L x ltac:(discriminate) r b n clx Hx Hd D1 Cx cpx cn Hinx) as K.
          destruct cn; simpl in *; auto.
          -- intros Hcb sroot chash Hda. destruct (K Hcb _ _ Hda) as [K1 K2]. split.
             ++ destruct K1 as [?|[?|(rc & E1 & E2 & E3)]]; auto.
                exfalso. exact (cntn_zero_In _ _ _ _ Cn (aget_In _ _ _ E1) E3).
             ++ destruct K2 as [?|[?|(c & E1 & E2)]]; auto.
                exfalso. exact (cntc_zero_In _ _ _ _ Cc (aget_In _ _ _ E1) E2).
          -- destruct K as [?|(rc & E1 & E2 & E3)]; auto.
             exfalso. exact (cntn_zero_In _ _ _ _ Cn (aget_In _ _ _ E1) E3).
      + destruct RT as [?|[?|(y & E1 & E2)]]; auto. destruct (beq [] x) eqn:Eq.
        * apply beq_eq in Eq. subst x. rewrite Hx in E1. inversion E1; subst y. right. left. rewrite <- E2. exact AX.
        * right. right. exists y. split; [|exact E2]. rewrite aget_adel, Eq. exact E1.
    - intros q rq E. change (aget q (nreqs s2) = Some rq) in E. destruct (AG' _ _ E) as [Hq E0].
      specialize (SL q rq E0). unfold s2, s1, mb_add_node; ssimpl.
      pose proof (cntn_adel_found q x (nreqs s) r Hx) as Le. unfold is_par in Le.
      destruct (nr_parent r) as [pp|]; [|lia]. destruct (beq pp q); lia.
  Qed.

  Definition reqT (s : sync) : Prop :=
    forall p r, aget p (nreqs s) = Some r ->
      RN p (nr_hash r) (nr_cb r) /\ (forall b, nr_data r = Some b -> T (nr_hash r) = Some b).
  Lemma sound_reqT s : sound s -> reqT s.
  Proof. intros SO p r E. destruct (so_req _ _ _ _ _ _ s SO _ _ E) as (A & _ & B). auto. Qed.

  (* Sync.commitNodeRequest with its cascade to the parents *)
  Lemma inv_cnr : forall fuel s x f r b,
    invE None s -> slack s f -> reqT s ->
    aget x (nreqs s) = Some r -> nr_data r = Some b -> (nr_deps r = 0)%Z ->
    invE None (fst (commit_node_request fuel s x)) /\
    slack (fst (commit_node_request fuel s x)) f /\
    reqT (fst (commit_node_request fuel s x)).
  Proof.
    induction fuel as [|fu IH]; intros s x f r b I SL RT Hx Hd Hz; [auto|].
    cbn [commit_node_request]. rewrite Hx.
    destruct (resolve_path x) as [[owner inner]|]; [|auto].
    rewrite Hd.
    set (s1 := mb_add_node s owner inner b (nr_hash r)).
    set (s2 := set_fetches _ _).
    destruct (RT _ _ Hx) as [Rx Tx].
    destruct (inv_remove s x r b f owner inner (fadd (Z.of_nat (length x)) (-1) (fetches s1)) I SL Rx (Tx _ Hd) Hx Hd Hz)
      as [I2 SL2]. fold s1 in I2, SL2. fold s2 in I2, SL2.
    assert (RT2 : reqT s2).
    { intros p y. unfold s2, s1, mb_add_node; ssimpl. rewrite aget_adel. destruct (beq p x); [discriminate|]. apply RT. }
    destruct (nr_parent r) as [pp|] eqn:Ep.
    - destruct (aget pp (nreqs s2)) as [rp|] eqn:Epp.
      + set (rp' := mkNreq (nr_hash rp) (nr_data rp) (nr_parent rp) (nr_deps rp - 1) (nr_cb rp)).
        set (s3 := set_nreqs s2 (aput pp rp' (nreqs s2))).
        assert (Hrp : has_data s pp).
        { eapply (iv_par None s I); [apply aget_In; exact Hx|exact Ep]. }
        assert (Hdp : exists dp, nr_data rp = Some dp).
        { destruct Hrp as (rq & d & E1 & E2). revert Epp. unfold s2, s1, mb_add_node; ssimpl. rewrite aget_adel.
          destruct (beq pp x); [discriminate|]. rewrite E1. intros X; inversion X; subst. eauto. }
        destruct Hdp as [dp Hdp].
        assert (I3 : invE None s3).
        { unfold s3. eapply inv_upd; eauto. simpl. congruence. }
        assert (SL3 : slack s3 f).
        { intros q rq. unfold s3; ssimpl. rewrite aget_aput.
          pose proof (cntn_aput_same q pp rp rp' (nreqs s2) Epp eq_refl) as Le.
          destruct (beq q pp) eqn:Eq.
          - apply beq_eq in Eq. subst q. intros X; inversion X; subst rq. unfold rp' in *; cbn [nr_deps].
            specialize (SL2 pp rp Epp). cbn beta in SL2. rewrite beq_refl in SL2. lia.
          - intros X. specialize (SL2 q rq X). cbn beta in SL2.
            destruct (beq pp q) eqn:E2; [apply beq_eq in E2; subst; rewrite beq_refl in Eq; discriminate|]. lia. }
        assert (RT3 : reqT s3).
        { intros p y. unfold s3; ssimpl. rewrite aget_aput. destruct (beq p pp) eqn:Eq; [|apply RT2].
          apply beq_eq in Eq. subst p. intros X; inversion X; subst y. simpl. apply (RT2 _ _ Epp). }
        fold rp'. fold s3.
        destruct (Z.eqb (nr_deps rp - 1) 0) eqn:Ed; [|auto].
        apply Z.eqb_eq in Ed.
        eapply (IH s3 pp f rp' dp); auto.
        unfold s3; ssimpl. rewrite aget_aput, beq_refl. reflexivity.
      + cbn [fst]. split; [exact I2|split; [|exact RT2]].
        intros q rq E. specialize (SL2 q rq E). cbn beta in SL2. destruct (beq pp q); lia.
    - cbn [fst]. split; [exact I2|split; [|exact RT2]].
      intros q rq E. specialize (SL2 q rq E). cbn beta in SL2. lia.
  Qed.

  Definition fp (p : list N) (n : nat) (q : list N) : nat := if beq q p then n else O.

  Lemma slack_sched' e s p n cp r :
    invE e s -> slack s (fp p (S n)) -> aget cp (nreqs s) = None -> has_data s p ->
    nr_deps r = 0%Z -> nr_parent r = Some p ->
    slack (schedule_node s cp r) (fp p n).
  Proof.
    intros I SL Hf (rp & dp & Hrp & _) Hz Hp q rq. unfold schedule_node; ssimpl. rewrite aget_aput.
    pose proof (cntn_aput_le q cp r (nreqs s)) as Le.
    destruct (cnt_fresh e s cp I Hf) as [Z1 Z2].
    assert (Hne : beq cp p = false).
    { destruct (beq cp p) eqn:E; [|reflexivity]. apply beq_eq in E. subst. congruence. }
    destruct (beq q cp) eqn:Eq.
    - apply beq_eq in Eq. subst q. intros X; inversion X; subst rq.
      assert (Hip : is_par cp r = false).
      { unfold is_par. rewrite Hp. rewrite beq_sym. exact Hne. }
      rewrite Hip in Le. unfold fp. rewrite Hne. lia.
    - intros X. specialize (SL q rq X). unfold is_par in Le. rewrite Hp in Le. unfold fp in *.
      rewrite (beq_sym p q) in Le. destruct (beq q p); lia.
  Qed.

  (* the form of the requests gathered by Sync.children for a request without callback *)
  Definition kidreq (p : list N) (cb : cbkind) (s : sync) (cl : list (list N * node)) (x : list N * nreq) : Prop :=
    exists cp h, x = (cp, mkNreq h None (Some p) 0 cb) /\ In (cp, NHash h) cl /\ has h (sc_db s) = false.

  Lemma children_loop_none p hash : forall cl s acc, sc_path s = false ->
    exists acc' rc, children_loop H s p hash CbNone cl acc = (s, acc', rc) /\
      (rc = ROk ->
        (forall cp h, In (cp, NHash h) cl -> has h (sc_db s) = true \/ In (cp, mkNreq h None (Some p) 0 CbNone) acc') /\
        (forall x, In x acc -> In x acc') /\
        (forall x, In x acc' -> In x acc \/ kidreq p CbNone s cl x)).
  Proof.
    induction cl as [|[cpath cn] rest IH]; intros s acc S0; cbn [children_loop].
    - exists acc, ROk. split; [reflexivity|]. intros _. split; [intros ? ? []|split; auto].
    - assert (Hrest : forall acc0, exists acc' rc, children_loop H s p hash CbNone rest acc0 = (s, acc', rc) /\
          (rc = ROk ->
            (forall cp h, In (cp, NHash h) rest -> has h (sc_db s) = true \/ In (cp, mkNreq h None (Some p) 0 CbNone) acc') /\
            (forall x, In x acc0 -> In x acc') /\
            (forall x, In x acc' -> In x acc0 \/ kidreq p CbNone s rest x))) by (intros; apply IH; exact S0).
      assert (Hk : forall x, kidreq p CbNone s rest x -> kidreq p CbNone s ((cpath, cn) :: rest) x).
      { intros x (cp & h & E1 & E2 & E3). exists cp, h. split; [exact E1|split; [right; exact E2|exact E3]]. }
      assert (Hskip : (forall h, cn <> NHash h) ->
        exists acc' rc, children_loop H s p hash CbNone rest acc = (s, acc', rc) /\
        (rc = ROk ->
          (forall cp h, In (cp, NHash h) ((cpath, cn) :: rest) -> has h (sc_db s) = true \/ In (cp, mkNreq h None (Some p) 0 CbNone) acc') /\
          (forall x, In x acc -> In x acc') /\
          (forall x, In x acc' -> In x acc \/ kidreq p CbNone s ((cpath, cn) :: rest) x))).
      { intros Hn. destruct (Hrest acc) as (acc' & rc & E & Sp). exists acc', rc. split; [exact E|].
        intros Hr. destruct (Sp Hr) as (A & B & C). split; [|split; [exact B|]].
        - intros cp h [X|X]; [inversion X; subst; exfalso; eapply Hn; reflexivity|apply A; exact X].
        - intros x Hx. destruct (C x Hx); auto. }
      destruct cn; try (apply Hskip; intros; discriminate).
      destruct (resolve_path cpath) as [[owner inner]|].
      + rewrite (has_node_hash H _ _ _ _ S0).
        destruct (has h (sc_db s)) eqn:Eh.
        * destruct (Hrest acc) as (acc' & rc & E & Sp). exists acc', rc. split; [exact E|].
          intros Hr. destruct (Sp Hr) as (A & B & C). split; [|split; [exact B|]].
          -- intros cp h0 [X|X]; [inversion X; subst; left; exact Eh|apply A; exact X].
          -- intros x Hx. destruct (C x Hx); auto.
        * destruct (Hrest ((cpath, mkNreq h None (Some p) 0 CbNone) :: acc)) as (acc' & rc & E & Sp).
          exists acc', rc. split; [exact E|].
          intros Hr. destruct (Sp Hr) as (A & B & C). split; [|split].
          -- intros cp h0 [X|X]; [inversion X; subst; right; apply B; left; reflexivity|apply A; exact X].
          -- intros x Hx. apply B. right. exact Hx.
          -- intros x Hx. destruct (C x Hx) as [[X|X]|X]; auto.
             right. exists cpath, h. split; [auto|split; [left; reflexivity|exact Eh]].
      + exists acc, RPanic. split; [reflexivity|discriminate].
  Qed.

  Lemma children_loop_none_rc p hash : forall cl s acc,
    snd (children_loop H s p hash CbNone cl acc) = ROk \/ snd (children_loop H s p hash CbNone cl acc) = RPanic.
  Proof.
    induction cl as [|[cpath cn] rest IH]; intros s acc; cbn [children_loop]; [left; reflexivity|].
    destruct cn; try apply IH.
    destruct (resolve_path cpath) as [[owner inner]|]; [|right; reflexivity].
    destruct (has_node H s owner inner h) as [ex inc]. destruct ex; apply IH.
  Qed.

  Lemma inv_close p s : invE (Some p) s -> Lq s p -> invE None s.
  Proof.
    intros [S0 ND NE Z PA CP L C RT] Lp. constructor; auto.
    intros q _. destruct (list_eq_dec N.eq_dec q p) as [->|Hne]; [exact Lp|].
    apply L. congruence.
  Qed.

  Lemma slack_fp0 s p : slack s (fp p 0) -> slack s zero.
  Proof. intros SL q rq E. specialize (SL q rq E). unfold fp, zero in *. destruct (beq q p); lia. Qed.

  Lemma inv_schedule_all p cb cl0 s0 : forall reqs s s',
    invE (Some p) s -> slack s (fp p (length reqs)) -> reqT s -> has_data s p ->
    (forall cp h, In (cp, NHash h) cl0 -> RN cp h cb) ->
    (forall x, In x reqs -> kidreq p cb s0 cl0 x) ->
    schedule_all s reqs = Some s' ->
    invE (Some p) s' /\ slack s' zero /\ reqT s' /\ same_store s s' /\
    (forall cp r, In (cp, r) reqs -> aget cp (nreqs s') = Some r) /\
    (forall q y, aget q (nreqs s) = Some y -> aget q (nreqs s') = Some y).
  Proof.
    induction reqs as [|[cp r] rest IH]; intros s s' I SL RT HD Hrn Hk E; cbn [schedule_all] in E.
    - inversion E; subst. split; [exact I|]. split; [apply (slack_fp0 _ p); exact SL|].
      split; [exact RT|]. split; [repeat split|]. split; [intros ? ? []|auto].
    - destruct (aget cp (nreqs s)) eqn:Ef; [discriminate|].
      destruct (Hk (cp, r) (or_introl eq_refl)) as (cp' & h & X & Hin & Hh). inversion X; subst cp' r.
      set (r := mkNreq h None (Some p) 0 cb) in *.
      assert (AG : forall q y, aget q (nreqs s) = Some y -> aget q (nreqs (schedule_node s cp r)) = Some y).
      { intros q y Eq. unfold schedule_node; ssimpl. rewrite aget_aput. destruct (beq q cp) eqn:Eb; [|exact Eq].
        apply beq_eq in Eb. subst q. congruence. }
      assert (I1 : invE (Some p) (schedule_node s cp r)).
      { apply (inv_sched _ _ _ _ p); [exact I|exact Ef|reflexivity|reflexivity|reflexivity|exact HD]. }
      assert (SL1 : slack (schedule_node s cp r) (fp p (length rest))).
      { eapply slack_sched'; [exact I|exact SL|exact Ef|exact HD|reflexivity|reflexivity]. }
      assert (RT1 : reqT (schedule_node s cp r)).
      { intros q y. unfold schedule_node; ssimpl. rewrite aget_aput. destruct (beq q cp) eqn:Eb; [|apply RT].
        apply beq_eq in Eb. subst q. intros Y; inversion Y; subst y. simpl. split; [apply Hrn; exact Hin|discriminate]. }
      assert (HD1 : has_data (schedule_node s cp r) p).
      { destruct HD as (rq & d & E1 & E2). exists rq, d. split; [apply AG; exact E1|exact E2]. }
      destruct (IH _ _ I1 SL1 RT1 HD1 Hrn (fun x Hx => Hk x (or_intror Hx)) E) as (A & B & C & D & F & G).
      split; [exact A|]. split; [exact B|]. split; [exact C|]. split.
      { destruct D as (D1 & D2 & D3 & D4). repeat split; assumption. }
      split.
      + intros cp1 r1 [Y|Y]; [|apply F; exact Y]. inversion Y; subst. apply G.
        unfold schedule_node; ssimpl. rewrite aget_aput, beq_refl. reflexivity.
      + intros q y Eq. apply G. apply AG. exact Eq.
  Qed.

  (* ================= with the account callback ================= *)
  Lemma cntc_aput_new q h c (m : amap creq) :
    (cntc q (aput h c m) <= cntc q m + occ q (cr_parents c))%nat.
  Proof. unfold aput. rewrite cntc_cons. pose proof (cntc_adel_le q h m). lia. Qed.
  Lemma cntc_aput_old q h old c (m : amap creq) p :
    aget h m = Some old -> cr_parents c = cr_parents old ++ [p] ->
    (cntc q (aput h c m) <= cntc q m + (if beq p q then 1 else 0))%nat.
  Proof.
    intros E Hp. unfold aput. rewrite cntc_cons, Hp, occ_app. pose proof (cntc_adel_found q h m old E).
    simpl. lia.
  Qed.

  (* what the callbacks of the request p being expanded may change *)
  Definition ext (p : list N) (s s' : sync) : Prop :=
    same_store s s' /\
    (forall q cp ch, pend_node s q cp ch -> pend_node s' q cp ch) /\
    (forall q h, pend_code s q h -> pend_code s' q h) /\
    (forall rp, aget p (nreqs s) = Some rp ->
       exists rp', aget p (nreqs s') = Some rp' /\ nr_data rp' = nr_data rp /\
                   nr_hash rp' = nr_hash rp /\ nr_cb rp' = nr_cb rp).
  Lemma ext_refl p s : ext p s s.
  Proof. split; [repeat split|]. split; [auto|]. split; [auto|]. intros rp E. exists rp. auto. Qed.
  Lemma ext_trans p a b c : ext p a b -> ext p b c -> ext p a c.
  Proof.
    intros ((A1 & A2 & A3 & A4) & B1 & C1 & D1) ((A1' & A2' & A3' & A4') & B2 & C2 & D2).
    split; [repeat split; congruence|]. split; [auto|]. split; [auto|].
    intros rp E. destruct (D1 _ E) as (r1 & E1 & X1 & X2 & X3). destruct (D2 _ E1) as (r2 & E2 & Y1 & Y2 & Y3).
    exists r2. repeat split; congruence.
  Qed.

  Lemma inv_sched_code e s h p path :
    invE e s -> has_data s p -> invE e (schedule_code s h (mkCreq path None [p])).
  Proof.
    intros [S0 ND NE Z PA CP L C RT] HD. unfold schedule_code.
    assert (G : forall m' q',
      (forall h' c', In (h', c') m' -> (In (h', c') (creqs s) \/
          (h' = h /\ forall x, In x (cr_parents c') -> x = p \/ exists old, aget h (creqs s) = Some old /\ In x (cr_parents old)))) ->
      (forall q0 h0, pend_code s q0 h0 -> exists c, aget h0 m' = Some c /\ In q0 (cr_parents c)) ->
      invE e (set_queue (set_creqs s m') q')).
    { intros m' q' Hin Hpc. constructor; ssimpl; auto.
      - intros h' c' q Hi Hq. destruct (Hin _ _ Hi) as [X|(-> & X)]; [eapply CP; eauto|].
        destruct (X _ Hq) as [->|(old & E1 & E2)]; [exact HD|]. eapply CP; [apply aget_In; exact E1|exact E2].
      - intros q Hq r b n cl E D1 D2 D3 cp cn Hi.
        eapply kid_ok_mono; [| | | |eapply (L q Hq); eauto]; auto.
        intros h0 P. right. exact (Hpc _ _ P). }
    destruct (aget h (creqs s)) as [old|] eqn:Eo.
    - change (set_creqs s ?m) with (set_queue (set_creqs s m) (queue s)). apply G.
      + intros h' c' Hi. apply In_aput in Hi. destruct Hi as [X|[X _]]; [|auto]. inversion X; subst. right. split; [reflexivity|].
        simpl. intros x Hx. apply in_app_iff in Hx. destruct Hx as [Hx|[Hx|[]]]; [right; eauto|left; auto].
      + intros q0 h0 (c & E1 & E2). rewrite aget_aput. destruct (beq h0 h) eqn:Eq; [|eauto].
        apply beq_eq in Eq. subst h0. rewrite Eo in E1. inversion E1; subst c. eexists. split; [reflexivity|].
        simpl. apply in_app_iff. auto.
    - apply G.
      + intros h' c' Hi. apply In_aput in Hi. destruct Hi as [X|[X _]]; [|auto]. inversion X; subst. right. split; [reflexivity|].
        simpl. intros x [Hx|[]]. auto.
      + intros q0 h0 (c & E1 & E2). rewrite aget_aput. destruct (beq h0 h) eqn:Eq; [|eauto].
        apply beq_eq in Eq. subst h0. congruence.
  Qed.

  Lemma slack_sched_code s h p path n :
    slack s (fp p (S n)) -> slack (schedule_code s h (mkCreq path None [p])) (fp p n).
  Proof.
    intros SL q rq. unfold schedule_code. destruct (aget h (creqs s)) as [old|] eqn:Eo; ssimpl; cbn [cr_parents cr_path cr_data]; intros E.
    - specialize (SL q rq E). pose proof (cntc_aput_old q h old (mkCreq (cr_path old) (cr_data old) (cr_parents old ++ [p])) (creqs s) p Eo eq_refl) as Le.
      unfold fp in *. rewrite (beq_sym p q) in Le. destruct (beq q p); lia.
    - specialize (SL q rq E). pose proof (cntc_aput_new q h (mkCreq path None [p]) (creqs s)) as Le. cbn [cr_parents occ] in Le.
      unfold fp in *. rewrite (beq_sym p q) in Le. destruct (beq q p); lia.
  Qed.

  Lemma ext_sched_code p s h r : ext p s (schedule_code s h r).
  Proof.
    unfold schedule_code. destruct (aget h (creqs s)) as [old|] eqn:Eo.
    - split; [repeat split|]. split; [auto|]. split; [|intros rp E; exists rp; auto].
      intros q h0 (c & E1 & E2). unfold pend_code; ssimpl. rewrite aget_aput. destruct (beq h0 h) eqn:Eq; [|eauto].
      apply beq_eq in Eq. subst h0. rewrite Eo in E1. inversion E1; subst c. eexists. split; [reflexivity|].
      simpl. apply in_app_iff. auto.
    - split; [repeat split|]. split; [auto|]. split; [|intros rp E; exists rp; auto].
      intros q h0 (c & E1 & E2). unfold pend_code; ssimpl. rewrite aget_aput. destruct (beq h0 h) eqn:Eq; [|eauto].
      apply beq_eq in Eq. subst h0. congruence.
  Qed.

  Lemma ext_upd p s k r r' :
    aget k (nreqs s) = Some r -> nr_hash r' = nr_hash r -> nr_parent r' = nr_parent r ->
    nr_cb r' = nr_cb r -> nr_data r' = nr_data r ->
    ext p s (set_nreqs s (aput k r' (nreqs s))).
  Proof.
    intros Hk Hh Hp Hc Hd. split; [repeat split|]. split; [|split; [auto|]].
    - intros q cp ch (rc & E1 & E2 & E3). unfold pend_node; ssimpl. rewrite aget_aput.
      destruct (beq cp k) eqn:Eq; [|eauto]. apply beq_eq in Eq. subst cp.
      rewrite Hk in E1. inversion E1; subst rc. exists r'. repeat split; congruence.
    - intros rp E. ssimpl. rewrite aget_aput. destruct (beq p k) eqn:Eq; [|exists rp; auto].
      apply beq_eq in Eq. subst k. rewrite Hk in E. inversion E; subst rp. exists r'. auto.
  Qed.
  Lemma ext_sched p s cp r : aget cp (nreqs s) = None -> ext p s (schedule_node s cp r).
  Proof.
    intros Hf. unfold schedule_node.
    assert (AG : forall q y, aget q (nreqs s) = Some y -> aget q (aput cp r (nreqs s)) = Some y).
    { intros q y E. rewrite aget_aput. destruct (beq q cp) eqn:Eq; [|exact E]. apply beq_eq in Eq. subst. congruence. }
    split; [repeat split|]. split; [|split; [auto|]].
    - intros q c ch (rc & E1 & E2 & E3). exists rc. split; [ssimpl; apply AG; exact E1|split; assumption].
    - intros rp E. exists rp. ssimpl. split; [apply AG; exact E|auto].
  Qed.

  (* ---- a sync without leaf callback (one trie; e.g. a storage trie) ---- *)
  Hypothesis Hnone : cb0 = CbNone.

  Lemma RN_none p h cb : RN p h cb -> cb = CbNone.
  Proof. induction 1; auto. Qed.

  Lemma inv_process_node_none s path data :
    invE None s -> slack s zero -> reqT s ->
    (forall r, aget path (nreqs s) = Some r -> T (nr_hash r) = Some data) ->
    snd (process_node H s path data) <> RPanic -> snd (process_node H s path data) <> RInternal ->
    invE None (fst (process_node H s path data)) /\ slack (fst (process_node H s path data)) zero /\
    reqT (fst (process_node H s path data)).
  Proof.
    intros I SL RT Hd. unfold process_node.
    destruct (aget path (nreqs s)) as [r|] eqn:Er; [|auto].
    destruct (nr_data r) eqn:Edata; [auto|].
    destruct (decode_node data) as [n|] eqn:Edec; [|auto].
    set (r1 := mkNreq (nr_hash r) (Some data) (nr_parent r) (nr_deps r) (nr_cb r)).
    set (s1 := set_nreqs s (aput path r1 (nreqs s))).
    destruct (RT _ _ Er) as [Rr _].
    assert (Hcb : nr_cb r = CbNone) by (eapply RN_none; eauto).
    assert (I1 : invE (Some path) s1) by (apply inv_setdata; [exact I|exact Er|exact Edata|eapply decode_nonempty; eauto]).
    assert (E1 : aget path (nreqs s1) = Some r1) by (unfold s1; ssimpl; rewrite aget_aput, beq_refl; reflexivity).
    assert (SL1 : slack s1 zero).
    { unfold s1. eapply slack_upd; eauto. specialize (SL _ _ Er). exact SL. }
    assert (RT1 : reqT s1).
    { intros q y. unfold s1; ssimpl. rewrite aget_aput. destruct (beq q path) eqn:Eq; [|apply RT].
      apply beq_eq in Eq. subst q. intros Y; inversion Y; subst y. simpl. split; [exact Rr|].
      intros b Yb; inversion Yb; subst. apply Hd. reflexivity. }
    assert (HD1 : has_data s1 path) by (exists r1, data; split; [exact E1|reflexivity]).
    clearbody s1.
    rewrite Hcb. unfold children.
    destruct (child_list path n) as [cl|] eqn:Ecl; [|simpl; intros X; contradiction X; reflexivity].
    rewrite (iv_sc _ _ I1).
    assert (Es : match n with NShort _ (NHash _) => Some s1 | _ => Some s1 end = Some s1)
      by (destruct n; try reflexivity; destruct n; reflexivity).
    rewrite Es. clear Es.
    destruct (children_loop_none path (nr_hash r) cl s1 [] (iv_sc _ _ I1)) as (reqs & rc & Ecl' & Spec).
    pose proof (children_loop_none_rc path (nr_hash r) cl s1 []) as Hrc. rewrite Ecl' in *. simpl in Hrc.
    destruct Hrc as [-> | ->]; [|simpl; intros X; contradiction X; reflexivity].
    destruct (Spec eq_refl) as (Sp1 & _ & Sp3).
    rewrite E1.
    assert (Hrn : forall cp h, In (cp, NHash h) cl -> RN cp h CbNone).
    { intros cp h Hin. rewrite <- Hcb. eapply RN_child; eauto. }
    (* L(path) once every hash child is available or pending *)
    assert (Lclose : forall s', nreqs s' = nreqs s' -> forall r', aget path (nreqs s') = Some r' ->
              nr_data r' = Some data -> nr_cb r' = CbNone ->
              (forall cp h, In (cp, NHash h) cl -> availn s' h \/ pend_node s' path cp h) -> Lq s' path).
    { intros s' _ r' Er' Dr' Cr' Hk r0 b0 n0 cl0 E0 D0 N0 C0 cp cn Hin.
      rewrite Er' in E0. inversion E0; subst r0. rewrite Dr' in D0. inversion D0; subst b0.
      rewrite Edec in N0. inversion N0; subst n0. rewrite Ecl in C0. inversion C0; subst cl0.
      destruct cn; simpl; auto. rewrite Cr'. discriminate. }
    destruct (Nat.eqb (length reqs) 0 && Z.eqb (nr_deps r1) 0) eqn:Ecase.
    - apply andb_prop in Ecase. destruct Ecase as [El Ez]. apply Nat.eqb_eq in El. apply Z.eqb_eq in Ez.
      destruct reqs; [|discriminate]. intros _ _.
      assert (I1' : invE None s1).
      { eapply inv_close; [exact I1|]. apply (Lclose s1 eq_refl r1 E1 eq_refl Hcb).
        intros cp h Hin. left. destruct (Sp1 _ _ Hin) as [X|[]]. left. exact X. }
      eapply (inv_cnr (cnr_fuel s1) s1 path zero r1 data); auto.
    - set (r3 := mkNreq (nr_hash r1) (nr_data r1) (nr_parent r1) (nr_deps r1 + Z.of_nat (length reqs)) (nr_cb r1)).
      set (s2 := set_nreqs s1 (aput path r3 (nreqs s1))).
      destruct (schedule_all s2 (rev reqs)) as [s3|] eqn:Esa; [|simpl; intros _ X; contradiction X; reflexivity].
      cbn [fst snd]. intros _ _.
      assert (I2 : invE (Some path) s2) by (unfold s2; eapply inv_upd; eauto; simpl; discriminate).
      assert (E2 : aget path (nreqs s2) = Some r3) by (unfold s2; ssimpl; rewrite aget_aput, beq_refl; reflexivity).
      assert (SL2 : slack s2 (fp path (length (rev reqs)))).
      { rewrite rev_length. intros q rq. unfold s2; ssimpl. rewrite aget_aput.
        pose proof (cntn_aput_same q path r1 r3 (nreqs s1) E1 eq_refl) as Le. unfold fp.
        destruct (beq q path) eqn:Eq.
        - apply beq_eq in Eq. subst q. intros Y; inversion Y; subst rq. unfold r3 in *; cbn [nr_deps].
          specialize (SL1 _ _ E1). unfold zero in SL1. lia.
        - intros Y. specialize (SL1 _ _ Y). unfold zero in SL1. lia. }
      assert (RT2 : reqT s2).
      { intros q y. unfold s2; ssimpl. rewrite aget_aput. destruct (beq q path) eqn:Eq; [|apply RT1].
        apply beq_eq in Eq. subst q. intros Y; inversion Y; subst y. apply (RT1 _ _ E1). }
      assert (HD2 : has_data s2 path) by (exists r3, data; split; [exact E2|reflexivity]).
      assert (Hkr : forall x, In x (rev reqs) -> kidreq path CbNone s1 cl x).
      { intros x Hx. apply in_rev in Hx. destruct (Sp3 x Hx) as [[]|X]. exact X. }
      destruct (inv_schedule_all path CbNone cl s1 (rev reqs) s2 s3 I2 SL2 RT2 HD2 Hrn Hkr Esa) as (A & B & C & D & F & G).
      split; [|split; [exact B|exact C]].
      eapply inv_close; [exact A|].
      apply (Lclose s3 eq_refl r3 (G _ _ E2) eq_refl Hcb).
      intros cp h Hin. destruct (Sp1 _ _ Hin) as [X|X].
      + left. left. destruct D as (_ & D2 & _). rewrite D2. exact X.
      + right. exists (mkNreq h None (Some path) 0 CbNone). split; [|split; reflexivity].
        apply F. apply -> in_rev. exact X.
  Qed.

  Lemma missing_go_same mfd : forall q max count s ns cs,
    same6 s (fst (fst (missing_go mfd q max count s ns cs))).
  Proof.
    induction q as [|[p it] rest IH]; intros max count s ns cs; cbn [missing_go]; [repeat split|].
    destruct (negb (max =? 0) && negb (count <? max)); [repeat split|].
    destruct (Z.ltb mfd (fget (prio_depth p) (fetches s))); [repeat split|].
    set (s1 := set_fetches s _).
    assert (S1 : same6 s s1) by (repeat split).
    assert (Tr : forall x, same6 s1 x -> same6 s x).
    { intros x (A1 & A2 & A3 & A4 & A5 & A6). destruct S1 as (B1 & B2 & B3 & B4 & B5 & B6).
      repeat split; congruence. }
    destruct it as [path|h]; [destruct (aget path (nreqs s1))|]; apply Tr; apply IH.
  Qed.

  Lemma inv_same e s s' : same6 s s' -> invE e s -> invE e s'.
  Proof.
    intros (E1 & E2 & E3 & E4 & E5 & E6).
    destruct s, s'; simpl in *; subst.
    intros [S0 ND NE Z PA CP L C RT].
    unfold Lq, kid_ok, kid_avail, availn, availc, pend_node, pend_code, has_data in *; simpl in *.
    constructor; unfold Lq, kid_ok, kid_avail, availn, availc, pend_node, pend_code, has_data; simpl; assumption.
  Qed.
  Lemma slack_same f s s' : same6 s s' -> slack s f -> slack s' f.
  Proof. intros (E1 & E2 & E3 & E4 & E5 & E6) SL q rq. rewrite E3, E4. apply SL. Qed.
  Lemma reqT_same s s' : same6 s s' -> reqT s -> reqT s'.
  Proof. intros (E1 & E2 & E3 & E4 & E5 & E6) RT q rq. rewrite E3. apply RT. Qed.

  (* histories of Missing(k) and node deliveries *)
  Inductive op2 : Type := O2Missing (k : N) | O2Deliver (path h blob : list N).
  Definition step2 (s : sync) (o : op2) : sync :=
    match o with
    | O2Missing k => fst (fst (missing s k))
    | O2Deliver p h b => fst (deliver_node H s p h b)
    end.
  (* a delivery is checked against the hash of the request it answers, a blob passing
     the check is the target's (no collision), and the model did not hit a panic or
     its representation limit *)
  Definition op2_wf (s : sync) (o : op2) : Prop :=
    match o with
    | O2Missing _ => True
    | O2Deliver p h b =>
        (forall r, aget p (nreqs s) = Some r -> h = nr_hash r /\ (H b = h -> T h = Some b)) /\
        snd (deliver_node H s p h b) <> RPanic /\ snd (deliver_node H s p h b) <> RInternal
    end.
  Fixpoint run2_wf (s : sync) (ops : list op2) : Prop :=
    match ops with [] => True | o :: r => op2_wf s o /\ run2_wf (step2 s o) r end.
  Definition run2 (s : sync) (ops : list op2) : sync := fold_left step2 ops s.

  Definition Inv (s : sync) : Prop := invE None s /\ slack s zero /\ reqT s.

  Lemma Inv_step2 s o : op2_wf s o -> Inv s -> Inv (step2 s o).
  Proof.
    intros W (I & SL & RT). destruct o as [k|p h b]; simpl.
    - pose proof (missing_go_same max_fetches_per_depth (queue s) k 0 s [] []) as Sm. unfold Inv, missing, missing_b.
      split; [eapply inv_same; eauto|split; [eapply slack_same; eauto|eapply reqT_same; eauto]].
    - simpl in W. destruct W as (W1 & W2 & W3). unfold deliver_node in *.
      destruct (beq (H b) h) eqn:E; [|cbn [fst]; split; [exact I|split; [exact SL|exact RT]]].
      apply beq_eq in E. unfold Inv. apply inv_process_node_none; auto.
      intros r Hr. destruct (W1 r Hr) as [-> Ht]. apply Ht. exact E.
  Qed.

  Lemma Inv_run2 : forall ops s, run2_wf s ops -> Inv s -> Inv (run2 s ops).
  Proof.
    induction ops as [|o r IH]; intros s W I; simpl; [exact I|].
    destruct W as [W1 W2]. apply IH; [exact W2|]. apply Inv_step2; assumption.
  Qed.

  (* ---- completeness ---- *)
  Lemma all_avail s : invE None s -> nreqs s = [] -> forall p h cb, RN p h cb -> availn s h.
  Proof.
    intros I En p h cb R. induction R.
    - destruct (iv_Rt _ _ I) as [X|[X|(r & E & _)]]; [contradiction|exact X|].
      rewrite En in E. discriminate.
    - exact (iv_C _ _ I _ _ _ _ _ _ R IHR H0 H1 H2 _ _ H3).
    - apply RN_none in R. discriminate.
  Qed.

  Lemma apply_ops_has : forall ops d d' h,
    apply_ops false d ops = Some d' -> (forall o p, ~ In (OpDel o p) ops) ->
    (has h d = true -> has h d' = true) /\
    ((exists o p b, In (OpWrite o p b h) ops) -> has h d' = true).
  Proof.
    induction ops as [|o ops IH]; simpl; intros d d' h E Hn.
    - inversion E; subst. split; [auto|]. intros (? & ? & ? & []).
    - destruct (apply_op false d o) as [d1|] eqn:E1; [|discriminate].
      destruct o as [ow pa|ow pa blob hash]; [exfalso; eapply Hn; left; reflexivity|].
      simpl in E1. destruct blob as [|b0 bl]; [discriminate|]. inversion E1; subst d1.
      destruct (IH _ _ h E (fun o p Hin => Hn o p (or_intror Hin))) as [A B].
      assert (Hput : forall k, has k d = true -> has k (put hash (b0 :: bl) d) = true).
      { intros k Hk. apply has_true in Hk. destruct Hk as [v Hk]. apply has_true.
        rewrite get_put. destruct (beq k hash); eauto. }
      split.
      + intros Hd. apply A. apply Hput. exact Hd.
      + intros (o & p & b & [X|X]).
        * inversion X; subst. apply A. apply has_true. exists (b0 :: bl). rewrite get_put, beq_refl. reflexivity.
        * apply B. eauto.
  Qed.

  Lemma write_codes_has : forall codes d k, has k d = true -> has k (write_codes d codes) = true.
  Proof.
    unfold write_codes. induction codes as [|[h c] rest IH]; simpl; intros d k Hk; [exact Hk|].
    apply IH. apply has_true in Hk. destruct Hk as [v Hk]. apply has_true.
    rewrite get_put. destruct (beq k (code_key h)); eauto.
  Qed.

  Theorem complete_final s s' :
    invE None s -> sound s -> nreqs s = [] -> commit s = Some s' ->
    forall p h cb, RN p h cb -> has h (sc_db s') = true.
  Proof.
    intros I SO En Ec p h cb R. pose proof (all_avail s I En p h cb R) as A.
    unfold commit in Ec. rewrite (iv_sc _ _ I) in Ec.
    destruct (apply_ops false (sc_db s) (rev (mb_nodes s))) as [d|] eqn:Ea; [|discriminate].
    inversion Ec; subst. ssimpl. apply write_codes_has.
    destruct (apply_ops_has _ _ _ h Ea) as [B C].
    { intros o q Hin. apply in_rev in Hin. exact (so_nodel _ _ _ _ _ _ s SO o q Hin). }
    destruct A as [A|(o & q & b & Hin & _)]; [apply B; exact A|].
    apply C. exists o, q, b. apply -> in_rev. exact Hin.
  Qed.

  (* the destination is closed under children where it already holds target nodes *)
  Definition closed0 : Prop :=
    forall p h cb b n cl cp ch, RN p h cb -> has h db0 = true -> T h = Some b ->
      decode_node b = DOk n -> child_list p n = Some cl -> In (cp, NHash ch) cl -> has ch db0 = true.

  Lemma Inv_initial s :
    closed0 -> sc_path s = false -> sc_db s = db0 -> mb_nodes s = [] -> creqs s = [] ->
    (forall k r, In (k, r) (nreqs s) ->
       nr_data r = None /\ nr_parent r = None /\ nr_deps r = 0%Z /\ RN k (nr_hash r) (nr_cb r)) ->
    (root = empty_root H \/ availn s root \/ exists r, aget [] (nreqs s) = Some r /\ nr_hash r = root) ->
    Inv s.
  Proof.
    intros C0 S0 E1 E2 E3 Hreq RT.
    assert (Hr : forall k r, aget k (nreqs s) = Some r ->
       nr_data r = None /\ nr_parent r = None /\ nr_deps r = 0%Z /\ RN k (nr_hash r) (nr_cb r)).
    { intros k r E. apply Hreq. apply aget_In. exact E. }
    split; [|split].
    - constructor; auto.
      + intros p r b E D. destruct (Hr _ _ E) as (X & _). congruence.
      + intros o p b h Hin. rewrite E2 in Hin. destruct Hin.
      + intros p r E _. destruct (Hr _ _ E) as (_ & _ & X & _). lia.
      + intros k rc q Hin Hq. destruct (Hreq _ _ Hin) as (_ & X & _). congruence.
      + intros h c q Hin. rewrite E3 in Hin. destruct Hin.
      + intros q _ r b n cl E D. destruct (Hr _ _ E) as (X & _). congruence.
      + intros p h cb b n cl R A Th D Cl cp cn Hin. destruct cn; simpl; auto.
        * intros Hcb. apply RN_none in R. congruence.
        * left. rewrite E1. eapply C0; eauto.
          destruct A as [A|(o & q & b0 & X & _)]; [rewrite <- E1; exact A|rewrite E2 in X; destruct X].
    - intros q rq E. destruct (Hr _ _ E) as (_ & _ & X & _). rewrite X, E3.
      rewrite cntn_zero_of; [simpl; unfold zero; lia|].
      intros k rc Hin. destruct (Hreq _ _ Hin) as (_ & Y & _). congruence.
    - intros q rq E. destruct (Hr _ _ E) as (X & _ & _ & R). split; [exact R|]. intros b Y. congruence.
  Qed.

  Lemma Inv_new_sync : closed0 -> Inv (unsum (new_sync H false db0 root cb0)).
  Proof.
    intros C0. unfold new_sync, add_sub_trie.
    destruct (beq root (empty_root H)) eqn:Er.
    { apply beq_eq in Er. apply Inv_initial; auto. intros k r []. }
    assert (Hne : root <> empty_root H) by (intros X; rewrite X, beq_refl in Er; discriminate).
    change (resolve_path []) with (Some (zero32, @nil N)). cbv iota beta.
    unfold has_node; ssimpl.
    destruct (has root db0) eqn:Eh.
    { apply Inv_initial; auto; [intros k r []|]. right. left. left. exact Eh. }
    ssimpl. simpl aget. cbv iota.
    assert (Ez : negb (beq zero32 zero32) = false) by (rewrite beq_refl; reflexivity).
    rewrite Ez. simpl unsum. unfold schedule_node.
    apply Inv_initial; ssimpl; auto.
    - intros k r [X|[]]. inversion X; subst. simpl. repeat split; auto. apply RN_root. exact Hne.
    - right. right. eexists. split; [reflexivity|reflexivity].
  Qed.
End Complete.

Section Final.
  Variable H : list N -> list N.
  Variable T CD : list N -> option (list N).
  Variable root : list N.
  Variable db0 : kv.

  Lemma sound_run2 : forall ops s,
    run2_wf H T s ops -> sound H T CD root CbNone db0 s -> sound H T CD root CbNone db0 (run2 H s ops).
  Proof.
    induction ops as [|o r IH]; intros s W Hs; simpl; [exact Hs|].
    destruct W as [W1 W2]. apply IH; [exact W2|]. destruct o as [k|p h b]; simpl.
    - pose proof (sound_missing H T CD root CbNone db0 s k Hs) as X.
      destruct (missing s k) as [[s1 ns] cs]. apply X.
    - simpl in W1. destruct W1 as (W & _). unfold deliver_node.
      destruct (beq (H b) h) eqn:E; [|exact Hs]. apply beq_eq in E.
      apply sound_process_node; [|exact Hs]. intros r0 Hr. destruct (W r0 Hr) as [-> Ht]. auto.
  Qed.

  (* hash scheme, sync without leaf callback: deliveries in any order, with duplicates,
     corrupted blobs and Missing calls interleaved; when no request is pending, Commit
     leaves every node of the target in the store *)
  Theorem sync_complete_nocallback ops s' :
    closed0 H T root CbNone db0 ->
    let s0 := unsum (new_sync H false db0 root CbNone) in
    run2_wf H T s0 ops ->
    nreqs (run2 H s0 ops) = [] -> commit (run2 H s0 ops) = Some s' ->
    forall p h cb, RN H T root CbNone p h cb -> has h (sc_db s') = true.
  Proof.
    intros C0 s0 W En Ec.
    assert (HK : forall p h cb p' cb', RN H T root CbNone p h cb -> RN H T root CbNone p' h cb' -> cb = cb').
    { intros p h cb p' cb' R1 R2. apply (RN_none H T root CbNone eq_refl) in R1.
      apply (RN_none H T root CbNone eq_refl) in R2. congruence. }
    pose proof (Inv_new_sync H T CD root CbNone db0 HK eq_refl C0) as I0.
    pose proof (Inv_run2 H T CD root CbNone HK eq_refl ops _ W I0) as (I & _ & _).
    pose proof (sound_run2 ops _ W (sound_new_sync H T CD root CbNone db0)) as SO.
    eapply (complete_final H T CD root CbNone db0 HK eq_refl); eauto.
  Qed.
End Final.
